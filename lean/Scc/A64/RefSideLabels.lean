/-
  Scc.A64.RefSideLabels — SIDE HYPOTHESES of the AArch64 run theorems (C07), part 3b: THE LABELS OF THE
  EMITTED ROUTINE ARE PAIRWISE DISTINCT for every `LabelSafe` program (`labels_unique_a64`) — the AArch64
  analogue of `C14Generic.labels_unique` (which is about the mock code) and of Scc/X86/RefSideLabels.lean.
  The labels of the AArch64 body are the labels the generic generator defines (`f_`, `T_7`, `T_7_Cons`,
  `lab7`: the structured names `Lbl` of Scc/Backend/ProofsLabels.lean, with the numbers of the AArch64 run
  of the label counter) and the local labels `lab<n>` of the memory methods (RefSideLabMem.lean), all drawn
  from ONE counter; the routine wrapper adds `asm_main` and `cleanup`.
-/
import Scc.A64.RefSideLabMem
import Scc.A64.RefHeapMoves
import Scc.Backend.ProofsNames
import Scc.A64.RefCompose
import Scc.Props.C14Generic

set_option linter.unusedVariables false
set_option linter.unusedSimpArgs false

namespace Scc.A64.Ref

open Scc.AxCut Scc.Backend Scc.A64

/-- rendering of structured label names -/
abbrev R : Lbl → String := Lbl.render natRen

theorem labName_eq (n : Nat) : labName n = R (.lab n) := rfl

/-- the labels defined by `items` are the renderings of pairwise distinct structured labels, each either
one of the special labels `S` or a generated label with a number in `(a, b]`; the xtor names of clause
labels are in `X` -/
def G (S : List Lbl) (X : List String) (a b : Nat) (items : List Code) : Prop :=
  a ≤ b ∧ ∃ ls : List Lbl, labs items = ls.map R ∧ ls.Nodup ∧ (∀ l ∈ ls, l ∈ S ∨ InRange a b l) ∧
    ∀ l ∈ ls, ∀ x, l.xtor? = some x → x ∈ X

/-- the special labels are not generated labels with a number above `a` -/
def Below (a : Nat) (S : List Lbl) : Prop := ∀ l ∈ S, ∀ n, l.num = some n → n ≤ a

theorem Below.not_inRange {a b c : Nat} {S : List Lbl} (h : Below a S) {l : Lbl} (hl : l ∈ S) (hab : a ≤ b)
    (hr : InRange b c l) : False := by
  obtain ⟨k, hk, h1, _⟩ := hr
  have := h l hl k hk
  omega

theorem G.nl {items : List Code} (h : NL items) (X : List String) (a : Nat) : G [] X a a items :=
  ⟨Nat.le_refl _, [], by rw [h.labs]; rfl, List.nodup_nil, fun _ h => absurd h (List.not_mem_nil), fun _ h => absurd h (List.not_mem_nil)⟩

theorem G.nl_left {S : List Lbl} {X : List String} {a b : Nat} {c1 c2 : List Code} (h1 : NL c1)
    (h2 : G S X a b c2) : G S X a b (c1 ++ c2) := by
  obtain ⟨hab, ls, e, r⟩ := h2
  exact ⟨hab, ls, by rw [labs_append, h1.labs, List.nil_append, e], r⟩

theorem G.nl_right {S : List Lbl} {X : List String} {a b : Nat} {c1 c2 : List Code} (h1 : G S X a b c1)
    (h2 : NL c2) : G S X a b (c1 ++ c2) := by
  obtain ⟨hab, ls, e, r⟩ := h1
  exact ⟨hab, ls, by rw [labs_append, h2.labs, List.append_nil, e], r⟩

theorem G.monoX {S : List Lbl} {X X' : List String} {a b : Nat} {items : List Code} (h : G S X a b items)
    (hX : ∀ x ∈ X, x ∈ X') : G S X' a b items := by
  obtain ⟨hab, ls, e, nd, r, hx⟩ := h
  exact ⟨hab, ls, e, nd, r, fun l hl x hlx => hX x (hx l hl x hlx)⟩

theorem G.monoS {S S' : List Lbl} {X : List String} {a b : Nat} {items : List Code} (h : G S X a b items)
    (hS : ∀ l ∈ S, l ∈ S') : G S' X a b items := by
  obtain ⟨hab, ls, e, nd, r, hx⟩ := h
  exact ⟨hab, ls, e, nd, fun l hl => (r l hl).imp (hS l) id, hx⟩

theorem G.widen {S : List Lbl} {X : List String} {a b a' b' : Nat} {items : List Code} (h : G S X a b items)
    (h1 : a' ≤ a) (h2 : b ≤ b') : G S X a' b' items := by
  obtain ⟨hab, ls, e, nd, r, hx⟩ := h
  exact ⟨by omega, ls, e, nd, fun l hl => (r l hl).imp id (fun h => h.mono h1 h2), hx⟩

/-- two pieces of code generated one after the other -/
theorem G.append {S1 S2 : List Lbl} {X : List String} {a b c : Nat} {c1 c2 : List Code}
    (h1 : G S1 X a b c1) (h2 : G S2 X b c c2) (hd : ∀ l ∈ S1, ∀ l' ∈ S2, l ≠ l')
    (hb1 : Below a S1) (hb2 : Below a S2) : G (S1 ++ S2) X a c (c1 ++ c2) := by
  obtain ⟨hab, l1, e1, d1, r1, x1⟩ := h1
  obtain ⟨hbc, l2, e2, d2, r2, x2⟩ := h2
  refine ⟨by omega, l1 ++ l2, by rw [labs_append, e1, e2, List.map_append], ?_, ?_, ?_⟩
  · rw [List.nodup_append]
    refine ⟨d1, d2, ?_⟩
    intro x hx y hy e
    subst e
    rcases r1 x hx with hs1 | hr1
    · rcases r2 x hy with hs2 | hr2
      · exact hd x hs1 x hs2 rfl
      · exact hb1.not_inRange hs1 hab hr2
    · rcases r2 x hy with hs2 | hr2
      · exact hb2.not_inRange hs2 (Nat.le_refl _) hr1
      · exact hr1.disjoint hr2 (Nat.le_refl _)
  · intro l hl
    rcases List.mem_append.1 hl with h | h
    · exact (r1 l h).imp (fun h => List.mem_append_left _ h) (fun h => h.mono (Nat.le_refl _) hbc)
    · exact (r2 l h).imp (fun h => List.mem_append_right _ h) (fun h => h.mono hab (Nat.le_refl _))
  · intro l hl
    rcases List.mem_append.1 hl with h | h
    · exact x1 l h
    · exact x2 l h

/-- the same when the second piece stands BEFORE the first in the code -/
theorem G.append' {S1 S2 : List Lbl} {X : List String} {a b c : Nat} {c1 c2 : List Code}
    (h1 : G S1 X a b c1) (h2 : G S2 X b c c2) (hd : ∀ l ∈ S1, ∀ l' ∈ S2, l ≠ l')
    (hb1 : Below a S1) (hb2 : Below a S2) : G (S1 ++ S2) X a c (c2 ++ c1) := by
  obtain ⟨hab, l1, e1, d1, r1, x1⟩ := h1
  obtain ⟨hbc, l2, e2, d2, r2, x2⟩ := h2
  refine ⟨by omega, l2 ++ l1, by rw [labs_append, e1, e2, List.map_append], ?_, ?_, ?_⟩
  · rw [List.nodup_append]
    refine ⟨d2, d1, ?_⟩
    intro y hy x hx e
    subst e
    rcases r1 y hx with hs1 | hr1
    · rcases r2 y hy with hs2 | hr2
      · exact hd y hs1 y hs2 rfl
      · exact hb1.not_inRange hs1 hab hr2
    · rcases r2 y hy with hs2 | hr2
      · exact hb2.not_inRange hs2 (Nat.le_refl _) hr1
      · exact hr1.disjoint hr2 (Nat.le_refl _)
  · intro l hl
    rcases List.mem_append.1 hl with h | h
    · exact (r2 l h).imp (fun h => List.mem_append_right _ h) (fun h => h.mono hab (Nat.le_refl _))
    · exact (r1 l h).imp (fun h => List.mem_append_left _ h) (fun h => h.mono (Nat.le_refl _) hbc)
  · intro l hl
    rcases List.mem_append.1 hl with h | h
    · exact x2 l h
    · exact x1 l h

/-- special labels whose numbers lie in the range are ordinary generated labels -/
theorem G.toRange {S : List Lbl} {X : List String} {a b a0 : Nat} {items : List Code} (h : G S X a b items)
    (h0 : a0 ≤ a) (hS : ∀ l ∈ S, InRange a0 b l) : G [] X a0 b items := by
  obtain ⟨hab, ls, e, nd, r, hx⟩ := h
  refine ⟨by omega, ls, e, nd, ?_, hx⟩
  intro l hl
  rcases r l hl with h | h
  · exact Or.inr (hS l h)
  · exact Or.inr (h.mono h0 (Nat.le_refl _))

/-- one label definition -/
theorem G.lab (l : Lbl) (X : List String) (a : Nat) (hx : ∀ x, l.xtor? = some x → x ∈ X) :
    G [l] X a a [Code.LAB (R l)] :=
  ⟨Nat.le_refl _, [l], rfl, by simp, fun l' hl' => Or.inl hl', fun l' hl' x hlx => by
    simp only [List.mem_singleton] at hl'
    subst hl'
    exact hx x hlx⟩

/-- the local labels of a memory method -/
theorem G.ofLFC {a b : Nat} {code : List Code} (h : LFC a b code) (X : List String) : G [] X a b code := by
  obtain ⟨hab, ns, e, nd, hr⟩ := h
  refine ⟨hab, ns.map Lbl.lab, by rw [e, List.map_map]; rfl, ?_, ?_, ?_⟩
  · exact nodup_map_of_inj_on Lbl.lab ns (fun a _ b _ h => by injection h) nd
  · intro l hl
    obtain ⟨n, hn, rfl⟩ := List.mem_map.1 hl
    have := hr n hn
    exact Or.inr ⟨n, rfl, this.1, this.2⟩
  · intro l hl x hlx
    obtain ⟨n, hn, rfl⟩ := List.mem_map.1 hl
    cases hlx

/-! ## the pieces of the generic generator on the AArch64 backend -/

theorem nl_comment (m : String) : NL [a64Backend.comment m] := noL_single rfl

theorem nl_hook (hooks : Bool) (Γ : Ctx) (m : String) :
    NL (hookCode a64Backend hooks Γ ++ [a64Backend.comment m]) := by
  unfold hookCode
  cases hooks
  · exact noL_single rfl
  · exact noL_cons rfl (noL_single rfl)

theorem nl_loadLabel (t : Temporary) (l : String) : NL (loadLabel t l) := by
  cases t
  · exact noL_single rfl
  · exact noL_cons rfl (noL_single rfl)

theorem nl_jump (t : Temporary) : NL (jump t) := by
  cases t
  · exact noL_single rfl
  · exact noL_cons rfl (noL_single rfl)

theorem nl_addAndJump (t : Temporary) (i : Int) : NL (addAndJump t i) := by
  cases t
  · exact noL_cons rfl (noL_single rfl)
  · exact noL_cons rfl (noL_cons rfl (noL_single rfl))

theorem nl_jumpLabelIf (s : IfSort) (a b : Temporary) (l : String) : NL (jumpLabelIf s a b l) :=
  NL.append (noL_compare a b) (noL_single (labOf_branchOf s l))

theorem nl_jumpLabelIfZero (s : IfSort) (a : Temporary) (l : String) : NL (jumpLabelIfZero s a l) :=
  NL.append (noL_compareImmediate a 0) (noL_single (labOf_branchOf s l))

theorem nl_codeTable (base : String) : ∀ (cs : Clauses), NL (codeTable a64Backend cs base)
  | .nil => NL.nil
  | .cons x _ _ rest => by
    simp only [codeTable]
    exact NL.append (noL_single rfl) (nl_codeTable base rest)

theorem mseg_nl {g g' : Mode} {ops : List MockOp} {code : List Code} (S : MSeg g ops code g') : NL code := by
  induction S with
  | nil g => exact NL.nil
  | @cons g0 g1 g2 op blk ops' cs' hop _ ih =>
    refine NL.append ?_ ih
    cases op <;> simp only [MOpRel] at hop
    · obtain ⟨rfl, _⟩ := hop; exact noL_single rfl
    · obtain ⟨_, _, rfl, _⟩ := hop; exact noL_mov _ _
    · obtain ⟨b, rfl, _⟩ := hop; exact noL_storeTemporary _ _
    · obtain ⟨b, rfl, _⟩ := hop; exact noL_restoreTemporary _ _

theorem codeExchange_nl {tm : List (Binding × List Nat)} {Γ newΓ : Ctx} {k : Nat} {code : List Code} {k' : Nat}
    (h : (codeExchange a64Backend tm Γ newΓ).run k = .ok (code, k')) : k' = k ∧ NL code := by
  obtain ⟨ops, _, S⟩ := mseg_codeExchange tm Γ newΓ h
  refine ⟨?_, mseg_nl S⟩
  unfold codeExchange connections at h
  simp only [run_bind_ok] at h
  obtain ⟨connsX, c1, h1, h2⟩ := h
  obtain ⟨connsM, _, _, rfl, _⟩ := connections_go_relT Γ newΓ tm [] k connsX c1 (fun _ h => by simp at h) h1
  cases hpm : parallelMoves a64Backend connsX with
  | error e => rw [hpm] at h2; exact ((run_throw_ok _ _ _ _).1 h2).elim
  | ok code' =>
    rw [hpm] at h2
    simp only [run_pure_ok] at h2
    exact h2.2.symm

theorem urc_lfc {var : Ident} {Γ : Ctx} {n k : Nat} {code : List Code} {k' : Nat}
    (h : (updateReferenceCount a64Backend var Γ n).run k = .ok (code, k')) : LFC k k' code := by
  unfold updateReferenceCount at h
  simp only [run_bind_ok] at h
  obtain ⟨t, c1, ht, h⟩ := h
  have := a64_vt_k ht
  subst this
  match n with
  | 0 =>
    simp only [run_bind_ok, run_pure_ok] at h
    obtain ⟨cd, c2, hcd, rfl, rfl⟩ := h
    have := lfc_eraseBlock hcd
    exact ⟨this.1, by rw [labs_cons_other rfl]; exact this.2⟩
  | 1 =>
    simp only [run_pure_ok] at h
    obtain ⟨rfl, rfl⟩ := h
    exact LFC.of_nl NL.nil _
  | m + 2 =>
    simp only [run_bind_ok, run_pure_ok] at h
    obtain ⟨cd, c2, hcd, rfl, rfl⟩ := h
    have := lfc_shareBlockN hcd
    exact ⟨this.1, by rw [labs_cons_other rfl]; exact this.2⟩

theorem cwc_lfc (Γ : Ctx) : ∀ (tm : List (Binding × List Nat)) (k : Nat) (code : List Code) (k' : Nat),
    (codeWeakeningContraction a64Backend tm Γ).run k = .ok (code, k') → LFC k k' code
  | [], k, code, k', h => by
    simp only [codeWeakeningContraction, run_pure_ok] at h
    obtain ⟨rfl, rfl⟩ := h
    exact LFC.of_nl NL.nil _
  | (b, targets) :: rest, k, code, k', h => by
    simp only [codeWeakeningContraction, run_bind_ok, run_pure_ok] at h
    obtain ⟨c1, k1, h1, c2, k2, h2, rfl, rfl⟩ := h
    have l2 := cwc_lfc Γ rest _ _ _ h2
    have l1 : LFC k k1 c1 := by
      split at h1
      · exact urc_lfc h1
      · simp only [run_pure_ok] at h1
        obtain ⟨rfl, rfl⟩ := h1
        exact LFC.of_nl NL.nil _
    exact l1.append l2

/-! ## statements, clauses, methods -/

/-- the clause labels of a clause list with base label `m_n` -/
def clauseLbls (m : String) (n : Nat) (cs : Clauses) : List Lbl := (xtorNames cs).map (Lbl.clause m n)

theorem below_clauseLbls {m : String} {n a : Nat} (h : n ≤ a) (cs : Clauses) : Below a (clauseLbls m n cs) := by
  intro l hl k hk
  obtain ⟨x, _, rfl⟩ := List.mem_map.1 hl
  cases hk
  exact h

theorem below_nil (a : Nat) : Below a [] := fun _ h => absurd h List.not_mem_nil

theorem below_single {l : Lbl} {n a : Nat} (hn : l.num = some n) (h : n ≤ a) : Below a [l] := by
  intro l' hl' k hk
  simp only [List.mem_singleton] at hl'
  subst hl'
  rw [hn] at hk
  cases hk
  exact h

theorem disj_nil_left (S : List Lbl) : ∀ l ∈ ([] : List Lbl), ∀ l' ∈ S, l ≠ l' := fun _ h => absurd h List.not_mem_nil

theorem disj_nil_right (S : List Lbl) : ∀ l ∈ S, ∀ l' ∈ ([] : List Lbl), l ≠ l' :=
  fun _ _ _ h => absurd h List.not_mem_nil

theorem G.app0 {X : List String} {a b c : Nat} {c1 c2 : List Code} (h1 : G [] X a b c1) (h2 : G [] X b c c2) :
    G [] X a c (c1 ++ c2) :=
  G.append h1 h2 (disj_nil_left _) (below_nil _) (below_nil _)

theorem vt_k' {n : TempNum} {Γ : Ctx} {id k : Nat} {t : Temporary} {k' : Nat}
    (h : (variableTemporary n Γ id).run k = .ok (t, k')) : k' = k := a64_vt_k h

section
variable (hooks : Bool) (types : List TypeDecl)

mutual
theorem g_stmt : ∀ (s : Stmt) (Γ : Ctx) (k : Nat) (items : List Code) (k' : Nat),
    (codeStatementR a64Backend hooks natRen types s Γ).run k = .ok (items, k') → stmtXtorsDistinct s = true →
    G [] (stmtXtorNames s) k k' items
  | .subst pairs next, Γ, k, items, k', h, hx => by
    simp only [codeStatementR, run_bind_ok, run_pure_ok] at h
    obtain ⟨c1, k1, h1, c2, k2, h2, c3, k3, h3, rfl, rfl⟩ := h
    obtain ⟨rfl, n2⟩ := codeExchange_nl h2
    simp only [stmtXtorsDistinct] at hx
    have g3 := g_stmt next _ _ _ _ h3 hx
    have l1 := cwc_lfc Γ _ _ _ _ h1
    simp only [stmtXtorNames]
    exact G.app0 (G.nl_right (G.nl_left (nl_hook hooks Γ _) (G.ofLFC l1 _)) n2) g3
  | .call l args, Γ, k, items, k', h, hx => by
    simp only [codeStatementR, run_pure_ok] at h
    obtain ⟨rfl, rfl⟩ := h
    exact G.nl (NL.append (nl_hook hooks Γ _) (noL_single rfl)) _ _
  | .letS x ty tag args next fv, Γ, k, items, k', h, hx => by
    simp only [codeStatementR, run_bind_ok, run_pure_ok, lookupTypeDeclM_run_ok, xtorPositionM_run_ok,
      splitOffLast_run_ok] at h
    obtain ⟨decl, k1, ⟨_, rfl⟩, pos, k2, ⟨_, rfl⟩, sp, k3, ⟨_, rfl, rfl⟩, c1, k4, h1, t, k5, h5, c3, k6, h3,
      rfl, rfl⟩ := h
    have := (a64_vt_k h5).symm
    subst this
    simp only [stmtXtorsDistinct] at hx
    have g3 := g_stmt next _ _ _ _ h3 hx
    have l1 := lfc_store h1
    simp only [stmtXtorNames]
    have n2 : NL (a64Backend.comment "#load tag" :: a64Backend.loadImmediate t (a64Backend.jumpLength pos)) := by
      intro c hc
      rcases List.mem_cons.1 hc with rfl | hc
      · rfl
      · exact nl_loadImmediate _ _ c hc
    exact G.app0 (G.nl_right (G.nl_left (nl_hook hooks Γ _) (G.ofLFC l1 _)) n2) g3
  | .switch x ty clauses fv, Γ, k, items, k', h, hx => by
    simp only [codeStatementR, run_bind_ok, run_pure_ok, freshLabelStr_run_ok] at h
    obtain ⟨num, k1, ⟨rfl, rfl⟩, c1, k2, h1, c3, k3, h3, rfl, rfl⟩ := h
    simp only [stmtXtorsDistinct, Bool.and_eq_true, decide_eq_true_eq] at hx
    have hc1 : k2 = k + 1 ∧ NL c1 := by
      split at h1
      · simp only [run_pure_ok] at h1
        obtain ⟨rfl, rfl⟩ := h1
        exact ⟨rfl, noL_single rfl⟩
      · simp only [run_bind_ok, run_pure_ok] at h1
        obtain ⟨t, k4, h4, rfl, rfl⟩ := h1
        have := (a64_vt_k h4).symm
        subst this
        exact ⟨rfl, NL.append (NL.append (nl_loadLabel a64Backend.temp _) (show NL (op BinOp.sum (.register TEMP) (.register TEMP) t) from noL_op _ _ _ _)) (nl_jump a64Backend.temp)⟩
    obtain ⟨rfl, n1⟩ := hc1
    have g3 := g_clauses (mangleTy ty) (k + 1) clauses _ _ _ _ h3 hx.1 hx.2 (Nat.le_refl _)
    simp only [stmtXtorNames]
    have g2 : G [Lbl.base (mangleTy ty) (k + 1)] (xtorNames clauses ++ clausesXtorNames clauses) (k + 1) (k + 1)
        (a64Backend.label (mangleTy ty ++ "_" ++ natRen (k + 1)) ::
          (if clauses.length > 1 then codeTable a64Backend clauses (mangleTy ty ++ "_" ++ natRen (k + 1)) else [])) := by
      have := G.lab (Lbl.base (mangleTy ty) (k + 1)) (xtorNames clauses ++ clausesXtorNames clauses) (k + 1)
        (fun x hx => by cases hx)
      have h2 := G.nl_right this (c2 := if clauses.length > 1 then
        codeTable a64Backend clauses (mangleTy ty ++ "_" ++ natRen (k + 1)) else []) (by
          split
          · exact nl_codeTable _ _
          · exact NL.nil)
      exact h2
    have g23 := G.append g2 g3 (by
        intro l hl l' hl' e
        simp only [List.mem_singleton] at hl
        subst hl
        obtain ⟨x, _, rfl⟩ := List.mem_map.1 hl'
        cases e) (below_single rfl (Nat.le_refl _)) (below_clauseLbls (Nat.le_refl _) _)
    have g := g23.toRange (a0 := k) (by omega) (by
      intro l hl
      have hk := g23.1
      rcases List.mem_append.1 hl with hl | hl
      · simp only [List.mem_singleton] at hl
        subst hl
        exact ⟨k + 1, rfl, by omega, hk⟩
      · obtain ⟨x, _, rfl⟩ := List.mem_map.1 hl
        exact ⟨k + 1, rfl, by omega, hk⟩)
    have e : hookCode a64Backend hooks Γ ++ [a64Backend.comment ("switch " ++ x.print ++ " \\{ ... \\};")] ++ c1 ++
        a64Backend.label (mangleTy ty ++ "_" ++ natRen (k + 1)) ::
          (if clauses.length > 1 then codeTable a64Backend clauses (mangleTy ty ++ "_" ++ natRen (k + 1)) else []) ++ c3 =
        (hookCode a64Backend hooks Γ ++ [a64Backend.comment ("switch " ++ x.print ++ " \\{ ... \\};")] ++ c1) ++
        ((a64Backend.label (mangleTy ty ++ "_" ++ natRen (k + 1)) ::
          (if clauses.length > 1 then codeTable a64Backend clauses (mangleTy ty ++ "_" ++ natRen (k + 1)) else [])) ++ c3) := by
      simp [List.append_assoc]
    rw [e]
    exact G.nl_left (NL.append (nl_hook hooks Γ _) n1) g
  | .create x ty env clauses next f1 f2, Γ, k, items, k', h, hx => by
    cases env with
    | none =>
      simp only [codeStatementR] at h
      exact ((run_throw_ok _ _ _ _).1 h).elim
    | some envCtx =>
      simp only [codeStatementR, run_bind_ok, run_pure_ok, freshLabelStr_run_ok, splitOffLast_run_ok] at h
      obtain ⟨sp, k1, ⟨_, rfl, rfl⟩, c1, k2, h1, num, k3, ⟨rfl, rfl⟩, t, k4, h4, c3, k5, h3, c5, k6, h5,
        rfl, rfl⟩ := h
      have := (a64_vt_k h4).symm
      subst this
      simp only [stmtXtorsDistinct, Bool.and_eq_true, decide_eq_true_eq] at hx
      have l1 := lfc_store h1
      have g3 := g_stmt next _ _ _ _ h3 hx.1
      have hk35 := g3.1
      have g5 := g_methods (mangleTy ty) (k2 + 1) clauses _ _ _ _ h5 hx.2.1 hx.2.2 hk35
      simp only [stmtXtorNames]
      generalize hX : stmtXtorNames next ++ (xtorNames clauses ++ clausesXtorNames clauses) = X
      have g3' : G [] X (k2 + 1) k5 c3 := g3.monoX (by intro x hx; rw [← hX]; exact List.mem_append_left _ hx)
      have g5' : G (clauseLbls (mangleTy ty) (k2 + 1) clauses) X k5 k6 c5 :=
        g5.monoX (by intro x hx; rw [← hX]; exact List.mem_append_right _ hx)
      have g4 : G [Lbl.base (mangleTy ty) (k2 + 1)] X k5 k5
          (a64Backend.label (mangleTy ty ++ "_" ++ natRen (k2 + 1)) ::
            (if clauses.length > 1 then codeTable a64Backend clauses (mangleTy ty ++ "_" ++ natRen (k2 + 1)) else [])) := by
        have := G.lab (Lbl.base (mangleTy ty) (k2 + 1)) X k5 (fun x hx => by cases hx)
        exact G.nl_right this (c2 := if clauses.length > 1 then
          codeTable a64Backend clauses (mangleTy ty ++ "_" ++ natRen (k2 + 1)) else []) (by
            split
            · exact nl_codeTable _ _
            · exact NL.nil)
      have g45 := G.append g4 g5' (by
          intro l hl l' hl' e
          simp only [List.mem_singleton] at hl
          subst hl
          obtain ⟨x, _, rfl⟩ := List.mem_map.1 hl'
          cases e) (below_single rfl hk35) (below_clauseLbls hk35 _)
      have g345 := G.append g3' g45 (disj_nil_left _) (below_nil _) (by
        intro l hl n hn
        rcases List.mem_append.1 hl with hl | hl
        · simp only [List.mem_singleton] at hl
          subst hl
          cases hn; exact Nat.le_refl _
        · obtain ⟨x, _, rfl⟩ := List.mem_map.1 hl
          cases hn; exact Nat.le_refl _)
      have g := g345.toRange (a0 := k2) (by omega) (by
        intro l hl
        have hk := g345.1
        simp only [List.nil_append] at hl
        rcases List.mem_append.1 hl with hl | hl
        · simp only [List.mem_singleton] at hl
          subst hl
          exact ⟨k2 + 1, rfl, by omega, hk⟩
        · obtain ⟨x, _, rfl⟩ := List.mem_map.1 hl
          exact ⟨k2 + 1, rfl, by omega, hk⟩)
      have n2 : NL (a64Backend.comment "#load tag" :: a64Backend.loadLabel t (mangleTy ty ++ "_" ++ natRen (k2 + 1))) := by
        intro c hc
        rcases List.mem_cons.1 hc with rfl | hc
        · rfl
        · exact nl_loadLabel _ _ c hc
      have gA := G.nl_right (G.nl_left (nl_hook hooks Γ ("create " ++ x.print ++ ": " ++ tyPrint ty ++ " = (" ++
        varsPrint envCtx ++ ")\\{ ... \\};")) (G.ofLFC l1 X)) n2
      have gAll := G.app0 gA g
      refine Eq.mp ?_ gAll
      congr 1
      simp [List.append_assoc]
  | .invoke x tag ty args, Γ, k, items, k', h, hx => by
    simp only [codeStatementR, run_bind_ok, lookupTypeDeclM_run_ok] at h
    obtain ⟨t, k1, h1, decl, k2, ⟨_, rfl⟩, h2⟩ := h
    have := (a64_vt_k h1).symm
    subst this
    split at h2
    · simp only [run_pure_ok] at h2
      obtain ⟨rfl, rfl⟩ := h2
      exact G.nl (NL.append (NL.append (nl_hook hooks Γ _) (noL_single rfl)) (nl_jump _)) _ _
    · simp only [run_bind_ok, run_pure_ok, xtorPositionM_run_ok] at h2
      obtain ⟨pos, k3, ⟨_, rfl⟩, rfl, rfl⟩ := h2
      exact G.nl (NL.append (nl_hook hooks Γ _) (nl_addAndJump _ _)) _ _
  | .lit x n next fv, Γ, k, items, k', h, hx => by
    simp only [codeStatementR, run_bind_ok, run_pure_ok] at h
    obtain ⟨t, k1, h1, c2, k2, h2, rfl, rfl⟩ := h
    have := (a64_vt_k h1).symm
    subst this
    simp only [stmtXtorsDistinct] at hx
    have g2 := g_stmt next _ _ _ _ h2 hx
    simp only [stmtXtorNames]
    exact G.nl_left (NL.append (nl_hook hooks Γ _) (nl_loadImmediate _ _)) g2
  | .op x a o b next fv, Γ, k, items, k', h, hx => by
    simp only [codeStatementR, run_bind_ok, run_pure_ok] at h
    obtain ⟨t, k1, h1, s1, k2, h2, s2, k3, h3, c2, k4, h4, rfl, rfl⟩ := h
    have := (a64_vt_k h1).symm
    subst this
    have := (a64_vt_k h2).symm
    subst this
    have := (a64_vt_k h3).symm
    subst this
    simp only [stmtXtorsDistinct] at hx
    have g2 := g_stmt next _ _ _ _ h4 hx
    simp only [stmtXtorNames]
    exact G.nl_left (NL.append (nl_hook hooks Γ _) (noL_op _ _ _ _)) g2
  | .print nl a next fv, Γ, k, items, k', h, hx => by
    simp only [codeStatementR, run_bind_ok, run_pure_ok] at h
    obtain ⟨t, k1, h1, c1, k2, h2, c2, k3, h3, rfl, rfl⟩ := h
    have := (a64_vt_k h1).symm
    subst this
    have hp : k2 = k ∧ NL c1 := by
      have h2' : (pure (printI64 nl t Γ) : GenM (List Code)).run k = .ok (c1, k2) := h2
      simp only [run_pure_ok] at h2'
      obtain ⟨rfl, rfl⟩ := h2'
      exact ⟨rfl, noL_of_cc (CC.noLab_printI64 _ _ _)⟩
    obtain ⟨rfl, n1⟩ := hp
    simp only [stmtXtorsDistinct] at hx
    have g2 := g_stmt next _ _ _ _ h3 hx
    simp only [stmtXtorNames]
    exact G.nl_left (NL.append (nl_hook hooks Γ _) n1) g2
  | .ifc srt a b thenc elsec, Γ, k, items, k', h, hx => by
    simp only [codeStatementR, run_bind_ok, run_pure_ok, freshLabelStr_run_ok] at h
    obtain ⟨num, k1, ⟨rfl, rfl⟩, c1, k2, h1, c2, k3, h2, c3, k4, h3, rfl, rfl⟩ := h
    have hc1 : k2 = k + 1 ∧ NL c1 := by
      cases b with
      | none =>
        simp only [run_bind_ok, run_pure_ok] at h1
        obtain ⟨t, k5, h5, rfl, rfl⟩ := h1
        have := (a64_vt_k h5).symm
        subst this
        exact ⟨rfl, nl_jumpLabelIfZero _ _ _⟩
      | some b' =>
        simp only [run_bind_ok, run_pure_ok] at h1
        obtain ⟨t, k5, h5, t2, k6, h6, rfl, rfl⟩ := h1
        have := (a64_vt_k h5).symm
        subst this
        have := (a64_vt_k h6).symm
        subst this
        exact ⟨rfl, nl_jumpLabelIf _ _ _ _⟩
    obtain ⟨rfl, n1⟩ := hc1
    simp only [stmtXtorsDistinct, Bool.and_eq_true] at hx
    have g2 := g_stmt elsec _ _ _ _ h2 hx.1
    have g3 := g_stmt thenc _ _ _ _ h3 hx.2
    simp only [stmtXtorNames]
    generalize hX : stmtXtorNames elsec ++ stmtXtorNames thenc = X
    have g2' : G [] X (k + 1) k3 c2 := g2.monoX (by intro x hx; rw [← hX]; exact List.mem_append_left _ hx)
    have g3' : G [] X k3 k4 c3 := g3.monoX (by intro x hx; rw [← hX]; exact List.mem_append_right _ hx)
    have hk13 := g2.1
    have gl : G [Lbl.lab (k + 1)] X k3 k3 [a64Backend.label ("lab" ++ natRen (k + 1)), a64Backend.comment "then branch"] := by
      have := G.lab (Lbl.lab (k + 1)) X k3 (fun x hx => by cases hx)
      exact G.nl_right this (c2 := [a64Backend.comment "then branch"]) (noL_single rfl)
    have gl3 := G.append gl g3' (disj_nil_right _) (below_single rfl hk13) (below_nil _)
    have g23 := G.append g2' gl3 (disj_nil_left _) (below_nil _) (by
      intro l hl n hn
      simp only [List.append_nil, List.mem_singleton] at hl
      subst hl
      cases hn; exact Nat.le_refl _)
    have g := g23.toRange (a0 := k) (by omega) (by
      intro l hl
      have hk := g23.1
      simp only [List.nil_append, List.append_nil, List.mem_singleton] at hl
      subst hl
      exact ⟨k + 1, rfl, by omega, hk⟩)
    have gAll := G.nl_left (NL.append (NL.append (nl_hook hooks Γ (ifcComment srt a b)) n1)
      (show NL [a64Backend.comment "else branch"] from noL_single rfl)) g
    refine Eq.mp ?_ gAll
    congr 1
    simp [List.append_assoc]
  | .exit a, Γ, k, items, k', h, hx => by
    simp only [codeStatementR, run_bind_ok, run_pure_ok] at h
    obtain ⟨t, k1, h1, rfl, rfl⟩ := h
    have := (a64_vt_k h1).symm
    subst this
    exact G.nl (NL.append (NL.append (nl_hook hooks Γ _) (noL_mov _ _)) (noL_single rfl)) _ _
theorem g_clauses (m : String) (n : Nat) : ∀ (cs : Clauses) (Γ : Ctx) (k : Nat) (items : List Code) (k' : Nat),
    (codeClausesR a64Backend hooks natRen types Γ cs (m ++ "_" ++ natRen n)).run k = .ok (items, k') →
    (xtorNames cs).Nodup → clausesXtorsDistinct cs = true → n ≤ k →
    G (clauseLbls m n cs) (xtorNames cs ++ clausesXtorNames cs) k k' items
  | .nil, Γ, k, items, k', h, _, _, _ => by
    simp only [codeClausesR, run_pure_ok] at h
    obtain ⟨rfl, rfl⟩ := h
    exact G.nl NL.nil _ _
  | .cons x cctx body rest, Γ, k, items, k', h, hnd, hx, hn => by
    simp only [codeClausesR, run_bind_ok, run_pure_ok] at h
    obtain ⟨c1, k1, h1, c2, k2, h2, c3, k3, h3, rfl, rfl⟩ := h
    simp only [clausesXtorsDistinct, Bool.and_eq_true] at hx
    simp only [xtorNames, List.nodup_cons] at hnd
    have l1 := lfc_load h1
    have g2 := g_stmt body _ _ _ _ h2 hx.1
    have hk12 := l1.1
    have hk23 := g2.1
    have g3 := g_clauses m n rest _ _ _ _ h3 hnd.2 hx.2 (by omega)
    generalize hX : xtorNames (.cons x cctx body rest) ++ clausesXtorNames (.cons x cctx body rest) = X
    have hX1 : x.print ∈ X := by rw [← hX]; simp [xtorNames]
    have g2' : G [] X k1 k2 c2 := g2.monoX (by
      intro y hy; rw [← hX]; simp only [clausesXtorNames, xtorNames, List.mem_append, List.mem_cons]
      exact Or.inr (Or.inl hy))
    have g3' : G (clauseLbls m n rest) X k2 k3 c3 := g3.monoX (by
      intro y hy; rw [← hX]; simp only [clausesXtorNames, xtorNames, List.mem_append, List.mem_cons] at hy ⊢
      rcases hy with hy | hy
      · exact Or.inl (Or.inr hy)
      · exact Or.inr (Or.inr hy))
    have g23 := G.append g2' g3' (disj_nil_left _) (below_nil _) (below_clauseLbls (by omega) _)
    have g123 := G.append (G.ofLFC l1 X) g23 (disj_nil_left _) (below_nil _) (by
      simp only [List.nil_append]; exact below_clauseLbls hn _)
    have gl : G [Lbl.clause m n x.print] X k k [a64Backend.label (clauseLabel (m ++ "_" ++ natRen n) x)] :=
      G.lab (Lbl.clause m n x.print) X k (fun y hy => by cases hy; exact hX1)
    have gAll := G.append gl g123 (by
        intro l hl l' hl' e
        simp only [List.mem_singleton] at hl
        subst hl
        simp only [List.nil_append] at hl'
        obtain ⟨y, hy, e'⟩ := List.mem_map.1 hl'
        rw [← e'] at e
        injection e with _ _ e3
        rw [← e3] at hy
        exact hnd.1 hy) (below_single rfl hn) (by
      simp only [List.nil_append]; exact below_clauseLbls hn _)
    have e1 : [Lbl.clause m n x.print] ++ ([] ++ ([] ++ clauseLbls m n rest)) =
        clauseLbls m n (.cons x cctx body rest) := rfl
    have e2 : [a64Backend.label (clauseLabel (m ++ "_" ++ natRen n) x)] ++ (c1 ++ (c2 ++ c3)) =
        a64Backend.label (clauseLabel (m ++ "_" ++ natRen n) x) :: c1 ++ c2 ++ c3 := by
      simp [List.append_assoc]
    rw [e1, e2] at gAll
    exact gAll
theorem g_methods (m : String) (n : Nat) : ∀ (cs : Clauses) (env : Ctx) (k : Nat) (items : List Code) (k' : Nat),
    (codeMethodsR a64Backend hooks natRen types env cs (m ++ "_" ++ natRen n)).run k = .ok (items, k') →
    (xtorNames cs).Nodup → clausesXtorsDistinct cs = true → n ≤ k →
    G (clauseLbls m n cs) (xtorNames cs ++ clausesXtorNames cs) k k' items
  | .nil, env, k, items, k', h, _, _, _ => by
    simp only [codeMethodsR, run_pure_ok] at h
    obtain ⟨rfl, rfl⟩ := h
    exact G.nl NL.nil _ _
  | .cons x cctx body rest, env, k, items, k', h, hnd, hx, hn => by
    simp only [codeMethodsR, run_bind_ok, run_pure_ok] at h
    obtain ⟨c1, k1, h1, c2, k2, h2, c3, k3, h3, rfl, rfl⟩ := h
    simp only [clausesXtorsDistinct, Bool.and_eq_true] at hx
    simp only [xtorNames, List.nodup_cons] at hnd
    have l1 := lfc_load h1
    have g2 := g_stmt body _ _ _ _ h2 hx.1
    have hk12 := l1.1
    have hk23 := g2.1
    have g3 := g_methods m n rest _ _ _ _ h3 hnd.2 hx.2 (by omega)
    generalize hX : xtorNames (.cons x cctx body rest) ++ clausesXtorNames (.cons x cctx body rest) = X
    have hX1 : x.print ∈ X := by rw [← hX]; simp [xtorNames]
    have g2' : G [] X k1 k2 c2 := g2.monoX (by
      intro y hy; rw [← hX]; simp only [clausesXtorNames, xtorNames, List.mem_append, List.mem_cons]
      exact Or.inr (Or.inl hy))
    have g3' : G (clauseLbls m n rest) X k2 k3 c3 := g3.monoX (by
      intro y hy; rw [← hX]; simp only [clausesXtorNames, xtorNames, List.mem_append, List.mem_cons] at hy ⊢
      rcases hy with hy | hy
      · exact Or.inl (Or.inr hy)
      · exact Or.inr (Or.inr hy))
    have g23 := G.append g2' g3' (disj_nil_left _) (below_nil _) (below_clauseLbls (by omega) _)
    have g123 := G.append (G.ofLFC l1 X) g23 (disj_nil_left _) (below_nil _) (by
      simp only [List.nil_append]; exact below_clauseLbls hn _)
    have gl : G [Lbl.clause m n x.print] X k k [a64Backend.label (clauseLabel (m ++ "_" ++ natRen n) x)] :=
      G.lab (Lbl.clause m n x.print) X k (fun y hy => by cases hy; exact hX1)
    have gAll := G.append gl g123 (by
        intro l hl l' hl' e
        simp only [List.mem_singleton] at hl
        subst hl
        simp only [List.nil_append] at hl'
        obtain ⟨y, hy, e'⟩ := List.mem_map.1 hl'
        rw [← e'] at e
        injection e with _ _ e3
        rw [← e3] at hy
        exact hnd.1 hy) (below_single rfl hn) (by
      simp only [List.nil_append]; exact below_clauseLbls hn _)
    have e1 : [Lbl.clause m n x.print] ++ ([] ++ ([] ++ clauseLbls m n rest)) =
        clauseLbls m n (.cons x cctx body rest) := rfl
    have e2 : [a64Backend.label (clauseLabel (m ++ "_" ++ natRen n) x)] ++ (c1 ++ (c2 ++ c3)) =
        a64Backend.label (clauseLabel (m ++ "_" ++ natRen n) x) :: c1 ++ c2 ++ c3 := by
      simp [List.append_assoc]
    rw [e1, e2] at gAll
    exact gAll
end

end

/-! ## definitions, the body, the routine -/

def defnLbls (defs : List Def) : List Lbl := defs.map fun d => Lbl.defn d.name.print

theorem below_defnLbls (a : Nat) (defs : List Def) : Below a (defnLbls defs) := by
  intro l hl n hn
  obtain ⟨d, _, rfl⟩ := List.mem_map.1 hl
  cases hn

theorem g_defs (hooks : Bool) (types : List TypeDecl) : ∀ (defs : List Def) (k : Nat) (blocks : List (List Code))
    (k' : Nat), (translateR a64Backend hooks natRen types defs).run k = .ok (blocks, k') →
    (defs.map (·.name.print)).Nodup → (∀ d ∈ defs, stmtXtorsDistinct d.body = true) →
    G (defnLbls defs) (defsXtorNames defs) k k' (assemble a64Backend blocks (defs.map (·.name)))
  | [], k, blocks, k', h, _, _ => by
    simp only [translateR, run_pure_ok] at h
    obtain ⟨rfl, rfl⟩ := h
    exact G.nl NL.nil _ _
  | d :: ds, k, blocks, k', h, hnd, hx => by
    simp only [translateR, run_bind_ok, run_pure_ok] at h
    obtain ⟨is, k1, h1, rest, k2, h2, rfl, rfl⟩ := h
    simp only [List.map_cons, List.nodup_cons] at hnd
    have g1 := g_stmt hooks types d.body _ _ _ _ h1 (hx d (by simp))
    have g2 := g_defs hooks types ds _ _ _ h2 hnd.2 (fun d' hd' => hx d' (by simp [hd']))
    generalize hX : defsXtorNames (d :: ds) = X
    have g1' : G [] X k k1 is := g1.monoX (by
      intro y hy; rw [← hX]; simp only [defsXtorNames, List.mem_append]; exact Or.inl hy)
    have g2' : G (defnLbls ds) X k1 k2 (assemble a64Backend rest (ds.map (·.name))) := g2.monoX (by
      intro y hy; rw [← hX]; simp only [defsXtorNames, List.mem_append]; exact Or.inr hy)
    have g12 := G.append g1' g2' (disj_nil_left _) (below_nil _) (below_defnLbls _ _)
    have gl : G [Lbl.defn d.name.print] X k k [a64Backend.label (d.name.print ++ "_")] :=
      G.lab (Lbl.defn d.name.print) X k (fun y hy => by cases hy)
    have gAll := G.append gl g12 (by
        intro l hl l' hl' e
        simp only [List.mem_singleton] at hl
        subst hl
        simp only [List.nil_append] at hl'
        obtain ⟨d', hd', e'⟩ := List.mem_map.1 hl'
        rw [← e'] at e
        injection e with e3
        exact hnd.1 (List.mem_map.2 ⟨d', hd', e3.symm⟩)) (by
      intro l hl n hn
      simp only [List.mem_singleton] at hl
      subst hl
      cases hn) (by simp only [List.nil_append]; exact below_defnLbls _ _)
    have e1 : [Lbl.defn d.name.print] ++ ([] ++ defnLbls ds) = defnLbls (d :: ds) := rfl
    have e2 : [a64Backend.label (d.name.print ++ "_")] ++ (is ++ assemble a64Backend rest (ds.map (·.name))) =
        assemble a64Backend (is :: rest) ((d :: ds).map (·.name)) := by
      simp [assemble]
    rw [e1, e2] at gAll
    exact gAll

open Scc.Props.C14Generic (LabelSafe progXtorNames)

/-- the body: the labels of the definitions and generated labels -/
theorem g_body {hooks : Bool} {p : AxCut.Prog} {k : Nat} {body : List Code} {nargs k' : Nat}
    (hr : (compile a64Backend hooks p).run k = .ok ((body, nargs), k')) (hsafe : LabelSafe p = true) :
    G (defnLbls p.defs) (progXtorNames p) k k' body := by
  simp only [LabelSafe, Bool.and_eq_true, decide_eq_true_eq, List.all_eq_true] at hsafe
  obtain ⟨⟨hd, hx⟩, _⟩ := hsafe
  unfold compile compileR at hr
  cases hdefs : p.defs with
  | nil => rw [hdefs] at hr; exact ((run_throw_ok _ _ _ _).1 hr).elim
  | cons d0 ds =>
    rw [hdefs] at hr
    simp only [run_bind_ok, run_pure_ok] at hr
    obtain ⟨blocks, k1, h1, e, rfl⟩ := hr
    injection e with e1 _
    rw [← e1]
    have := g_defs hooks p.types (d0 :: ds) k blocks k1 h1 (by rw [← hdefs]; exact hd)
      (fun d hd' => hx d (by rw [hdefs]; exact hd'))
    unfold progXtorNames
    rw [hdefs]
    exact this

theorem count_u_clause (m : String) (n : Nat) (x : String) : 2 ≤ (R (.clause m n x)).toList.count '_' := by
  show 2 ≤ (Lbl.render natRen (.clause m n x)).toList.count '_'
  rw [render_clause]
  simp only [List.count_append, List.count_cons_self]
  omega

theorem R_ne_asm_main {l : Lbl} (hl : l ≠ .cleanup) : R l ≠ "asm_main" := by
  intro h
  have hl' : (Lbl.render natRen l).toList = "asm_main".toList := by rw [← h]
  cases l with
  | defn f => exact render_defn_ne (s := "asm_main") (by decide) h
  | cleanup => exact hl rfl
  | lab n =>
    have := u_not_mem_lab n
    rw [hl'] at this
    exact this (by decide)
  | base m n =>
    have := lastSeg_base m n
    rw [hl'] at this
    have h2 := toDigits_all_digit n
    rw [← this] at h2
    revert h2
    decide
  | clause m n x =>
    have := count_u_clause m n x
    show False
    have e : (R (.clause m n x)).toList = "asm_main".toList := hl'
    rw [e] at this
    revert this
    decide

theorem R_ne_cleanup {l : Lbl} (hl : l ≠ .cleanup) : R l ≠ "cleanup" := by
  intro h
  have hl' : (Lbl.render natRen l).toList = (Lbl.render natRen .cleanup).toList := by
    show (R l).toList = _
    rw [h]; rfl
  cases l with
  | defn f => exact u_not_mem_cleanup (hl' ▸ u_mem_defn f)
  | cleanup => exact hl rfl
  | lab n =>
    rw [render_lab, render_cleanup] at hl'
    simp at hl'
  | base m n => exact u_not_mem_cleanup (hl' ▸ u_mem_base m n)
  | clause m n x => exact u_not_mem_cleanup (hl' ▸ u_mem_clause m n x)

theorem labs_cleanup : labs cleanup = ["cleanup"] := by decide

theorem nl_moveArguments : ∀ (n : Nat) (moves : List Code), moveArguments n = .ok moves → NL moves
  | 0, moves, h => by
    simp only [moveArguments, Except.ok.injEq] at h
    subst h
    exact noL_single rfl
  | 1, moves, h => by
    simp only [moveArguments, Except.ok.injEq] at h
    subst h
    exact noL_cons rfl (noL_single rfl)
  | k + 2, moves, h => by
    simp only [moveArguments] at h
    split at h
    · cases hm : moveArguments (k + 1) with
      | error e => rw [hm] at h; cases h
      | ok rest =>
        rw [hm] at h
        simp only [Except.ok.injEq] at h
        subst h
        exact NL.append (noL_cons rfl (noL_single rfl)) (nl_moveArguments (k + 1) rest hm)
    · cases h

theorem labs_routineHead_eq {n : Nat} {su : List Code} (h : setup n = .ok su) :
    labs (routineHead su) = ["asm_main"] := by
  obtain ⟨moves, hm, rfl⟩ := setup_eq h
  have nm := nl_moveArguments n moves hm
  unfold routineHead
  simp only [labs_append, nm.labs]
  rfl

/-- SIDE HYPOTHESIS (2): THE LABELS OF THE EMITTED ROUTINE ARE PAIRWISE DISTINCT, for every `LabelSafe`
program, both hook settings, every start value of the label counter -/
theorem labels_unique_a64 {hooks : Bool} {p : AxCut.Prog} {k : Nat} {body routine : List Code} {nargs : Nat}
    (hsafe : LabelSafe p = true) (h : compileProg a64Backend p hooks k = .ok (body, nargs, routine)) :
    (labs routine).Nodup := by
  obtain ⟨k', hc, hr⟩ := compileProg_ok h
  obtain ⟨hab, ls, e, nd, rng, hx⟩ := g_body hc hsafe
  have hs : safeXtorNames (progXtorNames p) = true := by
    simp only [LabelSafe, Bool.and_eq_true] at hsafe
    exact hsafe.2
  have hne : ∀ l ∈ ls, l ≠ Lbl.cleanup := by
    intro l hl e'
    subst e'
    rcases rng _ hl with h1 | h1
    · obtain ⟨d, _, e2⟩ := List.mem_map.1 h1
      cases e2
    · obtain ⟨n, hn, _⟩ := h1
      cases hn
  have hxin : ∀ l ∈ ls, l.xtorIn (progXtorNames p) := by
    intro l hl
    cases l with
    | clause m n x => exact hx _ hl x rfl
    | _ => trivial
  have hbody : (labs body).Nodup := by
    rw [e]
    exact nodup_map_of_inj_on R ls (fun a ha b hb hab => render_inj _ hs a b (hxin a ha) (hxin b hb) hab) nd
  obtain ⟨su, hsu, hrt⟩ := routine_anatomy hr
  rw [hrt, labs_append, labs_append, labs_routineHead_eq hsu, labs_cleanup, e]
  simp only [List.singleton_append, List.cons_append, List.nil_append, List.nodup_cons, List.mem_append,
    List.mem_singleton, List.mem_map, not_or, not_exists, not_and]
  refine ⟨⟨fun l hl => R_ne_asm_main (hne l hl), by decide⟩, ?_⟩
  rw [List.nodup_append]
  refine ⟨by rw [← e]; exact hbody, by simp, ?_⟩
  intro a ha b hb hab
  simp only [List.mem_singleton] at hb
  subst hb
  obtain ⟨l, hl, rfl⟩ := List.mem_map.1 ha
  exact R_ne_cleanup (hne l hl) hab

end Scc.A64.Ref
