/-
  Scc.A64.LoaderText — the loader `parseText` (Scc/A64/Machine.lean) on the text of a whole routine
  printed by `printProg` (Scc/A64/Instr.lean):

  * `splitOn_printProg`: the lines of the printed routine (through the legacy `String.splitOn`,
    Scc/StringLemmas.lean) are exactly the lines of its items (`codeLines`);
  * `numberFrom n ps`: the lines `ps` numbered `n, n+1, …` — the `(Nat × PLine)` list that
    `layout` / `wfCheck` / `run` consume;
  * `parseText_printProg`: THE ROUND TRIP — `parseText (printProg cs) = .ok (numberFrom 1 (progPLines cs))`
    for every routine whose items are text-safe (`CodeOK`) and whose registers exist (`regsOK`);
  * `run_printProg`: hence `run` on the printed text is `runProg` on the layout of the items' lines.
  Proof file: core imports only.
-/
import Scc.A64.LoaderCode

namespace Scc.A64.Loader

open Scc.A64 Scc.Str

set_option linter.unusedSimpArgs false

/-! ## numbered lines -/

/-- the lines `ps`, numbered from `n` -/
def numberFrom : Nat → List PLine → List (Nat × PLine)
  | _, [] => []
  | n, p :: ps => (n, p) :: numberFrom (n + 1) ps

theorem numberFrom_append (n : Nat) (a b : List PLine) :
    numberFrom n (a ++ b) = numberFrom n a ++ numberFrom (n + a.length) b := by
  induction a generalizing n with
  | nil => simp [numberFrom]
  | cons p ps ih => simp [numberFrom, ih, Nat.add_assoc, Nat.add_comm 1]

theorem map_snd_numberFrom (n : Nat) (ps : List PLine) : (numberFrom n ps).map (·.2) = ps := by
  induction ps generalizing n with
  | nil => rfl
  | cons p ps ih => simp [numberFrom, ih]

theorem map_fst_numberFrom (n : Nat) (ps : List PLine) :
    (numberFrom n ps).map (·.1) = List.range' n ps.length := by
  induction ps generalizing n with
  | nil => rfl
  | cons p ps ih => simp [numberFrom, ih, List.range'_succ]

theorem length_numberFrom (n : Nat) (ps : List PLine) : (numberFrom n ps).length = ps.length := by
  induction ps generalizing n with
  | nil => rfl
  | cons p ps ih => simp [numberFrom, ih]

/-! ## reading a list of lines -/

theorem parseText_go (lines : List String) (ps : List PLine) (h : lines.map parseLine = ps.map some) :
    ∀ (n : Nat) (acc : List (Nat × PLine)),
      parseText.go lines n acc = .ok (acc.reverse ++ numberFrom n ps) := by
  induction lines generalizing ps with
  | nil =>
    intro n acc
    cases ps with
    | nil => simp [parseText.go, numberFrom]
    | cons _ _ => simp at h
  | cons l ls ih =>
    intro n acc
    cases ps with
    | nil => simp at h
    | cons p ps =>
      simp only [List.map_cons, List.cons.injEq] at h
      rw [parseText.go]
      simp only [h.1]
      rw [ih ps h.2 (n + 1) ((n, p) :: acc)]
      simp [numberFrom]

/-! ## the lines of a printed routine -/

theorem splitOn_printProg {cs : List Code} (hne : cs ≠ [])
    (h : ∀ c ∈ cs, ∀ l ∈ codeLines c, '\n' ∉ l.toList) :
    (printProg cs).splitOn "\n" = cs.flatMap codeLines := by
  unfold printProg
  have e : cs.map printCode = cs.map (fun c => "\n".intercalate (codeLines c)) :=
    List.map_congr_left (fun c _ => printCode_lines c)
  rw [e, newline_eq]
  exact splitOn_intercalate_chunks '\n' codeLines cs hne (fun c _ => codeLines_ne_nil c) h

/-- what the loader reads the text of a routine as (an empty routine prints as one empty line) -/
def progPLines (cs : List Code) : List PLine :=
  if cs = [] then [.blank] else cs.flatMap codePLines

/-- the items of a routine are text-safe and their registers exist -/
def ProgOK (cs : List Code) : Prop := ∀ c ∈ cs, regsOK c = true ∧ CodeOK c

theorem map_parseLine_flatMap (cs : List Code) (h : ProgOK cs) :
    (cs.flatMap codeLines).map parseLine = (cs.flatMap codePLines).map some := by
  induction cs with
  | nil => rfl
  | cons c cs ih =>
    have hc := h c (by simp)
    simp only [List.flatMap_cons, List.map_append]
    rw [(parse_codeLines c hc.1 hc.2).1, ih (fun x hx => h x (by simp [hx]))]

/-- THE ROUND TRIP: the loader reads the printed text of a text-safe routine as the lines of its
    items, numbered from 1 -/
theorem parseText_printProg (cs : List Code) (h : ProgOK cs) :
    parseText (printProg cs) = .ok (numberFrom 1 (progPLines cs)) := by
  unfold parseText progPLines
  by_cases hne : cs = []
  · subst hne
    have : (printProg []).splitOn "\n" = [""] := by
      unfold printProg; rw [newline_eq]; exact splitOn_intercalate_nil '\n'
    rw [this, parseText_go [""] [.blank] (by simp [parseLine_empty])]
    rfl
  · simp only [hne, if_false]
    rw [splitOn_printProg hne (fun c hc => (parse_codeLines c (h c hc).1 (h c hc).2).2),
      parseText_go _ _ (map_parseLine_flatMap cs h)]
    rfl

/-- the parsed lines, without their numbers, are the lines of the items in order -/
theorem parseText_printProg_lines (cs : List Code) (h : ProgOK cs) (hne : cs ≠ []) :
    ∃ ls, parseText (printProg cs) = .ok ls ∧ ls.map (·.2) = cs.flatMap codePLines ∧
      ls.map (·.1) = List.range' 1 ls.length := by
  refine ⟨_, parseText_printProg cs h, ?_, ?_⟩
  · rw [map_snd_numberFrom]; simp [progPLines, hne]
  · rw [map_fst_numberFrom, length_numberFrom]

/-- blank lines do not matter to the layout: the program the machine runs is the layout of the
    items' lines -/
theorem layout_progPLines_nil : layout (numberFrom 1 (progPLines [])) = layout [] := rfl

/-- the machine on the printed text = the machine on the layout of the items' lines (monitor `wf`
    off; with `wf` on, `wfCheck` is applied to the same parsed lines first) -/
theorem run_printProg (cs : List Code) (h : ProgOK cs) (args : List Word) (fuel : Nat) (cfg : MonCfg)
    (hwf : cfg.wf = false) :
    run (printProg cs) args fuel cfg = runProg (layout (numberFrom 1 (progPLines cs))) args fuel cfg := by
  unfold run
  simp only [parseText_printProg cs h, hwf, Bool.false_eq_true, if_false]

end Scc.A64.Loader
