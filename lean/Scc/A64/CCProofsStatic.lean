/-
  Scc.A64.CCProofsStatic — property C13 (calling convention), AArch64: STATIC, TEXT-LEVEL facts about
  the instruction list that the generic code generator (Scc/Backend/Generic.lean) instantiated with
  `a64Backend` emits for ANY program it compiles.

  * `plainCC code`  — the instruction is none of `BL / RET / STP (pre-index) / LDP (post-index)`, does not
    write `SP`, and every `SP`-relative memory operand addresses a slot of the spill area (`0 ≤ off`,
    `off + 8 ≤ SPILL_SPACE = 2048`, 8-aligned);
    `plainInt code` — moreover it has no memory operand with another base register, is not `BR`/`ADR`,
    and does not branch to `asm_main`.
  * `CCShape plain body` — `body` is a sequence of plain instructions and of whole print blocks
    `printI64 nl t ctx` whose argument `t` is the `Snd` temporary of a variable of `ctx` (`PrintSrc`).
  * `compile_ccShape` / `compile_ccShape_int`: every compiled body (resp. the body of an integer program)
    has the shape.  Proof: the generic lifting of Scc/Backend/ProofsShape.lean, every method by inspection.
-/
import Scc.Backend.ProofsShape
import Scc.A64.WfMemory

set_option linter.unusedVariables false
set_option linter.unusedSimpArgs false

namespace Scc.A64

open Scc.AxCut
open Scc.Backend (GenM TempNum freshLabel)
open Scc.Backend.Shape (OpsShape IntProgC IntStmtC AllExt)
open Scc.X86 (Post)

/-! ## what an instruction writes and addresses -/

/-- the registers an instruction writes (`BL` writes the link register X30 = logical register 29) -/
def codeWrites : Code → List Register
  | .ADD x _ _ | .ADDI x _ _ | .SUB x _ _ | .SUBI x _ _ | .MUL x _ _ | .SDIV x _ _ | .MSUB x _ _ _ => [x]
  | .ADR r _ | .MOVR r _ | .MOVZ r _ _ | .MOVN r _ _ | .MOVK r _ _ | .LDR r _ _ => [r]
  | .LDP_POST_INDEX r1 r2 b _ => [r1, r2, b]
  | .STP_PRE_INDEX _ _ b _ => [b]
  | .BL _ => [.x 29]
  | _ => []

/-- the memory operands `[base, off]` of an instruction -/
def codeMems : Code → List (Register × Int)
  | .LDR _ b i | .STR _ b i | .LDP_POST_INDEX _ _ b i | .STP_PRE_INDEX _ _ b i => [(b, i)]
  | _ => []

/-- `off` addresses a word of the spill area `[SP, SP + SPILL_SPACE)` -/
def slotOK (i : Int) : Bool := decide (0 ≤ i) && decide (i + 8 ≤ 2048) && decide (i % 8 = 0)

/-- calls, returns and the pair instructions with writeback (prologue / epilogue only) -/
def isStackOp : Code → Bool
  | .BL _ | .RET | .STP_PRE_INDEX _ _ _ _ | .LDP_POST_INDEX _ _ _ _ => true
  | _ => false

/-- target of a direct branch -/
def codeJumpRef : Code → Option String
  | .B l | .BEQ l | .BNE l | .BLT l | .BLE l | .BGT l | .BGE l => some l
  | _ => none

/-- a PLAIN instruction: no call / return / writeback pair, `SP` is not written, `SP`-relative operands
    stay inside the spill area -/
def plainCC (c : Code) : Bool :=
  !isStackOp c && (codeWrites c).all (· != .sp) && (codeMems c).all (fun bi => bi.1 != .sp || slotOK bi.2)

/-- indirect control / address-taking forms (only emitted for `switch` / `create` / `invoke`) -/
def isIndirect : Code → Bool
  | .BR _ | .ADR _ _ => true
  | _ => false

/-- a plain instruction of an INTEGER program -/
def plainInt (c : Code) : Bool :=
  plainCC c && (codeMems c).all (fun bi => bi.1 == .sp) && !isIndirect c &&
    (match codeJumpRef c with
     | some l => l != "asm_main"
     | none => true)

theorem plainCC_of_plainInt {c : Code} (h : plainInt c = true) : plainCC c = true := by
  simp only [plainInt, Bool.and_eq_true] at h
  exact h.1.1.1

theorem slotOK_stackOffset {p : Nat} (hp : p < 256) : slotOK (stackOffset p) = true := by
  rw [stackOffset_eq]
  simp only [slotOK, Bool.and_eq_true, decide_eq_true_eq]
  omega

/-! ## the shape of a body -/

/-- the argument of a print block: the `Snd` temporary of a variable of the context -/
def PrintSrc (ctx : Ctx) (t : Temporary) : Prop :=
  ∃ pos c c', pos < ctx.length ∧ (temporaryFromPosition (2 * pos + 1)).run c = .ok (t, c')

/-- a sequence of plain instructions and whole print blocks -/
inductive CCShape (plain : Code → Bool) : List Code → Prop where
  | nil : CCShape plain []
  | plain {c : Code} {rest : List Code} : plain c = true → CCShape plain rest → CCShape plain (c :: rest)
  | print {nl : Bool} {t : Temporary} {ctx : Ctx} {rest : List Code} :
      PrintSrc ctx t → CCShape plain rest → CCShape plain (printI64 nl t ctx ++ rest)

theorem CCShape.append {plain : Code → Bool} {a b : List Code} (ha : CCShape plain a) (hb : CCShape plain b) :
    CCShape plain (a ++ b) := by
  induction ha with
  | nil => exact hb
  | plain h _ ih => exact .plain h ih
  | print h _ ih => rw [List.append_assoc]; exact .print h ih

theorem CCShape.ofAll {plain : Code → Bool} : ∀ {l : List Code}, l.all plain = true → CCShape plain l
  | [], _ => .nil
  | c :: rest, h => by
    simp only [List.all_cons, Bool.and_eq_true] at h
    exact .plain h.1 (CCShape.ofAll h.2)

theorem CCShape.mono {p q : Code → Bool} (hpq : ∀ c, p c = true → q c = true) {l : List Code}
    (h : CCShape p l) : CCShape q l := by
  induction h with
  | nil => exact .nil
  | plain h _ ih => exact .plain (hpq _ h) ih
  | print h _ ih => exact .print h ih

theorem CCShape.printBlock {plain : Code → Bool} {nl : Bool} {t : Temporary} {ctx : Ctx} (h : PrintSrc ctx t) :
    CCShape plain (printI64 nl t ctx) := by
  have := CCShape.print (plain := plain) (nl := nl) h CCShape.nil
  simpa using this

/-! ## temporaries -/

theorem getPosition_go_lt : ∀ (ctx : Ctx) (id k pos : Nat), getPosition.go id ctx k = some pos →
    k ≤ pos ∧ pos < k + ctx.length
  | [], _, _, _, h => by simp [getPosition.go] at h
  | b :: bs, id, k, pos, h => by
    simp only [getPosition.go] at h
    split at h
    · cases h; simp
    · have := getPosition_go_lt bs id (k + 1) pos h
      simp only [List.length_cons]; omega

theorem post_temporaryFromPosition (n : Nat) : Post (temporaryFromPosition n) (fun t => t.ok = true) := by
  unfold temporaryFromPosition
  dsimp only
  split
  · rename_i h
    exact Post.pure (by simp [Temporary.ok, Register.ok]; simpa [REGISTER_NUM_eq] using h)
  · split
    · rename_i h
      exact Post.pure (by simpa [Temporary.ok] using h)
    · exact Post.throw

theorem post_variableTemporary (n : TempNum) (ctx : Ctx) (id : Nat) :
    Post (variableTemporary n ctx id) (fun t => t.ok = true) := by
  unfold variableTemporary
  split
  · exact post_temporaryFromPosition _
  · exact Post.throw

theorem post_freshTemporary (n : TempNum) (ctx : Ctx) : Post (freshTemporary n ctx) (fun t => t.ok = true) :=
  post_temporaryFromPosition _

theorem post_variableTemporary_src (ctx : Ctx) (id : Nat) :
    Post (variableTemporary .snd ctx id) (PrintSrc ctx) := by
  unfold variableTemporary
  split
  · rename_i pos hpos
    have := getPosition_go_lt ctx id 0 pos hpos
    intro c t c' h
    exact ⟨pos, c, c', by omega, by simpa [TempNum.toNat] using h⟩
  · exact Post.throw

/-! ## the methods of code.rs / parallel_moves.rs: only plain instructions -/

section Methods

abbrev AllInt (l : List Code) : Prop := l.all plainInt = true

theorem allInt_append {a b : List Code} (ha : AllInt a) (hb : AllInt b) : AllInt (a ++ b) := by
  unfold AllInt at *; rw [List.all_append, ha, hb]; rfl

theorem allInt_cons {c : Code} {l : List Code} (hc : plainInt c = true) (hl : AllInt l) : AllInt (c :: l) := by
  unfold AllInt at *; rw [List.all_cons, hc, hl]; rfl

theorem allInt_nil : AllInt [] := rfl

theorem ccTEMP_eq : TEMP = .x 2 := rfl
theorem ccTEMP2_eq : TEMP2 = .x 3 := rfl
theorem ccHEAP_eq : HEAP = .x 0 := rfl
theorem ccFREE_eq : FREE = .x 1 := rfl
theorem ccTT_eq : TEMPORARY_TEMP = .x 10 := rfl

macro "pl" : tactic =>
  `(tactic| (simp [AllInt, plainInt, plainCC, isStackOp, codeWrites, codeMems, isIndirect, codeJumpRef,
      ccTEMP_eq, ccTEMP2_eq, slotOK_stackOffset, *]))

/-- a temporary that exists: a register `X(r)`, `r < 30`, or a spill slot -/
theorem ok_cases {t : Temporary} (h : t.ok = true) :
    (∃ r, t = .register (.x r) ∧ r < 30) ∨ (∃ p, t = .spill p ∧ p < 256) := by
  cases t with
  | register r =>
    cases r with
    | x n => left; exact ⟨n, rfl, by simpa [Temporary.ok, Register.ok] using h⟩
    | sp => simp [Temporary.ok, Register.ok] at h
    | xzr => simp [Temporary.ok, Register.ok] at h
  | spill p => right; exact ⟨p, rfl, by simpa [Temporary.ok, SPILL_NUM_eq] using h⟩

theorem allInt_moveFromRegister {t : Temporary} {r : Register} (ht : t.ok = true) :
    AllInt (moveFromRegister t r) := by
  rcases ok_cases ht with ⟨n, rfl, hn⟩ | ⟨p, rfl, hp⟩ <;> simp only [moveFromRegister] <;> pl

theorem allInt_moveToRegister {n : Nat} {t : Temporary} (ht : t.ok = true) :
    AllInt (moveToRegister (.x n) t) := by
  rcases ok_cases ht with ⟨m, rfl, hm⟩ | ⟨p, rfl, hp⟩ <;> simp only [moveToRegister] <;> pl

theorem allInt_remR (t a b : Nat) : AllInt (remR (.x t) (.x a) (.x b)) := by
  unfold remR
  split
  · split <;> simp [AllInt, plainInt, plainCC, isStackOp, codeWrites, codeMems, isIndirect, codeJumpRef,
      ccTEMP_eq, ccTEMP2_eq, ccTT_eq, SPILL_TEMP, consts, slotOK_stackOffset]
  · pl

theorem allInt_opR (o : BinOp) (t a b : Nat) : AllInt (opR o (.x t) (.x a) (.x b)) := by
  cases o <;> simp only [opR]
  case rem => exact allInt_remR t a b
  all_goals pl

theorem allInt_LDR_slot (n : Nat) {p : Nat} (hp : p < 256) : AllInt [Code.LDR (.x n) .sp (stackOffset p)] := by pl
theorem allInt_STR_slot (r : Register) {p : Nat} (hp : p < 256) : AllInt [Code.STR r .sp (stackOffset p)] := by pl

theorem scratch_x (r : Register) : ∃ n, (if r = TEMP then TEMP2 else TEMP) = .x n := by
  split
  · exact ⟨3, rfl⟩
  · exact ⟨2, rfl⟩

theorem allInt_op (o : BinOp) {t s1 s2 : Temporary} (ht : t.ok = true) (h1 : s1.ok = true) (h2 : s2.ok = true) :
    AllInt (op o t s1 s2) := by
  rcases ok_cases ht with ⟨nt, rfl, hnt⟩ | ⟨pt, rfl, hpt⟩ <;>
  rcases ok_cases h1 with ⟨n1, rfl, hn1⟩ | ⟨p1, rfl, hp1⟩ <;>
  rcases ok_cases h2 with ⟨n2, rfl, hn2⟩ | ⟨p2, rfl, hp2⟩ <;> simp only [op]
  · exact allInt_opR o _ _ _
  · obtain ⟨k, hk⟩ := scratch_x (.x n1)
    rw [hk]
    exact allInt_cons (by pl) (allInt_opR o _ _ _)
  · obtain ⟨k, hk⟩ := scratch_x (.x n2)
    rw [hk]
    exact allInt_cons (by pl) (allInt_opR o _ _ _)
  · exact allInt_cons (by pl) (allInt_cons (by pl) (allInt_opR o _ _ _))
  · exact allInt_append (allInt_opR o _ _ _) (allInt_STR_slot _ hpt)
  · obtain ⟨k, hk⟩ := scratch_x (.x n1)
    rw [hk]
    exact allInt_append (allInt_cons (by pl) (allInt_opR o _ _ _)) (allInt_STR_slot _ hpt)
  · obtain ⟨k, hk⟩ := scratch_x (.x n2)
    rw [hk]
    exact allInt_append (allInt_cons (by pl) (allInt_opR o _ _ _)) (allInt_STR_slot _ hpt)
  · exact allInt_append (allInt_cons (by pl) (allInt_cons (by pl) (allInt_opR o _ _ _))) (allInt_STR_slot _ hpt)

theorem allInt_mov {t s : Temporary} (ht : t.ok = true) (hs : s.ok = true) : AllInt (mov t s) := by
  rcases ok_cases hs with ⟨n, rfl, hn⟩ | ⟨p, rfl, hp⟩
  · simp only [mov]
    exact allInt_moveFromRegister ht
  · rcases ok_cases ht with ⟨m, rfl, hm⟩ | ⟨q, rfl, hq⟩
    · simp only [mov]
      exact allInt_moveToRegister hs
    · simp only [mov, ccTEMP2_eq]
      exact allInt_append (allInt_moveToRegister (n := 3) hs) (allInt_moveFromRegister ht)

theorem allInt_compare {a b : Temporary} (ha : a.ok = true) (hb : b.ok = true) : AllInt (compare a b) := by
  rcases ok_cases ha with ⟨n, rfl, hn⟩ | ⟨p, rfl, hp⟩ <;>
  rcases ok_cases hb with ⟨m, rfl, hm⟩ | ⟨q, rfl, hq⟩ <;> simp only [compare] <;> pl

theorem allInt_compareImmediate {a : Temporary} (ha : a.ok = true) (i : Int) : AllInt (compareImmediate a i) := by
  rcases ok_cases ha with ⟨n, rfl, hn⟩ | ⟨p, rfl, hp⟩ <;> simp only [compareImmediate] <;> pl

theorem allInt_branchOf (sort : IfSort) {l : String} (hl : l ≠ "asm_main") : AllInt [branchOf sort l] := by
  cases sort <;> simp [AllInt, branchOf, plainInt, plainCC, isStackOp, codeWrites, codeMems, isIndirect,
    codeJumpRef, hl]

theorem allInt_loadImmediateLoop (n : Nat) (w : BitVec 64) (inv : Bool) (ign : BitVec 16) :
    ∀ (is : List Nat) (d : Bool), AllInt (loadImmediateLoop (.x n) w inv ign is d)
  | [], _ => rfl
  | i :: is, d => by
    simp only [loadImmediateLoop]
    split
    · split
      · exact allInt_cons (by pl) (allInt_loadImmediateLoop n w inv ign is true)
      · split
        · exact allInt_cons (by pl) (allInt_loadImmediateLoop n w inv ign is true)
        · exact allInt_cons (by pl) (allInt_loadImmediateLoop n w inv ign is true)
    · exact allInt_loadImmediateLoop n w inv ign is d

theorem allInt_loadImmediateRegister (n : Nat) (i : Int) : AllInt (loadImmediateRegister (.x n) i) := by
  unfold loadImmediateRegister
  dsimp only
  split
  · pl
  · split
    · pl
    · exact allInt_loadImmediateLoop _ _ _ _ _ _

theorem allInt_loadImmediate {t : Temporary} (ht : t.ok = true) (i : Int) : AllInt (loadImmediate t i) := by
  rcases ok_cases ht with ⟨n, rfl, hn⟩ | ⟨p, rfl, hp⟩ <;> simp only [loadImmediate]
  · simpa using allInt_loadImmediateRegister n i
  · exact allInt_append (allInt_loadImmediateRegister 2 i) (allInt_STR_slot _ hp)

theorem allInt_storeTemporary {t : Temporary} (ht : t.ok = true) (sp : Bool) : AllInt (storeTemporary t sp) := by
  rcases ok_cases ht with ⟨n, rfl, hn⟩ | ⟨p, rfl, hp⟩ <;> simp only [storeTemporary] <;> pl

theorem allInt_restoreTemporary {t : Temporary} (ht : t.ok = true) (sp : Bool) :
    AllInt (restoreTemporary t sp) := by
  rcases ok_cases ht with ⟨n, rfl, hn⟩ | ⟨p, rfl, hp⟩ <;> simp only [restoreTemporary] <;> pl

/-! ## memory.rs and the indirect-control methods: plain instructions (general programs) -/

abbrev AllCC (l : List Code) : Prop := l.all plainCC = true

theorem allCC_of_allInt {l : List Code} (h : AllInt l) : AllCC l := by
  unfold AllCC AllInt at *
  rw [List.all_eq_true] at *
  exact fun c hc => plainCC_of_plainInt (h c hc)

theorem allCC_append {a b : List Code} (ha : AllCC a) (hb : AllCC b) : AllCC (a ++ b) := by
  unfold AllCC at *; rw [List.all_append, ha, hb]; rfl

theorem allCC_cons {c : Code} {l : List Code} (hc : plainCC c = true) (hl : AllCC l) : AllCC (c :: l) := by
  unfold AllCC at *; rw [List.all_cons, hc, hl]; rfl

theorem allCC_nil : AllCC [] := rfl

theorem allCC_ite {c : Prop} [Decidable c] {a b : List Code} (ha : AllCC a) (hb : AllCC b) :
    AllCC (if c then a else b) := by split <;> assumption

macro "plc" : tactic =>
  `(tactic| (simp [AllCC, plainCC, isStackOp, codeWrites, codeMems,
      ccTEMP_eq, ccTEMP2_eq, ccHEAP_eq, ccFREE_eq, ccTT_eq, slotOK_stackOffset, *]))

theorem plainCC_COMMENT (m : String) : plainCC (.COMMENT m) = true := rfl

theorem allCC_jump {t : Temporary} (ht : t.ok = true) : AllCC (jump t) := by
  rcases ok_cases ht with ⟨n, rfl, hn⟩ | ⟨p, rfl, hp⟩ <;> simp only [jump] <;> plc

theorem allCC_loadLabel {t : Temporary} (ht : t.ok = true) (l : String) : AllCC (loadLabel t l) := by
  rcases ok_cases ht with ⟨n, rfl, hn⟩ | ⟨p, rfl, hp⟩ <;> simp only [loadLabel] <;> plc

theorem allCC_addAndJump {t : Temporary} (ht : t.ok = true) (k : Int) : AllCC (addAndJump t k) := by
  rcases ok_cases ht with ⟨n, rfl, hn⟩ | ⟨p, rfl, hp⟩ <;> simp only [addAndJump] <;> plc

abbrev PostCC (m : GenM (List Code)) : Prop := Post m AllCC

theorem postCC_skipIfZero (n : Nat) {body : List Code} (hb : AllCC body) : PostCC (skipIfZero (.x n) body) := by
  unfold skipIfZero
  exact Post.bind (Post.true _) fun l _ => Post.pure
    (allCC_append (allCC_append (by plc) hb) (by plc))

theorem postCC_ifZeroThenElse (n : Nat) {tb eb : List Code} (ht : AllCC tb) (he : AllCC eb) :
    PostCC (ifZeroThenElse (.x n) tb eb) := by
  unfold ifZeroThenElse
  refine Post.bind (Post.true _) fun l1 _ => Post.bind (Post.true _) fun l2 _ => Post.pure ?_
  exact allCC_append (allCC_append (allCC_append (allCC_append (by plc) he) (by plc)) ht) (by plc)

theorem postCC_eraseValidObject (n : Nat) : PostCC (eraseValidObject (.x n)) := by
  unfold eraseValidObject
  exact postCC_ifZeroThenElse 3 (by plc) (by plc)

theorem postCC_eraseBlock {t : Temporary} (ht : t.ok = true) : PostCC (eraseBlock t) := by
  rcases ok_cases ht with ⟨n, rfl, hn⟩ | ⟨p, rfl, hp⟩ <;> simp only [eraseBlock]
  · exact Post.bind (postCC_eraseValidObject n) fun c hc =>
      postCC_skipIfZero n (allCC_append (by plc) hc)
  · exact Post.bind (postCC_eraseValidObject 2) fun c hc =>
      Post.bind (postCC_skipIfZero 2 (allCC_append (by plc) hc)) fun r hr =>
        Post.pure (allCC_cons (by plc) hr)

theorem postCC_shareBlockN {t : Temporary} (ht : t.ok = true) (k : Nat) : PostCC (shareBlockN t k) := by
  rcases ok_cases ht with ⟨n, rfl, hn⟩ | ⟨p, rfl, hp⟩ <;> simp only [shareBlockN]
  · exact postCC_skipIfZero n (by plc)
  · exact Post.bind (postCC_skipIfZero 2 (by plc)) fun r hr => Post.pure (allCC_cons (by plc) hr)

theorem postCC_shareBlock {t : Temporary} (ht : t.ok = true) : PostCC (shareBlock t) := postCC_shareBlockN ht 1

theorem postCC_eraseFields (n : Nat) : ∀ (k offset : Nat), PostCC (eraseFields (.x n) k offset)
  | 0, _ => by unfold eraseFields; exact Post.pure allCC_nil
  | k + 1, offset => by
    unfold eraseFields
    exact Post.bind (postCC_eraseBlock (t := .register TEMP) rfl) fun c hc =>
      Post.bind (postCC_eraseFields n k (offset + 1)) fun rest hrest =>
        Post.pure (allCC_append (allCC_append (by plc) hc) hrest)

theorem postCC_acquireBlock {t : Temporary} (ht : t.ok = true) : PostCC (acquireBlock t) := by
  unfold acquireBlock
  have hfirst : ∀ u : Temporary, u.ok = true → AllCC (match u with
      | .register newBlockRegister => [Code.MOVR newBlockRegister HEAP]
      | .spill newBlockPosition => [Code.MOVR TEMP HEAP, Code.STR HEAP .sp (stackOffset newBlockPosition)]) := by
    intro u hu
    rcases ok_cases hu with ⟨n, rfl, hn⟩ | ⟨p, rfl, hp⟩ <;> plc
  have hinit : ∀ u : Temporary, u.ok = true → AllCC [match u with
      | .register newBlockRegister => Code.STR .xzr newBlockRegister REFERENCE_COUNT_OFFSET
      | .spill _ => Code.STR .xzr TEMP REFERENCE_COUNT_OFFSET] := by
    intro u hu
    rcases ok_cases hu with ⟨n, rfl, hn⟩ | ⟨p, rfl, hp⟩ <;> rfl
  refine Post.bind (postCC_eraseFields 0 FIELDS_PER_BLOCK 0) fun erased he => ?_
  refine Post.bind (postCC_ifZeroThenElse 1 (by plc) (allCC_append (by plc) he)) fun inner hi => ?_
  refine Post.bind (postCC_ifZeroThenElse 0 (allCC_append (by plc) hi)
    (allCC_cons rfl (hinit t ht))) fun outer ho => ?_
  exact Post.pure (allCC_append (allCC_append (hfirst t ht) (by plc)) ho)

theorem allCC_releaseBlock (n : Nat) : AllCC (releaseBlock (.x n)) := by
  simp only [releaseBlock]; plc

theorem allCC_storeZero (n : Nat) (off : Nat) : AllCC (storeZero (.x n) off) := by
  simp only [storeZero]; plc

theorem allCC_storeZeros (n : Nat) (k : Nat) : AllCC (storeZeros k (.x n)) := by
  unfold AllCC
  rw [List.all_eq_true]
  intro code hc
  simp only [storeZeros, List.mem_flatMap, List.mem_range] at hc
  obtain ⟨off, hoff, hcl⟩ := hc
  exact List.all_eq_true.1 (allCC_storeZero n off) code hcl

theorem postCC_storeField (num : TempNum) (ctx : Ctx) (n : Nat) (off : Nat) :
    PostCC (storeField num ctx (.x n) off) := by
  unfold storeField
  refine Post.bind (post_freshTemporary num ctx) fun t ht => ?_
  rcases ok_cases ht with ⟨m, rfl, hm⟩ | ⟨p, rfl, hp⟩ <;> exact Post.pure (by plc)

theorem postCC_loadField (num : TempNum) (ctx : Ctx) (n : Nat) (off : Nat) :
    PostCC (loadField num ctx (.x n) off) := by
  unfold loadField
  refine Post.bind (post_freshTemporary num ctx) fun t ht => ?_
  rcases ok_cases ht with ⟨m, rfl, hm⟩ | ⟨p, rfl, hp⟩ <;> exact Post.pure (by plc)

theorem postCC_storeValue (b : Binding) (ctx : Ctx) (n : Nat) (off : Nat) :
    PostCC (storeValue b ctx (.x n) off) := by
  unfold storeValue
  refine Post.bind (postCC_storeField .snd ctx n off) fun c1 h1 => ?_
  split
  · exact Post.pure (allCC_append h1 (allCC_storeZero n off))
  · exact Post.bind (postCC_storeField .fst ctx n off) fun c2 h2 => Post.pure (allCC_append h1 h2)

theorem postCC_loadValue (b : Binding) (ctx : Ctx) (n : Nat) (off : Nat) (mode : LoadMode) :
    PostCC (loadValue b ctx (.x n) off mode) := by
  unfold loadValue
  refine Post.bind (postCC_loadField .snd ctx n off) fun c1 h1 => ?_
  split
  · refine Post.bind (postCC_loadField .fst ctx n off) fun c2 h2 => ?_
    refine Post.bind (post_freshTemporary .fst ctx) fun t ht => ?_
    have hjp : ∀ reg : Register, reg.ok = true →
        PostCC (if (mode == LoadMode.share) = true then do
            let c3 ← shareBlock (Temporary.register reg)
            pure (c1 ++ c2 ++ c3)
          else pure (c1 ++ c2)) := by
      intro reg hreg
      split
      · exact Post.bind (postCC_shareBlock (t := .register reg) hreg) fun c3 h3 =>
          Post.pure (allCC_append (allCC_append h1 h2) h3)
      · exact Post.pure (allCC_append h1 h2)
    cases t with
    | register reg => simp only [pure_bind]; exact hjp reg ht
    | spill p => simp only [pure_bind]; exact hjp TEMP (by decide)
  · exact Post.pure h1

theorem postCC_storeValuesLoop (ctx : Ctx) (n : Nat) : ∀ (l : List Binding) (ff : Nat),
    Post (storeValuesLoop ctx (.x n) l ff) (fun res => AllCC res.1)
  | [], ff => by unfold storeValuesLoop; exact Post.pure allCC_nil
  | b :: rest, ff => by
    unfold storeValuesLoop
    split
    · exact Post.throw
    · refine Post.bind (postCC_storeValue b _ n _) fun c hc => ?_
      refine Post.bind (postCC_storeValuesLoop ctx n rest _) fun res hres => ?_
      obtain ⟨cs, ff'⟩ := res
      exact Post.pure (allCC_append hc hres)

theorem postCC_storeValues (toStore ctx : Ctx) (n : Nat) (ff : Nat) :
    PostCC (storeValues toStore ctx (.x n) ff) := by
  unfold storeValues
  refine Post.bind (postCC_storeValuesLoop ctx n toStore.reverse ff) fun res hres => ?_
  obtain ⟨cs, ff'⟩ := res
  exact Post.pure (allCC_append (allCC_append (allCC_append (by plc) hres)
    (allCC_ite (by plc) allCC_nil)) (allCC_storeZeros n _))

theorem postCC_loadValuesLoop (ctx : Ctx) (n : Nat) (mode : LoadMode) :
    ∀ (l : List Binding) (ff : Nat), PostCC (loadValuesLoop ctx (.x n) mode l ff)
  | [], ff => by unfold loadValuesLoop; exact Post.pure allCC_nil
  | b :: rest, ff => by
    unfold loadValuesLoop
    split
    · exact Post.throw
    · refine Post.bind (postCC_loadValue b _ n _ mode) fun c hc => ?_
      exact Post.bind (postCC_loadValuesLoop ctx n mode rest _) fun cs hcs =>
        Post.pure (allCC_append hc hcs)

theorem postCC_loadValues (toLoad ctx : Ctx) (n : Nat) (ff : Nat) (mode : LoadMode) :
    PostCC (loadValues toLoad ctx (.x n) ff mode) := by
  unfold loadValues
  exact Post.bind (postCC_loadValuesLoop ctx n mode toLoad.reverse ff) fun cs hcs =>
    Post.pure (allCC_cons rfl hcs)

theorem postCC_storeLink (pos : BlockPosition) (ctx : Ctx) : PostCC (storeLink pos ctx) := by
  unfold storeLink
  split
  · exact Post.bind (postCC_storeField .fst ctx 0 _) fun c hc => Post.pure (allCC_cons rfl hc)
  · exact Post.pure allCC_nil

theorem postCC_loadLink (pos : BlockPosition) (ctx : Ctx) (n : Nat) : PostCC (loadLink pos ctx (.x n)) := by
  unfold loadLink
  split
  · exact Post.bind (postCC_loadField .fst ctx n _) fun c hc => Post.pure (allCC_cons rfl hc)
  · exact Post.pure allCC_nil

theorem postCC_storeFields : ∀ (fuel : Nat) (toStore ctx : Ctx) (pos : BlockPosition),
    PostCC (storeFields fuel toStore ctx pos)
  | 0, _, _, _ => by unfold storeFields; exact Post.throw
  | fuel + 1, toStore, ctx, pos => by
    unfold storeFields
    split
    · split
      · exact Post.bind (post_freshTemporary .fst ctx) fun t ht =>
          Post.pure (allCC_cons rfl (allCC_of_allInt (allInt_loadImmediate ht 0)))
      · exact Post.pure allCC_nil
    · dsimp only
      refine Post.bind (postCC_storeLink pos _) fun c1 h1 => ?_
      refine Post.bind (postCC_storeValues _ _ 0 _) fun c3 h3 => ?_
      refine Post.bind (post_freshTemporary .fst _) fun t ht => ?_
      refine Post.bind (postCC_acquireBlock ht) fun c4 h4 => ?_
      refine Post.bind (postCC_storeFields fuel _ ctx .other) fun c5 h5 => ?_
      exact Post.pure (allCC_append (allCC_append (allCC_append (allCC_append
        (allCC_append h1 (allCC_ite (by plc) allCC_nil)) h3) (by plc)) h4) h5)

theorem postCC_store (toStore ctx : Ctx) : PostCC (store toStore ctx) :=
  postCC_storeFields _ _ _ _

theorem postCC_loadFields : ∀ (fuel : Nat) (toLoad ctx : Ctx) (pos : BlockPosition) (mode : LoadMode)
    (freed : Bool), Post (loadFields fuel toLoad ctx pos mode freed) (fun res => AllCC res.1)
  | 0, _, _, _, _, _ => by unfold loadFields; exact Post.throw
  | fuel + 1, toLoad, ctx, pos, mode, freed => by
    unfold loadFields
    split
    · exact Post.pure allCC_nil
    · dsimp only
      refine Post.bind (postCC_loadFields fuel _ ctx .other mode freed) fun res hres => ?_
      obtain ⟨c0, freed'⟩ := res
      refine Post.bind (post_freshTemporary .fst _) fun t ht => ?_
      rcases ok_cases ht with ⟨m, rfl, hm⟩ | ⟨p, rfl, hp⟩
      · dsimp only
        refine Post.bind (postCC_loadLink pos _ m) fun c2 h2 => ?_
        refine Post.bind (postCC_loadValues _ _ m _ mode) fun c3 h3 => ?_
        exact Post.pure (allCC_append (allCC_append (allCC_append hres
          (allCC_ite (allCC_cons rfl (allCC_releaseBlock m)) allCC_nil)) h2) h3)
      · dsimp only
        refine Post.bind (postCC_loadLink pos _ 10) fun c2 h2 => ?_
        refine Post.bind (postCC_loadValues _ _ 10 _ mode) fun c3 h3 => ?_
        refine Post.pure (allCC_append (allCC_append (allCC_append (allCC_append (allCC_append hres
          (allCC_ite ?_ allCC_nil)) (allCC_append ?_ (allCC_ite (allCC_cons rfl (allCC_releaseBlock 10)) allCC_nil)))
          h2) h3) (allCC_ite ?_ allCC_nil))
        · simp [AllCC, plainCC, isStackOp, codeWrites, codeMems, ccTT_eq, SPILL_TEMP, consts, slotOK_stackOffset]
        · simp [AllCC, plainCC, isStackOp, codeWrites, codeMems, ccTT_eq, slotOK_stackOffset, hp]
        · simp [AllCC, plainCC, isStackOp, codeWrites, codeMems, ccTT_eq, SPILL_TEMP, consts, slotOK_stackOffset]

theorem postCC_loadRegister (n : Nat) (toLoad ctx : Ctx) : PostCC (loadRegister (.x n) toLoad ctx) := by
  unfold loadRegister
  refine Post.bind (postCC_loadFields _ toLoad ctx .last .release false) fun res1 h1 => ?_
  obtain ⟨cThen, f1⟩ := res1
  refine Post.bind (postCC_loadFields _ toLoad ctx .last .share false) fun res2 h2 => ?_
  obtain ⟨cElse, f2⟩ := res2
  refine Post.bind (postCC_ifZeroThenElse 3 (allCC_cons rfl h1) (allCC_append (by plc) h2))
    fun c hc => Post.pure (allCC_cons rfl hc)

theorem postCC_load (toLoad ctx : Ctx) : PostCC (load toLoad ctx) := by
  unfold load
  split
  · exact Post.pure allCC_nil
  · refine Post.bind (post_freshTemporary .fst ctx) fun t ht => ?_
    rcases ok_cases ht with ⟨m, rfl, hm⟩ | ⟨p, rfl, hp⟩
    · exact Post.bind (postCC_loadRegister m toLoad ctx) fun c hc =>
        Post.pure (allCC_append (by plc) hc)
    · exact Post.bind (postCC_loadRegister 2 toLoad ctx) fun c hc =>
        Post.pure (allCC_append (by plc) hc)

end Methods

/-! ## label names -/

theorem append_ne_prefix {p x t : String} (h : (p.toList.isPrefixOf t.toList) = false) : p ++ x ≠ t := by
  intro e
  have h2 := congrArg String.toList e
  rw [String.toList_append] at h2
  have : p.toList <+: t.toList := ⟨x.toList, h2⟩
  rw [← List.isPrefixOf_iff_prefix] at this
  rw [this] at h
  cases h

theorem append_ne_suffix {x s t : String} (h : (s.toList.isSuffixOf t.toList) = false) : x ++ s ≠ t := by
  intro e
  have h2 := congrArg String.toList e
  rw [String.toList_append] at h2
  have : s.toList <:+ t.toList := ⟨x.toList, h2⟩
  rw [← List.isSuffixOf_iff_suffix] at this
  rw [this] at h
  cases h

/-- labels that may be the target of a direct branch in a body: not the routine entry -/
def LabOK (l : String) : Prop := l ≠ "asm_main"

theorem labOK_def (x : Ident) : LabOK (x.print ++ "_") := append_ne_suffix (by decide)
theorem labOK_cleanup : LabOK "cleanup" := by unfold LabOK; decide
theorem labOK_fresh (s : String) : LabOK ("lab" ++ s) := append_ne_prefix (by decide)

/-! ## the instances of the generic lifting -/

theorem ccShape_ofInt {l : List Code} (h : AllInt l) : CCShape plainInt l := CCShape.ofAll h
theorem ccShape_ofCC {l : List Code} (h : AllCC l) : CCShape plainCC l := CCShape.ofAll h
theorem ccShape_cc_ofInt {l : List Code} (h : AllInt l) : CCShape plainCC l :=
  CCShape.ofAll (allCC_of_allInt h)

/-- INTEGER programs -/
theorem opsShape_a64_int :
    OpsShape a64Backend (CCShape plainInt) (fun t => t.ok = true) PrintSrc LabOK False where
  nil := .nil
  append := CCShape.append
  temp := rfl
  return1 := rfl
  vt := post_variableTemporary
  vtSrc := post_variableTemporary_src
  labDef := labOK_def
  labCleanup := labOK_cleanup
  labFresh := labOK_fresh
  comment := fun _ => ccShape_ofInt rfl
  label := fun _ => ccShape_ofInt rfl
  jumpLabel := fun l hl => ccShape_ofInt (by
    show AllInt [Code.B l]
    simp [AllInt, plainInt, plainCC, isStackOp, codeWrites, codeMems, isIndirect, codeJumpRef]
    exact hl)
  jumpLabelIf := fun s _ _ _ ha hb hl => ccShape_ofInt (allInt_append (allInt_compare ha hb) (allInt_branchOf s hl))
  jumpLabelIfZero := fun s _ _ ha hl =>
    ccShape_ofInt (allInt_append (allInt_compareImmediate ha 0) (allInt_branchOf s hl))
  loadImmediate := fun _ n ht => ccShape_ofInt (allInt_loadImmediate ht n)
  binop := fun o _ _ _ ht h1 h2 => ccShape_ofInt (allInt_op o ht h1 h2)
  mov := fun _ _ ht hs => ccShape_ofInt (allInt_mov ht hs)
  printI64 := fun nl _ ctx _ hs => Post.pure (CCShape.printBlock hs)
  storeTemporary := fun _ sp ht => ccShape_ofInt (allInt_storeTemporary ht sp)
  restoreTemporary := fun _ sp ht => ccShape_ofInt (allInt_restoreTemporary ht sp)
  jump := fun h => h.elim
  jumpLabelFixed := fun h => h.elim
  loadLabel := fun h => h.elim
  addAndJump := fun h => h.elim
  eraseBlock := fun h => h.elim
  shareBlockN := fun h => h.elim
  store := fun h => h.elim
  load := fun h => h.elim

/-- ALL programs -/
theorem opsShape_a64 :
    OpsShape a64Backend (CCShape plainCC) (fun t => t.ok = true) PrintSrc (fun _ => True) True where
  nil := .nil
  append := CCShape.append
  temp := rfl
  return1 := rfl
  vt := post_variableTemporary
  vtSrc := post_variableTemporary_src
  labDef := fun _ => trivial
  labCleanup := trivial
  labFresh := fun _ => trivial
  comment := fun _ => ccShape_ofCC rfl
  label := fun _ => ccShape_ofCC rfl
  jumpLabel := fun l _ => ccShape_ofCC (by show AllCC [Code.B l]; rfl)
  jumpLabelIf := fun s a b l ha hb _ => ccShape_ofCC (allCC_append (allCC_of_allInt (allInt_compare ha hb))
    (by cases s <;> rfl))
  jumpLabelIfZero := fun s a l ha _ => ccShape_ofCC (allCC_append (allCC_of_allInt (allInt_compareImmediate ha 0))
    (by cases s <;> rfl))
  loadImmediate := fun _ n ht => ccShape_cc_ofInt (allInt_loadImmediate ht n)
  binop := fun o _ _ _ ht h1 h2 => ccShape_cc_ofInt (allInt_op o ht h1 h2)
  mov := fun _ _ ht hs => ccShape_cc_ofInt (allInt_mov ht hs)
  printI64 := fun nl _ ctx _ hs => Post.pure (CCShape.printBlock hs)
  storeTemporary := fun _ sp ht => ccShape_cc_ofInt (allInt_storeTemporary ht sp)
  restoreTemporary := fun _ sp ht => ccShape_cc_ofInt (allInt_restoreTemporary ht sp)
  jump := fun _ _ ht => ccShape_ofCC (allCC_jump ht)
  jumpLabelFixed := fun _ l => ccShape_ofCC (by show AllCC [Code.B l]; rfl)
  loadLabel := fun _ _ l ht => ccShape_ofCC (allCC_loadLabel ht l)
  addAndJump := fun _ _ k ht => ccShape_ofCC (allCC_addAndJump ht k)
  eraseBlock := fun _ _ ht => (postCC_eraseBlock ht).mono fun _ => ccShape_ofCC
  shareBlockN := fun _ _ n ht => (postCC_shareBlockN ht n).mono fun _ => ccShape_ofCC
  store := fun _ a b => (postCC_store a b).mono fun _ => ccShape_ofCC
  load := fun _ a b => (postCC_load a b).mono fun _ => ccShape_ofCC

/-- C13 (a), the SHAPE of every compiled body: plain instructions and whole print blocks.  No
    hypothesis on the program: capacity = the compiler succeeds. -/
theorem compile_ccShape {p : AxCut.Prog} {hooks : Bool} {c0 : Nat} {body routine : List Code} {nargs : Nat}
    (h : compileProg a64Backend p hooks c0 = .ok (body, nargs, routine)) :
    CCShape plainCC body ∧ intoRoutine body nargs = .ok routine := by
  unfold compileProg at h
  split at h
  · cases h
  · rename_i body' nargs' c' hr
    split at h
    · cases h
    · rename_i routine' hrt
      cases h
      exact ⟨Scc.Backend.Shape.post_compileR opsShape_a64 hooks Scc.Backend.natRen p (Or.inl trivial) c0 _ c' hr,
        hrt⟩

/-- the same for integer programs, with the stronger notion of plain instruction -/
theorem compile_ccShape_int {p : AxCut.Prog} (hp : IntProgC p) {hooks : Bool} {c0 : Nat}
    {body routine : List Code} {nargs : Nat}
    (h : compileProg a64Backend p hooks c0 = .ok (body, nargs, routine)) :
    CCShape plainInt body ∧ intoRoutine body nargs = .ok routine := by
  unfold compileProg at h
  split at h
  · cases h
  · rename_i body' nargs' c' hr
    split at h
    · cases h
    · rename_i routine' hrt
      cases h
      exact ⟨Scc.Backend.Shape.post_compileR opsShape_a64_int hooks Scc.Backend.natRen p (Or.inr hp) c0 _ c' hr,
        hrt⟩

end Scc.A64
