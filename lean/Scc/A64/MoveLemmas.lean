/-
  Scc.A64.MoveLemmas — proof file: code.rs `compare`, `compare_immediate`, `mov`, `load_immediate`
  (spill target), and the defect witness for `op` with target = first operand = TEMP and a spilled
  second operand (what switch.rs asks for).
-/
import Scc.A64.OpLemmas
import Scc.A64.LoadImm

set_option linter.unusedSimpArgs false

namespace Scc.A64
open Scc.AxCut

/-- frame of an instruction sequence that defines no temporary: everything but TEMP, TEMP2 -/
structure Frame0 (σ σ' : State) : Prop where
  sp : σ'.sp = σ.sp
  heap : σ'.heap = σ.heap
  regs : ∀ m : Fin 31, m ≠ xT → m ≠ xT2 → σ'.reg m = σ.reg m
  slots : ∀ addr, σ'.slot addr = σ.slot addr

theorem compare_decompose (s1 s2 : Temporary) (h1 : s1.isVar) (h2 : s2.isVar) :
    compare s1 s2 = (operandRegs s1 s2).1 ++ [.CMPR (.x (operandRegs s1 s2).2.1) (.x (operandRegs s1 s2).2.2)] := by
  cases s1 <;> cases s2 <;> rename_i y z <;>
    first
    | (cases y <;> cases z <;> simp_all [compare, operandRegs, Temporary.isVar, TEMP, TEMP2])
    | (cases y <;> simp_all [compare, operandRegs, Temporary.isVar, TEMP, TEMP2])
    | (cases z <;> simp_all [compare, operandRegs, Temporary.isVar, TEMP, TEMP2])
    | simp_all [compare, operandRegs, Temporary.isVar, TEMP, TEMP2]

/-- code.rs `compare`: for every placement the flags hold the two operand values, in order. -/
theorem compare_correct (c : MemCfg) (room : Nat) (σ : State) (hsp : SpOk c σ.sp room)
    (s1 s2 : Temporary) (h1 : s1.isVar) (h2 : s2.isVar) (a b : Word)
    (hv1 : σ.tempVal s1 = some a) (hv2 : σ.tempVal s2 = some b) :
    ∃ σ', execCodes c (compare s1 s2) σ = .ok σ' ∧ σ'.flags = some (a, b) ∧ Frame0 σ σ' := by
  obtain ⟨σ0, n1, n2, he0, hx1, hx2, ha, hb, hsp0, hheap0, hregs0, hslots0, _, _⟩ :=
    operands_loaded c room σ hsp s1 s2 h1 h2 a b hv1 hv2
  have hdec := compare_decompose s1 s2 h1 h2
  refine ⟨σ0.setFlags (some (a, b)), ?_, by simp, ?_⟩
  · rw [hdec, execCodes_append c _ _ _ _ he0]
    simp [execCodes, execCode_CMPR hx1 hx2, exec_cmp_x, ha, hb]
  · exact ⟨by simp [hsp0], by simp [hheap0], by intro m h1 h2; simp [hregs0 m h1 h2], by intro q; simp [hslots0]⟩

/-- code.rs `compare_immediate` with 0 -/
theorem compareImmediate_correct (c : MemCfg) (room : Nat) (σ : State) (hsp : SpOk c σ.sp room)
    (s : Temporary) (h : s.isVar) (a : Word) (hv : σ.tempVal s = some a) :
    ∃ σ', execCodes c (compareImmediate s 0) σ = .ok σ' ∧ σ'.flags = some (a, 0) ∧ Frame0 σ σ' := by
  have hsp' : SpOkS c room σ := hsp
  have hT : xreg 2 = some xT := xreg_TEMP
  have hi : okImm12 0 = true := by decide
  cases s with
  | register reg =>
    cases reg with
    | x r =>
      obtain ⟨hra, hrb⟩ := isVar_reg h
      obtain ⟨n, hn, _⟩ := xreg_var hra hrb
      rw [tempVal_reg hn] at hv
      refine ⟨σ.setFlags (some (a, 0)), ?_, by simp, ⟨rfl, rfl, by intros; rfl, by intros; rfl⟩⟩
      simp [compareImmediate, execCodes, execCode_CMPI hn, exec_cmpi_x c _ _ _ hi, hv, imm]
    | sp => simp [Temporary.isVar] at h
    | xzr => simp [Temporary.isVar] at h
  | spill p =>
    obtain ⟨_, hp⟩ := isVar_spill h
    rw [tempVal_spill] at hv
    refine ⟨(σ.setReg xT (some a)).setFlags (some (a, 0)), ?_, by simp, ⟨rfl, rfl, ?_, by intros; rfl⟩⟩
    · simp [compareImmediate, TEMP, execCodes, execCode_LDR_sp hT, execCode_CMPI hT, exec_ldr_slot c room, hsp', hp,
        exec_cmpi_x c _ _ _ hi, hv, imm]
    · intro m hm _; simp [Ne.symm hm]

/-- the conditional branch emitted for an AxCut comparison tests exactly that comparison -/
theorem branchOf_correct (sort : IfSort) (l : String) (a b : Word) :
    ∃ cd, (branchOf sort l).toInstr = some (.bcond cd l) ∧ cd.holds a b = Pos.evalCmp sort a b := by
  cases sort
  · exact ⟨.eq, rfl, rfl⟩
  · exact ⟨.ne, rfl, rfl⟩
  · exact ⟨.lt, rfl, rfl⟩
  · exact ⟨.le, rfl, rfl⟩
  · exact ⟨.gt, rfl, rfl⟩
  · exact ⟨.ge, rfl, rfl⟩

/-- code.rs `mov`: the target receives the content of the source (defined or not) for every
placement; only TEMP2 is used as scratch. -/
theorem mov_correct (c : MemCfg) (room : Nat) (σ : State) (hsp : SpOk c σ.sp room)
    (t s : Temporary) (ht : t.isVar) (hs : s.isVar) :
    ∃ σ', execCodes c (mov t s) σ = .ok σ' ∧ σ'.tempVal t = σ.tempVal s ∧ Frame σ σ' t := by
  have hsp' : SpOkS c room σ := hsp
  have hT2 : xreg 3 = some xT2 := xreg_TEMP2
  cases s with
  | register sreg =>
    cases sreg with
    | x rs =>
      obtain ⟨hra, hrb⟩ := isVar_reg hs
      obtain ⟨ns, hns, _⟩ := xreg_var hra hrb
      rw [tempVal_reg hns]
      cases t with
      | register treg =>
        cases treg with
        | x rt =>
          obtain ⟨hta, htb⟩ := isVar_reg ht
          obtain ⟨nt, hnt, _⟩ := xreg_var hta htb
          refine ⟨σ.setReg nt (σ.reg ns), ?_, ?_, ⟨rfl, rfl, ?_, by intros; rfl⟩⟩
          · simp [mov, moveFromRegister, execCodes, execCode_MOVR hnt hns, exec_mov_x]
          · rw [tempVal_reg hnt]; simp
          · intro m _ _ hm
            have : nt ≠ m := by intro e; apply hm; simp [Temporary.archReg, hnt, e]
            simp [this]
        | sp => simp [Temporary.isVar] at ht
        | xzr => simp [Temporary.isVar] at ht
      | spill pt =>
        obtain ⟨_, hpt⟩ := isVar_spill ht
        cases hx : σ.reg ns with
        | none =>
          refine ⟨σ.clrSlot (σ.slotAddr pt), ?_, ?_, ⟨rfl, rfl, by intros; rfl, ?_⟩⟩
          · simp [mov, moveFromRegister, execCodes, execCode_STR_sp hns, exec_str_slot c room, hsp', hpt, hx]
          · rw [tempVal_spill]; simp
          · intro q _ hq hne
            have : σ.slotAddr pt ≠ σ.slotAddr q := by
              intro e; apply hne; rw [(slotAddr_inj hsp hpt hq).mp e]
            simp [this]
        | some w =>
          refine ⟨σ.setSlot (σ.slotAddr pt) w, ?_, ?_, ⟨rfl, rfl, by intros; rfl, ?_⟩⟩
          · simp [mov, moveFromRegister, execCodes, execCode_STR_sp hns, exec_str_slot c room, hsp', hpt, hx]
          · rw [tempVal_spill]; simp
          · intro q _ hq hne
            have : σ.slotAddr pt ≠ σ.slotAddr q := by
              intro e; apply hne; rw [(slotAddr_inj hsp hpt hq).mp e]
            simp [this]
    | sp => simp [Temporary.isVar] at hs
    | xzr => simp [Temporary.isVar] at hs
  | spill ps =>
    obtain ⟨_, hps⟩ := isVar_spill hs
    rw [tempVal_spill]
    cases t with
    | register treg =>
      cases treg with
      | x rt =>
        obtain ⟨hta, htb⟩ := isVar_reg ht
        obtain ⟨nt, hnt, _⟩ := xreg_var hta htb
        refine ⟨σ.setReg nt (σ.slot (σ.slotAddr ps)), ?_, ?_, ⟨rfl, rfl, ?_, by intros; rfl⟩⟩
        · simp [mov, moveToRegister, execCodes, execCode_LDR_sp hnt, exec_ldr_slot c room, hsp', hps]
        · rw [tempVal_reg hnt]; simp
        · intro m _ _ hm
          have : nt ≠ m := by intro e; apply hm; simp [Temporary.archReg, hnt, e]
          simp [this]
      | sp => simp [Temporary.isVar] at ht
      | xzr => simp [Temporary.isVar] at ht
    | spill pt =>
      obtain ⟨_, hpt⟩ := isVar_spill ht
      cases hx : σ.slot (σ.slotAddr ps) with
      | none =>
        refine ⟨(σ.setReg xT2 none).clrSlot (σ.slotAddr pt), ?_, ?_, ⟨rfl, rfl, ?_, ?_⟩⟩
        · simp [mov, moveToRegister, moveFromRegister, TEMP2, execCodes, execCode_LDR_sp hT2, execCode_STR_sp hT2,
            exec_ldr_slot c room, exec_str_slot c room, hsp', hps, hpt, hx]
        · rw [tempVal_spill]; simp
        · intro m _ hm _; simp [Ne.symm hm]
        · intro q _ hq hne
          have : σ.slotAddr pt ≠ σ.slotAddr q := by
            intro e; apply hne; rw [(slotAddr_inj hsp hpt hq).mp e]
          simp [this]
      | some w =>
        refine ⟨(σ.setReg xT2 (some w)).setSlot (σ.slotAddr pt) w, ?_, ?_, ⟨rfl, rfl, ?_, ?_⟩⟩
        · simp [mov, moveToRegister, moveFromRegister, TEMP2, execCodes, execCode_LDR_sp hT2, execCode_STR_sp hT2,
            exec_ldr_slot c room, exec_str_slot c room, hsp', hps, hpt, hx]
        · rw [tempVal_spill]; simp
        · intro m _ hm _; simp [Ne.symm hm]
        · intro q _ hq hne
          have : σ.slotAddr pt ≠ σ.slotAddr q := by
            intro e; apply hne; rw [(slotAddr_inj hsp hpt hq).mp e]
          simp [this]

end Scc.A64

namespace Scc.A64
open Scc.AxCut

/-- code.rs `load_immediate`: for EVERY 64-bit literal and both placements of the target, the
target afterwards holds the literal; only TEMP is used as scratch. -/
theorem loadImmediate_correct (c : MemCfg) (room : Nat) (σ : State) (hsp : SpOk c σ.sp room)
    (t : Temporary) (ht : t.isVar) (v : BitVec 64) :
    ∃ σ', execCodes c (loadImmediate t v.toInt) σ = .ok σ' ∧ σ'.tempVal t = some v ∧ Frame σ σ' t := by
  have hT : xreg 2 = some xT := xreg_TEMP
  cases t with
  | register treg =>
    cases treg with
    | x rt =>
      obtain ⟨hta, htb⟩ := isVar_reg ht
      obtain ⟨nt, hnt, _⟩ := xreg_var hta htb
      refine ⟨σ.wrX nt v, ?_, ?_, ⟨rfl, rfl, ?_, by intros; rfl⟩⟩
      · simp [loadImmediate, loadImmediateRegister_correct c rt nt hnt v σ]
      · rw [tempVal_reg hnt, wrX_eq_setReg]; simp
      · intro m _ _ hm
        have : nt ≠ m := by intro e; apply hm; simp [Temporary.archReg, hnt, e]
        rw [wrX_eq_setReg]; simp [this]
    | sp => simp [Temporary.isVar] at ht
    | xzr => simp [Temporary.isVar] at ht
  | spill pt =>
    obtain ⟨_, hpt⟩ := isVar_spill ht
    have hsp1 : SpOkS c room (σ.setReg xT (some v)) := hsp
    refine ⟨(σ.setReg xT (some v)).setSlot (σ.slotAddr pt) v, ?_, ?_, ⟨rfl, rfl, ?_, ?_⟩⟩
    · have h1 := loadImmediateRegister_correct c 2 xT hT v σ
      simp only [loadImmediate]
      have : (TEMP : Register) = .x 2 := rfl
      rw [this, execCodes_append c _ _ _ _ h1, wrX_eq_setReg]
      simp [execCodes, execCode_STR_sp hT, exec_str_slot c room, hsp1, hpt]
    · rw [tempVal_spill]; simp
    · intro m hm _ _; simp [Ne.symm hm]
    · intro q _ hq hne
      have : σ.slotAddr pt ≠ σ.slotAddr q := by
        intro e; apply hne; rw [(slotAddr_inj hsp hpt hq).mp e]
      simp [this]

/-- switch.rs emits `add(temp, temp, tag)`: with the tag in a REGISTER this adds the tag to the table
address in TEMP. -/
theorem switch_add_register (c : MemCfg) (σ : State) (r : Nat) (hr : (Temporary.register (.x r)).isVar)
    (n : Fin 31) (hn : xreg r = some n) (a b : Word) (ha : σ.reg xT = some a) (hb : σ.reg n = some b) :
    execCodes c (op .sum (.register TEMP) (.register TEMP) (.register (.x r))) σ =
      .ok (σ.setReg xT (some (a + b))) := by
  have hT : xreg 2 = some xT := xreg_TEMP
  simp [op, opR, TEMP, execCodes, execCode_ADD hT hT hn, exec_add_x, ha, hb]

/-- switch.rs `add(temp, temp, tag)` with the tag in a SPILL slot (the placement that was wrong before
repo commit 8e009b7): the tag is loaded into TEMP2 and added to the table address in TEMP. -/
theorem switch_add_spill (c : MemCfg) (room : Nat) (σ : State) (hsp : SpOk c σ.sp room)
    (p : Nat) (hp : (Temporary.spill p).isVar) (a b : Word)
    (ha : σ.reg xT = some a) (hb : σ.tempVal (.spill p) = some b) :
    execCodes c (op .sum (.register TEMP) (.register TEMP) (.spill p)) σ =
      .ok ((σ.setReg xT2 (some b)).setReg xT (some (a + b))) := by
  have hT : xreg 2 = some xT := xreg_TEMP
  have hT2 : xreg 3 = some xT2 := xreg_TEMP2
  have hsp' : SpOkS c room σ := hsp
  have hx : xT2 ≠ xT := by decide
  obtain ⟨_, hp'⟩ := isVar_spill hp
  rw [tempVal_spill] at hb
  simp [op, opR, TEMP, TEMP2, execCodes, execCode_LDR_sp hT2, execCode_ADD hT hT hT2, exec_ldr_slot c room, hsp', hp',
    exec_add_x, hb, ha, hx]

/-- DEFECT WITNESS for the code BEFORE repo commit 8e009b7 (`opOld`; case (Register(source_1),
Spill(source_2)) with source_1 = TEMP): the emitted code first loads the tag into TEMP — destroying
the table address — and then computes `tag + tag`. -/
theorem switch_add_spill_witness (c : MemCfg) (room : Nat) (σ : State) (hsp : SpOk c σ.sp room)
    (p : Nat) (hp : (Temporary.spill p).isVar) (a b : Word)
    (_ha : σ.reg xT = some a) (hb : σ.tempVal (.spill p) = some b) :
    execCodes c (opOld .sum (.register TEMP) (.register TEMP) (.spill p)) σ =
      .ok ((σ.setReg xT (some b)).setReg xT (some (b + b))) := by
  have hT : xreg 2 = some xT := xreg_TEMP
  have hsp' : SpOkS c room σ := hsp
  obtain ⟨_, hp'⟩ := isVar_spill hp
  rw [tempVal_spill] at hb
  simp [opOld, opR, TEMP, execCodes, execCode_LDR_sp hT, execCode_ADD hT hT hT, exec_ldr_slot c room, hsp', hp',
    exec_add_x, hb]

end Scc.A64
