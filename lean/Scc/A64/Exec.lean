/-
  Scc.A64.Exec — SPEC glue between the backend model and the machine model: straight-line execution
  of a list of backend instructions (`Code`, Instr.lean) on the machine state of Machine.lean, with
  the external print calls, and the reading of a backend temporary in a machine state.
  This is what the per-method theorems (Props/C07A64, C13A64) talk about.  Core imports only.
-/
import Scc.A64.Instr

namespace Scc.A64

/-- One backend instruction, executed as the machine instruction its text parses to.  Labels,
directives and comments are no-ops (fall-through); branching instructions are not straight-line
code (`Instr.exec` returns an error for them); `BL` is handled by `execCodeOut`. -/
def execCode (c : MemCfg) (code : Code) (σ : State) : Except Fault State :=
  match code with
  | .LAB _ | .TEXT | .GLOBAL _ | .COMMENT _ => .ok σ
  | code =>
    match code.toInstr with
    | none => .error "no such register"
    | some i => i.exec c σ

def execCodes (c : MemCfg) : List Code → State → Except Fault State
  | [], σ => .ok σ
  | code :: rest, σ =>
    match execCode c code σ with
    | .ok σ' => execCodes c rest σ'
    | .error e => .error e

/-- Straight-line execution including `BL print_i64` / `BL println_i64` (`State.callExternal`):
returns the final state and the print calls made, in order. -/
def execCodesOut (c : MemCfg) : List Code → State → Except Fault (State × List (Bool × Word))
  | [], σ => .ok (σ, [])
  | .BL l :: rest, σ =>
    if isExternal l then
      match σ.callExternal with
      | .error e => .error e
      | .ok (w, σ') =>
        match execCodesOut c rest σ' with
        | .ok (σ'', out) => .ok (σ'', (l == "println_i64", w) :: out)
        | .error e => .error e
    else .error "internal call"
  | code :: rest, σ =>
    match execCode c code σ with
    | .ok σ' => execCodesOut c rest σ'
    | .error e => .error e

/-- The machine register of a logical register number (`none` if it does not exist). -/
def xreg (r : Nat) : Option (Fin 31) :=
  if h : archNumber r < 31 then some ⟨archNumber r, h⟩ else none

/-- Byte address of spill slot `p` for the current stack pointer. -/
def State.slotAddr (σ : State) (p : Nat) : Nat := (σ.sp + imm (stackOffset p)).toNat

/-- Content of a backend temporary in a machine state: `none` = undefined (or no such register). -/
def State.tempVal (σ : State) : Temporary → Option Word
  | .register (.x r) =>
    match xreg r with
    | some n => σ.regs[n]
    | none => none
  | .register .sp => some σ.sp
  | .register .xzr => some 0
  | .spill p => σ.stack[σ.slotAddr p]?


/-- Where compiled code keeps SP between the prologue and the epilogue: 16-byte aligned, the spill
area `[SP, SP + SPILL_SPACE)` inside the stack region, at least `room` bytes of stack below SP;
and the memory layout is sane (heap below the stack, no address wraps). -/
structure SpOk (c : MemCfg) (sp : Word) (room : Nat) : Prop where
  aligned : sp.toNat % 16 = 0
  low : c.stackLow + room ≤ sp.toNat
  high : sp.toNat + SPILL_SPACE ≤ c.stackTop
  disjoint : c.heapBase + c.heapBytes ≤ c.stackLow
  top : c.stackTop < 2 ^ 64

/-- A temporary that can hold (half of) a variable: a non-reserved register or spill slot. -/
def Temporary.isVar : Temporary → Bool
  | .register (.x r) => decide (RESERVED ≤ r) && decide (r < REGISTER_NUM)
  | .register _ => false
  | .spill p => decide (RESERVED_SPILLS ≤ p) && decide (p < SPILL_NUM)

end Scc.A64
