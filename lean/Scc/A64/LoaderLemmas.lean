/-
  Scc.A64.LoaderLemmas — lemmas about the pieces of the AArch64 loader (Scc/A64/Machine.lean:
  `tokenize`, `parseReg`, `parseImm`, `validLabel`, `parseKind`, `parseHookVar`) on the OPERAND texts
  that the printer (Scc/A64/Instr.lean `printCode`) produces:

  * `Tok w`: a non-empty text without blanks and without the punctuation `, [ ] !` is ONE token
    (`go_tok_*`: how `tokenize.go` walks over tokens, blanks and punctuation);
  * `regC r` / `immC i`: the printed register / immediate; `parseReg_regC`, `parseImm_immC` (every
    `Int`), `parseReg_immC` (an immediate is not a register name);
  * `LabelOK l`: a text-safe label; `validLabel_of_labelOK`;
  * `parseHookVar_print`: `x:prd` is read back for EVERY variable name `x` (colons included).
  Proof file: core imports only.
-/
import Scc.A64.Instr
import Scc.StringLemmasAscii

namespace Scc.A64.Loader

open Scc.A64 Scc.Str

set_option linter.unusedSimpArgs false

/-! ## strings and character lists -/

theorem ofList_eq_iff {cs : List Char} {s : String} : String.ofList cs = s ↔ cs = s.toList := by
  constructor
  · intro h; rw [← h, String.toList_ofList]
  · intro h; rw [h, String.ofList_toList]

theorem ofList_beq_false {cs : List Char} {s : String} (h : cs ≠ s.toList) : (String.ofList cs == s) = false := by
  rw [beq_eq_false_iff_ne]; exact fun e => h (ofList_eq_iff.1 e)

theorem ofList_ne_of_head {cs : List Char} {s : String} (h : cs.head? ≠ s.toList.head?) :
    String.ofList cs ≠ s := fun e => h (by rw [ofList_eq_iff.1 e])

/-! ## tokens -/

/-- characters that `tokenize` keeps inside a token -/
def plainC (c : Char) : Bool := c != ' ' && c != ',' && c != '[' && c != ']' && c != '!'

/-- a non-empty text that `tokenize` reads as one token -/
def Tok (w : List Char) : Prop := w ≠ [] ∧ ∀ c ∈ w, plainC c = true

theorem plainC_ne {c : Char} (h : plainC c = true) : c ≠ ' ' ∧ c ≠ ',' ∧ c ≠ '[' ∧ c ≠ ']' ∧ c ≠ '!' := by
  simp only [plainC, Bool.and_eq_true, bne_iff_ne, ne_eq] at h
  obtain ⟨⟨⟨⟨a, b⟩, c⟩, d⟩, e⟩ := h
  exact ⟨a, b, c, d, e⟩

theorem go_plain (w cs cur : List Char) (acc : List String) (hw : ∀ c ∈ w, plainC c = true) :
    tokenize.go (w ++ cs) cur acc = tokenize.go cs (w.reverse ++ cur) acc := by
  induction w generalizing cur with
  | nil => rfl
  | cons x xs ih =>
    obtain ⟨h1, h2, h3, h4, h5⟩ := plainC_ne (hw x (by simp))
    have e1 : (x == ' ') = false := by simpa using h1
    have e2 : (x == ',') = false := by simpa using h2
    have e3 : (x == '[') = false := by simpa using h3
    have e4 : (x == ']') = false := by simpa using h4
    have e5 : (x == '!') = false := by simpa using h5
    rw [List.cons_append, tokenize.go]
    simp only [e1, e2, e3, e4, e5, if_false, Bool.or_self, Bool.false_eq_true]
    rw [ih _ (fun c hc => hw c (by simp [hc]))]
    simp

theorem go_nil (acc : List String) : tokenize.go [] [] acc = acc.reverse := by
  simp [tokenize.go]

theorem go_blank (cs : List Char) (acc : List String) : tokenize.go (' ' :: cs) [] acc = tokenize.go cs [] acc := by
  rw [tokenize.go]; simp

theorem go_comma (cs : List Char) (acc : List String) :
    tokenize.go (',' :: cs) [] acc = tokenize.go cs [] ("," :: acc) := by
  rw [tokenize.go]; simp

theorem go_lbr (cs : List Char) (acc : List String) :
    tokenize.go ('[' :: cs) [] acc = tokenize.go cs [] ("[" :: acc) := by
  rw [tokenize.go]; simp

theorem go_rbr (cs : List Char) (acc : List String) :
    tokenize.go (']' :: cs) [] acc = tokenize.go cs [] ("]" :: acc) := by
  rw [tokenize.go]; simp

theorem go_bang (cs : List Char) (acc : List String) :
    tokenize.go ('!' :: cs) [] acc = tokenize.go cs [] ("!" :: acc) := by
  rw [tokenize.go]; simp

theorem go_tok_end {w : List Char} (hw : Tok w) (acc : List String) :
    tokenize.go w [] acc = (String.ofList w :: acc).reverse := by
  have := go_plain w [] [] acc hw.2
  simp only [List.append_nil] at this
  rw [this, tokenize.go]
  have hne : w.reverse.isEmpty = false := by
    cases h : w with
    | nil => exact absurd h hw.1
    | cons _ _ => simp
  simp [hne]

theorem go_tok_blank {w : List Char} (hw : Tok w) (cs : List Char) (acc : List String) :
    tokenize.go (w ++ ' ' :: cs) [] acc = tokenize.go cs [] (String.ofList w :: acc) := by
  rw [go_plain w _ [] acc hw.2, tokenize.go]
  have hne : w.reverse.isEmpty = false := by
    cases h : w with
    | nil => exact absurd h hw.1
    | cons _ _ => simp
  simp [hne]

theorem go_tok_comma {w : List Char} (hw : Tok w) (cs : List Char) (acc : List String) :
    tokenize.go (w ++ ',' :: cs) [] acc = tokenize.go cs [] ("," :: String.ofList w :: acc) := by
  rw [go_plain w _ [] acc hw.2, tokenize.go]
  have hne : w.reverse.isEmpty = false := by
    cases h : w with
    | nil => exact absurd h hw.1
    | cons _ _ => simp
  simp [hne]

theorem tokenize_ofList (l : List Char) : tokenize (String.ofList l) = tokenize.go l [] [] := by
  unfold tokenize; rw [String.toList_ofList]

theorem tokenize_nil : tokenize "" = [] := by
  have := tokenize_ofList []
  rw [String.ofList_nil] at this
  rw [this, go_nil]; rfl

/-! ## the operand shapes of `printCode` and their tokens -/

/-- `a` -/
theorem tokens1 {a : List Char} (ha : Tok a) : tokenize (String.ofList a) = [String.ofList a] := by
  rw [tokenize_ofList, go_tok_end ha]; rfl

/-- `a, b` -/
def ops2 (a b : List Char) : List Char := a ++ ',' :: ' ' :: b

theorem tokens2 {a b : List Char} (ha : Tok a) (hb : Tok b) :
    tokenize (String.ofList (ops2 a b)) = [String.ofList a, ",", String.ofList b] := by
  rw [tokenize_ofList, ops2, go_tok_comma ha, go_blank, go_tok_end hb]; rfl

/-- `a, b, c` -/
def ops3 (a b c : List Char) : List Char := a ++ ',' :: ' ' :: ops2 b c

theorem tokens3 {a b c : List Char} (ha : Tok a) (hb : Tok b) (hc : Tok c) :
    tokenize (String.ofList (ops3 a b c)) = [String.ofList a, ",", String.ofList b, ",", String.ofList c] := by
  rw [tokenize_ofList, ops3, ops2, go_tok_comma ha, go_blank, go_tok_comma hb, go_blank, go_tok_end hc]; rfl

/-- `a, b, c, d` -/
def ops4 (a b c d : List Char) : List Char := a ++ ',' :: ' ' :: ops3 b c d

theorem tokens4 {a b c d : List Char} (ha : Tok a) (hb : Tok b) (hc : Tok c) (hd : Tok d) :
    tokenize (String.ofList (ops4 a b c d))
      = [String.ofList a, ",", String.ofList b, ",", String.ofList c, ",", String.ofList d] := by
  rw [tokenize_ofList, ops4, ops3, ops2, go_tok_comma ha, go_blank, go_tok_comma hb, go_blank,
    go_tok_comma hc, go_blank, go_tok_end hd]; rfl

/-- `a, i, LSL s` -/
def opsWide (a i s : List Char) : List Char := a ++ ',' :: ' ' :: (i ++ ',' :: ' ' :: 'L' :: 'S' :: 'L' :: ' ' :: s)

theorem tok_LSL : Tok ['L', 'S', 'L'] := ⟨by simp, by decide⟩

theorem tokensWide {a i s : List Char} (ha : Tok a) (hi : Tok i) (hs : Tok s) :
    tokenize (String.ofList (opsWide a i s))
      = [String.ofList a, ",", String.ofList i, ",", "LSL", String.ofList s] := by
  have e : (',' :: ' ' :: 'L' :: 'S' :: 'L' :: ' ' :: s) = ',' :: ' ' :: (['L', 'S', 'L'] ++ ' ' :: s) := rfl
  rw [tokenize_ofList, opsWide, go_tok_comma ha, go_blank, e, go_tok_comma hi, go_blank,
    go_tok_blank tok_LSL, go_tok_end hs]; rfl

/-- `t, [ b, i ]` -/
def opsMem (t b i : List Char) : List Char := t ++ ',' :: ' ' :: '[' :: ' ' :: (b ++ ',' :: ' ' :: (i ++ [' ', ']']))

theorem tokensMem {t b i : List Char} (ht : Tok t) (hb : Tok b) (hi : Tok i) :
    tokenize (String.ofList (opsMem t b i))
      = [String.ofList t, ",", "[", String.ofList b, ",", String.ofList i, "]"] := by
  rw [tokenize_ofList, opsMem, go_tok_comma ht, go_blank, go_lbr, go_blank, go_tok_comma hb, go_blank,
    go_tok_blank hi, go_rbr, go_nil]; rfl

/-- `t1, t2, [ b, i ]!` -/
def opsStp (t1 t2 b i : List Char) : List Char :=
  t1 ++ ',' :: ' ' :: (t2 ++ ',' :: ' ' :: '[' :: ' ' :: (b ++ ',' :: ' ' :: (i ++ [' ', ']', '!'])))

theorem tokensStp {t1 t2 b i : List Char} (h1 : Tok t1) (h2 : Tok t2) (hb : Tok b) (hi : Tok i) :
    tokenize (String.ofList (opsStp t1 t2 b i))
      = [String.ofList t1, ",", String.ofList t2, ",", "[", String.ofList b, ",", String.ofList i, "]", "!"] := by
  rw [tokenize_ofList, opsStp, go_tok_comma h1, go_blank, go_tok_comma h2, go_blank, go_lbr, go_blank,
    go_tok_comma hb, go_blank, go_tok_blank hi, go_rbr, go_bang, go_nil]; rfl

/-- `t1, t2, [ b ], i` -/
def opsLdp (t1 t2 b i : List Char) : List Char :=
  t1 ++ ',' :: ' ' :: (t2 ++ ',' :: ' ' :: '[' :: ' ' :: (b ++ ' ' :: ']' :: ',' :: ' ' :: i))

theorem tokensLdp {t1 t2 b i : List Char} (h1 : Tok t1) (h2 : Tok t2) (hb : Tok b) (hi : Tok i) :
    tokenize (String.ofList (opsLdp t1 t2 b i))
      = [String.ofList t1, ",", String.ofList t2, ",", "[", String.ofList b, "]", ",", String.ofList i] := by
  rw [tokenize_ofList, opsLdp, go_tok_comma h1, go_blank, go_tok_comma h2, go_blank, go_lbr, go_blank,
    go_tok_blank hb, go_rbr, go_comma, go_blank, go_tok_end hi]; rfl

/-! ## digits -/

theorem isDigit_toDigits (n : Nat) : ∀ c ∈ Nat.toDigits 10 n, c.isDigit = true :=
  fun _ hc => Nat.isDigit_of_mem_toDigits (by decide) (by decide) hc

theorem toString_nat (n : Nat) : toString n = String.ofList (Nat.toDigits 10 n) := by
  show Nat.repr n = _
  apply String.ext; rw [Nat.toList_repr, String.toList_ofList]

theorem isDigit_facts {c : Char} (h : c.isDigit = true) :
    plainC c = true ∧ c.isWhitespace = false ∧ c ≠ ':' ∧ c ≠ '\n' ∧ c ≠ 'X' ∧ c ≠ 'S' ∧ c ≠ 'Z' ∧ c ≠ '-' ∧
      c ≠ '/' ∧ c ≠ '.' := by
  have hr : 48 ≤ c.val ∧ c.val ≤ 57 := by simpa [Char.isDigit] using h
  have key : ∀ d : Char, (d.val < 48 ∨ 57 < d.val) → c ≠ d := by
    intro d hd e; subst e
    rcases hd with hd | hd
    · exact absurd hr.1 (by simpa using hd)
    · exact absurd hr.2 (by simpa using hd)
  refine ⟨?_, ?_, key _ (by decide), key _ (by decide), key _ (by decide), key _ (by decide),
    key _ (by decide), key _ (by decide), key _ (by decide), key _ (by decide)⟩
  · simp only [plainC, Bool.and_eq_true, bne_iff_ne]
    exact ⟨⟨⟨⟨key _ (by decide), key _ (by decide)⟩, key _ (by decide)⟩, key _ (by decide)⟩, key _ (by decide)⟩
  · simp only [Char.isWhitespace, Bool.or_eq_false_iff, decide_eq_false_iff_not]
    exact ⟨⟨⟨key _ (by decide), key _ (by decide)⟩, key _ (by decide)⟩, key _ (by decide)⟩

theorem toDigits_head (n : Nat) : ∃ d ds, Nat.toDigits 10 n = d :: ds ∧ d.isDigit = true := by
  have hne : Nat.toDigits 10 n ≠ [] := Nat.toDigits_ne_nil
  cases h : Nat.toDigits 10 n with
  | nil => exact absurd h hne
  | cons d ds => exact ⟨d, ds, rfl, isDigit_toDigits n d (by rw [h]; simp)⟩

/-! ## registers -/

/-- the printed form of a machine register -/
def regC : Reg → List Char
  | .x n => 'X' :: Nat.toDigits 10 n.val
  | .sp => ['S', 'P']
  | .xzr => ['X', 'Z', 'R']

theorem print_toReg {x : Register} {r : Reg} (h : x.toReg = some r) : x.print = String.ofList (regC r) := by
  cases x with
  | x k =>
    simp only [Register.toReg] at h
    split at h
    · cases h
      simp only [Register.print, regC, archNumber]
      split
      · rw [toString_nat]; apply String.ext; simp [String.toList_append]
      · rw [toString_nat]; apply String.ext; simp [String.toList_append]
    · cases h
  | sp => cases h; rfl
  | xzr => cases h; rfl

theorem regC_chars (r : Reg) : ∀ c ∈ regC r,
    plainC c = true ∧ c.isWhitespace = false ∧ c ≠ ':' ∧ c ≠ '\n' ∧ c ≠ '/' ∧ c ≠ '.' := by
  intro c hc
  cases r with
  | x n =>
    simp only [regC, List.mem_cons] at hc
    rcases hc with rfl | hc
    · decide
    · have := isDigit_facts (isDigit_toDigits _ c hc)
      exact ⟨this.1, this.2.1, this.2.2.1, this.2.2.2.1, this.2.2.2.2.2.2.2.2.1, this.2.2.2.2.2.2.2.2.2⟩
  | sp => revert c; decide
  | xzr => revert c; decide

theorem regC_ne_nil (r : Reg) : regC r ≠ [] := by cases r <;> simp [regC]

theorem tok_regC (r : Reg) : Tok (regC r) := ⟨regC_ne_nil r, fun c hc => (regC_chars r c hc).1⟩

theorem parseReg_regC (r : Reg) : parseReg (String.ofList (regC r)) = some r := by
  cases r with
  | sp => rfl
  | xzr => rfl
  | x n =>
    obtain ⟨d, ds, hd, hdig⟩ := toDigits_head n.val
    have hf := isDigit_facts hdig
    unfold parseReg
    have h1 : (String.ofList ('X' :: Nat.toDigits 10 n.val) == "SP") = false :=
      ofList_beq_false (by intro e; cases e)
    have h2 : (String.ofList ('X' :: Nat.toDigits 10 n.val) == "XZR") = false :=
      ofList_beq_false (by
        rw [hd]; intro e
        have : d = 'Z' := by injection e with _ e; injection e
        exact hf.2.2.2.2.2.2.1 this)
    simp only [regC, h1, h2, Bool.false_eq_true, if_false, String.toList_ofList, toNat?_toDigits]
    have hlt : n.val < 31 := n.isLt
    simp only [hlt, dite_true, toString_nat, beq_self_eq_true, if_true]

/-! ## immediates -/

/-- the printed form of an immediate -/
def immC : Int → List Char
  | .ofNat n => Nat.toDigits 10 n
  | .negSucc n => '-' :: Nat.toDigits 10 (n + 1)

theorem immPrint_eq (i : Int) : immPrint i = String.ofList (immC i) := by
  apply String.ext
  rw [String.toList_ofList]
  cases i with
  | ofNat n => show (Nat.repr n).toList = _; exact Nat.toList_repr
  | negSucc n =>
    show ("-" ++ Nat.repr (n + 1)).toList = _
    rw [String.toList_append, Nat.toList_repr]; rfl

theorem immC_chars (i : Int) : ∀ c ∈ immC i,
    plainC c = true ∧ c.isWhitespace = false ∧ c ≠ ':' ∧ c ≠ '\n' := by
  intro c hc
  cases i with
  | ofNat n =>
    have := isDigit_facts (isDigit_toDigits _ c hc)
    exact ⟨this.1, this.2.1, this.2.2.1, this.2.2.2.1⟩
  | negSucc n =>
    simp only [immC, List.mem_cons] at hc
    rcases hc with rfl | hc
    · decide
    · have := isDigit_facts (isDigit_toDigits _ c hc)
      exact ⟨this.1, this.2.1, this.2.2.1, this.2.2.2.1⟩

theorem immC_ne_nil (i : Int) : immC i ≠ [] := by
  cases i with
  | ofNat n => exact Nat.toDigits_ne_nil
  | negSucc n => simp [immC]

theorem tok_immC (i : Int) : Tok (immC i) := ⟨immC_ne_nil i, fun c hc => (immC_chars i c hc).1⟩

theorem parseImm_immC (i : Int) : parseImm (String.ofList (immC i)) = some i := by
  unfold parseImm
  rw [String.toList_ofList]
  cases i with
  | ofNat n =>
    obtain ⟨d, ds, hd, hdig⟩ := toDigits_head n
    have hm : d ≠ '-' := (isDigit_facts hdig).2.2.2.2.2.2.2.1
    simp only [immC, hd]
    split
    · rename_i heq; injection heq with h _; exact absurd h hm
    · rw [← hd, toNat?_toDigits]
      simp only [toString_nat, beq_self_eq_true, if_true]; rfl
  | negSucc n =>
    simp only [immC, toNat?_toDigits, toString_nat, beq_self_eq_true, if_true]
    rw [Int.negSucc_eq]; rfl

/-- the text of an immediate is not a register name -/
theorem parseReg_immC (i : Int) : parseReg (String.ofList (immC i)) = none := by
  have hhead : ∃ d ds, immC i = d :: ds ∧ d ≠ 'S' ∧ d ≠ 'X' := by
    cases i with
    | ofNat n =>
      obtain ⟨d, ds, hd, hdig⟩ := toDigits_head n
      have hf := isDigit_facts hdig
      exact ⟨d, ds, hd, hf.2.2.2.2.2.1, hf.2.2.2.2.1⟩
    | negSucc n => exact ⟨'-', _, rfl, by decide, by decide⟩
  obtain ⟨d, ds, hd, hS, hX⟩ := hhead
  unfold parseReg
  have h1 : (String.ofList (immC i) == "SP") = false :=
    ofList_beq_false (by rw [hd]; intro e; injection e with e _; exact hS e)
  have h2 : (String.ofList (immC i) == "XZR") = false :=
    ofList_beq_false (by rw [hd]; intro e; injection e with e _; exact hX e)
  simp only [h1, h2, Bool.false_eq_true, if_false, String.toList_ofList]
  rw [hd]
  split
  · rename_i heq; injection heq with h _; exact absurd h hX
  · rfl

/-! ## labels -/

/-- characters of a text-safe label: no white space, none of `, : [ ] !` -/
def labelC (c : Char) : Bool := !c.isWhitespace && c != ',' && c != ':' && c != '[' && c != ']' && c != '!'

/-- a text-safe label (as character list) -/
def LabelOK (l : List Char) : Prop := l ≠ [] ∧ ∀ c ∈ l, labelC c = true

theorem labelC_facts {c : Char} (h : labelC c = true) :
    plainC c = true ∧ c.isWhitespace = false ∧ c ≠ ':' ∧ c ≠ '\n' ∧ c ≠ ' ' ∧ c ≠ ',' ∧ c ≠ '\t' := by
  simp only [labelC, Bool.and_eq_true, bne_iff_ne, ne_eq, Bool.not_eq_true'] at h
  obtain ⟨⟨⟨⟨⟨a, b⟩, c'⟩, d⟩, e⟩, f⟩ := h
  have hsp : c ≠ ' ' := by intro e'; subst e'; revert a; decide
  have hnl : c ≠ '\n' := by intro e'; subst e'; revert a; decide
  have htab : c ≠ '\t' := by intro e'; subst e'; revert a; decide
  refine ⟨?_, a, c', hnl, hsp, b, htab⟩
  simp only [plainC, Bool.and_eq_true, bne_iff_ne]
  exact ⟨⟨⟨⟨hsp, b⟩, d⟩, e⟩, f⟩

theorem tok_label {l : List Char} (h : LabelOK l) : Tok l :=
  ⟨h.1, fun c hc => (labelC_facts (h.2 c hc)).1⟩

theorem validLabel_of_labelOK {l : List Char} (h : LabelOK l) : validLabel (String.ofList l) = true := by
  unfold validLabel
  rw [isEmpty_ofList, String.toList_ofList]
  have hne : l.isEmpty = false := by
    cases hl : l with
    | nil => exact absurd hl h.1
    | cons _ _ => rfl
  simp only [hne, Bool.not_false, Bool.true_and, List.all_eq_true, Bool.and_eq_true, bne_iff_ne]
  intro c hc
  have := labelC_facts (h.2 c hc)
  exact ⟨⟨⟨this.2.2.2.2.1, this.2.2.2.2.2.1⟩, this.2.2.1⟩, this.2.2.2.2.2.2⟩

theorem trimmed_of_chars {l : List Char} (h : ∀ c ∈ l, c.isWhitespace = false) : Trimmed l :=
  ⟨fun c hc => h c (List.mem_of_mem_head? hc), fun c hc => h c (List.mem_of_getLast? hc)⟩

theorem trimmed_label {l : List Char} (h : LabelOK l) : Trimmed l :=
  trimmed_of_chars (fun c hc => (labelC_facts (h.2 c hc)).2.1)

/-! ## hook variables -/

def kindC : Kind → List Char
  | .prd => ['p', 'r', 'd']
  | .cns => ['c', 'n', 's']
  | .ext => ['e', 'x', 't']

theorem parseKind_kindC (k : Kind) : parseKind (String.ofList (kindC k)) = some k := by
  cases k <;> rfl

theorem kindC_no_colon (k : Kind) : ':' ∉ kindC k := by cases k <;> decide

/-- `x:kind` is read back as `(x, kind)` for EVERY name `x` (the split is at the last colon) -/
theorem parseHookVar_print (x : List Char) (k : Kind) :
    parseHookVar (String.ofList (x ++ ':' :: kindC k)) = some (String.ofList x, k) := by
  unfold parseHookVar
  rw [splitOn_colon, String.toList_ofList, splitList_append_sep', splitList_of_not_mem _ _ (kindC_no_colon k)]
  obtain ⟨p, ps, hp⟩ : ∃ p ps, splitList ':' x = p :: ps := by
    cases h : splitList ':' x with
    | nil => exact absurd h (splitList_ne_nil _ _)
    | cons p ps => exact ⟨p, ps, rfl⟩
  have hrev : (List.map String.ofList (splitList ':' x ++ [kindC k])).reverse
      = String.ofList (kindC k) :: (List.map String.ofList (splitList ':' x)).reverse := by simp
  rw [hrev]
  have hne : ∃ q qs, (List.map String.ofList (splitList ':' x)).reverse = q :: qs := by
    cases h : (List.map String.ofList (splitList ':' x)).reverse with
    | nil => rw [hp] at h; simp at h
    | cons q qs => exact ⟨q, qs, rfl⟩
  obtain ⟨q, qs, hq⟩ := hne
  have hback : (q :: qs).reverse = List.map String.ofList (splitList ':' x) := by
    rw [← hq, List.reverse_reverse]
  rw [hq]
  simp only [parseKind_kindC]
  rw [hback, intercalate_colon_splitList]

end Scc.A64.Loader
