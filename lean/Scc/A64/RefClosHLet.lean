/-
  Scc.A64.RefClosHLet — THREE-WAY SIMULATION of `let` (allocation of an object) on AArch64:
  positional machine ⟷ abstract backend machine ⟷ AArch64 machine.  The left half is Theorem A's `sim2_let`
  (Scc/Backend/ProofsHeap2.lean); the right half runs the emitted `Memory::store` (`store_x3`,
  RefHeapStore.lean) and the tag load on the machine and re-establishes `X3`.
  NOTE (fork): this file is the closure-aware version of Scc/A64/RefHeapLet.lean (same proofs, the
  three-way relation additionally carries the per-instance code-pointer map `κ`), in the namespace
  `Scc.A64.Ref.K`.
-/
import Scc.A64.RefClosHStore
import Scc.A64.RefHeapBridge
import Scc.A64.RefParam

set_option linter.unusedVariables false
set_option linter.unusedSimpArgs false

namespace Scc.A64.Ref.K

open Scc.AxCut Scc.AxCut.Pos Scc.Backend Scc.Backend.Abs Scc.Backend.Sim Scc.Backend.Sim2 Scc.A64 Scc.A64.CC
open Scc.Heap (HState InvS InvW)
open Scc.Heap.Refine (HRef imgW fieldImg kindB FrLe Room)

/-! ## `store` of no field: the null pointer -/

theorem storeObj_nil (hs : HState) : Scc.Heap.storeObj hs [] = .ok (hs, 0) := by
  unfold Scc.Heap.storeObj
  rw [Scc.Heap.storeFields]
  simp

theorem store_x3_empty {c : MemCfg} (H : CfgCC c) (h8 : c.heapBase % 8 = 0)
    {Γ : Ctx} {cfg cfg1 : Config} {hs : HState} {ι : Nat → Nat} {κ : Nat → Nat → Word} {σ : State} {out : List (Bool × Word)}
    (X : X3 c Γ cfg hs ι κ σ out)
    (hlow : ∀ t, t < 2 * Γ.length → cfg1.temps.get t = cfg.temps.get t)
    (hheap : cfg1.heap = cfg.heap) (hnx : cfg1.next = cfg.next) (hout : cfg1.out = cfg.out) (kk : Nat) :
    ∃ code kk', (store [] Γ).run kk = .ok (code, kk') ∧ kk ≤ kk' ∧ LabsIn code kk kk' ∧
      ∃ σ', execFwd c code σ = .ok (σ', .next) ∧
        X3R c Γ cfg1 (roots Γ cfg.temps) hs ι κ σ' out ∧
        σ'.tempVal (posTemp (2 * Γ.length)) = some 0 ∧
        (∀ t, t < 2 * Γ.length → σ'.tempVal (posTemp t) = σ.tempVal (posTemp t)) := by
  obtain ⟨code, kk', hrun, hle, hlabs, σ', hx, B', HR', ⟨w, hw, ew⟩, FT⟩ :=
    store_contract h8 (X.spOk H) X.hrel (toStore := []) (rem := Γ) (fs := [])
      (by have := X.cap; simp; omega) trivial (storeObj_nil hs) kk
  have hkeep : ∀ t, t < 2 * Γ.length → σ'.tempVal (posTemp t) = σ.tempVal (posTemp t) := by
    intro t ht
    have htc : t < 281 := by have := X.cap; omega
    apply FT.temps _ (opndOK_posTemp htc)
    intro hc
    rcases hc with e | e | e | e | ⟨j, e⟩
    · exact posTemp_ne_x htc (by decide) e
    · exact posTemp_ne_x htc (by decide) e
    · exact posTemp_ne_x htc (by decide) e
    · exact posTemp_ne_x htc (by decide) e
    · have := posTemp_inj.1 e; omega
  have hw0 : w = 0 := by
    apply BitVec.eq_of_toNat_eq; rw [ew]; rfl
  refine ⟨code, kk', hrun, hle, hlabs, σ', hx, ?_, by rw [hw, hw0], hkeep⟩
  refine ⟨core_frameT H X.core FT, X.cap, ?_, ?_, by rw [hout]; exact X.out, HR', ?_⟩
  · intro i hi a ha
    rw [hlow _ (by omega)] at ha
    rw [hkeep _ (by omega)]
    exact X.words i hi a ha
  · intro i hi hc r hr
    rw [hlow _ (by omega)] at hr
    rw [hkeep _ (by omega)]
    exact X.ptrs i hi hc r hr
  · rw [hheap, hnx]
    exact X.href

/-! ## `let` -/

theorem hook_comments (hooks : Bool) (Γ : Ctx) (m : String) :
    ∀ y ∈ hookCode a64Backend hooks Γ ++ [a64Backend.comment m], ∃ m', y = Code.COMMENT m' := by
  intro y hy
  unfold hookCode at hy
  cases hooks <;> simp at hy
  · exact ⟨_, hy⟩
  · rcases hy with rfl | rfl <;> exact ⟨_, rfl⟩

theorem trW_prd_tag (pos : Nat) :
    BitVec.ofInt 64 (jumpLength pos) = trW .prd (BitVec.ofInt 64 (pos : Int)) := by
  show BitVec.ofInt 64 ((4 : Int) * (pos : Int)) = BitVec.ofInt 64 pos * 4#64
  rw [BitVec.ofInt_mul, BitVec.mul_comm]
  rfl

/-- `load_immediate` into the word part of a position, as a frame -/
theorem li_pos {c : MemCfg} (H : CfgCC c) {σ : State} (C : Core c σ) {t : Nat} (ht : t < 281) (imm : Int) :
    ∃ σ', execCodes c (loadImmediate (posTemp t) imm) σ = .ok σ' ∧ Core c σ' ∧
      σ'.tempVal (posTemp t) = some (BitVec.ofInt 64 imm) ∧ Frame σ σ' (posTemp t) := by
  obtain ⟨σ', e, hv, F⟩ := loadImmediate_correct c 144 σ (spOkS_of_core H C) (posTemp t) (isVar_posTemp ht)
    (BitVec.ofInt 64 imm)
  rw [loadImmediate_toInt] at e
  exact ⟨σ', e, core_execCodes H _ C (allInt_loadImmediate (ok_of_isVar (isVar_posTemp ht)) imm) e, hv, F⟩

/-- what `let` / `create` do to the positions and the heap (for the closure invariant, RefClos*.lean): the
first `N` positions are untouched; the remaining ones are stored into a new object (none: no object) -/
structure LetProv (Γ : Ctx) (N : Nat) (cfg cfg' : Config) (κ κ' : Nat → Nat → Word)
    (σ σ' : State) : Prop where
  keep : KeepPos N cfg cfg' σ σ'
  obj : ∃ fields, readFields cfg.temps (Mock.kindsOf (Γ.drop N)) N = some fields ∧
    ((Γ.drop N = [] ∧ cfg'.heap = cfg.heap ∧ κ' = κ ∧ cfg'.temps.get (2 * N) = some 0) ∨
     (Γ.drop N ≠ [] ∧ cfg'.heap = (cfg.next, ⟨0, fields⟩) :: cfg.heap ∧ κ' = storeK σ κ cfg.next N ∧
      cfg'.temps.get (2 * N) = some (BitVec.ofNat 64 cfg.next)))

section Let3

variable {c : MemCfg} (H : CfgCC c) (h8 : c.heapBase % 8 = 0) {hkf : Code → Bool} {Pm : Prog}
  {cs : List Code} (Hp : Holds hkf Pm cs) (hnd : (labs cs).Nodup)

include H h8 Hp hnd in
/-- THREE-WAY SIMULATION OF `let` -/
theorem let_x3 {P : Program} {hooks : Bool} {prog : AxCut.Prog} {Γ : Ctx} {ρ : List Value} {x : Ident}
    {ty : Ty} {tag : Ident} {args : Ctx} {next : Stmt} {fv : FV} {cfg : Config} {pos : Nat}
    (R : RelX P hooks prog ⟨Γ, ρ, .letS x ty tag args next fv⟩ cfg)
    (hk : args.length ≤ Γ.length)
    (hfresh : ∀ b ∈ Γ.take (Γ.length - args.length), b.var.id ≠ x.id)
    (hpos : Pos.tagPosition prog.types ty tag = .ok pos)
    (hcap : 2 * (Γ.length - args.length + 1) + 2 < Mock.T_TEMP)
    (hnext : cfg.next < 2 ^ 64)
    {hs : HState} {ι : Nat → Nat} {κ : Nat → Nat → Word} {σ : State} {out : List (Bool × Word)} {kp : Nat}
    (X : X3 c Γ cfg hs ι κ σ out)
    {k k' : Nat} {items : List Code}
    (hrun : (codeStatementR a64Backend hooks natRen prog.types (.letS x ty tag args next fv) Γ).run k =
      .ok (items, k'))
    (hat : XAt cs kp items)
    (hroom : Room hs (64 * args.length + 64)) :
    ∃ cfg' σ' hs' ι' κ' kp', stepsTo P 2 cfg cfg' ∧
      MSteps Pm c σ (pcOf hkf cs kp) out σ' (pcOf hkf cs kp') out ∧ FrLe hs hs' (64 * args.length) ∧
      cfg'.out = cfg.out ∧ cfg'.next ≤ cfg.next + 1 ∧
      RelX P hooks prog ⟨Γ.take (Γ.length - args.length) ++ [⟨x, .prd, ty⟩],
        ρ.take (Γ.length - args.length) ++ [.obj pos (ρ.drop (Γ.length - args.length))], next⟩ cfg' ∧
      X3 c (Γ.take (Γ.length - args.length) ++ [⟨x, .prd, ty⟩]) cfg' hs' ι' κ' σ' out ∧
      ∃ k1 k1' items', (codeStatementR a64Backend hooks natRen prog.types next
          (Γ.take (Γ.length - args.length) ++ [⟨x, .prd, ty⟩])).run k1 = .ok (items', k1') ∧
        XAt cs kp' items' ∧ LetProv Γ (Γ.length - args.length) cfg cfg' κ κ' σ σ' := by
  obtain ⟨cfg', hst, hout', hnx', R'⟩ := sim2_let R hk hfresh hpos hcap hnext
  -- the mock code at the program counter (as in `sim2_let`)
  obtain ⟨c0m, c0m', ops, hrunM, hatM⟩ := R.code
  obtain ⟨d, hd, hxp⟩ := tagPosition_ok hpos
  simp only [codeStatementR, run_bind_ok, run_pure_ok, lookupTypeDeclM_run_ok, xtorPositionM_run_ok,
    splitOffLast_run_ok, mockSym_store, mockSym_variableTemporary, vt_run_ok] at hrunM
  obtain ⟨decl, k1, ⟨hd', rfl⟩, pos', k2, ⟨hx', rfl⟩, sp, k3, ⟨_, rfl, rfl⟩, c1, k4, ⟨rfl, rfl⟩, t, k5,
    ⟨p, hp, rfl, rfl⟩, c3, k6, h3, rfl, rfl⟩ := hrunM
  rw [hd] at hd'; cases hd'
  rw [hxp] at hx'; cases hx'
  have hn : (Γ.take (Γ.length - args.length)).length = Γ.length - args.length := by simp
  have hp' : p = Γ.length - args.length := by
    rw [ctxPosition_eq_posOf] at hp
    have := posOf_append_fresh (Γ.take (Γ.length - args.length)) ⟨x, .prd, ty⟩ hfresh
    simp only at hp
    rw [this, hn] at hp
    exact (Option.some.inj hp).symm
  subst hp'
  simp only [mockSym_comment, mockSym_loadImmediate, mockSym_jumpLength, List.append_assoc,
    CodeAt_hook] at hatM
  simp only [List.cons_append, List.nil_append, CodeAt, TempNum.toNat] at hatM
  obtain ⟨hstore, hli, hat3⟩ := hatM
  rw [hn] at hstore
  -- the AArch64 code at the program counter
  simp only [codeStatementR, run_bind_ok, run_pure_ok, lookupTypeDeclM_run_ok, xtorPositionM_run_ok,
    splitOffLast_run_ok] at hrun
  obtain ⟨declX, _, ⟨hdX, rfl⟩, posX, _, ⟨hxX, rfl⟩, spX, _, ⟨_, rfl, rfl⟩, cst, kst0, hstX, tX, kst, htX,
    c3X, k6X, h3X, rfl, rfl⟩ := hrun
  rw [hd] at hdX; cases hdX
  rw [hxp] at hxX; cases hxX
  obtain ⟨pX, hpX, hltX, rfl, rfl, _⟩ := vt_rel htX
  have hpX' : pX = Γ.length - args.length := by
    have := posOf_append_fresh (Γ.take (Γ.length - args.length)) ⟨x, .prd, ty⟩ hfresh
    simp only at hpX
    rw [this, hn] at hpX
    exact (Option.some.inj hpX).symm
  subst hpX'
  simp only [TempNum.toNat] at hltX
  generalize hN : Γ.length - args.length = N at *
  have hNle : N ≤ Γ.length := by omega
  -- the two abstract steps, explicitly
  obtain ⟨cA, hsA, cB, hsB, hcB⟩ := hst
  have hcB' : cB = cfg' := hcB
  subst hcB'
  -- layout of the AArch64 items
  simp only [] at hstX h3X htX hat h3 hp hpX
  have hxc : a64Backend.comment "#load tag" = Code.COMMENT "#load tag" := rfl
  have hxl : a64Backend.loadImmediate (posTemp (2 * N + TempNum.snd.toNat)) (a64Backend.jumpLength pos) =
      loadImmediate (posTemp (2 * N + 1)) (jumpLength pos) := rfl
  rw [hxc, hxl] at hat
  generalize hc0 : hookCode a64Backend hooks Γ ++ [a64Backend.comment
      ("let " ++ x.print ++ ": " ++ tyPrint ty ++ " = " ++ tag.print ++ "(" ++ varsPrint args ++ ");")] = c0 at hat
  have hc0c : ∀ y ∈ c0, ∃ m', y = Code.COMMENT m' := by rw [← hc0]; exact hook_comments hooks Γ _
  have hatA : XAt cs kp (c0 ++ (cst ++ ((Code.COMMENT "#load tag" ::
      loadImmediate (posTemp (2 * N + 1)) (jumpLength pos)) ++ c3X))) := by
    simpa [List.append_assoc] using hat
  -- the comments
  have hk0 := x_msteps_codes (c := c) Hp hatA.left (execCodes_comments c c0 σ hc0c) out
  have hat1 : XAt cs (kp + c0.length) (cst ++ ((Code.COMMENT "#load tag" ::
      loadImmediate (posTemp (2 * N + 1)) (jumpLength pos)) ++ c3X)) := hatA.right
  -- the fields read by the abstract `store`
  have hlenρ : (ρ.drop N).length = (Γ.drop N).length := by
    have := R.len; simp only at this; simp [this]
  obtain ⟨fields, hf, hrep, hch⟩ := readFields_ok2 (Γ.drop N) (ρ.drop N) N (R.vals.slice N) hlenρ
  have hlenTake : (Γ.take N).length = N := hn
  -- the store on both machines
  have mid : ∃ σ1 hs' ι' κ', MSteps Pm c σ (pcOf hkf cs (kp + c0.length)) out σ1
        (pcOf hkf cs (kp + c0.length + cst.length)) out ∧
      X3R c (Γ.take N) cA (roots (Γ.take N) cA.temps ++ Sim2.rootOf cA.temps ⟨x, .prd, ty⟩ N) hs' ι' κ' σ1 out ∧
      (∀ r, cA.temps.get (2 * N) = some r → σ1.tempVal (posTemp (2 * N)) = some (imgWord ι' r)) ∧
      cA.pc = cfg.pc + 1 ∧ FrLe hs hs' (64 * args.length) ∧
      (∀ t, t < 2 * N → cA.temps.get t = cfg.temps.get t) ∧
      (∀ t, t < 2 * N → σ1.tempVal (posTemp t) = σ.tempVal (posTemp t)) ∧
      ((Γ.drop N = [] ∧ cA.heap = cfg.heap ∧ κ' = κ ∧ cA.temps.get (2 * N) = some 0) ∨
       (Γ.drop N ≠ [] ∧ cA.heap = (cfg.next, ⟨0, fields⟩) :: cfg.heap ∧ κ' = storeK σ κ cfg.next N ∧
        cA.temps.get (2 * N) = some (BitVec.ofNat 64 cfg.next))) := by
    cases hΔ : Γ.drop N with
    | nil =>
      have hNΓ : N = Γ.length := by
        have := congrArg List.length hΔ
        simp at this; omega
      rw [hΔ] at hstore hstX
      have hT : Γ.take N = Γ := by rw [hNΓ]; exact List.take_length
      rw [hT] at hstX ⊢
      have hA := step_store_empty P cfg N hstore
      rw [hsA] at hA
      injection hA with hA
      have hlow : ∀ t, t < 2 * Γ.length → cA.temps.get t = cfg.temps.get t := by
        intro t ht
        rw [hA]
        simp only
        rw [get_set_other _ _ (by omega), get_clobberTemp _ (by unfold Mock.T_TEMP; have := X.cap; omega)]
      obtain ⟨code, kk', hrunS, _, _, σ1, hx, X1, hv1, hkeepE⟩ :=
        store_x3_empty H h8 X hlow (by rw [hA]) (by rw [hA]) (by rw [hA]) k
      have hcode : code = cst ∧ kk' = kst := by
        have : (store [] Γ).run k = .ok (cst, kst) := hstX
        rw [hrunS] at this
        injection this with this
        injection this with e1 e2
        exact ⟨e1, e2⟩
      obtain ⟨rfl, rfl⟩ := hcode
      have hn1 := x_msteps_fwd Hp hnd hat1.left hx out
      have h2n : cA.temps.get (2 * N) = some 0 := by
        rw [hA]; simp only; exact get_set_same _ _ _
      refine ⟨σ1, hs, ι, κ, hn1, ?_, ?_, by rw [hA], by
        have : args.length = 0 := by omega
        rw [this]; exact Scc.Heap.Refine.FrLe.refl hs, fun t ht => hlow t (by omega),
        fun t ht => hkeepE t (by omega),
        Or.inl ⟨rfl, by rw [hA], rfl, h2n⟩⟩
      · have hr : Sim2.rootOf cA.temps ⟨x, .prd, ty⟩ N = [] := by
          unfold Sim2.rootOf; rw [h2n]; simp
        rw [hr, List.append_nil, roots_congr _ _ _ (fun i hi => hlow (2 * i) (by omega))]
        exact X1
      · intro r hr
        rw [h2n] at hr
        injection hr with hr
        subst hr
        rw [hNΓ, hv1]
        simp [imgWord]
    | cons b Δ =>
      rw [hΔ] at hstore
      have hfc : readFields cfg.temps (b.chi :: Mock.kindsOf Δ) N = some fields := by
        rw [hΔ] at hf; exact hf
      have hA := step_store_cons P cfg b.chi (Mock.kindsOf Δ) N fields hstore hfc
      rw [hsA] at hA
      injection hA with hA
      have hNlt : N < Γ.length := by
        have := congrArg List.length hΔ
        simp at this; omega
      have hlow : ∀ t, t < 2 * N → cA.temps.get t = cfg.temps.get t := by
        intro t ht
        rw [hA]
        simp only
        rw [get_set_other _ _ (by omega), get_clearPositions, if_neg (by omega),
          get_clobberTemp _ (by unfold Mock.T_TEMP; have := X.cap; omega)]
      obtain ⟨code, kk', hrunS, _, _, σ1, hs', p, hx, X1, hv1, hp0, hplt, hfrS, hkeepS⟩ :=
        store_x3 H h8 X hNlt hf (hch 0) hnext hlow (by rw [hA]) (by rw [hA]) (by rw [hA])
          (by rw [show Γ.length - N = args.length by omega]; exact hroom) k
      have hcode : code = cst ∧ kk' = kst := by
        have : (store (Γ.drop N) (Γ.take N)).run k = .ok (cst, kst) := hstX
        rw [hrunS] at this
        injection this with this
        injection this with e1 e2
        exact ⟨e1, e2⟩
      obtain ⟨rfl, rfl⟩ := hcode
      have hn1 := x_msteps_fwd Hp hnd hat1.left hx out
      have h2n : cA.temps.get (2 * N) = some (BitVec.ofNat 64 cfg.next) := by
        rw [hA]; simp only; exact get_set_same _ _ _
      have hr0 : BitVec.ofNat 64 cfg.next ≠ 0 := ofNat_ne_zero X.href.abs.pos hnext
      have hrt : (BitVec.ofNat 64 cfg.next).toNat = cfg.next := ofNat_toNat_lt hnext
      refine ⟨σ1, hs', (fun i => if i = cfg.next then p else ι i), storeK σ κ cfg.next N, hn1, ?_, ?_, by rw [hA], by
        rw [show Γ.length - N = args.length by omega] at hfrS; exact hfrS, hlow,
        fun t ht => hkeepS t ht,
        Or.inr ⟨by simp, by rw [hA], rfl, h2n⟩⟩
      · have hr : Sim2.rootOf cA.temps ⟨x, .prd, ty⟩ N = [cfg.next] := by
          unfold Sim2.rootOf
          rw [h2n]
          have h1 : (Chi.prd != Chi.ext) = true := by decide
          have h2 : (BitVec.ofNat 64 cfg.next != 0) = true := by rw [bne_iff_ne]; exact hr0
          simp only [h1, h2, if_true, hrt]
        rw [hr, roots_congr _ _ _ (fun i hi => hlow (2 * i) (by rw [hlenTake] at hi; omega))]
        exact X1
      · intro r hr
        rw [h2n] at hr
        injection hr with hr
        subst hr
        rw [hv1]
        unfold imgWord
        rw [if_neg hr0, hrt]
        simp
  obtain ⟨σ1, hs', ι', κ', hn1, X1, hptr1, hpcA, hfrM, hlowM, hmachM, hobjM⟩ := mid
  -- the tag
  have hB := step_li P cA (2 * N + 1) pos (by rw [hpcA]; exact hli) (by unfold Mock.T_TEMP; omega)
  rw [hsB] at hB
  injection hB with hB
  have hat2 : XAt cs (kp + c0.length + cst.length) ((Code.COMMENT "#load tag" ::
      loadImmediate (posTemp (2 * N + 1)) (jumpLength pos)) ++ c3X) := hat1.right
  obtain ⟨σ2, hx2, C2, hv2, F2⟩ := li_pos H X1.core hltX (jumpLength pos)
  have hx2' : execCodes c (Code.COMMENT "#load tag" ::
      loadImmediate (posTemp (2 * N + 1)) (jumpLength pos)) σ1 = .ok σ2 := by
    rw [execCodes_cons c _ _ _ _ (execCode_COMMENT c _ σ1)]
    exact hx2
  have hk2 := x_msteps_codes Hp hat2.left hx2' out
  have X2 : X3R c (Γ.take N ++ [⟨x, .prd, ty⟩]) cB
      (roots (Γ.take N) cA.temps ++ Sim2.rootOf cA.temps ⟨x, .prd, ty⟩ N) hs' ι' κ' σ2 out := by
    refine X3R.snoc X1 (by rw [hlenTake]; exact hltX) C2 (by rw [hlenTake]; exact F2) (a := BitVec.ofInt 64 pos)
      (by rw [hlenTake, hv2]; exact congrArg some (trW_prd_tag pos)) (by rw [hB, hlenTake])
      (by rw [hB]) (by rw [hB]) (by rw [hB]) ?_
    intro _ r hr
    rw [hlenTake] at hr ⊢
    exact hptr1 r hr
  have hrootsB : roots (Γ.take N ++ [⟨x, .prd, ty⟩]) cB.temps =
      roots (Γ.take N) cA.temps ++ Sim2.rootOf cA.temps ⟨x, .prd, ty⟩ N := by
    have hgetB : ∀ t, t ≠ 2 * N + 1 → t < 281 → cB.temps.get t = cA.temps.get t := by
      intro t hne ht
      rw [hB]
      simp only
      rw [get_set_other _ _ hne, get_clobberTemp _ (by unfold Mock.T_TEMP; omega)]
    rw [roots_snoc, hlenTake]
    congr 1
    · exact roots_congr _ _ _ (fun i hi => hgetB (2 * i) (by omega) (by rw [hlenTake] at hi; omega))
    · unfold Sim2.rootOf
      rw [hgetB (2 * N) (by omega) (by omega)]
  refine ⟨cB, σ2, hs', ι', κ', _, ⟨cA, hsA, cB, hsB, rfl⟩, hk0.trans (hn1.trans hk2), hfrM,
    hout', hnx', R', ?_, kst, k6X, c3X, h3X, hat2.right, ?_⟩
  · show X3R c _ cB (roots _ cB.temps) hs' ι' κ' _ _
    rw [hrootsB]
    exact X2
  · -- what happened to the positions and the heap
    refine ⟨⟨fun t ht => ?_, fun i hi => ?_⟩, fields, hf, ?_⟩
    · rw [hB]; simp only
      rw [get_set_other _ _ (by omega), get_clobberTemp _ (by unfold Mock.T_TEMP; omega)]
      exact hlowM t ht
    · rw [mach_keep_frame F2 (by omega) (by omega), hmachM _ (by omega)]
    · have hg2N : cB.temps.get (2 * N) = cA.temps.get (2 * N) := by
        rw [hB]; simp only
        rw [get_set_other _ _ (by omega), get_clobberTemp _ (by unfold Mock.T_TEMP; omega)]
      rcases hobjM with ⟨h1, h2, h3, h4⟩ | ⟨h1, h2, h3, h4⟩
      · exact Or.inl ⟨h1, by rw [hB]; exact h2, h3, by rw [hg2N]; exact h4⟩
      · exact Or.inr ⟨h1, by rw [hB]; exact h2, h3, by rw [hg2N]; exact h4⟩

end Let3

end Scc.A64.Ref.K
