/-
  Scc.A64.RefHeapSwitch — THREE-WAY SIMULATION of `switch` (pattern matching on an object) on AArch64:
  positional machine ⟷ abstract backend machine ⟷ AArch64 machine.  The left half follows Theorem A's
  `sim2_switch` (Scc/Backend/ProofsLoad.lean: the jump through the table, `load_enter`); the right half
  runs `ADR TEMP, table; [LDR TEMP2, tag;] ADD TEMP, TEMP, tag; BR TEMP; B clause` (or falls through for a
  single clause) and the emitted `Memory::load` (`load_x3`, RefHeapLoad.lean) on the machine and
  re-establishes `X3`.  The computed jump lands on the `tag/4`-th `B` of the table: `TableAt` from the
  layout of the routine (`tableAt_of_holdsA`, RefHeapAddr.lean).
-/
import Scc.A64.RefHeapLoad
import Scc.A64.RefHeapLet
import Scc.A64.RefHeapAddr

set_option linter.unusedVariables false
set_option linter.unusedSimpArgs false

namespace Scc.A64.Ref

open Scc.AxCut Scc.AxCut.Pos Scc.Backend Scc.Backend.Abs Scc.Backend.Sim Scc.Backend.Sim2 Scc.A64 Scc.A64.CC
open Scc.Heap (HState InvS InvW)
open Scc.Heap.Refine (HRef imgW fieldImg kindB loadAbs FrLe)

/-! ## the AArch64 code of the table and of the clauses -/

theorem x_codeTable_nth (base : String) : ∀ (clauses : Clauses) (i : Nat) (c : Clause),
    nthClause clauses i = some c →
    (codeTable a64Backend clauses base)[i]? = some (.B (clauseLabel base c.xtor))
  | .nil, _, _, h => by simp [nthClause] at h
  | .cons x ctx body r, 0, c, h => by
    simp only [nthClause, Option.some.injEq] at h
    subst h
    rfl
  | .cons x ctx body r, i + 1, c, h => by
    simp only [nthClause] at h
    have := x_codeTable_nth base r i c h
    show (Code.B _ :: codeTable a64Backend r base)[i + 1]? = _
    simpa using this

theorem x_codeTable_length (base : String) : ∀ (clauses : Clauses),
    (codeTable a64Backend clauses base).length = clauses.length
  | .nil => rfl
  | .cons x ctx body r => by
    show (Code.B _ :: codeTable a64Backend r base).length = _
    simp [Clauses.length, x_codeTable_length base r]

theorem x_codeTable_instr (base : String) : ∀ (clauses : Clauses),
    ∀ code ∈ codeTable a64Backend clauses base, code.isMeta = false
  | .nil => by intro code h; simp [codeTable] at h
  | .cons x ctx body r => by
    intro code h
    have h' : code ∈ Code.B (clauseLabel base x) :: codeTable a64Backend r base := h
    simp only [List.mem_cons] at h'
    rcases h' with rfl | h'
    · rfl
    · exact x_codeTable_instr base r code h'

theorem x_codeClauses_nth (hooks : Bool) (ren : Nat → String) (types : List TypeDecl) (Γ : Ctx) :
    ∀ (clauses : Clauses) (base : String) (i : Nat) (c : Clause) (k : Nat) (code : List Code) (k' : Nat),
    (codeClausesR a64Backend hooks ren types Γ clauses base).run k = .ok (code, k') →
    nthClause clauses i = some c →
    ∃ pre post kl kl' lcode kb' body,
      code = pre ++ Code.LAB (clauseLabel base c.xtor) :: (lcode ++ (body ++ post)) ∧
      (load c.ctx Γ).run kl = .ok (lcode, kl') ∧
      (codeStatementR a64Backend hooks ren types c.body (Γ ++ c.ctx)).run kl' = .ok (body, kb')
  | .nil, _, _, _, _, _, _, _, h => by simp [nthClause] at h
  | .cons x ctx body rest, base, i, c, k, code, k', hrun, h => by
    simp only [codeClausesR, run_bind_ok, run_pure_ok] at hrun
    obtain ⟨c1, k1, h1, c2, k2, h2, c3, k3, h3, rfl, rfl⟩ := hrun
    cases i with
    | zero =>
      simp only [nthClause, Option.some.injEq] at h
      subst h
      exact ⟨[], c3, k, k1, c1, k2, c2, by simp; rfl, h1, h2⟩
    | succ i =>
      simp only [nthClause] at h
      obtain ⟨pre, post, kl, kl', lcode, kb', b, e, hl, hb⟩ :=
        x_codeClauses_nth hooks ren types Γ rest base i c _ _ _ h3 h
      refine ⟨Code.LAB (clauseLabel base x) :: (c1 ++ c2) ++ pre, post, kl, kl', lcode, kb', b, ?_, hl, hb⟩
      rw [e]
      show Code.LAB _ :: (c1 ++ c2 ++ _) = _
      simp

theorem x_codeClauses_head (hooks : Bool) (ren : Nat → String) (types : List TypeDecl) (Γ : Ctx)
    (clauses : Clauses) (base : String) (c : Clause) (k : Nat) (code : List Code) (k' : Nat)
    (hrun : (codeClausesR a64Backend hooks ren types Γ clauses base).run k = .ok (code, k'))
    (h : nthClause clauses 0 = some c) :
    ∃ post kl' lcode kb' body,
      code = Code.LAB (clauseLabel base c.xtor) :: (lcode ++ (body ++ post)) ∧
      (load c.ctx Γ).run k = .ok (lcode, kl') ∧
      (codeStatementR a64Backend hooks ren types c.body (Γ ++ c.ctx)).run kl' = .ok (body, kb') := by
  cases clauses with
  | nil => simp [nthClause] at h
  | cons x ctx body rest =>
    simp only [codeClausesR, run_bind_ok, run_pure_ok] at hrun
    obtain ⟨c1, k1, h1, c2, k2, h2, c3, k3, h3, rfl, rfl⟩ := hrun
    simp only [nthClause, Option.some.injEq] at h
    subst h
    exact ⟨c3, k1, c1, k2, c2, by simp; rfl, h1, h2⟩

/-! ## the abstract machine up to the `load` of the clause (the first part of `sim2_switch`) -/

theorem switch_nav_abs {P : Program} {hooks : Bool} {prog : AxCut.Prog} {Γ' : Ctx} {b : Binding}
    {ρ' : List Value} {pos : Nat} {fields : List Value} {x : Ident} {ty : Ty} {clauses : Clauses}
    {fv : FV} {cfg : Config} {c : Clause}
    (R : RelX P hooks prog ⟨Γ' ++ [b], ρ' ++ [.obj pos fields], .switch x ty clauses fv⟩ cfg)
    (hfits : Fits P)
    (hb : b.var.id = x.id) (hfresh : ∀ b' ∈ Γ', b'.var.id ≠ x.id)
    (hclause : nthClause clauses pos = some c) :
    ∃ k4 cfg4 r, stepsTo P k4 cfg cfg4 ∧ cfg4.heap = cfg.heap ∧ cfg4.next = cfg.next ∧ cfg4.out = cfg.out ∧
      (∀ t, t < 2 * (Γ'.length + 1) → cfg4.temps.get t = cfg.temps.get t) ∧
      P.code[cfg4.pc]? = some (.load (Mock.kindsOf c.ctx) Γ'.length) ∧
      (∃ c0 c0' ops, (codeStatementR mockSym hooks natRen prog.types c.body (Γ' ++ c.ctx)).run c0 = .ok (ops, c0') ∧
        CodeAt P (cfg4.pc + 1) ops) ∧
      cfg.temps.get (2 * Γ'.length) = some r ∧ RepB P hooks prog.types cfg.heap fields r ∧
      cfg.temps.get (2 * Γ'.length + 1) = some (BitVec.ofNat 64 pos) ∧ b.chi = .prd := by
  obtain ⟨k0, k0', ops, hrun, hat⟩ := R.code
  have hlen : ρ'.length = Γ'.length := by have := R.len; simpa using this
  -- the scrutinee position
  have hn1 : Γ'.length < (Γ' ++ [b]).length := by simp
  have hn2 : Γ'.length < (ρ' ++ [Value.obj pos fields]).length := by simp [hlen]
  obtain ⟨hrep, hsome, hkind, hptr⟩ := R.vals Γ'.length hn1 hn2
  have g1 : (Γ' ++ [b])[Γ'.length] = b := by simp
  have g2 : (ρ' ++ [Value.obj pos fields])[Γ'.length] = .obj pos fields := by
    rw [List.getElem_append_right (by omega)]; simp [hlen]
  simp only [g1, g2] at hrep hkind hptr
  have hbchi : b.chi = .prd := hkind
  have hbne : b.chi ≠ .ext := by rw [hbchi]; decide
  have hbe : (b.chi == .ext) = false := (chi_beq_ext_false _).mpr hbne
  simp only [hbe, Bool.false_eq_true, if_false] at hrep
  obtain ⟨r, hr, hB, hw⟩ := hrep.obj_inv
  have hword : cfg.temps.get (2 * Γ'.length + 1) = some (BitVec.ofNat 64 pos) := by
    cases hg : cfg.temps.get (2 * Γ'.length + 1) with
    | none => simp [hg] at hsome
    | some w => simp only [hg, Option.getD_some] at hw; rw [hw]
  -- decode the code
  simp only [codeStatementR, run_bind_ok, run_pure_ok, freshLabelStr_run_ok] at hrun
  obtain ⟨num, k1, ⟨rfl, rfl⟩, c1, k2, h1, c3, k3, h3, rfl, rfl⟩ := hrun
  obtain ⟨pre, post, kb, kb', body, hc3, hbody⟩ :=
    codeClauses_nth hooks natRen prog.types _ clauses _ pos c _ _ _ h3 hclause
  have hdl : (Γ' ++ [b]).dropLast = Γ' := by simp
  rw [hdl] at hc3 hbody
  simp only [mockSym_comment, mockSym_label, List.append_assoc, CodeAt_hook] at hat
  simp only [List.cons_append, List.nil_append, CodeAt] at hat
  rw [CodeAt_append] at hat
  obtain ⟨hat1, hat2⟩ := hat
  simp only [CodeAt] at hat2
  obtain ⟨hlab, hat2⟩ := hat2
  have hposlt := nthClause_lt clauses pos c hclause
  by_cases hle : clauses.length ≤ 1
  · -- a single clause: fall through (comments and labels occupy no space)
    have hpos0 : pos = 0 := by omega
    subst hpos0
    obtain ⟨post0, kb0, kb0', body0, hc30, hbody0⟩ :=
      codeClauses_head hooks natRen prog.types _ clauses _ c _ _ _ h3 hclause
    rw [hdl] at hc30 hbody0
    simp only [hle, if_true, run_pure_ok] at h1
    obtain ⟨rfl, rfl⟩ := h1
    have hgt : ¬ (clauses.length > 1) := by omega
    simp only [hgt, if_false, List.nil_append, CodeAt, instrCount, Nat.add_zero, mockSym_comment] at hat2 hlab
    rw [hc30] at hat2
    obtain ⟨_, hload, hatb⟩ := clause_at hat2
    simp only [instrCount, Nat.add_zero] at hload hatb
    exact ⟨0, cfg, r, rfl, rfl, rfl, rfl, fun _ _ => rfl, hload, ⟨_, _, body0, hbody0, hatb⟩, hr, hB, hword, hbchi⟩
  · -- a jump table
    have hgt : clauses.length > 1 := by omega
    simp only [hle, if_false, run_bind_ok, run_pure_ok, mockSym_variableTemporary, vt_run_ok] at h1
    obtain ⟨tt, k4, ⟨p, hp, rfl, rfl⟩, rfl, rfl⟩ := h1
    have hp' : p = Γ'.length := by
      rw [ctxPosition_eq_posOf] at hp
      have := posOf_append_fresh Γ' b (fun b' hb' => by rw [hb]; exact hfresh b' hb')
      rw [hb] at this
      rw [this] at hp
      exact (Option.some.inj hp).symm
    subst hp'
    simp only [mockSym_loadLabel, mockSym_binop, mockSym_jump, mockSym_temp, List.cons_append,
      List.nil_append, CodeAt, instrCount, TempNum.toNat] at hat1 hat2 hlab
    obtain ⟨hll, hadd, hjmp, _⟩ := hat1
    simp only [hgt, if_true] at hat2
    generalize cfg.pc + (0 + 1 + 1 + 1) = a at hlab hat2
    -- the table entry and the clause
    have htab := codeTable_nth P _ clauses pos c _ _ hclause hat2
    rw [CodeAt_append] at hat2
    obtain ⟨_, hat3⟩ := hat2
    rw [hc3] at hat3
    obtain ⟨hclab, hload, hatb⟩ := clause_at hat3
    generalize a + instrCount (codeTable mockSym clauses (mangleTy ty ++ "_" ++ natRen (k0 + 1))) +
      instrCount pre = ca at hclab hload hatb
    have hcapR := R.cap
    simp only [List.length_append, List.length_singleton] at hcapR
    -- 1: ll
    let σ1 : Temps := cfg.temps.set Mock.T_TEMP (BitVec.ofNat 64 a)
    let cfg1 : Config := { cfg with pc := cfg.pc + 1, temps := σ1 }
    have hs1 : Abs.step P cfg = .next cfg1 := step_ll_temp P cfg _ _ hll hlab
    -- 2: add
    let σ2 : Temps := σ1.set Mock.T_TEMP (BitVec.ofNat 64 a + BitVec.ofNat 64 pos)
    let cfg2 : Config := { cfg1 with pc := cfg.pc + 1 + 1, temps := σ2 }
    have hs2 : Abs.step P cfg1 = .next cfg2 :=
      step_binop_temp P cfg1 BinOp.sum (2 * Γ'.length + 1) (BitVec.ofNat 64 a) (BitVec.ofNat 64 pos) _
        hadd (get_set_same _ _ _) (by
          show σ1.get (2 * Γ'.length + 1) = _
          rw [get_set_other _ _ (by omega)]; exact hword) rfl
    -- 3: jump
    have haddr : (BitVec.ofNat 64 a + BitVec.ofNat 64 pos).toNat = a + pos := by
      apply toNat_add_ofNat
      have := code_lt_size htab
      unfold Fits at hfits
      omega
    let cfg3 : Config := { cfg2 with pc := a + pos, temps := clobberTemp σ2 }
    have hs3 : Abs.step P cfg2 = .next cfg3 := by
      have := Scc.Backend.Sim2.step_jump P cfg2 Mock.T_TEMP _ hjmp (get_set_same _ _ _)
      rw [haddr] at this
      exact this
    -- 4: the table entry
    let cfg4 : Config := { cfg3 with pc := ca, temps := clobberTemp (clobberTemp σ2) }
    have hs4 : Abs.step P cfg3 = .next cfg4 := step_jumpFixed P cfg3 _ _ htab hclab
    refine ⟨4, cfg4, r, ⟨cfg1, hs1, cfg2, hs2, cfg3, hs3, stepsTo_one P _ _ hs4⟩, rfl, rfl, rfl, ?_, hload,
      ⟨_, _, body, hbody, hatb⟩, hr, hB, hword, hbchi⟩
    intro t ht
    show (clobberTemp (clobberTemp σ2)).get t = _
    rw [get_clobberTemp _ (by omega), get_clobberTemp _ (by omega), get_set_other _ _ (by omega),
      get_set_other _ _ (by omega)]


/-! ## the machine up to the `load` of the clause -/

theorem core_setReg {c : MemCfg} {σ : State} (C : Core c σ) (n : Fin 31) (v : Option Word) :
    Core c (σ.setReg n v) := ⟨C.sp, C.saved⟩

theorem frame0_setReg {σ σ' : State} (F : Frame0 σ σ') {n : Fin 31} (hn : n = xT ∨ n = xT2) (v : Option Word) :
    Frame0 σ (σ'.setReg n v) := by
  refine ⟨F.sp, F.heap, ?_, fun a => F.slots a⟩
  intro m h1 h2
  rw [setReg_reg, if_neg (by rcases hn with rfl | rfl <;> first | exact Ne.symm h1 | exact Ne.symm h2)]
  exact F.regs m h1 h2

/-- the machine word of the tag of the `pos`-th xtor -/
theorem tag_word (pos : Nat) : trW .prd (BitVec.ofNat 64 pos) = imm (jumpLength pos) := by
  have := trW_prd_tag pos
  rw [BitVec.ofInt_natCast] at this
  exact this.symm

section Switch3

variable {c : MemCfg} (H : CfgCC c) (h8 : c.heapBase % 8 = 0) {hkf : Code → Bool} {Pm : Prog}
  {cs : List Code} (HA : HoldsA hkf Pm cs) (hnd : (labs cs).Nodup)
  (hfitX : c.codeBase + 4 * ninstr cs < 2 ^ 64)

include H HA hnd hfitX in
/-- the machine from the `switch` to the `load` of the selected clause -/
theorem switch_nav_a64 {hooks : Bool} {types : List TypeDecl} {Γ' : Ctx} {b : Binding} {cfg : Config}
    {hs : HState} {ι : Nat → Nat} {σ : State} {out : List (Bool × Word)} {kp : Nat}
    {x : Ident} {ty : Ty} {clauses : Clauses} {fv : FV} {pos : Nat} {cl : Clause}
    (X : X3 c (Γ' ++ [b]) cfg hs ι σ out)
    (hb : b.var.id = x.id) (hfresh : ∀ b' ∈ Γ', b'.var.id ≠ x.id)
    (hclause : nthClause clauses pos = some cl)
    (hword : cfg.temps.get (2 * Γ'.length + 1) = some (BitVec.ofNat 64 pos)) (hbchi : b.chi = .prd)
    {k k' : Nat} {items : List Code}
    (hrun : (codeStatementR a64Backend hooks natRen types (.switch x ty clauses fv) (Γ' ++ [b])).run k =
      .ok (items, k'))
    (hat : XAt cs kp items) :
    ∃ σ4 kp4 kl kl' lcode kb' body, MSteps Pm c σ (pcOf hkf cs kp) out σ4 (pcOf hkf cs kp4) out ∧
      X3 c (Γ' ++ [b]) cfg hs ι σ4 out ∧
      (load cl.ctx Γ').run kl = .ok (lcode, kl') ∧
      (codeStatementR a64Backend hooks natRen types cl.body (Γ' ++ cl.ctx)).run kl' = .ok (body, kb') ∧
      XAt cs kp4 (lcode ++ body) := by
  have Hp := HA.holds
  simp only [codeStatementR, run_bind_ok, run_pure_ok, freshLabelStr_run_ok] at hrun
  obtain ⟨num, k1, ⟨rfl, rfl⟩, c1, k2, h1, c3, k3, h3, rfl, rfl⟩ := hrun
  have hdl : (Γ' ++ [b]).dropLast = Γ' := by simp
  rw [hdl] at h3
  obtain ⟨pre, post, kl, kl', lcode, kb', body, hc3, hload, hbody⟩ :=
    x_codeClauses_nth hooks natRen types Γ' clauses _ pos cl _ _ _ h3 hclause
  have hposlt := nthClause_lt clauses pos cl hclause
  generalize hc0 : hookCode a64Backend hooks (Γ' ++ [b]) ++
      [a64Backend.comment ("switch " ++ x.print ++ " \\{ ... \\};")] = c0 at hat
  have hc0c : ∀ y ∈ c0, ∃ m', y = Code.COMMENT m' := by rw [← hc0]; exact hook_comments hooks _ _
  generalize hlbl : mangleTy ty ++ "_" ++ natRen (k + 1) = lbl at *
  have hxl : a64Backend.label lbl = Code.LAB lbl := rfl
  rw [hxl] at hat
  by_cases hle : clauses.length ≤ 1
  · -- a single clause: comments and labels only
    have hpos0 : pos = 0 := by omega
    subst hpos0
    simp only [hle, if_true, run_pure_ok] at h1
    obtain ⟨rfl, rfl⟩ := h1
    have hgt : ¬ (clauses.length > 1) := by omega
    simp only [hgt, if_false] at hat
    obtain ⟨post0, kl0', lcode0, kb0', body0, hc30, hload0, hbody0⟩ :=
      x_codeClauses_head hooks natRen types Γ' clauses lbl cl _ _ _ h3 hclause
    rw [hc30] at hat
    have hxc : a64Backend.comment "#there is only one clause, so we can just fall through" =
        Code.COMMENT "#there is only one clause, so we can just fall through" := rfl
    rw [hxc] at hat
    have hatN : XAt cs kp ((c0 ++ [Code.COMMENT "#there is only one clause, so we can just fall through",
        Code.LAB lbl, Code.LAB (clauseLabel lbl cl.xtor)]) ++ ((lcode0 ++ body0) ++ post0)) := by
      simpa [List.append_assoc] using hat
    have hk0 := x_msteps_codes (c := c) Hp hatN.left
      (execCodes_noops c _ σ (by
        intro y hy
        simp only [List.mem_append, List.mem_cons, List.not_mem_nil, or_false] at hy
        rcases hy with hy | rfl | rfl | rfl
        · exact Or.inl (hc0c y hy)
        · exact Or.inl ⟨_, rfl⟩
        · exact Or.inr ⟨_, rfl⟩
        · exact Or.inr ⟨_, rfl⟩)) out
    exact ⟨σ, _, _, _, lcode0, _, body0, hk0, X, hload0, hbody0, hatN.right.left⟩
  · -- a jump table
    have hgt : clauses.length > 1 := by omega
    simp only [hle, if_false, run_bind_ok, run_pure_ok] at h1
    obtain ⟨tt, k4, htt, rfl, rfl⟩ := h1
    obtain ⟨p, hp, hlt, rfl, rfl, _⟩ := vt_rel htt
    have hp' : p = Γ'.length := by
      have := posOf_append_fresh Γ' b (fun b' hb' => by rw [hb]; exact hfresh b' hb')
      rw [hb] at this
      rw [this] at hp
      exact (Option.some.inj hp).symm
    subst hp'
    simp only [TempNum.toNat] at hlt
    simp only [hgt, if_true] at hat
    have hBe : a64Backend.loadLabel a64Backend.temp lbl ++
        a64Backend.binop BinOp.sum a64Backend.temp a64Backend.temp (posTemp (2 * Γ'.length + TempNum.snd.toNat)) ++
        a64Backend.jump a64Backend.temp =
        (Code.ADR TEMP lbl :: op .sum (.register TEMP) (.register TEMP) (posTemp (2 * Γ'.length + 1))) ++
          [Code.BR TEMP] := rfl
    rw [hBe] at hat
    generalize hT : codeTable a64Backend clauses lbl = table at hat
    have htab : table[pos]? = some (.B (clauseLabel lbl cl.xtor)) := by
      rw [← hT]; exact x_codeTable_nth lbl clauses pos cl hclause
    have htlen : table.length = clauses.length := by rw [← hT]; exact x_codeTable_length lbl clauses
    have htins : ∀ code ∈ table, code.isMeta = false := by rw [← hT]; exact x_codeTable_instr lbl clauses
    obtain ⟨cs1, rest0, hcs, hpc⟩ := hat
    generalize hsfx : pre ++ Code.LAB (clauseLabel lbl cl.xtor) :: (lcode ++ (body ++ post)) ++ rest0 = sfx
    generalize hBc : op .sum (.register TEMP) (.register TEMP) (posTemp (2 * Γ'.length + 1)) = Bc at hcs
    have hcsT : cs = (cs1 ++ c0 ++ (Code.ADR TEMP lbl :: Bc) ++ [Code.BR TEMP]) ++ (Code.LAB lbl :: table) ++ sfx := by
      rw [hcs, hc3, ← hsfx]; simp [List.append_assoc]
    -- (i) the comments
    have hk0 := x_msteps_codes (c := c) Hp (blk := c0) (k := kp)
      ⟨cs1, (Code.ADR TEMP lbl :: Bc) ++ [Code.BR TEMP] ++ (Code.LAB lbl :: table) ++ sfx,
        by rw [hcsT]; simp [List.append_assoc], hpc⟩
      (execCodes_comments c c0 σ hc0c) out
    -- the table of the laid-out program
    let kt := (cs1 ++ c0 ++ (Code.ADR TEMP lbl :: Bc) ++ [Code.BR TEMP]).length
    have hkt : kt = (cs1 ++ c0 ++ (Code.ADR TEMP lbl :: Bc) ++ [Code.BR TEMP]).length := rfl
    have hiL : cs[kt]? = some (Code.LAB lbl) := by
      rw [hcsT, List.append_assoc]; exact getElem?_mid _ _ _
    have htabcs : ∀ j, j < table.length → ∃ code, cs[kt + 1 + j]? = some code ∧ code.isMeta = false := by
      intro j hj
      refine ⟨table[j], ?_, htins _ (List.getElem_mem hj)⟩
      rw [hcsT, List.append_assoc, List.getElem?_append_right (by omega)]
      rw [show kt + 1 + j - kt = j + 1 by omega]
      simp only [List.cons_append, List.getElem?_cons_succ]
      rw [List.getElem?_append_left hj, List.getElem?_eq_getElem hj]
    have TA := tableAt_of_holdsA HA hnd c (n := table.length) (by omega) hiL htabcs hfitX
    have hposT : pos < table.length := by omega
    have htpc := table_pc Hp hiL htabcs pos (by omega)
    -- (ii) the address computation and the computed jump
    have hkA : kp + c0.length = (cs1 ++ c0).length := by simp [hpc]
    have hgetADR : cs[kp + c0.length]? = some (Code.ADR TEMP lbl) := by
      rw [hkA, hcsT]
      have : (cs1 ++ c0 ++ (Code.ADR TEMP lbl :: Bc) ++ [Code.BR TEMP]) ++ (Code.LAB lbl :: table) ++ sfx =
          (cs1 ++ c0) ++ Code.ADR TEMP lbl :: (Bc ++ [Code.BR TEMP] ++ (Code.LAB lbl :: table) ++ sfx) := by
        simp [List.append_assoc]
      rw [this]
      exact getElem?_mid _ _ _
    obtain ⟨iA, htiA, hitA⟩ := Hp.instr _ _ hgetADR rfl
    have eA : iA = .adr (.x xT) lbl := by
      have : (Code.ADR TEMP lbl).toInstr = some (.adr (.x xT) lbl) := rfl
      rw [this] at htiA; exact (Option.some.inj htiA).symm
    subst eA
    have hsA := step_adr TA xT σ (pcOf hkf cs (kp + c0.length))
    have hmA : MSteps Pm c σ (pcOf hkf cs (kp + c0.length)) out
        (σ.setReg xT (some (labelWord Pm c (pcOf hkf cs kt)))) (pcOf hkf cs (kp + c0.length + 1)) out := by
      rw [pcOf_item hgetADR (by simp [isItem, Code.isMeta])]
      exact .one (.next hitA hsA)
    have hxw : σ.tempVal (posTemp (2 * Γ'.length + 1)) = some (imm (jumpLength pos)) := by
      have := X.words Γ'.length (by simp) _ hword
      simpa [hbchi, tag_word] using this
    have hBcAt : XAt cs (kp + c0.length + 1) (Bc ++ [Code.BR TEMP]) := by
      refine ⟨cs1 ++ c0 ++ [Code.ADR TEMP lbl], (Code.LAB lbl :: table) ++ sfx, ?_, by simp [hpc]; omega⟩
      rw [hcsT]; simp [List.append_assoc]
    have hvar := isVar_posTemp hlt
    -- the block `Bc`, explicitly
    have hBrun : ∃ σ3, MSteps Pm c (σ.setReg xT (some (labelWord Pm c (pcOf hkf cs kt))))
          (pcOf hkf cs (kp + c0.length + 1)) out σ3 (pcOf hkf cs (kp + c0.length + 1 + Bc.length)) out ∧
        σ3.reg xT = some (labelWord Pm c (pcOf hkf cs kt) + imm (jumpLength pos)) ∧ Frame0 σ σ3 ∧ Core c σ3 := by
      have F1 : Frame0 σ (σ.setReg xT (some (labelWord Pm c (pcOf hkf cs kt)))) :=
        frame0_setReg (frame0_refl σ) (Or.inl rfl) _
      have C1 : Core c (σ.setReg xT (some (labelWord Pm c (pcOf hkf cs kt)))) := core_setReg X.core _ _
      cases hpt : posTemp (2 * Γ'.length + 1) with
      | register reg =>
        rw [hpt] at hvar hxw hBc
        cases reg with
        | x r =>
          obtain ⟨nt, hnt, h4, _⟩ := tempVal_var_reg (σ := σ) hvar
          rw [tempVal_reg hnt] at hxw
          have hne : nt ≠ xT := by intro e; rw [e] at h4; exact absurd h4 (by decide)
          have hBcE : Bc = [Code.ADD TEMP TEMP (.x r)] := by rw [← hBc]; rfl
          subst hBcE
          have hx : execCodes c [Code.ADD TEMP TEMP (.x r)]
              (σ.setReg xT (some (labelWord Pm c (pcOf hkf cs kt)))) =
              .ok ((σ.setReg xT (some (labelWord Pm c (pcOf hkf cs kt)))).setReg xT
                (some (labelWord Pm c (pcOf hkf cs kt) + imm (jumpLength pos)))) := by
            simp [execCodes, TEMP, execCode_ADD xreg_TEMP xreg_TEMP hnt, exec_add_x, hne, Ne.symm hne, hxw]
          exact ⟨_, x_msteps_codes Hp hBcAt.left hx out, by simp, frame0_setReg F1 (Or.inl rfl) _,
            core_setReg C1 _ _⟩
        | sp => simp [Temporary.isVar] at hvar
        | xzr => simp [Temporary.isVar] at hvar
      | spill q =>
        rw [hpt] at hvar hxw hBc
        obtain ⟨_, hq⟩ := isVar_spill hvar
        rw [tempVal_spill] at hxw
        have hBcE : Bc = [Code.LDR TEMP2 .sp (stackOffset q), Code.ADD TEMP TEMP TEMP2] := by rw [← hBc]; rfl
        subst hBcE
        have hsp1 : SpOkS c 144 (σ.setReg xT (some (labelWord Pm c (pcOf hkf cs kt)))) := X.spOk H
        have hxne : xT ≠ xT2 := by decide
        have hx : execCodes c [Code.LDR TEMP2 .sp (stackOffset q), Code.ADD TEMP TEMP TEMP2]
            (σ.setReg xT (some (labelWord Pm c (pcOf hkf cs kt)))) =
            .ok (((σ.setReg xT (some (labelWord Pm c (pcOf hkf cs kt)))).setReg xT2
              (some (imm (jumpLength pos)))).setReg xT
              (some (labelWord Pm c (pcOf hkf cs kt) + imm (jumpLength pos)))) := by
          simp [execCodes, TEMP, TEMP2, execCode_LDR_sp xreg_TEMP2, exec_ldr_slot c 144, hsp1, hq,
            execCode_ADD xreg_TEMP xreg_TEMP xreg_TEMP2, exec_add_x, hxne, Ne.symm hxne, hxw]
        exact ⟨_, x_msteps_codes Hp hBcAt.left hx out, by simp,
          frame0_setReg (frame0_setReg F1 (Or.inr rfl) _) (Or.inl rfl) _,
          core_setReg (core_setReg C1 _ _) _ _⟩
    obtain ⟨σ3, hmB, hreg3, F3, C3⟩ := hBrun
    -- `BR TEMP` lands on the table entry
    have hgetBR : cs[kp + c0.length + 1 + Bc.length]? = some (Code.BR TEMP) := hBcAt.right.head
    obtain ⟨iB, htiB, hitB⟩ := Hp.instr _ _ hgetBR rfl
    have eB : iB = .br (.x xT) := by
      have : (Code.BR TEMP).toInstr = some (.br (.x xT)) := rfl
      rw [this] at htiB; exact (Option.some.inj htiB).symm
    subst eB
    have hsB := step_br TA pos hposT xT σ3 (pcOf hkf cs (kp + c0.length + 1 + Bc.length)) hreg3
    rw [← htpc] at hsB
    have hmC : MSteps Pm c σ3 (pcOf hkf cs (kp + c0.length + 1 + Bc.length)) out σ3
        (pcOf hkf cs (kt + 1 + pos)) out := .one (.next hitB hsB)
    -- (iv) the table entry branches to the clause
    have hcsTe : cs[kt + 1 + pos]? = some (.B (clauseLabel lbl cl.xtor)) := by
      rw [hcsT, List.append_assoc, List.getElem?_append_right (by omega)]
      rw [show kt + 1 + pos - kt = pos + 1 by omega]
      simp only [List.cons_append, List.getElem?_cons_succ]
      rw [List.getElem?_append_left hposT]
      exact htab
    have hiC : cs[kt + 1 + table.length + pre.length]? = some (Code.LAB (clauseLabel lbl cl.xtor)) := by
      have e : cs = ((cs1 ++ c0 ++ (Code.ADR TEMP lbl :: Bc) ++ [Code.BR TEMP]) ++ (Code.LAB lbl :: table) ++ pre) ++
          Code.LAB (clauseLabel lbl cl.xtor) :: (lcode ++ (body ++ post) ++ rest0) := by
        rw [hcsT, ← hsfx]; simp [List.append_assoc]
      have hlen : ((cs1 ++ c0 ++ (Code.ADR TEMP lbl :: Bc) ++ [Code.BR TEMP]) ++ (Code.LAB lbl :: table) ++ pre).length =
          kt + 1 + table.length + pre.length := by
        simp [hkt]; omega
      rw [← hlen]
      conv => lhs; rw [e]
      exact getElem?_mid _ _ _
    have hmD := mstep_jump (c := c) Hp hcsTe (label_of_nodup Hp hnd hiC) σ3 out
    -- (v) the label of the clause
    have hmE := msteps_code (c := c) Hp hiC (σ := σ3) (σ' := σ3) rfl out
    refine ⟨σ3, kt + 1 + table.length + pre.length + 1, kl, kl', lcode, kb', body,
      hk0.trans (hmA.trans (hmB.trans (hmC.trans (hmD.trans hmE)))), X3R.keep X C3 F3, hload, hbody, ?_⟩
    refine ⟨(cs1 ++ c0 ++ (Code.ADR TEMP lbl :: Bc) ++ [Code.BR TEMP]) ++ (Code.LAB lbl :: table) ++ pre ++
      [Code.LAB (clauseLabel lbl cl.xtor)], post ++ rest0, ?_, ?_⟩
    · rw [hcsT, ← hsfx]; simp [List.append_assoc]
    · simp [hkt]; omega

include H h8 HA hnd hfitX in
/-- THREE-WAY SIMULATION OF `switch` -/
theorem switch_x3 {P : Program} {hooks : Bool} {prog : AxCut.Prog} {Γ' : Ctx} {b : Binding}
    {ρ' : List Value} {pos : Nat} {fields : List Value} {x : Ident} {ty : Ty} {clauses : Clauses}
    {fv : FV} {cfg : Config} {cl : Clause}
    (R : RelX P hooks prog ⟨Γ' ++ [b], ρ' ++ [.obj pos fields], .switch x ty clauses fv⟩ cfg)
    (hfits : Fits P)
    (hb : b.var.id = x.id) (hfresh : ∀ b' ∈ Γ', b'.var.id ≠ x.id)
    (hclause : nthClause clauses pos = some cl)
    (hkinds : fields.map Sim2.kindOf = Mock.kindsOf cl.ctx)
    (hcap : 2 * (Γ'.length + cl.ctx.length) + 2 < Mock.T_TEMP)
    {hs : HState} {ι : Nat → Nat} {σ : State} {out : List (Bool × Word)} {kp : Nat}
    (X : X3 c (Γ' ++ [b]) cfg hs ι σ out)
    {k k' : Nat} {items : List Code}
    (hrun : (codeStatementR a64Backend hooks natRen prog.types (.switch x ty clauses fv) (Γ' ++ [b])).run k =
      .ok (items, k'))
    (hat : XAt cs kp items)
    (hcapX : 2 * (Γ'.length + cl.ctx.length) ≤ 280) :
    ∃ kk cfg' σ' hs' kp', stepsTo P kk cfg cfg' ∧
      MSteps Pm c σ (pcOf hkf cs kp) out σ' (pcOf hkf cs kp') out ∧ FrLe hs hs' 0 ∧
      cfg'.out = cfg.out ∧ cfg'.next = cfg.next ∧
      RelX P hooks prog ⟨Γ' ++ cl.ctx, ρ' ++ fields, cl.body⟩ cfg' ∧
      X3 c (Γ' ++ cl.ctx) cfg' hs' ι σ' out ∧
      ∃ k1 k1' items', (codeStatementR a64Backend hooks natRen prog.types cl.body (Γ' ++ cl.ctx)).run k1 =
          .ok (items', k1') ∧ XAt cs kp' items' := by
  have Hp := HA.holds
  obtain ⟨k4, cfg4, r, hst4, h4heap, h4next, h4out, h4temps, hloadM, hcode, hr, hB, hword, hbchi⟩ :=
    switch_nav_abs R hfits hb hfresh hclause
  obtain ⟨σ4, kp4, kl, kl', lcode, kb', body, hn4, X4, hload, hbody, hat4⟩ :=
    switch_nav_a64 H HA hnd hfitX X hb hfresh hclause hword hbchi hrun hat
  have hbne : b.chi ≠ .ext := by rw [hbchi]; decide
  obtain ⟨cfg', hstep, hout', hnext', R'⟩ := load_enter (Γ'' := Γ') (s' := cl.body) (cfg4 := cfg4) R rfl hbne hr
    hB hkinds hcap h4heap h4next h4out h4temps hloadM hcode
  have hn1 : Γ'.length < (Γ' ++ [b]).length := by simp
  cases hctx : cl.ctx with
  | nil =>
    -- no field: nothing is loaded, no code
    have hf0 : fields = [] := by
      have := congrArg List.length hkinds
      rw [hctx] at this
      simpa [Mock.kindsOf] using this
    subst hf0
    have hr0 : r = 0 := by cases hB; rfl
    subst hr0
    rw [hctx] at hloadM hload
    have hA := step_load_empty P cfg4 _ hloadM
    rw [hstep] at hA
    injection hA with hA
    have hl0 : lcode = [] := by
      have : (load [] Γ').run kl = .ok ([], kl) := rfl
      rw [this] at hload
      injection hload with hload
      injection hload with e1 _
      exact e1.symm
    subst hl0
    rw [hctx] at hbody R' hcapX
    rw [List.nil_append] at hat4
    refine ⟨k4 + 1, cfg', σ4, hs, kp4, stepsTo_trans P _ _ _ _ _ hst4 (stepsTo_one P _ _ hstep), hn4,
      Scc.Heap.Refine.FrLe.refl hs, hout', hnext', ?_, ?_, kl', kb', body, hbody, hat4⟩
    · exact R'
    · have hlow : ∀ t, t < 2 * (Γ'.length + 1) → cfg'.temps.get t = cfg.temps.get t := by
        intro t ht
        rw [hA]
        simp only
        rw [get_clobberTemp _ (by unfold Mock.T_TEMP; omega), h4temps t ht]
      rw [List.append_nil]
      refine ⟨X4.core, by omega, ?_, ?_, by rw [X4.out, hA]; exact h4out.symm, X4.hrel, ?_⟩
      · intro i hi a ha
        rw [hlow _ (by omega)] at ha
        have := X4.words i (by simp; omega) a ha
        rw [List.getElem_append_left hi] at this
        exact this
      · intro i hi hc r' hr'
        rw [hlow _ (by omega)] at hr'
        exact X4.ptrs i (by simp; omega) (by rw [List.getElem_append_left hi]; exact hc) r' hr'
      · have e1 : cfg'.heap = cfg.heap := by rw [hA]; exact h4heap
        have e2 : cfg'.next = cfg.next := by rw [hA]; exact h4next
        have e3 : roots (Γ' ++ [b]) cfg.temps = roots Γ' cfg'.temps := by
          rw [roots_snoc]
          have : Sim2.rootOf cfg.temps b Γ'.length = [] := by
            unfold Sim2.rootOf; rw [hr]; simp
          rw [this, List.append_nil]
          exact (roots_congr _ _ _ (fun i hi => hlow (2 * i) (by omega))).symm
        rw [e1, e2, ← e3]
        exact X4.href
  | cons b0 Δ =>
    rw [hctx] at hkinds
    cases hB with
    | empty => simp [Mock.kindsOf] at hkinds
    | block v vs _ o hr0 hg hF =>
      have hk : o.fields.map (·.chi) = Mock.kindsOf cl.ctx := by
        rw [RepF.kinds hF, hctx]; exact hkinds
      have hne : o.fields ≠ [] := by
        intro e
        rw [e, hctx] at hk
        simp [Mock.kindsOf] at hk
      have hr4 : cfg4.temps.get (2 * Γ'.length) = some r := by rw [h4temps _ (by omega)]; exact hr
      have hg4 : cfg4.heap.get r.toNat = some o := by rw [h4heap]; exact hg
      have hk4 : o.fields.map (·.chi) = b0.chi :: Mock.kindsOf Δ := by rw [hk, hctx]; rfl
      have hloadM' : P.code[cfg4.pc]? = some (.load (b0.chi :: Mock.kindsOf Δ) Γ'.length) := by
        rw [hloadM, hctx]; rfl
      -- the abstract step, explicitly
      have hexp : ∃ h', loadAbs cfg.heap r.toNat o = .ok h' ∧ cfg' =
          { cfg4 with pc := cfg4.pc + 1, temps := writeFields (clobberTemp cfg4.temps) o.fields Γ'.length, heap := h' } := by
        by_cases hc0 : o.count = 0
        · have hA := step_load_unique P cfg4 _ _ _ r o hloadM' hr4 hr0 hg4 hk4 hc0
          rw [hstep] at hA
          injection hA with hA
          refine ⟨cfg.heap.remove r.toNat, ?_, by rw [hA, h4heap]⟩
          unfold loadAbs
          simp [hc0]
        · cases hsh : (cfg4.heap.set r.toNat { o with count := o.count - 1 }).shareAll o.children with
          | error e =>
            exfalso
            have h1 : (r == 0) = false := by rw [beq_eq_false_iff_ne]; exact hr0
            have h2 : (o.fields.map (·.chi) != b0.chi :: Mock.kindsOf Δ) = false := by rw [hk4]; exact kinds_bne_self _
            have h3 : (o.count == 0) = false := by rw [beq_eq_false_iff_ne]; exact hc0
            simp only [Abs.step, hloadM', getT, hr4, h1, hg4, h2, h3, hsh, Bool.false_eq_true, if_false,
              stuck] at hstep
            cases hstep
          | ok h' =>
            have hA := step_load_shared P cfg4 _ _ _ r o h' hloadM' hr4 hr0 hg4 hk4 hc0 hsh
            rw [hstep] at hA
            injection hA with hA
            refine ⟨h', ?_, hA⟩
            unfold loadAbs
            have : (o.count == 0) = false := by rw [beq_eq_false_iff_ne]; exact hc0
            rw [if_neg (by rw [this]; simp), ← h4heap]
            exact hsh
      obtain ⟨h', hlo, hcfg'⟩ := hexp
      obtain ⟨code, kk', hrunL, _, _, σ5, hs', hx, X5, hfrL⟩ :=
        load_x3 H h8 X4 hbne hr hr0 hg hk hne hcapX h4next h4out h4temps hlo hcfg' kl
      have hcode' : code = lcode := by
        rw [hload] at hrunL
        injection hrunL with hrunL
        injection hrunL with e1 _
        exact e1.symm
      subst hcode'
      have hn5 := x_msteps_fwd Hp hnd hat4.left hx out
      refine ⟨k4 + 1, cfg', σ5, hs', _, stepsTo_trans P _ _ _ _ _ hst4 (stepsTo_one P _ _ hstep),
        hn4.trans hn5, hfrL, hout', hnext', ?_, ?_, kl', kb', body, ?_, ?_⟩
      · rw [← hctx]; exact R'
      · rw [← hctx]; exact X5
      · rw [← hctx]; exact hbody
      · exact hat4.right

end Switch3

end Scc.A64.Ref
