/-
  Scc.A64.RefHeapTr — the translation `trHeap` of the word parts of an abstract heap (RefHeapDefs.lean)
  commutes with every heap operation of the abstract machine (`get`, `remove`, `set`, `share`, `shareAll`,
  `erase`, allocation, the abstract `load`): the operations look at ids, counts, kinds and pointer parts
  only.
-/
import Scc.A64.RefHeapDefs
import Scc.Heap.RefineLoad

set_option linter.unusedVariables false
set_option linter.unusedSimpArgs false

namespace Scc.A64.Ref

open Scc.AxCut Scc.Backend Scc.Backend.Abs Scc.Backend.Sim Scc.A64
open Scc.Heap.Refine (loadAbs)

theorem trO_count (o : Obj) : (trO o).count = o.count := rfl

theorem trO_fields (o : Obj) : (trO o).fields = o.fields.map trF := rfl

theorem trF_chi (f : Abs.Field) : (trF f).chi = f.chi := rfl
theorem trF_ptr (f : Abs.Field) : (trF f).ptr = f.ptr := rfl

theorem trO_children (o : Obj) : (trO o).children = o.children := by
  unfold Obj.children
  rw [trO_fields, List.filterMap_map]
  rfl

theorem trO_with_count (o : Obj) (c : Nat) : trO { o with count := c } = { trO o with count := c } := rfl

theorem trHeap_nil : trHeap [] = [] := rfl

theorem trHeap_cons (id : Nat) (o : Obj) (h : Heap) : trHeap ((id, o) :: h) = (id, trO o) :: trHeap h := rfl

theorem trHeap_get (h : Heap) (id : Nat) : (trHeap h).get id = (h.get id).map trO := by
  induction h with
  | nil => rfl
  | cons e h ih =>
    unfold Heap.get at ih ⊢
    rw [trHeap_cons]
    simp only [List.find?_cons]
    by_cases he : (e.1 == id) = true
    · simp [he]
    · simp only [he]
      exact ih

theorem trHeap_remove (h : Heap) (id : Nat) : (trHeap h).remove id = trHeap (h.remove id) := by
  unfold Heap.remove trHeap
  rw [List.filter_map]
  rfl

theorem trHeap_set (h : Heap) (id : Nat) (o : Obj) : (trHeap h).set id (trO o) = trHeap (h.set id o) := by
  unfold Heap.set
  rw [trHeap_remove]
  rfl

theorem trHeap_share {h h' : Heap} {ref : Word} {k : Nat} (hs : h.share ref k = .ok h') :
    (trHeap h).share ref k = .ok (trHeap h') := by
  unfold Heap.share at hs ⊢
  by_cases h0 : (ref == 0) = true
  · rw [if_pos h0] at hs ⊢
    injection hs with hs; rw [hs]
  · rw [if_neg h0] at hs ⊢
    rw [trHeap_get]
    cases hg : h.get ref.toNat with
    | none => rw [hg] at hs; cases hs
    | some o =>
      rw [hg] at hs
      simp only [Option.map_some]
      injection hs with hs
      rw [← hs, ← trHeap_set]
      rfl

theorem trHeap_shareAll : ∀ (ids : List Nat) {h h' : Heap}, h.shareAll ids = .ok h' →
    (trHeap h).shareAll ids = .ok (trHeap h')
  | [], h, h', hs => by
    simp only [Heap.shareAll] at hs ⊢
    injection hs with hs; rw [hs]
  | id :: ids, h, h', hs => by
    simp only [Heap.shareAll] at hs ⊢
    cases h1 : h.share (BitVec.ofNat 64 id) 1 with
    | error e => rw [h1] at hs; cases hs
    | ok h1' =>
      rw [h1] at hs
      rw [trHeap_share h1]
      exact trHeap_shareAll ids hs

theorem trHeap_totalFields (h : Heap) : (trHeap h).totalFields = h.totalFields := by
  unfold Heap.totalFields trHeap
  rw [List.map_map]
  congr 1
  apply List.map_congr_left
  intro e _
  simp [trO]

theorem trHeap_eraseLoop : ∀ (fuel : Nat) (work : List Nat) {h h' : Heap},
    Heap.eraseLoop fuel work h = .ok h' → Heap.eraseLoop fuel work (trHeap h) = .ok (trHeap h')
  | 0, [], h, h', hs => by
    simp only [Heap.eraseLoop] at hs ⊢
    injection hs with hs; rw [hs]
  | 0, _ :: _, h, h', hs => by simp [Heap.eraseLoop] at hs
  | _ + 1, [], h, h', hs => by
    simp only [Heap.eraseLoop] at hs ⊢
    injection hs with hs; rw [hs]
  | fuel + 1, id :: work, h, h', hs => by
    simp only [Heap.eraseLoop] at hs ⊢
    rw [trHeap_get]
    cases hg : h.get id with
    | none => rw [hg] at hs; cases hs
    | some o =>
      rw [hg] at hs
      simp only [Option.map_some, trO_count, trO_children] at hs ⊢
      by_cases hc : o.count > 0
      · rw [if_pos hc] at hs ⊢
        have := trHeap_eraseLoop fuel work hs
        rw [← trHeap_set] at this
        exact this
      · rw [if_neg hc] at hs ⊢
        have := trHeap_eraseLoop fuel (o.children ++ work) hs
        rw [← trHeap_remove] at this
        exact this

theorem trHeap_erase {h h' : Heap} {ref : Word} (hs : h.erase ref = .ok h') :
    (trHeap h).erase ref = .ok (trHeap h') := by
  unfold Heap.erase at hs ⊢
  by_cases h0 : (ref == 0) = true
  · rw [if_pos h0] at hs ⊢
    injection hs with hs; rw [hs]
  · rw [if_neg h0] at hs ⊢
    rw [trHeap_totalFields]
    exact trHeap_eraseLoop _ _ hs

theorem trHeap_loadAbs {h h' : Heap} {id : Nat} {o : Obj} (hs : loadAbs h id o = .ok h') :
    loadAbs (trHeap h) id (trO o) = .ok (trHeap h') := by
  unfold loadAbs at hs ⊢
  rw [trO_count, trO_children]
  by_cases hc : (o.count == 0) = true
  · rw [if_pos hc] at hs ⊢
    injection hs with hs
    rw [← hs, trHeap_remove]
  · rw [if_neg hc] at hs ⊢
    have := trHeap_shareAll _ hs
    rw [← trHeap_set] at this
    exact this

/-! ## what does not see the translation -/

theorem trHeap_ids (h : Heap) : (trHeap h).map (·.1) = h.map (·.1) := by
  unfold trHeap; rw [List.map_map]; rfl

theorem trHeap_mem {h : Heap} {e : Nat × Obj} (he : e ∈ trHeap h) : ∃ e0 ∈ h, e = (e0.1, trO e0.2) := by
  unfold trHeap at he
  obtain ⟨e0, h0, rfl⟩ := List.mem_map.1 he
  exact ⟨e0, h0, rfl⟩

theorem mem_trHeap {h : Heap} {e : Nat × Obj} (he : e ∈ h) : (e.1, trO e.2) ∈ trHeap h :=
  List.mem_map.2 ⟨e, he, rfl⟩

theorem trHeap_refCount (h : Heap) (rs : List Nat) (id : Nat) :
    refCount (trHeap h) rs id = refCount h rs id := by
  unfold refCount trHeap
  rw [List.map_map]
  congr 2
  apply List.map_congr_left
  intro e _
  show List.count id (trO e.2).children = _
  rw [trO_children]

theorem heapOK_trHeap {h : Heap} {rs : List Nat} {next : Nat} (H : HeapOK h rs next) :
    HeapOK (trHeap h) rs next := by
  refine ⟨H.pos, by rw [trHeap_ids]; exact H.nodup, ?_, ?_, ?_⟩
  · intro e he
    obtain ⟨e0, h0, rfl⟩ := trHeap_mem he
    exact H.ids e0 h0
  · intro e he
    obtain ⟨e0, h0, rfl⟩ := trHeap_mem he
    rw [trHeap_refCount]
    exact H.counts e0 h0
  · intro id hid
    rw [trHeap_refCount] at hid
    rw [trHeap_get]
    have := H.live id hid
    cases hg : h.get id with
    | none => rw [hg] at this; cases this
    | some o => rfl

end Scc.A64.Ref
