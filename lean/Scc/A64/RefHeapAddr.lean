/-
  Scc.A64.RefHeapAddr — code OFFSETS and indirect-jump ENTRIES of the machine's loader (`layout`,
  Machine.lean) on the lines of a routine (`CC.Lines`): needed for the COMPUTED jump of `switch`
  (`ADR TEMP, table; ADD TEMP, TEMP, tag; BR TEMP` lands on the `tag/4`-th `B` of the table: every
  instruction has size 4).
  * `HoldsA hk P cs`: `CC.Holds` together with the offset of every instruction item (4 × the number of
    instructions before it) and the entry of every instruction that directly follows a label or another
    instruction (its own item index).
  * `holdsA_layout`: `layout ls` holds the routine in this sense (`fold_addr`: the fold of `layout`).
  * `tableAt_of_holdsA`: the layout fact `TableAt` (JumpLemmas.lean; `C14_table_layout_statement` of
    Props/C14A64.lean for the tables of compiled routines) for a label followed by `n` instructions.
-/
import Scc.A64.RefHeapBridge
import Scc.A64.JumpLemmas
import Scc.A64.CCProofsLayout

set_option linter.unusedVariables false
set_option linter.unusedSimpArgs false

namespace Scc.A64.Ref

open Scc.AxCut Scc.Backend Scc.A64 Scc.A64.CC

/-- number of instructions of a code list -/
def ninstr (l : List Code) : Nat := (l.filter (fun c => !c.isMeta)).length

theorem ninstr_nil : ninstr [] = 0 := rfl

theorem ninstr_cons (c : Code) (l : List Code) : ninstr (c :: l) = (if c.isMeta then 0 else 1) + ninstr l := by
  unfold ninstr
  rw [List.filter_cons]
  cases c.isMeta <;> simp
  omega

theorem ninstr_take_succ {l : List Code} {k : Nat} {c : Code} (h : l[k]? = some c) :
    ninstr (l.take (k + 1)) = ninstr (l.take k) + (if c.isMeta then 0 else 1) := by
  obtain ⟨hlt, rfl⟩ := List.getElem?_eq_some_iff.1 h
  unfold ninstr
  rw [List.take_succ_eq_append_getElem hlt, List.filter_append, List.length_append]
  cases hm : l[k].isMeta <;> simp [hm]

theorem ninstr_take_le (l : List Code) (k : Nat) : ninstr (l.take k) ≤ ninstr l := by
  unfold ninstr
  have : List.Sublist (l.take k) l := List.take_sublist k l
  exact (this.filter _).length_le

/-! ## the fold of `layout`: offsets and entries -/

section Fold
variable {hkv : String → Option (List (String × Kind))}

/-- what a line does to the accumulator besides items and labels (CCProofsLayout.lean) -/
theorem lineOf_cases {c : Code} {pl : PLine} (hl : lineOf hkv c = some pl) :
    (c.isMeta = false ∧ ∃ i, pl = .instr i) ∨
    (c.isMeta = true ∧ ((∃ l, c = .LAB l ∧ pl = .label l) ∨ (pl = .directive) ∨ (pl = .comment) ∨
      (∃ vs, pl = .hook vs ∧ hkOf hkv c = true))) := by
  cases c <;> simp only [lineOf, Option.some.injEq, Option.map_eq_some_iff] at hl
  case LAB l => subst hl; exact Or.inr ⟨rfl, Or.inl ⟨l, rfl, rfl⟩⟩
  case TEXT => subst hl; exact Or.inr ⟨rfl, Or.inr (Or.inl rfl)⟩
  case GLOBAL l => subst hl; exact Or.inr ⟨rfl, Or.inr (Or.inl rfl)⟩
  case COMMENT m =>
    subst hl
    cases hm : hkv m with
    | none => exact Or.inr ⟨rfl, Or.inr (Or.inr (Or.inl (by simp [hm])))⟩
    | some vs => exact Or.inr ⟨rfl, Or.inr (Or.inr (Or.inr ⟨vs, by simp [hm], by simp [hkOf, hm]⟩))⟩
  all_goals
    obtain ⟨i, _, rfl⟩ := hl
    exact Or.inl ⟨rfl, i, rfl⟩

/-- the accumulator is well-formed: one offset per item, every entry key below the current offset -/
structure AccOK (acc : LayoutAcc) : Prop where
  size : acc.offs.size = acc.items.size

/-- THE FOLD OF `layout` over the lines of a code list: offsets and entries -/
theorem fold_addr {ls : List (Nat × PLine)} {R : List Code} (h : Lines hkv ls R) :
    ∀ acc : LayoutAcc, acc.offs.size = acc.items.size →
      let acc' := ls.foldl layStep acc
      acc'.offs.size = acc'.items.size ∧
      acc'.off = acc.off + 4 * ninstr R ∧
      (∀ o, o < acc.off → acc'.entries[o]? = acc.entries[o]?) ∧
      (∀ j, j < acc.items.size → acc'.offs[j]? = acc.offs[j]?) ∧
      -- offsets of the items of `R`
      (∀ k code, R[k]? = some code → isItem (hkOf hkv) code = true →
        acc'.offs[acc.items.size + icnt (hkOf hkv) (R.take k)]? = some (acc.off + 4 * ninstr (R.take k))) ∧
      -- the first code, if it is an instruction entered at its own index
      (∀ code R0, R = code :: R0 → code.isMeta = false → acc.entry.getD acc.items.size = acc.items.size →
        acc'.entries[acc.off]? = some acc.items.size) ∧
      -- an instruction that directly follows a label or an instruction
      (∀ k c1 c2, R[k]? = some c1 → R[k + 1]? = some c2 → c2.isMeta = false →
        ((∃ l, c1 = .LAB l) ∨ c1.isMeta = false) →
        acc'.entries[acc.off + 4 * ninstr (R.take (k + 1))]? =
          some (acc.items.size + icnt (hkOf hkv) (R.take (k + 1)))) := by
  induction h with
  | nil =>
    intro acc hsz
    refine ⟨hsz, by simp [ninstr], fun _ _ => rfl, fun _ _ => rfl, ?_, ?_, ?_⟩
    · intro k code hk; simp at hk
    · intro code R0 e; cases e
    · intro k c1 c2 hk; simp at hk
  | blank ln _ ih =>
    intro acc hsz
    rw [List.foldl_cons]
    exact ih acc hsz
  | @code ln c pl ls R hl hlines ih =>
    intro acc hsz
    rw [List.foldl_cons]
    -- the accumulator after the line of `c`
    have hall := lines_hasLine hlines
    rcases lineOf_cases hl with ⟨hm, i, rfl⟩ | ⟨hm, hcase⟩
    · -- an instruction
      have hitem : isItem (hkOf hkv) c = true := by simp [isItem, hm]
      have hsz1 : (layStep acc (ln, .instr i)).offs.size = (layStep acc (ln, .instr i)).items.size := by
        simp [layStep, hsz]
      have hoff1 : (layStep acc (ln, .instr i)).off = acc.off + 4 := rfl
      have hisz1 : (layStep acc (ln, .instr i)).items.size = acc.items.size + 1 := by simp [layStep]
      have hent1 : (layStep acc (ln, .instr i)).entry = none := rfl
      obtain ⟨i1, i2, i3, i4, i5, i6, i7⟩ := ih (layStep acc (ln, .instr i)) hsz1
      have hni : ∀ l : List Code, ninstr (c :: l) = 1 + ninstr l := by
        intro l; rw [ninstr_cons, hm]; rfl
      have hic : ∀ l : List Code, icnt (hkOf hkv) (c :: l) = 1 + icnt (hkOf hkv) l := by
        intro l; unfold icnt; rw [List.filter_cons, hitem]; simp; omega
      have hkey : (layStep acc (ln, .instr i)).entries[acc.off]? = some (acc.entry.getD acc.items.size) := by
        simp [layStep]
      have hoffs0 : (layStep acc (ln, .instr i)).offs[acc.items.size]? = some acc.off := by
        simp [layStep, ← hsz]
      refine ⟨i1, by rw [i2, hoff1, hni]; omega, ?_, ?_, ?_, ?_, ?_⟩
      · intro o ho
        rw [i3 o (by rw [hoff1]; omega)]
        simp only [layStep]
        rw [Std.HashMap.getElem?_insert]
        have : (acc.off == o) = false := by simp; omega
        simp [this]
      · intro j hj
        rw [i4 j (by rw [hisz1]; omega)]
        simp only [layStep]
        rw [Array.getElem?_push]
        have : ¬ j = acc.offs.size := by omega
        simp [this]
      · intro k code hk hi
        cases k with
        | zero =>
          simp only [List.take_zero, icnt, List.filter_nil, List.length_nil, Nat.add_zero, ninstr, Nat.mul_zero]
          rw [i4 _ (by rw [hisz1]; omega)]
          exact hoffs0
        | succ k =>
          have := i5 k code (by simpa using hk) hi
          rw [List.take_succ_cons, hni, hic]
          rw [hisz1, hoff1] at this
          rw [show acc.items.size + (1 + icnt (hkOf hkv) (List.take k R)) =
              acc.items.size + 1 + icnt (hkOf hkv) (List.take k R) by omega,
            show acc.off + 4 * (1 + ninstr (List.take k R)) = acc.off + 4 + 4 * ninstr (List.take k R) by omega]
          exact this
      · intro code R0 e hcm hentry
        rw [i3 _ (by rw [hoff1]; omega), hkey, hentry]
      · intro k c1 c2 hk1 hk2 hc2 hpre
        rw [List.take_succ_cons, hni, hic]
        cases k with
        | zero =>
          -- `c2` is the first code of the rest, `c1 = c` an instruction: entry = own index
          simp only [List.getElem?_cons_zero, Option.some.injEq] at hk1
          subst hk1
          obtain ⟨R0, hR⟩ : ∃ R0, R = c2 :: R0 := by
            cases R with
            | nil => simp at hk2
            | cons x R0 => simp at hk2; exact ⟨R0, by rw [hk2]⟩
          have := i6 c2 R0 hR hc2 (by rw [hent1]; rfl)
          simp only [List.take_zero, ninstr, List.filter_nil, List.length_nil, icnt, Nat.mul_zero, Nat.add_zero]
          rw [hoff1, hisz1] at this
          rw [show acc.off + 4 * 1 = acc.off + 4 by omega]
          exact this
        | succ k =>
          have := i7 k c1 c2 (by simpa using hk1) (by simpa using hk2) hc2 hpre
          rw [hoff1, hisz1] at this
          rw [show acc.items.size + (1 + icnt (hkOf hkv) (List.take (k + 1) R)) =
              acc.items.size + 1 + icnt (hkOf hkv) (List.take (k + 1) R) by omega,
            show acc.off + 4 * (1 + ninstr (List.take (k + 1) R)) =
              acc.off + 4 + 4 * ninstr (List.take (k + 1) R) by omega]
          exact this
    · -- a label, a directive, a plain comment or a hook: no instruction
      have hni : ∀ l : List Code, ninstr (c :: l) = ninstr l := by
        intro l; rw [ninstr_cons, hm]; simp
      -- common facts about the accumulator after a non-instruction line
      have key : ∃ d : Nat, (layStep acc (ln, pl)).offs.size = (layStep acc (ln, pl)).items.size ∧
          (layStep acc (ln, pl)).off = acc.off ∧ (layStep acc (ln, pl)).entries = acc.entries ∧
          (layStep acc (ln, pl)).items.size = acc.items.size + d ∧
          (∀ l : List Code, icnt (hkOf hkv) (c :: l) = d + icnt (hkOf hkv) l) ∧
          (∀ j, j < acc.items.size → (layStep acc (ln, pl)).offs[j]? = acc.offs[j]?) ∧
          (d = 1 → (layStep acc (ln, pl)).offs[acc.items.size]? = some acc.off) ∧
          (isItem (hkOf hkv) c = true → d = 1) ∧
          ((∃ l, c = .LAB l) → (layStep acc (ln, pl)).entry = some acc.items.size ∧ d = 0) := by
        rcases hcase with ⟨l, rfl, rfl⟩ | rfl | rfl | ⟨vs, rfl, hh⟩
        · refine ⟨0, hsz, rfl, rfl, rfl, ?_, fun _ _ => rfl, by omega, ?_, fun _ => ⟨rfl, rfl⟩⟩
          · intro l'; unfold icnt; rw [List.filter_cons]; simp [isItem, Code.isMeta, hkOf]
          · intro hi; simp [isItem, Code.isMeta, hkOf] at hi
        · have hnl : ¬ ∃ l, c = .LAB l := by
            rintro ⟨l, rfl⟩; simp [lineOf] at hl
          have hnh : hkOf hkv c = false := by
            cases c <;> simp only [lineOf, Option.some.injEq, Option.map_eq_some_iff] at hl <;>
              first | rfl | (split at hl <;> simp_all [hkOf]) | (obtain ⟨i, _, h⟩ := hl; cases h)
          refine ⟨0, hsz, rfl, rfl, rfl, ?_, fun _ _ => rfl, by omega, ?_, fun h => absurd h hnl⟩
          · intro l'; unfold icnt; rw [List.filter_cons]; simp [isItem, hm, hnh]
          · intro hi; simp [isItem, hm, hnh] at hi
        · have hnl : ¬ ∃ l, c = .LAB l := by
            rintro ⟨l, rfl⟩; simp [lineOf] at hl
          have hnh : hkOf hkv c = false := by
            cases c <;> simp only [lineOf, Option.some.injEq, Option.map_eq_some_iff] at hl <;>
              first | rfl | (split at hl <;> simp_all [hkOf]) | (obtain ⟨i, _, h⟩ := hl; cases h)
          refine ⟨0, hsz, rfl, rfl, rfl, ?_, fun _ _ => rfl, by omega, ?_, fun h => absurd h hnl⟩
          · intro l'; unfold icnt; rw [List.filter_cons]; simp [isItem, hm, hnh]
          · intro hi; simp [isItem, hm, hnh] at hi
        · have hnl : ¬ ∃ l, c = .LAB l := by
            rintro ⟨l, rfl⟩; simp [hkOf] at hh
          refine ⟨1, by simp [layStep, hsz], rfl, rfl, by simp [layStep], ?_, ?_, ?_, fun _ => rfl,
            fun h => absurd h hnl⟩
          · intro l'; unfold icnt; rw [List.filter_cons]; simp [isItem, hh]; omega
          · intro j hj
            simp only [layStep]
            rw [Array.getElem?_push]
            have : ¬ j = acc.offs.size := by omega
            simp [this]
          · intro _
            simp [layStep, ← hsz]
      obtain ⟨d, hsz1, hoff1, hent1, hisz1, hic, hoffs1, hoffsd, hitemd, hlab1⟩ := key
      obtain ⟨i1, i2, i3, i4, i5, i6, i7⟩ := ih (layStep acc (ln, pl)) hsz1
      refine ⟨i1, by rw [i2, hoff1, hni], ?_, ?_, ?_, ?_, ?_⟩
      · intro o ho
        rw [i3 o (by rw [hoff1]; exact ho), hent1]
      · intro j hj
        rw [i4 j (by rw [hisz1]; omega)]
        exact hoffs1 j hj
      · intro k code hk hi
        cases k with
        | zero =>
          simp only [List.getElem?_cons_zero, Option.some.injEq] at hk
          subst hk
          have hd := hitemd hi
          simp only [List.take_zero, icnt, List.filter_nil, List.length_nil, Nat.add_zero, ninstr, Nat.mul_zero]
          rw [i4 _ (by rw [hisz1]; omega)]
          exact hoffsd hd
        | succ k =>
          have := i5 k code (by simpa using hk) hi
          rw [List.take_succ_cons, hni, hic]
          rw [hisz1, hoff1] at this
          rw [show acc.items.size + (d + icnt (hkOf hkv) (List.take k R)) =
              acc.items.size + d + icnt (hkOf hkv) (List.take k R) by omega]
          exact this
      · intro code R0 e hcm
        injection e with e1 _
        rw [← e1, hm] at hcm
        cases hcm
      · intro k c1 c2 hk1 hk2 hc2 hpre
        rw [List.take_succ_cons, hni, hic]
        cases k with
        | zero =>
          simp only [List.getElem?_cons_zero, Option.some.injEq] at hk1
          subst hk1
          -- `c1 = c` is not an instruction, so it is a label
          have hlabc : ∃ l, c = .LAB l := by
            rcases hpre with h | h
            · exact h
            · rw [hm] at h; cases h
          obtain ⟨hentry, hd0⟩ := hlab1 hlabc
          obtain ⟨R0, hR⟩ : ∃ R0, R = c2 :: R0 := by
            cases R with
            | nil => simp at hk2
            | cons x R0 => simp at hk2; exact ⟨R0, by rw [hk2]⟩
          have := i6 c2 R0 hR hc2 (by rw [hentry, hisz1, hd0]; rfl)
          simp only [List.take_zero, ninstr, List.filter_nil, List.length_nil, icnt, Nat.mul_zero, Nat.add_zero]
          rw [hoff1, hisz1, hd0] at this
          rw [hd0]
          exact this
        | succ k =>
          have := i7 k c1 c2 (by simpa using hk1) (by simpa using hk2) hc2 hpre
          rw [hoff1, hisz1] at this
          rw [show acc.items.size + (d + icnt (hkOf hkv) (List.take (k + 1) R)) =
              acc.items.size + d + icnt (hkOf hkv) (List.take (k + 1) R) by omega]
          exact this

end Fold

/-! ## holding a routine with addresses -/

/-- `P` holds the routine `cs` (CCProofsRun.lean) with its code offsets and indirect-jump entries -/
structure HoldsA (hk : Code → Bool) (P : Prog) (cs : List Code) : Prop where
  holds : Holds hk P cs
  /-- the offset of an instruction: 4 × the number of instructions before it -/
  offs : ∀ k code, cs[k]? = some code → code.isMeta = false →
    P.offs[pcOf hk cs k]? = some (4 * ninstr (cs.take k))
  /-- an instruction that directly follows a label or an instruction is entered at its own index -/
  entries : ∀ k c1 c2, cs[k]? = some c1 → cs[k + 1]? = some c2 → c2.isMeta = false →
    ((∃ l, c1 = .LAB l) ∨ c1.isMeta = false) →
    P.entries[4 * ninstr (cs.take (k + 1))]? = some (pcOf hk cs (k + 1))

theorem layout_offs' (ls : List (Nat × PLine)) : (layout ls).offs = (ls.foldl layStep {}).offs := rfl
theorem layout_entries' (ls : List (Nat × PLine)) : (layout ls).entries = (ls.foldl layStep {}).entries := rfl

/-- THE LOADER with addresses -/
theorem holdsA_layout {hkv : String → Option (List (String × Kind))} {ls : List (Nat × PLine)}
    {cs : List Code} (h : Lines hkv ls cs) : HoldsA (hkOf hkv) (layout ls) cs := by
  obtain ⟨_, _, _, _, i5, _, i7⟩ := fold_addr h {} rfl
  refine ⟨holds_layout h, ?_, ?_⟩
  · intro k code hk hm
    have := i5 k code hk (by simp [isItem, hm])
    rw [layout_offs']
    simpa [pcOf] using this
  · intro k c1 c2 h1 h2 hc2 hpre
    have := i7 k c1 c2 h1 h2 hc2 hpre
    rw [layout_entries']
    simpa [pcOf] using this

/-- item indices along a table: a label followed by `n` instructions -/
theorem table_pc {hk : Code → Bool} {P : Prog} {cs : List Code} (Hp : Holds hk P cs) {kt n : Nat} {lbl : String}
    (hlab : cs[kt]? = some (.LAB lbl))
    (htab : ∀ j, j < n → ∃ code, cs[kt + 1 + j]? = some code ∧ code.isMeta = false) :
    ∀ j, j ≤ n → pcOf hk cs (kt + 1 + j) = pcOf hk cs kt + j := by
  have hlabitem : isItem hk (Code.LAB lbl) = false := by
    cases hh : hk (Code.LAB lbl) with
    | false => simp [isItem, Code.isMeta, hh]
    | true => obtain ⟨m, e⟩ := Hp.hkComment _ hh; cases e
  have hpc1 : pcOf hk cs (kt + 1) = pcOf hk cs kt := pcOf_noitem hlab hlabitem
  intro j
  induction j with
  | zero => intro _; rw [Nat.add_zero, hpc1]; rfl
  | succ j ih =>
    intro hj
    obtain ⟨code, hc, hm⟩ := htab j (by omega)
    rw [← Nat.add_assoc, pcOf_item hc (by simp [isItem, hm]), ih (by omega)]; omega

/-- a label followed by `n` instructions is a jump table of the laid-out program -/
theorem tableAt_of_holdsA {hk : Code → Bool} {P : Prog} {cs : List Code} (HA : HoldsA hk P cs)
    (hnd : (labs cs).Nodup) (c : MemCfg) {kt n : Nat} {lbl : String} (hn : 0 < n)
    (hlab : cs[kt]? = some (.LAB lbl))
    (htab : ∀ j, j < n → ∃ code, cs[kt + 1 + j]? = some code ∧ code.isMeta = false)
    (hfit : c.codeBase + 4 * ninstr cs < 2 ^ 64) :
    TableAt P c lbl (pcOf hk cs kt) n := by
  have Hp := HA.holds
  have hkc : ∀ code, hk code = true → code.isMeta = true := by
    intro code h; obtain ⟨m, rfl⟩ := Hp.hkComment code h; rfl
  -- item indices and instruction counts along the table
  have hlabitem : isItem hk (Code.LAB lbl) = false := by
    cases hh : hk (Code.LAB lbl) with
    | false => simp [isItem, Code.isMeta, hh]
    | true => obtain ⟨m, e⟩ := Hp.hkComment _ hh; cases e
  have hpc1 : pcOf hk cs (kt + 1) = pcOf hk cs kt := pcOf_noitem hlab hlabitem
  have hni1 : ninstr (cs.take (kt + 1)) = ninstr (cs.take kt) := by
    rw [ninstr_take_succ hlab]; simp [Code.isMeta]
  have hidx : ∀ j, j ≤ n → pcOf hk cs (kt + 1 + j) = pcOf hk cs kt + j ∧
      ninstr (cs.take (kt + 1 + j)) = ninstr (cs.take kt) + j := by
    intro j
    induction j with
    | zero => intro _; exact ⟨by rw [Nat.add_zero, hpc1]; rfl, by rw [Nat.add_zero, hni1]; rfl⟩
    | succ j ih =>
      intro hj
      obtain ⟨code, hc, hm⟩ := htab j (by omega)
      obtain ⟨ih1, ih2⟩ := ih (by omega)
      constructor
      · rw [← Nat.add_assoc, pcOf_item hc (by simp [isItem, hm]), ih1]; omega
      · rw [← Nat.add_assoc, ninstr_take_succ hc, ih2, hm]; simp; omega
  obtain ⟨code0, hc0, hm0⟩ := htab 0 hn
  have hoffs0 := HA.offs (kt + 1) code0 (by simpa using hc0) hm0
  rw [hpc1, hni1] at hoffs0
  have hgetD : P.offs.getD (pcOf hk cs kt) 0 = 4 * ninstr (cs.take kt) := by
    rw [Array.getD_eq_getD_getElem?, hoffs0]; rfl
  refine ⟨label_of_nodup Hp hnd hlab, ?_, ?_, ?_⟩
  · obtain ⟨i, _, hit⟩ := Hp.instr (kt + 1) code0 (by simpa using hc0) hm0
    rw [show icnt hk (cs.take (kt + 1)) = pcOf hk cs (kt + 1) from rfl, hpc1] at hit
    exact (Array.getElem?_eq_some_iff.1 hit).1
  · intro k hk'
    rw [hgetD]
    obtain ⟨code, hc, hm⟩ := htab k hk'
    obtain ⟨e1, e2⟩ := hidx k (by omega)
    cases k with
    | zero =>
      have := HA.entries kt _ code hlab (by simpa using hc) hm (Or.inl ⟨lbl, rfl⟩)
      rw [hni1, hpc1] at this
      simpa using this
    | succ k =>
      obtain ⟨code', hc', hm'⟩ := htab k (by omega)
      have := HA.entries (kt + 1 + k) code' code hc' (by rw [show kt + 1 + k + 1 = kt + 1 + (k + 1) by omega]; exact hc)
        hm (Or.inr hm')
      rw [show kt + 1 + k + 1 = kt + 1 + (k + 1) by omega, e1, e2] at this
      rw [← this]
      congr 1; omega
  · rw [hgetD]
    have hle := ninstr_take_le cs (kt + 1 + n)
    rw [(hidx n (Nat.le_refl _)).2] at hle
    omega

end Scc.A64.Ref
