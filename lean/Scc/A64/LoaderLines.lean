/-
  Scc.A64.LoaderLines — bridge from the loader round trip (LoaderText.lean) to the relation
  `Scc.A64.CC.Lines hkv ls routine` of CCProofsLayout.lean ("the parsed lines are the routine,
  instruction by instruction, up to blank lines"), which the C13 run theorems (`cc_safe_run`,
  `holds_layout`) take as their hypothesis about the text:

  * `hookVarsOf m`: the hook a comment text is read as (`none`: a plain comment) — the parameter `hkv`;
  * `lines_progPLines`: `Lines hookVarsOf (numberFrom n (progPLines cs)) cs` for every text-safe routine;
  * `parseText_lines`: `∃ ls, parseText (printProg cs) = .ok ls ∧ Lines hookVarsOf ls cs`.
  Proof file: core imports only.
-/
import Scc.A64.LoaderText
import Scc.A64.CCProofsLayout

namespace Scc.A64.Loader

open Scc.A64 Scc.Str Scc.A64.CC

/-- the context a comment text is read as a hook of (`none`: not a hook) -/
def hookVarsOf (m : String) : Option (List (String × Kind)) :=
  match commentPLine? m with
  | some (.hook vs) => some vs
  | _ => none

theorem lineOf_codePLines (c : Code) (hreg : regsOK c = true) :
    (∃ l, c = .LAB l ∧ codePLines c = [.blank, .label l] ∧ lineOf hookVarsOf c = some (.label l)) ∨
    (∃ pl, codePLines c = [pl] ∧ lineOf hookVarsOf c = some pl) := by
  cases hi : c.toInstr with
  | some i =>
    right
    refine ⟨.instr i, codePLines_instr hi, ?_⟩
    cases c <;> first | (simp [Code.toInstr] at hi; done) | (simp only [lineOf, hi]; rfl)
  | none =>
    cases c with
    | LAB l => exact Or.inl ⟨l, rfl, rfl, rfl⟩
    | TEXT => exact Or.inr ⟨.directive, rfl, rfl⟩
    | GLOBAL l => exact Or.inr ⟨.directive, rfl, rfl⟩
    | COMMENT m =>
      right
      refine ⟨(commentPLine? m).getD .comment, rfl, ?_⟩
      simp only [lineOf, hookVarsOf]
      rcases commentPLine?_cases m with h | h | ⟨vs, h⟩ <;> simp [h]
    | _ => simp [regsOK, hi] at hreg

theorem lines_flatMap (cs : List Code) (h : ∀ c ∈ cs, regsOK c = true) (n : Nat) :
    Lines hookVarsOf (numberFrom n (cs.flatMap codePLines)) cs := by
  induction cs generalizing n with
  | nil => exact .nil
  | cons c cs ih =>
    have ih' := ih (fun x hx => h x (by simp [hx]))
    rw [List.flatMap_cons]
    rcases lineOf_codePLines c (h c (by simp)) with ⟨l, rfl, h1, h2⟩ | ⟨pl, h1, h2⟩
    · rw [h1]
      exact .blank n (.code (n + 1) h2 (ih' (n + 1 + 1)))
    · rw [h1]
      exact .code n h2 (ih' (n + 1))

/-- the lines the loader reads the text of a routine as ARE the routine in the sense of `Lines` -/
theorem lines_progPLines (cs : List Code) (h : ∀ c ∈ cs, regsOK c = true) (n : Nat) :
    Lines hookVarsOf (numberFrom n (progPLines cs)) cs := by
  unfold progPLines
  by_cases hne : cs = []
  · subst hne; exact .blank n .nil
  · simp only [hne, if_false]; exact lines_flatMap cs h n

/-- the hypothesis of the text-level run theorems (`CC.cc_safe_run`): the printed text of a text-safe
    routine parses, to lines that are the routine -/
theorem parseText_lines (cs : List Code) (h : ProgOK cs) :
    ∃ ls, parseText (printProg cs) = .ok ls ∧ Lines hookVarsOf ls cs :=
  ⟨_, parseText_printProg cs h, lines_progPLines cs (fun c hc => (h c hc).1) 1⟩

end Scc.A64.Loader
