/-
  Scc.A64.RefClosHStore — the abstract machine's `store` against the AArch64 code of `Memory::store`
  (rung 4 of Theorem B, allocation): from related states (`X3`), whenever the abstract machine stores the
  last `k` positions of the context into a fresh object, the emitted code runs to its end and the states
  are related again (roots: the remaining variables and the new object).  Composition of
  `store_contract` (machine ⟷ block-level heap, Scc/A64/MemProofsStoreFields.lean) and `href_store`
  (block-level heap ⟷ abstract heap, Scc/Heap/RefineStoreObj.lean).
  NOTE (fork): this file is the closure-aware version of Scc/A64/RefHeapStore.lean (same proofs, the
  three-way relation additionally carries the per-instance code-pointer map `κ`), in the namespace
  `Scc.A64.Ref.K`.  The original file is kept unchanged because Props/C07A64Heap.lean is built on its
  definitions.
-/
import Scc.A64.RefClosHX3
import Scc.Backend.ProofsHeap2
import Scc.Heap.RefineFrontier

set_option linter.unusedVariables false
set_option linter.unusedSimpArgs false

namespace Scc.A64.Ref.K

open Scc.AxCut Scc.Backend Scc.Backend.Abs Scc.Backend.Sim Scc.A64 Scc.A64.CC
open Scc.Heap (HState InvS InvW)
open Scc.Heap.Refine (HRef imgW fieldImg kindB href_store FrLe Room frLe_store)

/-! ## the fields the machine holds -/

theorem kindB_trF (κ : Nat → Nat → Word) (id j : Nat) (f : Abs.Field) : kindB (trF κ id j f) = kindB f := rfl

theorem chi_bne_iff (c : Chi) : (c != Chi.ext) = !(c == Chi.ext) := rfl

/-- fields whose word parts are replaced by `T j` (field number `j`) -/
def setVals (T : Nat → Word) : Nat → List Abs.Field → List Abs.Field
  | _, [] => []
  | j, f :: fs => { f with val := T j } :: setVals T (j + 1) fs

/-- the variables `Δ` at positions `k, k+1, …` hold, on the machine, the images of the fields that the
abstract `store` reads, with the word parts `T j` the machine holds -/
theorem envFields_of_read {σm : State} {ι : Nat → Nat} {σ : Temps} (T : Nat → Word) :
    ∀ (Δ : Ctx) (k j0 : Nat) (fields : List Abs.Field),
    readFields σ (Mock.kindsOf Δ) k = some fields →
    (∀ j (hj : j < Δ.length), σm.tempVal (posTemp (2 * (k + j) + 1)) = some (T (j0 + j))) →
    (∀ j (hj : j < Δ.length), Δ[j].chi ≠ .ext → ∀ r, σ.get (2 * (k + j)) = some r →
      σm.tempVal (posTemp (2 * (k + j))) = some (imgWord ι r) ∧ (r ≠ 0 → ι r.toNat < 2 ^ 64)) →
    EnvFields (mview σm) k Δ ((setVals T j0 fields).map (fieldImg ι))
  | [], k, j0, fields, hf, _, _ => by
    simp only [Mock.kindsOf, List.map_nil, readFields, Option.some.injEq] at hf
    subst hf
    trivial
  | b :: Δ, k, j0, fields, hf, hw, hp => by
    simp only [Mock.kindsOf, List.map_cons, readFields] at hf
    cases hg : σ.get (2 * k + 1) with
    | none => simp [hg] at hf
    | some w =>
      cases hr : readFields σ (Δ.map (·.chi)) (k + 1) with
      | none => simp [hg, hr] at hf
      | some rest =>
        have ih := envFields_of_read (σm := σm) (ι := ι) T Δ (k + 1) (j0 + 1) rest hr
          (fun j hj => by
            have := hw (j + 1) (by simpa using hj)
            rw [show k + (j + 1) = k + 1 + j by omega, show j0 + (j + 1) = j0 + 1 + j by omega] at this
            exact this)
          (fun j hj hc r hr' => by
            have := hp (j + 1) (by simpa using hj) (by simpa using hc) r
              (by rw [show k + (j + 1) = k + 1 + j by omega]; exact hr')
            rw [show k + (j + 1) = k + 1 + j by omega] at this
            exact this)
        have hw0 := hw 0 (by simp)
        simp only [Nat.add_zero] at hw0
        simp only [hg, hr] at hf
        by_cases hext : (b.chi == .ext) = true
        · rw [if_pos hext] at hf
          injection hf with hf
          subst hf
          refine ⟨?_, ih⟩
          unfold FieldAt
          rw [if_pos hext]
          refine ⟨T j0, ?_, hw0⟩
          have hk : kindB ({ chi := b.chi, ptr := 0, val := T j0 } : Abs.Field) = false := by
            show (b.chi != Chi.ext) = false
            rw [chi_bne_iff, hext]; rfl
          simp only [fieldImg, hk, Bool.false_eq_true, if_false]
        · rw [if_neg hext] at hf
          cases hp0 : σ.get (2 * k) with
          | none => simp [hp0] at hf
          | some p =>
            simp only [hp0] at hf
            injection hf with hf
            subst hf
            have hne : b.chi ≠ .ext := fun e => hext (by rw [e]; rfl)
            obtain ⟨hpv, hlt⟩ := hp 0 (by simp) (by simpa using hne) p (by simpa using hp0)
            simp only [Nat.add_zero] at hpv
            refine ⟨?_, ih⟩
            unfold FieldAt
            rw [if_neg hext]
            refine ⟨imgWord ι p, T j0, ?_, hpv, hw0⟩
            have hk : kindB ({ chi := b.chi, ptr := p, val := T j0 } : Abs.Field) = true := by
              show (b.chi != Chi.ext) = true
              rw [chi_bne_iff]
              simp only [Bool.not_eq_true']
              simpa using hext
            simp only [fieldImg, hk, if_true]
            rw [imgWord_toNat hlt]

/-- the stored fields, translated with the words the machine holds: `κ' id j = T j` on closure fields and
`T j` is the translation of the abstract word elsewhere -/
theorem setVals_eq_trFs {κ : Nat → Nat → Word} {id : Nat} {T : Nat → Word} : ∀ (j : Nat) (fs : List Abs.Field),
    (∀ i (hi : i < fs.length), fs[i].chi = .cns → κ id (j + i) = T (j + i)) →
    (∀ i (hi : i < fs.length), fs[i].chi ≠ .cns → T (j + i) = trW fs[i].chi fs[i].val) →
    setVals T j fs = trFs κ id j fs
  | _, [], _, _ => rfl
  | j, f :: fs, h1, h2 => by
    simp only [setVals, trFs]
    rw [setVals_eq_trFs (j + 1) fs
      (fun i hi hc => by
        have := h1 (i + 1) (by simpa using hi) (by simpa using hc)
        rw [show j + (i + 1) = j + 1 + i by omega] at this; exact this)
      (fun i hi hc => by
        have := h2 (i + 1) (by simpa using hi) (by simpa using hc)
        rw [show j + (i + 1) = j + 1 + i by omega] at this; exact this)]
    congr 1
    unfold trF
    have a1 := h1 0 (by simp)
    have a2 := h2 0 (by simp)
    simp only [Nat.add_zero, List.getElem_cons_zero] at a1 a2
    cases hc : f.chi with
    | cns => simp only; rw [a1 hc]
    | prd => simp only; rw [a2 (by rw [hc]; decide), hc]
    | ext => simp only; rw [a2 (by rw [hc]; decide), hc]


/-! ## `store` -/

theorem roots_split (σ : Temps) (Γ : Ctx) (n : Nat) (hn : n ≤ Γ.length) :
    roots Γ σ = roots (Γ.take n) σ ++ roots.go σ (Γ.drop n) n := by
  unfold roots
  conv => lhs; rw [← List.take_append_drop n Γ]
  rw [roots_go_append]
  simp [Nat.min_eq_left hn]

theorem ofNat_of_toNat {w : Word} {p : Nat} (h : w.toNat = p) : w = BitVec.ofNat 64 p := by
  apply BitVec.eq_of_toNat_eq
  rw [BitVec.toNat_ofNat, ← h, Nat.mod_eq_of_lt w.isLt]

/-- the heap region lies below 2^64 -/
theorem limit_lt {c : MemCfg} {room : Nat} {σ : State} {hs : HState} (B : SpOk c σ.sp room)
    (R : HeapRel c σ hs) : hs.limit < 2 ^ 64 := by
  have h2 := R.limit
  have h3 := B.disjoint
  have h4 := B.top
  have h5 := B.high
  have h6 := B.low
  omega

/-- the references held by the variables of a related context are addresses inside the heap -/
theorem X3R.ref_lt {c : MemCfg} (H : CfgCC c) {Γ : Ctx} {cfg : Config} {hs : HState} {ι : Nat → Nat} {κ : Nat → Nat → Word}
    {σ : State} {out : List (Bool × Word)}
    (X : X3 c Γ cfg hs ι κ σ out) {i : Nat} (hi : i < Γ.length) (hc : Γ[i].chi ≠ .ext) {r : Word}
    (hr : cfg.temps.get (2 * i) = some r) (h0 : r ≠ 0) :
    ι r.toNat < 2 ^ 64 ∧ r.toNat < cfg.next := by
  have hm := Scc.Backend.Sim2.mem_roots hi hc hr h0
  obtain ⟨o, ho⟩ := href_root_mem X.href hm
  have h1 := href_head_lt X.href ho
  have h2 := limit_lt (X.spOk H) X.hrel
  have h7 := (X.href.abs.ids _ ho).2.1
  simp only at h1 h7
  constructor
  · omega
  · exact h7

theorem readFields_spec (σ : Temps) : ∀ (ks : List Chi) (n : Nat) (fields : List Abs.Field),
    readFields σ ks n = some fields → fields.length = ks.length ∧
    ∀ j (hj : j < ks.length) (hj' : j < fields.length), fields[j].chi = ks[j] ∧
      σ.get (2 * (n + j) + 1) = some fields[j].val ∧
      (fields[j].chi ≠ .ext → σ.get (2 * (n + j)) = some fields[j].ptr)
  | [], n, fields, h => by
    simp only [readFields, Option.some.injEq] at h
    subst h
    exact ⟨rfl, fun j hj => by simp at hj⟩
  | k :: ks, n, fields, h => by
    simp only [readFields] at h
    cases hg : σ.get (2 * n + 1) with
    | none => simp [hg] at h
    | some w =>
      cases hr : readFields σ ks (n + 1) with
      | none => simp [hg, hr] at h
      | some rest =>
        obtain ⟨hl, hs⟩ := readFields_spec σ ks (n + 1) rest hr
        simp only [hg, hr] at h
        have key : ∃ p, fields = ⟨k, p, w⟩ :: rest ∧ (k ≠ .ext → σ.get (2 * n) = some p) := by
          split at h
          · rename_i hk
            injection h with h
            exact ⟨_, h.symm, fun hne => absurd ((Scc.Backend.Sim2.chi_beq_ext _).mp hk) hne⟩
          · split at h
            · rename_i p hp
              injection h with h; exact ⟨_, h.symm, fun _ => hp⟩
            · cases h
        obtain ⟨p, rfl, hp⟩ := key
        refine ⟨by simp [hl], ?_⟩
        intro j hj hj'
        cases j with
        | zero => exact ⟨rfl, by simpa using hg, by simpa using hp⟩
        | succ j =>
          have := hs j (by simpa using hj) (by simpa using hj')
          simp only [List.getElem_cons_succ]
          rw [show n + (j + 1) = n + 1 + j by omega]
          exact this

/-- the words of the stored closure fields: what the machine holds at the stored positions -/
def storeK (σ : State) (κ : Nat → Nat → Word) (id n : Nat) : Nat → Nat → Word :=
  fun i j => if i = id then (σ.tempVal (posTemp (2 * (n + j) + 1))).getD 0 else κ i j

/-- THE ABSTRACT `store` (at least one field) AGAINST `Memory::store` -/
theorem store_x3 {c : MemCfg} (H : CfgCC c) (h8 : c.heapBase % 8 = 0)
    {Γ : Ctx} {cfg cfg1 : Config} {hs : HState} {ι : Nat → Nat} {κ : Nat → Nat → Word} {σ : State} {out : List (Bool × Word)}
    (X : X3 c Γ cfg hs ι κ σ out) {n : Nat} (hn : n < Γ.length) {fields : List Abs.Field}
    (hf : readFields cfg.temps (Mock.kindsOf (Γ.drop n)) n = some fields)
    (hch : Obj.children ⟨0, fields⟩ = roots.go cfg.temps (Γ.drop n) n)
    (hnext : cfg.next < 2 ^ 64)
    (hlow : ∀ t, t < 2 * n → cfg1.temps.get t = cfg.temps.get t)
    (hheap : cfg1.heap = (cfg.next, ⟨0, fields⟩) :: cfg.heap) (hnx : cfg1.next = cfg.next + 1)
    (hout : cfg1.out = cfg.out)
    (hroom : Room hs (64 * (Γ.length - n) + 64)) (kk : Nat) :
    ∃ code kk', (store (Γ.drop n) (Γ.take n)).run kk = .ok (code, kk') ∧ kk ≤ kk' ∧ LabsIn code kk kk' ∧
      ∃ σ' hs' p, execFwd c code σ = .ok (σ', .next) ∧
        X3R c (Γ.take n) cfg1 (roots (Γ.take n) cfg.temps ++ [cfg.next]) hs'
          (fun i => if i = cfg.next then p else ι i) (storeK σ κ cfg.next n) σ' out ∧
        σ'.tempVal (posTemp (2 * n)) = some (BitVec.ofNat 64 p) ∧ p ≠ 0 ∧ p < 2 ^ 64 ∧
        FrLe hs hs' (64 * (Γ.length - n)) ∧
        (∀ t, t < 2 * n → σ'.tempVal (posTemp t) = σ.tempVal (posTemp t)) := by
  have hnle : n ≤ Γ.length := Nat.le_of_lt hn
  have hlenT : (Γ.take n).length = n := by simp [Nat.min_eq_left hnle]
  have hlenD : (Γ.drop n).length = Γ.length - n := by simp
  have hsplit := roots_split cfg.temps Γ n hnle
  -- the words the machine holds at the stored positions
  generalize hT : (fun j => (σ.tempVal (posTemp (2 * (n + j) + 1))).getD 0) = T
  have hTdef : ∀ j (hj : j < (Γ.drop n).length), σ.tempVal (posTemp (2 * (n + j) + 1)) = some (T j) := by
    intro j hj
    have hj' : n + j < Γ.length := by rw [hlenD] at hj; omega
    -- the abstract temporary is defined (the store reads it)
    have hdef : ∃ a, cfg.temps.get (2 * (n + j) + 1) = some a := by
      obtain ⟨hl, hs⟩ := readFields_spec cfg.temps _ n fields hf
      have hjk : j < (Mock.kindsOf (Γ.drop n)).length := by simpa [Mock.kindsOf] using hj
      exact ⟨_, (hs j hjk (by rw [hl]; exact hjk)).2.1⟩
    obtain ⟨a, ha⟩ := hdef
    have hw := X.words (n + j) hj' a ha
    rw [← hT]
    simp only
    rw [hw]
    rfl
  -- what the machine holds
  have hE : EnvFields (mview σ) n (Γ.drop n) ((setVals T 0 fields).map (fieldImg ι)) := by
    apply envFields_of_read T (Γ.drop n) n 0 fields hf
    · intro j hj
      rw [Nat.zero_add]; exact hTdef j hj
    · intro j hj hc r hr
      have hj' : n + j < Γ.length := by rw [hlenD] at hj; omega
      have hc' : Γ[n + j].chi ≠ .ext := by simpa using hc
      exact ⟨X.ptrs (n + j) hj' hc' r hr, fun h0 => (X3R.ref_lt H X hj' hc' hr h0).1⟩
  obtain ⟨hflenK, hfspec⟩ := readFields_spec cfg.temps _ n fields hf
  have hflen : fields.length = Γ.length - n := by
    rw [hflenK]; simp [Mock.kindsOf]
  -- the translation of the new object
  have hnewF : setVals T 0 fields = trFs (storeK σ κ cfg.next n) cfg.next 0 fields := by
    apply setVals_eq_trFs 0 fields
    · intro i hi hc
      rw [Nat.zero_add, ← hT]
      simp [storeK]
    · intro i hi hc
      rw [Nat.zero_add]
      have hik : i < (Mock.kindsOf (Γ.drop n)).length := by rw [← hflenK]; exact hi
      obtain ⟨hchi, hval, _⟩ := hfspec i hik hi
      have hi' : n + i < Γ.length := by rw [hflen] at hi; omega
      have hw := X.words (n + i) hi' _ hval
      have hT' := hTdef i (by rw [hlenD]; rw [hflen] at hi; exact hi)
      rw [hT'] at hw
      have hcΓ : Γ[n + i].chi = fields[i].chi := by
        rw [hchi]; simp [Mock.kindsOf]
      rw [hcΓ] at hw
      injection hw with hw
      rw [hw]
      cases hcc : fields[i].chi with
      | cns => exact absurd hcc hc
      | prd => rfl
      | ext => rfl
  rw [hnewF] at hE
  generalize hκ' : storeK σ κ cfg.next n = κ' at hE hnewF
  have hκold : ∀ e ∈ cfg.heap, ∀ j, κ' e.1 j = κ e.1 j := by
    intro e he j
    have := (X.href.abs.ids _ (mem_trHeap κ he)).2.1
    simp only at this
    rw [← hκ']
    unfold storeK
    rw [if_neg (by omega)]
  -- the block-level store
  have hcho : Obj.children ⟨0, trFs κ' cfg.next 0 fields⟩ = roots.go cfg.temps (Γ.drop n) n := by
    rw [← hch]; exact trO_children κ' cfg.next ⟨0, fields⟩
  have R0 : HRef (trHeap κ cfg.heap) (roots (Γ.take n) cfg.temps ++ Obj.children ⟨0, trFs κ' cfg.next 0 fields⟩)
      cfg.next hs ι := by
    rw [hcho, ← hsplit]; exact X.href
  obtain ⟨hs', p, hop, R1⟩ := href_store (o := ⟨0, trFs κ' cfg.next 0 fields⟩) rfl
    (by
      intro e
      have : fields.length = 0 := by
        have := congrArg List.length e
        simpa [trFs_length] using this
      omega)
    hnext R0
    (by
      obtain ⟨lin, lazy, live, Fr, I⟩ := X.href.conc
      refine ⟨lin, lazy, live, Fr, ?_, ?_⟩
      · rw [hcho, ← hsplit]; exact I
      · simp only [trFs_length]; rw [hflen]; have := hroom _ _ _ _ _ I; omega)
  have hfr : FrLe hs hs' (64 * (Γ.length - n)) := by
    have := frLe_store (o := ⟨0, trFs κ' cfg.next 0 fields⟩) R0
      (by simp only [trFs_length]; rw [hflen]; exact hroom) hop
    simpa [hflen, trFs_length] using this
  -- the machine
  obtain ⟨code, kk', hrun, hle, hlabs, σ', hx, B', HR', ⟨w, hw, ew⟩, FT⟩ :=
    store_contract h8 (X.spOk H) X.hrel (toStore := Γ.drop n) (rem := Γ.take n)
      (by rw [hlenT, hlenD]; have := X.cap; omega) (by rw [hlenT]; exact hE) hop kk
  rw [hlenT] at hw FT
  have hnew : (cfg.next, (⟨0, trFs κ' cfg.next 0 fields⟩ : Obj)) ∈
      (cfg.next, (⟨0, trFs κ' cfg.next 0 fields⟩ : Obj)) :: trHeap κ cfg.heap :=
    List.mem_cons_self
  have hp0 : p ≠ 0 := by
    have := (R1.shape _ hnew).pos
    simpa using this
  have hplt : p < 2 ^ 64 := by
    have h1 := href_head_lt R1 hnew
    simp only [if_true] at h1
    have h2 := limit_lt B' HR'
    omega
  have hkeep : ∀ t, t < 2 * n → σ'.tempVal (posTemp t) = σ.tempVal (posTemp t) := by
    intro t ht
    have htc : t < 281 := by have := X.cap; omega
    apply FT.temps _ (opndOK_posTemp htc)
    intro hc
    rcases hc with e | e | e | e | ⟨j, e⟩
    · exact posTemp_ne_x htc (by decide) e
    · exact posTemp_ne_x htc (by decide) e
    · exact posTemp_ne_x htc (by decide) e
    · exact posTemp_ne_x htc (by decide) e
    · have := posTemp_inj.1 e; omega
  refine ⟨code, kk', hrun, hle, hlabs, σ', hs', p, hx, ?_, by rw [hw, ofNat_of_toNat ew], hp0, hplt, hfr,
    hkeep⟩
  refine ⟨core_frameT H X.core FT, by rw [hlenT]; have := X.cap; omega, ?_, ?_, by rw [hout]; exact X.out, HR', ?_⟩
  · intro i hi a ha
    rw [hlenT] at hi
    rw [hlow _ (by omega)] at ha
    rw [hkeep _ (by omega)]
    have := X.words i (by omega) a ha
    simpa using this
  · intro i hi hc r hr
    rw [hlenT] at hi
    have hi' : i < Γ.length := by omega
    have hc' : Γ[i].chi ≠ .ext := by simpa using hc
    rw [hlow _ (by omega)] at hr
    rw [hkeep _ (by omega), X.ptrs i hi' hc' r hr]
    congr 1
    unfold imgWord
    by_cases h0 : r = 0
    · simp [h0]
    · rw [if_neg h0, if_neg h0]
      have := (X3R.ref_lt H X hi' hc' hr h0).2
      show _ = BitVec.ofNat 64 (if r.toNat = cfg.next then p else ι r.toNat)
      rw [if_neg (by omega)]
  · rw [hheap, hnx, trHeap_cons, trHeap_congr κ cfg.heap hκold]
    exact R1

end Scc.A64.Ref.K
