/-
  Scc.A64.PrintLemmas — proof file: code.rs `print_i64` (save caller-save registers, move the
  argument, call, restore) on the poison machine, for EVERY context.
-/

import Scc.A64.StackLemmas
import Scc.A64.Backend

set_option linter.unusedSimpArgs false

namespace Scc.A64

/-! local replacements for the three `Mathlib.Data.List.Nodup` lemmas this file used (core only) -/
theorem nodup_map_of_inj {α β : Type} {f : α → β} {l : List α} (hf : ∀ a b, f a = f b → a = b)
    (h : l.Nodup) : (l.map f).Nodup :=
  List.Pairwise.map f (fun a b hab e => hab (hf a b e)) h

theorem nodup_reverse_iff {α : Type} {l : List α} : l.reverse.Nodup ↔ l.Nodup := by
  unfold List.Nodup
  rw [List.pairwise_reverse]
  constructor <;> intro h <;> exact h.imp (fun hab e => hab e.symm)

theorem not_mem_take_drop {α : Type} {l : List α} (h : l.Nodup) (n : Nat) {a : α}
    (h1 : a ∈ l.take n) (h2 : a ∈ l.drop n) : False := by
  have := List.take_append_drop n l ▸ h
  exact (List.nodup_append.mp this).2.2 a h1 a h2 rfl


/-- machine register of a logical register number below `REGISTER_NUM` -/
def ar (r : Nat) : Fin 31 := ⟨archNumber r % 31, Nat.mod_lt _ (by decide)⟩

theorem xreg_ar {r : Nat} (h : r < 30) : xreg r = some (ar r) := by
  unfold xreg ar archNumber
  split
  · have : r < 31 := by omega
    simp [this, Nat.mod_eq_of_lt this]
  · have : r + 1 < 31 := by omega
    simp [this, Nat.mod_eq_of_lt this]

theorem ar_val {r : Nat} (h : r < 30) : (ar r).val = archNumber r := by
  unfold ar archNumber
  split <;> simp <;> omega

theorem ar_inj {r r' : Nat} (h : r < 30) (h' : r' < 30) (e : ar r = ar r') : r = r' := by
  have := congrArg Fin.val e
  rw [ar_val h, ar_val h'] at this
  unfold archNumber at this
  split at this <;> split at this <;> omega

/-- logical register read -/
def State.lreg (σ : State) (r : Nat) : Option Word := σ.reg (ar r)

/-! ## lists of moves, stores and loads -/

def moveCodes (pairs : List (Nat × Nat)) : List Code := pairs.map fun p => .MOVR (.x p.1) (.x p.2)

theorem exec_moveCodes (c : MemCfg) :
    ∀ (pairs : List (Nat × Nat)) (σ : State), (∀ p ∈ pairs, p.1 < 30 ∧ p.2 < 30) →
      (∀ p ∈ pairs, ∀ q ∈ pairs, p.1 ≠ q.2) → (pairs.map (·.1)).Nodup →
      ∃ σ', execCodes c (moveCodes pairs) σ = .ok σ' ∧ σ'.sp = σ.sp ∧ σ'.heap = σ.heap ∧
        (∀ a, σ'.slot a = σ.slot a) ∧ (∀ p ∈ pairs, σ'.lreg p.1 = σ.lreg p.2) ∧
        (∀ m : Fin 31, (∀ p ∈ pairs, ar p.1 ≠ m) → σ'.reg m = σ.reg m) := by
  intro pairs
  induction pairs with
  | nil => intro σ _ _ _; exact ⟨σ, rfl, rfl, rfl, by intros; rfl, by intro p hp; simp at hp, by intros; rfl⟩
  | cons pr rest ih =>
    intro σ hlt hdisj hnd
    obtain ⟨d, s⟩ := pr
    have hd := (hlt (d, s) (by simp)).1
    have hs := (hlt (d, s) (by simp)).2
    simp only [List.map_cons, List.nodup_cons, List.mem_map, not_exists, not_and] at hnd
    obtain ⟨σ', he, hsp, hheap, hslots, hpairs, hother⟩ :=
      ih (σ.setReg (ar d) (σ.reg (ar s))) (fun p hp => hlt p (by simp [hp]))
        (fun p hp q hq => hdisj p (by simp [hp]) q (by simp [hq])) hnd.2
    refine ⟨σ', ?_, by rw [hsp]; rfl, by rw [hheap]; rfl, by intro a; rw [hslots]; rfl, ?_, ?_⟩
    · simp only [moveCodes, List.map_cons, execCodes, execCode_MOVR (xreg_ar hd) (xreg_ar hs), exec_mov_x]
      exact he
    · intro p hp
      simp only [List.mem_cons] at hp
      rcases hp with rfl | hp
      · have : ∀ q ∈ rest, ar q.1 ≠ ar d := by
          intro q hq e
          have := ar_inj (hlt q (by simp [hq])).1 hd e
          exact hnd.1 q hq this
        show σ'.reg (ar d) = σ.reg (ar s)
        rw [hother (ar d) this]; simp
      · show σ'.reg (ar p.1) = σ.reg (ar p.2)
        have h1 := hpairs p hp
        show σ'.reg (ar p.1) = _
        rw [show σ'.reg (ar p.1) = σ'.lreg p.1 from rfl, h1]
        have : ar d ≠ ar p.2 := by
          intro e
          have := ar_inj hd (hlt p (by simp [hp])).2 e
          exact hdisj (d, s) (by simp) p (by simp [hp]) this
        simp [State.lreg, this]
    · intro m hm
      rw [hother m (fun p hp => hm p (by simp [hp]))]
      have : ar d ≠ m := hm (d, s) (by simp)
      simp [this]


def strCodes (items : List (Nat × Int)) : List Code := items.map fun p => .STR (.x p.1) .sp p.2
def ldrCodes (items : List (Nat × Int)) : List Code := items.map fun p => .LDR (.x p.1) .sp p.2

theorem exec_strCodes {c : MemCfg} (hm : MemOk c) (S : Nat) (hal : S % 16 = 0) (hlo : c.stackLow ≤ S) :
    ∀ (items : List (Nat × Int)) (σ : State), σ.sp.toNat = S →
      (∀ p ∈ items, p.1 < 30 ∧ okOff p.2 = true ∧ (S : Int) + p.2 + 8 ≤ c.stackTop) →
      (items.map (·.2)).Nodup →
      ∃ σ', execCodes c (strCodes items) σ = .ok σ' ∧ σ'.sp = σ.sp ∧ σ'.heap = σ.heap ∧
        (∀ m, σ'.reg m = σ.reg m) ∧ (∀ p ∈ items, σ'.slot ((S : Int) + p.2).toNat = σ.lreg p.1) ∧
        (∀ a, (∀ p ∈ items, ((S : Int) + p.2).toNat ≠ a) → σ'.slot a = σ.slot a) := by
  intro items
  induction items with
  | nil => intro σ _ _ _; exact ⟨σ, rfl, rfl, rfl, by intros; rfl, by intro p hp; simp at hp, by intros; rfl⟩
  | cons pr rest ih =>
    intro σ hS hok hnd
    obtain ⟨r, off⟩ := pr
    obtain ⟨hr, hoff, hhi⟩ := hok (r, off) (by simp)
    simp only [List.map_cons, List.nodup_cons, List.mem_map, not_exists, not_and] at hnd
    have h1 := exec_str_sp hm σ (ar r) off hoff S hS hal hlo hhi
    obtain ⟨σ', he, hsp, hheap, hregs, hitems, hother⟩ :=
      ih (σ.putSlot ((S : Int) + off).toNat (σ.reg (ar r))) (by simpa using hS)
        (fun p hp => hok p (by simp [hp])) hnd.2
    have hoffs : (0 ≤ off ∧ off ≤ 32760) ∧ off % 8 = 0 := by simpa [okOff] using hoff
    refine ⟨σ', ?_, by rw [hsp]; simp, by rw [hheap]; simp, by intro m; rw [hregs]; simp, ?_, ?_⟩
    · simp only [strCodes, List.map_cons, execCodes, execCode_STR_sp (xreg_ar hr), h1]
      exact he
    · intro p hp
      simp only [List.mem_cons] at hp
      rcases hp with rfl | hp
      · have : ∀ q ∈ rest, ((S : Int) + q.2).toNat ≠ ((S : Int) + off).toNat := by
          intro q hq e
          have hq' := hok q (by simp [hq])
          have hqo : (0 ≤ q.2 ∧ q.2 ≤ 32760) ∧ q.2 % 8 = 0 := by simpa [okOff] using hq'.2.1
          exact hnd.1 q hq (by omega)
        rw [hother _ this]; simp [State.lreg]
      · rw [hitems p hp]; simp [State.lreg]
    · intro a ha
      rw [hother a (fun p hp => ha p (by simp [hp]))]
      have := ha (r, off) (by simp)
      simp [this]

theorem exec_ldrCodes {c : MemCfg} (hm : MemOk c) (S : Nat) (hal : S % 16 = 0) (hlo : c.stackLow ≤ S) :
    ∀ (items : List (Nat × Int)) (σ : State), σ.sp.toNat = S →
      (∀ p ∈ items, p.1 < 30 ∧ okOff p.2 = true ∧ (S : Int) + p.2 + 8 ≤ c.stackTop) →
      (items.map (·.1)).Nodup →
      ∃ σ', execCodes c (ldrCodes items) σ = .ok σ' ∧ σ'.sp = σ.sp ∧ σ'.heap = σ.heap ∧
        (∀ a, σ'.slot a = σ.slot a) ∧ (∀ p ∈ items, σ'.lreg p.1 = σ.slot ((S : Int) + p.2).toNat) ∧
        (∀ m : Fin 31, (∀ p ∈ items, ar p.1 ≠ m) → σ'.reg m = σ.reg m) := by
  intro items
  induction items with
  | nil => intro σ _ _ _; exact ⟨σ, rfl, rfl, rfl, by intros; rfl, by intro p hp; simp at hp, by intros; rfl⟩
  | cons pr rest ih =>
    intro σ hS hok hnd
    obtain ⟨r, off⟩ := pr
    obtain ⟨hr, hoff, hhi⟩ := hok (r, off) (by simp)
    simp only [List.map_cons, List.nodup_cons, List.mem_map, not_exists, not_and] at hnd
    have h1 := exec_ldr_sp hm σ (ar r) off hoff S hS hal hlo hhi
    obtain ⟨σ', he, hsp, hheap, hslots, hitems, hother⟩ :=
      ih (σ.setReg (ar r) (σ.slot ((S : Int) + off).toNat)) (by simpa using hS)
        (fun p hp => hok p (by simp [hp])) hnd.2
    refine ⟨σ', ?_, by rw [hsp]; simp, by rw [hheap]; simp, by intro a; rw [hslots]; simp, ?_, ?_⟩
    · simp only [ldrCodes, List.map_cons, execCodes, execCode_LDR_sp (xreg_ar hr), h1]
      exact he
    · intro p hp
      simp only [List.mem_cons] at hp
      rcases hp with rfl | hp
      · have : ∀ q ∈ rest, ar q.1 ≠ ar r := by
          intro q hq e
          exact hnd.1 q hq (ar_inj (hok q (by simp [hq])).1 hr e)
        show σ'.reg (ar r) = _
        rw [hother _ this]; simp
      · rw [hitems p hp]; simp
    · intro m hm'
      rw [hother m (fun p hp => hm' p (by simp [hp]))]
      have := hm' (r, off) (by simp)
      simp [this]


/-! ## save / restore as lists of moves, stores and loads -/


def backupUsed (fb : Nat) (regs : List Nat) : Nat := min regs.length ((REGISTER_NUM - 1) - fb)
def roundEven (k : Nat) : Nat := if k % 2 != 0 then k + 1 else k
def pushedCount (fb : Nat) (regs : List Nat) : Nat := roundEven (regs.length - backupUsed fb regs)

def saveMoves (fb : Nat) (regs : List Nat) : List (Nat × Nat) :=
  (enumFrom 0 (regs.take (backupUsed fb regs))).map fun p => (fb + p.1, p.2)

def pushItems (fb : Nat) (regs : List Nat) : List (Nat × Int) :=
  (enumFrom 0 (regs.drop (backupUsed fb regs))).map fun p =>
    (p.2, address ((pushedCount fb regs : Int) - 1 - (p.1 : Int)))

theorem save_decompose (fb : Nat) (regs : List Nat) :
    saveCallerSaveRegisters fb regs =
      moveCodes (saveMoves fb regs) ++
        (if regs.length - backupUsed fb regs > 0 then
          [.SUBI .sp .sp (address (pushedCount fb regs))] ++ strCodes (pushItems fb regs) else []) := by
  unfold saveCallerSaveRegisters moveCodes saveMoves strCodes pushItems pushedCount roundEven backupUsed
  simp only [List.map_map]
  split <;> simp [Function.comp_def]

theorem restore_decompose (fb : Nat) (regs : List Nat) :
    restoreCallerSaveRegisters fb regs =
      moveCodes ((saveMoves fb regs).map fun p => (p.2, p.1)) ++
        (if regs.length - backupUsed fb regs > 0 then
          ldrCodes (pushItems fb regs).reverse ++ [.ADDI .sp .sp (address (pushedCount fb regs))] else []) := by
  unfold restoreCallerSaveRegisters moveCodes saveMoves ldrCodes pushItems pushedCount roundEven backupUsed
  simp only [List.map_map, List.map_reverse]
  split <;> simp [Function.comp_def]


/-! ## `enumFrom` -/

theorem enumFrom_map_snd {α : Type} : ∀ (n : Nat) (l : List α), (enumFrom n l).map (·.2) = l
  | _, [] => rfl
  | n, a :: as => by simp [enumFrom, enumFrom_map_snd (n + 1) as]

theorem enumFrom_map_fst {α : Type} : ∀ (n : Nat) (l : List α), (enumFrom n l).map (·.1) = List.range' n l.length
  | _, [] => rfl
  | n, a :: as => by simp [enumFrom, enumFrom_map_fst (n + 1) as, List.range'_succ]

theorem mem_enumFrom {α : Type} : ∀ (n : Nat) (l : List α) (p : Nat × α), p ∈ enumFrom n l →
    n ≤ p.1 ∧ p.1 < n + l.length ∧ p.2 ∈ l
  | _, [], p, h => by simp [enumFrom] at h
  | n, a :: as, p, h => by
    simp only [enumFrom, List.mem_cons] at h
    rcases h with rfl | h
    · simp
    · obtain ⟨h1, h2, h3⟩ := mem_enumFrom (n + 1) as p h
      simp only [List.length_cons, List.mem_cons]
      exact ⟨by omega, by omega, Or.inr h3⟩

/-! ## the external call -/

theorem clobberCall_reg (σ : State) (m : Fin 31) :
    (σ.clobberCall).reg m = if m.val ≤ 18 ∨ m.val = 30 then none else σ.reg m := by
  simp [State.clobberCall, State.reg]

theorem clobberCall_slot (σ : State) (a : Nat) :
    (σ.clobberCall).slot a = if σ.sp.toNat ≤ a then σ.slot a else none := by
  simp only [State.clobberCall, State.slot, Std.HashMap.getElem?_filter']
  cases σ.stack[a]? <;> simp [Option.filter]

@[simp] theorem clobberCall_sp (σ : State) : (σ.clobberCall).sp = σ.sp := by simp [State.clobberCall]
@[simp] theorem clobberCall_heap (σ : State) : (σ.clobberCall).heap = σ.heap := by simp [State.clobberCall]

theorem callExternal_ok (σ : State) (w : Word) (hal : σ.sp.toNat % 16 = 0) (h0 : σ.reg 0 = some w) :
    σ.callExternal = .ok (w, σ.clobberCall) := by
  have : σ.rdX 0 = .ok w := by rw [rdX_reg]; simp [h0]
  simp [State.callExternal, hal, this]

/-- straight-line code without calls in front of the rest -/
def Code.isBL : Code → Bool
  | .BL _ => true
  | _ => false

theorem execCodesOut_pure (c : MemCfg) :
    ∀ (l1 l2 : List Code) (σ σ1 : State), (∀ code ∈ l1, code.isBL = false) → execCodes c l1 σ = .ok σ1 →
      execCodesOut c (l1 ++ l2) σ = execCodesOut c l2 σ1 := by
  intro l1
  induction l1 with
  | nil => intro l2 σ σ1 _ h; simp [execCodes] at h; subst h; rfl
  | cons code rest ih =>
    intro l2 σ σ1 hbl h
    have hc : code.isBL = false := hbl code (by simp)
    simp only [execCodes] at h
    cases he : execCode c code σ with
    | error e => simp [he] at h
    | ok σ' =>
      simp only [he] at h
      have := ih l2 σ' σ1 (fun x hx => hbl x (by simp [hx])) h
      cases code <;> simp_all [Code.isBL, execCodesOut]



theorem enumFrom_map_fst' {α β : Type} (f : Nat → β) :
    ∀ (n : Nat) (l : List α), (enumFrom n l).map (fun p => f p.1) = (List.range' n l.length).map f
  | _, [] => rfl
  | n, a :: as => by simp [enumFrom, enumFrom_map_fst' f (n + 1) as, List.range'_succ]

theorem backupUsed_le (fb : Nat) (regs : List Nat) : backupUsed fb regs ≤ regs.length := by
  unfold backupUsed; omega
theorem backupUsed_le' (fb : Nat) (regs : List Nat) : fb + backupUsed fb regs ≤ max fb 29 := by
  unfold backupUsed; simp [REGISTER_NUM_eq]; omega

theorem mem_saveMoves {fb : Nat} {regs : List Nat} {p : Nat × Nat} (h : p ∈ saveMoves fb regs) :
    fb ≤ p.1 ∧ p.1 < fb + backupUsed fb regs ∧ p.2 ∈ regs.take (backupUsed fb regs) := by
  simp only [saveMoves, List.mem_map] at h
  obtain ⟨q, hq, rfl⟩ := h
  obtain ⟨h1, h2, h3⟩ := mem_enumFrom 0 _ q hq
  simp only [List.length_take] at h2
  have := backupUsed_le fb regs
  exact ⟨by simp, by simp; omega, h3⟩

theorem saveMoves_snd (fb : Nat) (regs : List Nat) :
    (saveMoves fb regs).map (·.2) = regs.take (backupUsed fb regs) := by
  simp [saveMoves, List.map_map, Function.comp_def, enumFrom_map_snd]

theorem saveMoves_fst_nodup (fb : Nat) (regs : List Nat) : ((saveMoves fb regs).map (·.1)).Nodup := by
  have : (saveMoves fb regs).map (·.1) = (List.range' 0 (regs.take (backupUsed fb regs)).length).map (fb + ·) := by
    simp only [saveMoves, List.map_map, Function.comp_def]
    exact enumFrom_map_fst' (fun x => fb + x) 0 _
  rw [this]
  exact nodup_map_of_inj (fun a b h => by omega) (List.nodup_range' 1)

theorem mem_pushItems {fb : Nat} {regs : List Nat} {p : Nat × Int} (h : p ∈ pushItems fb regs) :
    ∃ o : Nat, o < regs.length - backupUsed fb regs ∧ p.2 = address ((pushedCount fb regs : Int) - 1 - (o : Int)) ∧
      p.1 ∈ regs.drop (backupUsed fb regs) := by
  simp only [pushItems, List.mem_map] at h
  obtain ⟨q, hq, rfl⟩ := h
  obtain ⟨h1, h2, h3⟩ := mem_enumFrom 0 _ q hq
  simp only [List.length_drop] at h2
  exact ⟨q.1, by omega, rfl, h3⟩

theorem pushItems_fst (fb : Nat) (regs : List Nat) :
    (pushItems fb regs).map (·.1) = regs.drop (backupUsed fb regs) := by
  simp [pushItems, List.map_map, Function.comp_def, enumFrom_map_snd]

theorem address_eq (k : Int) : address k = 8 * k := rfl

theorem pushItems_snd_nodup (fb : Nat) (regs : List Nat) : ((pushItems fb regs).map (·.2)).Nodup := by
  have : (pushItems fb regs).map (·.2) =
      (List.range' 0 (regs.drop (backupUsed fb regs)).length).map
        (fun (o : Nat) => address ((pushedCount fb regs : Int) - 1 - (o : Int))) := by
    simp only [pushItems, List.map_map, Function.comp_def]
    exact enumFrom_map_fst' (fun (o : Nat) => address ((pushedCount fb regs : Int) - 1 - (o : Int))) 0 _
  rw [this]
  exact nodup_map_of_inj (fun a b h => by simp only [address_eq] at h; omega) (List.nodup_range' 1)

theorem roundEven_props (k : Nat) : k ≤ roundEven k ∧ roundEven k ≤ k + 1 ∧ roundEven k % 2 = 0 := by
  unfold roundEven
  split <;> simp_all
  all_goals omega




/-- what the sequence "save; move argument; call; restore" guarantees -/
structure CallPost (σ σ' : State) (S fb : Nat) (regs : List Nat) : Prop where
  sp : σ'.sp = σ.sp
  heap : σ'.heap = σ.heap
  above : ∀ a, S ≤ a → σ'.slot a = σ.slot a
  saved : ∀ r ∈ regs, σ'.lreg r = σ.lreg r
  calleeSaved : ∀ m : Fin 31, 19 ≤ m.val → m.val ≤ 29 → (∀ p ∈ saveMoves fb regs, ar p.1 ≠ m) → σ'.reg m = σ.reg m
  clobbered : ∀ m : Fin 31, (m.val ≤ 18 ∨ m.val = 30) → (∀ r ∈ regs, ar r ≠ m) → σ'.reg m = none

theorem archNumber_le {r : Nat} (h : r ≤ 17) : archNumber r = r := by
  unfold archNumber; simp; omega
theorem archNumber_ge {r : Nat} (h : 18 ≤ r) : archNumber r = r + 1 := by
  unfold archNumber; simp; omega

theorem okOff_address {k : Int} (h0 : 0 ≤ k) (h1 : k ≤ 4000) : okOff (address k) = true := by
  have a : 0 ≤ 8 * k := by omega
  have b : 8 * k ≤ 32760 := by omega
  have d : (8 * k) % 8 = 0 := by omega
  simp [okOff, address_eq, a, b, d]

theorem okImm12_address {k : Int} (h0 : 0 ≤ k) (h1 : k ≤ 500) : okImm12 (address k) = true := by
  have a : 0 ≤ 8 * k := by omega
  have b : 8 * k < 4096 := by omega
  simp [okImm12, address_eq, a, b]

/-- the push phase of `save_caller_save_registers` -/
theorem push_phase {c : MemCfg} (hm : MemOk c) (fb : Nat) (regs : List Nat) (σ1 : State) (S : Nat)
    (hS : σ1.sp.toNat = S) (hal : S % 16 = 0) (hlo : c.stackLow + 8 * pushedCount fb regs ≤ S) (hhi : S ≤ c.stackTop)
    (hr30 : ∀ r ∈ regs, r < 30) (hlen : regs.length ≤ 400) :
    ∃ σ3, execCodes c (if regs.length - backupUsed fb regs > 0 then
          [.SUBI .sp .sp (address (pushedCount fb regs))] ++ strCodes (pushItems fb regs) else []) σ1 = .ok σ3 ∧
      σ3.sp.toNat = S - 8 * pushedCount fb regs ∧ σ3.heap = σ1.heap ∧ (∀ m, σ3.reg m = σ1.reg m) ∧
      (∀ p ∈ pushItems fb regs, σ3.slot (((S - 8 * pushedCount fb regs : Nat) : Int) + p.2).toNat = σ1.lreg p.1) ∧
      (∀ a, S ≤ a → σ3.slot a = σ1.slot a) := by
  have ht := hm.top
  have h64 : (2:Nat)^64 = 18446744073709551616 := by decide
  obtain ⟨hre1, hre2, hre3⟩ := roundEven_props (regs.length - backupUsed fb regs)
  have hpc : pushedCount fb regs = roundEven (regs.length - backupUsed fb regs) := rfl
  by_cases hc : regs.length - backupUsed fb regs > 0
  · simp only [hc, if_true]
    have e1 := exec_subi_sp c σ1 (address (pushedCount fb regs)) (okImm12_address (by omega) (by omega)) S hS
      (by rw [address_eq]; omega)
    have e2 : ((S : Int) - address (pushedCount fb regs)).toNat = S - 8 * pushedCount fb regs := by
      rw [address_eq]; omega
    rw [e2] at e1
    let σ2 := σ1.setSp (BitVec.ofNat 64 (S - 8 * pushedCount fb regs))
    have hS2 : σ2.sp.toNat = S - 8 * pushedCount fb regs := by simp [σ2, BitVec.toNat_ofNat]; omega
    have hitems : ∀ p ∈ pushItems fb regs, p.1 < 30 ∧ okOff p.2 = true ∧
        ((S - 8 * pushedCount fb regs : Nat) : Int) + p.2 + 8 ≤ c.stackTop := by
      intro p hp
      obtain ⟨o, ho, hp2, hp1⟩ := mem_pushItems hp
      refine ⟨hr30 _ (List.mem_of_mem_drop hp1), ?_, ?_⟩
      · rw [hp2]; exact okOff_address (by omega) (by omega)
      · rw [hp2, address_eq]; omega
    obtain ⟨σ3, he3, hsp3, hheap3, hregs3, hit3, hoth3⟩ :=
      exec_strCodes hm (S - 8 * pushedCount fb regs) (by omega) (by omega) (pushItems fb regs) σ2 hS2 hitems
        (pushItems_snd_nodup fb regs)
    refine ⟨σ3, ?_, by rw [hsp3]; exact hS2, by rw [hheap3]; rfl, by intro m; rw [hregs3]; rfl, ?_, ?_⟩
    · have hsub : execCode c (.SUBI .sp .sp (address (pushedCount fb regs))) σ1 = .ok σ2 := by
        rw [execCode_of_toInstr σ1 (show (Code.SUBI .sp .sp (address (pushedCount fb regs))).toInstr =
          some (.subi .sp .sp (address (pushedCount fb regs))) from rfl)]
        exact e1
      simp only [List.cons_append, List.nil_append, execCodes, hsub]
      exact he3
    · intro p hp; rw [hit3 p hp]; rfl
    · intro a ha
      rw [hoth3 a]
      · rfl
      · intro p hp
        obtain ⟨o, ho, hp2, _⟩ := mem_pushItems hp
        rw [hp2, address_eq]; omega
  · simp only [hc, if_false]
    have hz : regs.length - backupUsed fb regs = 0 := by omega
    have hz' : pushedCount fb regs = 0 := by rw [hpc, hz]; rfl
    have hnil : pushItems fb regs = [] := by
      have : (regs.drop (backupUsed fb regs)) = [] := List.eq_nil_of_length_eq_zero (by simp; omega)
      simp [pushItems, this, enumFrom]
    refine ⟨σ1, rfl, by rw [hz']; simpa using hS, rfl, by intros; rfl, by rw [hnil]; intro p hp; simp at hp, by intros; rfl⟩

/-- the pop phase of `restore_caller_save_registers` -/
theorem pop_phase {c : MemCfg} (hm : MemOk c) (fb : Nat) (regs : List Nat) (σ6 : State) (S : Nat)
    (hS : σ6.sp.toNat = S - 8 * pushedCount fb regs) (hal : S % 16 = 0)
    (hlo : c.stackLow + 8 * pushedCount fb regs ≤ S) (hhi : S ≤ c.stackTop)
    (hr30 : ∀ r ∈ regs, r < 30) (hnd : regs.Nodup) (hlen : regs.length ≤ 400) :
    ∃ σ8, execCodes c (if regs.length - backupUsed fb regs > 0 then
          ldrCodes (pushItems fb regs).reverse ++ [.ADDI .sp .sp (address (pushedCount fb regs))] else []) σ6 = .ok σ8 ∧
      σ8.sp.toNat = S ∧ σ8.heap = σ6.heap ∧ (∀ a, σ8.slot a = σ6.slot a) ∧
      (∀ p ∈ pushItems fb regs, σ8.lreg p.1 = σ6.slot (((S - 8 * pushedCount fb regs : Nat) : Int) + p.2).toNat) ∧
      (∀ m : Fin 31, (∀ p ∈ pushItems fb regs, ar p.1 ≠ m) → σ8.reg m = σ6.reg m) := by
  have ht := hm.top
  have h64 : (2:Nat)^64 = 18446744073709551616 := by decide
  obtain ⟨hre1, hre2, hre3⟩ := roundEven_props (regs.length - backupUsed fb regs)
  have hpc : pushedCount fb regs = roundEven (regs.length - backupUsed fb regs) := rfl
  by_cases hc : regs.length - backupUsed fb regs > 0
  · simp only [hc, if_true]
    have hitems : ∀ p ∈ (pushItems fb regs).reverse, p.1 < 30 ∧ okOff p.2 = true ∧
        ((S - 8 * pushedCount fb regs : Nat) : Int) + p.2 + 8 ≤ c.stackTop := by
      intro p hp
      obtain ⟨o, ho, hp2, hp1⟩ := mem_pushItems (List.mem_reverse.mp hp)
      refine ⟨hr30 _ (List.mem_of_mem_drop hp1), ?_, ?_⟩
      · rw [hp2]; exact okOff_address (by omega) (by omega)
      · rw [hp2, address_eq]; omega
    have hndr : ((pushItems fb regs).reverse.map (·.1)).Nodup := by
      rw [List.map_reverse, nodup_reverse_iff, pushItems_fst]
      exact hnd.sublist (List.drop_sublist _ _)
    obtain ⟨σ7, he7, hsp7, hheap7, hslots7, hit7, hoth7⟩ :=
      exec_ldrCodes hm (S - 8 * pushedCount fb regs) (by omega) (by omega) (pushItems fb regs).reverse σ6 hS hitems hndr
    have hS7 : σ7.sp.toNat = S - 8 * pushedCount fb regs := by rw [hsp7]; exact hS
    have e1 := exec_addi_sp c σ7 (address (pushedCount fb regs)) (okImm12_address (by omega) (by omega))
      (S - 8 * pushedCount fb regs) hS7 (by rw [address_eq]; omega)
    have e2 : (((S - 8 * pushedCount fb regs : Nat) : Int) + address (pushedCount fb regs)).toNat = S := by
      rw [address_eq]; omega
    rw [e2] at e1
    refine ⟨σ7.setSp (BitVec.ofNat 64 S), ?_, by simp [BitVec.toNat_ofNat]; omega, by simp [hheap7],
      by intro a; simp [hslots7], ?_, ?_⟩
    · rw [execCodes_append c _ _ _ _ he7]
      have hadd : execCode c (.ADDI .sp .sp (address (pushedCount fb regs))) σ7 = .ok (σ7.setSp (BitVec.ofNat 64 S)) := by
        rw [execCode_of_toInstr σ7 (show (Code.ADDI .sp .sp (address (pushedCount fb regs))).toInstr =
          some (.addi .sp .sp (address (pushedCount fb regs))) from rfl)]
        exact e1
      rw [execCodes_cons c _ _ _ _ hadd]; rfl
    · intro p hp
      have := hit7 p (List.mem_reverse.mpr hp)
      simpa [State.lreg] using this
    · intro m hm'
      have := hoth7 m (fun p hp => hm' p (List.mem_reverse.mp hp))
      simpa using this
  · simp only [hc, if_false]
    have hz : regs.length - backupUsed fb regs = 0 := by omega
    have hz' : pushedCount fb regs = 0 := by rw [hpc, hz]; rfl
    have hnil : pushItems fb regs = [] := by
      have : (regs.drop (backupUsed fb regs)) = [] := List.eq_nil_of_length_eq_zero (by simp; omega)
      simp [pushItems, this, enumFrom]
    refine ⟨σ6, rfl, by rw [hS, hz']; simp, rfl, by intros; rfl, by rw [hnil]; intro p hp; simp at hp, by intros; rfl⟩

theorem execCodesOut_BL (c : MemCfg) (l : String) (rest : List Code) (σ σ' σ'' : State) (w : Word)
    (out : List (Bool × Word)) (hext : isExternal l = true) (hcall : σ.callExternal = .ok (w, σ'))
    (hrest : execCodesOut c rest σ' = .ok (σ'', out)) :
    execCodesOut c (.BL l :: rest) σ = .ok (σ'', (l == "println_i64", w) :: out) := by
  simp [execCodesOut, hext, hcall, hrest]

theorem execCodesOut_COMMENT (c : MemCfg) (m : String) (rest : List Code) (σ : State) :
    execCodesOut c (.COMMENT m :: rest) σ = execCodesOut c rest σ := rfl

theorem save_call_restore {c : MemCfg} (hm : MemOk c) (fb : Nat) (regs : List Nat) (src : Nat) (nl : Bool)
    (σ : State) (S : Nat) (w : Word)
    (hS : σ.sp.toNat = S) (hal : S % 16 = 0) (hlo : c.stackLow + 8 * pushedCount fb regs ≤ S) (hhi : S ≤ c.stackTop)
    (hregs : ∀ r ∈ regs, r ≤ 17 ∨ r = 29) (hnd : regs.Nodup) (hfb : 18 ≤ fb) (hlen : regs.length ≤ 400)
    (hsrc : src < fb) (hsrc30 : src < 30) (hw : σ.lreg src = some w) :
    ∃ σ', execCodesOut c
        (saveCallerSaveRegisters fb regs ++
          ([.COMMENT "#move argument into place", .MOVR (.x 0) (.x src)] ++
            (.BL (if nl then "println_i64" else "print_i64") ::
              (.COMMENT "#restore caller-save registers" :: restoreCallerSaveRegisters fb regs)))) σ
        = .ok (σ', [(nl, w)]) ∧ CallPost σ σ' S fb regs := by
  have ht := hm.top
  have h64 : (2:Nat)^64 = 18446744073709551616 := by decide
  have hr30 : ∀ r ∈ regs, r < 30 := fun r hr => by have := hregs r hr; omega
  have hu1 := backupUsed_le fb regs
  have hu2 := backupUsed_le' fb regs
  obtain ⟨hre1, hre2, hre3⟩ := roundEven_props (regs.length - backupUsed fb regs)
  have hpc : pushedCount fb regs = roundEven (regs.length - backupUsed fb regs) := rfl
  -- membership facts
  have htake : ∀ r ∈ regs.take (backupUsed fb regs), r ∈ regs := fun r hr => List.mem_of_mem_take hr
  have hdrop : ∀ r ∈ regs.drop (backupUsed fb regs), r ∈ regs := fun r hr => List.mem_of_mem_drop hr
  -- Step 1: the moves into the backup registers
  have hm1_lt : ∀ p ∈ saveMoves fb regs, p.1 < 30 ∧ p.2 < 30 := by
    intro p hp
    obtain ⟨h1, h2, h3⟩ := mem_saveMoves hp
    exact ⟨by omega, hr30 _ (htake _ h3)⟩
  have hm1_tgt : ∀ p ∈ saveMoves fb regs, 18 ≤ p.1 ∧ p.1 ≤ 28 := by
    intro p hp
    obtain ⟨h1, h2, h3⟩ := mem_saveMoves hp
    omega
  have hm1_disj : ∀ p ∈ saveMoves fb regs, ∀ q ∈ saveMoves fb regs, p.1 ≠ q.2 := by
    intro p hp q hq
    have := hm1_tgt p hp
    obtain ⟨_, _, h3⟩ := mem_saveMoves hq
    have := hregs _ (htake _ h3)
    omega
  obtain ⟨σ1, he1, hsp1, hheap1, hslots1, hpairs1, hother1⟩ :=
    exec_moveCodes c (saveMoves fb regs) σ hm1_lt hm1_disj (saveMoves_fst_nodup fb regs)
  -- registers that are no backup target keep their value
  have hkeep1 : ∀ r, r < 30 → (r ≤ 17 ∨ r = 29 ∨ r < fb) → σ1.lreg r = σ.lreg r := by
    intro r hr hr'
    apply hother1
    intro p hp e
    have := ar_inj (hm1_lt p hp).1 hr e
    have := hm1_tgt p hp
    obtain ⟨h1, _, _⟩ := mem_saveMoves hp
    omega
  have hS1 : σ1.sp.toNat = S := by rw [hsp1]; exact hS
  -- Steps 2–3: the pushes
  obtain ⟨σ3, he3, hS3, hheap3, hregs3, hit3, habove3⟩ :=
    push_phase hm fb regs σ1 S hS1 hal hlo hhi hr30 hlen
  -- Step 4: the argument
  have hsrc1 : σ3.reg (ar src) = some w := by
    rw [hregs3]; show σ1.lreg src = some w; rw [hkeep1 src hsrc30 (Or.inr (Or.inr hsrc))]; exact hw
  let σ4 := σ3.setReg 0 (some w)
  have he4 : execCodes c [.COMMENT "#move argument into place", .MOVR (.x 0) (.x src)] σ3 = .ok σ4 := by
    have h0 : xreg 0 = some (0 : Fin 31) := by decide
    simp only [execCodes, execCode_COMMENT, execCode_MOVR h0 (xreg_ar hsrc30), exec_mov_x, hsrc1]
    rfl
  -- Step 5: the call
  have hal4 : σ4.sp.toNat % 16 = 0 := by
    show σ3.sp.toNat % 16 = 0
    rw [hS3]; omega
  have hcall := callExternal_ok σ4 w hal4 (by simp [σ4])
  let σ5 := σ4.clobberCall
  -- Step 6: the moves back
  have hm2_lt : ∀ p ∈ (saveMoves fb regs).map (fun p => (p.2, p.1)), p.1 < 30 ∧ p.2 < 30 := by
    intro p hp
    simp only [List.mem_map] at hp
    obtain ⟨q, hq, rfl⟩ := hp
    exact ⟨(hm1_lt q hq).2, (hm1_lt q hq).1⟩
  have hm2_disj : ∀ p ∈ (saveMoves fb regs).map (fun p => (p.2, p.1)),
      ∀ q ∈ (saveMoves fb regs).map (fun p => (p.2, p.1)), p.1 ≠ q.2 := by
    intro p hp q hq
    simp only [List.mem_map] at hp hq
    obtain ⟨p', hp', rfl⟩ := hp
    obtain ⟨q', hq', rfl⟩ := hq
    exact fun e => hm1_disj q' hq' p' hp' e.symm
  have hm2_nd : (((saveMoves fb regs).map (fun p => (p.2, p.1))).map (·.1)).Nodup := by
    rw [List.map_map]
    have : ((fun x : Nat × Nat => x.1) ∘ fun p : Nat × Nat => (p.2, p.1)) = (·.2) := rfl
    rw [this, saveMoves_snd]
    exact hnd.sublist (List.take_sublist _ _)
  obtain ⟨σ6, he6, hsp6, hheap6, hslots6, hpairs6, hother6⟩ :=
    exec_moveCodes c ((saveMoves fb regs).map (fun p => (p.2, p.1))) σ5 hm2_lt hm2_disj hm2_nd
  have hS6 : σ6.sp.toNat = S - 8 * pushedCount fb regs := by
    rw [hsp6]; show σ4.clobberCall.sp.toNat = _; rw [clobberCall_sp]; exact hS3
  -- Steps 7–8: the pops
  obtain ⟨σ8, he8, hS8, hheap8, hslots8, hit8, hother8⟩ :=
    pop_phase hm fb regs σ6 S hS6 hal hlo hhi hr30 hnd hlen
  refine ⟨σ8, ?_, ?_⟩
  · -- the execution
    rw [save_decompose, restore_decompose, List.append_assoc]
    rw [execCodesOut_pure c _ _ σ σ1 (by intro code hcode; simp only [moveCodes, List.mem_map] at hcode; obtain ⟨_, _, rfl⟩ := hcode; rfl) he1]
    rw [execCodesOut_pure c _ _ σ1 σ3 (by
      intro code hcode
      split at hcode
      · simp only [List.cons_append, List.nil_append, List.mem_cons, strCodes, List.mem_map] at hcode
        rcases hcode with rfl | ⟨_, _, rfl⟩ <;> rfl
      · simp at hcode) he3]
    rw [execCodesOut_pure c _ _ σ3 σ4 (by intro code hcode; simp at hcode; rcases hcode with rfl | rfl <;> rfl) he4]
    have hext : isExternal (if nl = true then "println_i64" else "print_i64") = true := by
      cases nl <;> decide
    have hnl : ((if nl = true then "println_i64" else "print_i64") == "println_i64") = nl := by
      cases nl <;> decide
    have hrest : execCodesOut c (.COMMENT "#restore caller-save registers" ::
        (moveCodes ((saveMoves fb regs).map (fun p => (p.2, p.1))) ++
          (if regs.length - backupUsed fb regs > 0 then
            ldrCodes (pushItems fb regs).reverse ++ [.ADDI .sp .sp (address (pushedCount fb regs))] else []))) σ5
        = .ok (σ8, []) := by
      rw [execCodesOut_COMMENT]
      rw [execCodesOut_pure c _ _ σ5 σ6 (by intro code hcode; simp only [moveCodes, List.mem_map] at hcode; obtain ⟨_, _, rfl⟩ := hcode; rfl) he6]
      have := execCodesOut_pure c _ [] σ6 σ8 (by
        intro code hcode
        split at hcode
        · simp only [List.mem_append, ldrCodes, List.mem_map, List.mem_cons, List.not_mem_nil, or_false] at hcode
          rcases hcode with ⟨_, _, rfl⟩ | rfl <;> rfl
        · simp at hcode) he8
      simp only [List.append_nil] at this
      rw [this]; rfl
    have := execCodesOut_BL c _ _ σ4 σ5 σ8 w [] hext hcall hrest
    rw [hnl] at this
    exact this
  · -- the post-condition
    have hsp_eq : σ8.sp = σ.sp := by
      apply BitVec.eq_of_toNat_eq; rw [hS8, hS]
    refine ⟨hsp_eq, ?_, ?_, ?_, ?_, ?_⟩
    · rw [hheap8, hheap6]; show σ4.clobberCall.heap = _; rw [clobberCall_heap]; show σ3.heap = _; rw [hheap3, hheap1]
    · intro a ha
      rw [hslots8, hslots6]
      show σ4.clobberCall.slot a = _
      rw [clobberCall_slot]
      have : σ4.sp.toNat ≤ a := by show σ3.sp.toNat ≤ a; rw [hS3]; omega
      simp only [this, if_true]
      show σ3.slot a = _
      rw [habove3 a ha, hslots1]
    · intro r hr
      have hr_cls := hregs r hr
      by_cases hmem : r ∈ regs.take (backupUsed fb regs)
      · -- saved in a backup register
        have : r ∈ (saveMoves fb regs).map (·.2) := by rw [saveMoves_snd]; exact hmem
        obtain ⟨p, hp, rfl⟩ := List.mem_map.mp this
        have hp' : (p.2, p.1) ∈ (saveMoves fb regs).map (fun p => (p.2, p.1)) := List.mem_map.mpr ⟨p, hp, rfl⟩
        have hnot : ∀ q ∈ pushItems fb regs, ar q.1 ≠ ar p.2 := by
          intro q hq e
          obtain ⟨_, _, _, hq1⟩ := mem_pushItems hq
          have := ar_inj (hr30 _ (hdrop _ hq1)) (hr30 _ hr) e
          rw [this] at hq1
          exact not_mem_take_drop hnd _ hmem hq1
        show σ8.reg (ar p.2) = _
        rw [hother8 _ hnot]
        have h6 := hpairs6 (p.2, p.1) hp'
        show σ6.lreg p.2 = _
        rw [h6]
        -- the backup register survives the call
        have htg := hm1_tgt p hp
        have hv : (ar p.1).val = p.1 + 1 := by rw [ar_val (hm1_lt p hp).1, archNumber_ge htg.1]
        show σ4.clobberCall.reg (ar p.1) = _
        rw [clobberCall_reg]
        have : ¬ ((ar p.1).val ≤ 18 ∨ (ar p.1).val = 30) := by omega
        simp only [this, if_false]
        have hne0 : (0 : Fin 31) ≠ ar p.1 := by intro e; have := congrArg Fin.val e; simp at this; omega
        show (σ3.setReg 0 (some w)).reg (ar p.1) = _
        rw [setReg_reg]; simp only [hne0, if_false]
        rw [hregs3]
        exact hpairs1 p hp
      · -- pushed onto the stack
        have hmem2 : r ∈ regs.drop (backupUsed fb regs) := by
          have := List.take_append_drop (backupUsed fb regs) regs
          have hr' : r ∈ regs.take (backupUsed fb regs) ++ regs.drop (backupUsed fb regs) := by rw [this]; exact hr
          rcases List.mem_append.mp hr' with h | h
          · exact absurd h hmem
          · exact h
        have : r ∈ (pushItems fb regs).map (·.1) := by rw [pushItems_fst]; exact hmem2
        obtain ⟨p, hp, rfl⟩ := List.mem_map.mp this
        show σ8.lreg p.1 = _
        rw [hit8 p hp, hslots6]
        obtain ⟨o, ho, hp2, _⟩ := mem_pushItems hp
        show σ4.clobberCall.slot _ = _
        rw [clobberCall_slot]
        have : σ4.sp.toNat ≤ (((S - 8 * pushedCount fb regs : Nat) : Int) + p.2).toNat := by
          show σ3.sp.toNat ≤ _
          rw [hS3, hp2, address_eq]; omega
        simp only [this, if_true]
        show σ3.slot _ = _
        rw [hit3 p hp]
        exact hkeep1 p.1 (hr30 _ hr) (by omega)
    · intro m hm19 hm29 hnt
      have hnot8 : ∀ q ∈ pushItems fb regs, ar q.1 ≠ m := by
        intro q hq e
        obtain ⟨_, _, _, hq1⟩ := mem_pushItems hq
        have hq30 := hr30 _ (hdrop _ hq1)
        have hcl := hregs _ (hdrop _ hq1)
        have hv := ar_val hq30
        rw [e] at hv
        rcases hcl with h | h
        · rw [archNumber_le h] at hv; omega
        · rw [h, archNumber_ge (by omega)] at hv; omega
      rw [hother8 m hnot8]
      have hnot6 : ∀ q ∈ (saveMoves fb regs).map (fun p => (p.2, p.1)), ar q.1 ≠ m := by
        intro q hq e
        simp only [List.mem_map] at hq
        obtain ⟨q', hq', rfl⟩ := hq
        obtain ⟨_, _, h3⟩ := mem_saveMoves hq'
        have hq30 := hr30 _ (htake _ h3)
        have hcl := hregs _ (htake _ h3)
        have hv := ar_val hq30
        simp only at e
        rw [e] at hv
        rcases hcl with h | h
        · rw [archNumber_le h] at hv; omega
        · rw [h, archNumber_ge (by omega)] at hv; omega
      rw [hother6 m hnot6]
      show σ4.clobberCall.reg m = _
      rw [clobberCall_reg]
      have : ¬ (m.val ≤ 18 ∨ m.val = 30) := by omega
      simp only [this, if_false]
      have hne0 : (0 : Fin 31) ≠ m := by intro e; rw [← e] at hm19; simp at hm19
      show (σ3.setReg 0 (some w)).reg m = _
      rw [setReg_reg]; simp only [hne0, if_false]
      rw [hregs3, hother1 m hnt]
    · intro m hm18 hnr
      have hnot8 : ∀ q ∈ pushItems fb regs, ar q.1 ≠ m := by
        intro q hq
        obtain ⟨_, _, _, hq1⟩ := mem_pushItems hq
        exact hnr _ (hdrop _ hq1)
      rw [hother8 m hnot8]
      have hnot6 : ∀ q ∈ (saveMoves fb regs).map (fun p => (p.2, p.1)), ar q.1 ≠ m := by
        intro q hq
        simp only [List.mem_map] at hq
        obtain ⟨q', hq', rfl⟩ := hq
        obtain ⟨_, _, h3⟩ := mem_saveMoves hq'
        exact hnr _ (htake _ h3)
      rw [hother6 m hnot6]
      show σ4.clobberCall.reg m = _
      rw [clobberCall_reg]
      simp [hm18]


/-! ## the register list computed from the context -/

open Scc.AxCut

theorem CSF_eq : CALLER_SAVE_FIRST = 4 := rfl
theorem CSL_eq : CALLER_SAVE_LAST = 17 := rfl

theorem go_spec : ∀ (ctx : Ctx) (off : Nat),
    (∀ r ∈ callerSaveRegistersInfoG.go ctx off, 4 + 2 * off ≤ r ∧ r ≤ 3 + 2 * (off + ctx.length)) ∧
    (callerSaveRegistersInfoG.go ctx off).Pairwise (· < ·) ∧
    (∀ i (b : Binding), ctx[i]? = some b → (5 + 2 * (off + i)) ∈ callerSaveRegistersInfoG.go ctx off ∧
      (b.chi ≠ .ext → (4 + 2 * (off + i)) ∈ callerSaveRegistersInfoG.go ctx off)) := by
  intro ctx
  induction ctx with
  | nil =>
    intro off
    refine ⟨by intro r hr; simp [callerSaveRegistersInfoG.go] at hr, by simp [callerSaveRegistersInfoG.go], ?_⟩
    intro i b h; simp at h
  | cons b rest ih =>
    intro off
    obtain ⟨ih1, ih2, ih3⟩ := ih (off + 1)
    refine ⟨?_, ?_, ?_⟩
    · intro r hr
      simp only [callerSaveRegistersInfoG.go, CSF_eq, List.mem_append] at hr
      rcases hr with hr | hr
      · split at hr <;> simp at hr <;> simp only [List.length_cons] <;> omega
      · have := ih1 r hr
        simp only [List.length_cons]; omega
    · simp only [callerSaveRegistersInfoG.go, CSF_eq]
      rw [List.pairwise_append]
      refine ⟨?_, ih2, ?_⟩
      · split <;> simp
      · intro x hx y hy
        have := ih1 y hy
        split at hx <;> simp at hx <;> omega
    · intro i b' h
      cases i with
      | zero =>
        simp only [List.getElem?_cons_zero, Option.some.injEq] at h
        subst h
        simp only [callerSaveRegistersInfoG.go, CSF_eq, List.mem_append]
        constructor
        · left; split
          · simp; omega
          · simp; omega
        · intro hne; left
          have : (b.chi == Chi.ext) = false := by
            cases hb : b.chi <;> first | rfl | (exfalso; exact hne hb)
          simp [this]
      | succ i =>
        simp only [List.getElem?_cons_succ] at h
        obtain ⟨h1, h2⟩ := ih3 i b' h
        simp only [callerSaveRegistersInfoG.go, List.mem_append]
        have e1 : 5 + 2 * (off + (i + 1)) = 5 + 2 * (off + 1 + i) := by omega
        have e2 : 4 + 2 * (off + (i + 1)) = 4 + 2 * (off + 1 + i) := by omega
        rw [e1, e2]
        exact ⟨Or.inr h1, fun hne => Or.inr (h2 hne)⟩



open Scc.AxCut

theorem go_length : ∀ (ctx : Ctx) (off : Nat), (callerSaveRegistersInfoG.go ctx off).length ≤ 2 * ctx.length
  | [], _ => by simp [callerSaveRegistersInfoG.go]
  | b :: rest, off => by
    have := go_length rest (off + 1)
    simp only [callerSaveRegistersInfoG.go, List.length_append, List.length_cons]
    split <;> simp <;> omega

/-- the facts about `caller_save_registers_info` that `save_call_restore` needs, for every context -/
structure InfoProps (lrStrict : Bool) (ctx : Ctx) (fb : Nat) (regs : List Nat) : Prop where
  fb_eq : fb = max (2 * ctx.length + 4) 18
  cls : ∀ r ∈ regs, r ≤ 17 ∨ r = 29
  nodup : regs.Nodup
  len : regs.length ≤ 17
  heap : 0 ∈ regs
  free : 1 ∈ regs
  lr : (if lrStrict then 14 ≤ ctx.length else 13 ≤ ctx.length) → 29 ∈ regs
  vars : ∀ i (b : Binding), i < 7 → ctx[i]? = some b → (5 + 2 * i) ∈ regs ∧ (b.chi ≠ .ext → (4 + 2 * i) ∈ regs)

/-- the optional entry for the link register -/
def lrList (lrStrict : Bool) (n : Nat) : List Nat :=
  if (if lrStrict then decide (2 * n + 4 > 30) else decide (2 * n + 4 ≥ 30)) then [29] else []

theorem info_eq (lrStrict : Bool) (ctx : Ctx) :
    callerSaveRegistersInfoG lrStrict ctx =
      (max (2 * ctx.length + 4) 18, [0, 1] ++ lrList lrStrict ctx.length ++ callerSaveRegistersInfoG.go (ctx.take 7) 0) := rfl

theorem lrList_props (lrStrict : Bool) (n : Nat) :
    (∀ r ∈ lrList lrStrict n, r = 29) ∧ (lrList lrStrict n).Nodup ∧ (lrList lrStrict n).length ≤ 1 ∧
    ((if lrStrict then 14 ≤ n else 13 ≤ n) → 29 ∈ lrList lrStrict n) := by
  unfold lrList
  cases lrStrict <;> simp <;> split <;> simp <;> omega

theorem info_props (lrStrict : Bool) (ctx : Ctx) :
    InfoProps lrStrict ctx (callerSaveRegistersInfoG lrStrict ctx).1 (callerSaveRegistersInfoG lrStrict ctx).2 := by
  obtain ⟨g1, g2, g3⟩ := go_spec (ctx.take 7) 0
  have glen := go_length (ctx.take 7) 0
  have htl : (ctx.take 7).length ≤ 7 := by simp; omega
  obtain ⟨l1, l2, l3, l4⟩ := lrList_props lrStrict ctx.length
  rw [info_eq]
  generalize lrList lrStrict ctx.length = L at l1 l2 l3 l4
  generalize callerSaveRegistersInfoG.go (ctx.take 7) 0 = G at g1 g2 g3 glen
  refine ⟨rfl, ?_, ?_, ?_, by simp, by simp, ?_, ?_⟩
  · intro r hr
    simp only [List.mem_append, List.mem_cons, List.not_mem_nil, or_false] at hr
    rcases hr with (hr | hr) | hr
    · left; omega
    · right; exact l1 r hr
    · left; have := g1 r hr; omega
  · rw [List.nodup_append]
    refine ⟨?_, g2.imp (fun h => Nat.ne_of_lt h), ?_⟩
    · rw [List.nodup_append]
      refine ⟨by decide, l2, ?_⟩
      intro a ha b hb
      have := l1 b hb
      simp at ha; omega
    · intro a ha b hb
      have := g1 b hb
      simp only [List.mem_append, List.mem_cons, List.not_mem_nil, or_false] at ha
      rcases ha with ha | ha
      · omega
      · have := l1 a ha; omega
  · simp only [List.length_append, List.length_cons, List.length_nil]
    omega
  · intro h
    simp only [List.mem_append]
    exact Or.inl (Or.inr (l4 h))
  · intro i b hi hb
    have hb' : (ctx.take 7)[i]? = some b := by rw [List.getElem?_take]; simp [hi, hb]
    obtain ⟨h1, h2⟩ := g3 i b hb'
    simp only [List.mem_append]
    refine ⟨Or.inr (by simpa using h1), fun hne => Or.inr (by simpa using h2 hne)⟩



/-! ## print_i64 -/

open Scc.AxCut

/-- the registers that hold something the continuation of a `print` may use: HEAP, FREE and, for the
variable at position `i`, its second temporary and (unless the variable is an integer) its first -/
def LiveReg (ctx : Ctx) (r : Nat) : Prop :=
  r = 0 ∨ r = 1 ∨ ∃ i b, ctx[i]? = some b ∧ (r = 2 * i + 5 ∨ (r = 2 * i + 4 ∧ b.chi ≠ .ext))

theorem pushedCount_le (fb : Nat) (regs : List Nat) (h : regs.length ≤ 17) : pushedCount fb regs ≤ 18 := by
  obtain ⟨_, h2, _⟩ := roundEven_props (regs.length - backupUsed fb regs)
  unfold pushedCount; omega

/-- `print_i64` with the argument in a REGISTER, execution part: for EVERY context the call is made
with the argument and `CallPost` holds for the registers that `caller_save_registers_info` lists. -/
theorem print_register_exec {c : MemCfg} (hm : MemOk c) (lrStrict : Bool) (ctx : Ctx)
    (nl : Bool) (rs : Nat) (hrs : rs < 30) (hrs2 : rs < 2 * ctx.length + 4)
    (σ : State) (S : Nat) (w : Word) (hS : σ.sp.toNat = S) (hal : S % 16 = 0) (hlo : c.stackLow + 144 ≤ S)
    (hhi : S ≤ c.stackTop) (hw : σ.lreg rs = some w) :
    ∃ σ', execCodesOut c (printI64G lrStrict nl (.register (.x rs)) ctx) σ = .ok (σ', [(nl, w)]) ∧
      CallPost σ σ' S (callerSaveRegistersInfoG lrStrict ctx).1 (callerSaveRegistersInfoG lrStrict ctx).2 := by
  have hip := info_props lrStrict ctx
  generalize hfb : (callerSaveRegistersInfoG lrStrict ctx).1 = fb at hip
  generalize hregs : (callerSaveRegistersInfoG lrStrict ctx).2 = regs at hip
  have hpc := pushedCount_le fb regs hip.len
  obtain ⟨σ', he, hpost⟩ := save_call_restore hm fb regs rs nl σ S w hS hal (by omega) hhi hip.cls hip.nodup
    (by rw [hip.fb_eq]; omega) (by have := hip.len; omega) (by rw [hip.fb_eq]; omega) hrs hw
  refine ⟨σ', ?_, hpost⟩
  have : printI64G lrStrict nl (.register (.x rs)) ctx =
      .COMMENT "#save caller-save registers" :: (saveCallerSaveRegisters fb regs ++
        ([.COMMENT "#move argument into place", .MOVR (.x 0) (.x rs)] ++
          (.BL (if nl then "println_i64" else "print_i64") ::
            (.COMMENT "#restore caller-save registers" :: restoreCallerSaveRegisters fb regs)))) := by
    simp only [printI64G, ← hfb, ← hregs]
    simp
  rw [this, execCodesOut_COMMENT]
  exact he

/-- `print_i64` with the argument in a REGISTER: the call is made with the argument, and everything
live survives — for every context, provided the link-register entry is there when needed. -/
theorem print_register {c : MemCfg} (hm : MemOk c) (lrStrict : Bool) (ctx : Ctx)
    (hlr : lrStrict = true → ctx.length ≠ 13) (nl : Bool) (rs : Nat) (hrs : rs < 30) (hrs2 : rs < 2 * ctx.length + 4)
    (σ : State) (S : Nat) (w : Word) (hS : σ.sp.toNat = S) (hal : S % 16 = 0) (hlo : c.stackLow + 144 ≤ S)
    (hhi : S ≤ c.stackTop) (hw : σ.lreg rs = some w) :
    ∃ σ', execCodesOut c (printI64G lrStrict nl (.register (.x rs)) ctx) σ = .ok (σ', [(nl, w)]) ∧
      σ'.sp = σ.sp ∧ σ'.heap = σ.heap ∧ (∀ a, S ≤ a → σ'.slot a = σ.slot a) ∧
      (∀ r, r < 30 → LiveReg ctx r → σ'.lreg r = σ.lreg r) := by
  obtain ⟨σ', he, hpost⟩ := print_register_exec hm lrStrict ctx nl rs hrs hrs2 σ S w hS hal hlo hhi hw
  have hip := info_props lrStrict ctx
  generalize (callerSaveRegistersInfoG lrStrict ctx).1 = fb at hip hpost
  generalize (callerSaveRegistersInfoG lrStrict ctx).2 = regs at hip hpost
  refine ⟨σ', he, hpost.sp, hpost.heap, hpost.above, ?_⟩
  intro r hr30 hlive
  rcases hlive with rfl | rfl | ⟨i, b, hb, hr⟩
  · exact hpost.saved 0 hip.heap
  · exact hpost.saved 1 hip.free
  · have hi : i < ctx.length := by
      rcases Nat.lt_or_ge i ctx.length with h | h
      · exact h
      · rw [List.getElem?_eq_none h] at hb; cases hb
    by_cases hi7 : i < 7
    · obtain ⟨h1, h2⟩ := hip.vars i b hi7 hb
      rcases hr with rfl | ⟨rfl, hne⟩
      · exact hpost.saved _ (by rw [Nat.add_comm]; exact h1)
      · exact hpost.saved _ (by rw [Nat.add_comm]; exact h2 hne)
    · have hr18 : 18 ≤ r := by rcases hr with rfl | ⟨rfl, _⟩ <;> omega
      by_cases hr29 : r = 29
      · -- the link register
        have hn13 : 13 ≤ ctx.length := by rcases hr with rfl | ⟨rfl, _⟩ <;> omega
        have : 29 ∈ regs := by
          apply hip.lr
          cases lrStrict with
          | false => simpa using hn13
          | true => have := hlr rfl; simp; omega
        rw [hr29]; exact hpost.saved 29 this
      · -- a callee-saved register that is no backup register
        have hv : (ar r).val = r + 1 := by rw [ar_val hr30, archNumber_ge hr18]
        apply hpost.calleeSaved (ar r) (by omega) (by omega)
        intro p hp e
        obtain ⟨h1, h2, _⟩ := mem_saveMoves hp
        have hu2 := backupUsed_le' fb regs
        have := ar_inj (by omega) hr30 e
        rw [hip.fb_eq] at h1
        rcases hr with rfl | ⟨rfl, _⟩ <;> omega


open Scc.AxCut

theorem liveReg_ne_temp {ctx : Ctx} {r : Nat} (h : LiveReg ctx r) : r ≠ 2 := by
  rcases h with rfl | rfl | ⟨i, b, _, hr⟩
  · omega
  · omega
  · rcases hr with rfl | ⟨rfl, _⟩ <;> omega

/-- `print_i64` with the argument in a SPILL slot -/
theorem print_spill {c : MemCfg} (hm : MemOk c) (lrStrict : Bool) (ctx : Ctx)
    (hlr : lrStrict = true → ctx.length ≠ 13) (nl : Bool) (p : Nat) (hp : p < SPILL_NUM)
    (σ : State) (S : Nat) (w : Word) (hS : σ.sp.toNat = S) (hal : S % 16 = 0) (hlo : c.stackLow + 144 ≤ S)
    (hhi : S + SPILL_SPACE ≤ c.stackTop) (hw : σ.tempVal (.spill p) = some w) :
    ∃ σ', execCodesOut c (printI64G lrStrict nl (.spill p) ctx) σ = .ok (σ', [(nl, w)]) ∧
      σ'.sp = σ.sp ∧ σ'.heap = σ.heap ∧ (∀ a, S ≤ a → σ'.slot a = σ.slot a) ∧
      (∀ r, r < 30 → LiveReg ctx r → σ'.lreg r = σ.lreg r) := by
  have hspok : SpOkS c 144 σ := ⟨by rw [hS]; exact hal, by rw [hS]; omega, by rw [hS]; exact hhi, hm.disjoint, hm.top⟩
  have hT : xreg 2 = some xT := xreg_TEMP
  rw [SPILL_SPACE_eq] at hhi
  let σ0 := σ.setReg xT (some w)
  have hw0 : σ0.lreg 2 = some w := by
    show (σ.setReg xT (some w)).reg (ar 2) = some w
    have : ar 2 = xT := by decide
    rw [this]; simp
  obtain ⟨σ', he, hsp, hheap, habove, hlive⟩ :=
    print_register hm lrStrict ctx hlr nl 2 (by omega) (by omega) σ0 S w hS hal hlo (by omega) hw0
  refine ⟨σ', ?_, hsp, hheap, habove, ?_⟩
  · have hdec : printI64G lrStrict nl (.spill p) ctx =
        [.COMMENT "#move argument to TEMP before adapting the stack pointer", .LDR TEMP .sp (stackOffset p)] ++
          printI64G lrStrict nl (.register (.x 2)) ctx := by
      simp [printI64G, moveToRegister, TEMP]
    have hpre : execCodes c [.COMMENT "#move argument to TEMP before adapting the stack pointer",
        .LDR TEMP .sp (stackOffset p)] σ = .ok σ0 := by
      have hw' : σ.slot (σ.slotAddr p) = some w := hw
      simp [execCodes, execCode_COMMENT, TEMP, execCode_LDR_sp hT, exec_ldr_slot c 144, hspok, hp, hw', σ0]
    rw [hdec, execCodesOut_pure c _ _ σ σ0 (by intro code hc; simp at hc; rcases hc with rfl | rfl <;> rfl) hpre]
    exact he
  · intro r hr hl
    rw [hlive r hr hl]
    have hne : xT ≠ ar r := by
      intro e
      have : ar 2 = ar r := by rw [← e]; decide
      exact liveReg_ne_temp hl (ar_inj (by omega) hr this).symm
    show (σ.setReg xT (some w)).reg (ar r) = σ.reg (ar r)
    simp [hne]


end Scc.A64
