/-
  Scc.A64.LoadImm — proof file: correctness of the literal synthesis of code.rs `load_immediate`
  (MOVZ / MOVN for the first non-ignored halfword, MOVK for the others) for EVERY 64-bit literal.
  Depends on Halfword.lean (no `bv_decide`).
-/
import Scc.A64.Lemmas
import Scc.A64.Halfword

namespace Scc.A64

theorem okImm16_toNat (h : BitVec 16) : okImm16 (h.toNat : Int) = true := by
  have := h.isLt
  simp [okImm16]; omega

theorem okShift_idx {j : Nat} (hj : j < 4) : okShift ((j : Int) * 16) = true := by
  obtain rfl | rfl | rfl | rfl := lt4_cases hj <;> decide

theorem shift_toNat (j : Nat) : ((j : Int) * 16).toNat = 16 * j := by omega

/-- invariant of the halfword loop after the first move: the halfwords still to be visited hold
the ignored pattern, the others those of `w` -/
def HwInv (cur w : BitVec 64) (ign : BitVec 16) (is : List Nat) : Prop :=
  ∀ k, k < 4 → halfword cur k = if k ∈ is then ign else halfword w k

theorem movkW_eq (old : Word) (h : BitVec 16) (j : Nat) :
    movkW old (h.toNat : Int) ((j : Int) * 16) =
      (old &&& ~~~ ((0xFFFF : BitVec 64) <<< (16 * j))) ||| ((h.setWidth 64 : BitVec 64) <<< (16 * j)) := by
  simp [movkW, imm_toNat16, shift_toNat]

theorem loop_done {c : MemCfg} {r : Nat} {n : Fin 31} (hr : xreg r = some n) (w : BitVec 64)
    (invert : Bool) (ign : BitVec 16) :
    ∀ (is : List Nat), is.Nodup → (∀ i ∈ is, i < 4) → ∀ (σ : State) (cur : Word),
      σ.regs[n] = some cur → HwInv cur w ign is →
      ∃ cur', execCodes c (loadImmediateLoop (.x r) w invert ign is true) σ = .ok (σ.wrX n cur') ∧
        HwInv cur' w ign [] := by
  intro is
  induction is with
  | nil =>
    intro _ _ σ cur hc hinv
    exact ⟨cur, by simp [loadImmediateLoop, wrX_same σ n cur hc], hinv⟩
  | cons i is ih =>
    intro hnd hlt σ cur hc hinv
    have hi : i < 4 := hlt i (by simp)
    have hnd' : is.Nodup := (List.nodup_cons.mp hnd).2
    have hni : i ∉ is := (List.nodup_cons.mp hnd).1
    have hlt' : ∀ k ∈ is, k < 4 := fun k hk => hlt k (by simp [hk])
    unfold loadImmediateLoop
    by_cases hh : halfword w i = ign
    · -- skipped
      have hinv' : HwInv cur w ign is := by
        intro k hk
        have := hinv k hk
        by_cases hki : k = i
        · subst hki; simp [hni, hh] at this ⊢; exact this
        · simpa [hki] using this
      simpa [hh] using ih hnd' hlt' σ cur hc hinv'
    · -- MOVK
      have hstep := exec_MOVK (c := c) hr ((halfword w i).toNat : Int) ((i : Int) * 16)
        (okImm16_toNat _) (okShift_idx hi) σ cur hc
      have hinv' : HwInv (movkW cur ((halfword w i).toNat : Int) ((i : Int) * 16)) w ign is := by
        intro k hk
        rw [movkW_eq, halfword_movk _ _ _ _ hi hk]
        by_cases hki : k = i
        · subst hki; simp [hni]
        · have := hinv k hk; simpa [hki] using this
      obtain ⟨cur', he, hfin⟩ := ih hnd' hlt' (σ.wrX n (movkW cur ((halfword w i).toNat : Int) ((i : Int) * 16))) _ (by simp) hinv'
      refine ⟨cur', ?_, hfin⟩
      simp only [bne_iff_ne, ne_eq, hh, not_false_eq_true, ↓reduceIte]
      rw [execCodes_cons c _ _ _ _ hstep, he, wrX_wrX]

end Scc.A64

namespace Scc.A64

theorem loop_start {c : MemCfg} {r : Nat} {n : Fin 31} (hr : xreg r = some n) (w : BitVec 64)
    (invert : Bool) (ign : BitVec 16) (hign : ign = if invert then 0xFFFF else 0) :
    ∀ (is : List Nat), is.Nodup → (∀ i ∈ is, i < 4) → ∀ (σ : State),
      (∀ k, k < 4 → k ∉ is → halfword w k = ign) →
      (execCodes c (loadImmediateLoop (.x r) w invert ign is false) σ = .ok σ ∧ ∀ k, k < 4 → halfword w k = ign) ∨
      ∃ cur', execCodes c (loadImmediateLoop (.x r) w invert ign is false) σ = .ok (σ.wrX n cur') ∧
        HwInv cur' w ign [] := by
  intro is
  induction is with
  | nil =>
    intro _ _ σ hproc
    left
    exact ⟨by simp [loadImmediateLoop], fun k hk => hproc k hk (by simp)⟩
  | cons i is ih =>
    intro hnd hlt σ hproc
    have hi : i < 4 := hlt i (by simp)
    have hnd' : is.Nodup := (List.nodup_cons.mp hnd).2
    have hni : i ∉ is := (List.nodup_cons.mp hnd).1
    have hlt' : ∀ k ∈ is, k < 4 := fun k hk => hlt k (by simp [hk])
    unfold loadImmediateLoop
    by_cases hh : halfword w i = ign
    · have hproc' : ∀ k, k < 4 → k ∉ is → halfword w k = ign := by
        intro k hk hkis
        by_cases hki : k = i
        · subst hki; exact hh
        · exact hproc k hk (by simp [hki, hkis])
      simpa [hh] using ih hnd' hlt' σ hproc'
    · right
      simp only [bne_iff_ne, ne_eq, hh, not_false_eq_true, ↓reduceIte, Bool.false_eq_true]
      cases invert with
      | true =>
        simp only [↓reduceIte] at hign ⊢
        have hstep := exec_MOVN (c := c) hr ((~~~ halfword w i).toNat : Int) ((i : Int) * 16)
          (okImm16_toNat _) (okShift_idx hi) σ
        rw [imm_toNat16, shift_toNat] at hstep
        have hinv' : HwInv (~~~ (((~~~ halfword w i).setWidth 64 : BitVec 64) <<< (16 * i))) w ign is := by
          intro k hk
          rw [halfword_movn _ _ _ hi hk]
          by_cases hki : k = i
          · subst hki; simp [hni]
          · by_cases hkis : k ∈ is
            · simp [hki, hkis, hign]
            · simp [hki, hkis, hproc k hk (by simp [hki, hkis]), hign]
        obtain ⟨cur', he, hfin⟩ := loop_done (c := c) hr w true ign is hnd' hlt'
          (σ.wrX n (~~~ (((~~~ halfword w i).setWidth 64 : BitVec 64) <<< (16 * i)))) _ (by simp) hinv'
        refine ⟨cur', ?_, hfin⟩
        rw [execCodes_cons c _ _ _ _ hstep, he, wrX_wrX]
      | false =>
        simp only [Bool.false_eq_true, ↓reduceIte] at hign ⊢
        have hstep := exec_MOVZ (c := c) hr ((halfword w i).toNat : Int) ((i : Int) * 16)
          (okImm16_toNat _) (okShift_idx hi) σ
        rw [imm_toNat16, shift_toNat] at hstep
        have hinv' : HwInv ((((halfword w i).setWidth 64 : BitVec 64) <<< (16 * i))) w ign is := by
          intro k hk
          rw [halfword_movz _ _ _ hi hk]
          by_cases hki : k = i
          · subst hki; simp [hni]
          · by_cases hkis : k ∈ is
            · simp [hki, hkis, hign]
            · simp [hki, hkis, hproc k hk (by simp [hki, hkis]), hign]
        obtain ⟨cur', he, hfin⟩ := loop_done (c := c) hr w false ign is hnd' hlt'
          (σ.wrX n ((((halfword w i).setWidth 64 : BitVec 64) <<< (16 * i)))) _ (by simp) hinv'
        refine ⟨cur', ?_, hfin⟩
        rw [execCodes_cons c _ _ _ _ hstep, he, wrX_wrX]

theorem halfword_zero (k : Nat) : halfword 0 k = 0 := by
  simp [halfword]

theorem halfword_allOnes (k : Nat) (hk : k < 4) : halfword (BitVec.allOnes 64) k = 0xFFFF := by
  obtain rfl | rfl | rfl | rfl := lt4_cases hk <;> decide

/-- `load_immediate` into a register loads exactly the 64-bit pattern of the literal. -/
theorem loadImmediateRegister_correct (c : MemCfg) (r : Nat) (n : Fin 31) (hr : xreg r = some n)
    (v : BitVec 64) (σ : State) :
    execCodes c (loadImmediateRegister (.x r) v.toInt) σ = .ok (σ.wrX n v) := by
  unfold loadImmediateRegister
  have hb : immBits v.toInt = v := by simp [immBits]
  simp only [hb]
  by_cases h0 : v = 0
  · subst h0
    have := exec_MOVZ (c := c) hr 0 0 (by decide) (by decide) σ
    simp [execCodes, this, imm]
  · by_cases h1 : v = BitVec.allOnes 64
    · subst h1
      have := exec_MOVN (c := c) hr 0 0 (by decide) (by decide) σ
      simp [execCodes, this, imm]
    · simp only [beq_iff_eq, h0, ↓reduceIte, h1]
      have hfin : ∀ cur', HwInv cur' v (if decide (numberUnsetHalfwords v < numberUnsetHalfwords (~~~ v)) = true then (0xFFFF : BitVec 16) else 0) [] → cur' = v := by
        intro cur' hinv
        apply eq_of_halfwords <;> simpa using hinv _ (by decide)
      rcases loop_start (c := c) hr v (decide (numberUnsetHalfwords v < numberUnsetHalfwords (~~~ v))) _ rfl
          [0, 1, 2, 3] (by decide) (by decide) σ (by intro k hk hn; simp at hn; omega) with ⟨_, hall⟩ | ⟨cur', he, hinv⟩
      · exfalso
        split at hall
        · apply h1
          apply eq_of_halfwords <;> rw [halfword_allOnes _ (by decide)] <;> exact hall _ (by decide)
        · apply h0
          apply eq_of_halfwords <;> rw [halfword_zero] <;> exact hall _ (by decide)
      · rw [he, hfin cur' hinv]

end Scc.A64
