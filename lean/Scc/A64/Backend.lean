/-
  Scc.A64.Backend — the AArch64 backend crate /repo/lang/axcut2aarch64 as an instance of the
  backend record: src/config.rs (impl Config), utils.rs (impl Utils), code.rs (impl Instructions
  with its helper functions), memory.rs (impl Memory, complete), parallel_moves.rs
  (impl ParallelMoves), into_routine.rs.  `runLineCodegen` produces the texts that the harness
  prints as `S6a` / `S7a`.   Core imports only; executable.

  Conventions (as in Interface.lean): a Rust function pushing onto `instructions` returns the list
  of pushed codes; functions that draw fresh labels or can panic live in `GenM`; immediates are
  `Int`; all constants come from Consts.lean.
-/
import Scc.Backend.Generic
import Scc.A64.Instr

namespace Scc.A64

open Scc.AxCut
open Scc.Backend (GenM freshLabel TempNum Root)

/-! ## config.rs -/

def TEMP : Register := .x consts.temp
def TEMP2 : Register := .x consts.temp2
def HEAP : Register := .x consts.heap
def FREE : Register := .x consts.free
def RETURN1 : Register := .x consts.return1
def RETURN2 : Register := .x consts.return2
def SPILL_TEMP : Nat := consts.spillTemp
def TEMPORARY_TEMP : Register := .x consts.temporaryTemp
/-- config.rs: REFERENCE_COUNT_OFFSET = address(0) -/
def REFERENCE_COUNT_OFFSET : Int := address 0
/-- config.rs: NEXT_ELEMENT_OFFSET = address(0) -/
def NEXT_ELEMENT_OFFSET : Int := address 0

/-- config.rs: Config::jump_length -/
def jumpLength (n : Nat) : Int := (consts.jumpLengthFactor : Int) * (n : Int)

/-! ## utils.rs -/

/-- utils.rs: fn temporary_from_position -/
def temporaryFromPosition (position : Nat) : GenM Temporary :=
  let registerNumber := position + RESERVED
  if registerNumber < REGISTER_NUM then pure (.register (.x registerNumber))
  else
    let spillNumber := registerNumber - REGISTER_NUM + RESERVED_SPILLS
    if spillNumber < SPILL_NUM then pure (.spill spillNumber)
    else throw "Out of temporaries"

/-- utils.rs: variable_temporary::get_position -/
def getPosition (context : Ctx) (variableId : Nat) : Option Nat :=
  let rec go : Ctx → Nat → Option Nat
    | [], _ => none
    | b :: bs, i => if b.var.id == variableId then some i else go bs (i + 1)
  go context 0

/-- utils.rs: Utils::variable_temporary -/
def variableTemporary (number : TempNum) (context : Ctx) (variableId : Nat) : GenM Temporary :=
  match getPosition context variableId with
  | some pos => temporaryFromPosition (2 * pos + number.toNat)
  | none => throw ("Variable " ++ toString variableId ++ " not found in context")

/-- utils.rs: Utils::fresh_temporary -/
def freshTemporary (number : TempNum) (context : Ctx) : GenM Temporary :=
  temporaryFromPosition (2 * context.length + number.toNat)

/-! ## code.rs: helper functions -/

/-- code.rs: fn move_from_register -/
def moveFromRegister (temporary : Temporary) (register : Register) : List Code :=
  match temporary with
  | .register targetRegister => [.MOVR targetRegister register]
  | .spill targetPosition => [.STR register .sp (stackOffset targetPosition)]

/-- code.rs: fn move_to_register -/
def moveToRegister (register : Register) (temporary : Temporary) : List Code :=
  match temporary with
  | .register sourceRegister => [.MOVR register sourceRegister]
  | .spill sourcePosition => [.LDR register .sp (stackOffset sourcePosition)]

/-- code.rs: fn rem -/
def remR (target source1 source2 : Register) : List Code :=
  if source2 = TEMP2 then
    if target = TEMP then
      [ .COMMENT "#evacuate one register as additional scratch register",
        .STR TEMPORARY_TEMP .sp (stackOffset SPILL_TEMP),
        .MOVR TEMPORARY_TEMP source2,
        .SDIV TEMP2 source1 TEMPORARY_TEMP,
        .MSUB target TEMP2 TEMPORARY_TEMP source1,
        .COMMENT "#restore evacuated register",
        .LDR TEMPORARY_TEMP .sp (stackOffset SPILL_TEMP) ]
    else
      [ .SDIV target source1 source2,
        .MSUB target target source2 source1 ]
  else
    [ .SDIV TEMP2 source1 source2,
      .MSUB target TEMP2 source2 source1 ]

/-- code.rs: fn add / sub / mul / div / rem on registers, selected by the operator -/
def opR : BinOp → Register → Register → Register → List Code
  | .sum, t, a, b => [.ADD t a b]
  | .sub, t, a, b => [.SUB t a b]
  | .prod, t, a, b => [.MUL t a b]
  | .div, t, a, b => [.SDIV t a b]
  | .rem, t, a, b => remR t a b

/-- code.rs: fn op, BEFORE repo commit 8e009b7: in the mixed cases the spilled operand is always
loaded into TEMP — wrong when the register operand is TEMP itself (switch.rs: `add(temp, temp, tag)`).
Kept for the defect witness `C07_a64_switch_spill_witness`. -/
def opOld (o : BinOp) (targetTemporary sourceTemporary1 sourceTemporary2 : Temporary) : List Code :=
  match targetTemporary with
  | .register targetRegister =>
    match sourceTemporary1, sourceTemporary2 with
    | .register r1, .register r2 => opR o targetRegister r1 r2
    | .register r1, .spill p2 =>
      .LDR TEMP .sp (stackOffset p2) :: opR o targetRegister r1 TEMP
    | .spill p1, .register r2 =>
      .LDR TEMP .sp (stackOffset p1) :: opR o targetRegister TEMP r2
    | .spill p1, .spill p2 =>
      .LDR TEMP .sp (stackOffset p1) :: .LDR TEMP2 .sp (stackOffset p2) :: opR o targetRegister TEMP TEMP2
  | .spill targetPosition =>
    (match sourceTemporary1, sourceTemporary2 with
     | .register r1, .register r2 => opR o TEMP r1 r2
     | .register r1, .spill p2 => .LDR TEMP .sp (stackOffset p2) :: opR o TEMP r1 TEMP
     | .spill p1, .register r2 => .LDR TEMP .sp (stackOffset p1) :: opR o TEMP TEMP r2
     | .spill p1, .spill p2 =>
       .LDR TEMP .sp (stackOffset p1) :: .LDR TEMP2 .sp (stackOffset p2) :: opR o TEMP TEMP TEMP2)
    ++ [.STR TEMP .sp (stackOffset targetPosition)]

/-- code.rs: fn op (the mixed cases: `let scratch = if <register operand> == TEMP { TEMP2 } else { TEMP }`) -/
def op (o : BinOp) (targetTemporary sourceTemporary1 sourceTemporary2 : Temporary) : List Code :=
  match targetTemporary with
  | .register targetRegister =>
    match sourceTemporary1, sourceTemporary2 with
    | .register r1, .register r2 => opR o targetRegister r1 r2
    | .register r1, .spill p2 =>
      let scratch := if r1 = TEMP then TEMP2 else TEMP
      .LDR scratch .sp (stackOffset p2) :: opR o targetRegister r1 scratch
    | .spill p1, .register r2 =>
      let scratch := if r2 = TEMP then TEMP2 else TEMP
      .LDR scratch .sp (stackOffset p1) :: opR o targetRegister scratch r2
    | .spill p1, .spill p2 =>
      .LDR TEMP .sp (stackOffset p1) :: .LDR TEMP2 .sp (stackOffset p2) :: opR o targetRegister TEMP TEMP2
  | .spill targetPosition =>
    (match sourceTemporary1, sourceTemporary2 with
     | .register r1, .register r2 => opR o TEMP r1 r2
     | .register r1, .spill p2 =>
       let scratch := if r1 = TEMP then TEMP2 else TEMP
       .LDR scratch .sp (stackOffset p2) :: opR o TEMP r1 scratch
     | .spill p1, .register r2 =>
       let scratch := if r2 = TEMP then TEMP2 else TEMP
       .LDR scratch .sp (stackOffset p1) :: opR o TEMP scratch r2
     | .spill p1, .spill p2 =>
       .LDR TEMP .sp (stackOffset p1) :: .LDR TEMP2 .sp (stackOffset p2) :: opR o TEMP TEMP TEMP2)
    ++ [.STR TEMP .sp (stackOffset targetPosition)]

/-- code.rs: fn compare -/
def compare (fst snd : Temporary) : List Code :=
  match fst, snd with
  | .register r1, .register r2 => [.CMPR r1 r2]
  | .register r1, .spill p2 => [.LDR TEMP .sp (stackOffset p2), .CMPR r1 TEMP]
  | .spill p1, .register r2 => [.LDR TEMP .sp (stackOffset p1), .CMPR TEMP r2]
  | .spill p1, .spill p2 =>
    [.LDR TEMP .sp (stackOffset p1), .LDR TEMP2 .sp (stackOffset p2), .CMPR TEMP TEMP2]

/-- code.rs: fn compare_immediate -/
def compareImmediate (temporary : Temporary) (immediate : Int) : List Code :=
  match temporary with
  | .register register => [.CMPI register immediate]
  | .spill position => [.LDR TEMP .sp (stackOffset position), .CMPI TEMP immediate]

/-- code.rs: fn caller_save_registers_info, with the comparison that decides whether the last
register (the link register) is saved as a parameter: `lrStrict = false` is the code as it is
(`first_free_register >= REGISTER_NUM`, since repo commit 58adc26); `lrStrict = true` is the earlier
condition `>`, kept for the defect witness `C13_a64_lr_witness`. -/
def callerSaveRegistersInfoG (lrStrict : Bool) (context : Ctx) : Nat × List Nat :=
  let firstFreeRegister := 2 * context.length + RESERVED
  let firstBackupRegister := max firstFreeRegister (CALLER_SAVE_LAST + 1)
  let callerSaveCount := CALLER_SAVE_LAST + 1 - CALLER_SAVE_FIRST
  let base : List Nat := [0, 1]
  let lr : List Nat :=
    if (if lrStrict then decide (firstFreeRegister > REGISTER_NUM) else decide (firstFreeRegister ≥ REGISTER_NUM))
    then [REGISTER_NUM - 1] else []
  let rec go : Ctx → Nat → List Nat
    | [], _ => []
    | binding :: rest, offset =>
      (if binding.chi == .ext then [CALLER_SAVE_FIRST + 2 * offset + 1]
       else [CALLER_SAVE_FIRST + 2 * offset, CALLER_SAVE_FIRST + 2 * offset + 1]) ++ go rest (offset + 1)
  (firstBackupRegister, base ++ lr ++ go (context.take (callerSaveCount / 2)) 0)

/-- code.rs: fn caller_save_registers_info -/
def callerSaveRegistersInfo (context : Ctx) : Nat × List Nat := callerSaveRegistersInfoG false context

/-- `iter().enumerate()` -/
def enumFrom {α : Type} : Nat → List α → List (Nat × α)
  | _, [] => []
  | n, a :: as => (n, a) :: enumFrom (n + 1) as

/-- code.rs: fn save_caller_save_registers -/
def saveCallerSaveRegisters (firstBackupRegister : Nat) (registersToSave : List Nat) : List Code :=
  let registersToSaveCount := registersToSave.length
  let backupRegisterCount := (REGISTER_NUM - 1) - firstBackupRegister
  let backupRegistersUsed := min registersToSaveCount backupRegisterCount
  let moves := (enumFrom 0 (registersToSave.take backupRegistersUsed)).map fun (offset, register) =>
    Code.MOVR (.x (firstBackupRegister + offset)) (.x register)
  let registersToPushCount := registersToSaveCount - backupRegistersUsed
  if registersToPushCount > 0 then
    let registersToPushCount :=
      if registersToPushCount % 2 != 0 then registersToPushCount + 1 else registersToPushCount
    moves ++ [.SUBI .sp .sp (address registersToPushCount)] ++
      (enumFrom 0 (registersToSave.drop backupRegistersUsed)).map fun (offset, register) =>
        Code.STR (.x register) .sp (address ((registersToPushCount : Int) - 1 - (offset : Int)))
  else moves

/-- code.rs: fn restore_caller_save_registers -/
def restoreCallerSaveRegisters (firstBackupRegister : Nat) (registersToSave : List Nat) : List Code :=
  let registersToSaveCount := registersToSave.length
  let backupRegisterCount := (REGISTER_NUM - 1) - firstBackupRegister
  let backupRegistersUsed := min registersToSaveCount backupRegisterCount
  let moves := (enumFrom 0 (registersToSave.take backupRegistersUsed)).map fun (offset, register) =>
    Code.MOVR (.x register) (.x (firstBackupRegister + offset))
  let registersToPushCount := registersToSaveCount - backupRegistersUsed
  if registersToPushCount > 0 then
    let registersToPushCount :=
      if registersToPushCount % 2 != 0 then registersToPushCount + 1 else registersToPushCount
    moves ++
      ((enumFrom 0 (registersToSave.drop backupRegistersUsed)).reverse.map fun (offset, register) =>
        Code.LDR (.x register) .sp (address ((registersToPushCount : Int) - 1 - (offset : Int)))) ++
      [.ADDI .sp .sp (address registersToPushCount)]
  else moves

/-! ## code.rs: impl Instructions -/

/-- code.rs: Instructions::jump -/
def jump (temporary : Temporary) : List Code :=
  match temporary with
  | .register register => [.BR register]
  | .spill position => [.LDR TEMP .sp (stackOffset position), .BR TEMP]

def branchOf : IfSort → String → Code
  | .eq, l => .BEQ l
  | .ne, l => .BNE l
  | .lt, l => .BLT l
  | .le, l => .BLE l
  | .gt, l => .BGT l
  | .ge, l => .BGE l

/-- code.rs: Instructions::jump_label_if_{equal,not_equal,less,less_or_equal,greater,greater_or_equal} -/
def jumpLabelIf (sort : IfSort) (fst snd : Temporary) (name : String) : List Code :=
  compare fst snd ++ [branchOf sort name]

/-- code.rs: Instructions::jump_label_if_{zero,not_zero,less_zero,…} -/
def jumpLabelIfZero (sort : IfSort) (temporary : Temporary) (name : String) : List Code :=
  compareImmediate temporary 0 ++ [branchOf sort name]

/-- The 64-bit two's-complement pattern of an `i64` immediate. -/
def immBits (immediate : Int) : BitVec 64 := BitVec.ofInt 64 immediate

/-- `((immediate.val >> shift) & 0xFFFF) as u16` for `shift = 16 * i` -/
def halfword (w : BitVec 64) (i : Nat) : BitVec 16 := (w >>> (16 * i)).setWidth 16

/-- code.rs: load_immediate::number_unset_halfwords
(`(val >> (i*16)).trailing_zeros() >= 16` ⇔ halfword i is zero, also for the value 0) -/
def numberUnsetHalfwords (w : BitVec 64) : Nat :=
  ((List.range 4).filter fun i => halfword w i == 0).length

/-- code.rs: load_immediate, the loop `for i in 0..4` (state: `first_move_done`) -/
def loadImmediateLoop (register : Register) (w : BitVec 64) (invert : Bool) (ignoredHalfword : BitVec 16) :
    List Nat → Bool → List Code
  | [], _ => []
  | i :: is, firstMoveDone =>
    let shift : Int := (i : Int) * 16
    let hw := halfword w i
    if hw != ignoredHalfword then
      if firstMoveDone then
        .MOVK register (hw.toNat : Int) shift :: loadImmediateLoop register w invert ignoredHalfword is true
      else if invert then
        .MOVN register ((~~~ hw).toNat : Int) shift :: loadImmediateLoop register w invert ignoredHalfword is true
      else
        .MOVZ register (hw.toNat : Int) shift :: loadImmediateLoop register w invert ignoredHalfword is true
    else loadImmediateLoop register w invert ignoredHalfword is firstMoveDone

/-- code.rs: load_immediate, the part that fills `register` -/
def loadImmediateRegister (register : Register) (immediate : Int) : List Code :=
  let w := immBits immediate
  if w == 0 then [.MOVZ register 0 0]
  else if w == BitVec.allOnes 64 then [.MOVN register 0 0]
  else
    let invert := decide (numberUnsetHalfwords w < numberUnsetHalfwords (~~~ w))
    let ignoredHalfword : BitVec 16 := if invert then 0xFFFF else 0
    loadImmediateLoop register w invert ignoredHalfword [0, 1, 2, 3] false

/-- code.rs: Instructions::load_immediate -/
def loadImmediate (temporary : Temporary) (immediate : Int) : List Code :=
  let register := match temporary with
    | .register register => register
    | .spill _ => TEMP
  loadImmediateRegister register immediate ++
    (match temporary with
     | .register _ => []
     | .spill position => [.STR TEMP .sp (stackOffset position)])

/-- code.rs: Instructions::load_label -/
def loadLabel (temporary : Temporary) (name : String) : List Code :=
  match temporary with
  | .register register => [.ADR register name]
  | .spill position => [.ADR TEMP name, .STR TEMP .sp (stackOffset position)]

/-- code.rs: Instructions::add_and_jump -/
def addAndJump (temporary : Temporary) (immediate : Int) : List Code :=
  match temporary with
  | .register register => [.ADDI register register immediate, .BR register]
  | .spill position => [.LDR TEMP .sp (stackOffset position), .ADDI TEMP TEMP immediate, .BR TEMP]

/-- code.rs: Instructions::mov -/
def mov (targetTemporary sourceTemporary : Temporary) : List Code :=
  match sourceTemporary with
  | .register sourceRegister => moveFromRegister targetTemporary sourceRegister
  | .spill _ =>
    match targetTemporary with
    | .register targetRegister => moveToRegister targetRegister sourceTemporary
    | .spill _ => moveToRegister TEMP2 sourceTemporary ++ moveFromRegister targetTemporary TEMP2

/-- code.rs: Instructions::print_i64, parametrised like `callerSaveRegistersInfoG` -/
def printI64G (lrStrict : Bool) (newline : Bool) (sourceTemporary : Temporary) (context : Ctx) : List Code :=
  let printI64 := if newline then "println_i64" else "print_i64"
  let (firstBackupRegister, registersToSave) := callerSaveRegistersInfoG lrStrict context
  (match sourceTemporary with
   | .spill _ =>
     .COMMENT "#move argument to TEMP before adapting the stack pointer" :: moveToRegister TEMP sourceTemporary
   | .register _ => []) ++
  [.COMMENT "#save caller-save registers"] ++
  saveCallerSaveRegisters firstBackupRegister registersToSave ++
  [.COMMENT "#move argument into place"] ++
  (match sourceTemporary with
   | .register sourceRegister => [.MOVR (.x 0) sourceRegister]
   | .spill _ => [.MOVR (.x 0) TEMP]) ++
  [.BL printI64, .COMMENT "#restore caller-save registers"] ++
  restoreCallerSaveRegisters firstBackupRegister registersToSave

/-- code.rs: Instructions::print_i64 -/
def printI64 (newline : Bool) (sourceTemporary : Temporary) (context : Ctx) : List Code :=
  printI64G false newline sourceTemporary context

/-! ## memory.rs -/

/-- memory.rs: fn skip_if_zero (the label is drawn when the function is CALLED, i.e. after
`to_skip` has been built) -/
def skipIfZero (condition : Register) (toSkip : List Code) : GenM (List Code) := do
  let n ← freshLabel
  let freshLabel := "lab" ++ toString n
  pure ([.CMPI condition 0, .BEQ freshLabel] ++ toSkip ++ [.LAB freshLabel])

/-- memory.rs: fn if_zero_then_else -/
def ifZeroThenElse (condition : Register) (thenBranch elseBranch : List Code) : GenM (List Code) := do
  let n1 ← freshLabel
  let n2 ← freshLabel
  let freshLabelThen := "lab" ++ toString n1
  let freshLabelElse := "lab" ++ toString n2
  pure ([.CMPI condition 0, .BEQ freshLabelThen] ++ elseBranch ++ [.B freshLabelElse, .LAB freshLabelThen] ++
    thenBranch ++ [.LAB freshLabelElse])

/-- memory.rs: erase_block::erase_valid_object -/
def eraseValidObject (toErase : Register) : GenM (List Code) :=
  let thenBranch : List Code :=
    [ .COMMENT "######... or add block to lazy free list",
      .STR FREE toErase NEXT_ELEMENT_OFFSET,
      .MOVR FREE toErase ]
  let elseBranch : List Code :=
    [ .COMMENT "######either decrement refcount ...",
      .SUBI TEMP2 TEMP2 1,
      .STR TEMP2 toErase REFERENCE_COUNT_OFFSET ]
  ifZeroThenElse TEMP2 thenBranch elseBranch

/-- memory.rs: Memory::erase_block -/
def eraseBlock (toErase : Temporary) : GenM (List Code) :=
  match toErase with
  | .register toEraseRegister => do
    let evo ← eraseValidObject toEraseRegister
    let toSkip := [.COMMENT "######check refcount", .LDR TEMP2 toEraseRegister REFERENCE_COUNT_OFFSET] ++ evo
    skipIfZero toEraseRegister toSkip
  | .spill toErasePosition => do
    let evo ← eraseValidObject TEMP
    let toSkip := [.COMMENT "######check refcount", .LDR TEMP2 TEMP REFERENCE_COUNT_OFFSET] ++ evo
    let s ← skipIfZero TEMP toSkip
    pure (.LDR TEMP .sp (stackOffset toErasePosition) :: s)

/-- memory.rs: Memory::share_block_n -/
def shareBlockN (toShare : Temporary) (n : Nat) : GenM (List Code) :=
  match toShare with
  | .register toShareRegister =>
    skipIfZero toShareRegister
      [ .COMMENT "####increment refcount",
        .LDR TEMP2 toShareRegister REFERENCE_COUNT_OFFSET,
        .ADDI TEMP2 TEMP2 (n : Int),
        .STR TEMP2 toShareRegister REFERENCE_COUNT_OFFSET ]
  | .spill toSharePosition => do
    let s ← skipIfZero TEMP
      [ .COMMENT "####increment refcount",
        .LDR TEMP2 TEMP REFERENCE_COUNT_OFFSET,
        .ADDI TEMP2 TEMP2 (n : Int),
        .STR TEMP2 TEMP REFERENCE_COUNT_OFFSET ]
    pure (.LDR TEMP .sp (stackOffset toSharePosition) :: s)

/-- Memory::share_block (axcut2backend/src/memory.rs default method: `share_block_n(…, 1)`) -/
def shareBlock (toShare : Temporary) : GenM (List Code) := shareBlockN toShare 1

/-- memory.rs: acquire_block::erase_fields -/
def eraseFields (toErase : Register) : Nat → Nat → GenM (List Code)
  | 0, _ => pure []
  | k + 1, offset => do
    let e ← eraseBlock (.register TEMP)
    let rest ← eraseFields toErase k (offset + 1)
    pure ([.COMMENT ("#####check child " ++ toString (offset + 1) ++ " for erasure"),
           .LDR TEMP toErase (fieldOffset 0 offset)] ++ e ++ rest)

/-- memory.rs: fn acquire_block -/
def acquireBlock (newBlock : Temporary) : GenM (List Code) := do
  let first : List Code :=
    match newBlock with
    | .register newBlockRegister => [.MOVR newBlockRegister HEAP]
    | .spill newBlockPosition => [.MOVR TEMP HEAP, .STR HEAP .sp (stackOffset newBlockPosition)]
  let head : List Code :=
    [ .COMMENT "##get next free block into heap register",
      .COMMENT "###(1) check linear free list for next block",
      .LDR HEAP HEAP NEXT_ELEMENT_OFFSET ]
  let thenBranchFree : List Code :=
    [ .COMMENT "###(3) fall back to bump allocation",
      .ADDI FREE HEAP (fieldOffset 0 FIELDS_PER_BLOCK) ]
  let erased ← eraseFields HEAP FIELDS_PER_BLOCK 0
  let elseBranchFree : List Code :=
    [ .COMMENT "####mark linear free list empty",
      .STR .xzr HEAP NEXT_ELEMENT_OFFSET,
      .COMMENT "####erase children of next block" ] ++ erased
  let inner ← ifZeroThenElse FREE thenBranchFree elseBranchFree
  let thenBranch : List Code :=
    [ .COMMENT "###(2) check non-linear lazy free list for next block",
      .MOVR HEAP FREE,
      .LDR FREE FREE NEXT_ELEMENT_OFFSET ] ++ inner
  let elseBranch : List Code :=
    [ .COMMENT "####initialize refcount of just acquired block",
      match newBlock with
      | .register newBlockRegister => .STR .xzr newBlockRegister REFERENCE_COUNT_OFFSET
      | .spill _ => .STR .xzr TEMP REFERENCE_COUNT_OFFSET ]
  let outer ← ifZeroThenElse HEAP thenBranch elseBranch
  pure (first ++ head ++ outer)

/-- memory.rs: fn release_block -/
def releaseBlock (toRelease : Register) : List Code :=
  [.STR HEAP toRelease NEXT_ELEMENT_OFFSET, .MOVR HEAP toRelease]

/-- memory.rs: fn store_zero -/
def storeZero (memoryBlock : Register) (offset : Nat) : List Code :=
  [.STR .xzr memoryBlock (fieldOffset 0 offset)]

/-- memory.rs: fn store_zeros -/
def storeZeros (freeFields : Nat) (memoryBlock : Register) : List Code :=
  (List.range freeFields).flatMap fun offset => storeZero memoryBlock offset

/-- memory.rs: fn store_field -/
def storeField (number : TempNum) (context : Ctx) (memoryBlock : Register) (offset : Nat) :
    GenM (List Code) := do
  match ← freshTemporary number context with
  | .register register => pure [.STR register memoryBlock (fieldOffset number.toNat offset)]
  | .spill position =>
    pure [.LDR TEMP .sp (stackOffset position), .STR TEMP memoryBlock (fieldOffset number.toNat offset)]

/-- memory.rs: fn load_field -/
def loadField (number : TempNum) (context : Ctx) (memoryBlock : Register) (offset : Nat) :
    GenM (List Code) := do
  match ← freshTemporary number context with
  | .register register => pure [.LDR register memoryBlock (fieldOffset number.toNat offset)]
  | .spill position =>
    pure [.LDR TEMP memoryBlock (fieldOffset number.toNat offset), .STR TEMP .sp (stackOffset position)]

/-- memory.rs: fn store_value -/
def storeValue (toStore : Binding) (remainingContext : Ctx) (memoryBlock : Register) (offset : Nat) :
    GenM (List Code) := do
  let c1 ← storeField .snd remainingContext memoryBlock offset
  if toStore.chi == .ext then pure (c1 ++ storeZero memoryBlock offset)
  else do
    let c2 ← storeField .fst remainingContext memoryBlock offset
    pure (c1 ++ c2)

/-- memory.rs: enum LoadMode -/
inductive LoadMode where
  | release | share
  deriving DecidableEq, Repr

/-- memory.rs: fn load_value -/
def loadValue (toLoad : Binding) (existingContext : Ctx) (memoryBlock : Register) (offset : Nat)
    (loadMode : LoadMode) : GenM (List Code) := do
  let c1 ← loadField .snd existingContext memoryBlock offset
  if toLoad.chi != .ext then do
    let c2 ← loadField .fst existingContext memoryBlock offset
    let registerToShare ← do
      match ← freshTemporary .fst existingContext with
      | .register register => pure register
      | .spill _ => pure TEMP
    if loadMode == .share then do
      let c3 ← shareBlock (.register registerToShare)
      pure (c1 ++ c2 ++ c3)
    else pure (c1 ++ c2)
  else pure c1

/-- memory.rs: fn store_values, the `while let Some(binding) = to_store.bindings.pop()` loop.
`rev` is the not yet stored part of `to_store`, REVERSED (its head is what `pop` returns). -/
def storeValuesLoop (remainingContext : Ctx) (memoryBlock : Register) :
    List Binding → Nat → GenM (List Code × Nat)
  | [], freeFields => pure ([], freeFields)
  | binding :: rev, freeFields => do
    let remainingPlusRest := remainingContext ++ rev.reverse
    -- `free_fields - 1` on usize: underflow panics (debug) — cannot happen for callers in this file
    if freeFields = 0 then throw "attempt to subtract with overflow (store_values)"
    else do
      let c ← storeValue binding remainingPlusRest memoryBlock (freeFields - 1)
      let (cs, ff) ← storeValuesLoop remainingContext memoryBlock rev (freeFields - 1)
      pure (c ++ cs, ff)

/-- memory.rs: fn store_values -/
def storeValues (toStore : Ctx) (remainingContext : Ctx) (memoryBlock : Register) (freeFields : Nat) :
    GenM (List Code) := do
  let (cs, freeFields) ← storeValuesLoop remainingContext memoryBlock toStore.reverse freeFields
  pure ([.COMMENT "##store values"] ++ cs ++
    (if freeFields > 0 then [.COMMENT "##mark unused fields with null"] else []) ++
    storeZeros freeFields memoryBlock)

/-- memory.rs: fn load_values (loop as in `storeValuesLoop`) -/
def loadValuesLoop (existingContext : Ctx) (memoryBlock : Register) (loadMode : LoadMode) :
    List Binding → Nat → GenM (List Code)
  | [], _ => pure []
  | binding :: rev, freeFields => do
    let existingPlusRest := existingContext ++ rev.reverse
    if freeFields = 0 then throw "attempt to subtract with overflow (load_values)"
    else do
      let c ← loadValue binding existingPlusRest memoryBlock (freeFields - 1) loadMode
      let cs ← loadValuesLoop existingContext memoryBlock loadMode rev (freeFields - 1)
      pure (c ++ cs)

/-- memory.rs: fn load_values -/
def loadValues (toLoad : Ctx) (existingContext : Ctx) (memoryBlock : Register) (freeFields : Nat)
    (loadMode : LoadMode) : GenM (List Code) := do
  let cs ← loadValuesLoop existingContext memoryBlock loadMode toLoad.reverse freeFields
  pure (.COMMENT "###load values" :: cs)

/-- memory.rs: enum BlockPosition (`Last = 0`, `Other = 1`) -/
inductive BlockPosition where
  | last | other
  deriving DecidableEq, Repr

def BlockPosition.toNat : BlockPosition → Nat
  | .last => 0
  | .other => 1

/-- memory.rs: fn store_fields, the part `if block_position == BlockPosition::Other { … store_field(Fst, …) }` -/
def storeLink (blockPosition : BlockPosition) (remainingPlusToStore : Ctx) : GenM (List Code) :=
  if blockPosition == .other then do
    let c ← storeField .fst remainingPlusToStore HEAP (FIELDS_PER_BLOCK - 1)
    pure (.COMMENT "##store link to previous block" :: c)
  else pure []

/-- memory.rs: fn load_fields, the part `if block_position == BlockPosition::Other { … load_field(Fst, …) }` -/
def loadLink (blockPosition : BlockPosition) (existingPlusToLoad : Ctx) (memoryBlock : Register) : GenM (List Code) :=
  if blockPosition == .other then do
    let c ← loadField .fst existingPlusToLoad memoryBlock (FIELDS_PER_BLOCK - 1)
    pure (.COMMENT "###load link to next block" :: c)
  else pure []

/-- memory.rs: fn store_fields. `fuel` bounds the recursion depth (`to_store` gets strictly shorter
in every recursive call; callers pass `to_store.length + 1`). -/
def storeFields : Nat → Ctx → Ctx → BlockPosition → GenM (List Code)
  | 0, _, _, _ => throw "storeFields: out of fuel (unreachable)"
  | fuel + 1, toStore, remainingContext, blockPosition =>
    if toStore.isEmpty then
      if blockPosition == .last then do
        let t ← freshTemporary .fst remainingContext
        pure (.COMMENT "#mark no allocation" :: loadImmediate t 0)
      else pure []
    else do
      let remainingPlusToStore := remainingContext ++ toStore
      let c1 ← storeLink blockPosition remainingPlusToStore
      let cap := FIELDS_PER_BLOCK - blockPosition.toNat
      let restLength := if toStore.length ≤ cap then 0 else toStore.length - cap
      let toStoreNext := toStore.drop restLength
      let toStore := toStore.take restLength
      let remainingPlusRest := remainingContext ++ toStore
      let c2 : List Code := if blockPosition == .last then [.COMMENT "#allocate memory"] else []
      let c3 ← storeValues toStoreNext remainingPlusRest HEAP cap
      let t ← freshTemporary .fst remainingPlusRest
      let c4 ← acquireBlock t
      let c5 ← storeFields fuel toStore remainingContext .other
      pure (c1 ++ c2 ++ c3 ++ [.COMMENT "##acquire free block from heap register"] ++ c4 ++ c5)

/-- memory.rs: fn load_fields; returns the codes and the new value of `*register_freed`. -/
def loadFields : Nat → Ctx → Ctx → BlockPosition → LoadMode → Bool → GenM (List Code × Bool)
  | 0, _, _, _, _, _ => throw "loadFields: out of fuel (unreachable)"
  | fuel + 1, toLoad, existingContext, blockPosition, loadMode, registerFreed =>
    if toLoad.isEmpty then pure ([], registerFreed)
    else do
      let existingPlusToLoad := existingContext ++ toLoad
      let cap := FIELDS_PER_BLOCK - blockPosition.toNat
      let restLength := if toLoad.length ≤ cap then 0 else toLoad.length - cap
      let toLoadNext := toLoad.drop restLength
      let toLoad := toLoad.take restLength
      let existingPlusRest := existingContext ++ toLoad
      let (c0, registerFreed) ← loadFields fuel toLoad existingContext .other loadMode registerFreed
      let memoryBlock ← freshTemporary .fst existingPlusRest
      match memoryBlock with
      | .register memoryBlockRegister => do
        let c1 : List Code :=
          if loadMode == .release then .COMMENT "###release block" :: releaseBlock memoryBlockRegister else []
        let c2 ← loadLink blockPosition existingPlusToLoad memoryBlockRegister
        let c3 ← loadValues toLoadNext existingPlusRest memoryBlockRegister cap loadMode
        pure (c0 ++ c1 ++ c2 ++ c3, registerFreed)
      | .spill memoryBlockPosition => do
        let cEvac : List Code :=
          if !registerFreed then
            [ .COMMENT "###evacuate additional scratch register for memory block",
              .STR TEMPORARY_TEMP .sp (stackOffset SPILL_TEMP) ]
          else []
        let c1 : List Code := [.LDR TEMPORARY_TEMP .sp (stackOffset memoryBlockPosition)] ++
          (if loadMode == .release then .COMMENT "###release block" :: releaseBlock TEMPORARY_TEMP else [])
        let c2 ← loadLink blockPosition existingPlusToLoad TEMPORARY_TEMP
        let c3 ← loadValues toLoadNext existingPlusRest TEMPORARY_TEMP cap loadMode
        let c4 : List Code :=
          if blockPosition == .last then
            [ .COMMENT "###restore evacuated register",
              .LDR TEMPORARY_TEMP .sp (stackOffset SPILL_TEMP) ]
          else []
        pure (c0 ++ cEvac ++ c1 ++ c2 ++ c3 ++ c4, true)

/-- memory.rs: Memory::store -/
def store (toStore : Ctx) (remainingContext : Ctx) : GenM (List Code) :=
  storeFields (toStore.length + 1) toStore remainingContext .last

/-- memory.rs: load::load_register -/
def loadRegister (memoryBlock : Register) (toLoad : Ctx) (existingContext : Ctx) : GenM (List Code) := do
  let (cThen, _) ← loadFields (toLoad.length + 1) toLoad existingContext .last .release false
  let thenBranch := .COMMENT "##... or release blocks onto linear free list when loading" :: cThen
  let (cElse, _) ← loadFields (toLoad.length + 1) toLoad existingContext .last .share false
  let elseBranch : List Code :=
    [ .COMMENT "##either decrement refcount and share children...",
      .SUBI TEMP2 TEMP2 1,
      .STR TEMP2 memoryBlock REFERENCE_COUNT_OFFSET ] ++ cElse
  let c ← ifZeroThenElse TEMP2 thenBranch elseBranch
  pure (.COMMENT "##check refcount" :: c)

/-- memory.rs: Memory::load -/
def load (toLoad : Ctx) (existingContext : Ctx) : GenM (List Code) :=
  if toLoad.isEmpty then pure []
  else do
    let memoryBlock ← freshTemporary .fst existingContext
    match memoryBlock with
    | .register memoryBlockRegister => do
      let c ← loadRegister memoryBlockRegister toLoad existingContext
      pure ([.COMMENT "#load from memory", .LDR TEMP2 memoryBlockRegister REFERENCE_COUNT_OFFSET] ++ c)
    | .spill memoryBlockPosition => do
      let c ← loadRegister TEMP toLoad existingContext
      pure ([.COMMENT "#load from memory", .LDR TEMP .sp (stackOffset memoryBlockPosition),
             .LDR TEMP2 TEMP REFERENCE_COUNT_OFFSET] ++ c)

/-! ## parallel_moves.rs -/

/-- parallel_moves.rs: ParallelMoves::store_temporary -/
def storeTemporary (temporary : Temporary) (_spill : Bool) : List Code :=
  match temporary with
  | .register register => [.MOVR TEMP register]
  | .spill position => [.LDR TEMP .sp (stackOffset position)]

/-- parallel_moves.rs: ParallelMoves::restore_temporary -/
def restoreTemporary (temporary : Temporary) (_spill : Bool) : List Code :=
  match temporary with
  | .register register => [.MOVR register TEMP]
  | .spill position => [.STR TEMP .sp (stackOffset position)]

/-! ## the derived `Ord` of `Temporary` (Register < Spill; X(_) < SP < XZR) -/

def Register.rank : Register → Nat × Nat
  | .x r => (0, r)
  | .sp => (1, 0)
  | .xzr => (2, 0)

def Temporary.rank : Temporary → Nat × Nat × Nat
  | .register r => (0, r.rank.1, r.rank.2)
  | .spill p => (1, p, 0)

def tempLt (a b : Temporary) : Bool :=
  let (a1, a2, a3) := a.rank
  let (b1, b2, b3) := b.rank
  decide (a1 < b1) || (a1 == b1 && (decide (a2 < b2) || (a2 == b2 && decide (a3 < b3))))

/-! ## the instance -/

/-- The AArch64 backend as a backend record. `old = false` is the code as it is; `old = true` is the
code before the repairs 8e009b7 (`op`) and 58adc26 (`caller_save_registers_info`). -/
def a64BackendG (old : Bool) : Scc.Backend.Backend Code Temporary where
  temp := .register TEMP
  heap := .register HEAP
  free := .register FREE
  return1 := .register RETURN1
  return2 := .register RETURN2
  jumpLength := jumpLength
  variableTemporary := variableTemporary
  freshTemporary := freshTemporary
  comment := .COMMENT
  label := .LAB
  jump := jump
  jumpLabel := fun name => [.B name]
  jumpLabelFixed := fun name => [.B name]
  jumpLabelIf := jumpLabelIf
  jumpLabelIfZero := jumpLabelIfZero
  loadImmediate := loadImmediate
  loadLabel := loadLabel
  addAndJump := addAndJump
  binop := if old then opOld else op
  mov := mov
  printI64 := fun nl s c => pure (printI64G old nl s c)
  eraseBlock := eraseBlock
  shareBlockN := shareBlockN
  store := store
  load := load
  containsSpillEdge := fun _ => false
  storeTemporary := storeTemporary
  restoreTemporary := restoreTemporary
  tempLt := tempLt
  tempEq := fun a b => a == b

def a64Backend : Scc.Backend.Backend Code Temporary := a64BackendG false

/-- The backend before the two repairs (for the defect witnesses and for replaying them). -/
def a64BackendOld : Scc.Backend.Backend Code Temporary := a64BackendG true

/-! ## into_routine.rs -/

/-- into_routine.rs: fn preamble -/
def preamble : List Code := [.TEXT, .GLOBAL "asm_main", .LAB "asm_main"]

/-- into_routine.rs: fn move_arguments (the comment is pushed by every call, and the cases ≥ 2 call
the function recursively) -/
def moveArguments : Nat → Except String (List Code)
  | 0 => .ok [.COMMENT "move parameters into place"]
  | 1 => .ok [.COMMENT "move parameters into place", .MOVR (.x 5) (.x 1)]
  | k + 2 =>
    if k + 2 ≤ 7 then
      match moveArguments (k + 1) with
      | .ok rest => .ok ([.COMMENT "move parameters into place", .MOVR (.x (2 * k + 7)) (.x (k + 2))] ++ rest)
      | .error e => .error e
    else .error "too many arguments for main"

/-- into_routine.rs: fn setup -/
def setup (numberOfArguments : Nat) : Except String (List Code) :=
  match moveArguments numberOfArguments with
  | .error e => .error e
  | .ok moves =>
    .ok ([ .COMMENT "setup", .COMMENT "save registers",
           .STP_PRE_INDEX (.x 18) (.x 19) .sp (-16),
           .STP_PRE_INDEX (.x 20) (.x 21) .sp (-16),
           .STP_PRE_INDEX (.x 22) (.x 23) .sp (-16),
           .STP_PRE_INDEX (.x 24) (.x 25) .sp (-16),
           .STP_PRE_INDEX (.x 26) (.x 27) .sp (-16),
           .STP_PRE_INDEX (.x 28) (.x 29) .sp (-16),
           .COMMENT "reserve space for register spills",
           .SUBI .sp .sp (SPILL_SPACE : Int) ] ++ moves ++
         [ .COMMENT "initialize free pointer",
           .MOVR FREE HEAP,
           .ADDI FREE FREE (fieldOffset 0 FIELDS_PER_BLOCK) ])

/-- into_routine.rs: fn cleanup -/
def cleanup : List Code :=
  [ .LAB "cleanup",
    .COMMENT "free space for register spills",
    .ADDI .sp .sp (SPILL_SPACE : Int),
    .COMMENT "restore registers",
    .LDP_POST_INDEX (.x 28) (.x 29) .sp 16,
    .LDP_POST_INDEX (.x 26) (.x 27) .sp 16,
    .LDP_POST_INDEX (.x 24) (.x 25) .sp 16,
    .LDP_POST_INDEX (.x 22) (.x 23) .sp 16,
    .LDP_POST_INDEX (.x 20) (.x 21) .sp 16,
    .LDP_POST_INDEX (.x 18) (.x 19) .sp 16,
    .RET ]

/-- into_routine.rs: fn into_aarch64_routine -/
def intoRoutine (instructions : List Code) (numberOfArguments : Nat) : Except String (List Code) :=
  match setup numberOfArguments with
  | .error e => .error e
  | .ok s => .ok (preamble ++ s ++ [.COMMENT "actual code"] ++ instructions ++ cleanup)

/-! ## line function -/

def readS5 (dumpS5 : String) : Except String AxCut.Prog :=
  match Sexp.parse dumpS5 with
  | none => .error "ERR sexp"
  | some sx =>
    match readProg (dumpS5.length + 10) sx with
    | none => .error "ERR read"
    | some p => .ok p

/-- Structured result of the code generator on a linearized program. -/
def compileProg (B : Scc.Backend.Backend Code Temporary) (p : AxCut.Prog) (hooks : Bool) (counterStart : Nat) :
    Except String (List Code × Nat × List Code) :=
  match (Scc.Backend.compile B hooks p).run counterStart with
  | .error e => .error e
  | .ok ((body, nargs), _) =>
    match intoRoutine body nargs with
    | .error e => .error e
    | .ok routine => .ok (body, nargs, routine)

def runLineCodegenG (B : Scc.Backend.Backend Code Temporary) (dumpS5 : String) (hooks : Bool) (counterStart : Nat) : String :=
  match readS5 dumpS5 with
  | .error e => e
  | .ok p =>
    match compileProg B p hooks counterStart with
    | .error e => "PANIC " ++ e
    | .ok (body, nargs, routine) =>
      "OK " ++ toString nargs ++ "\n" ++ printProg body ++ "\n---\n" ++ printProg routine

/-- `axcut2backend::coder::compile::<axcut2aarch64::Backend>` + `into_aarch64_routine` on an S5 dump:
`OK <nargs>\n<body text (S6a)>\n---\n<routine text (S7a)>` | `PANIC <msg>` | `ERR …`. -/
def runLineCodegen (dumpS5 : String) (hooks : Bool) (counterStart : Nat) : String :=
  runLineCodegenG a64Backend dumpS5 hooks counterStart

end Scc.A64
