/-
  Scc.A64.RefClosHX3 — basic facts about the relation `X3R` (RefHeapDefs.lean): it does not look at the
  abstract program counter; the roots of `HRef` matter only as a multiset; heads of represented objects
  are addresses inside the heap (so `imgWord` is the word of `imgW`); what the per-method frames (`Frame`,
  `Frame0`, `FrameS`, `FrameT`) preserve of it.
  NOTE (fork): this file is the closure-aware version of Scc/A64/RefHeapX3.lean (same proofs, the
  three-way relation additionally carries the per-instance code-pointer map `κ`), in the namespace
  `Scc.A64.Ref.K`.  The original file is kept unchanged because Props/C07A64Heap.lean is built on it.
-/
import Scc.A64.RefClosHTr
import Scc.A64.RefHeapBridge
import Scc.A64.MemProofsLoadTop
import Scc.Props.C09Refine
import Scc.Backend.ProofsRep2

set_option linter.unusedVariables false
set_option linter.unusedSimpArgs false

namespace Scc.A64.Ref.K

open Scc.AxCut Scc.Backend Scc.Backend.Abs Scc.Backend.Sim Scc.A64 Scc.A64.CC
open Scc.Heap (HState InvS InvW)
open Scc.Heap.Refine (HRef imgW fieldImg kindB)

/-! ## temporaries of positions -/

theorem posTemp_ne_x {t r : Nat} (ht : t < 281) (hr : r < 4) : posTemp t ≠ .register (.x r) := by
  unfold posTemp
  split
  · intro e; injection e with e; injection e with e; omega
  · intro e; cases e

theorem posTemp_ne_spill0' (t : Nat) : posTemp t ≠ .spill 0 := by
  unfold posTemp
  split
  · intro e; cases e
  · intro e; injection e with e; omega

theorem opndOK_posTemp {t : Nat} (h : t < 281) : OpndOK (posTemp t) := isVar_opndOK (isVar_posTemp h)

/-! ## roots as a multiset -/

theorem HRef.roots_congr {h : Heap} {rs rs' : List Nat} {next : Nat} {s : HState} {ι : Nat → Nat}
    (R : HRef h rs next s ι) (hc : ∀ x, rs'.count x = rs.count x) : HRef h rs' next s ι := by
  have hp : rs'.Perm rs := List.perm_iff_count.2 hc
  obtain ⟨lin, lazy, live, F, I⟩ := R.conc
  refine ⟨Scc.Backend.Sim2.heapOK_count_congr R.abs hc, R.ord, ⟨lin, lazy, live, F, ?_⟩, R.shape, R.disj⟩
  exact InvW.roots_congr I (fun b _ => (hp.map ι).count_eq b)

/-! ## heads of objects are heap addresses -/

theorem href_head_lt {h : Heap} {rs : List Nat} {next : Nat} {s : HState} {ι : Nat → Nat}
    (R : HRef h rs next s ι) {e : Nat × Obj} (he : e ∈ h) : ι e.1 + 64 ≤ s.limit := by
  obtain ⟨lin, lazy, live, F, I⟩ := R.conc
  have hl := Scc.Heap.Refine.C09R_chains_live R I e he _ (Scc.Heap.Refine.head_mem_blocksOf (R.shape e he))
  have h1 := I.live_block hl
  have h2 := I.frontier_room
  have h3 := I.frontier_block
  unfold Scc.Heap.IsBlock at h1 h3
  omega

/-- a live reference (a root) -/
theorem href_root_mem {h : Heap} {rs : List Nat} {next : Nat} {s : HState} {ι : Nat → Nat}
    (R : HRef h rs next s ι) {r : Nat} (hr : r ∈ rs) : ∃ o, (r, o) ∈ h := by
  have hrl : (h.get r).isSome := by
    apply R.abs.live
    have : 0 < rs.count r := List.count_pos_iff.mpr hr
    rw [Scc.Backend.Sim2.refCount_eq]; omega
  exact Scc.Backend.Sim.heap_get_isSome_mem hrl

theorem imgWord_toNat {ι : Nat → Nat} {r : Word} (h : r ≠ 0 → ι r.toNat < 2 ^ 64) :
    (imgWord ι r).toNat = imgW ι r := by
  unfold imgWord imgW
  by_cases h0 : r = 0
  · simp [h0]
  · rw [if_neg h0, if_neg h0]
    simp [BitVec.toNat_ofNat, Nat.mod_eq_of_lt (h h0)]

/-! ## the machine side -/

/-- `X3R` does not look at the abstract program counter -/
theorem X3R.setPc {c : MemCfg} {Γ : Ctx} {cfg : Config} {rs : List Nat} {hs : HState} {ι : Nat → Nat} {κ : Nat → Nat → Word}
    {σ : State} {out : List (Bool × Word)} (X : X3R c Γ cfg rs hs ι κ σ out) (pc : Nat) :
    X3R c Γ { cfg with pc := pc } rs hs ι κ σ out :=
  ⟨X.core, X.cap, X.words, X.ptrs, X.out, X.hrel, X.href⟩

theorem X3R.spOk {c : MemCfg} (H : CfgCC c) {Γ : Ctx} {cfg : Config} {rs : List Nat} {hs : HState}
    {ι : Nat → Nat} {κ : Nat → Nat → Word} {σ : State} {out : List (Bool × Word)} (X : X3R c Γ cfg rs hs ι κ σ out) :
    SpOk c σ.sp 144 := spOkS_of_core H X.core

theorem tempVal_x0 (σ : State) : σ.tempVal (.register (.x 0)) = σ.reg 0 := tempVal_reg xreg_0

theorem xreg_1 : xreg 1 = some (1 : Fin 31) := by decide

theorem tempVal_x1 (σ : State) : σ.tempVal (.register (.x 1)) = σ.reg 1 := tempVal_reg xreg_1

/-- the heap view survives whatever keeps the heap memory, X0 (HEAP) and X1 (FREE) -/
theorem heapRel_of_keep {c : MemCfg} {σ σ' : State} {hs : HState} (R : HeapRel c σ hs)
    (hh : σ'.heap = σ.heap) (h0 : σ'.reg 0 = σ.reg 0) (h1 : σ'.reg 1 = σ.reg 1) : HeapRel c σ' hs := by
  refine ⟨R.base, R.limit, fun a => by rw [hh]; exact R.mem a, ?_, ?_⟩
  · obtain ⟨w, hw, e⟩ := R.heap
    refine ⟨w, ?_, e⟩
    rw [HEAP_eq, tempVal_x0] at hw ⊢
    rw [h0]; exact hw
  · obtain ⟨w, hw, e⟩ := R.free
    refine ⟨w, ?_, e⟩
    rw [FREE_eq, tempVal_x1] at hw ⊢
    rw [h1]; exact hw

theorem heapRel_frame {c : MemCfg} {σ σ' : State} {hs : HState} (R : HeapRel c σ hs) {t : Temporary}
    (ht : t.isVar) (F : Frame σ σ' t) : HeapRel c σ' hs :=
  heapRel_of_keep R F.heap (F.low ht 0 (by decide)) (F.low ht 1 (by decide))

theorem heapRel_frame0 {c : MemCfg} {σ σ' : State} {hs : HState} (R : HeapRel c σ hs)
    (F : Frame0 σ σ') : HeapRel c σ' hs :=
  heapRel_of_keep R F.heap (F.regs 0 (by decide) (by decide)) (F.regs 1 (by decide) (by decide))

/-- `Frame0` (only TEMP, TEMP2 and the flags change) keeps the relation -/
theorem X3R.keep {c : MemCfg} {Γ : Ctx} {cfg : Config} {rs : List Nat} {hs : HState}
    {ι : Nat → Nat} {κ : Nat → Nat → Word} {σ σ' : State} {out : List (Bool × Word)} (X : X3R c Γ cfg rs hs ι κ σ out)
    (C' : Core c σ') (F : Frame0 σ σ') : X3R c Γ cfg rs hs ι κ σ' out := by
  have hkeep : ∀ t, t < 281 → σ'.tempVal (posTemp t) = σ.tempVal (posTemp t) :=
    fun t ht => F.temp (isVar_posTemp ht)
  refine ⟨C', X.cap, ?_, ?_, X.out, heapRel_frame0 X.hrel F, X.href⟩
  · intro i hi a ha
    rw [hkeep _ (by have := X.cap; omega)]
    exact X.words i hi a ha
  · intro i hi hc r hr
    rw [hkeep _ (by have := X.cap; omega)]
    exact X.ptrs i hi hc r hr

/-- the word part of a NEW last position is written (its pointer part, if it has one, is in place); for a
closure the machine word is arbitrary -/
theorem X3R.snocW {c : MemCfg} {Γ0 : Ctx} {b : Binding} {cfg1 cfg2 : Config} {rs : List Nat}
    {hs : HState} {ι : Nat → Nat} {κ : Nat → Nat → Word} {σ1 σ2 : State} {out : List (Bool × Word)}
    (X : X3R c Γ0 cfg1 rs hs ι κ σ1 out) (hcap : 2 * Γ0.length + 1 < 281)
    (C2 : Core c σ2)
    (F : Frame σ1 σ2 (posTemp (2 * Γ0.length + 1)))
    {a v : Word} (hv : σ2.tempVal (posTemp (2 * Γ0.length + 1)) = some v)
    (hvv : b.chi ≠ .cns → v = trW b.chi a)
    (htemps : cfg2.temps = (clobberTemp cfg1.temps).set (2 * Γ0.length + 1) a)
    (hheap : cfg2.heap = cfg1.heap) (hnext : cfg2.next = cfg1.next) (hout : cfg2.out = cfg1.out)
    (hptr : b.chi ≠ .ext → ∀ r, cfg1.temps.get (2 * Γ0.length) = some r →
      σ1.tempVal (posTemp (2 * Γ0.length)) = some (imgWord ι r)) :
    X3R c (Γ0 ++ [b]) cfg2 rs hs ι κ σ2 out := by
  have hkeep : ∀ t, t < 281 → t ≠ 2 * Γ0.length + 1 →
      σ2.tempVal (posTemp t) = σ1.tempVal (posTemp t) :=
    fun t ht hne => F.temp (isVar_posTemp ht) (fun e => hne (posTemp_inj.1 e))
  have hget : ∀ t, t ≠ 2 * Γ0.length + 1 → t < 281 → cfg2.temps.get t = cfg1.temps.get t := by
    intro t hne ht
    rw [htemps, get_set_other _ _ hne, get_clobberTemp _ (by unfold Mock.T_TEMP; omega)]
  refine ⟨C2, by simp; omega, ?_, ?_, by rw [hout]; exact X.out,
    heapRel_frame X.hrel (isVar_posTemp hcap) F, ?_⟩
  · intro i hi a' ha'
    simp only [List.length_append, List.length_cons, List.length_nil] at hi
    by_cases hin : i < Γ0.length
    · rw [hget _ (by omega) (by omega)] at ha'
      rw [hkeep _ (by omega) (by omega), List.getElem_append_left hin]
      exact X.words i hin a' ha'
    · have hie : i = Γ0.length := by omega
      subst hie
      rw [htemps, get_set_same] at ha'
      injection ha' with ha'
      subst ha'
      have hb : (Γ0 ++ [b])[Γ0.length] = b := by simp
      rw [hb]
      exact words_of hv hvv
  · intro i hi hc r hr
    simp only [List.length_append, List.length_cons, List.length_nil] at hi
    by_cases hin : i < Γ0.length
    · rw [hget _ (by omega) (by omega)] at hr
      rw [hkeep _ (by omega) (by omega)]
      rw [List.getElem_append_left hin] at hc
      exact X.ptrs i hin hc r hr
    · have hie : i = Γ0.length := by omega
      subst hie
      have hc' : b.chi ≠ .ext := by simpa using hc
      rw [hget _ (by omega) (by omega)] at hr
      rw [hkeep _ (by omega) (by omega)]
      exact hptr hc' r hr
  · rw [hheap, hnext]
    exact X.href

/-- the same for a word part that is a function of the abstract word -/
theorem X3R.snoc {c : MemCfg} {Γ0 : Ctx} {b : Binding} {cfg1 cfg2 : Config} {rs : List Nat}
    {hs : HState} {ι : Nat → Nat} {κ : Nat → Nat → Word} {σ1 σ2 : State} {out : List (Bool × Word)}
    (X : X3R c Γ0 cfg1 rs hs ι κ σ1 out) (hcap : 2 * Γ0.length + 1 < 281)
    (C2 : Core c σ2)
    (F : Frame σ1 σ2 (posTemp (2 * Γ0.length + 1)))
    {a : Word} (hv : σ2.tempVal (posTemp (2 * Γ0.length + 1)) = some (trW b.chi a))
    (htemps : cfg2.temps = (clobberTemp cfg1.temps).set (2 * Γ0.length + 1) a)
    (hheap : cfg2.heap = cfg1.heap) (hnext : cfg2.next = cfg1.next) (hout : cfg2.out = cfg1.out)
    (hptr : b.chi ≠ .ext → ∀ r, cfg1.temps.get (2 * Γ0.length) = some r →
      σ1.tempVal (posTemp (2 * Γ0.length)) = some (imgWord ι r)) :
    X3R c (Γ0 ++ [b]) cfg2 rs hs ι κ σ2 out :=
  X3R.snocW X hcap C2 F hv (fun _ => rfl) htemps hheap hnext hout hptr

/-- `Core` survives a memory operation (`FrameT`: SP and the stack outside the spill area are kept) -/
theorem core_frameT {c : MemCfg} (H : CfgCC c) {σ σ' : State} (C : Core c σ) {ch : Temporary → Prop}
    (F : FrameT σ σ' ch) : Core c σ' := by
  have hr := H.room; have ht := H.ok.top
  have hS := C.spNat H
  have hsp := spOkS_of_core H C
  refine ⟨by rw [F.sp]; exact C.sp, ?_⟩
  have hout : ∀ a, c.stackTop - 96 ≤ a → σ'.slot a = σ.slot a := by
    intro a ha
    apply F.outside
    intro p hp e
    have := slotAddr_eq hsp (p := p) (by rw [SPILL_NUM_eq]; exact hp)
    rw [e, this, hS] at ha
    omega
  intro k hk
  rw [hout _ (by omega), hout _ (by omega)]
  exact C.saved k hk

/-! ## what a step keeps of the positions (for the closure invariant, RefClos*.lean) -/

/-- the first `n` positions are untouched: their abstract temporaries, and the machine's temporaries that
hold their word parts -/
structure KeepPos (n : Nat) (cfg cfg' : Config) (σ σ' : State) : Prop where
  temps : ∀ t, t < 2 * n → cfg'.temps.get t = cfg.temps.get t
  mach : ∀ i, i < n → σ'.tempVal (posTemp (2 * i + 1)) = σ.tempVal (posTemp (2 * i + 1))

/-- the machine's temporaries of all positions are untouched -/
def MachKeep (σ σ' : State) : Prop :=
  ∀ t, t < 281 → σ'.tempVal (posTemp t) = σ.tempVal (posTemp t)

theorem MachKeep.refl (σ : State) : MachKeep σ σ := fun _ _ => rfl

theorem MachKeep.trans {a b c : State} (h1 : MachKeep a b) (h2 : MachKeep b c) : MachKeep a c :=
  fun t ht => (h2 t ht).trans (h1 t ht)

theorem MachKeep.of_frame0 {σ σ' : State} (F : Frame0 σ σ') : MachKeep σ σ' :=
  fun t ht => F.temp (isVar_posTemp ht)

/-- `Frame` on the temporary of a position keeps the temporaries of the other positions -/
theorem mach_keep_frame {σ σ' : State} {t0 : Nat} (F : Frame σ σ' (posTemp t0)) {t : Nat} (ht : t < 281)
    (hne : t ≠ t0) : σ'.tempVal (posTemp t) = σ.tempVal (posTemp t) :=
  F.temp (isVar_posTemp ht) (fun e => hne (posTemp_inj.1 e))

end Scc.A64.Ref.K
