/-
  Scc.A64.Instr — the instruction type of the AArch64 backend crate and its printer:
  /repo/lang/axcut2aarch64/src/config.rs (`Register`, `Spill`, `Temporary`, `Immediate` and their
  `Print` impls) and code.rs (`enum Code`, `impl Print for Code`), plus the translation of a `Code`
  to the instruction of the machine model (Machine.lean) that its printed text parses to.
  Core imports only; executable.
-/
import Scc.A64.Machine

namespace Scc.A64

/-- config.rs: enum Register (LOGICAL numbering: `X(r)` with r ≥ 18 prints as `X{r+1}`) -/
inductive Register where
  | x (r : Nat)
  | sp
  | xzr
  deriving DecidableEq, Repr, Inhabited

/-- config.rs: enum Temporary (with `Spill(pub usize)` inlined) -/
inductive Temporary where
  | register (r : Register)
  | spill (position : Nat)
  deriving DecidableEq, Repr, Inhabited

/-- code.rs: enum Code. `Immediate { val: i64 }` is an `Int`. -/
inductive Code where
  | ADD (x y z : Register)
  | ADDI (x y : Register) (i : Int)
  | SUB (x y z : Register)
  | SUBI (x y : Register) (i : Int)
  | MUL (x y z : Register)
  | SDIV (x y z : Register)
  | MSUB (x y z v : Register)
  | B (l : String)
  | BR (r : Register)
  | BL (l : String)
  | ADR (r : Register) (l : String)
  | MOVR (x y : Register)
  | MOVZ (r : Register) (i s : Int)
  | MOVN (r : Register) (i s : Int)
  | MOVK (r : Register) (i s : Int)
  | LDR (r b : Register) (i : Int)
  | LDP_POST_INDEX (r1 r2 b : Register) (i : Int)
  | STR (r b : Register) (i : Int)
  | STP_PRE_INDEX (r1 r2 b : Register) (i : Int)
  | CMPR (x y : Register)
  | CMPI (x : Register) (i : Int)
  | BEQ (l : String)
  | BNE (l : String)
  | BLT (l : String)
  | BLE (l : String)
  | BGT (l : String)
  | BGE (l : String)
  | RET
  | LAB (l : String)
  | TEXT
  | GLOBAL (l : String)
  | COMMENT (msg : String)
  deriving DecidableEq, Repr, Inhabited

/-! ## Printer -/

/-- config.rs: impl Print for Register -/
def Register.print : Register → String
  | .x r => if r < consts.skippedRegister then "X" ++ toString r else "X" ++ toString (r + 1)
  | .sp => "SP"
  | .xzr => "XZR"

/-- config.rs: impl Print for Immediate -/
def immPrint (i : Int) : String := toString i

/-- code.rs: impl Print for Code (`INDENT` = four blanks, `COMMA` = ",", `COLON` = ":") -/
def printCode : Code → String
  | .ADD x y z => "    ADD " ++ x.print ++ ", " ++ y.print ++ ", " ++ z.print
  | .ADDI x y i => "    ADD " ++ x.print ++ ", " ++ y.print ++ ", " ++ immPrint i
  | .SUB x y z => "    SUB " ++ x.print ++ ", " ++ y.print ++ ", " ++ z.print
  | .SUBI x y i => "    SUB " ++ x.print ++ ", " ++ y.print ++ ", " ++ immPrint i
  | .MUL x y z => "    MUL " ++ x.print ++ ", " ++ y.print ++ ", " ++ z.print
  | .SDIV x y z => "    SDIV " ++ x.print ++ ", " ++ y.print ++ ", " ++ z.print
  | .MSUB x y z v => "    MSUB " ++ x.print ++ ", " ++ y.print ++ ", " ++ z.print ++ ", " ++ v.print
  | .B l => "    B " ++ l
  | .BR r => "    BR " ++ r.print
  | .BL l => "    BL " ++ l
  | .ADR r l => "    ADR " ++ r.print ++ ", " ++ l
  | .MOVR x y => "    MOV " ++ x.print ++ ", " ++ y.print
  | .MOVZ r i s => "    MOVZ " ++ r.print ++ ", " ++ immPrint i ++ ", LSL " ++ immPrint s
  | .MOVN r i s => "    MOVN " ++ r.print ++ ", " ++ immPrint i ++ ", LSL " ++ immPrint s
  | .MOVK r i s => "    MOVK " ++ r.print ++ ", " ++ immPrint i ++ ", LSL " ++ immPrint s
  | .LDR r b i => "    LDR " ++ r.print ++ ", [ " ++ b.print ++ ", " ++ immPrint i ++ " ]"
  | .LDP_POST_INDEX r1 r2 b i =>
    "    LDP " ++ r1.print ++ ", " ++ r2.print ++ ", [ " ++ b.print ++ " ], " ++ immPrint i
  | .STR r b i => "    STR " ++ r.print ++ ", [ " ++ b.print ++ ", " ++ immPrint i ++ " ]"
  | .STP_PRE_INDEX r1 r2 b i =>
    "    STP " ++ r1.print ++ ", " ++ r2.print ++ ", [ " ++ b.print ++ ", " ++ immPrint i ++ " ]!"
  | .CMPR x y => "    CMP " ++ x.print ++ ", " ++ y.print
  | .CMPI x i => "    CMP " ++ x.print ++ ", " ++ immPrint i
  | .BEQ l => "    BEQ " ++ l
  | .BNE l => "    BNE " ++ l
  | .BLT l => "    BLT " ++ l
  | .BLE l => "    BLE " ++ l
  | .BGT l => "    BGT " ++ l
  | .BGE l => "    BGE " ++ l
  | .RET => "    RET"
  | .LAB l => "\n" ++ l ++ ":"
  | .TEXT => ".text"
  | .GLOBAL l => ".global " ++ l
  | .COMMENT msg => "    // " ++ msg

/-- coder.rs: impl Print for AssemblyProg (`intersperse(instructions, line())`) -/
def printProg (instructions : List Code) : String :=
  "\n".intercalate (instructions.map printCode)

/-! ## From backend instructions to machine instructions -/

/-- The architectural register a logical register is printed as (`none`: not a register of the
machine, e.g. `X(31)`). -/
def Register.toReg : Register → Option Reg
  | .x r => if h : archNumber r < 31 then some (.x ⟨archNumber r, h⟩) else none
  | .sp => some .sp
  | .xzr => some .xzr

/-- The machine instruction that the printed text of a `Code` parses to (`none` for labels,
directives and comments, and for registers that do not exist). -/
def Code.toInstr : Code → Option Instr
  | .ADD x y z => do pure (.add (← x.toReg) (← y.toReg) (← z.toReg))
  | .ADDI x y i => do pure (.addi (← x.toReg) (← y.toReg) i)
  | .SUB x y z => do pure (.sub (← x.toReg) (← y.toReg) (← z.toReg))
  | .SUBI x y i => do pure (.subi (← x.toReg) (← y.toReg) i)
  | .MUL x y z => do pure (.mul (← x.toReg) (← y.toReg) (← z.toReg))
  | .SDIV x y z => do pure (.sdiv (← x.toReg) (← y.toReg) (← z.toReg))
  | .MSUB x y z v => do pure (.msub (← x.toReg) (← y.toReg) (← z.toReg) (← v.toReg))
  | .B l => some (.b l)
  | .BR r => do pure (.br (← r.toReg))
  | .BL l => some (.bl l)
  | .ADR r l => do pure (.adr (← r.toReg) l)
  | .MOVR x y => do pure (.mov (← x.toReg) (← y.toReg))
  | .MOVZ r i s => do pure (.movz (← r.toReg) i s)
  | .MOVN r i s => do pure (.movn (← r.toReg) i s)
  | .MOVK r i s => do pure (.movk (← r.toReg) i s)
  | .LDR r b i => do pure (.ldr (← r.toReg) (← b.toReg) i)
  | .LDP_POST_INDEX r1 r2 b i => do pure (.ldpPost (← r1.toReg) (← r2.toReg) (← b.toReg) i)
  | .STR r b i => do pure (.str (← r.toReg) (← b.toReg) i)
  | .STP_PRE_INDEX r1 r2 b i => do pure (.stpPre (← r1.toReg) (← r2.toReg) (← b.toReg) i)
  | .CMPR x y => do pure (.cmp (← x.toReg) (← y.toReg))
  | .CMPI x i => do pure (.cmpi (← x.toReg) i)
  | .BEQ l => some (.bcond .eq l)
  | .BNE l => some (.bcond .ne l)
  | .BLT l => some (.bcond .lt l)
  | .BLE l => some (.bcond .le l)
  | .BGT l => some (.bcond .gt l)
  | .BGE l => some (.bcond .ge l)
  | .RET => some .ret
  | .LAB _ | .TEXT | .GLOBAL _ | .COMMENT _ => none

/-- Is the printed text of `c` parsed back to `c.toInstr` (resp. to a label / comment / directive)?
Executable statement of "printer and parser agree on this instruction" (checked on every
instruction of every compared program by `runLineCodegen`'s test driver). -/
def Code.roundTrips (c : Code) : Bool :=
  match c, parseLine (printCode c).trimAscii.toString with
  | .LAB l, some (.label l') => l == l'
  | .TEXT, some .directive => true
  | .GLOBAL _, some .directive => true
  | .COMMENT _, some .comment => true
  | .COMMENT _, some (.hook _) => true
  | c, some (.instr i) =>
    match c.toInstr with
    | some j => reprStr i == reprStr j
    | none => false
  | _, _ => false

end Scc.A64
