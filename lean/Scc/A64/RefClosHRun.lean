/-
  Scc.A64.RefClosHRun — THE RUN THEOREM on AArch64 for ALL programs (data types and closures): the
  three-way step (`step3`: all eleven statement forms, from Theorem A's `TheoremA_full` with the machine
  carried along; the closure invariant `XC` of RefClosDefs.lean is part of the relation), the three-way run
  (`run3_aux`), and the composition with the initial state (`programs_holds`: on any laid-out program that
  holds the emitted routine with the addresses of its labels, `HoldsB`).
  NOTE (fork): this file is the closure-aware version of Scc/A64/RefHeapRun.lean (same proofs, the
  three-way relation additionally carries the per-instance code-pointer map `κ`), in the namespace
  `Scc.A64.Ref.K` — as Scc/X86/RefClosHRun.lean is for x86-64.
-/
import Scc.A64.RefClosHInit
import Scc.A64.RefClosInvoke
import Scc.A64.RefCompose
import Scc.Props.C06Generic

set_option linter.unusedVariables false
set_option linter.unusedSimpArgs false

namespace Scc.A64.Ref.K

open Scc Scc.AxCut Scc.AxCut.Pos Scc.Backend Scc.Backend.Abs Scc.Backend.Sim Scc.Backend.Subst Scc.A64 Scc.A64.CC
open Scc.Backend.Sim2 Scc.Backend.Keys
open Scc.Props.C14Generic (LabelSafe)
open Scc.Props.C06Generic (outAfter WithinCapacity Reachable EnoughHeap CodeFits fits_of_codeFits
  kinds_of_fieldsTyped chiTys_fst fresh_of_nodup_snoc take_of_append)
open Scc.Heap (HState InvS InvW)
open Scc.Heap.Refine (HRef FrLe Room)

/-- what the run needs of the program: jump tables of at most 1024 entries (`maxTagsA64`) (the immediate of
`ADD reg, reg, #4·tag` is a 12-bit immediate; Props/C14LoaderA64Names.lean `C14A_inRangeB`).  On AArch64
nothing else is needed: literals of any size are materialised by MOVZ/MOVK, capacities are hypotheses on
the run. -/
def ProgOK (p : AxCut.Prog) : Prop := ∀ d ∈ p.types, d.xtors.length ≤ 1024

theorem xtorPosition_go_lt' : ∀ (xs : List XtorSig) (tag : Ident) (k i : Nat),
    xtorPosition.go tag xs k = some i → i < k + xs.length
  | [], _, _, _, h => by simp [xtorPosition.go] at h
  | x :: xs, tag, k, i, h => by
    simp only [xtorPosition.go] at h
    split at h
    · cases h; simp
    · have := xtorPosition_go_lt' xs tag (k + 1) i h
      simp only [List.length_cons]; omega

theorem FrLe.refl' (s : HState) {δ : Nat} : FrLe s s δ :=
  ⟨rfl, rfl, fun _ _ _ _ _ _ _ _ _ _ J J' => by
    have := (Scc.Heap.InvS.witness_unique J J').2.2; omega⟩

theorem FrLe.mono' {s s' : HState} {a b : Nat} (h : FrLe s s' a) (hab : a ≤ b) : FrLe s s' b :=
  ⟨h.1, h.2.1, fun _ _ _ _ _ _ _ _ _ _ J J' => by have := h.2.2 _ _ _ _ _ _ _ _ _ _ J J'; omega⟩

/-- THE THREE-WAY RELATION at a statement boundary (`kp`: the position in the routine), with the closure
invariant `XC` -/
def Rel3 (c : MemCfg) (cs : List Code) (P : Program) (hooks : Bool) (prog : AxCut.Prog) (st : Pos.State)
    (cfg : Config) (hs : HState) (σ : State) (kp : Nat) : Prop :=
  ∃ (Γ' : Ctx) (ι : Nat → Nat) (κ : Nat → Nat → Word), Γ'.keys = st.ctx.keys ∧ RelX P hooks prog ⟨Γ', st.env, st.stmt⟩ cfg ∧
    X3 c Γ' cfg hs ι κ σ cfg.out ∧ XC P c cs hooks prog.types Γ' st.env cfg κ σ ∧
    ∃ k k' items, (codeStatementR a64Backend hooks natRen prog.types st.stmt Γ').run k = .ok (items, k') ∧
      XAt cs kp items

/-- the three-way simulation claim for one step of the positional machine.  The relation holds again at the
position `kp'`; the machine itself is at item `pcR`, which is the item of `kp'` or ahead of it by `#ctx` hooks
(`Tol`: after the `BR` of an `invoke` of a single-method closure) -/
def StepSim3 (c : MemCfg) (hkf : Code → Bool) (Pm : Prog) (cs : List Code) (P : Program) (hooks : Bool)
    (prog : AxCut.Prog) (st : Pos.State) (cfg : Config) (hs : HState) (σ : State) (kp : Nat) : Prop :=
  match Pos.step prog st with
  | .next st' o =>
    WithinCapacity st'.ctx → 2 * st'.ctx.length ≤ 280 →
    ∃ cfg' hs' σ' kp' pcR, MSteps Pm c σ (pcOf hkf cs kp) cfg.out σ' pcR cfg'.out ∧
      Tol Pm (pcOf hkf cs kp') pcR ∧
      cfg'.out = outAfter o cfg.out ∧ cfg'.next ≤ cfg.next + 1 ∧
      FrLe hs hs' (64 * 140) ∧ Rel3 c cs P hooks prog st' cfg' hs' σ' kp'
  | .done v => ∃ kL σL, MSteps Pm c σ (pcOf hkf cs kp) cfg.out σL (pcOf hkf cs kL) cfg.out ∧
      Pm.items[pcOf hkf cs kL]? = some (.instr .ret) ∧ exitCheck c σL = .done v
  | .stuck _ => True

section Run3

variable {c : MemCfg} (H : CfgCC c) (h8 : c.heapBase % 8 = 0) {hkf : Code → Bool} {Pm : Prog}
  {cs pre : List Code} (HB : HoldsB hkf Pm cs) (hnd : (labs cs).Nodup)
  (hfitX : c.codeBase + 4 * ninstr cs < 2 ^ 64) (hcs : cs = pre ++ cleanup)
  (hclean : "cleanup" ∉ labs pre)

include H h8 HB hnd hfitX hcs hclean in
/-- THE THREE-WAY STEP: Theorem A's `TheoremA_full` with the AArch64 machine carried along, for ALL ELEVEN
statement forms -/
theorem step3 (hooks : Bool) (prog : AxCut.Prog) (kc : Nat) (code : List MockOp) (nargs kc' : Nat)
    (hcomp : (compile mockSym hooks prog).run kc = .ok ((code, nargs), kc'))
    (hsafe : LabelSafe prog = true) (htp : LinTypedProg prog) (hfit : CodeFits code)
    (DX : XDefsAt cs hooks prog) (hprog : ProgOK prog)
    (st : Pos.State) (cfg : Config) (hs : HState) (σ : State) (kp : Nat)
    (R : Rel3 c cs (Program.ofOps code) hooks prog st cfg hs σ kp)
    (T : Pos.StateTyped prog st) (hheap : EnoughHeap cfg)
    (hroom : Room hs (64 * 141)) :
    StepSim3 c hkf Pm cs (Program.ofOps code) hooks prog st cfg hs σ kp := by
  have HA := HB.holdsA
  have Hp := HA.holds
  have hnodup := Scc.Props.C14Generic.labels_unique hooks prog kc code nargs kc' hcomp hsafe
  have D := defsAt_of_compile hooks prog kc code nargs kc' hcomp hnodup
  have hfits := fits_of_codeFits hfit
  obtain ⟨Γ, ρ, s⟩ := st
  obtain ⟨Γ', ι, κ, hk, RX, X3h, C, kx, kx', items, hrunX, hatX⟩ := R
  obtain ⟨hty, henv⟩ := T
  simp only at hk RX hty henv C
  have hlenk : Γ'.length = Γ.length := keys_length hk
  have hlenρ : ρ.length = Γ'.length := RX.len
  have hdef := X3h.mach_def RX
  unfold StepSim3
  have hcapX3 := X3h.cap
  cases hty with
  | lit hn hfr hnext =>
    rename_i x n next fv
    simp only [Pos.step]
    intro hcap hcap2
    obtain ⟨cfg', σ', kp', h1, hm, h2, h3, h4, h5, k1, k1', items', hr', hat', hh, K⟩ :=
      lit_x3 H Hp RX (mem_ids_keys hk hfr)
      (by simp [WithinCapacity] at hcap; omega) X3h hrunX hatX
    exact ⟨cfg', hs, σ', kp', _, by rw [h2]; exact hm, Tol.refl _ _, h2, by omega, FrLe.refl' hs,
      ⟨Γ' ++ [⟨x, .ext, .i64⟩], ι, κ, keys_append hk rfl, h4, by rw [h2]; exact h5,
        C.snoc_int hlenρ K hh _ _, k1, k1', items', hr', hat'⟩⟩
  | op hn ha hb hfr hnext =>
    rename_i x a o b next fv
    simp only [Pos.step]
    cases hra : readInt Γ ρ a with
    | error e => simp
    | ok va =>
      cases hrb : readInt Γ ρ b with
      | error e => simp
      | ok vb =>
        cases hv : Pos.evalOp o va vb with
        | error e => simp [hv]
        | ok v =>
          simp only [hv]
          intro hcap hcap2
          obtain ⟨cfg', σ', kp', h1, hm, h2, h3, h4, h5, k1, k1', items', hr', hat', hh, K⟩ :=
            op_x3 H Hp RX (mem_ids_keys hk hfr)
            (by simp [WithinCapacity] at hcap; omega)
            (by rw [readInt_keys hk]; exact hra) (by rw [readInt_keys hk]; exact hrb) hv X3h hrunX hatX
          exact ⟨cfg', hs, σ', kp', _, by rw [h2]; exact hm, Tol.refl _ _, h2, by omega, FrLe.refl' hs,
            ⟨Γ' ++ [⟨x, .ext, .i64⟩], ι, κ, keys_append hk rfl, h4, by rw [h2]; exact h5,
              C.snoc_int hlenρ K hh _ _, k1, k1', items', hr', hat'⟩⟩
  | print hn ha hnext =>
    rename_i nl a next fv
    simp only [Pos.step]
    cases hra : readInt Γ ρ a with
    | error e => simp
    | ok v =>
      simp only
      intro _ _
      obtain ⟨cfg', σ', kp', h1, hm, h2, h3, h4, h5, k1, k1', items', hr', hat', hh, K⟩ := print_x3 H Hp RX
        (by rw [readInt_keys hk]; exact hra) X3h hrunX hatX
      exact ⟨cfg', hs, σ', kp', _, by rw [h2]; exact hm, Tol.refl _ _, h2, by omega, FrLe.refl' hs,
        ⟨Γ', ι, κ, hk, h4, by rw [h2]; exact h5, C.keep rfl K hh, k1, k1', items', hr', hat'⟩⟩
  | ifc hn ha hb ht he =>
    rename_i srt a b t e
    simp only [Pos.step]
    cases hra : readInt Γ ρ a with
    | error err => simp
    | ok va =>
      cases b with
      | none =>
        simp only
        intro _ _
        obtain ⟨cfg', σ', kp', h1, hm, h2, h3, h4, h5, k1, k1', items', hr', hat', hh, K⟩ :=
          ifc_x3 H Hp hnd (b := none) (vb := 0) RX
          (by rw [readInt_keys hk]; exact hra) rfl X3h hrunX hatX
        exact ⟨cfg', hs, σ', kp', _, by rw [h2]; exact hm, Tol.refl _ _, h2, by omega, FrLe.refl' hs,
          ⟨Γ', ι, κ, hk, h4, by rw [h2]; exact h5, C.keep rfl K hh, k1, k1', items', hr', hat'⟩⟩
      | some b' =>
        simp only
        cases hrb : readInt Γ ρ b' with
        | error err => simp
        | ok vb =>
          simp only
          intro _ _
          obtain ⟨cfg', σ', kp', h1, hm, h2, h3, h4, h5, k1, k1', items', hr', hat', hh, K⟩ :=
            ifc_x3 H Hp hnd (b := some b') (vb := vb) RX
            (by rw [readInt_keys hk]; exact hra) (by simp only; rw [readInt_keys hk]; exact hrb)
            X3h hrunX hatX
          exact ⟨cfg', hs, σ', kp', _, by rw [h2]; exact hm, Tol.refl _ _, h2, by omega, FrLe.refl' hs,
            ⟨Γ', ι, κ, hk, h4, by rw [h2]; exact h5, C.keep rfl K hh, k1, k1', items', hr', hat'⟩⟩
  | exit hn ha =>
    rename_i a
    simp only [Pos.step]
    cases hra : readInt Γ ρ a with
    | error e => simp
    | ok v =>
      simp only
      obtain ⟨kL, σL, e1, e2, e3, _⟩ := exit_x3 H Hp hcs hclean RX (by rw [readInt_keys hk]; exact hra) X3h
        hrunX hatX
      exact ⟨kL, σL, e1, e2, e3⟩
  | call hn hf hc =>
    rename_i l args params
    simp only [Pos.step]
    cases hd : Pos.findDef prog.defs l with
    | none => simp
    | some d =>
      simp only
      by_cases hsh : Pos.chiTys Γ ≠ Pos.chiTys d.ctx ∨ ρ.length ≠ Γ.length
      · simp [hsh]
      · simp only [hsh, if_false]
        intro _ _
        have hchi : Pos.chiTys Γ = Pos.chiTys d.ctx := by
          by_cases h : Pos.chiTys Γ = Pos.chiTys d.ctx
          · exact h
          · exact absurd (Or.inl h) hsh
        obtain ⟨cfg', σ', kp', h1, hm, h2, h3, h4, h5, k1, k1', items', hr', hat', hh, K⟩ :=
          call_x3 Hp hnd RX D DX hd
          (by rw [keys_chiTys hk]; exact hchi) X3h hrunX hatX
        have hdm : d ∈ prog.defs := List.mem_of_find?_eq_some hd
        have hchi' : Γ'.map (·.chi) = d.ctx.map (·.chi) := by
          rw [keys_chi hk]
          have := congrArg (List.map (·.1)) hchi
          simpa [Pos.chiTys, Function.comp_def] using this
        exact ⟨cfg', hs, σ', kp', _, by rw [h2]; exact hm, Tol.refl _ _, h2, by omega, FrLe.refl' hs,
          ⟨d.ctx, ι, κ, rfl, h4, by rw [h2]; exact h5, C.keep hchi' K hh, k1, k1', items', hr', hat'⟩⟩
  | subst hn hhas hnew hnext =>
    rename_i pairs next
    simp only [Pos.step]
    cases hb : Pos.step.build Γ ρ pairs with
    | error e => simp
    | ok vs =>
      simp only
      intro hcap hcap2
      have hnew' : (pairs.map (·.1.var.id)).Nodup := by
        have : ((pairs.map (·.1)).map (·.var.id)).Nodup := hnew
        rw [List.map_map] at this
        exact this
      have hold : ∀ p ∈ pairs, ∃ b ∈ Γ', b.var.id = p.2.id ∧ b.chi = p.1.chi := by
        intro p hp
        obtain ⟨b, hb', hid, hchi, _⟩ := hasVar_keys hk (hhas p hp)
        exact ⟨b, hb', hid, hchi⟩
      have hpl : 2 * pairs.length ≤ 280 := by simpa using hcap2
      obtain ⟨k, cfg', σ', hs', kp', h1, hm, hfr, h2, h3, h4, h5, k1, k1', items', hr', hat', SP⟩ :=
        subst_x3 H h8 Hp hnd RX
        (nodup_keys hk hn) hnew' hold
        (by simpa [WithinCapacity] using hcap) (by rw [build_keys hk]; exact hb) X3h hrunX hatX hpl
      exact ⟨cfg', hs', σ', kp', _, by rw [h2]; exact hm, Tol.refl _ _, h2, by omega, FrLe.mono' hfr (by omega),
        ⟨pairs.map (·.1), ι, κ, rfl, h4, by rw [h2]; exact h5, XC.subst C hlenρ RX.heap h1 h4 SP,
          k1, k1', items', hr', hat'⟩⟩
  | @letS _ Γ0 Γa x ty tag args sig next fv hn hsplit hkeys hs hs' hfr hnext =>
    have hlenA : Γa.length = args.length := keys_length hkeys
    have hsplit' : Γ = Γ0 ++ Γa := hsplit
    have hkA : args.length ≤ Γ.length := by rw [hsplit']; simp; omega
    simp only [Pos.step]
    by_cases hsh : Γ.length < args.length ∨ ρ.length ≠ Γ.length
    · rw [if_pos hsh]; trivial
    · rw [if_neg hsh]
      cases hpos : Pos.tagPosition prog.types ty tag with
      | error e => trivial
      | ok pos =>
        simp only
        intro hcap hcap2
        have hn0 : Γ.length - args.length = Γ0.length := by rw [hsplit']; simp; omega
        have htake : Γ.take (Γ.length - args.length) = Γ0 := by
          rw [← hlenA]; exact take_of_append hsplit'
        have hkt : Ctx.keys (Γ'.take (Γ'.length - args.length)) = Γ0.keys := by
          rw [hlenk, keys_take hk, htake]
        have hargs140 : args.length ≤ 140 := by omega
        obtain ⟨cfg', σ', hs', ι', κ', kp', h1, hm, hfr, h2, h3, h4, h5, k1, k1', items', hr', hat', LP⟩ :=
          let_x3 H h8 Hp hnd RX
          (by rw [hlenk]; exact hkA) (mem_ids_keys hkt hfr) hpos
          (by
            simp only [WithinCapacity, htake, List.length_append, List.length_singleton] at hcap
            rw [hlenk, hn0]; exact hcap) hheap X3h hrunX hatX
          (hroom.mono (by omega))
        obtain ⟨C0, r, hr, hXB⟩ := XC.let_parts C hlenρ (Nat.sub_le _ _) RX.heap hheap hdef LP
        have hNlen : (Γ'.take (Γ'.length - args.length)).length = Γ'.length - args.length := by simp
        have C' := XC.snoc C0 (by simp [hlenρ]) ⟨x, .prd, ty⟩ (.obj pos (ρ.drop (Γ'.length - args.length)))
          (fun w hw => by
            rw [hNlen, hr]
            exact .obj pos _ r _ w hXB)
        rw [hlenk] at h4 h5 C' hr'
        refine ⟨cfg', hs', σ', kp', _, by rw [h2]; exact hm, Tol.refl _ _, h2, h3, FrLe.mono' hfr (by omega),
          ⟨_, ι', κ', ?_, h4, by rw [h2]; exact h5, C', k1, k1', items', hr', hat'⟩⟩
        show Ctx.keys (Γ'.take (Γ.length - args.length) ++ [_]) =
          Ctx.keys (Γ.take (Γ.length - args.length) ++ [_])
        rw [htake, ← hlenk]
        exact keys_append hkt rfl
  | @create _ Γn Γe Γc x ty clauses next fc fn d hn hsplit hkeys hd hm hcl hfr hnext =>
    have hlenE : Γe.length = Γc.length := keys_length hkeys
    have hsplit' : Γ = Γn ++ Γe := hsplit
    have hkA : Γc.length ≤ Γ.length := by rw [hsplit']; simp; omega
    simp only [Pos.step]
    by_cases hsh : Γ.length < Γc.length ∨ ρ.length ≠ Γ.length
    · rw [if_pos hsh]; trivial
    · rw [if_neg hsh]
      simp only
      intro hcap hcap2
      have hn0 : Γ.length - Γc.length = Γn.length := by rw [hsplit']; simp; omega
      have htake : Γ.take (Γ.length - Γc.length) = Γn := by
        rw [← hlenE]; exact take_of_append hsplit'
      have hdrop : Γ.drop (Γ.length - Γc.length) = Γe := by
        rw [hn0, hsplit']; simp
      have hkt : Ctx.keys (Γ'.take (Γ'.length - Γc.length)) = Γn.keys := by
        rw [hlenk, keys_take hk, htake]
      have hkd : Ctx.keys (Γ'.drop (Γ'.length - Γc.length)) = Γc.keys := by
        rw [hlenk, keys_drop hk, hdrop]; exact hkeys
      have hc140 : Γc.length ≤ 140 := by omega
      obtain ⟨cfg', σ', hs', ι', κ', kp', h1, hmm, hfr, h2, h3, h4, h5, k1, k1', items', hr', hat', LP, a, w0, ha, hw0,
        hmeth, hxm⟩ := create_x3 H h8 Hp hnd HB hcs RX (by rw [hlenk]; exact hkA) hkd (mem_ids_keys hkt hfr)
          (by
            simp only [WithinCapacity, htake, List.length_append, List.length_singleton] at hcap
            rw [hlenk, hn0]; exact hcap) hheap X3h hrunX hatX (hroom.mono (by omega))
      obtain ⟨C0, r, hr, hXB⟩ := XC.let_parts C hlenρ (Nat.sub_le _ _) RX.heap hheap hdef LP
      have hNlen : (Γ'.take (Γ'.length - Γc.length)).length = Γ'.length - Γc.length := by simp
      have C' := XC.snoc C0 (by simp [hlenρ]) ⟨x, .cns, ty⟩ (.clo Γc (ρ.drop (Γ'.length - Γc.length)) clauses)
        (fun w hw => by
          rw [hNlen, hr, ha]
          rw [hNlen, hw0] at hw
          injection hw with hw
          subst hw
          exact .clo Γc _ _ clauses r a w0 hkd hXB hmeth hxm)
      rw [hlenk] at h4 h5 C' hr'
      refine ⟨cfg', hs', σ', kp', _, by rw [h2]; exact hmm, Tol.refl _ _, h2, h3, FrLe.mono' hfr (by omega),
        ⟨_, ι', κ', ?_, h4, by rw [h2]; exact h5, C', k1, k1', items', hr', hat'⟩⟩
      show Ctx.keys (Γ'.take (Γ.length - Γc.length) ++ [_]) =
        Ctx.keys (Γ.take (Γ.length - Γc.length) ++ [_])
      rw [htake, ← hlenk]
      exact keys_append hkt rfl
  | @switch _ Γ0 b x ty cls fv d hn hsplit hb hd hm hcl =>
    subst hsplit
    obtain ⟨ρ', v, rfl, hρ', hv⟩ := Pos.env_last henv
    have hbid : b.var.id = x.id := congrArg (·.1) hb
    have hbchi : b.chi = .prd := congrArg (·.2.1) hb
    have hbty : b.ty = ty := congrArg (·.2.2) hb
    rw [hbchi, hbty] at hv
    have hlen : (ρ' ++ [v]).length = (Γ0 ++ [b]).length := by
      rw [henv.length_eq, Pos.chiTys_length]
    have hcnd : ¬ (b.var.id ≠ x.id ∨ (ρ' ++ [v]).length ≠ (Γ0 ++ [b]).length) := by
      simp [hbid, hlen]
    cases hv with
    | obj hd' hx hf =>
      rename_i d' tag xt fields
      have := Pos.lookupTypeDecl_unique hd hd'
      subst this
      obtain ⟨cl, hc1, hc2, hc3⟩ := Pos.nthClause_ok d.xtors cls tag xt hm hx
      have hfl : fields.length = cl.ctx.length := by
        rw [hf.length_eq, hc2, Pos.chiTys_length]
      simp only [Pos.step, List.getLast?_concat, if_neg hcnd, hc1, hfl, ne_eq, not_true_eq_false,
        if_false, List.dropLast_concat]
      intro hcap hcap2
      obtain ⟨Γ0', b', rfl, hk0, hkb⟩ := keys_snoc hk
      have hb'id : b'.var.id = x.id := by
        have := congrArg (·.1) hkb
        simp only [Binding.key] at this
        rw [this]; exact hbid
      have hb'chi : b'.chi = .prd := by
        have := congrArg (·.2.1) hkb
        simp only [Binding.key] at this
        rw [this]; exact hbchi
      have hkinds : fields.map Sim2.kindOf = Mock.kindsOf cl.ctx := by
        rw [kinds_of_fieldsTyped hf, hc2, chiTys_fst]
      have hfr : x.id ∉ Γ0.ids := by rw [← hbid]; exact fresh_of_nodup_snoc hn
      have hlen0 : ρ'.length = Γ0'.length := by simpa using hlenρ
      obtain ⟨k, cfg', σ', hs', kp', h1, hmm, hfr', h2, h3, h4, h5, k1, k1', items', hr', hat', LP⟩ :=
        switch_x3 H h8 HA hnd hfitX RX
        hfits hb'id (mem_ids_keys hk0 hfr) hc1 hkinds
        (by
          simp only [WithinCapacity, List.length_append] at hcap
          rw [keys_length hk0]; exact hcap) X3h hrunX hatX
        (by
          simp only [List.length_append] at hcap2
          rw [keys_length hk0]; exact hcap2)
      have hXB : ∀ r, cfg.temps.get (2 * Γ0'.length) = some r →
          XB (Program.ofOps code) c cs hooks prog.types cfg.heap κ fields r := by
        intro r hr
        have hi1 : Γ0'.length < (Γ0' ++ [b']).length := by simp
        have hi2 : Γ0'.length < (ρ' ++ [Value.obj tag fields]).length := by simp [hlen0]
        obtain ⟨w, hw⟩ := Option.isSome_iff_exists.mp (hdef _ hi1)
        have hC := C _ hi1 hi2 w hw
        have g1 : (Γ0' ++ [b'])[Γ0'.length] = b' := by simp
        have g2 : (ρ' ++ [Value.obj tag fields])[Γ0'.length] = .obj tag fields := by
          rw [List.getElem_append_right (by omega)]; simp [hlen0]
        rw [g1, g2, hb'chi, hr] at hC
        obtain ⟨r', hr', hB⟩ := hC.obj_inv
        simp only [show ((Chi.prd == Chi.ext) = true) = False from by decide, if_false,
          Option.some.injEq] at hr'
        rw [hr']; exact hB
      exact ⟨cfg', hs', σ', kp', _, by rw [h2]; exact hmm, Tol.refl _ _, h2, by omega, FrLe.mono' hfr' (by omega),
        ⟨Γ0' ++ cl.ctx, ι, κ, keys_append hk0 rfl, h4, by rw [h2]; exact h5,
          XC.load C hlen0 rfl RX.heap h1 h4 hkinds LP hXB, k1, k1', items', hr', hat'⟩⟩
  | @invoke _ Γa b x tag ty args sig hn hsplit hb hs hs' =>
    subst hsplit
    obtain ⟨ρ', v, rfl, hρ', hv⟩ := Pos.env_last henv
    have hbid : b.var.id = x.id := congrArg (·.1) hb
    have hbchi : b.chi = .cns := congrArg (·.2.1) hb
    have hbty : b.ty = ty := congrArg (·.2.2) hb
    rw [hbchi, hbty] at hv
    have hlen : (ρ' ++ [v]).length = (Γa ++ [b]).length := by
      rw [henv.length_eq, Pos.chiTys_length]
    have hcnd : ¬ (b.var.id ≠ x.id ∨ (ρ' ++ [v]).length ≠ (Γa ++ [b]).length) := by
      simp [hbid, hlen]
    obtain ⟨d, xt, i, hd, hx, hxs, htp'⟩ := Pos.tagPosition_ok hs
    cases hv with
    | clo hd' hm hf hcl =>
      rename_i d' Γc env cls
      have := Pos.lookupTypeDecl_unique hd hd'
      subst this
      obtain ⟨cl, hc1, hc2, hc3⟩ := Pos.nthClause_ok d.xtors cls i xt hm hx
      have hal : (Γa ++ [b]).length - 1 = cl.ctx.length := by
        have : Γa.length = cl.ctx.length := by
          rw [← Pos.chiTys_length Γa, hs', ← hxs, hc2, Pos.chiTys_length]
        simp [this]
      simp only [Pos.step, List.getLast?_concat, if_neg hcnd, htp', hc1, hal, ne_eq, not_true_eq_false,
        if_false, List.dropLast_concat]
      intro hcap hcap2
      obtain ⟨Γa', b', rfl, hk0, hkb⟩ := keys_snoc hk
      have hb'id : b'.var.id = x.id := by
        have := congrArg (·.1) hkb
        simp only [Binding.key] at this
        rw [this]; exact hbid
      have hb'chi : b'.chi = .cns := by
        have := congrArg (·.2.1) hkb
        simp only [Binding.key] at this
        rw [this]; exact hbchi
      have hkinds : env.map Sim2.kindOf = Mock.kindsOf Γc := by
        rw [kinds_of_fieldsTyped hf, chiTys_fst]
      have hfr : x.id ∉ Γa.ids := by rw [← hbid]; exact fresh_of_nodup_snoc hn
      have hargs : Γa'.map (·.chi) = cl.ctx.map (·.chi) := by
        rw [keys_chi hk0]
        have h1 : Ctx.chiTys Γa = Ctx.chiTys cl.ctx := by rw [hs', ← hxs, hc2]
        have := congrArg (List.map (·.1)) h1
        simpa [Ctx.chiTys, Function.comp_def] using this
      have hlen0 : ρ'.length = Γa'.length := by simpa using hlenρ
      -- the closure at the last position: its methods on both sides
      have hi1 : Γa'.length < (Γa' ++ [b']).length := by simp
      have hi2 : Γa'.length < (ρ' ++ [Value.clo Γc env cls]).length := by simp [hlen0]
      obtain ⟨w, hw⟩ := Option.isSome_iff_exists.mp (hdef _ hi1)
      have hC := C _ hi1 hi2 w hw
      have g2 : (ρ' ++ [Value.clo Γc env cls])[Γa'.length] = .clo Γc env cls := by
        rw [List.getElem_append_right (by omega)]; simp [hlen0]
      rw [g2] at hC
      obtain ⟨r0, a, envCtx', hp0, ha0, hke, hXB0, hmeth, hxm⟩ := hC.clo_inv
      obtain ⟨_, hsome, _, _⟩ := RX.vals _ hi1 hi2
      obtain ⟨aw, haw⟩ := Option.isSome_iff_exists.mp hsome
      have hword : cfg.temps.get (2 * Γa'.length + 1) = some (BitVec.ofNat 64 a) := by
        rw [haw] at ha0 ⊢
        simp only [Option.getD_some] at ha0
        rw [ha0]
      have hposlt : i < d.xtors.length := by
        obtain ⟨dT, hdT, hxT⟩ := tagPosition_ok htp'
        have := Pos.lookupTypeDecl_unique hd hdT
        subst this
        have := xtorPosition_go_lt' d.xtors tag 0 i hxT
        omega
      have hdm : d ∈ prog.types := by
        cases ty with
        | i64 => simp [lookupTypeDecl] at hd
        | decl nm => exact List.mem_of_find?_eq_some hd
      have hpos12 : i < 1024 := by
        have := hprog d hdm
        omega
      have hcapW : 2 * (cl.ctx.length + Γc.length) + 2 < Mock.T_TEMP := by
        simpa [WithinCapacity] using hcap
      obtain ⟨k, cfg', σ', hs', kp', pcR, h1, hmm, T', hfr', h2, h3, h4, h5, k1, k1', items', hr', hat', LP⟩ :=
        invoke_x3 H h8 HB hnd hfitX hcs RX hfits hb'id (mem_ids_keys hk0 hfr) htp' hc1
        (fun d0 hd0 => by
          have := Pos.lookupTypeDecl_unique hd hd0
          subst this
          exact Scc.Props.C06Generic.clausesMatch_length _ _ hm)
        hargs hkinds hcapW X3h hke hword hmeth hw hxm hrunX hatX
        (by simpa using hcap2) hpos12
      have hXB : ∀ r, cfg.temps.get (2 * Γa'.length) = some r →
          XB (Program.ofOps code) c cs hooks prog.types cfg.heap κ env r := by
        intro r hr
        have g1 : (Γa' ++ [b'])[Γa'.length] = b' := by simp
        rw [g1, hb'chi, hr] at hp0
        simp only [show ((Chi.cns == Chi.ext) = true) = False from by decide, if_false,
          Option.some.injEq] at hp0
        rw [hp0]; exact hXB0
      have hkinds' : env.map Sim2.kindOf = Mock.kindsOf envCtx' := by
        rw [show Mock.kindsOf envCtx' = Mock.kindsOf Γc from kinds_of_keys hke]; exact hkinds
      exact ⟨cfg', hs', σ', kp', pcR, by rw [h2]; exact hmm, T', h2, by omega, FrLe.mono' hfr' (by omega),
        ⟨cl.ctx ++ envCtx', ι, κ, keys_append rfl hke, h4, by rw [h2]; exact h5,
          XC.load C hlen0 hargs RX.heap h1 h4 hkinds' LP hXB, k1, k1', items', hr', hat'⟩⟩

theorem withinCapacity_of_le {Γ : Ctx} (h : 2 * Γ.length ≤ 280) : WithinCapacity Γ := by
  unfold WithinCapacity
  show 2 * Γ.length + 2 < 1000001
  omega

include H h8 HB hnd hfitX hcs hclean in
/-- THE THREE-WAY RUN: a terminating run of the positional machine from a represented state is reproduced
by the AArch64 machine.  The relation holds at position `kp`, the machine is at item `pcR` (`Tol`) -/
theorem run3_aux (hooks : Bool) (prog : AxCut.Prog) (kc : Nat) (code : List MockOp) (nargs kc' : Nat)
    (hcomp : (compile mockSym hooks prog).run kc = .ok ((code, nargs), kc'))
    (hsafe : LabelSafe prog = true) (htp : LinTypedProg prog) (hfit : CodeFits code)
    (DX : XDefsAt cs hooks prog) (hprog : ProgOK prog) :
    ∀ (fuel : Nat) (st : Pos.State) (acc : List (Bool × Word)) (cfg : Config) (hs : HState) (σ : State)
      (kp pcR : Nat) (out : List (Bool × Word)) (v : Word),
      Pos.StateTyped prog st → (∀ st', Reachable prog st st' → 2 * st'.ctx.length ≤ 280) →
      Tol Pm (pcOf hkf cs kp) pcR →
      Rel3 c cs (Program.ofOps code) hooks prog st cfg hs σ kp →
      cfg.out = acc → cfg.next + fuel < 2 ^ 64 → Room hs (64 * 141 * fuel) →
      Pos.runState prog fuel st acc = ⟨out, .done v⟩ →
      ∃ kL σL outL, MSteps Pm c σ pcR acc σL (pcOf hkf cs kL) outL ∧
        Pm.items[pcOf hkf cs kL]? = some (.instr .ret) ∧ exitCheck c σL = .done v ∧ outL.reverse = out
  | 0, st, acc, cfg, hs, σ, kp, pcR, out, v, _, _, _, _, _, _, _, h => by simp [Pos.runState] at h
  | fuel + 1, st, acc, cfg, hs, σ, kp, pcR, out, v, T, hcap, TL, R, hacc, hnext, hroom, h => by
    have hsim := step3 H h8 HB hnd hfitX hcs hclean hooks prog kc code nargs kc' hcomp hsafe htp hfit
      DX hprog st cfg hs σ kp R T (by unfold EnoughHeap; omega) (hroom.mono (by omega))
    have hsafe' := Pos.step_safe htp st T
    have hw : ∃ rs lin lazy live F, InvS hs rs [] lin lazy live F := by
      obtain ⟨Γ', ι, κ, _, _, X3h, _⟩ := R
      obtain ⟨lin, lazy, live, Fr, I⟩ := X3h.href.conc
      exact ⟨_, lin, lazy, live, Fr, I⟩
    unfold StepSim3 at hsim
    simp only [Pos.runState] at h
    cases hst : Pos.step prog st with
    | stuck w => simp [hst] at h
    | done v' =>
      simp only [hst] at h hsim
      obtain ⟨kL, σL, h1, h2, h3⟩ := hsim
      simp only [Pos.Behaviour.mk.injEq, Pos.Result.done.injEq] at h
      obtain ⟨rfl, rfl⟩ := h
      rw [hacc] at h1
      exact ⟨kL, σL, acc, tol_run_instr h1 TL h2, h2, h3, rfl⟩
    | next st' o =>
      simp only [hst] at h hsim
      rw [hst] at hsafe'
      have hc' := hcap st' (Reachable.step Reachable.refl hst)
      obtain ⟨cfg', hs', σ', kp', pcR', h1, T', h2, h3, hfr, R'⟩ := hsim (withinCapacity_of_le hc') hc'
      have hacc' : cfg'.out = outAfter o acc := by rw [h2, hacc]
      have h' : Pos.runState prog fuel st' (outAfter o acc) = ⟨out, .done v⟩ := by
        cases o <;> exact h
      have hroom' : Room hs' (64 * 141 * fuel) :=
        (hroom.step hfr (by omega) hw).mono (by omega)
      rw [hacc, hacc'] at h1
      rcases tol_run h1 TL with hk | ⟨e1, e2, T2⟩
      · obtain ⟨kL, σL, outL, g1, g2, g3, g4⟩ := run3_aux hooks prog kc code nargs kc' hcomp hsafe htp hfit DX
          hprog fuel st' (outAfter o acc) cfg' hs' σ' kp' pcR' out v hsafe'
          (fun st'' hr => hcap st'' (Scc.Props.C06Generic.reachable_prepend hst hr)) T' R' hacc' (by omega)
          hroom' h'
        exact ⟨kL, σL, outL, hk.trans g1, g2, g3, g4⟩
      · subst e1
        obtain ⟨kL, σL, outL, g1, g2, g3, g4⟩ := run3_aux hooks prog kc code nargs kc' hcomp hsafe htp hfit DX
          hprog fuel st' (outAfter o acc) cfg' hs' σ' kp' pcR out v hsafe'
          (fun st'' hr => hcap st'' (Scc.Props.C06Generic.reachable_prepend hst hr)) (T'.trans T2) R' hacc'
          (by omega) hroom' h'
        rw [e2] at g1
        exact ⟨kL, σL, outL, g1, g2, g3, g4⟩

end Run3

/-! ## the definitions in the routine -/

theorem assemble_split_a64 (hooks : Bool) (ren : Nat → String) (types : List TypeDecl) :
    ∀ (defs : List Def) (c : Nat) (blocks : List (List Code)) (c' : Nat),
      (translateR a64Backend hooks ren types defs).run c = .ok (blocks, c') →
      ∀ d ∈ defs, ∃ pre post ck ck' items,
        assemble a64Backend blocks (defs.map (·.name)) =
          pre ++ Code.LAB (d.name.print ++ "_") :: (items ++ post) ∧
        (codeStatementR a64Backend hooks ren types d.body d.ctx).run ck = .ok (items, ck')
  | [], c, blocks, c', _, d, hd => by simp at hd
  | d0 :: ds, c, blocks, c', h, d, hd => by
    simp only [translateR, run_bind_ok, run_pure_ok] at h
    obtain ⟨is, k1, h1, rest, k2, h2, rfl, rfl⟩ := h
    simp only [List.mem_cons] at hd
    rcases hd with rfl | hd
    · exact ⟨[], assemble a64Backend rest (ds.map (·.name)), c, k1, is, by simp [assemble]; rfl, h1⟩
    · obtain ⟨pre, post, ck, ck', items, e, hr⟩ := assemble_split_a64 hooks ren types ds k1 rest _ h2 d hd
      refine ⟨Code.LAB (d0.name.print ++ "_") :: is ++ pre, post, ck, ck', items, ?_, hr⟩
      simp only [assemble, List.map_cons, e]
      simp
      rfl

/-- every definition's code is in the routine behind its label -/
theorem xdefsAt_of_compile {hooks : Bool} {prog : AxCut.Prog} {c : Nat} {body : List Code} {nargs c' : Nat}
    (hx : (compile a64Backend hooks prog).run c = .ok ((body, nargs), c')) {cs hdr post : List Code}
    (hcs : cs = hdr ++ body ++ post) : XDefsAt cs hooks prog := by
  intro d hd
  unfold compile compileR at hx
  cases hdefs : prog.defs with
  | nil => rw [hdefs] at hd; simp at hd
  | cons d0 ds =>
    simp only [hdefs, run_bind_ok, run_pure_ok] at hx
    obtain ⟨blocks, k, h1, h2, rfl⟩ := hx
    cases h2
    rw [hdefs] at hd
    obtain ⟨pre, post', ck, ck', items, e, hr⟩ := assemble_split_a64 hooks natRen prog.types _ c blocks _ h1 d hd
    have hcs' : cs = (hdr ++ pre) ++ Code.LAB (d.name.print ++ "_") :: (items ++ (post' ++ post)) := by
      rw [hcs, e]; simp [List.append_assoc]
    have hget : cs[(hdr ++ pre).length]? = some (Code.LAB (d.name.print ++ "_")) := by
      rw [hcs']; simp
    refine ⟨(hdr ++ pre).length, ck, ck', items, hget, hr,
      (hdr ++ pre) ++ [Code.LAB (d.name.print ++ "_")], post' ++ post, ?_, by simp; omega⟩
    rw [hcs']; simp [List.append_assoc]

/-! ## the initial state -/

theorem href_init' {base limit : Nat} (ι : Nat → Nat) (hb : 0 < base) (hl : base + 128 ≤ limit) :
    HRef [] [] 1 (Scc.Heap.init base limit) ι := by
  refine ⟨⟨by omega, by simp, by simp, by simp, ?_⟩, by simp, ?_, by simp, by simp⟩
  · intro id hid
    simp [Scc.Backend.Sim.refCount] at hid
  · exact ⟨[base], [], [], base + 64, Scc.Heap.init_inv hb hl⟩

theorem room_init {base limit n : Nat} (hb : 0 < base) (hl : base + 128 ≤ limit) (hn : base + 64 + n ≤ limit) :
    Room (Scc.Heap.init base limit) n := by
  intro rs lin lazy live Fr J
  have := (Scc.Heap.InvS.witness_unique (Scc.Heap.init_inv hb hl) J).2.2
  have hlim : (Scc.Heap.init base limit).limit = limit := rfl
  omega

/-- the right half of the relation at the entry: integer parameters, empty heap -/
theorem x3_init {c : MemCfg} {args : List Word} {σ : State} {Γ : Ctx} {a : Nat}
    (R : RepA64 c .normal (initConfig 0 args) σ [])
    (HR : HeapRel c σ (Scc.Heap.init c.heapBase (c.heapBase + c.heapBytes)))
    (hext : ∀ b ∈ Γ, b.chi = .ext) (hcap : 2 * Γ.length ≤ 280)
    (hb : 0 < c.heapBase) (hl : 128 ≤ c.heapBytes) (ι : Nat → Nat) (κ : Nat → Nat → Word) :
    X3 c Γ (initConfig a args) (Scc.Heap.init c.heapBase (c.heapBase + c.heapBytes)) ι κ σ [] := by
  have hroots : roots Γ (initConfig a args).temps = [] := roots_go_all_ext _ Γ 0 hext
  unfold X3
  rw [hroots]
  refine ⟨R.core, hcap, ?_, ?_, rfl, HR, href_init' ι hb (by omega)⟩
  · intro i hi w hw
    have hc : Γ[i].chi = .ext := hext _ (List.getElem_mem hi)
    rw [hc]
    exact words_of (R.temps (2 * i + 1) w ⟨by omega, by omega⟩ hw) (fun _ => rfl)
  · intro i hi hc
    exact absurd (hext _ (List.getElem_mem hi)) hc



/-- the entry definition's code is the first block of the body, behind its label -/
theorem compile_a64_entry {hooks : Bool} {p : AxCut.Prog} {c : Nat} {body : List Code} {nargs c' : Nat}
    {d0 : Def} (hx : (compile a64Backend hooks p).run c = .ok ((body, nargs), c'))
    (hd : p.defs.head? = some d0) :
    ∃ is rest k k', body = Code.LAB (d0.name.print ++ "_") :: (is ++ rest) ∧
      (codeStatementR a64Backend hooks natRen p.types d0.body d0.ctx).run k = .ok (is, k') ∧
      nargs = d0.ctx.length := by
  unfold compile compileR at hx
  cases hdefs : p.defs with
  | nil => rw [hdefs] at hd; simp at hd
  | cons d ds =>
    rw [hdefs] at hd hx
    simp only [List.head?_cons, Option.some.injEq] at hd
    subst hd
    simp only [run_bind_ok, run_pure_ok, translateR] at hx
    obtain ⟨blocks, c1, ⟨is, c2, h1, rest, c3, h2, rfl, rfl⟩, e, rfl⟩ := hx
    injection e with e1 e2
    refine ⟨is, assemble a64Backend rest (ds.map (·.name)), c, c2, ?_, h1, e2.symm⟩
    rw [← e1]
    rfl

/-! ## THEOREM A ∘ THEOREM B for all programs -/

/-- END TO END for ALL programs (data types and closures), on a laid-out program that HOLDS the emitted
routine (with the facts on item offsets and entries, `HoldsB`): a terminating run of the AxCut
positional machine is reproduced — same trace, same result — by the AArch64 SPEC machine started at
`asm_main`. -/
theorem programs_holds (p : AxCut.Prog) (args : List Word) (hooks : Bool) (body routine : List Code)
    (nargs : Nat) (d0 : Def) (ops : List MockOp) (c' : Nat)
    (hsafe : LabelSafe p = true) (htp : LinTypedProg p) (hprog : ProgOK p)
    (hcompM : (compile mockSym hooks p).run 0 = .ok ((ops, nargs), c')) (hfit : CodeFits ops)
    (hcompX : compileProg a64Backend p hooks 0 = .ok (body, nargs, routine))
    (hnd : (labs routine).Nodup)
    (hd : p.defs.head? = some d0) (hentry : ∀ b ∈ d0.ctx, b.chi = .ext ∧ b.ty = .i64)
    (hcap : ∀ st, Reachable p ⟨d0.ctx, args.map .int, d0.body⟩ st → 2 * st.ctx.length ≤ 280)
    (fuel : Nat) (out : List (Bool × Word)) (v : Word) (hfuel : fuel + 1 < 2 ^ 64)
    (hrun : Pos.run p args fuel = ⟨out, .done v⟩)
    (cfg : MonCfg) (H : CfgCC cfg.mem) (hheap : cfg.heap = false)
    (hb8 : cfg.mem.heapBase % 8 = 0) (hb0 : 0 < cfg.mem.heapBase)
    (hbytes : 128 + 64 * 141 * fuel ≤ cfg.mem.heapBytes)
    {hk : Code → Bool} {P : Prog} (HB : HoldsB hk P routine)
    (hfitX : cfg.mem.codeBase + 4 * ninstr routine < 2 ^ 64) :
    ∃ fuel', (runProg P args fuel' cfg).out = out ∧ (runProg P args fuel' cfg).res = .done v := by
  obtain ⟨c1, hcompA, hrout⟩ := compileProg_ok hcompX
  have HA := HB.holdsA
  have Hp := HA.holds
  have hmem : d0 ∈ p.defs := by
    cases hdefs : p.defs with
    | nil => rw [hdefs] at hd; simp at hd
    | cons d ds => rw [hdefs] at hd; simp at hd; subst hd; simp
  have hnodupD := Scc.Props.C14Generic.labels_unique hooks p 0 ops nargs c' hcompM hsafe
  obtain ⟨_, hnargs⟩ := compile_mock_entry hcompM hd
  -- the run of the positional machine
  have hlen : d0.ctx.length = args.length ∧
      Pos.runState p fuel ⟨d0.ctx, args.map .int, d0.body⟩ [] = ⟨out, .done v⟩ := by
    unfold Pos.run at hrun
    cases hdefs : p.defs with
    | nil => rw [hdefs] at hd; simp at hd
    | cons d ds =>
      rw [hdefs] at hd hrun
      simp only [List.head?_cons, Option.some.injEq] at hd
      subst hd
      simp only at hrun
      by_cases hl : d.ctx.length ≠ args.length
      · simp [hl] at hrun
      · simp only [hl, if_false] at hrun
        exact ⟨by omega, hrun⟩
  obtain ⟨hlen, hrun'⟩ := hlen
  have hc0 := hcap _ Reachable.refl
  simp only at hc0
  rw [hnargs, hlen] at hrout
  have hargs : args.length ≤ 7 := by
    obtain ⟨su, hsu, _⟩ := routine_anatomy hrout
    obtain ⟨moves, hm, _⟩ := setup_eq hsu
    exact CC.moveArguments_le _ _ hm
  -- the header
  obtain ⟨hdr, σ2, hcs, hlabs, hlab, hk0, R, HR⟩ := init_sim3 (c := cfg.mem) H hrout Hp
  -- Theorem A at the entry
  obtain ⟨a, hlabA, RX, hn1⟩ := init_relX hooks p 0 ops nargs c' hcompM hnodupD d0 hmem
    (fun b hb => (hentry b hb).1) args hlen (withinCapacity_of_le hc0)
  have T : Pos.StateTyped p ⟨d0.ctx, args.map .int, d0.body⟩ :=
    ⟨htp d0 hmem, Pos.ints_typed d0.ctx args hlen hentry⟩
  -- the entry definition: its label is the first code of the body
  obtain ⟨is, rest, kx, kx', hbody, hdrun, _⟩ := compile_a64_entry hcompA hd
  have hget : routine[hdr.length]? = some (Code.LAB (d0.name.print ++ "_")) := by
    rw [hcs, hbody]; simp
  have hdat : XAt routine (hdr.length + 1) is :=
    ⟨hdr ++ [Code.LAB (d0.name.print ++ "_")], rest ++ cleanup, by rw [hcs, hbody]; simp, by simp⟩
  have hlabitem : isItem hk (Code.LAB (d0.name.print ++ "_")) = false := by
    cases hh : hk (Code.LAB (d0.name.print ++ "_")) with
    | false => simp [isItem, Code.isMeta, hh]
    | true => obtain ⟨m, e⟩ := Hp.hkComment _ hh; cases e
  have hpc1 : pcOf hk routine (hdr.length + 1) = pcOf hk routine hdr.length := pcOf_noitem hget hlabitem
  have hbytes' : 128 ≤ cfg.mem.heapBytes := by omega
  have X3i : X3 cfg.mem d0.ctx (initConfig a args)
      (Scc.Heap.init cfg.mem.heapBase (cfg.mem.heapBase + cfg.mem.heapBytes)) id (fun _ _ => 0) σ2 [] :=
    x3_init R HR (fun b hb => (hentry b hb).1) hc0 hb0 hbytes' id (fun _ _ => 0)
  have R3 : Rel3 cfg.mem routine (Program.ofOps ops) hooks p ⟨d0.ctx, args.map .int, d0.body⟩ (initConfig a args)
      (Scc.Heap.init cfg.mem.heapBase (cfg.mem.heapBase + cfg.mem.heapBytes)) σ2 (hdr.length + 1) :=
    ⟨d0.ctx, id, fun _ _ => 0, rfl, RX, X3i, fun i h1 h2 w hw => by
      simp only [List.getElem_map]
      exact .int _ _ _ _, kx, kx', is, hdrun, hdat⟩
  have hclean : "cleanup" ∉ labs (hdr ++ body) := by
    rw [hcs, labs_append] at hnd
    have := (List.nodup_append.1 hnd).2.2
    intro hm
    exact this _ hm _ (by simp [labs, labOf, cleanup]) rfl
  obtain ⟨kL, σL, outL, g1, g2, g3, g4⟩ := run3_aux H hb8 HB hnd hfitX hcs hclean hooks p 0 ops nargs c'
    hcompM hsafe htp hfit (xdefsAt_of_compile hcompA hcs) hprog fuel _ [] (initConfig a args) _ _ _ _ out v T hcap
    (Tol.refl _ _) R3 rfl (by rw [hn1]; omega)
    (room_init hb0 (by omega) (by omega)) hrun'
  rw [hpc1] at g1
  -- the run loop
  obtain ⟨n, steps', hn⟩ := runLoop_msteps hheap (hk0.trans g1) 0 0
  refine ⟨n + 1, ?_⟩
  have hrl : runProg P args (n + 1) cfg =
      runLoop P cfg (n + 1) { σ := entryState cfg.mem args, pc := pcOf hk routine 2, out := [], steps := 0,
                              blocks := 0 } := by
    unfold runProg
    simp only [hlab]
    rw [if_neg (by omega)]
  rw [hrl, hn 1]
  obtain ⟨h1, h2⟩ := runLoop_ret (cfg := cfg) g2 g3 outL steps' 0 0
  exact ⟨by rw [h1]; exact g4, h2⟩

end Scc.A64.Ref.K
