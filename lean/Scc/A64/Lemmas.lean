/-
  Scc.A64.Lemmas — proof file: symbolic-execution lemmas for the machine of Machine.lean on the
  instructions of the backend model (Instr.lean / Backend.lean), used by Props/C07A64, C13A64.
-/
import Scc.A64.Exec
import Scc.A64.Backend

namespace Scc.A64

/-! ## registers -/

theorem toReg_x (r : Nat) : (Register.x r).toReg = (xreg r).map Reg.x := by
  unfold Register.toReg xreg
  split <;> simp_all

@[simp] theorem toReg_sp : Register.sp.toReg = some Reg.sp := rfl
@[simp] theorem toReg_xzr : Register.xzr.toReg = some Reg.xzr := rfl

@[simp] theorem Except_bind_ok {ε α β : Type} (a : α) (f : α → Except ε β) :
    (Except.ok a >>= f) = f a := rfl

@[simp] theorem Except_bind_error {ε α β : Type} (e : ε) (f : α → Except ε β) :
    ((Except.error e : Except ε α) >>= f) = Except.error e := rfl

@[simp] theorem Except_pure {ε α : Type} (a : α) : (pure a : Except ε α) = Except.ok a := rfl

@[simp] theorem wrX_regs (σ : State) (n : Fin 31) (w : Word) :
    (σ.wrX n w).regs = σ.regs.set n (some w) := rfl
@[simp] theorem wrX_sp (σ : State) (n : Fin 31) (w : Word) : (σ.wrX n w).sp = σ.sp := rfl
@[simp] theorem wrX_flags (σ : State) (n : Fin 31) (w : Word) : (σ.wrX n w).flags = σ.flags := rfl
@[simp] theorem wrX_heap (σ : State) (n : Fin 31) (w : Word) : (σ.wrX n w).heap = σ.heap := rfl
@[simp] theorem wrX_stack (σ : State) (n : Fin 31) (w : Word) : (σ.wrX n w).stack = σ.stack := rfl
@[simp] theorem wrX_maxHeap (σ : State) (n : Fin 31) (w : Word) : (σ.wrX n w).maxHeap = σ.maxHeap := rfl

theorem wrX_wrX (σ : State) (n : Fin 31) (a b : Word) : (σ.wrX n a).wrX n b = σ.wrX n b := by
  simp [State.wrX]

theorem wrX_same (σ : State) (n : Fin 31) (a : Word) (h : σ.regs[n] = some a) : σ.wrX n a = σ := by
  cases σ
  simp only [State.wrX, State.mk.injEq, and_true]
  simp only at h
  rw [← h]
  simp

theorem rdX_of (σ : State) (n : Fin 31) (a : Word) (h : σ.regs[n] = some a) : σ.rdX n = .ok a := by
  simp [State.rdX, h]

@[simp] theorem regs_set_get (v : Vector (Option Word) 31) (n : Fin 31) (a : Option Word) :
    (v.set n a)[n] = a := by simp

theorem regs_set_get_ne (v : Vector (Option Word) 31) (n m : Fin 31) (a : Option Word) (h : n ≠ m) :
    (v.set n a)[m] = v[m] := by
  have : n.val ≠ m.val := fun e => h (Fin.ext e)
  simp [this]

/-! ## execution of single instructions -/

theorem execCodes_cons (c : MemCfg) (code : Code) (rest : List Code) (σ σ' : State)
    (h : execCode c code σ = .ok σ') : execCodes c (code :: rest) σ = execCodes c rest σ' := by
  simp [execCodes, h]

theorem execCodes_append (c : MemCfg) (l1 l2 : List Code) (σ σ' : State)
    (h : execCodes c l1 σ = .ok σ') : execCodes c (l1 ++ l2) σ = execCodes c l2 σ' := by
  induction l1 generalizing σ with
  | nil => simp [execCodes] at h; subst h; rfl
  | cons a l ih =>
    simp only [execCodes, List.cons_append] at h ⊢
    cases ha : execCode c a σ with
    | error e => simp [ha] at h
    | ok σ1 => simp only [ha] at h ⊢; exact ih σ1 h

@[simp] theorem execCodes_nil (c : MemCfg) (σ : State) : execCodes c [] σ = .ok σ := rfl

theorem execCode_COMMENT (c : MemCfg) (m : String) (σ : State) : execCode c (.COMMENT m) σ = .ok σ := rfl

theorem exec_MOVZ {c : MemCfg} {r : Nat} {n : Fin 31} (hr : xreg r = some n) (i s : Int)
    (hi : okImm16 i = true) (hs : okShift s = true) (σ : State) :
    execCode c (.MOVZ (.x r) i s) σ = .ok (σ.wrX n ((imm i) <<< s.toNat)) := by
  simp [execCode, Code.toInstr, toReg_x, hr, Instr.exec, hi, hs, State.wrZ]

theorem exec_MOVN {c : MemCfg} {r : Nat} {n : Fin 31} (hr : xreg r = some n) (i s : Int)
    (hi : okImm16 i = true) (hs : okShift s = true) (σ : State) :
    execCode c (.MOVN (.x r) i s) σ = .ok (σ.wrX n (~~~ ((imm i) <<< s.toNat))) := by
  simp [execCode, Code.toInstr, toReg_x, hr, Instr.exec, hi, hs, State.wrZ]

theorem exec_MOVK {c : MemCfg} {r : Nat} {n : Fin 31} (hr : xreg r = some n) (i s : Int)
    (hi : okImm16 i = true) (hs : okShift s = true) (σ : State) (old : Word) (ho : σ.regs[n] = some old) :
    execCode c (.MOVK (.x r) i s) σ = .ok (σ.wrX n (movkW old i s)) := by
  simp [execCode, Code.toInstr, toReg_x, hr, Instr.exec, hi, hs, State.wrZ, State.rdZ, rdX_of σ n old ho]


/-! ## constants and spill slots -/


theorem SPILL_NUM_eq : SPILL_NUM = 256 := rfl
theorem SPILL_SPACE_eq : SPILL_SPACE = 2048 := rfl
theorem RESERVED_eq : RESERVED = 4 := rfl
theorem REGISTER_NUM_eq : REGISTER_NUM = 30 := rfl
theorem RESERVED_SPILLS_eq : RESERVED_SPILLS = 1 := rfl

theorem stackOffset_eq (p : Nat) : stackOffset p = 2048 - 8 * ((p : Int) + 1) := by
  unfold stackOffset; rw [SPILL_SPACE_eq]; rfl

theorem stackOffset_nonneg {p : Nat} (hp : p < SPILL_NUM) : 0 ≤ stackOffset p := by
  rw [SPILL_NUM_eq] at hp; rw [stackOffset_eq]; omega

theorem okOff_stackOffset {p : Nat} (hp : p < SPILL_NUM) : okOff (stackOffset p) = true := by
  rw [SPILL_NUM_eq] at hp; rw [stackOffset_eq]; simp [okOff]; omega

theorem imm_toNat_of_nonneg {i : Int} (h0 : 0 ≤ i) (h1 : i < 18446744073709551616) : (imm i).toNat = i.toNat := by
  obtain ⟨n, rfl⟩ := Int.eq_ofNat_of_zero_le h0
  simp [imm, BitVec.ofInt_natCast]
  omega

theorem slotAddr_eq {c : MemCfg} {σ : State} {room : Nat} (h : SpOk c σ.sp room) {p : Nat} (hp : p < SPILL_NUM) :
    σ.slotAddr p = σ.sp.toNat + (2048 - 8 * (p + 1)) := by
  unfold State.slotAddr
  have h1 := h.high
  have h2 := h.top
  rw [SPILL_SPACE_eq] at h1
  rw [SPILL_NUM_eq] at hp
  have hi : (imm (stackOffset p)).toNat = 2048 - 8 * (p + 1) := by
    rw [imm_toNat_of_nonneg (stackOffset_nonneg (by rw [SPILL_NUM_eq]; exact hp))]
    · rw [stackOffset_eq]; omega
    · rw [stackOffset_eq]; omega
  rw [BitVec.toNat_add, hi]
  have : (2:Nat)^64 = 18446744073709551616 := by decide
  omega

/-! ## state updates and observations -/

def State.setReg (σ : State) (n : Fin 31) (v : Option Word) : State := { σ with regs := σ.regs.set n v }
def State.setSlot (σ : State) (a : Nat) (w : Word) : State := { σ with stack := σ.stack.insert a w }
def State.clrSlot (σ : State) (a : Nat) : State := { σ with stack := σ.stack.erase a }
def State.setFlags (σ : State) (f : Option (Word × Word)) : State := { σ with flags := f }
/-- observation of a register -/
def State.reg (σ : State) (n : Fin 31) : Option Word := σ.regs[n]
/-- observation of a stack word -/
def State.slot (σ : State) (a : Nat) : Option Word := σ.stack[a]?

theorem wrX_eq_setReg (σ : State) (n : Fin 31) (w : Word) : σ.wrX n w = σ.setReg n (some w) := rfl

@[simp] theorem setReg_reg (σ : State) (n m : Fin 31) (v : Option Word) :
    (σ.setReg n v).reg m = if n = m then v else σ.reg m := by
  unfold State.setReg State.reg
  by_cases h : n = m
  · subst h; simp
  · simp [h, regs_set_get_ne _ _ _ _ h]

@[simp] theorem setReg_slot (σ : State) (n : Fin 31) (v : Option Word) (a : Nat) :
    (σ.setReg n v).slot a = σ.slot a := rfl
@[simp] theorem setReg_sp (σ : State) (n : Fin 31) (v : Option Word) : (σ.setReg n v).sp = σ.sp := rfl
@[simp] theorem setReg_heap (σ : State) (n : Fin 31) (v : Option Word) : (σ.setReg n v).heap = σ.heap := rfl
@[simp] theorem setReg_flags (σ : State) (n : Fin 31) (v : Option Word) : (σ.setReg n v).flags = σ.flags := rfl
@[simp] theorem setReg_maxHeap (σ : State) (n : Fin 31) (v : Option Word) : (σ.setReg n v).maxHeap = σ.maxHeap := rfl
@[simp] theorem setReg_slotAddr (σ : State) (n : Fin 31) (v : Option Word) (p : Nat) :
    (σ.setReg n v).slotAddr p = σ.slotAddr p := rfl

@[simp] theorem setSlot_reg (σ : State) (a : Nat) (w : Word) (m : Fin 31) : (σ.setSlot a w).reg m = σ.reg m := rfl
@[simp] theorem setSlot_slot (σ : State) (a b : Nat) (w : Word) :
    (σ.setSlot a w).slot b = if a = b then some w else σ.slot b := by
  unfold State.setSlot State.slot
  simp [Std.HashMap.getElem?_insert]
@[simp] theorem setSlot_sp (σ : State) (a : Nat) (w : Word) : (σ.setSlot a w).sp = σ.sp := rfl
@[simp] theorem setSlot_heap (σ : State) (a : Nat) (w : Word) : (σ.setSlot a w).heap = σ.heap := rfl
@[simp] theorem setSlot_flags (σ : State) (a : Nat) (w : Word) : (σ.setSlot a w).flags = σ.flags := rfl
@[simp] theorem setSlot_slotAddr (σ : State) (a : Nat) (w : Word) (p : Nat) :
    (σ.setSlot a w).slotAddr p = σ.slotAddr p := rfl

@[simp] theorem clrSlot_reg (σ : State) (a : Nat) (m : Fin 31) : (σ.clrSlot a).reg m = σ.reg m := rfl
@[simp] theorem clrSlot_slot (σ : State) (a b : Nat) :
    (σ.clrSlot a).slot b = if a = b then none else σ.slot b := by
  unfold State.clrSlot State.slot
  simp [Std.HashMap.getElem?_erase]
@[simp] theorem clrSlot_sp (σ : State) (a : Nat) : (σ.clrSlot a).sp = σ.sp := rfl
@[simp] theorem clrSlot_heap (σ : State) (a : Nat) : (σ.clrSlot a).heap = σ.heap := rfl
@[simp] theorem clrSlot_flags (σ : State) (a : Nat) : (σ.clrSlot a).flags = σ.flags := rfl
@[simp] theorem clrSlot_slotAddr (σ : State) (a : Nat) (p : Nat) : (σ.clrSlot a).slotAddr p = σ.slotAddr p := rfl

@[simp] theorem setFlags_reg (σ : State) (f : Option (Word × Word)) (m : Fin 31) : (σ.setFlags f).reg m = σ.reg m := rfl
@[simp] theorem setFlags_slot (σ : State) (f : Option (Word × Word)) (a : Nat) : (σ.setFlags f).slot a = σ.slot a := rfl
@[simp] theorem setFlags_sp (σ : State) (f : Option (Word × Word)) : (σ.setFlags f).sp = σ.sp := rfl
@[simp] theorem setFlags_heap (σ : State) (f : Option (Word × Word)) : (σ.setFlags f).heap = σ.heap := rfl
@[simp] theorem setFlags_flags (σ : State) (f : Option (Word × Word)) : (σ.setFlags f).flags = f := rfl
@[simp] theorem setFlags_slotAddr (σ : State) (f : Option (Word × Word)) (p : Nat) : (σ.setFlags f).slotAddr p = σ.slotAddr p := rfl

theorem load_slot {c : MemCfg} {σ : State} {room : Nat} (h : SpOk c σ.sp room) {p : Nat} (hp : p < SPILL_NUM) :
    σ.load c (σ.slotAddr p) = .ok (σ.slot (σ.slotAddr p)) := by
  have ha := slotAddr_eq h hp
  have h1 := h.high; have h2 := h.low; have h3 := h.disjoint; have h4 := h.aligned
  rw [SPILL_SPACE_eq] at h1; rw [SPILL_NUM_eq] at hp
  unfold State.load State.slot
  have e1 : σ.slotAddr p % 8 = 0 := by omega
  have e2 : inHeap c (σ.slotAddr p) = false := by simp [inHeap]; omega
  have e3 : inStack c (σ.slotAddr p) = true := by simp [inStack]; omega
  simp [e1, e2, e3]

theorem store_slot {c : MemCfg} {σ : State} {room : Nat} (h : SpOk c σ.sp room) {p : Nat} (hp : p < SPILL_NUM) (w : Word) :
    σ.store c (σ.slotAddr p) (some w) = .ok (σ.setSlot (σ.slotAddr p) w) := by
  have ha := slotAddr_eq h hp
  have h1 := h.high; have h2 := h.low; have h3 := h.disjoint; have h4 := h.aligned
  rw [SPILL_SPACE_eq] at h1; rw [SPILL_NUM_eq] at hp
  unfold State.store State.setSlot
  have e1 : σ.slotAddr p % 8 = 0 := by omega
  have e2 : inHeap c (σ.slotAddr p) = false := by simp [inHeap]; omega
  have e3 : inStack c (σ.slotAddr p) = true := by simp [inStack]; omega
  simp [e1, e2, e3]

theorem store_slot_none {c : MemCfg} {σ : State} {room : Nat} (h : SpOk c σ.sp room) {p : Nat} (hp : p < SPILL_NUM) :
    σ.store c (σ.slotAddr p) none = .ok (σ.clrSlot (σ.slotAddr p)) := by
  have ha := slotAddr_eq h hp
  have h1 := h.high; have h2 := h.low; have h3 := h.disjoint; have h4 := h.aligned
  rw [SPILL_SPACE_eq] at h1; rw [SPILL_NUM_eq] at hp
  unfold State.store State.clrSlot
  have e1 : σ.slotAddr p % 8 = 0 := by omega
  have e2 : inHeap c (σ.slotAddr p) = false := by simp [inHeap]; omega
  have e3 : inStack c (σ.slotAddr p) = true := by simp [inStack]; omega
  simp [e1, e2, e3]

theorem slotAddr_inj {c : MemCfg} {σ : State} {room : Nat} (h : SpOk c σ.sp room) {p q : Nat}
    (hp : p < SPILL_NUM) (hq : q < SPILL_NUM) : σ.slotAddr p = σ.slotAddr q ↔ p = q := by
  rw [slotAddr_eq h hp, slotAddr_eq h hq]
  rw [SPILL_NUM_eq] at hp hq
  omega


/-! ## the instruction semantics in terms of the observations (for symbolic execution by `simp`) -/

theorem rdX_reg (σ : State) (n : Fin 31) :
    σ.rdX n = match σ.reg n with | some w => .ok w | none => .error s!"read-undefined X{n.val}" := rfl

theorem exec_add_x (c : MemCfg) (σ : State) (d n m : Fin 31) :
    Instr.exec c (.add (.x d) (.x n) (.x m)) σ =
      match σ.reg n, σ.reg m with
      | some a, some b => .ok (σ.setReg d (some (a + b)))
      | none, _ => .error s!"read-undefined X{n.val}"
      | some _, none => .error s!"read-undefined X{m.val}" := by
  simp only [Instr.exec, State.rdZ, rdX_reg, State.wrZ, wrX_eq_setReg]
  cases σ.reg n <;> cases σ.reg m <;> rfl

theorem exec_sub_x (c : MemCfg) (σ : State) (d n m : Fin 31) :
    Instr.exec c (.sub (.x d) (.x n) (.x m)) σ =
      match σ.reg n, σ.reg m with
      | some a, some b => .ok (σ.setReg d (some (a - b)))
      | none, _ => .error s!"read-undefined X{n.val}"
      | some _, none => .error s!"read-undefined X{m.val}" := by
  simp only [Instr.exec, State.rdZ, rdX_reg, State.wrZ, wrX_eq_setReg]
  cases σ.reg n <;> cases σ.reg m <;> rfl

theorem exec_mul_x (c : MemCfg) (σ : State) (d n m : Fin 31) :
    Instr.exec c (.mul (.x d) (.x n) (.x m)) σ =
      match σ.reg n, σ.reg m with
      | some a, some b => .ok (σ.setReg d (some (a * b)))
      | none, _ => .error s!"read-undefined X{n.val}"
      | some _, none => .error s!"read-undefined X{m.val}" := by
  simp only [Instr.exec, State.rdZ, rdX_reg, State.wrZ, wrX_eq_setReg]
  cases σ.reg n <;> cases σ.reg m <;> rfl

theorem exec_sdiv_x (c : MemCfg) (σ : State) (d n m : Fin 31) :
    Instr.exec c (.sdiv (.x d) (.x n) (.x m)) σ =
      match σ.reg n, σ.reg m with
      | some a, some b =>
        match sdivW a b with
        | .ok q => .ok (σ.setReg d (some q))
        | .error e => .error e
      | none, _ => .error s!"read-undefined X{n.val}"
      | some _, none => .error s!"read-undefined X{m.val}" := by
  simp only [Instr.exec, State.rdZ, rdX_reg, State.wrZ, wrX_eq_setReg]
  cases σ.reg n <;> cases σ.reg m <;> try rfl
  rename_i a b
  simp only [Except_bind_ok]
  cases sdivW a b <;> rfl

theorem exec_msub_x (c : MemCfg) (σ : State) (d n m a : Fin 31) :
    Instr.exec c (.msub (.x d) (.x n) (.x m) (.x a)) σ =
      match σ.reg n, σ.reg m, σ.reg a with
      | some vn, some vm, some va => .ok (σ.setReg d (some (va - vn * vm)))
      | none, _, _ => .error s!"read-undefined X{n.val}"
      | some _, none, _ => .error s!"read-undefined X{m.val}"
      | some _, some _, none => .error s!"read-undefined X{a.val}" := by
  simp only [Instr.exec, State.rdZ, rdX_reg, State.wrZ, wrX_eq_setReg]
  cases σ.reg n <;> cases σ.reg m <;> cases σ.reg a <;> rfl

theorem exec_addi_x (c : MemCfg) (σ : State) (d n : Fin 31) (i : Int) (hi : okImm12 i = true) :
    Instr.exec c (.addi (.x d) (.x n) i) σ =
      match σ.reg n with
      | some a => .ok (σ.setReg d (some (a + imm i)))
      | none => .error s!"read-undefined X{n.val}" := by
  simp only [Instr.exec, hi, State.rdS, rdX_reg, if_true, State.wrS, wrX_eq_setReg]
  cases σ.reg n <;> rfl

theorem exec_subi_x (c : MemCfg) (σ : State) (d n : Fin 31) (i : Int) (hi : okImm12 i = true) :
    Instr.exec c (.subi (.x d) (.x n) i) σ =
      match σ.reg n with
      | some a => .ok (σ.setReg d (some (a - imm i)))
      | none => .error s!"read-undefined X{n.val}" := by
  simp only [Instr.exec, hi, State.rdS, rdX_reg, if_true, State.wrS, wrX_eq_setReg]
  cases σ.reg n <;> rfl

theorem exec_mov_x (c : MemCfg) (σ : State) (d s : Fin 31) :
    Instr.exec c (.mov (.x d) (.x s)) σ = .ok (σ.setReg d (σ.reg s)) := rfl

theorem exec_cmp_x (c : MemCfg) (σ : State) (n m : Fin 31) :
    Instr.exec c (.cmp (.x n) (.x m)) σ =
      match σ.reg n, σ.reg m with
      | some a, some b => .ok (σ.setFlags (some (a, b)))
      | none, _ => .error s!"read-undefined X{n.val}"
      | some _, none => .error s!"read-undefined X{m.val}" := by
  simp only [Instr.exec, State.rdZ, rdX_reg]
  cases σ.reg n <;> cases σ.reg m <;> rfl

theorem exec_cmpi_x (c : MemCfg) (σ : State) (n : Fin 31) (i : Int) (hi : okImm12 i = true) :
    Instr.exec c (.cmpi (.x n) i) σ =
      match σ.reg n with
      | some a => .ok (σ.setFlags (some (a, imm i)))
      | none => .error s!"read-undefined X{n.val}" := by
  simp only [Instr.exec, hi, State.rdS, rdX_reg, if_true]
  cases σ.reg n <;> rfl

/-- `SpOk` as a predicate on states (this form lets `simp` discharge it across state updates) -/
def SpOkS (c : MemCfg) (room : Nat) (σ : State) : Prop := SpOk c σ.sp room
@[simp] theorem SpOkS_setReg (c : MemCfg) (room : Nat) (σ : State) (n : Fin 31) (v : Option Word) :
    SpOkS c room (σ.setReg n v) ↔ SpOkS c room σ := Iff.rfl
@[simp] theorem SpOkS_setSlot (c : MemCfg) (room : Nat) (σ : State) (a : Nat) (w : Word) :
    SpOkS c room (σ.setSlot a w) ↔ SpOkS c room σ := Iff.rfl
@[simp] theorem SpOkS_clrSlot (c : MemCfg) (room : Nat) (σ : State) (a : Nat) :
    SpOkS c room (σ.clrSlot a) ↔ SpOkS c room σ := Iff.rfl
@[simp] theorem SpOkS_setFlags (c : MemCfg) (room : Nat) (σ : State) (f : Option (Word × Word)) :
    SpOkS c room (σ.setFlags f) ↔ SpOkS c room σ := Iff.rfl

theorem base_sp {c : MemCfg} {σ : State} {room : Nat} (h : SpOk c σ.sp room) : σ.base .sp = .ok σ.sp := by
  simp [State.base, h.aligned]

theorem exec_ldr_slot (c : MemCfg) (room : Nat) (σ : State) (t : Fin 31) (p : Nat)
    (h : SpOkS c room σ) (hp : p < SPILL_NUM) :
    Instr.exec c (.ldr (.x t) .sp (stackOffset p)) σ = .ok (σ.setReg t (σ.slot (σ.slotAddr p))) := by
  have hl := load_slot h hp
  unfold State.slotAddr at hl
  simp only [Instr.exec, okOff_stackOffset hp, base_sp h, if_true, Except_bind_ok, hl, State.putZ]
  rfl

theorem exec_str_slot (c : MemCfg) (room : Nat) (σ : State) (t : Fin 31) (p : Nat)
    (h : SpOkS c room σ) (hp : p < SPILL_NUM) :
    Instr.exec c (.str (.x t) .sp (stackOffset p)) σ =
      match σ.reg t with
      | some w => .ok (σ.setSlot (σ.slotAddr p) w)
      | none => .ok (σ.clrSlot (σ.slotAddr p)) := by
  have h1 := store_slot h hp
  have h2 := store_slot_none h hp
  unfold State.slotAddr at h1 h2
  simp only [Instr.exec, okOff_stackOffset hp, base_sp h, if_true, Except_bind_ok, State.getZ]
  unfold State.reg
  cases hr : σ.regs[t] with
  | none => simp only [h2]; rfl
  | some w => simp only [h1]; rfl

/-- arch register of a variable register -/
theorem xreg_var {r : Nat} (h1 : RESERVED ≤ r) (h2 : r < REGISTER_NUM) :
    ∃ n : Fin 31, xreg r = some n ∧ 4 ≤ n.val := by
  rw [RESERVED_eq] at h1; rw [REGISTER_NUM_eq] at h2
  unfold xreg archNumber
  split
  · have : r < 31 := by omega
    simp [this]; exact h1
  · have : r + 1 < 31 := by omega
    simp [this]; omega

/-- TEMP = X2, TEMP2 = X3, TEMPORARY_TEMP = X10 as machine registers -/
def xT : Fin 31 := 2
def xT2 : Fin 31 := 3
def xTT : Fin 31 := 10
theorem xreg_TEMP : xreg consts.temp = some xT := by decide
theorem xreg_TEMP2 : xreg consts.temp2 = some xT2 := by decide
theorem xreg_TEMPORARY_TEMP : xreg consts.temporaryTemp = some xTT := by decide



/-! ## from backend codes (logical registers) to machine instructions -/

theorem execCode_of_toInstr {c : MemCfg} {code : Code} {i : Instr} (σ : State)
    (h : code.toInstr = some i) : execCode c code σ = i.exec c σ := by
  unfold execCode
  cases code <;> simp_all [Code.toInstr]

section
variable {c : MemCfg} {rd r1 r2 r3 : Nat} {nd n1 n2 n3 : Fin 31}

theorem execCode_ADD (hd : xreg rd = some nd) (h1 : xreg r1 = some n1) (h2 : xreg r2 = some n2) (σ : State) :
    execCode c (.ADD (.x rd) (.x r1) (.x r2)) σ = Instr.exec c (.add (.x nd) (.x n1) (.x n2)) σ :=
  execCode_of_toInstr σ (by simp [Code.toInstr, toReg_x, hd, h1, h2])
theorem execCode_SUB (hd : xreg rd = some nd) (h1 : xreg r1 = some n1) (h2 : xreg r2 = some n2) (σ : State) :
    execCode c (.SUB (.x rd) (.x r1) (.x r2)) σ = Instr.exec c (.sub (.x nd) (.x n1) (.x n2)) σ :=
  execCode_of_toInstr σ (by simp [Code.toInstr, toReg_x, hd, h1, h2])
theorem execCode_MUL (hd : xreg rd = some nd) (h1 : xreg r1 = some n1) (h2 : xreg r2 = some n2) (σ : State) :
    execCode c (.MUL (.x rd) (.x r1) (.x r2)) σ = Instr.exec c (.mul (.x nd) (.x n1) (.x n2)) σ :=
  execCode_of_toInstr σ (by simp [Code.toInstr, toReg_x, hd, h1, h2])
theorem execCode_SDIV (hd : xreg rd = some nd) (h1 : xreg r1 = some n1) (h2 : xreg r2 = some n2) (σ : State) :
    execCode c (.SDIV (.x rd) (.x r1) (.x r2)) σ = Instr.exec c (.sdiv (.x nd) (.x n1) (.x n2)) σ :=
  execCode_of_toInstr σ (by simp [Code.toInstr, toReg_x, hd, h1, h2])
theorem execCode_MSUB (hd : xreg rd = some nd) (h1 : xreg r1 = some n1) (h2 : xreg r2 = some n2)
    (h3 : xreg r3 = some n3) (σ : State) :
    execCode c (.MSUB (.x rd) (.x r1) (.x r2) (.x r3)) σ = Instr.exec c (.msub (.x nd) (.x n1) (.x n2) (.x n3)) σ :=
  execCode_of_toInstr σ (by simp [Code.toInstr, toReg_x, hd, h1, h2, h3])
theorem execCode_MOVR (hd : xreg rd = some nd) (h1 : xreg r1 = some n1) (σ : State) :
    execCode c (.MOVR (.x rd) (.x r1)) σ = Instr.exec c (.mov (.x nd) (.x n1)) σ :=
  execCode_of_toInstr σ (by simp [Code.toInstr, toReg_x, hd, h1])
theorem execCode_CMPR (h1 : xreg r1 = some n1) (h2 : xreg r2 = some n2) (σ : State) :
    execCode c (.CMPR (.x r1) (.x r2)) σ = Instr.exec c (.cmp (.x n1) (.x n2)) σ :=
  execCode_of_toInstr σ (by simp [Code.toInstr, toReg_x, h1, h2])
theorem execCode_CMPI (h1 : xreg r1 = some n1) (i : Int) (σ : State) :
    execCode c (.CMPI (.x r1) i) σ = Instr.exec c (.cmpi (.x n1) i) σ :=
  execCode_of_toInstr σ (by simp [Code.toInstr, toReg_x, h1])
theorem execCode_LDR_sp (hd : xreg rd = some nd) (i : Int) (σ : State) :
    execCode c (.LDR (.x rd) .sp i) σ = Instr.exec c (.ldr (.x nd) .sp i) σ :=
  execCode_of_toInstr σ (by simp [Code.toInstr, toReg_x, hd])
theorem execCode_STR_sp (hd : xreg rd = some nd) (i : Int) (σ : State) :
    execCode c (.STR (.x rd) .sp i) σ = Instr.exec c (.str (.x nd) .sp i) σ :=
  execCode_of_toInstr σ (by simp [Code.toInstr, toReg_x, hd])
end

/-! ## arithmetic -/

/-- `a − (a / b) · b = a % b` in wrap-around arithmetic with truncating division (MSUB after SDIV);
proved over `Int` (`tdiv`/`tmod`), no SAT. -/
theorem sub_sdiv_mul_eq_srem (a b : BitVec 64) : a - a.sdiv b * b = a.srem b := by
  apply BitVec.eq_of_toInt_eq
  rw [BitVec.toInt_sub, BitVec.toInt_mul, BitVec.toInt_sdiv]
  rw [Int.bmod_mul_bmod, Int.sub_bmod_bmod]
  have : a.toInt - a.toInt.tdiv b.toInt * b.toInt = a.toInt.tmod b.toInt := by
    rw [Int.tmod_def]; rw [Int.mul_comm]
  rw [this, ← BitVec.toInt_srem]
  exact BitVec.toInt_bmod_cancel _

end Scc.A64
