/-
  Scc.A64.WfLemmas — proof file for C14: every instruction that a method of the AArch64 backend
  emits has operands that its instruction form can encode (`Instr.wfError = none`, the check of the
  monitor `wf` of Machine.lean), for ALL arguments of the method.
-/
import Scc.A64.PrintLemmas
import Scc.A64.Prologue
import Scc.A64.LoadImm

set_option linter.unusedSimpArgs false

namespace Scc.A64
open Scc.AxCut
open Scc.Backend (GenM)

/-- the printed instruction exists on the machine and its operands are encodable; labels, comments
and directives are always fine -/
def Code.wf (code : Code) : Bool :=
  match code.toInstr with
  | some i => i.wfError.isNone
  | none => code.isMeta

def allWf (cs : List Code) : Bool := cs.all Code.wf

theorem allWf_append (a b : List Code) : allWf (a ++ b) = (allWf a && allWf b) := by
  simp [allWf, List.all_append]

theorem allWf_cons (a : Code) (b : List Code) : allWf (a :: b) = (a.wf && allWf b) := by
  simp [allWf]

@[simp] theorem allWf_nil : allWf [] = true := rfl

/-- registers that exist; spill slots that exist -/
def Register.ok : Register → Bool
  | .x r => decide (r < 30)
  | _ => false

def Temporary.ok : Temporary → Bool
  | .register r => r.ok
  | .spill p => decide (p < SPILL_NUM)

section
variable {r r1 r2 r3 : Nat}

theorem wf_COMMENT (m : String) : (Code.COMMENT m).wf = true := rfl
theorem wf_LAB (m : String) : (Code.LAB m).wf = true := rfl
theorem wf_B (l : String) : (Code.B l).wf = true := rfl
theorem wf_BL (l : String) : (Code.BL l).wf = true := rfl

theorem wf_reg3 (h : r < 30) (h1 : r1 < 30) (h2 : r2 < 30) :
    (Code.ADD (.x r) (.x r1) (.x r2)).wf = true ∧ (Code.SUB (.x r) (.x r1) (.x r2)).wf = true ∧
    (Code.MUL (.x r) (.x r1) (.x r2)).wf = true ∧ (Code.SDIV (.x r) (.x r1) (.x r2)).wf = true := by
  simp [Code.wf, Code.toInstr, toReg_x, xreg_ar, h, h1, h2, Instr.wfError, isXorZ]

theorem wf_MSUB (h : r < 30) (h1 : r1 < 30) (h2 : r2 < 30) (h3 : r3 < 30) :
    (Code.MSUB (.x r) (.x r1) (.x r2) (.x r3)).wf = true := by
  simp [Code.wf, Code.toInstr, toReg_x, xreg_ar, h, h1, h2, h3, Instr.wfError, isXorZ]

theorem wf_MOVR (h : r < 30) (h1 : r1 < 30) : (Code.MOVR (.x r) (.x r1)).wf = true := by
  simp [Code.wf, Code.toInstr, toReg_x, xreg_ar, h, h1, Instr.wfError]

theorem wf_CMPR (h : r < 30) (h1 : r1 < 30) : (Code.CMPR (.x r) (.x r1)).wf = true := by
  simp [Code.wf, Code.toInstr, toReg_x, xreg_ar, h, h1, Instr.wfError, isXorZ]

theorem wf_CMPI (h : r < 30) (i : Int) (hi : okImm12 i = true) : (Code.CMPI (.x r) i).wf = true := by
  simp [Code.wf, Code.toInstr, toReg_x, xreg_ar, h, Instr.wfError, isXorSP, hi]

theorem wf_ADDI (h : r < 30) (h1 : r1 < 30) (i : Int) (hi : okImm12 i = true) :
    (Code.ADDI (.x r) (.x r1) i).wf = true ∧ (Code.SUBI (.x r) (.x r1) i).wf = true := by
  simp [Code.wf, Code.toInstr, toReg_x, xreg_ar, h, h1, Instr.wfError, isXorSP, hi]

theorem wf_ADDI_sp (i : Int) (hi : okImm12 i = true) :
    (Code.ADDI .sp .sp i).wf = true ∧ (Code.SUBI .sp .sp i).wf = true := by
  simp [Code.wf, Code.toInstr, Instr.wfError, isXorSP, hi]

theorem wf_LDR_sp (h : r < 30) (i : Int) (hi : okOff i = true) :
    (Code.LDR (.x r) .sp i).wf = true ∧ (Code.STR (.x r) .sp i).wf = true := by
  simp [Code.wf, Code.toInstr, toReg_x, xreg_ar, h, Instr.wfError, isXorZ, isXorSP, hi]

theorem wf_LDR_x (h : r < 30) (h1 : r1 < 30) (i : Int) (hi : okOff i = true) :
    (Code.LDR (.x r) (.x r1) i).wf = true ∧ (Code.STR (.x r) (.x r1) i).wf = true ∧
    (Code.STR .xzr (.x r1) i).wf = true := by
  simp [Code.wf, Code.toInstr, toReg_x, xreg_ar, h, h1, Instr.wfError, isXorZ, isXorSP, hi]

theorem wf_BR (h : r < 30) : (Code.BR (.x r)).wf = true := by
  simp [Code.wf, Code.toInstr, toReg_x, xreg_ar, h, Instr.wfError, isX]

theorem wf_ADR (h : r < 30) (l : String) : (Code.ADR (.x r) l).wf = true := by
  simp [Code.wf, Code.toInstr, toReg_x, xreg_ar, h, Instr.wfError, isXorZ]

theorem wf_MOVW (h : r < 30) (i s : Int) (hi : okImm16 i = true) (hs : okShift s = true) :
    (Code.MOVZ (.x r) i s).wf = true ∧ (Code.MOVN (.x r) i s).wf = true ∧ (Code.MOVK (.x r) i s).wf = true := by
  simp [Code.wf, Code.toInstr, toReg_x, xreg_ar, h, Instr.wfError, isXorZ, hi, hs]
end

theorem wf_branchOf (s : IfSort) (l : String) : (branchOf s l).wf = true := by
  cases s <;> rfl

end Scc.A64

namespace Scc.A64
open Scc.AxCut

/-! ## code.rs: impl Instructions -/

theorem wf_loadImmediateLoop (r : Nat) (hr : r < 30) (w : BitVec 64) (invert : Bool) (ign : BitVec 16) :
    ∀ (is : List Nat) (fmd : Bool), (∀ i ∈ is, i < 4) → allWf (loadImmediateLoop (.x r) w invert ign is fmd) = true := by
  intro is
  induction is with
  | nil => intros; rfl
  | cons i rest ih =>
    intro fmd hlt
    have hi : i < 4 := hlt i (by simp)
    have hrest : ∀ j ∈ rest, j < 4 := fun j hj => hlt j (by simp [hj])
    have hs := okShift_idx hi
    unfold loadImmediateLoop
    simp only []
    split
    · split
      · rw [allWf_cons, (wf_MOVW hr _ _ (okImm16_toNat _) hs).2.2, ih _ hrest]; rfl
      · split
        · rw [allWf_cons, (wf_MOVW hr _ _ (okImm16_toNat _) hs).2.1, ih _ hrest]; rfl
        · rw [allWf_cons, (wf_MOVW hr _ _ (okImm16_toNat _) hs).1, ih _ hrest]; rfl
    · exact ih _ hrest

/-- `load_immediate`: every literal, every target -/
theorem wf_loadImmediate (t : Temporary) (ht : t.ok) (immediate : Int) :
    allWf (loadImmediate t immediate) = true := by
  have hreg : ∀ r, r < 30 → allWf (loadImmediateRegister (.x r) immediate) = true := by
    intro r hr
    unfold loadImmediateRegister
    simp only []
    split
    · simp [allWf, (wf_MOVW hr 0 0 (by decide) (by decide)).1]
    · split
      · simp [allWf, (wf_MOVW hr 0 0 (by decide) (by decide)).2.1]
      · exact wf_loadImmediateLoop r hr _ _ _ _ _ (by decide)
  cases t with
  | register reg =>
    cases reg with
    | x r =>
      have hr : r < 30 := by simpa [Temporary.ok, Register.ok] using ht
      simp [loadImmediate, hreg r hr]
    | sp => simp [Temporary.ok, Register.ok] at ht
    | xzr => simp [Temporary.ok, Register.ok] at ht
  | spill p =>
    have hp : p < SPILL_NUM := by simpa [Temporary.ok] using ht
    simp only [loadImmediate, allWf_append, TEMP, hreg 2 (by decide), Bool.true_and]
    simp [allWf, (wf_LDR_sp (r := 2) (by decide) _ (okOff_stackOffset hp)).2]

theorem wf_opR (o : BinOp) (rt r1 r2 : Nat) (ht : rt < 30) (h1 : r1 < 30) (h2 : r2 < 30) :
    allWf (opR o (.x rt) (.x r1) (.x r2)) = true := by
  have h10 : (10 : Nat) < 30 := by decide
  have h3 : (3 : Nat) < 30 := by decide
  have hp0 : SPILL_TEMP < SPILL_NUM := by decide
  cases o with
  | rem =>
    simp only [opR, remR, TEMP, TEMP2, TEMPORARY_TEMP]
    by_cases e2 : Register.x r2 = Register.x 3
    · by_cases et : Register.x rt = Register.x 2
      · simp only [e2, et, if_true]
        rw [← e2, ← et]
        simp [allWf, wf_COMMENT, (wf_LDR_sp h10 _ (okOff_stackOffset hp0)).1, (wf_LDR_sp h10 _ (okOff_stackOffset hp0)).2,
          wf_MOVR h10 h2, (wf_reg3 h2 h1 h10).2.2.2, wf_MSUB ht h2 h10 h1]
      · simp only [e2, et, if_true, if_false]
        rw [← e2]
        simp [allWf, (wf_reg3 ht h1 h2).2.2.2, wf_MSUB ht ht h2 h1]
    · simp only [e2, if_false]
      simp [allWf, (wf_reg3 h3 h1 h2).2.2.2, wf_MSUB ht h3 h2 h1]
  | sum => simp [opR, allWf, (wf_reg3 ht h1 h2).1]
  | sub => simp [opR, allWf, (wf_reg3 ht h1 h2).2.1]
  | prod => simp [opR, allWf, (wf_reg3 ht h1 h2).2.2.1]
  | div => simp [opR, allWf, (wf_reg3 ht h1 h2).2.2.2]

theorem ok_reg {r : Register} (h : (Temporary.register r).ok) : ∃ n, r = .x n ∧ n < 30 := by
  cases r with
  | x n => exact ⟨n, rfl, by simpa [Temporary.ok, Register.ok] using h⟩
  | sp => simp [Temporary.ok, Register.ok] at h
  | xzr => simp [Temporary.ok, Register.ok] at h

theorem ok_spill {p : Nat} (h : (Temporary.spill p).ok) : p < SPILL_NUM := by
  simpa [Temporary.ok] using h

theorem scratch_cases (r : Register) :
    (if r = TEMP then TEMP2 else TEMP) = .x 2 ∨ (if r = TEMP then TEMP2 else TEMP) = .x 3 := by
  split
  · right; rfl
  · left; rfl

/-- `add / sub / mul / div / rem`: every placement -/
theorem wf_op (o : BinOp) (t s1 s2 : Temporary) (ht : t.ok) (h1 : s1.ok) (h2 : s2.ok) :
    allWf (op o t s1 s2) = true := by
  have h2' : (2 : Nat) < 30 := by decide
  have h3' : (3 : Nat) < 30 := by decide
  cases t with
  | register tr =>
    obtain ⟨rt, rfl, hrt⟩ := ok_reg ht
    cases s1 with
    | register r1 =>
      obtain ⟨n1, rfl, hn1⟩ := ok_reg h1
      cases s2 with
      | register r2 =>
        obtain ⟨n2, rfl, hn2⟩ := ok_reg h2
        simp [op, wf_opR o rt n1 n2 hrt hn1 hn2]
      | spill p2 =>
        have hp2 := ok_spill h2
        rcases scratch_cases (Register.x n1) with e | e <;>
          simp [op, e, allWf_cons, (wf_LDR_sp h2' _ (okOff_stackOffset hp2)).1, (wf_LDR_sp h3' _ (okOff_stackOffset hp2)).1,
            wf_opR o rt n1 2 hrt hn1 h2', wf_opR o rt n1 3 hrt hn1 h3']
    | spill p1 =>
      have hp1 := ok_spill h1
      cases s2 with
      | register r2 =>
        obtain ⟨n2, rfl, hn2⟩ := ok_reg h2
        rcases scratch_cases (Register.x n2) with e | e <;>
          simp [op, e, allWf_cons, (wf_LDR_sp h2' _ (okOff_stackOffset hp1)).1, (wf_LDR_sp h3' _ (okOff_stackOffset hp1)).1,
            wf_opR o rt 2 n2 hrt h2' hn2, wf_opR o rt 3 n2 hrt h3' hn2]
      | spill p2 =>
        have hp2 := ok_spill h2
        simp [op, TEMP, TEMP2, allWf_cons, (wf_LDR_sp h2' _ (okOff_stackOffset hp1)).1,
          (wf_LDR_sp h3' _ (okOff_stackOffset hp2)).1, wf_opR o rt 2 3 hrt h2' h3']
  | spill pt =>
    have hpt := ok_spill ht
    have hstr : allWf [Code.STR TEMP .sp (stackOffset pt)] = true := by
      simp [allWf, TEMP, (wf_LDR_sp h2' _ (okOff_stackOffset hpt)).2]
    cases s1 with
    | register r1 =>
      obtain ⟨n1, rfl, hn1⟩ := ok_reg h1
      cases s2 with
      | register r2 =>
        obtain ⟨n2, rfl, hn2⟩ := ok_reg h2
        simp only [op, allWf_append, hstr, Bool.and_true]
        exact wf_opR o 2 n1 n2 h2' hn1 hn2
      | spill p2 =>
        have hp2 := ok_spill h2
        simp only [op, allWf_append, hstr, Bool.and_true]
        rcases scratch_cases (Register.x n1) with e | e <;> simp only [e] <;>
          simp [TEMP, allWf_cons, (wf_LDR_sp h2' _ (okOff_stackOffset hp2)).1, (wf_LDR_sp h3' _ (okOff_stackOffset hp2)).1,
            wf_opR o 2 n1 2 h2' hn1 h2', wf_opR o 2 n1 3 h2' hn1 h3']
    | spill p1 =>
      have hp1 := ok_spill h1
      cases s2 with
      | register r2 =>
        obtain ⟨n2, rfl, hn2⟩ := ok_reg h2
        simp only [op, allWf_append, hstr, Bool.and_true]
        rcases scratch_cases (Register.x n2) with e | e <;> simp only [e] <;>
          simp [TEMP, allWf_cons, (wf_LDR_sp h2' _ (okOff_stackOffset hp1)).1, (wf_LDR_sp h3' _ (okOff_stackOffset hp1)).1,
            wf_opR o 2 2 n2 h2' h2' hn2, wf_opR o 2 3 n2 h2' h3' hn2]
      | spill p2 =>
        have hp2 := ok_spill h2
        simp only [op, allWf_append, hstr, Bool.and_true]
        simp [TEMP, TEMP2, allWf_cons, (wf_LDR_sp h2' _ (okOff_stackOffset hp1)).1,
          (wf_LDR_sp h3' _ (okOff_stackOffset hp2)).1, wf_opR o 2 2 3 h2' h2' h3']

end Scc.A64

namespace Scc.A64
open Scc.AxCut

theorem wf_compare (s1 s2 : Temporary) (h1 : s1.ok) (h2 : s2.ok) : allWf (compare s1 s2) = true := by
  have h2' : (2 : Nat) < 30 := by decide
  have h3' : (3 : Nat) < 30 := by decide
  cases s1 with
  | register r1 =>
    obtain ⟨n1, rfl, hn1⟩ := ok_reg h1
    cases s2 with
    | register r2 =>
      obtain ⟨n2, rfl, hn2⟩ := ok_reg h2
      simp [compare, allWf, wf_CMPR hn1 hn2]
    | spill p2 =>
      simp [compare, allWf, TEMP, wf_CMPR hn1 h2', (wf_LDR_sp h2' _ (okOff_stackOffset (ok_spill h2))).1]
  | spill p1 =>
    cases s2 with
    | register r2 =>
      obtain ⟨n2, rfl, hn2⟩ := ok_reg h2
      simp [compare, allWf, TEMP, wf_CMPR h2' hn2, (wf_LDR_sp h2' _ (okOff_stackOffset (ok_spill h1))).1]
    | spill p2 =>
      simp [compare, allWf, TEMP, TEMP2, wf_CMPR h2' h3', (wf_LDR_sp h2' _ (okOff_stackOffset (ok_spill h1))).1,
        (wf_LDR_sp h3' _ (okOff_stackOffset (ok_spill h2))).1]

theorem wf_compareImmediate (s : Temporary) (h : s.ok) (i : Int) (hi : okImm12 i = true) :
    allWf (compareImmediate s i) = true := by
  have h2' : (2 : Nat) < 30 := by decide
  cases s with
  | register r =>
    obtain ⟨n, rfl, hn⟩ := ok_reg h
    simp [compareImmediate, allWf, wf_CMPI hn i hi]
  | spill p =>
    simp [compareImmediate, allWf, TEMP, wf_CMPI h2' i hi, (wf_LDR_sp h2' _ (okOff_stackOffset (ok_spill h))).1]

/-- `jump_label_if_*` (both the two-operand and the zero forms) -/
theorem wf_jumpLabelIf (sort : IfSort) (s1 s2 : Temporary) (h1 : s1.ok) (h2 : s2.ok) (l : String) :
    allWf (jumpLabelIf sort s1 s2 l) = true ∧ allWf (jumpLabelIfZero sort s1 l) = true := by
  constructor
  · rw [jumpLabelIf, allWf_append, wf_compare s1 s2 h1 h2]
    simp [allWf, wf_branchOf]
  · rw [jumpLabelIfZero, allWf_append, wf_compareImmediate s1 h1 0 (by decide)]
    simp [allWf, wf_branchOf]

theorem wf_jump (t : Temporary) (h : t.ok) : allWf (jump t) = true := by
  have h2' : (2 : Nat) < 30 := by decide
  cases t with
  | register r =>
    obtain ⟨n, rfl, hn⟩ := ok_reg h
    simp [jump, allWf, wf_BR hn]
  | spill p =>
    simp [jump, allWf, TEMP, wf_BR h2', (wf_LDR_sp h2' _ (okOff_stackOffset (ok_spill h))).1]

theorem wf_loadLabel (t : Temporary) (h : t.ok) (l : String) : allWf (loadLabel t l) = true := by
  have h2' : (2 : Nat) < 30 := by decide
  cases t with
  | register r =>
    obtain ⟨n, rfl, hn⟩ := ok_reg h
    simp [loadLabel, allWf, wf_ADR hn]
  | spill p =>
    simp [loadLabel, allWf, TEMP, wf_ADR h2', (wf_LDR_sp h2' _ (okOff_stackOffset (ok_spill h))).2]

/-- `add_and_jump`: the immediate must fit 12 bits — for `jump_length k` that is `k ≤ 1023` -/
theorem wf_addAndJump (t : Temporary) (h : t.ok) (i : Int) (hi : okImm12 i = true) :
    allWf (addAndJump t i) = true := by
  have h2' : (2 : Nat) < 30 := by decide
  cases t with
  | register r =>
    obtain ⟨n, rfl, hn⟩ := ok_reg h
    simp [addAndJump, allWf, wf_BR hn, (wf_ADDI hn hn i hi).1]
  | spill p =>
    simp [addAndJump, allWf, TEMP, wf_BR h2', (wf_ADDI h2' h2' i hi).1,
      (wf_LDR_sp h2' _ (okOff_stackOffset (ok_spill h))).1]

theorem okImm12_jumpLength (k : Nat) (hk : k ≤ 1023) : okImm12 (jumpLength k) = true := by
  have h1 : (0 : Int) ≤ 4 * (k : Int) := by omega
  have h2 : 4 * (k : Int) < 4096 := by omega
  simp [okImm12, jumpLength, h1, h2]

theorem wf_mov (t s : Temporary) (ht : t.ok) (hs : s.ok) : allWf (mov t s) = true := by
  have h3' : (3 : Nat) < 30 := by decide
  cases s with
  | register sr =>
    obtain ⟨ns, rfl, hns⟩ := ok_reg hs
    cases t with
    | register tr =>
      obtain ⟨nt, rfl, hnt⟩ := ok_reg ht
      simp [mov, moveFromRegister, allWf, wf_MOVR hnt hns]
    | spill pt =>
      simp [mov, moveFromRegister, allWf, (wf_LDR_sp hns _ (okOff_stackOffset (ok_spill ht))).2]
  | spill ps =>
    cases t with
    | register tr =>
      obtain ⟨nt, rfl, hnt⟩ := ok_reg ht
      simp [mov, moveToRegister, allWf, (wf_LDR_sp hnt _ (okOff_stackOffset (ok_spill hs))).1]
    | spill pt =>
      simp [mov, moveToRegister, moveFromRegister, TEMP2, allWf,
        (wf_LDR_sp h3' _ (okOff_stackOffset (ok_spill hs))).1, (wf_LDR_sp h3' _ (okOff_stackOffset (ok_spill ht))).2]

theorem wf_storeRestoreTemporary (t : Temporary) (h : t.ok) (b : Bool) :
    allWf (storeTemporary t b) = true ∧ allWf (restoreTemporary t b) = true := by
  have h2' : (2 : Nat) < 30 := by decide
  cases t with
  | register r =>
    obtain ⟨n, rfl, hn⟩ := ok_reg h
    simp [storeTemporary, restoreTemporary, allWf, TEMP, wf_MOVR h2' hn, wf_MOVR hn h2']
  | spill p =>
    simp [storeTemporary, restoreTemporary, allWf, TEMP, (wf_LDR_sp h2' _ (okOff_stackOffset (ok_spill h))).1,
      (wf_LDR_sp h2' _ (okOff_stackOffset (ok_spill h))).2]

/-! ## print_i64, for every context -/

theorem wf_moveCodes (pairs : List (Nat × Nat)) (h : ∀ p ∈ pairs, p.1 < 30 ∧ p.2 < 30) :
    allWf (moveCodes pairs) = true := by
  simp only [allWf, moveCodes, List.all_map, List.all_eq_true]
  intro p hp
  exact wf_MOVR (h p hp).1 (h p hp).2

theorem wf_strCodes (items : List (Nat × Int)) (h : ∀ p ∈ items, p.1 < 30 ∧ okOff p.2 = true) :
    allWf (strCodes items) = true ∧ allWf (ldrCodes items) = true := by
  constructor
  · simp only [allWf, strCodes, List.all_map, List.all_eq_true]
    intro p hp
    exact (wf_LDR_sp (h p hp).1 _ (h p hp).2).2
  · simp only [allWf, ldrCodes, List.all_map, List.all_eq_true]
    intro p hp
    exact (wf_LDR_sp (h p hp).1 _ (h p hp).2).1

theorem wf_printI64G (lrStrict nl : Bool) (src : Temporary) (hsrc : src.ok) (ctx : Ctx) :
    allWf (printI64G lrStrict nl src ctx) = true := by
  have hip := info_props lrStrict ctx
  have hrfl : (callerSaveRegistersInfoG lrStrict ctx) =
      ((callerSaveRegistersInfoG lrStrict ctx).1, (callerSaveRegistersInfoG lrStrict ctx).2) := rfl
  generalize (callerSaveRegistersInfoG lrStrict ctx).1 = fb at hip hrfl
  generalize (callerSaveRegistersInfoG lrStrict ctx).2 = regs at hip hrfl
  have hr30 : ∀ r ∈ regs, r < 30 := fun r hr => by have := hip.cls r hr; omega
  have hpc := pushedCount_le fb regs hip.len
  have hu2 := backupUsed_le' fb regs
  have hmoves : ∀ p ∈ saveMoves fb regs, p.1 < 30 ∧ p.2 < 30 := by
    intro p hp
    obtain ⟨h1, h2, h3⟩ := mem_saveMoves hp
    have hfb := hip.fb_eq
    exact ⟨by omega, hr30 _ (List.mem_of_mem_take h3)⟩
  have hitems : ∀ p ∈ pushItems fb regs, p.1 < 30 ∧ okOff p.2 = true := by
    intro p hp
    obtain ⟨o, ho, hp2, hp1⟩ := mem_pushItems hp
    obtain ⟨hre1, _, _⟩ := roundEven_props (regs.length - backupUsed fb regs)
    have : pushedCount fb regs = roundEven (regs.length - backupUsed fb regs) := rfl
    exact ⟨hr30 _ (List.mem_of_mem_drop hp1), by rw [hp2]; exact okOff_address (by omega) (by omega)⟩
  have hsave : allWf (saveCallerSaveRegisters fb regs) = true := by
    rw [save_decompose, allWf_append, wf_moveCodes _ hmoves]
    split
    · have hsub := (wf_ADDI_sp _ (okImm12_address (k := (pushedCount fb regs : Int)) (by omega) (by omega))).2
      rw [allWf_append, (wf_strCodes _ hitems).1]
      simp [allWf, hsub]
    · rfl
  have hrest : allWf (restoreCallerSaveRegisters fb regs) = true := by
    rw [restore_decompose, allWf_append, wf_moveCodes _ (by
      intro p hp
      simp only [List.mem_map] at hp
      obtain ⟨q, hq, rfl⟩ := hp
      exact ⟨(hmoves q hq).2, (hmoves q hq).1⟩)]
    split
    · have : ∀ p ∈ (pushItems fb regs).reverse, p.1 < 30 ∧ okOff p.2 = true :=
        fun p hp => hitems p (List.mem_reverse.mp hp)
      have hadd := (wf_ADDI_sp _ (okImm12_address (k := (pushedCount fb regs : Int)) (by omega) (by omega))).1
      rw [allWf_append, (wf_strCodes _ this).2]
      simp [allWf, hadd]
    · rfl
  have h0 : (0 : Nat) < 30 := by decide
  have h2' : (2 : Nat) < 30 := by decide
  unfold printI64G
  rw [hrfl]
  simp only [allWf_append, hsave, hrest, Bool.and_true]
  cases src with
  | register r =>
    obtain ⟨n, rfl, hn⟩ := ok_reg hsrc
    simp [allWf, wf_COMMENT, wf_BL, wf_MOVR h0 hn]
  | spill p =>
    simp [allWf, wf_COMMENT, wf_BL, TEMP, wf_MOVR h0 h2', moveToRegister,
      (wf_LDR_sp h2' _ (okOff_stackOffset (ok_spill hsrc))).1]

/-! ## into_routine.rs -/

theorem wf_setup : ∀ n, n ≤ 7 → ∃ codes, setup n = .ok codes ∧ allWf codes = true := by
  intro n hn
  have hcases : n = 0 ∨ n = 1 ∨ n = 2 ∨ n = 3 ∨ n = 4 ∨ n = 5 ∨ n = 6 ∨ n = 7 := by omega
  rcases hcases with rfl | rfl | rfl | rfl | rfl | rfl | rfl | rfl <;> exact ⟨_, rfl, by decide⟩

theorem wf_cleanup : allWf cleanup = true ∧ allWf preamble = true := by decide

end Scc.A64
