/-
  Scc.A64.RefSim — Theorem B (AArch64), heap-free instructions: every step of the abstract backend
  machine on an instruction `op` is simulated by the AArch64 SPEC machine on the rendering of `op`
  (`OpRel`), re-establishing the representation relation `RepA64` (RefDefs.lean).
  Part 1 (this file): the state-level lemmas, one per abstract instruction (`execCodes` /
  `execCodesOut` of the rendering from a represented state), lifted from the per-method contracts of
  Props/C07A64.lean (`op_correct`, `mov_correct`, `loadImmediate_correct`, `compare_correct`, …) and of
  Props/C13A64.lean (`print_register`, `print_spill`).
-/
import Scc.A64.RefFrame
import Scc.Backend.ProofsSim
import Scc.Backend.ProofsPM

set_option linter.unusedVariables false
set_option linter.unusedSimpArgs false

namespace Scc.A64.Ref

open Scc.AxCut Scc.Backend Scc.Backend.Abs Scc.Backend.Sim Scc.A64 Scc.A64.CC Scc.Backend.PM

/-! ## temporaries of positions -/

theorem isVar_posW {t : Nat} (h : PosW t) : (posTemp t).isVar := isVar_posTemp h.2

theorem ok_of_isVar {t : Temporary} (h : t.isVar) : t.ok = true := by
  cases t with
  | register reg =>
    cases reg with
    | x r =>
      obtain ⟨_, h2⟩ := isVar_reg h
      rw [REGISTER_NUM_eq] at h2
      simp [Temporary.ok, Register.ok, h2]
    | sp => simp [Temporary.isVar] at h
    | xzr => simp [Temporary.isVar] at h
  | spill p =>
    obtain ⟨_, h2⟩ := isVar_spill h
    simp [Temporary.ok, h2]

theorem ok_posW {t : Nat} (h : PosW t) : (posTemp t).ok = true := ok_of_isVar (isVar_posW h)

/-! ## the abstract machine: inversion of one step -/

theorem getT_next {σ : Temps} {t : Nat} {k : Word → StepRes} {c' : Config}
    (h : getT σ t k = .next c') : ∃ v, σ.get t = some v ∧ k v = .next c' := by
  unfold getT at h
  cases hv : σ.get t with
  | none => simp [hv, stuck] at h
  | some v => simp only [hv] at h; exact ⟨v, rfl, h⟩

theorem getT_done {σ : Temps} {t : Nat} {k : Word → StepRes} {w : Word}
    (h : getT σ t k = .halt (.done w)) : ∃ v, σ.get t = some v ∧ k v = .halt (.done w) := by
  unfold getT at h
  cases hv : σ.get t with
  | none => simp [hv, stuck] at h
  | some v => simp only [hv] at h; exact ⟨v, rfl, h⟩

theorem posW_ne_temp {t : Nat} (h : PosW t) : t ≠ Mock.T_TEMP := by
  have := h.2; unfold Mock.T_TEMP; omega

theorem posW_ne_ret1 {t : Nat} (h : PosW t) : t ≠ Mock.T_RET1 := by
  have := h.2; unfold Mock.T_RET1; omega

theorem evalOp_of_evalBinOp {o : BinOp} {a b v : Word} (h : Abs.evalBinOp o a b = .ok v) :
    Pos.evalOp o a b = .ok v := by
  cases o with
  | sum => simp only [Abs.evalBinOp] at h; cases h; rfl
  | sub => simp only [Abs.evalBinOp] at h; cases h; rfl
  | prod => simp only [Abs.evalBinOp] at h; cases h; rfl
  | div =>
    simp only [Abs.evalBinOp, beq_iff_eq, Bool.and_eq_true, Abs.minWord] at h
    split at h
    · cases h
    · split at h
      · cases h
      · cases h
        rename_i hb ho
        have ho' : ¬ (a = Pos.minInt ∧ b = -1) := ho
        simp only [Pos.evalOp, if_neg hb, if_neg ho']
  | rem =>
    simp only [Abs.evalBinOp, beq_iff_eq, Bool.and_eq_true, Abs.minWord] at h
    split at h
    · cases h
    · split at h
      · cases h
      · cases h
        rename_i hb ho
        have ho' : ¬ (a = Pos.minInt ∧ b = -1) := ho
        simp only [Pos.evalOp, if_neg hb, if_neg ho']

/-! ## moves between a machine register and a temporary -/

/-- strong frame: everything but the target (in particular TEMP, TEMP2) -/
structure FrameS (σ σ' : State) (t : Temporary) : Prop where
  sp : σ'.sp = σ.sp
  heap : σ'.heap = σ.heap
  regs : ∀ m : Fin 31, t.archReg ≠ some m → σ'.reg m = σ.reg m
  slots : ∀ a, (∀ q, t = .spill q → a ≠ σ.slotAddr q) → σ'.slot a = σ.slot a

theorem FrameS.temp {c : MemCfg} {room : Nat} {σ σ' : State} {t u : Temporary} (B : SpOk c σ.sp room)
    (F : FrameS σ σ' t) (hu : u.ok = true) (ht : t.ok = true) (hne : u ≠ t) : σ'.tempVal u = σ.tempVal u := by
  rcases ok_cases hu with ⟨r, rfl, hr⟩ | ⟨q, rfl, hq⟩
  · obtain ⟨n, hn⟩ := xreg_lt30 hr
    rw [tempVal_reg hn, tempVal_reg hn]
    apply F.regs n
    intro e
    rcases ok_cases ht with ⟨rt, rfl, _⟩ | ⟨p, rfl, _⟩
    · simp only [Temporary.archReg] at e
      exact hne (by rw [xreg_inj hn e])
    · simp [Temporary.archReg] at e
  · rw [tempVal_spill, tempVal_spill]
    have : σ'.slotAddr q = σ.slotAddr q := by simp [State.slotAddr, F.sp]
    rw [this]
    apply F.slots
    intro p hp e
    subst hp
    rcases ok_cases ht with ⟨rt, h, _⟩ | ⟨p', h, hp'⟩
    · cases h
    · injection h with h; subst h
      exact hne (by rw [(slotAddr_inj B (by rw [SPILL_NUM_eq]; exact hq) (by rw [SPILL_NUM_eq]; exact hp')).1 e])

/-- `move_to_register`: the register receives the content of the temporary (defined or not) -/
theorem moveToRegister_exec {c : MemCfg} {room : Nat} {σ : State} (B : SpOk c σ.sp room) {r0 : Nat}
    {n0 : Fin 31} (h0 : xreg r0 = some n0) {t : Temporary} (ht : t.ok = true) :
    execCodes c (moveToRegister (.x r0) t) σ = .ok (σ.setReg n0 (σ.tempVal t)) := by
  have hsp' : SpOkS c room σ := B
  rcases ok_cases ht with ⟨r, rfl, hr⟩ | ⟨p, rfl, hp⟩
  · obtain ⟨n, hn⟩ := xreg_lt30 hr
    rw [tempVal_reg hn]
    simp [moveToRegister, execCodes, execCode_MOVR h0 hn, exec_mov_x]
  · rw [tempVal_spill]
    have hp' : p < SPILL_NUM := by rw [SPILL_NUM_eq]; exact hp
    simp [moveToRegister, execCodes, execCode_LDR_sp h0, exec_ldr_slot c room, hsp', hp']

/-- `move_from_register`: the temporary receives the content of the register (defined or not) -/
theorem moveFromRegister_exec {c : MemCfg} {room : Nat} {σ : State} (B : SpOk c σ.sp room) {r0 : Nat}
    {n0 : Fin 31} (h0 : xreg r0 = some n0) {t : Temporary} (ht : t.ok = true) :
    ∃ σ', execCodes c (moveFromRegister t (.x r0)) σ = .ok σ' ∧ σ'.tempVal t = σ.reg n0 ∧ FrameS σ σ' t := by
  have hsp' : SpOkS c room σ := B
  rcases ok_cases ht with ⟨r, rfl, hr⟩ | ⟨p, rfl, hp⟩
  · obtain ⟨n, hn⟩ := xreg_lt30 hr
    refine ⟨σ.setReg n (σ.reg n0), ?_, ?_, ⟨rfl, rfl, ?_, fun _ _ => rfl⟩⟩
    · simp [moveFromRegister, execCodes, execCode_MOVR hn h0, exec_mov_x]
    · rw [tempVal_reg hn]; simp
    · intro m hm
      have : n ≠ m := by intro e; apply hm; simp [Temporary.archReg, hn, e]
      simp [this]
  · have hp' : p < SPILL_NUM := by rw [SPILL_NUM_eq]; exact hp
    cases hx : σ.reg n0 with
    | none =>
      refine ⟨σ.clrSlot (σ.slotAddr p), ?_, ?_, ⟨rfl, rfl, fun _ _ => rfl, ?_⟩⟩
      · simp [moveFromRegister, execCodes, execCode_STR_sp h0, exec_str_slot c room, hsp', hp', hx]
      · rw [tempVal_spill]; simp
      · intro a ha
        have := ha p rfl
        simp [Ne.symm this]
    | some w =>
      refine ⟨σ.setSlot (σ.slotAddr p) w, ?_, ?_, ⟨rfl, rfl, fun _ _ => rfl, ?_⟩⟩
      · simp [moveFromRegister, execCodes, execCode_STR_sp h0, exec_str_slot c room, hsp', hp', hx]
      · rw [tempVal_spill]; simp
      · intro a ha
        have := ha p rfl
        simp [Ne.symm this]

theorem xreg_0 : xreg 0 = some (0 : Fin 31) := by decide

theorem posTemp_archReg_ge {t : Nat} (h : t < 281) {m : Fin 31} (e : (posTemp t).archReg = some m) : 4 ≤ m.val := by
  have hv := isVar_posTemp h
  cases hp : posTemp t with
  | register reg =>
    rw [hp] at hv e
    cases reg with
    | x r =>
      obtain ⟨n, hn, h4⟩ := xreg_var (isVar_reg hv).1 (isVar_reg hv).2
      simp only [Temporary.archReg] at e
      rw [hn] at e; cases e; exact h4
    | sp => simp [Temporary.isVar] at hv
    | xzr => simp [Temporary.isVar] at hv
  | spill p => rw [hp] at e; simp [Temporary.archReg] at e

/-! ## re-establishing the representation -/

section Ops

variable {c : MemCfg} (H : CfgCC c) {cfg : Config} {σ : State} {out : List (Bool × Word)}
include H

theorem RepA64.spOk {g : Mode} (R : RepA64 c g cfg σ out) : SpOk c σ.sp 144 := spOkS_of_core H R.core

omit H in
/-- the generic re-establishment after an instruction that writes one position temporary -/
theorem RepA64.write (R : RepA64 c .normal cfg σ out) {σ' : State} {t : Nat} (ht : PosW t)
    {v : Word} (C' : Core c σ') (hv : σ'.tempVal (posTemp t) = some v)
    (F : Frame σ σ' (posTemp t)) {pc' : Nat} :
    RepA64 c .normal { cfg with pc := pc', temps := (clobberTemp cfg.temps).set t v } σ' out := by
  refine ⟨C', ?_, ?_, ?_, R.out⟩
  · intro t' v' ht' hg
    by_cases e : t' = t
    · subst e
      rw [get_set_same] at hg
      cases hg; exact hv
    · simp only at hg
      rw [get_set_other _ _ e, get_clobberTemp _ (posW_ne_temp ht')] at hg
      rw [F.temp (isVar_posW ht') (fun e' => e (posTemp_inj.1 e'))]
      exact R.temps t' v' ht' hg
  · intro v' hg
    simp only at hg
    rw [get_set_other _ _ (posW_ne_ret1 ht).symm, get_clobberTemp _ (by decide)] at hg
    exact absurd (R.ret v' hg).1 (by simp)
  · intro hb; cases hb

omit H in
theorem loadImmediate_toInt (t : Temporary) (imm : Int) :
    loadImmediate t (BitVec.ofInt 64 imm).toInt = loadImmediate t imm := by
  unfold loadImmediate loadImmediateRegister immBits
  rw [BitVec.ofInt_toInt]

/-- `li` -/
theorem rep_li (R : RepA64 c .normal cfg σ out) {t : Nat} (ht : PosW t) (imm : Int) :
    ∃ σ', execCodes c (loadImmediate (posTemp t) imm) σ = .ok σ' ∧
      RepA64 c .normal
        { cfg with pc := cfg.pc + 1, temps := (clobberTemp cfg.temps).set t (BitVec.ofInt 64 imm) } σ' out := by
  obtain ⟨σ', e, hv, F⟩ := loadImmediate_correct c 144 σ (R.spOk H) (posTemp t) (isVar_posW ht)
    (BitVec.ofInt 64 imm)
  rw [loadImmediate_toInt] at e
  exact ⟨σ', e, R.write ht (core_execCodes H _ R.core (allInt_loadImmediate (ok_posW ht) imm) e) hv F⟩

/-- `add / sub / mul / div / rem` -/
theorem rep_binop (R : RepA64 c .normal cfg σ out) {o : BinOp} {t a b : Nat} (ht : PosW t) (ha : PosW a)
    (hb : PosW b) {va vb v : Word}
    (hva : cfg.temps.get a = some va) (hvb : cfg.temps.get b = some vb)
    (hev : Abs.evalBinOp o va vb = .ok v) :
    ∃ σ', execCodes c (op o (posTemp t) (posTemp a) (posTemp b)) σ = .ok σ' ∧
      RepA64 c .normal { cfg with pc := cfg.pc + 1, temps := (clobberTemp cfg.temps).set t v } σ' out := by
  obtain ⟨σ', e, hv, F⟩ := op_correct c 144 σ (R.spOk H) o (posTemp t) (posTemp a) (posTemp b)
    (isVar_posW ht) (isVar_posW ha) (isVar_posW hb) va vb v (R.temps a va ha hva) (R.temps b vb hb hvb)
    (evalOp_of_evalBinOp hev)
  exact ⟨σ', e, R.write ht
    (core_execCodes H _ R.core (allInt_op o (ok_posW ht) (ok_posW ha) (ok_posW hb)) e) hv F⟩

omit H in
/-- after an instruction that changes nothing but TEMP, TEMP2 and the flags -/
theorem RepA64.keep (R : RepA64 c .normal cfg σ out) {σ' : State} (C' : Core c σ')
    (F : Frame0 σ σ') {pc' : Nat} :
    RepA64 c .normal { cfg with pc := pc', temps := clobberTemp cfg.temps } σ' out := by
  refine ⟨C', ?_, ?_, ?_, R.out⟩
  · intro t' v' ht' hg
    simp only at hg
    rw [get_clobberTemp _ (posW_ne_temp ht')] at hg
    rw [F.temp (isVar_posW ht')]
    exact R.temps t' v' ht' hg
  · intro v' hg
    simp only at hg
    rw [get_clobberTemp _ (by decide)] at hg
    exact absurd (R.ret v' hg).1 (by simp)
  · intro hb; cases hb

omit H in
theorem frame0_refl (σ : State) : Frame0 σ σ := ⟨rfl, rfl, fun _ _ _ => rfl, fun _ => rfl⟩

/-- `jif`: the comparison leaves the operand values in the flags -/
theorem rep_jif (R : RepA64 c .normal cfg σ out) {a b : Nat} (ha : PosW a) (hb : PosW b)
    {va vb : Word} (hva : cfg.temps.get a = some va) (hvb : cfg.temps.get b = some vb) (pc' : Nat) :
    ∃ σ', execCodes c (compare (posTemp a) (posTemp b)) σ = .ok σ' ∧
      RepA64 c .normal { cfg with pc := pc', temps := clobberTemp cfg.temps } σ' out ∧
      σ'.flags = some (va, vb) := by
  obtain ⟨σ', e, hf, F⟩ := compare_correct c 144 σ (R.spOk H) (posTemp a) (posTemp b) (isVar_posW ha)
    (isVar_posW hb) va vb (R.temps a va ha hva) (R.temps b vb hb hvb)
  exact ⟨σ', e, R.keep (core_execCodes H _ R.core (allInt_compare (ok_posW ha) (ok_posW hb)) e) F, hf⟩

/-- `jifz` -/
theorem rep_jifz (R : RepA64 c .normal cfg σ out) {a : Nat} (ha : PosW a)
    {va : Word} (hva : cfg.temps.get a = some va) (pc' : Nat) :
    ∃ σ', execCodes c (compareImmediate (posTemp a) 0) σ = .ok σ' ∧
      RepA64 c .normal { cfg with pc := pc', temps := clobberTemp cfg.temps } σ' out ∧
      σ'.flags = some (va, 0) := by
  obtain ⟨σ', e, hf, F⟩ := compareImmediate_correct c 144 σ (R.spOk H) (posTemp a) (isVar_posW ha) va
    (R.temps a va ha hva)
  exact ⟨σ', e, R.keep (core_execCodes H _ R.core (allInt_compareImmediate (ok_posW ha) 0) e) F, hf⟩

omit H in
/-- the conditional branch of `jif` / `jifz` decides as the abstract machine does -/
theorem branchOf_cond (sort : IfSort) (l : String) (a b : Word) :
    ∃ cd, (branchOf sort l).toInstr = some (.bcond cd l) ∧ cd.holds a b = Abs.evalCond sort a b := by
  obtain ⟨cd, h1, h2⟩ := branchOf_correct sort l a b
  exact ⟨cd, h1, by rw [h2, evalCond_eq_evalCmp]⟩

omit H in
theorem mov_ret_eq (s : Temporary) : mov (.register RETURN1) s = moveToRegister (.x 0) s := by
  cases s <;> rfl

/-- `mov RET1 s` (exit.rs): X0 := the result -/
theorem rep_movRet (R : RepA64 c .normal cfg σ out) {s : Nat} (hs : PosW s) (pc' : Nat) :
    ∃ σ', execCodes c (mov (.register RETURN1) (posTemp s)) σ = .ok σ' ∧
      RepA64 c .exit
        { cfg with pc := pc', temps := (clobberTemp cfg.temps).put Mock.T_RET1 (cfg.temps.get s) } σ' out := by
  have e := moveToRegister_exec (R.spOk H) xreg_0 (ok_posW hs)
  rw [← mov_ret_eq] at e
  refine ⟨_, e, core_execCodes H _ R.core (allInt_mov rfl (ok_posW hs)) e, ?_, ?_, ?_, R.out⟩
  · intro t' v' ht' hg
    simp only at hg
    rw [get_put_other _ _ (posW_ne_ret1 ht'), get_clobberTemp _ (posW_ne_temp ht')] at hg
    have := R.temps t' v' ht' hg
    rw [← this]
    obtain ⟨r, hr⟩ : ∃ r, r < 30 ∧ True := ⟨0, by decide, trivial⟩
    cases hp : posTemp t' with
    | register reg =>
      have hv := isVar_posW ht'
      rw [hp] at hv
      cases reg with
      | x r' =>
        obtain ⟨n, hn, h4, _⟩ := tempVal_var_reg (σ := σ) hv
        rw [tempVal_reg hn, tempVal_reg hn, setReg_reg, if_neg]
        intro e0; rw [← e0] at h4; exact absurd h4 (by decide)
      | sp => simp [Temporary.isVar] at hv
      | xzr => simp [Temporary.isVar] at hv
    | spill q => rfl
  · intro v' hg
    simp only at hg
    rw [get_put_same] at hg
    refine ⟨rfl, ?_⟩
    rw [setReg_reg, if_pos rfl]
    exact R.temps s v' hs hg
  · intro hb; cases hb

omit H in
theorem mov_not_writes_xT {t s : Temporary} (ht : t.isVar) (hs : s.isVar) :
    ∀ code ∈ mov t s, ¬ writesX code xT := by
  have key : ∀ r, (Temporary.register (.x r)).isVar → (Register.x r).toReg ≠ some (.x xT) := by
    intro r hr e
    obtain ⟨n, hn, h4⟩ := xreg_var (isVar_reg hr).1 (isVar_reg hr).2
    rw [toReg_x, hn] at e
    simp only [Option.map_some, Option.some.injEq, Reg.x.injEq] at e
    rw [e] at h4; exact absurd h4 (by decide)
  have h3 : (Register.x 3).toReg ≠ some (.x xT) := by decide
  intro code hc ⟨r, hr, e⟩
  cases s with
  | register sreg =>
    cases sreg with
    | x rs =>
      cases t with
      | register treg =>
        cases treg with
        | x rt =>
          simp only [mov, moveFromRegister, List.mem_singleton] at hc
          subst hc
          simp only [codeWrites, List.mem_singleton] at hr
          subst hr
          exact key rt ht e
        | sp => simp [Temporary.isVar] at ht
        | xzr => simp [Temporary.isVar] at ht
      | spill pt =>
        simp only [mov, moveFromRegister, List.mem_singleton] at hc
        subst hc
        simp [codeWrites] at hr
    | sp => simp [Temporary.isVar] at hs
    | xzr => simp [Temporary.isVar] at hs
  | spill ps =>
    cases t with
    | register treg =>
      cases treg with
      | x rt =>
        simp only [mov, moveToRegister, List.mem_singleton] at hc
        subst hc
        simp only [codeWrites, List.mem_singleton] at hr
        subst hr
        exact key rt ht e
      | sp => simp [Temporary.isVar] at ht
      | xzr => simp [Temporary.isVar] at ht
    | spill pt =>
      simp only [mov, moveToRegister, moveFromRegister, List.cons_append, List.nil_append, List.mem_cons,
        List.not_mem_nil, or_false] at hc
      rcases hc with rfl | rfl
      · simp only [codeWrites, List.mem_singleton] at hr
        subst hr
        exact h3 e
      · simp [codeWrites] at hr

/-- `mov t s` of parallel moves, in every mode -/
theorem rep_mov {g : Mode} (R : RepA64 c g cfg σ out) {t s : Nat} (ht : PosW t) (hs : PosW s) (pc' : Nat) :
    ∃ σ', execCodes c (mov (posTemp t) (posTemp s)) σ = .ok σ' ∧
      RepA64 c g { cfg with pc := pc', temps := (clobberTemp cfg.temps).put t (cfg.temps.get s) } σ' out := by
  obtain ⟨σ', e, hv, F⟩ := mov_correct c 144 σ (R.spOk H) (posTemp t) (posTemp s) (isVar_posW ht) (isVar_posW hs)
  refine ⟨σ', e, core_execCodes H _ R.core (allInt_mov (ok_posW ht) (ok_posW hs)) e, ?_, ?_, ?_, R.out⟩
  · intro t' v' ht' hg
    by_cases e' : t' = t
    · subst e'
      simp only at hg
      rw [get_put_same] at hg
      rw [hv]; exact R.temps s v' hs hg
    · simp only at hg
      rw [get_put_other _ _ e', get_clobberTemp _ (posW_ne_temp ht')] at hg
      rw [F.temp (isVar_posW ht') (fun e'' => e' (posTemp_inj.1 e''))]
      exact R.temps t' v' ht' hg
  · intro v' hg
    simp only at hg
    rw [get_put_other _ _ (posW_ne_ret1 ht).symm, get_clobberTemp _ (by decide)] at hg
    obtain ⟨h1, h2⟩ := R.ret v' hg
    exact ⟨h1, by rw [F.low (isVar_posW ht) 0 (by decide)]; exact h2⟩
  · intro hb w hw
    rw [execCodes_regs _ e xT (mov_not_writes_xT (isVar_posW ht) (isVar_posW hs))]
    exact R.scratch hb w hw

omit H in
theorem storeTemporary_eq (t : Temporary) (b : Bool) : storeTemporary t b = moveToRegister TEMP t := by
  cases t <;> rfl

omit H in
theorem restoreTemporary_eq (t : Temporary) (b : Bool) : restoreTemporary t b = moveFromRegister t TEMP := by
  cases t <;> rfl

omit H in
theorem posTemp_reg_ne {t : Nat} (h : t < 281) {m : Fin 31} (hm : m.val < 4) {r : Nat}
    (hp : posTemp t = .register (.x r)) {n : Fin 31} (hn : xreg r = some n) : m ≠ n := by
  intro e
  have := posTemp_archReg_ge h (m := n) (by rw [hp]; exact hn)
  rw [← e] at this; omega

/-- `save t`: TEMP := t -/
theorem rep_save {g : Mode} (R : RepA64 c g cfg σ out) {t : Nat} (ht : PosW t) (b : Bool)
    (hg : g = .normal ∨ g = .pm) (pc' : Nat) :
    ∃ σ', execCodes c (storeTemporary (posTemp t) b) σ = .ok σ' ∧
      RepA64 c .pm
        { cfg with pc := pc', temps := clobberTemp cfg.temps, scratch := cfg.temps.get t } σ' out := by
  have e := moveToRegister_exec (R.spOk H) xreg_TEMP (ok_posW ht)
  have e' : execCodes c (storeTemporary (posTemp t) b) σ = .ok (σ.setReg xT (σ.tempVal (posTemp t))) := by
    rw [storeTemporary_eq]; exact e
  refine ⟨_, e', core_execCodes H _ R.core (allInt_storeTemporary (ok_posW ht) b) e', ?_, ?_, ?_, R.out⟩
  · intro t' v' ht' hg'
    simp only at hg'
    rw [get_clobberTemp _ (posW_ne_temp ht')] at hg'
    rw [← R.temps t' v' ht' hg']
    cases hp : posTemp t' with
    | register reg =>
      have hv := isVar_posW ht'
      rw [hp] at hv
      cases reg with
      | x r' =>
        obtain ⟨n, hn, h4, _⟩ := tempVal_var_reg (σ := σ) hv
        rw [tempVal_reg hn, tempVal_reg hn, setReg_reg, if_neg]
        intro e0; rw [← e0] at h4; exact absurd h4 (by decide)
      | sp => simp [Temporary.isVar] at hv
      | xzr => simp [Temporary.isVar] at hv
    | spill q => rfl
  · intro v' hg'
    simp only at hg'
    rw [get_clobberTemp _ (by decide)] at hg'
    have := (R.ret v' hg').1
    rcases hg with h | h <;> rw [h] at this <;> cases this
  · intro _ w hw
    simp only at hw
    rw [setReg_reg, if_pos rfl]
    exact R.temps t w ht hw

/-- `restore t`: t := TEMP -/
theorem rep_restore (R : RepA64 c .pm cfg σ out) {t : Nat} (ht : PosW t) (b : Bool) (pc' : Nat) :
    ∃ σ', execCodes c (restoreTemporary (posTemp t) b) σ = .ok σ' ∧
      RepA64 c .normal { cfg with pc := pc', temps := (clobberTemp cfg.temps).put t cfg.scratch } σ' out := by
  obtain ⟨σ', e, hv, F⟩ := moveFromRegister_exec (R.spOk H) xreg_TEMP (ok_posW ht)
  have e' : execCodes c (restoreTemporary (posTemp t) b) σ = .ok σ' := by rw [restoreTemporary_eq]; exact e
  have hall : AllInt (restoreTemporary (posTemp t) b) := by
    rw [restoreTemporary_eq]; exact allInt_moveFromRegister (ok_posW ht)
  refine ⟨σ', e', core_execCodes H _ R.core hall e', ?_, ?_, ?_, R.out⟩
  · intro t' v' ht' hg
    by_cases e'' : t' = t
    · subst e''
      simp only at hg
      rw [get_put_same] at hg
      rw [hv]; exact R.scratch rfl v' hg
    · simp only at hg
      rw [get_put_other _ _ e'', get_clobberTemp _ (posW_ne_temp ht')] at hg
      rw [F.temp (R.spOk H) (ok_posW ht') (ok_posW ht) (fun e3 => e'' (posTemp_inj.1 e3))]
      exact R.temps t' v' ht' hg
  · intro v' hg
    simp only at hg
    rw [get_put_other _ _ (posW_ne_ret1 ht).symm, get_clobberTemp _ (by decide)] at hg
    exact absurd (R.ret v' hg).1 (by simp)
  · intro hb; cases hb

/-- `print`: the caller-save dance around the external call keeps every live word part -/
theorem rep_print (R : RepA64 c .normal cfg σ out) {nl : Bool} {s : Nat} (hs : PosW s) (ctx : Ctx)
    (hlive : s < 2 * ctx.length) {v : Word} (hv : cfg.temps.get s = some v) (pc' : Nat) :
    ∃ σ', execCodesOut c (printI64 nl (posTemp s) ctx) σ = .ok (σ', [(nl, v)]) ∧
      RepA64 c .normal { cfg with pc := pc', temps := keepPositions cfg.temps ctx.length,
                                  out := (nl, v) :: cfg.out } σ' ((nl, v) :: out) := by
  have hr := H.room; have ht := H.ok.top; have h16 := H.top16
  have hS : σ.sp.toNat = c.stackTop - 96 - 2048 := R.core.spNat H
  have hal : (c.stackTop - 96 - 2048) % 16 = 0 := by omega
  have hval := R.temps s v hs hv
  -- the call
  have key : ∃ σ', execCodesOut c (printI64 nl (posTemp s) ctx) σ = .ok (σ', [(nl, v)]) ∧
      σ'.sp = σ.sp ∧ (∀ a, c.stackTop - 96 - 2048 ≤ a → σ'.slot a = σ.slot a) ∧
      (∀ r, r < 30 → LiveReg ctx r → σ'.lreg r = σ.lreg r) := by
    cases hp : posTemp s with
    | register reg =>
      have hvar := isVar_posW hs
      rw [hp] at hvar hval
      cases reg with
      | x r =>
        obtain ⟨h1, h2⟩ := isVar_reg hvar
        rw [REGISTER_NUM_eq] at h2
        have hr2 : r < 2 * ctx.length + 4 := by
          unfold posTemp at hp
          split at hp
          · injection hp with hp; injection hp with hp; omega
          · cases hp
        have hw' : σ.lreg r = some v := by
          rw [tempVal_reg (xreg_ar h2)] at hval; exact hval
        obtain ⟨σ', he, hsp, _, habove, hlv⟩ := print_register H.ok false ctx (by intro h; cases h) nl r h2 hr2 σ
          _ v hS hal (by omega) (by omega) hw'
        exact ⟨σ', he, hsp, habove, hlv⟩
      | sp => simp [Temporary.isVar] at hvar
      | xzr => simp [Temporary.isVar] at hvar
    | spill p =>
      have hvar := isVar_posW hs
      rw [hp] at hvar hval
      obtain ⟨_, h2⟩ := isVar_spill hvar
      obtain ⟨σ', he, hsp, _, habove, hlv⟩ := print_spill H.ok false ctx (by intro h; cases h) nl p h2 σ
        _ v hS hal (by omega) (by rw [SPILL_SPACE_eq]; omega) hval
      exact ⟨σ', he, hsp, habove, hlv⟩
  obtain ⟨σ', he, hsp, habove, hlv⟩ := key
  refine ⟨σ', he, ⟨by rw [hsp]; exact R.core.sp, ?_⟩, ?_, ?_, ?_, by rw [R.out]⟩
  · intro k hk
    rw [habove _ (by omega), habove _ (by omega)]
    exact R.core.saved k hk
  · intro t' v' ht' hg
    simp only at hg
    rw [get_keepPositions] at hg
    split at hg
    · rename_i hlt
      have hold := R.temps t' v' ht' hg
      rw [← hold]
      obtain ⟨i, hi⟩ : ∃ i, t' = 2 * i + 1 := ⟨t' / 2, by have := ht'.1; omega⟩
      subst hi
      have hi : i < ctx.length := by omega
      unfold posTemp
      by_cases hreg : 2 * i + 1 + 4 < 30
      · rw [if_pos hreg]
        have h30 : 2 * i + 1 + 4 < 30 := hreg
        rw [tempVal_reg (xreg_ar h30), tempVal_reg (xreg_ar h30)]
        exact hlv _ h30 (Or.inr (Or.inr ⟨i, ctx[i], by simp [hi], Or.inl (by omega)⟩))
      · rw [if_neg hreg, tempVal_spill, tempVal_spill]
        have ea : σ'.slotAddr (2 * i + 1 - 25) = σ.slotAddr (2 * i + 1 - 25) := by
          simp [State.slotAddr, hsp]
        rw [ea]
        apply habove
        have := slotAddr_eq (R.spOk H) (p := 2 * i + 1 - 25) (by rw [SPILL_NUM_eq]; have := ht'.2; omega)
        rw [this, hS]; omega
    · cases hg
  · intro v' hg
    simp only at hg
    rw [get_keepPositions] at hg
    split at hg
    · exact absurd (R.ret v' hg).1 (by simp)
    · cases hg
  · intro hb; cases hb

end Ops

end Scc.A64.Ref
