/-
  Scc.A64.MemProofsStoreFields — the contract of `store_fields` / `Memory::store` (memory.rs of
  axcut2aarch64) against `Scc.Heap.storeFields` / `Scc.Heap.storeObj`: ANY number of fields (the
  recursion allocates one block per `FIELDS_PER_BLOCK - 1` further fields and links the blocks), every
  placement; on the view, then on the machine.
-/
import Scc.A64.MemProofsStore

set_option linter.unusedSimpArgs false
set_option linter.unusedVariables false

namespace Scc.A64

open Scc.AxCut
open Scc.Backend (GenM TempNum freshLabel)

section Fields3
variable {c : MemCfg}

/-- CONTRACT of `store_fields` on the view -/
theorem m_storeFields (C : HeapCfgOK c) : ∀ (fuel : Nat) (toStore rem : Ctx) (pos : BlockPosition)
    (fs : List Scc.Heap.Field) (prev : Nat) (μ : MState) (h h' : Scc.Heap.HState) (ptr k : Nat),
    toStore.length < fuel → HRelM c μ h → EnvFields μ rem.length toStore fs →
    2 * (rem.length + toStore.length) ≤ 280 →
    (pos = .other → ∃ w, μ.val (posTemp (2 * (rem.length + toStore.length))) = some w ∧ w.toNat = prev) →
    Scc.Heap.storeFields h fs (posMap pos) prev = .ok (h', ptr) →
    ∃ code k', (storeFields fuel toStore rem pos).run k = .ok (code, k') ∧ k ≤ k' ∧ LabsIn code k k' ∧
      ∃ μ', mFwd c code μ = some (μ', .next) ∧ HRelM c μ' h' ∧
        (∃ w, μ'.val (posTemp (2 * rem.length)) = some w ∧ w.toNat = ptr) ∧
        (∀ u, u ≠ .register (.x 0) → u ≠ .register (.x 1) → u ≠ .register (.x 2) → u ≠ .register (.x 3) →
          (∀ j, u ≠ posTemp (2 * (rem.length + j))) → μ'.val u = μ.val u) := by
  intro fuel
  induction fuel with
  | zero => intro toStore _ _ _ _ _ _ _ _ _ hf; exact absurd hf (Nat.not_lt_zero _)
  | succ fuel ih =>
    intro toStore rem pos fs prev μ h h' ptr k hfuel H hE hcap hlink hop
    have hlen := hE.length_eq
    simp only [storeFields]
    by_cases hne : toStore = []
    · -- no (more) fields
      subst hne
      have hfs : fs = [] := by
        cases fs with
        | nil => rfl
        | cons _ _ => exact hE.elim
      subst hfs
      rw [heap_storeFields_nil] at hop
      simp only [Except.ok.injEq, Prod.mk.injEq] at hop
      obtain ⟨rfl, rfl⟩ := hop
      simp only [List.isEmpty_nil, if_true]
      cases pos with
      | last =>
        have hc0 : 2 * rem.length + TempNum.fst.toNat < 281 := by simp [TempNum.toNat] at hcap ⊢; omega
        simp only [beq_self_eq_true, if_true]
        rw [genm_bind (freshTemporary_run k hc0)]
        simp only [TempNum.toNat, Nat.add_zero] at hc0 ⊢
        obtain ⟨μ1, x1, v1, hp1, F1⟩ := m_loadImmediate0 (c := c) (μ := μ) (isVar_posTemp hc0)
        obtain ⟨n0, n1, n2, n3⟩ := posTemp_ne_low hc0
        refine ⟨_, k, genm_pure _ k, Nat.le_refl _,
          ((noLab_loadImmediate0 _).labsIn _ _).cons_other (by simp), μ1,
          mFwd_seq c (mFwd_comment c _ μ) x1, ?_, ?_, ?_⟩
        · obtain ⟨wh, hwh, ewh⟩ := H.heap
          obtain ⟨wf, hwf, ewf⟩ := H.free
          exact ⟨H.base, H.limit, fun a => by rw [hp1]; exact H.mem a,
            ⟨wh, by rw [F1 _ (Ne.symm n0) (by simp)]; exact hwh, ewh⟩,
            ⟨wf, by rw [F1 _ (Ne.symm n1) (by simp)]; exact hwf, ewf⟩⟩
        · exact ⟨0#64, v1, by simp [posMap]⟩
        · intro u _ _ h2 _ hj
          have := hj 0
          simp only [Nat.add_zero] at this
          exact F1 u this h2
      | other =>
        simp only [show (BlockPosition.other == BlockPosition.last) = false from rfl, Bool.false_eq_true, if_false]
        obtain ⟨w, hw, ew⟩ := hlink rfl
        refine ⟨[], k, genm_pure _ k, Nat.le_refl _, LabsIn.nil _ _, μ, mFwd_nil c μ, H, ?_,
          fun _ _ _ _ _ _ => rfl⟩
        exact ⟨w, by simpa using hw, by simp [posMap, ew]⟩
    · -- a block of fields
      have hie : toStore.isEmpty = false := by cases toStore <;> simp_all
      have hfne : fs ≠ [] := fun e => hne (List.eq_nil_of_length_eq_zero (by rw [hlen, e]; rfl))
      have hpos : 0 < toStore.length := List.length_pos_iff.mpr hne
      rw [heap_storeFields_cons _ _ hfne] at hop
      -- the common tail: values, acquire, the remaining fields
      have hrl : Scc.Heap.restLength fs.length (posMap pos) =
          (if toStore.length ≤ FIELDS_PER_BLOCK - pos.toNat then 0
           else toStore.length - (FIELDS_PER_BLOCK - pos.toNat)) := by
        rw [restLength_eq, hlen]
      have hrlt : (if toStore.length ≤ FIELDS_PER_BLOCK - pos.toNat then 0
           else toStore.length - (FIELDS_PER_BLOCK - pos.toNat)) < toStore.length := by
        rw [restLength_eq]; exact Scc.Heap.restLength_lt _ _ hpos
      rw [hrl] at hop
      generalize hrl' : (if toStore.length ≤ FIELDS_PER_BLOCK - pos.toNat then 0
           else toStore.length - (FIELDS_PER_BLOCK - pos.toNat)) = rl at hop hrlt ⊢
      have hlt : (rem ++ toStore.take rl).length = rem.length + rl := by
        simp [List.length_take]; omega
      have hct : 2 * (rem ++ toStore.take rl).length + TempNum.fst.toNat < 281 := by
        rw [hlt]; simp [TempNum.toNat]; omega
      have tail : ∀ (pre : List Code) (μ1 : MState) (s1 : Scc.Heap.HState), NoLab pre →
          mFwd c pre μ = some (μ1, .next) → HRelM c μ1 s1 → (∀ u, u ≠ .register (.x 2) → μ1.val u = μ.val u) →
          s1.heap = h.heap →
          (match Scc.Heap.storeValues s1 (fs.drop rl) s1.heap (Scc.Heap.fieldsPerBlock - (posMap pos).toNat) with
            | .error e => Except.error e
            | .ok s2 =>
              match Scc.Heap.acquire s2 with
              | .error e => Except.error e
              | .ok (s3, new) => Scc.Heap.storeFields s3 (fs.take rl) .other new) = .ok (h', ptr) →
          ∃ c3 c4 c5 k', (storeValues (toStore.drop rl) (rem ++ toStore.take rl) HEAP
                (FIELDS_PER_BLOCK - pos.toNat)).run k = .ok (c3, k) ∧
            (acquireBlock (posTemp (2 * (rem.length + rl)))).run k = .ok (c4, k + 13) ∧
            (storeFields fuel (toStore.take rl) rem .other).run (k + 13) = .ok (c5, k') ∧ k + 13 ≤ k' ∧
            LabsIn (pre ++ c3 ++ [.COMMENT "##acquire free block from heap register"] ++ c4 ++ c5) k k' ∧
            ∃ μ', mFwd c (pre ++ c3 ++ [.COMMENT "##acquire free block from heap register"] ++ c4 ++ c5) μ =
                some (μ', .next) ∧ HRelM c μ' h' ∧
              (∃ w, μ'.val (posTemp (2 * rem.length)) = some w ∧ w.toNat = ptr) ∧
              (∀ u, u ≠ .register (.x 0) → u ≠ .register (.x 1) → u ≠ .register (.x 2) →
                u ≠ .register (.x 3) → (∀ j, u ≠ posTemp (2 * (rem.length + j))) → μ'.val u = μ.val u) := by
        intro pre μ1 s1 hnl xpre H1 F1 hheap hop1
        obtain ⟨wH, hH, eH⟩ := H1.heap
        cases hsv : Scc.Heap.storeValues s1 (fs.drop rl) s1.heap
            (Scc.Heap.fieldsPerBlock - (posMap pos).toNat) with
        | error e => simp [hsv] at hop1
        | ok s2 =>
          simp only [hsv] at hop1
          cases hac : Scc.Heap.acquire s2 with
          | error e => simp [hac] at hop1
          | ok r =>
            obtain ⟨s3, new⟩ := r
            simp only [hac] at hop1
            -- store_values
            have hE1 : EnvFields μ1 (rem ++ toStore.take rl).length (toStore.drop rl) (fs.drop rl) := by
              have := (hE.drop rl).congr (μ' := μ1) (fun m _ h2 => F1 _ (by
                have : m < 281 := by
                  simp only [List.length_drop] at h2
                  omega
                exact (posTemp_ne_low this).2.2.1))
              rw [hlt, show rem.length + rl = rem.length + min rl toStore.length by omega]
              exact this
            rw [← eH, ← fpb_eq] at hsv
            obtain ⟨c3, hr3, hn3, μ2, x2, H2, F2⟩ := m_storeValues C H1 hE1
              (by rw [hlt]; simp only [List.length_drop]; omega) (blk := 0) (by decide) (by decide)
              hH (ff := FIELDS_PER_BLOCK - pos.toNat) (by cases pos <;> decide) hsv k
            -- acquire_block
            have hct' : rem.length + rl < 140 := by omega
            have htOK : (posTemp (2 * (rem.length + rl))).isVar := isVar_posTemp (by omega)
            obtain ⟨c4, hr4, hl4, μ3, x3, H3, ⟨wn, hwn, ewn⟩, F3⟩ := m_acquire C H2 htOK hac k
            -- the remaining fields
            have hfr : ∀ m, m < 2 * (rem.length + rl) → μ3.val (posTemp m) = μ.val (posTemp m) := by
              intro m hm
              have hm281 : m < 281 := by omega
              obtain ⟨n0, n1, n2, n3⟩ := posTemp_ne_low hm281
              rw [F3 _ (fun e => by have := posTemp_inj.1 e; omega) n0 n1 n2 n3, F2 _ n2, F1 _ n2]
            have hE3 : EnvFields μ3 rem.length (toStore.take rl) (fs.take rl) :=
              (hE.take rl).congr (fun m _ h2 => hfr m (by simp only [List.length_take] at h2; omega))
            have hlt2 : (toStore.take rl).length = rl := by simp [List.length_take]; omega
            obtain ⟨c5, k', hr5, hk5, hl5, μ4, x4, H4, hptr, F4⟩ := ih (toStore.take rl) rem .other (fs.take rl)
              new μ3 s3 h' ptr (k + 13) (by rw [hlt2]; omega) H3 hE3 (by rw [hlt2]; omega)
              (fun _ => ⟨wn, by rw [hlt2]; exact hwn, ewn⟩) hop1
            refine ⟨c3, c4, c5, k', hr3, hr4, hr5, hk5, ?_, μ4, ?_, H4, hptr, ?_⟩
            · exact ((((hnl.labsIn _ _).append (hn3.labsIn _ _)).append (LabsIn.of_noLab _ _ (by simp))).append
                (hl4.mono (Nat.le_refl _) hk5)).append (hl5.mono (by omega) (Nat.le_refl _))
            · exact mFwd_seq c (mFwd_seq c (mFwd_seq c (mFwd_seq c xpre x2) (mFwd_comment c _ μ2)) x3) x4
            · intro u h0' h1' h2' h3' hj
              rw [F4 u h0' h1' h2' h3' hj, F3 u (hj rl) h0' h1' h2' h3', F2 u h2', F1 u h2']
      simp only [hie, Bool.false_eq_true, if_false, hrl']
      cases pos with
      | last =>
        simp only [reduceCtorEq, if_false, posMap] at hop ⊢
        obtain ⟨c3, c4, c5, k', hr3, hr4, hr5, hk5, hl, μ', x, H', hptr, F'⟩ :=
          tail [.COMMENT "#allocate memory"] μ h (fun l => by simp) (mFwd_comment c _ μ) H (fun _ _ => rfl) rfl
            hop
        refine ⟨_, k', ?_, by omega, hl, μ', x, H', hptr, F'⟩
        simp only [storeLink, show (BlockPosition.last == BlockPosition.other) = false from rfl,
          Bool.false_eq_true, if_false, beq_self_eq_true, if_true]
        rw [genm_bind (genm_pure _ k), genm_bind hr3, genm_bind (freshTemporary_run k hct)]
        simp only [TempNum.toNat, Nat.add_zero, hlt]
        rw [genm_bind hr4, genm_bind hr5]
        simp [genm_pure]
      | other =>
        simp only [if_true, posMap] at hop ⊢
        obtain ⟨w, hw, ew⟩ := hlink rfl
        obtain ⟨wH, hH, eH⟩ := H.heap
        cases hwl : Scc.Heap.wr h (h.heap + Scc.Heap.fstOff (Scc.Heap.fieldsPerBlock - 1)) prev with
        | error e => simp [hwl] at hop
        | ok s1 =>
          simp only [hwl] at hop
          have hcl : 2 * (rem ++ toStore).length + TempNum.fst.toNat < 281 := by
            simp [TempNum.toNat]; omega
          have hlk : (rem ++ toStore).length = rem.length + toStore.length := by simp
          rw [← eH, ← ew] at hwl
          obtain ⟨μ1, x1, H1, F1⟩ := m_storeFieldCode C H (t := posTemp (2 * (rem.length + toStore.length)))
            (isVar_posTemp (by omega)) hw (blk := 0) (by decide) (by decide) hH
            (off := Scc.Heap.fstOff (Scc.Heap.fieldsPerBlock - 1)) (by decide) (by decide) hwl
          have hs1 : s1.heap = h.heap := by
            obtain ⟨_, rfl⟩ := wr_eq_ok.1 hwl; rfl
          obtain ⟨c3, c4, c5, k', hr3, hr4, hr5, hk5, hl, μ', x, H', hptr, F'⟩ :=
            tail ([.COMMENT "##store link to previous block"] ++
                storeFieldCode (posTemp (2 * (rem.length + toStore.length))) HEAP
                  ((Scc.Heap.fstOff (Scc.Heap.fieldsPerBlock - 1) : Nat) : Int) ++ [])
              μ1 s1 (((noLab_comment "##store link to previous block").append
                (noLab_storeFieldCode _ _ _)).append noLab_nil)
              (by rw [List.append_nil]; exact mFwd_seq c (mFwd_comment c _ μ) x1) H1 F1 hs1 hop
          refine ⟨_, k', ?_, by omega, hl, μ', x, H', hptr, F'⟩
          simp only [storeLink, beq_self_eq_true, if_true,
            show (BlockPosition.other == BlockPosition.last) = false from rfl, Bool.false_eq_true, if_false]
          rw [genm_bind (genm_bind (storeField_run .fst (rem ++ toStore) HEAP (FIELDS_PER_BLOCK - 1) k hcl))]
          rw [genm_bind hr3, genm_bind (freshTemporary_run k hct)]
          simp only [TempNum.toNat, Nat.add_zero, hlt, hlk]
          rw [genm_bind hr4, genm_bind hr5]
          simp [genm_pure, fieldOffset_fst]
          rfl

end Fields3

/-! ## Memory::store on the machine -/

/-- CONTRACT of `store` (memory.rs Memory::store) on the machine, for ANY number of fields and EVERY
placement: the variables `toStore` (context positions `|rem| …`, holding the model fields `fs`) are
stored as one object — one block for up to `FIELDS_PER_BLOCK` fields, otherwise a chain of linked
blocks, each block taken by `acquire_block` — exactly as `Scc.Heap.storeObj` does on the abstract
heap.  From every state (SP in place) representing a heap on which the model succeeds, the code runs
to its end; the final state has the same SP, represents the model's result heap, and the first
temporary of position `|rem|` holds the object pointer (0 for an object without fields).
Changed: HEAP, FREE, TEMP, TEMP2, the flags, the heap, and first temporaries of positions `≥ |rem|`
(targets of `acquire_block`); every variable of `rem` and every second temporary is preserved. -/
theorem store_contract {c : MemCfg} {room : Nat} {σ : State} (h8 : c.heapBase % 8 = 0)
    (B : SpOk c σ.sp room) {h h' : Scc.Heap.HState} (R : HeapRel c σ h)
    {toStore rem : Ctx} {fs : List Scc.Heap.Field} (hcap : 2 * (rem.length + toStore.length) ≤ 280)
    (hE : EnvFields (mview σ) rem.length toStore fs) {ptr : Nat}
    (hop : Scc.Heap.storeObj h fs = .ok (h', ptr)) (k : Nat) :
    ∃ code k', (store toStore rem).run k = .ok (code, k') ∧ k ≤ k' ∧ LabsIn code k k' ∧
      ∃ σ', execFwd c code σ = .ok (σ', .next) ∧ SpOk c σ'.sp room ∧ HeapRel c σ' h' ∧
        (∃ w, σ'.tempVal (posTemp (2 * rem.length)) = some w ∧ w.toNat = ptr) ∧
        FrameT σ σ' (fun u => u = .register HEAP ∨ u = .register FREE ∨ u = .register TEMP ∨
          u = .register TEMP2 ∨ ∃ j, u = posTemp (2 * (rem.length + j))) := by
  obtain ⟨code, k', hrun, hk, hl, μ', hx, H', ⟨w, hw, ew⟩, hfr⟩ :=
    m_storeFields (heapCfgOK_of_spOk h8 B) (toStore.length + 1) toStore rem .last fs 0 (mview σ) h h'
      ptr k (Nat.lt_succ_self _) (heapRel_mview R) hE hcap (fun e => by cases e) hop
  obtain ⟨σ', e, B', M', F⟩ := m_to_machine B hx
    (changed := fun u => u = .register HEAP ∨ u = .register FREE ∨ u = .register TEMP ∨
      u = .register TEMP2 ∨ ∃ j, u = posTemp (2 * (rem.length + j)))
    (fun u hu => hfr u (fun e => hu (Or.inl e)) (fun e => hu (Or.inr (Or.inl e)))
      (fun e => hu (Or.inr (Or.inr (Or.inl e)))) (fun e => hu (Or.inr (Or.inr (Or.inr (Or.inl e)))))
      (fun j e => hu (Or.inr (Or.inr (Or.inr (Or.inr ⟨j, e⟩))))))
  have hok : OpndOK (posTemp (2 * rem.length)) := isVar_opndOK (isVar_posTemp (by omega))
  exact ⟨code, k', hrun, hk, hl, σ', e, B', heapRel_of_mrep M' H', ⟨w, by rw [M'.vals _ hok]; exact hw, ew⟩, F⟩

end Scc.A64
