/-
  Scc.A64.ConcKStep — THE THREE-WAY STEP FOR ALL ELEVEN STATEMENT FORMS on AArch64 (`Scc.A64.Ref.K.step3`,
  Scc/A64/RefClosHRun.lean) with the bookkeeping of C10 and of the progress argument (the AArch64 analogue of
  Scc/X86/ConcKStep.lean):
  * `FrPk`: the allocation frontier moves only when both free lists are exhausted afterwards;
  * the room a step needs and the distance the frontier may move are those of the CURRENT statement
    (`allocArity`: the number of fields of a `let`, the number of variables of the environment of a `create`,
    0 for every other statement) instead of the uniform 141 blocks of `step3`;
  * a `call` and an `invoke` execute an INSTRUCTION (`IsJump`; `MStepsR`, Scc/A64/ConcKDefs.lean: the `B label`
    resp. the `BR reg`), not only `#ctx` hooks: `call_x3Q`, `invoke_nav_a64Q`, `invoke_x3Q`.
  `allocArity`, `IsJump`, `AllocLe`, `ValAll`, `Hered`, `hered_step` are statements about the AxCut positional
  machine only; they are those of Scc/X86/ConcKStep.lean (namespace `Scc.X86.Ref.K`, backend-independent).
  GENERATED from RefClosHCall.lean, RefClosInvoke.lean, RefClosHRun.lean by string replacement (same proofs, more
  conjuncts); generator: memory note scc-a64-conc.
-/
import Scc.A64.ConcKPeak
import Scc.A64.ConcKDefs
import Scc.X86.ConcKStep

set_option linter.unusedVariables false
set_option linter.unusedSimpArgs false

namespace Scc.A64.Ref.K

open Scc Scc.AxCut Scc.AxCut.Pos Scc.Backend Scc.Backend.Abs Scc.Backend.Sim Scc.Backend.Subst Scc.A64 Scc.A64.CC
open Scc.Backend.Sim2 Scc.Backend.Keys
open Scc.Props.C14Generic (LabelSafe)
open Scc.Props.C06Generic (outAfter WithinCapacity Reachable EnoughHeap CodeFits fits_of_codeFits
  kinds_of_fieldsTyped chiTys_fst fresh_of_nodup_snoc take_of_append)
open Scc.Heap (HState InvS InvW)
open Scc.Heap.Refine (HRef FrLe Room FrPk loadAbs)
open Scc.X86.Ref.K (allocArity envLen IsJump)

section Call3Q

variable {c : MemCfg} (H : CfgCC c) {hkf : Code → Bool} {Pm : Prog}
  {cs : List Code} (Hp : Holds hkf Pm cs) (hndL : (labs cs).Nodup)

include Hp hndL in
/-- THREE-WAY SIMULATION OF `call` -/
theorem call_x3Q {P : Program} {hooks : Bool} {prog : AxCut.Prog} {Γ : Ctx} {ρ : List Value} {l : Ident}
    {args : Ctx} {cfg : Config} {d : Def}
    (R : RelX P hooks prog ⟨Γ, ρ, .call l args⟩ cfg) (D : DefsAt P hooks prog) (DX : XDefsAt cs hooks prog)
    (hd : Pos.findDef prog.defs l = some d) (hchi : Pos.chiTys Γ = Pos.chiTys d.ctx)
    {hs : HState} {ι : Nat → Nat} {κ : Nat → Nat → Word} {σ : State} {out : List (Bool × Word)} {kp : Nat}
    (X : X3 c Γ cfg hs ι κ σ out)
    {kx kx' : Nat} {items : List Code}
    (hrunX : (codeStatementR a64Backend hooks natRen prog.types (.call l args) Γ).run kx = .ok (items, kx'))
    (hatX : XAt cs kp items) :
    ∃ cfg' σ' kp', stepsTo P 1 cfg cfg' ∧ MSteps Pm c σ (pcOf hkf cs kp) out σ' (pcOf hkf cs kp') out ∧
      cfg'.out = cfg.out ∧ cfg'.next = cfg.next ∧
      RelX P hooks prog ⟨d.ctx, ρ, d.body⟩ cfg' ∧ X3 c d.ctx cfg' hs ι κ σ' out ∧
      ∃ k1 k1' items', (codeStatementR a64Backend hooks natRen prog.types d.body d.ctx).run k1 = .ok (items', k1') ∧
        XAt cs kp' items' ∧ cfg'.heap = cfg.heap ∧ KeepPos Γ.length cfg cfg' σ σ' ∧
        MStepsR Pm c σ (pcOf hkf cs kp) out σ' (pcOf hkf cs kp') out := by
  obtain ⟨cfg', hst, hout, hnext, R'⟩ := sim2_call R D hd hchi
  have hstep := stepsTo_one_inv hst
  have J : JumpFacts cfg cfg' := by
    obtain ⟨c0m, c0m', ops, hrun, hat⟩ := R.code
    simp only [codeStatementR, run_pure_ok] at hrun
    obtain ⟨rfl, rfl⟩ := hrun
    simp only [mockSym_comment, mockSym_jumpLabel, List.append_assoc, CodeAt_hook] at hat
    simp only [List.cons_append, List.nil_append, CodeAt] at hat
    exact step_jumpLabel_facts hat.1 hstep
  have hmem : d ∈ prog.defs := List.mem_of_find?_eq_some hd
  have hname : d.name = l := by
    have := List.find?_some hd
    exact Ident.eq_of_beq this
  obtain ⟨i, k1, k1', ditems, hlab, hdrun, hdat⟩ := DX d hmem
  -- the AArch64 code
  simp only [codeStatementR, run_pure_ok] at hrunX
  obtain ⟨rfl, rfl⟩ := hrunX
  generalize hc0 : hookCode a64Backend hooks Γ ++ [a64Backend.comment (l.print ++ "(...)")] = c0 at hatX
  have hc0c : ∀ y ∈ c0, ∃ m', y = Code.COMMENT m' := by rw [← hc0]; exact hook_comments hooks Γ _
  replace hatX : XAt cs kp (c0 ++ [Code.B (l.print ++ "_")]) := hatX
  have hk0 := x_msteps_codes (c := c) Hp hatX.left (execCodes_comments c c0 σ hc0c) out
  have hidx := label_of_nodup Hp hndL hlab
  rw [hname] at hidx
  have hk2 := mstep_jump (c := c) Hp hatX.right.head hidx σ out
  have hk2R := mstepR_jump (c := c) Hp hatX.right.head hidx σ out
  have hk3 := msteps_code (c := c) Hp hlab (σ := σ) (σ' := σ) rfl out
  have hkeys : Γ.map (·.chi) = d.ctx.map (·.chi) := by
    have := congrArg (List.map Prod.fst) hchi
    simp only [Pos.chiTys, List.map_map] at this
    exact this
  exact ⟨cfg', σ, i + 1, hst, hk0.trans (hk2.trans hk3), hout, hnext, R',
    X3.ctxCongr (X3.jump X J) hkeys, _, _, ditems, hdrun, hdat, J.heap,
    ⟨fun t ht => by rw [J.temps, get_clobberTemp _ (by unfold Mock.T_TEMP; have := X.cap; omega)],
     fun i hi => rfl⟩, (hk2R.post hk3).pre hk0⟩

end Call3Q

section Invoke3Q

variable {c : MemCfg} (H : CfgCC c) (h8 : c.heapBase % 8 = 0) {hkf : Code → Bool} {Pm : Prog}
  {cs pre : List Code} (HB : HoldsB hkf Pm cs) (hnd : (labs cs).Nodup)
  (hfitX : c.codeBase + 4 * ninstr cs < 2 ^ 64) (hcsC : cs = pre ++ cleanup)

include H HB hnd hfitX hcsC in
/-- the machine from the `invoke` to the `load` of the selected method; with one method the machine may be
ahead of the boundary position `kp4` by `#ctx` hooks (`Tol`) -/
theorem invoke_nav_a64Q {hooks : Bool} {types : List TypeDecl} {Γa : Ctx} {b : Binding} {cfg : Config}
    {hs : HState} {ι : Nat → Nat} {κ : Nat → Nat → Word} {σ : State} {out : List (Bool × Word)} {kp : Nat}
    {x tag : Ident} {ty : Ty} {args : Ctx}
    {clauses : Clauses} {d : TypeDecl} {pos : Nat} {cl : Clause} {envCtx' : Ctx} {w : Word}
    (X : X3 c (Γa ++ [b]) cfg hs ι κ σ out)
    (hb : b.var.id = x.id) (hfresh : ∀ b' ∈ Γa, b'.var.id ≠ x.id) (hbchi : b.chi = .cns)
    (hd : lookupTypeDecl types ty = some d) (hx : xtorPosition d tag = some pos)
    (hclause : nthClause clauses pos = some cl) (hlc : clauses.length = d.xtors.length)
    (hw : σ.tempVal (posTemp (2 * Γa.length + 1)) = some w)
    (hXM : XMethodsAt c cs hooks types w envCtx' clauses)
    (hpos12 : pos < 1024)
    {k k' : Nat} {items : List Code}
    (hrun : (codeStatementR a64Backend hooks natRen types (.invoke x tag ty args) (Γa ++ [b])).run k =
      .ok (items, k'))
    (hat : XAt cs kp items) :
    ∃ σ4 kp4 pcR kl kl' lcode kb' body, MSteps Pm c σ (pcOf hkf cs kp) out σ4 pcR out ∧
      Tol Pm (pcOf hkf cs kp4) pcR ∧
      X3 c (Γa ++ [b]) cfg hs ι κ σ4 out ∧
      (load envCtx' cl.ctx).run kl = .ok (lcode, kl') ∧
      (codeStatementR a64Backend hooks natRen types cl.body (cl.ctx ++ envCtx')).run kl' = .ok (body, kb') ∧
      XAt cs kp4 (lcode ++ body) ∧
      (∀ t, t < 281 → t ≠ 2 * Γa.length + 1 → σ4.tempVal (posTemp t) = σ.tempVal (posTemp t)) ∧
      MStepsR Pm c σ (pcOf hkf cs kp) out σ4 pcR out := by
  have HA := HB.holdsA
  have Hp := HA.holds
  have hcapX := X.cap
  simp only [List.length_append, List.length_singleton] at hcapX
  have hn1 : Γa.length < (Γa ++ [b]).length := by simp
  have hgb : (Γa ++ [b])[Γa.length] = b := by simp
  obtain ⟨base, km, km', mcode, idx, hmrun, hatM, hwe⟩ := hXM
  have hposlt := nthClause_lt clauses pos cl hclause
  -- decode the code
  simp only [codeStatementR, run_bind_ok, lookupTypeDeclM_run_ok] at hrun
  obtain ⟨tt, k1, htt, decl, k2, ⟨hd', rfl⟩, hrun⟩ := hrun
  rw [hd] at hd'; cases hd'
  obtain ⟨p, hp, hlt, rfl, rfl, _⟩ := vt_rel htt
  have hp' : p = Γa.length := by
    have := posOf_append_fresh Γa b (fun b' hb' => by rw [hb]; exact hfresh b' hb')
    rw [hb] at this
    rw [this] at hp
    exact (Option.some.inj hp).symm
  subst hp'
  simp only [TempNum.toNat] at hlt
  have hvar := isVar_posTemp hlt
  -- the table label in the routine
  obtain ⟨csM, restM, hcsM, hlenM⟩ := hatM
  subst hlenM
  -- the code pointer in the jump register
  obtain ⟨σb, r, dreg, hpr, hdr, hxb, hregb, Fb, Cb, hcase⟩ := loadPtr_pos H X.core hlt hw
  by_cases hle : d.xtors.length ≤ 1
  · -- a single method: `BR` to the address of the label
    have hpos0 : pos = 0 := by omega
    subst hpos0
    simp only [hle, if_true, run_pure_ok] at hrun
    obtain ⟨rfl, rfl⟩ := hrun
    have hgt : ¬ (clauses.length > 1) := by omega
    simp only [hgt, if_false, List.nil_append] at hcsM
    obtain ⟨post0, kl', lcode, kb', body, hc0, hload, hbody⟩ :=
      x_codeMethods_head hooks natRen types envCtx' clauses base cl _ _ _ hmrun hclause
    rw [hc0] at hcsM
    have hje : a64Backend.jump (posTemp (2 * Γa.length + TempNum.snd.toNat)) =
        loadPtr (posTemp (2 * Γa.length + 1)) ++ [Code.BR (ptrReg (posTemp (2 * Γa.length + 1)))] :=
      jump_eq _
    rw [hje] at hat
    generalize hc0' : hookCode a64Backend hooks (Γa ++ [b]) ++ [a64Backend.comment (invokePrint x tag args)] ++
      [a64Backend.comment "#there is only one clause, so we can jump there directly"] = c0 at hat
    have hc0c : ∀ y ∈ c0, ∃ m', y = Code.COMMENT m' := by
      rw [← hc0']
      intro y hy
      rcases List.mem_append.1 hy with hy | hy
      · exact hook_comments hooks _ _ y hy
      · simp only [List.mem_singleton] at hy; exact ⟨_, hy⟩
    have hatA : XAt cs kp (c0 ++ (loadPtr (posTemp (2 * Γa.length + 1)) ++
        [Code.BR (ptrReg (posTemp (2 * Γa.length + 1)))])) := by
      simpa [List.append_assoc] using hat
    have hk0 := x_msteps_codes (c := c) Hp hatA.left (execCodes_comments c c0 σ hc0c) out
    have hkb := x_msteps_codes (c := c) Hp hatA.right.left hxb out
    -- the `BR`
    have hgetBR : cs[kp + c0.length + (loadPtr (posTemp (2 * Γa.length + 1))).length]? =
        some (Code.BR (ptrReg (posTemp (2 * Γa.length + 1)))) := hatA.right.right.head
    obtain ⟨iB, htiB, hitB⟩ := Hp.instr _ _ hgetBR rfl
    have eB : iB = .br (.x dreg) := by
      have : (Code.BR (ptrReg (posTemp (2 * Γa.length + 1)))).toInstr = some (.br (.x dreg)) := by
        rw [hpr]; simp [Code.toInstr, toReg_x, hdr]
      rw [this] at htiB; exact (Option.some.inj htiB).symm
    subst eB
    -- the method label, the clause label, then metas and an instruction
    have hcsM' : cs = csM ++ Code.LAB base :: (Code.LAB (clauseLabel base cl.xtor) ::
        ((lcode ++ body) ++ (post0 ++ restM))) := by
      rw [hcsM]; simp [List.append_assoc]
    obtain ⟨Bm, c2m, R0m, hsplit, hBm, hc2m⟩ := split_first_instr
      (Code.LAB (clauseLabel base cl.xtor) :: ((lcode ++ body) ++ (post0 ++ restM)))
      (instr_behind (pre := pre) (by rw [← hcsC]; exact hcsM'))
    obtain ⟨e, hstepB, hTol⟩ := step_br_label (c := c) HB (by rw [hcsM', hsplit]) hBm hc2m hfitX dreg σb
      (pcOf hkf cs (kp + c0.length + (loadPtr (posTemp (2 * Γa.length + 1))).length))
      (by rw [hregb, hwe])
    have hmC : MSteps Pm c σb (pcOf hkf cs (kp + c0.length + (loadPtr (posTemp (2 * Γa.length + 1))).length)) out
        σb e out := .one (.next hitB hstepB)
    -- the two labels are no items
    have hg0 : cs[csM.length]? = some (Code.LAB base) := by
      rw [hcsM']; exact getElem?_mid _ _ _
    have hg1 : cs[csM.length + 1]? = some (Code.LAB (clauseLabel base cl.xtor)) := by
      have e' : cs = (csM ++ [Code.LAB base]) ++ Code.LAB (clauseLabel base cl.xtor) ::
          ((lcode ++ body) ++ (post0 ++ restM)) := by rw [hcsM']; simp
      have : csM.length + 1 = (csM ++ [Code.LAB base]).length := by simp
      rw [this]; conv => lhs; rw [e']
      exact getElem?_mid _ _ _
    have hlabitem : ∀ l, isItem hkf (Code.LAB l) = false := by
      intro l
      cases hh : hkf (Code.LAB l) with
      | false => simp [isItem, Code.isMeta, hh]
      | true => obtain ⟨m, e⟩ := Hp.hkComment _ hh; cases e
    have hpc2 : pcOf hkf cs (csM.length + 2) = pcOf hkf cs csM.length := by
      rw [show csM.length + 2 = csM.length + 1 + 1 by omega, pcOf_noitem hg1 (hlabitem _),
        pcOf_noitem hg0 (hlabitem _)]
    refine ⟨σb, csM.length + 2, e, km, kl', lcode, kb', body, hk0.trans (hkb.trans hmC), by rw [hpc2]; exact hTol,
      X3R.keep X Cb Fb, hload, hbody, ?_, fun t ht _ => Fb.temp (isVar_posTemp ht),
      (MStepsR.one_next hitB hstepB).pre (hk0.trans hkb)⟩
    refine ⟨csM ++ [Code.LAB base, Code.LAB (clauseLabel base cl.xtor)], post0 ++ restM, ?_, by simp⟩
    rw [hcsM']; simp [List.append_assoc]
  · -- through the method table
    have hgt : clauses.length > 1 := by omega
    simp only [hle, if_false, run_bind_ok, run_pure_ok, xtorPositionM_run_ok] at hrun
    obtain ⟨pos', k3, ⟨hx', rfl⟩, rfl, rfl⟩ := hrun
    rw [hx] at hx'; cases hx'
    simp only [hgt, if_true] at hcsM
    obtain ⟨prem, post, kl, kl', lcode, kb', body, hc3, hload, hbody⟩ :=
      x_codeMethods_nth hooks natRen types envCtx' clauses base pos cl _ _ _ hmrun hclause
    generalize hT : codeTable a64Backend clauses base = table at hcsM
    have htab : table[pos]? = some (.B (clauseLabel base cl.xtor)) := by
      rw [← hT]; exact x_codeTable_nth base clauses pos cl hclause
    have htlen : table.length = clauses.length := by rw [← hT]; exact x_codeTable_length base clauses
    have htins : ∀ code ∈ table, code.isMeta = false := by rw [← hT]; exact x_codeTable_instr base clauses
    generalize hsfx : prem ++ Code.LAB (clauseLabel base cl.xtor) :: (lcode ++ (body ++ post)) ++ restM = sfx
    have hcsT : cs = csM ++ (Code.LAB base :: table) ++ sfx := by
      rw [hcsM, hc3, ← hsfx]; simp [List.append_assoc]
    have hposT : pos < table.length := by omega
    -- the code
    have hje : a64Backend.addAndJump (posTemp (2 * Γa.length + TempNum.snd.toNat)) (a64Backend.jumpLength pos) =
        loadPtr (posTemp (2 * Γa.length + 1)) ++
          [Code.ADDI (ptrReg (posTemp (2 * Γa.length + 1))) (ptrReg (posTemp (2 * Γa.length + 1))) (jumpLength pos),
           Code.BR (ptrReg (posTemp (2 * Γa.length + 1)))] := addAndJump_eq _ _
    rw [hje] at hat
    generalize hc0' : hookCode a64Backend hooks (Γa ++ [b]) ++ [a64Backend.comment (invokePrint x tag args)] = c0
      at hat
    have hc0c : ∀ y ∈ c0, ∃ m', y = Code.COMMENT m' := by rw [← hc0']; exact hook_comments hooks _ _
    have hatA : XAt cs kp (c0 ++ (loadPtr (posTemp (2 * Γa.length + 1)) ++
        ([Code.ADDI (ptrReg (posTemp (2 * Γa.length + 1))) (ptrReg (posTemp (2 * Γa.length + 1))) (jumpLength pos)] ++
         [Code.BR (ptrReg (posTemp (2 * Γa.length + 1)))]))) := by
      simpa [List.append_assoc] using hat
    have hk0 := x_msteps_codes (c := c) Hp hatA.left (execCodes_comments c c0 σ hc0c) out
    have hkb := x_msteps_codes (c := c) Hp hatA.right.left hxb out
    -- the addition
    have hi12 : okImm12 (jumpLength pos) = true := by
      rw [jumpLength_eq]; unfold okImm12
      have h1 : (0 : Int) ≤ 4 * (pos : Int) := by omega
      have h2 : 4 * (pos : Int) < 4096 := by omega
      simp [h1, h2]
    have hxc : execCodes c [Code.ADDI (ptrReg (posTemp (2 * Γa.length + 1)))
        (ptrReg (posTemp (2 * Γa.length + 1))) (jumpLength pos)] σb =
        .ok (σb.setReg dreg (some (w + imm (jumpLength pos)))) := by
      rw [hpr]
      have hti : (Code.ADDI (.x r) (.x r) (jumpLength pos)).toInstr =
          some (.addi (.x dreg) (.x dreg) (jumpLength pos)) := by simp [Code.toInstr, toReg_x, hdr]
      simp [execCodes, execCode_of_toInstr _ hti, exec_addi_x c σb dreg dreg _ hi12, hregb]
    have hkc := x_msteps_codes (c := c) Hp hatA.right.right.left hxc out
    -- what the addition keeps
    have hkeep : ∀ t, t < 281 → t ≠ 2 * Γa.length + 1 →
        (σb.setReg dreg (some (w + imm (jumpLength pos)))).tempVal (posTemp t) = σ.tempVal (posTemp t) := by
      intro t ht hne
      rw [← Fb.temp (isVar_posTemp ht)]
      have hv := isVar_posTemp ht
      cases hpt : posTemp t with
      | register reg =>
        rw [hpt] at hv
        cases reg with
        | x r' =>
          obtain ⟨nt', hnt', h4, _⟩ := tempVal_var_reg (σ := σb) hv
          rw [tempVal_reg hnt', tempVal_reg hnt', setReg_reg, if_neg]
          intro e
          rcases hcase with hc1 | hc1
          · -- the jump register is the register of the closure's word temporary
            have : posTemp t = posTemp (2 * Γa.length + 1) := by
              rw [hpt, hc1]
              have : r' = r := by
                have h1 := hnt'; rw [← e] at h1
                exact xreg_inj h1 hdr
              rw [this]
            exact hne (posTemp_inj.1 this)
          · rw [hc1] at e; rw [← e] at h4; exact absurd h4 (by decide)
        | sp => simp [Temporary.isVar] at hv
        | xzr => simp [Temporary.isVar] at hv
      | spill q => rw [tempVal_spill, tempVal_spill]; rfl
    have hdefc : ((σb.setReg dreg (some (w + imm (jumpLength pos)))).tempVal (posTemp (2 * Γa.length + 1))).isSome := by
      rcases hcase with hc1 | hc1
      · rw [hc1, tempVal_reg hdr]; simp
      · -- a spill slot: untouched
        have hb0 : (σb.tempVal (posTemp (2 * Γa.length + 1))) = some w := by
          rw [Fb.temp hvar]; exact hw
        cases hpt : posTemp (2 * Γa.length + 1) with
        | register reg =>
          exfalso
          rw [hpt] at hpr hvar
          cases reg with
          | x r' =>
            obtain ⟨nt', hnt', h4, _⟩ := tempVal_var_reg (σ := σb) hvar
            simp only [ptrReg] at hpr
            injection hpr with hpr
            subst hpr
            rw [hnt'] at hdr
            injection hdr with hdr
            rw [hdr, hc1] at h4
            exact absurd h4 (by decide)
          | sp => simp [Temporary.isVar] at hvar
          | xzr => simp [Temporary.isVar] at hvar
        | spill q =>
          rw [hpt] at hb0
          rw [tempVal_spill] at hb0 ⊢
          simp only [setReg_slot, setReg_slotAddr]
          rw [hb0]; rfl
    have Cc : Core c (σb.setReg dreg (some (w + imm (jumpLength pos)))) := core_setReg Cb _ _
    have HRc : HeapRel c (σb.setReg dreg (some (w + imm (jumpLength pos)))) hs := by
      refine heapRel_of_keep (heapRel_frame0 X.hrel Fb) rfl ?_ ?_
      · rw [setReg_reg, if_neg]
        intro e
        rcases hcase with hc1 | hc1
        · rw [hc1] at hvar
          obtain ⟨nt', hnt', h4, _⟩ := tempVal_var_reg (σ := σb) hvar
          rw [hnt'] at hdr; injection hdr with hdr
          rw [hdr, e] at h4; exact absurd h4 (by decide)
        · rw [hc1] at e; exact absurd e (by decide)
      · rw [setReg_reg, if_neg]
        intro e
        rcases hcase with hc1 | hc1
        · rw [hc1] at hvar
          obtain ⟨nt', hnt', h4, _⟩ := tempVal_var_reg (σ := σb) hvar
          rw [hnt'] at hdr; injection hdr with hdr
          rw [hdr, e] at h4; exact absurd h4 (by decide)
        · rw [hc1] at e; exact absurd e (by decide)
    have Xc : X3 c (Γa ++ [b]) cfg hs ι κ (σb.setReg dreg (some (w + imm (jumpLength pos)))) out :=
      X3R.keep_cns X Cc hn1 (by rw [hgb]; exact hbchi) hkeep HRc hdefc
    -- the table of the laid-out program
    have hiL : cs[csM.length]? = some (Code.LAB base) := by
      rw [hcsT, List.append_assoc]; exact getElem?_mid _ _ _
    have htabcs : ∀ j, j < table.length → ∃ code, cs[csM.length + 1 + j]? = some code ∧ code.isMeta = false := by
      intro j hj
      refine ⟨table[j], ?_, htins _ (List.getElem_mem hj)⟩
      rw [hcsT, List.append_assoc, List.getElem?_append_right (by omega)]
      rw [show csM.length + 1 + j - csM.length = j + 1 by omega]
      simp only [List.cons_append, List.getElem?_cons_succ]
      rw [List.getElem?_append_left hj, List.getElem?_eq_getElem hj]
    have TA := tableAt_of_holdsA HA hnd c (n := table.length) (by omega) hiL htabcs hfitX
    have htpc := table_pc Hp hiL htabcs pos (by omega)
    -- the address the closure holds is the address of the table label
    obtain ⟨t0, ht0⟩ : ∃ t0, table[0]? = some t0 := ⟨table[0], List.getElem?_eq_getElem (by omega)⟩
    have hlw : labelWord Pm c (pcOf hkf cs csM.length) = addrOf c cs csM.length := by
      have hcs0 : cs = csM ++ Code.LAB base :: ([] ++ t0 :: (table.drop 1 ++ sfx)) := by
        rw [hcsT]
        have : table = t0 :: table.drop 1 := by
          cases table with
          | nil => simp at ht0
          | cons y ys => simp at ht0; subst ht0; rfl
        conv => lhs; rw [this]
        simp [List.append_assoc]
      exact (label_addr (c := c) HB hnd hcs0 (fun _ h => absurd h List.not_mem_nil)
        (htins t0 (List.mem_of_getElem? ht0))).2.2
    -- `BR` lands on the table entry
    have hgetBR : cs[kp + c0.length + (loadPtr (posTemp (2 * Γa.length + 1))).length + 1]? =
        some (Code.BR (ptrReg (posTemp (2 * Γa.length + 1)))) := by
      have := hatA.right.right.right.head
      simpa using this
    obtain ⟨iB, htiB, hitB⟩ := Hp.instr _ _ hgetBR rfl
    have eB : iB = .br (.x dreg) := by
      have : (Code.BR (ptrReg (posTemp (2 * Γa.length + 1)))).toInstr = some (.br (.x dreg)) := by
        rw [hpr]; simp [Code.toInstr, toReg_x, hdr]
      rw [this] at htiB; exact (Option.some.inj htiB).symm
    subst eB
    have hsB := step_br TA pos hposT dreg (σb.setReg dreg (some (w + imm (jumpLength pos))))
      (pcOf hkf cs (kp + c0.length + (loadPtr (posTemp (2 * Γa.length + 1))).length + 1))
      (by rw [hlw, ← hwe]; simp)
    rw [← htpc] at hsB
    have hmC : MSteps Pm c (σb.setReg dreg (some (w + imm (jumpLength pos))))
        (pcOf hkf cs (kp + c0.length + (loadPtr (posTemp (2 * Γa.length + 1))).length + 1)) out
        (σb.setReg dreg (some (w + imm (jumpLength pos)))) (pcOf hkf cs (csM.length + 1 + pos)) out :=
      .one (.next hitB hsB)
    -- the table entry branches to the method
    have hcsTe : cs[csM.length + 1 + pos]? = some (.B (clauseLabel base cl.xtor)) := by
      rw [hcsT, List.append_assoc, List.getElem?_append_right (by omega)]
      rw [show csM.length + 1 + pos - csM.length = pos + 1 by omega]
      simp only [List.cons_append, List.getElem?_cons_succ]
      rw [List.getElem?_append_left hposT]
      exact htab
    have hiC : cs[csM.length + 1 + table.length + prem.length]? = some (Code.LAB (clauseLabel base cl.xtor)) := by
      have e : cs = (csM ++ (Code.LAB base :: table) ++ prem) ++
          Code.LAB (clauseLabel base cl.xtor) :: (lcode ++ (body ++ post) ++ restM) := by
        rw [hcsT, ← hsfx]; simp [List.append_assoc]
      have hlen : (csM ++ (Code.LAB base :: table) ++ prem).length = csM.length + 1 + table.length + prem.length := by
        simp; omega
      rw [← hlen]
      conv => lhs; rw [e]
      exact getElem?_mid _ _ _
    have hmD := mstep_jump (c := c) Hp hcsTe (label_of_nodup Hp hnd hiC)
      (σb.setReg dreg (some (w + imm (jumpLength pos)))) out
    have hmE := msteps_code (c := c) Hp hiC (σ := σb.setReg dreg (some (w + imm (jumpLength pos))))
      (σ' := σb.setReg dreg (some (w + imm (jumpLength pos)))) rfl out
    have hkc' : MSteps Pm c σb (pcOf hkf cs (kp + c0.length + (loadPtr (posTemp (2 * Γa.length + 1))).length)) out
        (σb.setReg dreg (some (w + imm (jumpLength pos))))
        (pcOf hkf cs (kp + c0.length + (loadPtr (posTemp (2 * Γa.length + 1))).length + 1)) out := by
      simpa using hkc
    refine ⟨_, csM.length + 1 + table.length + prem.length + 1, _, kl, kl', lcode, kb', body,
      hk0.trans (hkb.trans (hkc'.trans (hmC.trans (hmD.trans hmE)))), Tol.refl _ _, Xc, hload, hbody, ?_, hkeep,
      ((MStepsR.one_next hitB hsB).post (hmD.trans hmE)).pre (hk0.trans (hkb.trans hkc'))⟩
    refine ⟨csM ++ (Code.LAB base :: table) ++ prem ++ [Code.LAB (clauseLabel base cl.xtor)], post ++ restM, ?_, ?_⟩
    · rw [hcsT, ← hsfx]; simp [List.append_assoc]
    · simp; omega

include H h8 HB hnd hfitX hcsC in
/-- THREE-WAY SIMULATION OF `invoke`.  The closure facts (`hword` … `hXM`) come from the closure invariant
`XC`; the machine may end ahead of the boundary position `kp'` by `#ctx` hooks (`Tol`). -/
theorem invoke_x3Q {P : Program} {hooks : Bool} {prog : AxCut.Prog} {Γa : Ctx} {b : Binding}
    {ρa : List Value} {Γc : Ctx} {ρc : List Value} {clauses : Clauses} {x tag : Ident} {ty : Ty}
    {args : Ctx} {cfg : Config} {cl : Clause} {pos : Nat}
    (R : RelX P hooks prog ⟨Γa ++ [b], ρa ++ [.clo Γc ρc clauses], .invoke x tag ty args⟩ cfg)
    (hfits : Fits P)
    (hb : b.var.id = x.id) (hfresh : ∀ b' ∈ Γa, b'.var.id ≠ x.id)
    (hpos : Pos.tagPosition prog.types ty tag = .ok pos)
    (hclause : nthClause clauses pos = some cl)
    (hlenc : ∀ d, lookupTypeDecl prog.types ty = some d → clauses.length = d.xtors.length)
    (hargs : Γa.map (·.chi) = cl.ctx.map (·.chi))
    (hkinds : ρc.map Sim2.kindOf = Mock.kindsOf Γc)
    (hcap : 2 * (cl.ctx.length + Γc.length) + 2 < Mock.T_TEMP)
    {hs : HState} {ι : Nat → Nat} {κ : Nat → Nat → Word} {σ : State} {out : List (Bool × Word)} {kp : Nat}
    (X : X3 c (Γa ++ [b]) cfg hs ι κ σ out)
    {a : Nat} {envCtx' : Ctx} {w : Word} (hkeys : envCtx'.keys = Γc.keys)
    (hword : cfg.temps.get (2 * Γa.length + 1) = some (BitVec.ofNat 64 a))
    (hmeth : MethodsAt P hooks prog.types a envCtx' clauses)
    (hw : σ.tempVal (posTemp (2 * Γa.length + 1)) = some w)
    (hXM : XMethodsAt c cs hooks prog.types w envCtx' clauses)
    {k k' : Nat} {items : List Code}
    (hrun : (codeStatementR a64Backend hooks natRen prog.types (.invoke x tag ty args) (Γa ++ [b])).run k =
      .ok (items, k'))
    (hat : XAt cs kp items)
    (hcapX : 2 * (cl.ctx.length + Γc.length) ≤ 280)
    (hpos12 : pos < 1024) :
    ∃ kk cfg' σ' hs' kp' pcR, stepsTo P kk cfg cfg' ∧ MSteps Pm c σ (pcOf hkf cs kp) out σ' pcR out ∧
      Tol Pm (pcOf hkf cs kp') pcR ∧
      FrLe hs hs' 0 ∧ cfg'.out = cfg.out ∧ cfg'.next = cfg.next ∧
      RelX P hooks prog ⟨cl.ctx ++ envCtx', ρa ++ ρc, cl.body⟩ cfg' ∧
      X3 c (cl.ctx ++ envCtx') cfg' hs' ι κ σ' out ∧
      ∃ k1 k1' items', (codeStatementR a64Backend hooks natRen prog.types cl.body (cl.ctx ++ envCtx')).run k1 =
          .ok (items', k1') ∧ XAt cs kp' items' ∧ LoadProv Γa.length envCtx' cfg cfg' κ σ σ' ∧
        MStepsR Pm c σ (pcOf hkf cs kp) out σ' pcR out := by
  have Hp := HB.holdsA.holds
  have hlen : ρa.length = Γa.length := by have := R.len; simpa using this
  have hlenA : Γa.length = cl.ctx.length := by simpa using congrArg List.length hargs
  have hkenv : Mock.kindsOf envCtx' = Mock.kindsOf Γc := kinds_of_keys hkeys
  have hlenv : envCtx'.length = Γc.length := Sim2.length_of_keys hkeys
  have hkinds' : ρc.map Sim2.kindOf = Mock.kindsOf envCtx' := by rw [hkenv]; exact hkinds
  have hcap' : 2 * (Γa.length + envCtx'.length) + 2 < Mock.T_TEMP := by rw [hlenA, hlenv]; exact hcap
  -- the closure position
  have hn1 : Γa.length < (Γa ++ [b]).length := by simp
  have hn2 : Γa.length < (ρa ++ [Value.clo Γc ρc clauses]).length := by simp [hlen]
  obtain ⟨hrep, hsome, hkind, hptr⟩ := R.vals Γa.length hn1 hn2
  have g1 : (Γa ++ [b])[Γa.length] = b := by simp
  have g2 : (ρa ++ [Value.clo Γc ρc clauses])[Γa.length] = .clo Γc ρc clauses := by
    rw [List.getElem_append_right (by omega)]; simp [hlen]
  simp only [g1, g2] at hrep hkind hptr
  have hbchi : b.chi = .cns := hkind
  have hbne : b.chi ≠ .ext := by rw [hbchi]; decide
  have hbe : (b.chi == .ext) = false := (chi_beq_ext_false _).mpr hbne
  simp only [hbe, Bool.false_eq_true, if_false] at hrep
  obtain ⟨r, a'', envCtx'', hr, hB, _, _, _⟩ := hrep.clo_inv
  obtain ⟨d, hd, hx⟩ := tagPosition_ok hpos
  -- both machines up to the `load` of the method
  obtain ⟨k4, cfg4, hst4, h4heap, h4next, h4out, h4temps, hloadM, hcode⟩ :=
    invoke_nav_abs R hfits hb hfresh hpos hclause hlenc hlenA hword hmeth
  obtain ⟨σ4, kp4, pcR, kl, kl', lcode, kb', body, hn4, T4, X4, hload, hbody, hat4, hmk4, hnR⟩ :=
    invoke_nav_a64Q H HB hnd hfitX hcsC X hb hfresh hbchi hd hx hclause (hlenc d hd) hw hXM hpos12 hrun hat
  have X4' : X3 c (cl.ctx ++ [b]) cfg hs ι κ σ4 out := X4.ctxCongr (by simp [hargs])
  obtain ⟨cfg', hstep, hout', hnext', R'⟩ := load_enter (Γ'' := cl.ctx) (Δ := envCtx') (s' := cl.body)
    (cfg4 := cfg4) R hargs hbne hr hB hkinds' hcap' h4heap h4next h4out h4temps hloadM hcode
  have hcapX' : 2 * (Γa.length + envCtx'.length) ≤ 280 := by rw [hlenA, hlenv]; exact hcapX
  have hcapXa := X.cap
  simp only [List.length_append, List.length_singleton] at hcapXa
  cases hctx : envCtx' with
  | nil =>
    -- no environment: nothing is loaded, no code
    have hf0 : ρc = [] := by
      have := congrArg List.length hkinds'
      rw [hctx] at this
      simpa [Mock.kindsOf] using this
    subst hf0
    have hr0 : r = 0 := by cases hB; rfl
    subst hr0
    rw [hctx] at hloadM hload
    have hA := step_load_empty P cfg4 _ hloadM
    rw [hstep] at hA
    injection hA with hA
    have hl0 : lcode = [] := by
      have : (load [] cl.ctx).run kl = .ok ([], kl) := rfl
      rw [this] at hload
      injection hload with hload
      injection hload with e1 _
      exact e1.symm
    subst hl0
    rw [hctx] at hbody R'
    rw [List.nil_append] at hat4
    have hlow : ∀ t, t < 2 * (Γa.length + 1) → cfg'.temps.get t = cfg.temps.get t := by
      intro t ht
      rw [hA]
      simp only
      rw [get_clobberTemp _ (by unfold Mock.T_TEMP; omega), h4temps t ht]
    refine ⟨k4 + 1, cfg', σ4, hs, kp4, pcR, stepsTo_trans P _ _ _ _ _ hst4 (stepsTo_one P _ _ hstep), hn4, T4,
      Scc.Heap.Refine.FrLe.refl hs, hout', hnext', R', ?_, kl', kb', body, hbody, hat4, ?_, hnR⟩
    · rw [List.append_nil]
      refine ⟨X4'.core, by omega, ?_, ?_, by rw [X4'.out, hA]; exact h4out.symm, X4'.hrel, ?_⟩
      · intro i hi a0 ha
        rw [hlow _ (by omega)] at ha
        have := X4'.words i (by simp; omega) a0 ha
        rw [List.getElem_append_left hi] at this
        exact this
      · intro i hi hc r' hr'
        rw [hlow _ (by omega)] at hr'
        exact X4'.ptrs i (by simp; omega) (by rw [List.getElem_append_left hi]; exact hc) r' hr'
      · have e1 : cfg'.heap = cfg.heap := by rw [hA]; exact h4heap
        have e2 : cfg'.next = cfg.next := by rw [hA]; exact h4next
        have e3 : roots (cl.ctx ++ [b]) cfg.temps = roots cl.ctx cfg'.temps := by
          rw [roots_snoc]
          have : Sim2.rootOf cfg.temps b cl.ctx.length = [] := by
            unfold Sim2.rootOf; rw [← hlenA, hr]; simp
          rw [this, List.append_nil]
          exact (roots_congr _ _ _ (fun i hi => hlow (2 * i) (by omega))).symm
        rw [e1, e2, ← e3]
        exact X4'.href
    · refine ⟨⟨fun t ht => hlow t (by omega), fun i hi => hmk4 _ (by omega) (by omega)⟩, Or.inl ⟨rfl, ?_⟩⟩
      rw [hA]; exact h4heap
  | cons b0 Δ =>
    rw [hctx] at hkinds'
    cases hB with
    | empty => simp [Mock.kindsOf] at hkinds'
    | block v vs _ o hr0 hg hF =>
      have hk : o.fields.map (·.chi) = Mock.kindsOf envCtx' := by
        rw [RepF.kinds hF, hctx]; exact hkinds'
      have hne : o.fields ≠ [] := by
        intro e
        rw [e, hctx] at hk
        simp [Mock.kindsOf] at hk
      have hr' : cfg.temps.get (2 * cl.ctx.length) = some r := by rw [← hlenA]; exact hr
      have hr4 : cfg4.temps.get (2 * Γa.length) = some r := by rw [h4temps _ (by omega)]; exact hr
      have hg4 : cfg4.heap.get r.toNat = some o := by rw [h4heap]; exact hg
      have hk4 : o.fields.map (·.chi) = b0.chi :: Mock.kindsOf Δ := by rw [hk, hctx]; rfl
      have hloadM' : P.code[cfg4.pc]? = some (.load (b0.chi :: Mock.kindsOf Δ) Γa.length) := by
        rw [hloadM, hctx]; rfl
      -- the abstract step, explicitly
      have hexp : ∃ h', loadAbs cfg.heap r.toNat o = .ok h' ∧ cfg' =
          { cfg4 with pc := cfg4.pc + 1, temps := writeFields (clobberTemp cfg4.temps) o.fields Γa.length, heap := h' } := by
        by_cases hc0 : o.count = 0
        · have hA := step_load_unique P cfg4 _ _ _ r o hloadM' hr4 hr0 hg4 hk4 hc0
          rw [hstep] at hA
          injection hA with hA
          refine ⟨cfg.heap.remove r.toNat, ?_, by rw [hA, h4heap]⟩
          unfold loadAbs
          simp [hc0]
        · cases hsh : (cfg4.heap.set r.toNat { o with count := o.count - 1 }).shareAll o.children with
          | error e =>
            exfalso
            have h1 : (r == 0) = false := by rw [beq_eq_false_iff_ne]; exact hr0
            have h2 : (o.fields.map (·.chi) != b0.chi :: Mock.kindsOf Δ) = false := by rw [hk4]; exact kinds_bne_self _
            have h3 : (o.count == 0) = false := by rw [beq_eq_false_iff_ne]; exact hc0
            simp only [Abs.step, hloadM', getT, hr4, h1, hg4, h2, h3, hsh, Bool.false_eq_true, if_false,
              stuck] at hstep
            cases hstep
          | ok h' =>
            have hA := step_load_shared P cfg4 _ _ _ r o h' hloadM' hr4 hr0 hg4 hk4 hc0 hsh
            rw [hstep] at hA
            injection hA with hA
            refine ⟨h', ?_, hA⟩
            unfold loadAbs
            have : (o.count == 0) = false := by rw [beq_eq_false_iff_ne]; exact hc0
            rw [if_neg (by rw [this]; simp), ← h4heap]
            exact hsh
      obtain ⟨h', hlo, hcfg'⟩ := hexp
      rw [hlenA] at hcfg' h4temps hcapX'
      obtain ⟨code, kk', hrunL, _, _, σ5, hs', hx5, X5, hfrL, hkeep5, hval5⟩ :=
        load_x3 H h8 X4' hbne hr' hr0 hg hk hne hcapX' h4next h4out h4temps hlo hcfg' kl
      have hcode' : code = lcode := by
        rw [hload] at hrunL
        injection hrunL with hrunL
        injection hrunL with e1 _
        exact e1.symm
      subst hcode'
      have hn5 := x_msteps_fwd Hp hnd hat4.left hx5 out
      have hLP : LoadProv Γa.length envCtx' cfg cfg' κ σ σ5 := by
        refine ⟨⟨fun t ht => ?_, fun i hi => ?_⟩, Or.inr ⟨r, o, hr, hr0, hg, hk, fun j hj => ⟨?_, ?_, ?_⟩⟩⟩
        · rw [hcfg']
          simp only
          rw [writeFields_get_low _ _ _ _ (by omega), get_clobberTemp _ (by unfold Mock.T_TEMP; omega),
            h4temps t (by omega)]
        · rw [hkeep5 _ (by omega), hmk4 _ (by omega) (by omega)]
        · rw [hcfg', hlenA]; exact writeFields_get_val _ _ _ _ hj
        · rw [hcfg', hlenA]; exact writeFields_get_ptr _ _ _ _ hj
        · rw [hlenA]; exact hval5 j hj
      rw [← hctx]
      rcases tol_run hn5 T4 with hm5 | ⟨e1, _, T5⟩
      · exact ⟨k4 + 1, cfg', σ5, hs', _, _, stepsTo_trans P _ _ _ _ _ hst4 (stepsTo_one P _ _ hstep),
          hn4.trans hm5, Tol.refl _ _, hfrL, hout', hnext', R', X5, kl', kb', body,
          hbody, hat4.right, hLP, hnR.post hm5⟩
      · subst e1
        exact ⟨k4 + 1, cfg', σ5, hs', _, pcR, stepsTo_trans P _ _ _ _ _ hst4 (stepsTo_one P _ _ hstep),
          hn4, T5, hfrL, hout', hnext', R', X5, kl', kb', body, hbody, hat4.right, hLP, hnR⟩

end Invoke3Q

/-- the three-way simulation claim for one step of the positional machine.  The relation holds again at the
position `kp'`; the machine itself is at item `pcR`, which is the item of `kp'` or ahead of it by `#ctx` hooks
(`Tol`: after the `BR` of an `invoke` of a single-method closure) -/
def StepSim3P (c : MemCfg) (hkf : Code → Bool) (Pm : Prog) (cs : List Code) (P : Program) (hooks : Bool)
    (prog : AxCut.Prog) (st : Pos.State) (cfg : Config) (hs : HState) (σ : State) (kp : Nat) : Prop :=
  match Pos.step prog st with
  | .next st' o =>
    WithinCapacity st'.ctx → 2 * st'.ctx.length ≤ 280 →
    ∃ cfg' hs' σ' kp' pcR, MSteps Pm c σ (pcOf hkf cs kp) cfg.out σ' pcR cfg'.out ∧
      Tol Pm (pcOf hkf cs kp') pcR ∧
      (IsJump st.stmt → MStepsR Pm c σ (pcOf hkf cs kp) cfg.out σ' pcR cfg'.out) ∧
      cfg'.out = outAfter o cfg.out ∧ cfg'.next ≤ cfg.next + 1 ∧
      FrLe hs hs' (64 * allocArity st.stmt) ∧ FrPk hs hs' ∧ Rel3 c cs P hooks prog st' cfg' hs' σ' kp'
  | .done v => ∃ kL σL, MSteps Pm c σ (pcOf hkf cs kp) cfg.out σL (pcOf hkf cs kL) cfg.out ∧
      Pm.items[pcOf hkf cs kL]? = some (.instr .ret) ∧ exitCheck c σL = .done v
  | .stuck _ => True

section Run3P

variable {c : MemCfg} (H : CfgCC c) (h8 : c.heapBase % 8 = 0) {hkf : Code → Bool} {Pm : Prog}
  {cs pre : List Code} (HB : HoldsB hkf Pm cs) (hnd : (labs cs).Nodup)
  (hfitX : c.codeBase + 4 * ninstr cs < 2 ^ 64) (hcs : cs = pre ++ cleanup)
  (hclean : "cleanup" ∉ labs pre)

include H h8 HB hnd hfitX hcs hclean in
/-- THE THREE-WAY STEP: Theorem A's `TheoremA_full` with the AArch64 machine carried along, for ALL ELEVEN
statement forms -/
theorem step3P (hooks : Bool) (prog : AxCut.Prog) (kc : Nat) (code : List MockOp) (nargs kc' : Nat)
    (hcomp : (compile mockSym hooks prog).run kc = .ok ((code, nargs), kc'))
    (hsafe : LabelSafe prog = true) (htp : LinTypedProg prog) (hfit : CodeFits code)
    (DX : XDefsAt cs hooks prog) (hprog : ProgOK prog)
    (st : Pos.State) (cfg : Config) (hs : HState) (σ : State) (kp : Nat)
    (R : Rel3 c cs (Program.ofOps code) hooks prog st cfg hs σ kp)
    (T : Pos.StateTyped prog st) (hheap : EnoughHeap cfg)
    (hroom : Room hs (64 * allocArity st.stmt + 64)) :
    StepSim3P c hkf Pm cs (Program.ofOps code) hooks prog st cfg hs σ kp := by
  have HA := HB.holdsA
  have Hp := HA.holds
  have hnodup := Scc.Props.C14Generic.labels_unique hooks prog kc code nargs kc' hcomp hsafe
  have D := defsAt_of_compile hooks prog kc code nargs kc' hcomp hnodup
  have hfits := fits_of_codeFits hfit
  obtain ⟨Γ, ρ, s⟩ := st
  obtain ⟨Γ', ι, κ, hk, RX, X3h, C, kx, kx', items, hrunX, hatX⟩ := R
  obtain ⟨hty, henv⟩ := T
  simp only at hk RX hty henv C
  have hlenk : Γ'.length = Γ.length := keys_length hk
  have hlenρ : ρ.length = Γ'.length := RX.len
  have hdef := X3h.mach_def RX
  unfold StepSim3P
  have hcapX3 := X3h.cap
  cases hty with
  | lit hn hfr hnext =>
    rename_i x n next fv
    simp only [Pos.step]
    intro hcap hcap2
    obtain ⟨cfg', σ', kp', h1, hm, h2, h3, h4, h5, k1, k1', items', hr', hat', hh, K⟩ :=
      lit_x3 H Hp RX (mem_ids_keys hk hfr)
      (by simp [WithinCapacity] at hcap; omega) X3h hrunX hatX
    exact ⟨cfg', hs, σ', kp', _, by rw [h2]; exact hm, Tol.refl _ _, (fun hj => False.elim hj), h2, by omega, FrLe.refl' hs, FrPk.refl hs,
      ⟨Γ' ++ [⟨x, .ext, .i64⟩], ι, κ, keys_append hk rfl, h4, by rw [h2]; exact h5,
        C.snoc_int hlenρ K hh _ _, k1, k1', items', hr', hat'⟩⟩
  | op hn ha hb hfr hnext =>
    rename_i x a o b next fv
    simp only [Pos.step]
    cases hra : readInt Γ ρ a with
    | error e => simp
    | ok va =>
      cases hrb : readInt Γ ρ b with
      | error e => simp
      | ok vb =>
        cases hv : Pos.evalOp o va vb with
        | error e => simp [hv]
        | ok v =>
          simp only [hv]
          intro hcap hcap2
          obtain ⟨cfg', σ', kp', h1, hm, h2, h3, h4, h5, k1, k1', items', hr', hat', hh, K⟩ :=
            op_x3 H Hp RX (mem_ids_keys hk hfr)
            (by simp [WithinCapacity] at hcap; omega)
            (by rw [readInt_keys hk]; exact hra) (by rw [readInt_keys hk]; exact hrb) hv X3h hrunX hatX
          exact ⟨cfg', hs, σ', kp', _, by rw [h2]; exact hm, Tol.refl _ _, (fun hj => False.elim hj), h2, by omega, FrLe.refl' hs, FrPk.refl hs,
            ⟨Γ' ++ [⟨x, .ext, .i64⟩], ι, κ, keys_append hk rfl, h4, by rw [h2]; exact h5,
              C.snoc_int hlenρ K hh _ _, k1, k1', items', hr', hat'⟩⟩
  | print hn ha hnext =>
    rename_i nl a next fv
    simp only [Pos.step]
    cases hra : readInt Γ ρ a with
    | error e => simp
    | ok v =>
      simp only
      intro _ _
      obtain ⟨cfg', σ', kp', h1, hm, h2, h3, h4, h5, k1, k1', items', hr', hat', hh, K⟩ := print_x3 H Hp RX
        (by rw [readInt_keys hk]; exact hra) X3h hrunX hatX
      exact ⟨cfg', hs, σ', kp', _, by rw [h2]; exact hm, Tol.refl _ _, (fun hj => False.elim hj), h2, by omega, FrLe.refl' hs, FrPk.refl hs,
        ⟨Γ', ι, κ, hk, h4, by rw [h2]; exact h5, C.keep rfl K hh, k1, k1', items', hr', hat'⟩⟩
  | ifc hn ha hb ht he =>
    rename_i srt a b t e
    simp only [Pos.step]
    cases hra : readInt Γ ρ a with
    | error err => simp
    | ok va =>
      cases b with
      | none =>
        simp only
        intro _ _
        obtain ⟨cfg', σ', kp', h1, hm, h2, h3, h4, h5, k1, k1', items', hr', hat', hh, K⟩ :=
          ifc_x3 H Hp hnd (b := none) (vb := 0) RX
          (by rw [readInt_keys hk]; exact hra) rfl X3h hrunX hatX
        exact ⟨cfg', hs, σ', kp', _, by rw [h2]; exact hm, Tol.refl _ _, (fun hj => False.elim hj), h2, by omega, FrLe.refl' hs, FrPk.refl hs,
          ⟨Γ', ι, κ, hk, h4, by rw [h2]; exact h5, C.keep rfl K hh, k1, k1', items', hr', hat'⟩⟩
      | some b' =>
        simp only
        cases hrb : readInt Γ ρ b' with
        | error err => simp
        | ok vb =>
          simp only
          intro _ _
          obtain ⟨cfg', σ', kp', h1, hm, h2, h3, h4, h5, k1, k1', items', hr', hat', hh, K⟩ :=
            ifc_x3 H Hp hnd (b := some b') (vb := vb) RX
            (by rw [readInt_keys hk]; exact hra) (by simp only; rw [readInt_keys hk]; exact hrb)
            X3h hrunX hatX
          exact ⟨cfg', hs, σ', kp', _, by rw [h2]; exact hm, Tol.refl _ _, (fun hj => False.elim hj), h2, by omega, FrLe.refl' hs, FrPk.refl hs,
            ⟨Γ', ι, κ, hk, h4, by rw [h2]; exact h5, C.keep rfl K hh, k1, k1', items', hr', hat'⟩⟩
  | exit hn ha =>
    rename_i a
    simp only [Pos.step]
    cases hra : readInt Γ ρ a with
    | error e => simp
    | ok v =>
      simp only
      obtain ⟨kL, σL, e1, e2, e3, _⟩ := exit_x3 H Hp hcs hclean RX (by rw [readInt_keys hk]; exact hra) X3h
        hrunX hatX
      exact ⟨kL, σL, e1, e2, e3⟩
  | call hn hf hc =>
    rename_i l args params
    simp only [Pos.step]
    cases hd : Pos.findDef prog.defs l with
    | none => simp
    | some d =>
      simp only
      by_cases hsh : Pos.chiTys Γ ≠ Pos.chiTys d.ctx ∨ ρ.length ≠ Γ.length
      · simp [hsh]
      · simp only [hsh, if_false]
        intro _ _
        have hchi : Pos.chiTys Γ = Pos.chiTys d.ctx := by
          by_cases h : Pos.chiTys Γ = Pos.chiTys d.ctx
          · exact h
          · exact absurd (Or.inl h) hsh
        obtain ⟨cfg', σ', kp', h1, hm, h2, h3, h4, h5, k1, k1', items', hr', hat', hh, K, hmR⟩ :=
          call_x3Q Hp hnd RX D DX hd
          (by rw [keys_chiTys hk]; exact hchi) X3h hrunX hatX
        have hdm : d ∈ prog.defs := List.mem_of_find?_eq_some hd
        have hchi' : Γ'.map (·.chi) = d.ctx.map (·.chi) := by
          rw [keys_chi hk]
          have := congrArg (List.map (·.1)) hchi
          simpa [Pos.chiTys, Function.comp_def] using this
        exact ⟨cfg', hs, σ', kp', _, by rw [h2]; exact hm, Tol.refl _ _, (fun _ => by rw [h2]; exact hmR), h2, by omega, FrLe.refl' hs, FrPk.refl hs,
          ⟨d.ctx, ι, κ, rfl, h4, by rw [h2]; exact h5, C.keep hchi' K hh, k1, k1', items', hr', hat'⟩⟩
  | subst hn hhas hnew hnext =>
    rename_i pairs next
    simp only [Pos.step]
    cases hb : Pos.step.build Γ ρ pairs with
    | error e => simp
    | ok vs =>
      simp only
      intro hcap hcap2
      have hnew' : (pairs.map (·.1.var.id)).Nodup := by
        have : ((pairs.map (·.1)).map (·.var.id)).Nodup := hnew
        rw [List.map_map] at this
        exact this
      have hold : ∀ p ∈ pairs, ∃ b ∈ Γ', b.var.id = p.2.id ∧ b.chi = p.1.chi := by
        intro p hp
        obtain ⟨b, hb', hid, hchi, _⟩ := hasVar_keys hk (hhas p hp)
        exact ⟨b, hb', hid, hchi⟩
      have hpl : 2 * pairs.length ≤ 280 := by simpa using hcap2
      obtain ⟨k, cfg', σ', hs', kp', h1, hm, hfr, h2, h3, h4, h5, k1, k1', items', hr', hat', SP⟩ :=
        subst_x3 H h8 Hp hnd RX
        (nodup_keys hk hn) hnew' hold
        (by simpa [WithinCapacity] using hcap) (by rw [build_keys hk]; exact hb) X3h hrunX hatX hpl
      exact ⟨cfg', hs', σ', kp', _, by rw [h2]; exact hm, Tol.refl _ _, (fun hj => False.elim hj), h2, by omega, FrLe.mono' hfr (by omega),
        FrPk.of_frLe0 hfr, ⟨pairs.map (·.1), ι, κ, rfl, h4, by rw [h2]; exact h5, XC.subst C hlenρ RX.heap h1 h4 SP,
          k1, k1', items', hr', hat'⟩⟩
  | @letS _ Γ0 Γa x ty tag args sig next fv hn hsplit hkeys hs hs' hfr hnext =>
    have hlenA : Γa.length = args.length := keys_length hkeys
    have hsplit' : Γ = Γ0 ++ Γa := hsplit
    have hkA : args.length ≤ Γ.length := by rw [hsplit']; simp; omega
    simp only [Pos.step]
    by_cases hsh : Γ.length < args.length ∨ ρ.length ≠ Γ.length
    · rw [if_pos hsh]; trivial
    · rw [if_neg hsh]
      cases hpos : Pos.tagPosition prog.types ty tag with
      | error e => trivial
      | ok pos =>
        simp only
        intro hcap hcap2
        have hn0 : Γ.length - args.length = Γ0.length := by rw [hsplit']; simp; omega
        have htake : Γ.take (Γ.length - args.length) = Γ0 := by
          rw [← hlenA]; exact take_of_append hsplit'
        have hkt : Ctx.keys (Γ'.take (Γ'.length - args.length)) = Γ0.keys := by
          rw [hlenk, keys_take hk, htake]
        have hargs140 : args.length ≤ 140 := by omega
        obtain ⟨cfg', σ', hs', ι', κ', kp', h1, hm, hfr, h2, h3, h4, h5, k1, k1', items', hr', hat', LP, hpk⟩ :=
          let_x3P H h8 Hp hnd RX
          (by rw [hlenk]; exact hkA) (mem_ids_keys hkt hfr) hpos
          (by
            simp only [WithinCapacity, htake, List.length_append, List.length_singleton] at hcap
            rw [hlenk, hn0]; exact hcap) hheap X3h hrunX hatX
          (by simpa only [allocArity] using hroom)
        obtain ⟨C0, r, hr, hXB⟩ := XC.let_parts C hlenρ (Nat.sub_le _ _) RX.heap hheap hdef LP
        have hNlen : (Γ'.take (Γ'.length - args.length)).length = Γ'.length - args.length := by simp
        have C' := XC.snoc C0 (by simp [hlenρ]) ⟨x, .prd, ty⟩ (.obj pos (ρ.drop (Γ'.length - args.length)))
          (fun w hw => by
            rw [hNlen, hr]
            exact .obj pos _ r _ w hXB)
        rw [hlenk] at h4 h5 C' hr'
        refine ⟨cfg', hs', σ', kp', _, by rw [h2]; exact hm, Tol.refl _ _, (fun hj => False.elim hj), h2, h3,
          (by simpa only [allocArity] using hfr), hpk, ⟨_, ι', κ', ?_, h4, by rw [h2]; exact h5, C', k1, k1', items', hr', hat'⟩⟩
        show Ctx.keys (Γ'.take (Γ.length - args.length) ++ [_]) =
          Ctx.keys (Γ.take (Γ.length - args.length) ++ [_])
        rw [htake, ← hlenk]
        exact keys_append hkt rfl
  | @create _ Γn Γe Γc x ty clauses next fc fn d hn hsplit hkeys hd hm hcl hfr hnext =>
    have hlenE : Γe.length = Γc.length := keys_length hkeys
    have hsplit' : Γ = Γn ++ Γe := hsplit
    have hkA : Γc.length ≤ Γ.length := by rw [hsplit']; simp; omega
    simp only [Pos.step]
    by_cases hsh : Γ.length < Γc.length ∨ ρ.length ≠ Γ.length
    · rw [if_pos hsh]; trivial
    · rw [if_neg hsh]
      simp only
      intro hcap hcap2
      have hn0 : Γ.length - Γc.length = Γn.length := by rw [hsplit']; simp; omega
      have htake : Γ.take (Γ.length - Γc.length) = Γn := by
        rw [← hlenE]; exact take_of_append hsplit'
      have hdrop : Γ.drop (Γ.length - Γc.length) = Γe := by
        rw [hn0, hsplit']; simp
      have hkt : Ctx.keys (Γ'.take (Γ'.length - Γc.length)) = Γn.keys := by
        rw [hlenk, keys_take hk, htake]
      have hkd : Ctx.keys (Γ'.drop (Γ'.length - Γc.length)) = Γc.keys := by
        rw [hlenk, keys_drop hk, hdrop]; exact hkeys
      have hc140 : Γc.length ≤ 140 := by omega
      obtain ⟨cfg', σ', hs', ι', κ', kp', h1, hmm, hfr, h2, h3, h4, h5, k1, k1', items', hr', hat', LP, a, w0, ha, hw0,
        hmeth, hxm, hpk⟩ := create_x3P H h8 Hp hnd HB hcs RX (by rw [hlenk]; exact hkA) hkd (mem_ids_keys hkt hfr)
          (by
            simp only [WithinCapacity, htake, List.length_append, List.length_singleton] at hcap
            rw [hlenk, hn0]; exact hcap) hheap X3h hrunX hatX (by simpa only [allocArity, envLen] using hroom)
      obtain ⟨C0, r, hr, hXB⟩ := XC.let_parts C hlenρ (Nat.sub_le _ _) RX.heap hheap hdef LP
      have hNlen : (Γ'.take (Γ'.length - Γc.length)).length = Γ'.length - Γc.length := by simp
      have C' := XC.snoc C0 (by simp [hlenρ]) ⟨x, .cns, ty⟩ (.clo Γc (ρ.drop (Γ'.length - Γc.length)) clauses)
        (fun w hw => by
          rw [hNlen, hr, ha]
          rw [hNlen, hw0] at hw
          injection hw with hw
          subst hw
          exact .clo Γc _ _ clauses r a w0 hkd hXB hmeth hxm)
      rw [hlenk] at h4 h5 C' hr'
      refine ⟨cfg', hs', σ', kp', _, by rw [h2]; exact hmm, Tol.refl _ _, (fun hj => False.elim hj), h2, h3,
        (by simpa only [allocArity, envLen] using hfr), hpk, ⟨_, ι', κ', ?_, h4, by rw [h2]; exact h5, C', k1, k1', items', hr', hat'⟩⟩
      show Ctx.keys (Γ'.take (Γ.length - Γc.length) ++ [_]) =
        Ctx.keys (Γ.take (Γ.length - Γc.length) ++ [_])
      rw [htake, ← hlenk]
      exact keys_append hkt rfl
  | @switch _ Γ0 b x ty cls fv d hn hsplit hb hd hm hcl =>
    subst hsplit
    obtain ⟨ρ', v, rfl, hρ', hv⟩ := Pos.env_last henv
    have hbid : b.var.id = x.id := congrArg (·.1) hb
    have hbchi : b.chi = .prd := congrArg (·.2.1) hb
    have hbty : b.ty = ty := congrArg (·.2.2) hb
    rw [hbchi, hbty] at hv
    have hlen : (ρ' ++ [v]).length = (Γ0 ++ [b]).length := by
      rw [henv.length_eq, Pos.chiTys_length]
    have hcnd : ¬ (b.var.id ≠ x.id ∨ (ρ' ++ [v]).length ≠ (Γ0 ++ [b]).length) := by
      simp [hbid, hlen]
    cases hv with
    | obj hd' hx hf =>
      rename_i d' tag xt fields
      have := Pos.lookupTypeDecl_unique hd hd'
      subst this
      obtain ⟨cl, hc1, hc2, hc3⟩ := Pos.nthClause_ok d.xtors cls tag xt hm hx
      have hfl : fields.length = cl.ctx.length := by
        rw [hf.length_eq, hc2, Pos.chiTys_length]
      simp only [Pos.step, List.getLast?_concat, if_neg hcnd, hc1, hfl, ne_eq, not_true_eq_false,
        if_false, List.dropLast_concat]
      intro hcap hcap2
      obtain ⟨Γ0', b', rfl, hk0, hkb⟩ := keys_snoc hk
      have hb'id : b'.var.id = x.id := by
        have := congrArg (·.1) hkb
        simp only [Binding.key] at this
        rw [this]; exact hbid
      have hb'chi : b'.chi = .prd := by
        have := congrArg (·.2.1) hkb
        simp only [Binding.key] at this
        rw [this]; exact hbchi
      have hkinds : fields.map Sim2.kindOf = Mock.kindsOf cl.ctx := by
        rw [kinds_of_fieldsTyped hf, hc2, chiTys_fst]
      have hfr : x.id ∉ Γ0.ids := by rw [← hbid]; exact fresh_of_nodup_snoc hn
      have hlen0 : ρ'.length = Γ0'.length := by simpa using hlenρ
      obtain ⟨k, cfg', σ', hs', kp', h1, hmm, hfr', h2, h3, h4, h5, k1, k1', items', hr', hat', LP⟩ :=
        switch_x3 H h8 HA hnd hfitX RX
        hfits hb'id (mem_ids_keys hk0 hfr) hc1 hkinds
        (by
          simp only [WithinCapacity, List.length_append] at hcap
          rw [keys_length hk0]; exact hcap) X3h hrunX hatX
        (by
          simp only [List.length_append] at hcap2
          rw [keys_length hk0]; exact hcap2)
      have hXB : ∀ r, cfg.temps.get (2 * Γ0'.length) = some r →
          XB (Program.ofOps code) c cs hooks prog.types cfg.heap κ fields r := by
        intro r hr
        have hi1 : Γ0'.length < (Γ0' ++ [b']).length := by simp
        have hi2 : Γ0'.length < (ρ' ++ [Value.obj tag fields]).length := by simp [hlen0]
        obtain ⟨w, hw⟩ := Option.isSome_iff_exists.mp (hdef _ hi1)
        have hC := C _ hi1 hi2 w hw
        have g1 : (Γ0' ++ [b'])[Γ0'.length] = b' := by simp
        have g2 : (ρ' ++ [Value.obj tag fields])[Γ0'.length] = .obj tag fields := by
          rw [List.getElem_append_right (by omega)]; simp [hlen0]
        rw [g1, g2, hb'chi, hr] at hC
        obtain ⟨r', hr', hB⟩ := hC.obj_inv
        simp only [show ((Chi.prd == Chi.ext) = true) = False from by decide, if_false,
          Option.some.injEq] at hr'
        rw [hr']; exact hB
      exact ⟨cfg', hs', σ', kp', _, by rw [h2]; exact hmm, Tol.refl _ _, (fun hj => False.elim hj), h2, by omega, FrLe.mono' hfr' (by omega),
        FrPk.of_frLe0 hfr', ⟨Γ0' ++ cl.ctx, ι, κ, keys_append hk0 rfl, h4, by rw [h2]; exact h5,
          XC.load C hlen0 rfl RX.heap h1 h4 hkinds LP hXB, k1, k1', items', hr', hat'⟩⟩
  | @invoke _ Γa b x tag ty args sig hn hsplit hb hs hs' =>
    subst hsplit
    obtain ⟨ρ', v, rfl, hρ', hv⟩ := Pos.env_last henv
    have hbid : b.var.id = x.id := congrArg (·.1) hb
    have hbchi : b.chi = .cns := congrArg (·.2.1) hb
    have hbty : b.ty = ty := congrArg (·.2.2) hb
    rw [hbchi, hbty] at hv
    have hlen : (ρ' ++ [v]).length = (Γa ++ [b]).length := by
      rw [henv.length_eq, Pos.chiTys_length]
    have hcnd : ¬ (b.var.id ≠ x.id ∨ (ρ' ++ [v]).length ≠ (Γa ++ [b]).length) := by
      simp [hbid, hlen]
    obtain ⟨d, xt, i, hd, hx, hxs, htp'⟩ := Pos.tagPosition_ok hs
    cases hv with
    | clo hd' hm hf hcl =>
      rename_i d' Γc env cls
      have := Pos.lookupTypeDecl_unique hd hd'
      subst this
      obtain ⟨cl, hc1, hc2, hc3⟩ := Pos.nthClause_ok d.xtors cls i xt hm hx
      have hal : (Γa ++ [b]).length - 1 = cl.ctx.length := by
        have : Γa.length = cl.ctx.length := by
          rw [← Pos.chiTys_length Γa, hs', ← hxs, hc2, Pos.chiTys_length]
        simp [this]
      simp only [Pos.step, List.getLast?_concat, if_neg hcnd, htp', hc1, hal, ne_eq, not_true_eq_false,
        if_false, List.dropLast_concat]
      intro hcap hcap2
      obtain ⟨Γa', b', rfl, hk0, hkb⟩ := keys_snoc hk
      have hb'id : b'.var.id = x.id := by
        have := congrArg (·.1) hkb
        simp only [Binding.key] at this
        rw [this]; exact hbid
      have hb'chi : b'.chi = .cns := by
        have := congrArg (·.2.1) hkb
        simp only [Binding.key] at this
        rw [this]; exact hbchi
      have hkinds : env.map Sim2.kindOf = Mock.kindsOf Γc := by
        rw [kinds_of_fieldsTyped hf, chiTys_fst]
      have hfr : x.id ∉ Γa.ids := by rw [← hbid]; exact fresh_of_nodup_snoc hn
      have hargs : Γa'.map (·.chi) = cl.ctx.map (·.chi) := by
        rw [keys_chi hk0]
        have h1 : Ctx.chiTys Γa = Ctx.chiTys cl.ctx := by rw [hs', ← hxs, hc2]
        have := congrArg (List.map (·.1)) h1
        simpa [Ctx.chiTys, Function.comp_def] using this
      have hlen0 : ρ'.length = Γa'.length := by simpa using hlenρ
      -- the closure at the last position: its methods on both sides
      have hi1 : Γa'.length < (Γa' ++ [b']).length := by simp
      have hi2 : Γa'.length < (ρ' ++ [Value.clo Γc env cls]).length := by simp [hlen0]
      obtain ⟨w, hw⟩ := Option.isSome_iff_exists.mp (hdef _ hi1)
      have hC := C _ hi1 hi2 w hw
      have g2 : (ρ' ++ [Value.clo Γc env cls])[Γa'.length] = .clo Γc env cls := by
        rw [List.getElem_append_right (by omega)]; simp [hlen0]
      rw [g2] at hC
      obtain ⟨r0, a, envCtx', hp0, ha0, hke, hXB0, hmeth, hxm⟩ := hC.clo_inv
      obtain ⟨_, hsome, _, _⟩ := RX.vals _ hi1 hi2
      obtain ⟨aw, haw⟩ := Option.isSome_iff_exists.mp hsome
      have hword : cfg.temps.get (2 * Γa'.length + 1) = some (BitVec.ofNat 64 a) := by
        rw [haw] at ha0 ⊢
        simp only [Option.getD_some] at ha0
        rw [ha0]
      have hposlt : i < d.xtors.length := by
        obtain ⟨dT, hdT, hxT⟩ := tagPosition_ok htp'
        have := Pos.lookupTypeDecl_unique hd hdT
        subst this
        have := xtorPosition_go_lt' d.xtors tag 0 i hxT
        omega
      have hdm : d ∈ prog.types := by
        cases ty with
        | i64 => simp [lookupTypeDecl] at hd
        | decl nm => exact List.mem_of_find?_eq_some hd
      have hpos12 : i < 1024 := by
        have := hprog d hdm
        omega
      have hcapW : 2 * (cl.ctx.length + Γc.length) + 2 < Mock.T_TEMP := by
        simpa [WithinCapacity] using hcap
      obtain ⟨k, cfg', σ', hs', kp', pcR, h1, hmm, T', hfr', h2, h3, h4, h5, k1, k1', items', hr', hat', LP, hmR⟩ :=
        invoke_x3Q H h8 HB hnd hfitX hcs RX hfits hb'id (mem_ids_keys hk0 hfr) htp' hc1
        (fun d0 hd0 => by
          have := Pos.lookupTypeDecl_unique hd hd0
          subst this
          exact Scc.Props.C06Generic.clausesMatch_length _ _ hm)
        hargs hkinds hcapW X3h hke hword hmeth hw hxm hrunX hatX
        (by simpa using hcap2) hpos12
      have hXB : ∀ r, cfg.temps.get (2 * Γa'.length) = some r →
          XB (Program.ofOps code) c cs hooks prog.types cfg.heap κ env r := by
        intro r hr
        have g1 : (Γa' ++ [b'])[Γa'.length] = b' := by simp
        rw [g1, hb'chi, hr] at hp0
        simp only [show ((Chi.cns == Chi.ext) = true) = False from by decide, if_false,
          Option.some.injEq] at hp0
        rw [hp0]; exact hXB0
      have hkinds' : env.map Sim2.kindOf = Mock.kindsOf envCtx' := by
        rw [show Mock.kindsOf envCtx' = Mock.kindsOf Γc from kinds_of_keys hke]; exact hkinds
      exact ⟨cfg', hs', σ', kp', pcR, by rw [h2]; exact hmm, T', (fun _ => by rw [h2]; exact hmR), h2, by omega, FrLe.mono' hfr' (by omega),
        FrPk.of_frLe0 hfr', ⟨cl.ctx ++ envCtx', ι, κ, keys_append rfl hke, h4, by rw [h2]; exact h5,
          XC.load C hlen0 hargs RX.heap h1 h4 hkinds' LP hXB, k1, k1', items', hr', hat'⟩⟩


end Run3P

end Scc.A64.Ref.K
