/-
  Scc.A64.ConcKDiv — THE DIVISION FAULTS of the AArch64 SPEC machine: when the AxCut operator of an `op` statement is
  undefined (`Pos.evalOp` is `.error .divByZero` for a divisor 0, `.error .overflow` for MIN / −1; `div` and `rem`),
  the code of code.rs `op` runs up to its `SDIV`, and the `SDIV` faults with `div-by-zero` resp. `div-overflow`
  (Scc/A64/Machine.lean `sdivW`).
  * `sdivW_of_evalOp_error`; `opR_fault`, `op_fault`: the block splits into a prefix that executes, the faulting
    `SDIV`, and a rest;
  * `stuck_op`: a step of the positional machine that is stuck on `divByZero` / `overflow` is an `op` whose operands
    are read and whose operator is undefined (the other ways of getting stuck report `shape`, `unbound`, `sort`,
    `lookup`).
-/
import Scc.A64.OpLemmas
import Scc.AxCut.PosSafe

set_option linter.unusedVariables false
set_option linter.unusedSimpArgs false

namespace Scc.A64
open Scc.AxCut

/-- the fault texts of the two undefined cases -/
def divFault : Pos.Why → String
  | .overflow => "div-overflow"
  | _ => "div-by-zero"

theorem divFault_cases (w : Pos.Why) : divFault w = "div-by-zero" ∨ divFault w = "div-overflow" := by
  cases w <;> simp [divFault]

/-- an undefined `div` / `rem` of AxCut is a fault of `SDIV` -/
theorem sdivW_of_evalOp_error {o : BinOp} {a b : Word} {w : Pos.Why} (h : Pos.evalOp o a b = .error w) :
    (o = .div ∨ o = .rem) ∧ sdivW a b = .error (divFault w) := by
  cases o <;> simp only [Pos.evalOp] at h
  case sum => cases h
  case sub => cases h
  case prod => cases h
  all_goals
    refine ⟨by simp, ?_⟩
    unfold sdivW
    split at h
    · rename_i h1
      cases h
      simp [h1, divFault]
    · split at h
      · rename_i h1 h2
        cases h
        have h2' : a = minInt ∧ b = BitVec.ofInt 64 (-1) := ⟨by rw [h2.1]; rfl, by rw [h2.2]; rfl⟩
        simp [h1, h2', divFault]
      · cases h

/-- A BLOCK THAT RUNS INTO A FAULT: a prefix executes, then a data instruction faults with `e` -/
def FaultsWith (c : MemCfg) (blk : List Code) (σ : State) (e : String) : Prop :=
  ∃ (pre : List Code) (code : Code) (post : List Code) (σ0 : State) (i : Instr),
    blk = pre ++ code :: post ∧ execCodes c pre σ = .ok σ0 ∧ code.toInstr = some i ∧ i.exec c σ0 = .error e ∧
    ∃ d n m, i = .sdiv d n m

theorem FaultsWith.prepend {c : MemCfg} {blk : List Code} {σ σ0 : State} {e : String} {a : List Code}
    (ha : execCodes c a σ = .ok σ0) (h : FaultsWith c blk σ0 e) (rest : List Code) :
    FaultsWith c (a ++ blk ++ rest) σ e := by
  obtain ⟨pre, code, post, σ1, i, hb, hx, hti, hex, hsd⟩ := h
  refine ⟨a ++ pre, code, post ++ rest, σ1, i, by rw [hb]; simp [List.append_assoc], ?_, hti, hex, hsd⟩
  rw [execCodes_append c _ _ _ _ ha]
  exact hx

/-- `opR` on an undefined operator runs into the fault of its `SDIV` -/
theorem opR_fault (c : MemCfg) (room : Nat) (σ : State) (hsp : SpOk c σ.sp room)
    (o : BinOp) (rt r1 r2 : Nat) (nt n1 n2 : Fin 31)
    (ht : xreg rt = some nt) (h1 : xreg r1 = some n1) (h2 : xreg r2 = some n2)
    (hr2 : r2 = consts.temp2 → r1 = consts.temp)
    (a b : Word) (ha : σ.reg n1 = some a) (hb : σ.reg n2 = some b) {w : Pos.Why}
    (hev : Pos.evalOp o a b = .error w) :
    FaultsWith c (opR o (.x rt) (.x r1) (.x r2)) σ (divFault w) := by
  obtain ⟨ho, hq⟩ := sdivW_of_evalOp_error hev
  have hT2 : xreg 3 = some xT2 := xreg_TEMP2
  have hT : xreg 2 = some xT := xreg_TEMP
  have hTT : xreg 10 = some xTT := xreg_TEMPORARY_TEMP
  rcases ho with rfl | rfl
  · -- div: the single SDIV
    refine ⟨[], .SDIV (.x rt) (.x r1) (.x r2), [], σ, .sdiv (.x nt) (.x n1) (.x n2), rfl, rfl,
      by simp [Code.toInstr, toReg_x, ht, h1, h2], ?_, ⟨_, _, _, rfl⟩⟩
    rw [exec_sdiv_x]
    simp [ha, hb, hq]
  · -- rem
    by_cases e2 : r2 = consts.temp2
    · have e1 := hr2 e2
      subst e2 e1
      have en2 : n2 = xT2 := by rw [hT2] at h2; cases h2; rfl
      have en1 : n1 = xT := by rw [hT] at h1; cases h1; rfl
      subst en2 en1
      by_cases et : rt = consts.temp
      · -- the scratch dance: comment, STR, MOVR, then SDIV
        subst et
        have hsp' : SpOkS c room σ := hsp
        have hp0 : SPILL_TEMP < SPILL_NUM := by decide
        have hx1 : xTT ≠ xT := by decide
        have hx2 : xTT ≠ xT2 := by decide
        have hx3 : xT ≠ xT2 := by decide
        have hsplit : opR .rem (.x consts.temp) (.x consts.temp) (.x consts.temp2) =
            [ .COMMENT "#evacuate one register as additional scratch register",
              .STR TEMPORARY_TEMP .sp (stackOffset SPILL_TEMP),
              .MOVR TEMPORARY_TEMP TEMP2 ] ++
            .SDIV TEMP2 TEMP TEMPORARY_TEMP ::
            [ .MSUB TEMP TEMP2 TEMPORARY_TEMP TEMP,
              .COMMENT "#restore evacuated register",
              .LDR TEMPORARY_TEMP .sp (stackOffset SPILL_TEMP) ] := by
          simp [opR, remR, TEMP2, TEMP]
        cases hx : σ.reg xTT with
        | none =>
          refine ⟨_, _, _, (σ.clrSlot (σ.slotAddr SPILL_TEMP)).setReg xTT (some b),
            .sdiv (.x xT2) (.x xT) (.x xTT), hsplit, ?_, by
              simp [Code.toInstr, toReg_x, TEMP2, TEMP, TEMPORARY_TEMP, hT2, hT, hTT], ?_, ⟨_, _, _, rfl⟩⟩
          · simp [TEMP2, TEMP, TEMPORARY_TEMP, execCodes, execCode_COMMENT,
              execCode_STR_sp hTT, execCode_MOVR hTT hT2, exec_str_slot c room, hsp', hp0,
              exec_mov_x, hb, hx]
          · rw [exec_sdiv_x]
            simp [ha, hb, hq, hx1, Ne.symm hx1]
        | some v =>
          refine ⟨_, _, _, (σ.setSlot (σ.slotAddr SPILL_TEMP) v).setReg xTT (some b),
            .sdiv (.x xT2) (.x xT) (.x xTT), hsplit, ?_, by
              simp [Code.toInstr, toReg_x, TEMP2, TEMP, TEMPORARY_TEMP, hT2, hT, hTT], ?_, ⟨_, _, _, rfl⟩⟩
          · simp [TEMP2, TEMP, TEMPORARY_TEMP, execCodes, execCode_COMMENT,
              execCode_STR_sp hTT, execCode_MOVR hTT hT2, exec_str_slot c room, hsp', hp0,
              exec_mov_x, hb, hx]
          · rw [exec_sdiv_x]
            simp [ha, hb, hq, hx1, Ne.symm hx1]
      · have et' : ¬ (rt = 2) := et
        refine ⟨[], .SDIV (.x rt) TEMP TEMP2, [.MSUB (.x rt) (.x rt) TEMP2 TEMP], σ,
          .sdiv (.x nt) (.x xT) (.x xT2), by simp [opR, remR, TEMP2, TEMP, et'], rfl,
          by simp [Code.toInstr, toReg_x, TEMP2, TEMP, ht, hT, hT2], ?_, ⟨_, _, _, rfl⟩⟩
        rw [exec_sdiv_x]
        simp [ha, hb, hq]
    · have e2' : ¬ (r2 = 3) := e2
      refine ⟨[], .SDIV TEMP2 (.x r1) (.x r2), [.MSUB (.x rt) TEMP2 (.x r2) (.x r1)], σ,
        .sdiv (.x xT2) (.x n1) (.x n2), by simp [opR, remR, TEMP2, e2'], rfl,
        by simp [Code.toInstr, toReg_x, TEMP2, hT2, h1, h2], ?_, ⟨_, _, _, rfl⟩⟩
      rw [exec_sdiv_x]
      simp [ha, hb, hq]

/-- code.rs `op` ON AN UNDEFINED OPERATOR RUNS INTO THE FAULT OF ITS `SDIV`, for every placement of the target and
the operands in registers or spill slots -/
theorem op_fault (c : MemCfg) (room : Nat) (σ : State) (hsp : SpOk c σ.sp room)
    (o : BinOp) (t s1 s2 : Temporary) (ht : t.isVar) (h1 : s1.isVar) (h2 : s2.isVar)
    (a b : Word) (hv1 : σ.tempVal s1 = some a) (hv2 : σ.tempVal s2 = some b) {w : Pos.Why}
    (hev : Pos.evalOp o a b = .error w) :
    FaultsWith c (op o t s1 s2) σ (divFault w) := by
  obtain ⟨σ0, n1, n2, he0, hx1, hx2, ha, hb, hsp0, hheap0, hregs0, hslots0, hc1, hc2⟩ :=
    operands_loaded c room σ hsp s1 s2 h1 h2 a b hv1 hv2
  have hsp0' : SpOk c σ0.sp room := by rw [hsp0]; exact hsp
  have hT : xreg 2 = some xT := xreg_TEMP
  rw [op_decompose o t s1 s2 h1 h2]
  cases t with
  | register tr =>
    cases tr with
    | x rt =>
      obtain ⟨hrta, hrtb⟩ := isVar_reg ht
      obtain ⟨nt, hnt, hntv⟩ := xreg_var hrta hrtb
      have hf := opR_fault c room σ0 hsp0' o rt _ _ nt n1 n2 hnt hx1 hx2 hc1 a b ha hb hev
      have := FaultsWith.prepend he0 hf []
      simpa using this
    | sp => simp [Temporary.isVar] at ht
    | xzr => simp [Temporary.isVar] at ht
  | spill pt =>
    have hf := opR_fault c room σ0 hsp0' o 2 _ _ xT n1 n2 hT hx1 hx2 hc1 a b ha hb hev
    exact FaultsWith.prepend he0 hf [.STR TEMP .sp (stackOffset pt)]

end Scc.A64

/-! ## the positional machine: stuck on an arithmetic fault means `op` -/

namespace Scc.AxCut.Pos

theorem readVar_error {Γ : Ctx} {ρ : List Value} {x : Ident} {e : Why} (h : readVar Γ ρ x = .error e) :
    e ≠ .divByZero ∧ e ≠ .overflow := by
  unfold readVar at h
  split at h
  · cases h; exact (by constructor <;> (intro h'; cases h'))
  · split at h
    · cases h; exact (by constructor <;> (intro h'; cases h'))
    · cases h

theorem readInt_error {Γ : Ctx} {ρ : List Value} {x : Ident} {e : Why} (h : readInt Γ ρ x = .error e) :
    e ≠ .divByZero ∧ e ≠ .overflow := by
  unfold readInt at h
  split at h
  · rename_i e' he
    cases h
    exact readVar_error he
  · cases h
  · cases h; exact (by constructor <;> (intro h'; cases h'))

theorem tagPosition_error {types : List TypeDecl} {ty : Ty} {tag : Ident} {e : Why}
    (h : tagPosition types ty tag = .error e) : e ≠ .divByZero ∧ e ≠ .overflow := by
  unfold tagPosition at h
  split at h
  · cases h; exact (by constructor <;> (intro h'; cases h'))
  · split at h
    · cases h; exact (by constructor <;> (intro h'; cases h'))
    · cases h

theorem build_error {Γ : Ctx} {ρ : List Value} : ∀ (pairs : List (Binding × Ident)) {e : Why},
    step.build Γ ρ pairs = .error e → e ≠ .divByZero ∧ e ≠ .overflow
  | [], e, h => by simp [step.build] at h
  | p :: ps, e, h => by
    simp only [step.build] at h
    split at h
    · rename_i e' he
      cases h
      exact readVar_error he
    · split at h
      · rename_i e' he
        cases h
        exact build_error ps he
      · cases h

/-- A STEP THAT IS STUCK ON AN ARITHMETIC FAULT IS AN `op` whose operands are read and whose operator is undefined -/
theorem stuck_op {P : Prog} {st : State} {w : Why} (h : step P st = .stuck w)
    (hw : w = .divByZero ∨ w = .overflow) :
    ∃ x a o b next fv va vb, st.stmt = .op x a o b next fv ∧ readInt st.ctx st.env a = .ok va ∧
      readInt st.ctx st.env b = .ok vb ∧ evalOp o va vb = .error w := by
  have hne : ∀ {e : Why}, (e ≠ .divByZero ∧ e ≠ .overflow) → e = w → False := by
    intro e he ew
    subst ew
    rcases hw with h1 | h1
    · exact he.1 h1
    · exact he.2 h1
  obtain ⟨Γ, ρ, s⟩ := st
  cases s with
  | lit x n next fv => simp [step] at h
  | op x a o b next fv =>
    simp only [step] at h
    cases ha : readInt Γ ρ a with
    | error e =>
      rw [ha] at h
      simp only [StepResult.stuck.injEq] at h
      exact (hne (readInt_error ha) h).elim
    | ok va =>
      rw [ha] at h
      simp only at h
      cases hb : readInt Γ ρ b with
      | error e =>
        rw [hb] at h
        simp only [StepResult.stuck.injEq] at h
        exact (hne (readInt_error hb) h).elim
      | ok vb =>
        rw [hb] at h
        simp only at h
        cases hv : evalOp o va vb with
        | error e =>
          rw [hv] at h
          simp only [StepResult.stuck.injEq] at h
          subst h
          exact ⟨x, a, o, b, next, fv, va, vb, rfl, ha, hb, hv⟩
        | ok v => rw [hv] at h; cases h
  | print nl a next fv =>
    simp only [step] at h
    cases ha : readInt Γ ρ a with
    | error e =>
      rw [ha] at h
      simp only [StepResult.stuck.injEq] at h
      exact (hne (readInt_error ha) h).elim
    | ok va => rw [ha] at h; cases h
  | ifc s a b t e =>
    simp only [step] at h
    cases ha : readInt Γ ρ a with
    | error e' =>
      rw [ha] at h
      simp only [StepResult.stuck.injEq] at h
      exact (hne (readInt_error ha) h).elim
    | ok va =>
      rw [ha] at h
      simp only at h
      cases b with
      | none => cases h
      | some b' =>
        simp only at h
        cases hb : readInt Γ ρ b' with
        | error e' =>
          rw [hb] at h
          simp only [StepResult.stuck.injEq] at h
          exact (hne (readInt_error hb) h).elim
        | ok vb => rw [hb] at h; cases h
  | exit a =>
    simp only [step] at h
    cases ha : readInt Γ ρ a with
    | error e =>
      rw [ha] at h
      simp only [StepResult.stuck.injEq] at h
      exact (hne (readInt_error ha) h).elim
    | ok va => rw [ha] at h; cases h
  | letS x ty tag args next fv =>
    simp only [step] at h
    split at h
    · simp only [StepResult.stuck.injEq] at h
      exact (hne (by constructor <;> (intro h'; cases h')) h).elim
    · cases ht : tagPosition P.types ty tag with
      | error e =>
        rw [ht] at h
        simp only [StepResult.stuck.injEq] at h
        exact (hne (tagPosition_error ht) h).elim
      | ok pos => rw [ht] at h; cases h
  | switch x ty clauses fv =>
    simp only [step] at h
    split at h
    · split at h
      · simp only [StepResult.stuck.injEq] at h
        exact (hne (by constructor <;> (intro h'; cases h')) h).elim
      · split at h
        · split at h
          · simp only [StepResult.stuck.injEq] at h
            exact (hne (by constructor <;> (intro h'; cases h')) h).elim
          · split at h
            · simp only [StepResult.stuck.injEq] at h
              exact (hne (by constructor <;> (intro h'; cases h')) h).elim
            · cases h
        · simp only [StepResult.stuck.injEq] at h
          exact (hne (by constructor <;> (intro h'; cases h')) h).elim
    · simp only [StepResult.stuck.injEq] at h
      exact (hne (by constructor <;> (intro h'; cases h')) h).elim
  | create x ty env clauses next f1 f2 =>
    simp only [step] at h
    split at h
    · simp only [StepResult.stuck.injEq] at h
      exact (hne (by constructor <;> (intro h'; cases h')) h).elim
    · split at h
      · simp only [StepResult.stuck.injEq] at h
        exact (hne (by constructor <;> (intro h'; cases h')) h).elim
      · cases h
  | invoke x tag ty args =>
    simp only [step] at h
    split at h
    · split at h
      · simp only [StepResult.stuck.injEq] at h
        exact (hne (by constructor <;> (intro h'; cases h')) h).elim
      · split at h
        · cases ht : tagPosition P.types ty tag with
          | error e =>
            rw [ht] at h
            simp only [StepResult.stuck.injEq] at h
            exact (hne (tagPosition_error ht) h).elim
          | ok pos =>
            rw [ht] at h
            simp only at h
            split at h
            · simp only [StepResult.stuck.injEq] at h
              exact (hne (by constructor <;> (intro h'; cases h')) h).elim
            · split at h
              · simp only [StepResult.stuck.injEq] at h
                exact (hne (by constructor <;> (intro h'; cases h')) h).elim
              · cases h
        · simp only [StepResult.stuck.injEq] at h
          exact (hne (by constructor <;> (intro h'; cases h')) h).elim
    · simp only [StepResult.stuck.injEq] at h
      exact (hne (by constructor <;> (intro h'; cases h')) h).elim
  | call l args =>
    simp only [step] at h
    split at h
    · simp only [StepResult.stuck.injEq] at h
      exact (hne (by constructor <;> (intro h'; cases h')) h).elim
    · split at h
      · simp only [StepResult.stuck.injEq] at h
        exact (hne (by constructor <;> (intro h'; cases h')) h).elim
      · cases h
  | subst pairs next =>
    simp only [step] at h
    cases hb : step.build Γ ρ pairs with
    | error e =>
      rw [hb] at h
      simp only [StepResult.stuck.injEq] at h
      exact (hne (build_error pairs hb) h).elim
    | ok vs => rw [hb] at h; cases h

end Scc.AxCut.Pos
