/-
  Scc.A64.LoaderCheck — the DECIDABLE text-safety predicate `codeTextOK` of the AArch64 loader round trip
  (Props/C14LoaderA64.lean), its soundness w.r.t. the proof-side `CodeOK` (LoaderCode.lean), and the
  facts needed to establish it without evaluation:

  * `labelOK`, `labelDefOK`, `commentTextOK`, `nmA` (the strings of an item), `codeTextOK = regsOK && nmA`;
  * `codeOK_of_codeTextOK`, `progOK_of_codeTextOK` (soundness);
  * `commentTextOK_plain`, `commentTextOK_hook` (completeness of the hook-witness finder `hookVarsL` on
    the hook texts `hookText vs` with blank-free names), `ctxHookComment_eq`.
  Proof file (the definitions are executable and kernel-reducible: `decide` evaluates them).
-/
import Scc.A64.LoaderText
import Scc.Backend.Generic

namespace Scc.A64

open Scc.A64.Loader Scc.Str

set_option linter.unusedSimpArgs false

/-! ## the decidable text-safety predicate -/

def labelOK (l : String) : Bool := !l.toList.isEmpty && l.toList.all labelC

def labelDefOK (l : String) : Bool :=
  labelOK l && l.toList.head? != some '.' && !(['/', '/'].isPrefixOf l.toList)

def kindOfL (k : List Char) : Option Kind :=
  if k = kindC .prd then some .prd else if k = kindC .cns then some .cns
  else if k = kindC .ext then some .ext else none

/-- witness finder for the hook form (only used to FIND the context; the check below compares the
    comment with the printed form of what was found) -/
def hookVarL (w : List Char) : Option (String × Kind) :=
  match (splitList ':' w).reverse with
  | k :: rest@(_ :: _) => (kindOfL k).map fun kd => (String.ofList ([':'].intercalate rest.reverse), kd)
  | _ => none

def hookVarsL (m : List Char) : Option (List (String × Kind)) :=
  ((splitList ' ' ((m.drop 6).dropLast)).filter (fun w => !w.isEmpty)).mapM hookVarL

def commentTextOK (m : String) : Bool :=
  m.toList.all (· != '\n') &&
  (!("#ctx [".toList.isPrefixOf m.toList) ||
    match hookVarsL m.toList with
    | some vs => m == hookText vs && vs.all (fun v => !v.1.toList.contains ' ')
    | none => false)

/-- the strings of one item are text-safe -/
def nmA : Code → Bool
  | .B l | .BL l | .ADR _ l | .BEQ l | .BNE l | .BLT l | .BLE l | .BGT l | .BGE l | .GLOBAL l => labelOK l
  | .LAB l => labelDefOK l
  | .COMMENT m => commentTextOK m
  | _ => true

/-- text-safety of one item: registers exist, labels and comments are text-safe -/
def codeTextOK (c : Code) : Bool := regsOK c && nmA c

/-! ## soundness -/

theorem labelOK_sound {l : String} (h : labelOK l = true) : LabelOK l.toList := by
  simp only [labelOK, Bool.and_eq_true, Bool.not_eq_true', List.all_eq_true] at h
  exact ⟨fun e => by rw [e] at h; simp at h, h.2⟩

theorem labelDefOK_sound {l : String} (h : labelDefOK l = true) : LabelDefOK l.toList := by
  simp only [labelDefOK, Bool.and_eq_true, Bool.not_eq_true', bne_iff_ne, ne_eq] at h
  refine ⟨labelOK_sound h.1.1, h.1.2, ?_⟩
  intro hp
  have := List.isPrefixOf_iff_prefix.2 hp
  rw [this] at h; exact absurd h.2 (by simp)

theorem commentTextOK_sound {m : String} (h : commentTextOK m = true) :
    '\n' ∉ m.toList ∧ (commentPLine? m).isSome = true := by
  simp only [commentTextOK, Bool.and_eq_true, List.all_eq_true, bne_iff_ne, ne_eq, Bool.or_eq_true,
    Bool.not_eq_true'] at h
  refine ⟨fun hm => h.1 _ hm rfl, ?_⟩
  rcases h.2 with hp | hh
  · rw [commentPLine?_plain]; rfl
    intro hpre
    have := List.isPrefixOf_iff_prefix.2 hpre
    rw [this] at hp; cases hp
  · split at hh
    · rename_i vs _
      simp only [Bool.and_eq_true, beq_iff_eq, List.all_eq_true, Bool.not_eq_true'] at hh
      rw [hh.1, commentPLine?_hook vs (fun v hv hm => by
        have := hh.2 v hv
        simp at this
        exact this hm)]
      rfl
    · cases hh

theorem nmA_sound {c : Code} (h : nmA c = true) : CodeOK c := by
  refine ⟨?_, ?_, ?_⟩
  · intro l hl
    cases c <;> simp only [codeLabelRefs, List.mem_singleton, List.not_mem_nil] at hl <;>
      first | (subst hl; exact labelOK_sound h) | exact hl.elim
  · intro l hl; subst hl; exact labelDefOK_sound h
  · intro m hm; subst hm; exact commentTextOK_sound h

theorem codeOK_of_codeTextOK {c : Code} (h : codeTextOK c = true) : regsOK c = true ∧ CodeOK c := by
  simp only [codeTextOK, Bool.and_eq_true] at h
  exact ⟨h.1, nmA_sound h.2⟩

theorem progOK_of_codeTextOK {cs : List Code} (h : ∀ c ∈ cs, codeTextOK c = true) : ProgOK cs :=
  fun c hc => codeOK_of_codeTextOK (h c hc)

/-! ## the hook comment of the backend -/

/-- the (name, kind) list of a context, as the hook reports it -/
def chiKind : Scc.AxCut.Chi → Kind
  | .prd => .prd | .cns => .cns | .ext => .ext

def ctxVars (ctx : Scc.AxCut.Ctx) : List (String × Kind) := ctx.map fun b => (b.var.print, chiKind b.chi)

theorem ctxHookComment_eq (ctx : Scc.AxCut.Ctx) : Scc.Backend.ctxHookComment ctx = hookText (ctxVars ctx) := by
  unfold Scc.Backend.ctxHookComment hookText ctxVars
  rw [List.map_map]
  congr 3
  apply List.map_congr_left
  intro b _
  cases hb : b.chi <;> simp [Function.comp, chiKind, hb, Scc.Backend.chiStr, kindStr, kindC] <;> rfl

/-! ## completeness of the comment check on the comments the backend emits -/

theorem commentTextOK_plain {m : String} (h1 : '\n' ∉ m.toList) (h2 : ¬ "#ctx [".toList <+: m.toList) :
    commentTextOK m = true := by
  simp only [commentTextOK, Bool.and_eq_true, List.all_eq_true, bne_iff_ne, ne_eq, Bool.or_eq_true,
    Bool.not_eq_true']
  refine ⟨fun c hc e => h1 (e ▸ hc), Or.inl ?_⟩
  cases hp : "#ctx [".toList.isPrefixOf m.toList with
  | false => rfl
  | true => exact absurd (List.isPrefixOf_iff_prefix.1 hp) h2

theorem kindOfL_kindC (k : Kind) : kindOfL (kindC k) = some k := by cases k <;> decide

theorem hookVarL_word (x : List Char) (k : Kind) :
    hookVarL (x ++ ':' :: kindC k) = some (String.ofList x, k) := by
  unfold hookVarL
  rw [splitList_append_sep', splitList_of_not_mem _ _ (kindC_no_colon k)]
  have hrev : (splitList ':' x ++ [kindC k]).reverse = kindC k :: (splitList ':' x).reverse := by simp
  rw [hrev]
  cases hq : (splitList ':' x).reverse with
  | nil => exact absurd (List.reverse_eq_nil_iff.1 hq) (splitList_ne_nil _ _)
  | cons q qs =>
    have hback : (q :: qs).reverse = splitList ':' x := by rw [← hq, List.reverse_reverse]
    simp only [kindOfL_kindC, Option.map_some]
    rw [hback, intercalate_splitList]

theorem hookText_inner (vs : List (String × Kind)) :
    ((hookText vs).toList.drop 6).dropLast = [' '].intercalate (vs.map hookWordC) := by
  rw [hookText_toList]
  have : ("#ctx [".toList ++ ([' '].intercalate (vs.map hookWordC) ++ [']'])).drop 6
      = [' '].intercalate (vs.map hookWordC) ++ [']'] := rfl
  rw [this, List.dropLast_concat]

theorem mapM_hookVarL (vs : List (String × Kind)) : (vs.map hookWordC).mapM hookVarL = some vs := by
  induction vs with
  | nil => rfl
  | cons v vs ih =>
    rw [List.map_cons, List.mapM_cons, hookWordC, hookVarL_word, ih, String.ofList_toList]
    rfl

theorem hookVarsL_hookText (vs : List (String × Kind)) (h : ∀ v ∈ vs, ' ' ∉ v.1.toList) :
    hookVarsL (hookText vs).toList = some vs := by
  unfold hookVarsL
  rw [hookText_inner]
  cases vs with
  | nil => rfl
  | cons v vs =>
    rw [List.map_cons, splitList_intercalate ' ' (hookWordC v) (vs.map hookWordC)]
    · rw [← List.map_cons]
      have hf : List.filter (fun w => !w.isEmpty) (List.map hookWordC (v :: vs)) = List.map hookWordC (v :: vs) := by
        apply List.filter_eq_self.2
        intro w hw
        obtain ⟨u, _, rfl⟩ := List.mem_map.1 hw
        simp [hookWordC]
      rw [hf, mapM_hookVarL]
    · intro x hx
      rw [← List.map_cons] at hx
      obtain ⟨w, hw, rfl⟩ := List.mem_map.1 hx
      intro hm
      simp only [hookWordC, List.mem_append, List.mem_cons] at hm
      rcases hm with hm | hm | hm
      · exact h w hw hm
      · exact absurd hm (by decide)
      · have hk : ∀ k, ' ' ∉ kindC k := by intro k; cases k <;> decide
        exact hk _ hm

/-- a hook text with blank-free, line-break-free names passes the comment check -/
theorem commentTextOK_hook (vs : List (String × Kind)) (h : ∀ v ∈ vs, ' ' ∉ v.1.toList)
    (hnl : '\n' ∉ (hookText vs).toList) : commentTextOK (hookText vs) = true := by
  simp only [commentTextOK, Bool.and_eq_true, List.all_eq_true, bne_iff_ne, ne_eq, Bool.or_eq_true,
    Bool.not_eq_true']
  refine ⟨fun c hc e => hnl (e ▸ hc), Or.inr ?_⟩
  rw [hookVarsL_hookText vs h]
  simp only [beq_self_eq_true, Bool.true_and, List.all_eq_true, Bool.not_eq_true']
  intro v hv
  have := h v hv
  simpa using this

end Scc.A64
