/-
  Scc.A64.RefClosHMoves — PARALLEL MOVES of ALL temporaries of positions (pointer parts and word parts),
  the move block of `subst` on contexts with object variables.  The integer fragment (RefDefs/RefSim/
  RefParam) tracks word parts only (`PosW`: odd temporaries); here the same development is repeated for
  the moves with the domain `PosT t := t < 281` (the capacity of utils.rs temporary_from_position) and a
  relation `MRel` that looks at nothing but the temporaries and the scratch cell — moves are agnostic of
  what the words mean — and records what the block leaves alone (`MKeep`: heap, HEAP, FREE; `Core`: SP
  and the callee-save area).
  * `MOpRel`/`MSeg`: the AArch64 code renders a list of `comment`/`mov`/`save`/`restore`.
  * `mrep_mov`, `mrep_save`, `mrep_restore`: one instruction.
  * `mseg_follow`: a rendered block is executed by both machines in lockstep.
  * `mseg_parallelMoves`, `connections_go_relT`, `mseg_codeExchange`: the AArch64 code of `code_exchange`
    renders the mock code (parametricity of parallel_moves.rs in the backend, all bindings).
  NOTE (fork): this file is the closure-aware version of Scc/A64/RefHeapMoves.lean (same proofs, the
  three-way relation additionally carries the per-instance code-pointer map `κ`), in the namespace
  `Scc.A64.Ref.K`.
-/
import Scc.A64.RefHeapBridge
import Scc.A64.RefParam
import Scc.A64.RefClosHX3

set_option linter.unusedVariables false
set_option linter.unusedSimpArgs false

namespace Scc.A64.Ref.K

open Scc.AxCut Scc.Backend Scc.Backend.Abs Scc.Backend.Sim Scc.A64 Scc.A64.CC Scc.Backend.PM
open Scc.X86 (TreeOK TreesOK RootOK PmOK ConnsOK)
open Scc.X86.Ref (TempMap mapT mapTs mapR mapPM)

/-- a temporary of a position within the capacity of utils.rs temporary_from_position -/
def PosT (t : Nat) : Prop := t < 281

theorem posT_ne_temp {t : Nat} (h : PosT t) : t ≠ Mock.T_TEMP := by
  unfold PosT at h; unfold Mock.T_TEMP; omega

/-- `blk` renders the move instruction `op` -/
def MOpRel (g : Mode) (op : MockOp) (blk : List Code) (g' : Mode) : Prop :=
  match op with
  | .comment m => blk = [.COMMENT m] ∧ g' = g
  | .mov t s => PosT t ∧ PosT s ∧ blk = mov (posTemp t) (posTemp s) ∧ g' = g
  | .save t _ => ∃ b, blk = storeTemporary (posTemp t) b ∧ PosT t ∧ (g = .normal ∨ g = .pm) ∧ g' = .pm
  | .restore t _ => ∃ b, blk = restoreTemporary (posTemp t) b ∧ PosT t ∧ g = .pm ∧ g' = .normal
  | _ => False

inductive MSeg : Mode → List MockOp → List Code → Mode → Prop where
  | nil (g : Mode) : MSeg g [] [] g
  | cons {g g1 g' : Mode} {op : MockOp} {blk : List Code} {ops : List MockOp} {cs : List Code} :
      MOpRel g op blk g1 → MSeg g1 ops cs g' → MSeg g (op :: ops) (blk ++ cs) g'

theorem MSeg.append {g g1 g' : Mode} {o1 o2 : List MockOp} {c1 c2 : List Code}
    (h1 : MSeg g o1 c1 g1) (h2 : MSeg g1 o2 c2 g') : MSeg g (o1 ++ o2) (c1 ++ c2) g' := by
  induction h1 with
  | nil g => simpa using h2
  | cons hop _ ih =>
    rw [List.cons_append, List.append_assoc]
    exact MSeg.cons hop (ih h2)

theorem MSeg.single {g g' : Mode} {op : MockOp} {blk : List Code} (h : MOpRel g op blk g') :
    MSeg g [op] blk g' := by
  have := MSeg.cons h (MSeg.nil g')
  simpa using this

/-- what a block of moves leaves alone -/
structure MKeep (σ0 σ : State) : Prop where
  heap : σ.heap = σ0.heap
  x0 : σ.reg 0 = σ0.reg 0
  x1 : σ.reg 1 = σ0.reg 1

theorem MKeep.refl (σ : State) : MKeep σ σ := ⟨rfl, rfl, rfl⟩

theorem MKeep.step {σ0 σ σ' : State} (K : MKeep σ0 σ) {t : Temporary} (ht : t.isVar) (F : Frame σ σ' t) :
    MKeep σ0 σ' :=
  ⟨by rw [F.heap]; exact K.heap, by rw [F.low ht 0 (by decide)]; exact K.x0,
   by rw [F.low ht 1 (by decide)]; exact K.x1⟩

/-- the relation of the move block: a (shadow) configuration of the abstract machine and the machine agree
on every temporary of a position and on the scratch cell -/
structure MRel (c : MemCfg) (g : Mode) (σ0 : State) (cfg : Config) (σ : State) : Prop where
  core : Core c σ
  temps : ∀ t v, PosT t → cfg.temps.get t = some v → σ.tempVal (posTemp t) = some v
  scratch : g = .pm → ∀ w, cfg.scratch = some w → σ.reg xT = some w
  keep : MKeep σ0 σ

section Ops

variable {c : MemCfg} (H : CfgCC c) {σ0 : State} {cfg : Config} {σ : State}
include H

theorem MRel.spOk {g : Mode} (R : MRel c g σ0 cfg σ) : SpOk c σ.sp 144 := spOkS_of_core H R.core

/-- `mov t s` of parallel moves, in every mode -/
theorem mrep_mov {g : Mode} (R : MRel c g σ0 cfg σ) {t s : Nat} (ht : PosT t) (hs : PosT s) (pc' : Nat) :
    ∃ σ', execCodes c (mov (posTemp t) (posTemp s)) σ = .ok σ' ∧
      MRel c g σ0 { cfg with pc := pc', temps := (clobberTemp cfg.temps).put t (cfg.temps.get s) } σ' := by
  have hvt := isVar_posTemp ht
  have hvs := isVar_posTemp hs
  obtain ⟨σ', e, hv, F⟩ := mov_correct c 144 σ (R.spOk H) (posTemp t) (posTemp s) hvt hvs
  refine ⟨σ', e, core_execCodes H _ R.core (allInt_mov (ok_of_isVar hvt) (ok_of_isVar hvs)) e, ?_, ?_,
    R.keep.step hvt F⟩
  · intro t' v' ht' hg
    by_cases e' : t' = t
    · subst e'
      simp only at hg
      rw [get_put_same] at hg
      rw [hv]; exact R.temps s v' hs hg
    · simp only at hg
      rw [get_put_other _ _ e', get_clobberTemp _ (posT_ne_temp ht')] at hg
      rw [F.temp (isVar_posTemp ht') (fun e'' => e' (posTemp_inj.1 e''))]
      exact R.temps t' v' ht' hg
  · intro hb w hw
    rw [execCodes_regs _ e xT (mov_not_writes_xT hvt hvs)]
    exact R.scratch hb w hw

omit H in
theorem setReg_xT_posTemp (σ : State) (v : Option Word) {t : Nat} (ht : PosT t) :
    (σ.setReg xT v).tempVal (posTemp t) = σ.tempVal (posTemp t) := by
  have hv := isVar_posTemp ht
  cases hp : posTemp t with
  | register reg =>
    rw [hp] at hv
    cases reg with
    | x r' =>
      obtain ⟨n, hn, h4, _⟩ := tempVal_var_reg (σ := σ) hv
      rw [tempVal_reg hn, tempVal_reg hn, setReg_reg, if_neg]
      intro e0; rw [← e0] at h4; exact absurd h4 (by decide)
    | sp => simp [Temporary.isVar] at hv
    | xzr => simp [Temporary.isVar] at hv
  | spill q => rfl

/-- `save t`: TEMP := t -/
theorem mrep_save {g : Mode} (R : MRel c g σ0 cfg σ) {t : Nat} (ht : PosT t) (b : Bool) (pc' : Nat) :
    ∃ σ', execCodes c (storeTemporary (posTemp t) b) σ = .ok σ' ∧
      MRel c .pm σ0
        { cfg with pc := pc', temps := clobberTemp cfg.temps, scratch := cfg.temps.get t } σ' := by
  have hvt := isVar_posTemp ht
  have e := moveToRegister_exec (R.spOk H) xreg_TEMP (ok_of_isVar hvt)
  have e' : execCodes c (storeTemporary (posTemp t) b) σ = .ok (σ.setReg xT (σ.tempVal (posTemp t))) := by
    rw [storeTemporary_eq]; exact e
  refine ⟨_, e', core_execCodes H _ R.core (allInt_storeTemporary (ok_of_isVar hvt) b) e', ?_, ?_, ?_⟩
  · intro t' v' ht' hg'
    simp only at hg'
    rw [get_clobberTemp _ (posT_ne_temp ht')] at hg'
    rw [setReg_xT_posTemp _ _ ht']
    exact R.temps t' v' ht' hg'
  · intro _ w hw
    simp only at hw
    rw [setReg_reg, if_pos rfl]
    exact R.temps t w ht hw
  · exact ⟨R.keep.heap, by rw [setReg_reg, if_neg (by decide)]; exact R.keep.x0,
      by rw [setReg_reg, if_neg (by decide)]; exact R.keep.x1⟩

/-- `restore t`: t := TEMP -/
theorem mrep_restore (R : MRel c .pm σ0 cfg σ) {t : Nat} (ht : PosT t) (b : Bool) (pc' : Nat) :
    ∃ σ', execCodes c (restoreTemporary (posTemp t) b) σ = .ok σ' ∧
      MRel c .normal σ0 { cfg with pc := pc', temps := (clobberTemp cfg.temps).put t cfg.scratch } σ' := by
  have hvt := isVar_posTemp ht
  have hokt := ok_of_isVar hvt
  obtain ⟨σ', e, hv, F⟩ := moveFromRegister_exec (R.spOk H) xreg_TEMP hokt
  have e' : execCodes c (restoreTemporary (posTemp t) b) σ = .ok σ' := by rw [restoreTemporary_eq]; exact e
  have hall : AllInt (restoreTemporary (posTemp t) b) := by
    rw [restoreTemporary_eq]; exact allInt_moveFromRegister hokt
  have hlow : ∀ m : Fin 31, m.val < 4 → σ'.reg m = σ.reg m := by
    intro m hm
    apply F.regs
    intro e0
    have := posTemp_archReg_ge ht e0
    omega
  refine ⟨σ', e', core_execCodes H _ R.core hall e', ?_, (fun hb => by cases hb), ?_⟩
  · intro t' v' ht' hg
    by_cases e'' : t' = t
    · subst e''
      simp only at hg
      rw [get_put_same] at hg
      rw [hv]; exact R.scratch rfl v' hg
    · simp only at hg
      rw [get_put_other _ _ e'', get_clobberTemp _ (posT_ne_temp ht')] at hg
      rw [F.temp (R.spOk H) (ok_of_isVar (isVar_posTemp ht')) hokt (fun e3 => e'' (posTemp_inj.1 e3))]
      exact R.temps t' v' ht' hg
  · exact ⟨by rw [F.heap]; exact R.keep.heap, by rw [hlow 0 (by decide)]; exact R.keep.x0,
      by rw [hlow 1 (by decide)]; exact R.keep.x1⟩

end Ops

/-! ## a rendered block of moves on both machines -/

section Follow

variable {c : MemCfg} (H : CfgCC c) {hk : Code → Bool} {Pm : Prog} {cs : List Code}
  (Hp : Holds hk Pm cs) {P : Program} {σ0 : State}

include H Hp in
/-- the abstract machine (on ANY configuration: moves copy possibly undefined temporaries) and the
AArch64 machine execute a rendered block of moves in lockstep -/
theorem mseg_follow {g g' : Mode} {ops : List MockOp} {items : List Code} (S : MSeg g ops items g')
    (out : List (Bool × Word)) :
    ∀ (cfg : Config) (σ : State) (k : Nat), CodeAt P cfg.pc ops → XAt cs k items → MRel c g σ0 cfg σ →
    ∃ cfg' σ', stepsTo P (instrCount ops) cfg cfg' ∧
      MSteps Pm c σ (pcOf hk cs k) out σ' (pcOf hk cs (k + items.length)) out ∧
      MRel c g' σ0 cfg' σ' ∧ cfg'.pc = cfg.pc + instrCount ops := by
  induction S with
  | nil g =>
    intro cfg σ k _ _ R
    exact ⟨cfg, σ, rfl, by simpa using MSteps.refl σ _ out, R, by simp [instrCount]⟩
  | @cons g g1 g' op blk ops cs' hop S ih =>
    intro cfg σ k hat hatX R
    -- one instruction
    have one : ∃ cfg1 σ1, stepsTo P (instrCount [op]) cfg cfg1 ∧
        MSteps Pm c σ (pcOf hk cs k) out σ1 (pcOf hk cs (k + blk.length)) out ∧
        MRel c g1 σ0 cfg1 σ1 ∧ cfg1.pc = cfg.pc + instrCount [op] ∧ CodeAt P cfg1.pc ops := by
      cases op <;> simp only [MOpRel] at hop
      case comment m =>
        obtain ⟨rfl, rfl⟩ := hop
        simp only [CodeAt] at hat
        have h0 := x_msteps_codes (c := c) Hp (blk := [Code.COMMENT m]) hatX.left (σ := σ) rfl out
        exact ⟨cfg, σ, rfl, h0, R, by simp [instrCount], hat⟩
      case mov t s =>
        obtain ⟨ht, hs, rfl, rfl⟩ := hop
        simp only [CodeAt] at hat
        obtain ⟨hc, hat'⟩ := hat
        obtain ⟨σ1, hx, R1⟩ := mrep_mov H R ht hs (cfg.pc + 1)
        exact ⟨_, σ1, stepsTo_one P _ _ (step_mov' P cfg t s hc (posT_ne_temp ht)),
          x_msteps_codes Hp hatX.left hx out, R1, rfl, hat'⟩
      case save t sp =>
        obtain ⟨b, rfl, ht, hg, rfl⟩ := hop
        simp only [CodeAt] at hat
        obtain ⟨hc, hat'⟩ := hat
        obtain ⟨σ1, hx, R1⟩ := mrep_save H R ht b (cfg.pc + 1)
        exact ⟨_, σ1, stepsTo_one P _ _ (step_save' P cfg t sp hc), x_msteps_codes Hp hatX.left hx out, R1,
          rfl, hat'⟩
      case restore t sp =>
        obtain ⟨b, rfl, ht, rfl, rfl⟩ := hop
        simp only [CodeAt] at hat
        obtain ⟨hc, hat'⟩ := hat
        obtain ⟨σ1, hx, R1⟩ := mrep_restore H R ht b (cfg.pc + 1)
        exact ⟨_, σ1, stepsTo_one P _ _ (step_restore' P cfg t sp hc (posT_ne_temp ht)),
          x_msteps_codes Hp hatX.left hx out, R1, rfl, hat'⟩
    obtain ⟨cfg1, σ1, hs1, hn1, R1, hpcA, hat1⟩ := one
    obtain ⟨cfg2, σ2, hs2, hn2, R2, hpcB⟩ := ih cfg1 σ1 (k + blk.length) hat1 hatX.right R1
    have hic : instrCount (op :: ops) = instrCount [op] + instrCount ops := by
      rw [show op :: ops = [op] ++ ops from rfl, icount_append]
    refine ⟨cfg2, σ2, ?_, ?_, R2, ?_⟩
    · rw [hic]
      exact stepsTo_trans P _ _ _ _ _ hs1 hs2
    · rw [List.length_append, ← Nat.add_assoc]
      exact hn1.trans hn2
    · rw [hpcB, hpcA, hic]; omega

end Follow

/-! ## the AArch64 moves render the mock moves (parametricity, all temporaries) -/

mutual
  theorem mseg_treeMoves (b : Bool) (parent : Nat) (hp : PosT parent) : ∀ (tr : Tree Nat) (g : Mode),
      (g = .normal ∨ g = .pm) → TreeOK PosT tr →
      MSeg g (treeMoves mockSym parent false tr) (treeMoves a64Backend (posTemp parent) b (mapT posTemp tr))
        (afterTree (Tree.refersBack tr) g)
    | .backEdge, g, hg, _ => by
      simp only [treeMoves, mapT, Tree.refersBack, afterTree, if_true]
      exact MSeg.single (show MOpRel g (.save parent false) (storeTemporary (posTemp parent) b) .pm from
        ⟨b, rfl, hp, hg, rfl⟩)
    | .node target kids, g, hg, hw => by
      simp only [treeMoves, mapT, Tree.refersBack]
      have hk := mseg_treeMovesList b target hw.1 kids g hg hw.2
      refine MSeg.append hk (MSeg.single ?_)
      show MOpRel _ (.mov target parent) (mov (posTemp target) (posTemp parent)) _
      exact ⟨hw.1, hp, rfl, rfl⟩
  theorem mseg_treeMovesList (b : Bool) (parent : Nat) (hp : PosT parent) :
      ∀ (l : List (Tree Nat)) (g : Mode),
      (g = .normal ∨ g = .pm) → TreesOK PosT l →
      MSeg g (treeMovesList mockSym parent false l)
        (treeMovesList a64Backend (posTemp parent) b (mapTs posTemp l))
        (afterTree (Tree.anyRefersBack l) g)
    | [], g, _, _ => by
      simp only [treeMovesList, mapTs, Tree.anyRefersBack, afterTree]
      exact MSeg.nil g
    | k :: ks, g, hg, hw => by
      simp only [treeMovesList, mapTs, Tree.anyRefersBack]
      have h1 := mseg_treeMoves b parent hp k g hg hw.1
      have hg1 : afterTree (Tree.refersBack k) g = .normal ∨ afterTree (Tree.refersBack k) g = .pm := by
        unfold afterTree; split
        · exact Or.inr rfl
        · exact hg
      have h2 := mseg_treeMovesList b parent hp ks _ hg1 hw.2
      have := MSeg.append h1 h2
      have e : afterTree (Tree.anyRefersBack ks) (afterTree (Tree.refersBack k) g) =
          afterTree (Tree.refersBack k || Tree.anyRefersBack ks) g := by
        unfold afterTree
        cases Tree.refersBack k <;> cases Tree.anyRefersBack ks <;> simp
      rw [e] at this
      exact this
end

theorem mseg_rootMoves (r : Root Nat) (hw : RootOK PosT r) :
    MSeg .normal (rootMoves mockSym r) (rootMoves a64Backend (mapR posTemp r)) .normal := by
  cases r with
  | startNode t kids =>
    simp only [rootMoves, mapR, mockSym_containsSpillEdge, Scc.X86.Ref.anyRefersBack_map]
    generalize a64Backend.containsSpillEdge (Root.startNode (posTemp t) (mapTs posTemp kids)) = b
    have hk := mseg_treeMovesList b t hw.1 kids .normal (Or.inl rfl) hw.2
    refine MSeg.append hk ?_
    by_cases hr : Tree.anyRefersBack kids = true
    · simp only [hr, if_true, afterTree]
      exact MSeg.single (show MOpRel .pm (.restore t false) (restoreTemporary (posTemp t) b) .normal from
        ⟨b, rfl, hw.1, rfl, rfl⟩)
    · simp only [hr, afterTree, if_false, Bool.false_eq_true]
      exact MSeg.nil _

theorem mseg_flatten_rootMoves : ∀ (forest : List (Root Nat)), (∀ r ∈ forest, RootOK PosT r) →
    MSeg .normal (forest.map (rootMoves mockSym)).flatten
      ((forest.map (mapR posTemp)).map (rootMoves a64Backend)).flatten .normal
  | [], _ => MSeg.nil _
  | r :: rs, h => by
    simp only [List.map_cons, List.flatten_cons]
    exact MSeg.append (mseg_rootMoves r (h r (by simp)))
      (mseg_flatten_rootMoves rs (fun x hx => h x (by simp [hx])))

/-! ## `parallel_moves` -/

theorem mseg_parallelMoves (pm : List (Nat × List Nat)) (hk : ∀ e ∈ pm, PosT e.1) (hpm : PmOK PosT pm)
    {code : List Code} (h : parallelMoves a64Backend (mapPM posTemp pm) = .ok code) :
    ∃ ops, parallelMoves mockSym pm = .ok ops ∧ MSeg .normal ops code .normal := by
  unfold parallelMoves at h ⊢
  rw [Scc.X86.Ref.spanningForest_map tempMap_posTemp] at h
  cases hf : spanningForest mockSym pm with
  | error e => rw [hf] at h; simp [Except.map] at h
  | ok forest =>
    rw [hf] at h
    simp only [Except.map, Except.ok.injEq] at h
    have hroots : ∀ r ∈ forest, RootOK PosT r := by
      unfold spanningForest at hf
      exact Scc.X86.spanningForestLoop_ok (B := mockSym) _ _ _ forest
        (fun k hk' => by
          obtain ⟨e, he, rfl⟩ := List.mem_map.1 hk'
          exact hk e he) hpm hf
    refine ⟨_, rfl, ?_⟩
    rw [← h]
    have hall : (forest.map (mapR posTemp)).all Root.noTargets = forest.all Root.noTargets := by
      rw [List.all_map]
      congr 1
      funext r
      exact Scc.X86.Ref.noTargets_map r
    rw [hall]
    refine MSeg.append ?_ (mseg_flatten_rootMoves forest hroots)
    split
    · exact MSeg.single (show MOpRel .normal (.comment "#move variables") [.COMMENT "#move variables"] .normal
        from ⟨rfl, rfl⟩)
    · exact MSeg.nil _

/-! ## `connections` / `code_exchange` for all bindings -/

theorem mapMGen_vt_relT (num : TempNum) (ctx : Ctx) : ∀ (ids : List Nat) (c : Nat) (ts : List Temporary) (c' : Nat),
    (mapMGen (fun id => a64Backend.variableTemporary num ctx id) ids).run c = .ok (ts, c') →
    ∃ tsM, (mapMGen (fun id => mockSym.variableTemporary num ctx id) ids).run c = .ok (tsM, c) ∧
      ts = tsM.map posTemp ∧ c' = c ∧ ∀ t ∈ tsM, PosT t
  | [], c, ts, c', h => by
    simp only [mapMGen, run_pure_ok] at h
    obtain ⟨rfl, rfl⟩ := h
    exact ⟨[], rfl, rfl, rfl, by simp⟩
  | id :: rest, c, ts, c', h => by
    simp only [mapMGen, run_bind_ok, run_pure_ok] at h
    obtain ⟨t, c1, h1, bs, c2, h2, rfl, rfl⟩ := h
    obtain ⟨pos, hp, hlt, rfl, rfl, hm⟩ := vt_rel h1
    obtain ⟨tsM, hM, rfl, rfl, hw⟩ := mapMGen_vt_relT num ctx rest _ _ _ h2
    refine ⟨(2 * pos + num.toNat) :: tsM, ?_, rfl, rfl, ?_⟩
    · simp only [mapMGen, run_bind_ok, run_pure_ok]
      exact ⟨_, _, hm, _, _, hM, rfl, rfl⟩
    · intro t ht
      simp only [List.mem_cons] at ht
      rcases ht with rfl | ht
      · exact hlt
      · exact hw t ht

theorem connections_go_relT (Γ newΓ : Ctx) : ∀ (tm : List (Binding × List Nat))
    (accM : List (Nat × List Nat)) (c : Nat) (connsX : List (Temporary × List Temporary)) (c' : Nat),
    ConnsOK PosT accM →
    (connections.go a64Backend Γ newΓ tm (mapPM posTemp accM)).run c = .ok (connsX, c') →
    ∃ connsM, (connections.go mockSym Γ newΓ tm accM).run c = .ok (connsM, c) ∧
      connsX = mapPM posTemp connsM ∧ c' = c ∧ ConnsOK PosT connsM
  | [], accM, c, connsX, c', hacc, h => by
    simp only [connections.go, run_pure_ok] at h
    obtain ⟨rfl, rfl⟩ := h
    exact ⟨accM, rfl, rfl, rfl, hacc⟩
  | (b, targets) :: rest, accM, c, connsX, c', hacc, h => by
    unfold connections.go at h ⊢
    by_cases hbe : (b.chi == Chi.ext) = true
    · simp only [hbe, if_true, run_bind_ok] at h ⊢
      obtain ⟨k, c1, h1, ts, c2, h2, h3⟩ := h
      obtain ⟨pos, hp, hlt, rfl, rfl, hm⟩ := vt_rel h1
      obtain ⟨tsM, hM, rfl, rfl, hw⟩ := mapMGen_vt_relT .snd newΓ targets _ _ _ h2
      rw [Scc.X86.Ref.setOfList_map tempMap_posTemp, Scc.X86.Ref.mapInsert_map tempMap_posTemp] at h3
      obtain ⟨connsM, hgo, e1, e2, hok⟩ := connections_go_relT Γ newΓ rest _ _ _ _
        (Scc.X86.mem_mapInsert _ _ _ (QK := PosT) (QV := fun l => ∀ t ∈ l, PosT t) hlt
          (Scc.X86.mem_setOfList (B := mockSym) (TOK := PosT) hw) accM hacc) h3
      exact ⟨connsM, ⟨_, _, hm, _, _, hM, hgo⟩, e1, e2, hok⟩
    · simp only [hbe, if_false, Bool.false_eq_true, run_bind_ok] at h ⊢
      obtain ⟨k1, c1, h1, ts1, c2, h2, k2, c3, h3, ts2, c4, h4, h5⟩ := h
      obtain ⟨pos1, hp1, hlt1, rfl, rfl, hm1⟩ := vt_rel h1
      obtain ⟨tsM1, hM1, rfl, rfl, hw1⟩ := mapMGen_vt_relT .fst newΓ targets _ _ _ h2
      obtain ⟨pos2, hp2, hlt2, rfl, rfl, hm2⟩ := vt_rel h3
      obtain ⟨tsM2, hM2, rfl, rfl, hw2⟩ := mapMGen_vt_relT .snd newΓ targets _ _ _ h4
      rw [Scc.X86.Ref.setOfList_map tempMap_posTemp, Scc.X86.Ref.setOfList_map tempMap_posTemp,
        Scc.X86.Ref.mapInsert_map tempMap_posTemp, Scc.X86.Ref.mapInsert_map tempMap_posTemp] at h5
      obtain ⟨connsM, hgo, e1, e2, hok⟩ := connections_go_relT Γ newΓ rest _ _ _ _
        (Scc.X86.mem_mapInsert _ _ _ (QK := PosT) (QV := fun l => ∀ t ∈ l, PosT t) hlt2
          (Scc.X86.mem_setOfList (B := mockSym) (TOK := PosT) hw2) _
          (Scc.X86.mem_mapInsert _ _ _ (QK := PosT) (QV := fun l => ∀ t ∈ l, PosT t) hlt1
            (Scc.X86.mem_setOfList (B := mockSym) (TOK := PosT) hw1) accM hacc)) h5
      exact ⟨connsM, ⟨_, _, hm1, _, _, hM1, _, _, hm2, _, _, hM2, hgo⟩, e1, e2, hok⟩

/-- `code_exchange`, all bindings: the AArch64 code renders the mock code -/
theorem mseg_codeExchange (tm : List (Binding × List Nat)) (Γ newΓ : Ctx)
    {c : Nat} {code : List Code} {c' : Nat}
    (h : (codeExchange a64Backend tm Γ newΓ).run c = .ok (code, c')) :
    ∃ ops, (codeExchange mockSym tm Γ newΓ).run c = .ok (ops, c') ∧ MSeg .normal ops code .normal := by
  unfold codeExchange connections at h ⊢
  simp only [run_bind_ok] at h ⊢
  obtain ⟨connsX, c1, h1, h2⟩ := h
  obtain ⟨connsM, hgo, rfl, rfl, hok⟩ := connections_go_relT Γ newΓ tm [] c connsX c1
    (fun _ h => by simp at h) h1
  cases hpm : parallelMoves a64Backend (mapPM posTemp connsM) with
  | error e => rw [hpm] at h2; exact ((run_throw_ok _ _ _ _).1 h2).elim
  | ok code' =>
    rw [hpm] at h2
    simp only [run_pure_ok] at h2
    obtain ⟨rfl, rfl⟩ := h2
    obtain ⟨ops, hops, S⟩ := mseg_parallelMoves connsM (fun e he => (hok e he).1) (fun e he => (hok e he).2) hpm
    refine ⟨ops, ⟨connsM, _, hgo, ?_⟩, S⟩
    rw [hops]
    rfl

end Scc.A64.Ref.K
