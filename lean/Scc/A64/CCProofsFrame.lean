/-
  Scc.A64.CCProofsFrame — property C13, AArch64: what ONE data-processing / load / store instruction can
  do on the SPEC machine (Scc/A64/Machine.lean), whatever the values involved:

  * `MErr e`: the error messages of `Instr.exec` when `SP` is 16-aligned (`exec_err`).  None of them is a
    fault of the calling-convention monitor (`misaligned-call`, `misaligned-sp`).
  * `exec_frame`: an instruction other than the pair forms leaves `SP` alone unless it is one of the
    forms that write `SP`, and changes at most the stack word that a `STR` addresses.
  * `plain_toInstr`: the machine instruction of a plain backend instruction does not write `SP`, is no
    pair form, and if it is a `STR`, it stores to an `SP`-relative slot of the spill area.
-/
import Scc.A64.CCProofsSites

set_option linter.unusedVariables false
set_option linter.unusedSimpArgs false

namespace Scc.A64.CC

open Scc.A64

/-! ## `Except` -/

theorem bind_ok_inv {ε α β : Type} {x : Except ε α} {f : α → Except ε β} {b : β}
    (h : (x >>= f) = .ok b) : ∃ a, x = .ok a ∧ f a = .ok b := by
  cases x with
  | error e => cases h
  | ok a => exact ⟨a, rfl, h⟩

theorem bind_err_inv {ε α β : Type} {x : Except ε α} {f : α → Except ε β} {e : ε}
    (h : (x >>= f) = .error e) : x = .error e ∨ ∃ a, x = .ok a ∧ f a = .error e := by
  cases x with
  | error e' => left; simpa [bind, Except.bind] using h
  | ok a => right; exact ⟨a, rfl, h⟩

/-! ## error messages -/

def errPrefixes : List String :=
  ["read-undefined ", "bad-operand ", "unaligned ", "oob ", "unencodable ", "unpredictable ",
   "undefined-label ", "label-at-end ", "jump-to-non-instruction "]

def errFixed : List String := ["div-by-zero", "div-overflow", "no such register"]

inductive MErr : String → Prop where
  | pre (p x : String) : p ∈ errPrefixes → MErr (p ++ x)
  | fixed (e : String) : e ∈ errFixed → MErr e

/-- messages that are not raised by the calling-convention monitor (nor by `execCodesOut` for control
    transfers inside a straight-line segment) -/
def OKErr (e : String) : Prop :=
  e ≠ "misaligned-call" ∧ e ≠ "misaligned-sp" ∧ e ≠ "branching instruction" ∧ e ≠ "internal call"

theorem MErr.okErr {e : String} (h : MErr e) : OKErr e := by
  cases h with
  | pre p x hp =>
    simp only [errPrefixes, List.mem_cons, List.not_mem_nil, or_false] at hp
    rcases hp with rfl | rfl | rfl | rfl | rfl | rfl | rfl | rfl | rfl <;>
      exact ⟨append_ne_prefix (by decide), append_ne_prefix (by decide), append_ne_prefix (by decide),
        append_ne_prefix (by decide)⟩
  | fixed e he =>
    simp only [errFixed, List.mem_cons, List.not_mem_nil, or_false] at he
    rcases he with rfl | rfl | rfl <;> exact ⟨by decide, by decide, by decide, by decide⟩

theorem merr_of_prefix (p rest e : String) (hp : p ∈ errPrefixes) (h : e = p ++ rest) : MErr e :=
  h ▸ MErr.pre p rest hp

theorem merr_undefX (n : Nat) : MErr s!"read-undefined X{n}" :=
  merr_of_prefix "read-undefined " ("X" ++ toString n) _ (by simp [errPrefixes]) (by
    show "read-undefined X" ++ toString n = _
    rw [show ("read-undefined X" : String) = "read-undefined " ++ "X" from by decide, String.append_assoc])
theorem merr_badSP : MErr "bad-operand SP" := MErr.pre "bad-operand " "SP" (by simp [errPrefixes])
theorem merr_badXZR : MErr "bad-operand XZR" := MErr.pre "bad-operand " "XZR" (by simp [errPrefixes])
theorem merr_unaligned (n : Nat) : MErr s!"unaligned {n}" := MErr.pre "unaligned " (toString n) (by simp [errPrefixes])
theorem merr_oob (n : Nat) : MErr s!"oob {n}" := MErr.pre "oob " (toString n) (by simp [errPrefixes])
theorem merr_storeUndef (n : Nat) : MErr s!"read-undefined value stored to heap[{n}]" :=
  merr_of_prefix "read-undefined " ("value stored to heap[" ++ toString n ++ "]") _ (by simp [errPrefixes]) (by
    show "read-undefined value stored to heap[" ++ toString n ++ "]" = _
    rw [show ("read-undefined value stored to heap[" : String) = "read-undefined " ++ "value stored to heap[" from
      by decide]
    simp only [String.append_assoc])
/-- a message that starts with one of the prefixes -/
theorem merr_of_isPrefix {p e : String} (hp : p ∈ errPrefixes) (h : p.toList.isPrefixOf e.toList = true) :
    MErr e := by
  obtain ⟨t, ht⟩ := List.isPrefixOf_iff_prefix.1 h
  have : e = p ++ String.ofList t := by
    apply String.toList_inj.1
    rw [String.toList_append, String.toList_ofList, ht]
  rw [this]
  exact MErr.pre p _ hp
theorem merr_undefLabel (l : String) : MErr s!"undefined-label {l}" :=
  MErr.pre "undefined-label " l (by simp [errPrefixes])
theorem merr_undefFlags : MErr "read-undefined flags" := MErr.pre "read-undefined " "flags" (by simp [errPrefixes])

section Prims
variable {c : MemCfg} {σ σ' : State} {e : String}

theorem rdX_err {n : Fin 31} (h : σ.rdX n = .error e) : MErr e := by
  unfold State.rdX at h
  split at h
  · cases h
  · cases h; exact merr_undefX n.val

theorem rdZ_err {r : Reg} {e : String} (h : σ.rdZ r = .error e) : MErr e := by
  cases r with
  | x n => exact rdX_err h
  | xzr => cases h
  | sp => cases h; exact merr_badSP

theorem wrZ_err {r : Reg} {w : Word} (h : σ.wrZ r w = .error e) : MErr e := by
  cases r with
  | x n => cases h
  | xzr => cases h
  | sp => cases h; exact merr_badSP

theorem getZ_err {r : Reg} (h : σ.getZ r = .error e) : MErr e := by
  cases r with
  | x n => cases h
  | xzr => cases h
  | sp => cases h; exact merr_badSP

theorem putZ_err {r : Reg} {w : Option Word} (h : σ.putZ r w = .error e) : MErr e := by
  cases r with
  | x n => cases h
  | xzr => cases h
  | sp => cases h; exact merr_badSP

theorem rdS_err {r : Reg} (h : σ.rdS r = .error e) : MErr e := by
  cases r with
  | x n => exact rdX_err h
  | sp => cases h
  | xzr => cases h; exact merr_badXZR

theorem wrS_err {r : Reg} {w : Word} (h : σ.wrS r w = .error e) : MErr e := by
  cases r with
  | x n => cases h
  | sp => cases h
  | xzr => cases h; exact merr_badXZR

theorem base_err {r : Reg} (hal : σ.sp.toNat % 16 = 0) (h : σ.base r = .error e) : MErr e := by
  cases r with
  | x n => exact rdX_err h
  | sp => simp [State.base, hal] at h
  | xzr => cases h; exact merr_badXZR

theorem load_err {a : Nat} {e : String} (h : σ.load c a = .error e) : MErr e := by
  unfold State.load at h
  split at h
  · cases h; exact merr_unaligned a
  · split at h
    · cases h
    · split at h
      · cases h
      · cases h; exact merr_oob a

theorem store_err {a : Nat} {w : Option Word} (h : σ.store c a w = .error e) : MErr e := by
  unfold State.store at h
  split at h
  · cases h; exact merr_unaligned a
  · split at h
    · split at h
      · cases h
      · cases h; exact merr_storeUndef a
    · split at h
      · split at h <;> cases h
      · cases h; exact merr_oob a

theorem sdivW_err {a b : Word} (h : sdivW a b = .error e) : MErr e := by
  unfold sdivW at h
  split at h
  · cases h; exact .fixed _ (by simp [errFixed])
  · split at h
    · cases h; exact .fixed _ (by simp [errFixed])
    · cases h

/-! ### frames of the primitives -/

theorem wrZ_ss {r : Reg} {w : Word} (h : σ.wrZ r w = .ok σ') : σ'.sp = σ.sp ∧ σ'.stack = σ.stack := by
  cases r with
  | x n => cases h; exact ⟨rfl, rfl⟩
  | xzr => cases h; exact ⟨rfl, rfl⟩
  | sp => cases h

theorem putZ_ss {r : Reg} {w : Option Word} (h : σ.putZ r w = .ok σ') : σ'.sp = σ.sp ∧ σ'.stack = σ.stack := by
  cases r with
  | x n => cases h; exact ⟨rfl, rfl⟩
  | xzr => cases h; exact ⟨rfl, rfl⟩
  | sp => cases h

theorem wrS_ss {r : Reg} {w : Word} (h : σ.wrS r w = .ok σ') : (r ≠ .sp → σ'.sp = σ.sp) ∧ σ'.stack = σ.stack := by
  cases r with
  | x n => cases h; exact ⟨fun _ => rfl, rfl⟩
  | sp => cases h; exact ⟨fun h => absurd rfl h, rfl⟩
  | xzr => cases h

theorem store_ss {a : Nat} {w : Option Word} (h : σ.store c a w = .ok σ') :
    σ'.sp = σ.sp ∧ ∀ b, b ≠ a → σ'.stack[b]? = σ.stack[b]? := by
  unfold State.store at h
  split at h
  · cases h
  · split at h
    · split at h
      · cases h; exact ⟨rfl, fun _ _ => rfl⟩
      · cases h
    · split at h
      · split at h
        · cases h
          refine ⟨rfl, fun b hb => ?_⟩
          simp only [Std.HashMap.getElem?_insert]
          have : ¬ a = b := fun e => hb e.symm
          simp [this]
        · cases h
          refine ⟨rfl, fun b hb => ?_⟩
          simp only [Std.HashMap.getElem?_erase]
          have : ¬ a = b := fun e => hb e.symm
          simp [this]
      · cases h

end Prims

/-! ## the instruction semantics -/

/-- the forms that `Instr.exec` handles (everything but the control transfers) -/
def isData : Instr → Bool
  | .b _ | .br _ | .bl _ | .adr _ _ | .bcond _ _ | .ret => false
  | _ => true

/-- the pair forms with writeback -/
def isPair : Instr → Bool
  | .stpPre _ _ _ _ | .ldpPost _ _ _ _ => true
  | _ => false

/-- the forms that can write `SP` (pair forms apart) -/
def spWrite : Instr → Bool
  | .addi d _ _ | .subi d _ _ | .mov d _ => decide (d = .sp)
  | _ => false

section Exec
variable {c : MemCfg} {σ σ' : State} {e : String}

/-- EVERY ERROR of a data instruction executed with `SP` 16-aligned is one of the listed messages -/
theorem exec_err {i : Instr} (hd : isData i = true) (hal : σ.sp.toNat % 16 = 0)
    (h : i.exec c σ = .error e) : MErr e := by
  cases i <;> simp only [isData] at hd <;> simp only [Instr.exec] at h <;>
    (try (exact absurd hd (by decide)))
  case add d n m =>
    rcases bind_err_inv h with h | ⟨a, _, h⟩
    · exact rdZ_err h
    · rcases bind_err_inv h with h | ⟨b, _, h⟩
      · exact rdZ_err h
      · exact wrZ_err h
  case sub d n m =>
    rcases bind_err_inv h with h | ⟨a, _, h⟩
    · exact rdZ_err h
    · rcases bind_err_inv h with h | ⟨b, _, h⟩
      · exact rdZ_err h
      · exact wrZ_err h
  case mul d n m =>
    rcases bind_err_inv h with h | ⟨a, _, h⟩
    · exact rdZ_err h
    · rcases bind_err_inv h with h | ⟨b, _, h⟩
      · exact rdZ_err h
      · exact wrZ_err h
  case sdiv d n m =>
    rcases bind_err_inv h with h | ⟨a, _, h⟩
    · exact rdZ_err h
    · rcases bind_err_inv h with h | ⟨b, _, h⟩
      · exact rdZ_err h
      · rcases bind_err_inv h with h | ⟨q, _, h⟩
        · exact sdivW_err h
        · exact wrZ_err h
  case msub d n m a =>
    rcases bind_err_inv h with h | ⟨vn, _, h⟩
    · exact rdZ_err h
    · rcases bind_err_inv h with h | ⟨vm, _, h⟩
      · exact rdZ_err h
      · rcases bind_err_inv h with h | ⟨va, _, h⟩
        · exact rdZ_err h
        · exact wrZ_err h
  case addi d n i =>
    split at h
    · rcases bind_err_inv h with h | ⟨a, _, h⟩
      · exact rdS_err h
      · exact wrS_err h
    · cases h; exact merr_of_isPrefix (p := "unencodable ") (by simp [errPrefixes]) (by decide)
  case subi d n i =>
    split at h
    · rcases bind_err_inv h with h | ⟨a, _, h⟩
      · exact rdS_err h
      · exact wrS_err h
    · cases h; exact merr_of_isPrefix (p := "unencodable ") (by simp [errPrefixes]) (by decide)
  case mov d s =>
    split at h
    · rcases bind_err_inv h with h | ⟨a, _, h⟩
      · exact rdS_err h
      · exact wrS_err h
    · rcases bind_err_inv h with h | ⟨a, _, h⟩
      · exact rdS_err h
      · exact wrS_err h
    · rcases bind_err_inv h with h | ⟨a, _, h⟩
      · exact getZ_err h
      · exact putZ_err h
  case movz d i sh =>
    split at h
    · exact wrZ_err h
    · cases h; exact merr_of_isPrefix (p := "unencodable ") (by simp [errPrefixes]) (by decide)
  case movn d i sh =>
    split at h
    · exact wrZ_err h
    · cases h; exact merr_of_isPrefix (p := "unencodable ") (by simp [errPrefixes]) (by decide)
  case movk d i sh =>
    split at h
    · rcases bind_err_inv h with h | ⟨a, _, h⟩
      · exact rdZ_err h
      · exact wrZ_err h
    · cases h; exact merr_of_isPrefix (p := "unencodable ") (by simp [errPrefixes]) (by decide)
  case ldr t n i =>
    split at h
    · rcases bind_err_inv h with h | ⟨b, _, h⟩
      · exact base_err hal h
      · rcases bind_err_inv h with h | ⟨w, _, h⟩
        · exact load_err h
        · exact putZ_err h
    · cases h; exact merr_of_isPrefix (p := "unencodable ") (by simp [errPrefixes]) (by decide)
  case str t n i =>
    split at h
    · rcases bind_err_inv h with h | ⟨b, _, h⟩
      · exact base_err hal h
      · rcases bind_err_inv h with h | ⟨w, _, h⟩
        · exact getZ_err h
        · exact store_err h
    · cases h; exact merr_of_isPrefix (p := "unencodable ") (by simp [errPrefixes]) (by decide)
  case stpPre t1 t2 n i =>
    split at h
    · cases h; exact merr_of_isPrefix (p := "unencodable ") (by simp [errPrefixes]) (by decide)
    · split at h
      · cases h; exact merr_of_isPrefix (p := "unpredictable ") (by simp [errPrefixes]) (by decide)
      · rcases bind_err_inv h with h | ⟨b, _, h⟩
        · exact base_err hal h
        · rcases bind_err_inv h with h | ⟨w1, _, h⟩
          · exact getZ_err h
          · rcases bind_err_inv h with h | ⟨w2, _, h⟩
            · exact getZ_err h
            · rcases bind_err_inv h with h | ⟨σ1, _, h⟩
              · exact store_err h
              · rcases bind_err_inv h with h | ⟨σ2, _, h⟩
                · exact store_err h
                · exact wrS_err h
  case ldpPost t1 t2 n i =>
    split at h
    · cases h; exact merr_of_isPrefix (p := "unencodable ") (by simp [errPrefixes]) (by decide)
    · split at h
      · cases h; exact merr_of_isPrefix (p := "unpredictable ") (by simp [errPrefixes]) (by decide)
      · rcases bind_err_inv h with h | ⟨b, _, h⟩
        · exact base_err hal h
        · rcases bind_err_inv h with h | ⟨w1, _, h⟩
          · exact load_err h
          · rcases bind_err_inv h with h | ⟨w2, _, h⟩
            · exact load_err h
            · rcases bind_err_inv h with h | ⟨σ1, _, h⟩
              · exact putZ_err h
              · rcases bind_err_inv h with h | ⟨σ2, _, h⟩
                · exact putZ_err h
                · exact wrS_err h
  case cmp n m =>
    rcases bind_err_inv h with h | ⟨a, _, h⟩
    · exact rdZ_err h
    · rcases bind_err_inv h with h | ⟨b, _, h⟩
      · exact rdZ_err h
      · cases h
  case cmpi n i =>
    split at h
    · rcases bind_err_inv h with h | ⟨a, _, h⟩
      · exact rdS_err h
      · cases h
    · cases h; exact merr_of_isPrefix (p := "unencodable ") (by simp [errPrefixes]) (by decide)

/-- FRAME of a data instruction other than the pair forms: `SP` is kept unless the form writes it;
    only a `STR` changes the stack, and only at the word it addresses -/
theorem exec_frame {i : Instr} (hd : isData i = true) (hp : isPair i = false) (h : i.exec c σ = .ok σ') :
    (spWrite i = false → σ'.sp = σ.sp) ∧
    (∀ a, (∀ t n off b, i = .str t n off → σ.base n = .ok b → a ≠ (b + imm off).toNat) →
      σ'.stack[a]? = σ.stack[a]?) := by
  have ss : ∀ {τ : State}, (τ.sp = σ.sp ∧ τ.stack = σ.stack) →
      (τ.sp = σ.sp) ∧ (∀ a : Nat, τ.stack[a]? = σ.stack[a]?) := fun h => ⟨h.1, fun a => by rw [h.2]⟩
  cases i <;> simp only [isData] at hd <;> simp only [isPair] at hp <;> simp only [Instr.exec] at h <;>
    (try (exact absurd hd (by decide))) <;> (try (exact absurd hp (by decide)))
  case add d n m =>
    obtain ⟨a, _, h⟩ := bind_ok_inv h
    obtain ⟨b, _, h⟩ := bind_ok_inv h
    exact ⟨fun _ => (wrZ_ss h).1, fun a _ => by rw [(wrZ_ss h).2]⟩
  case sub d n m =>
    obtain ⟨a, _, h⟩ := bind_ok_inv h
    obtain ⟨b, _, h⟩ := bind_ok_inv h
    exact ⟨fun _ => (wrZ_ss h).1, fun a _ => by rw [(wrZ_ss h).2]⟩
  case mul d n m =>
    obtain ⟨a, _, h⟩ := bind_ok_inv h
    obtain ⟨b, _, h⟩ := bind_ok_inv h
    exact ⟨fun _ => (wrZ_ss h).1, fun a _ => by rw [(wrZ_ss h).2]⟩
  case sdiv d n m =>
    obtain ⟨a, _, h⟩ := bind_ok_inv h
    obtain ⟨b, _, h⟩ := bind_ok_inv h
    obtain ⟨q, _, h⟩ := bind_ok_inv h
    exact ⟨fun _ => (wrZ_ss h).1, fun a _ => by rw [(wrZ_ss h).2]⟩
  case msub d n m a =>
    obtain ⟨vn, _, h⟩ := bind_ok_inv h
    obtain ⟨vm, _, h⟩ := bind_ok_inv h
    obtain ⟨va, _, h⟩ := bind_ok_inv h
    exact ⟨fun _ => (wrZ_ss h).1, fun a _ => by rw [(wrZ_ss h).2]⟩
  case addi d n i =>
    split at h
    · obtain ⟨a, _, h⟩ := bind_ok_inv h
      refine ⟨fun hw => (wrS_ss h).1 (by simpa [spWrite] using hw), fun a _ => by rw [(wrS_ss h).2]⟩
    · cases h
  case subi d n i =>
    split at h
    · obtain ⟨a, _, h⟩ := bind_ok_inv h
      refine ⟨fun hw => (wrS_ss h).1 (by simpa [spWrite] using hw), fun a _ => by rw [(wrS_ss h).2]⟩
    · cases h
  case mov d s =>
    split at h
    · obtain ⟨a, _, h⟩ := bind_ok_inv h
      refine ⟨fun hw => (wrS_ss h).1 (by simpa [spWrite] using hw), fun a _ => by rw [(wrS_ss h).2]⟩
    · obtain ⟨a, _, h⟩ := bind_ok_inv h
      refine ⟨fun hw => (wrS_ss h).1 (by simpa [spWrite] using hw), fun a _ => by rw [(wrS_ss h).2]⟩
    · obtain ⟨a, _, h⟩ := bind_ok_inv h
      exact ⟨fun _ => (putZ_ss h).1, fun a _ => by rw [(putZ_ss h).2]⟩
  case movz d i sh =>
    split at h
    · exact ⟨fun _ => (wrZ_ss h).1, fun a _ => by rw [(wrZ_ss h).2]⟩
    · cases h
  case movn d i sh =>
    split at h
    · exact ⟨fun _ => (wrZ_ss h).1, fun a _ => by rw [(wrZ_ss h).2]⟩
    · cases h
  case movk d i sh =>
    split at h
    · obtain ⟨a, _, h⟩ := bind_ok_inv h
      exact ⟨fun _ => (wrZ_ss h).1, fun a _ => by rw [(wrZ_ss h).2]⟩
    · cases h
  case ldr t n i =>
    split at h
    · obtain ⟨b, _, h⟩ := bind_ok_inv h
      obtain ⟨w, _, h⟩ := bind_ok_inv h
      exact ⟨fun _ => (putZ_ss h).1, fun a _ => by rw [(putZ_ss h).2]⟩
    · cases h
  case str t n i =>
    split at h
    · obtain ⟨b, hb, h⟩ := bind_ok_inv h
      obtain ⟨w, _, h⟩ := bind_ok_inv h
      exact ⟨fun _ => (store_ss h).1, fun a ha => (store_ss h).2 a (ha t n i b rfl hb)⟩
    · cases h
  case cmp n m =>
    obtain ⟨a, _, h⟩ := bind_ok_inv h
    obtain ⟨b, _, h⟩ := bind_ok_inv h
    cases h
    exact ⟨fun _ => rfl, fun _ _ => rfl⟩
  case cmpi n i =>
    split at h
    · obtain ⟨a, _, h⟩ := bind_ok_inv h
      cases h
      exact ⟨fun _ => rfl, fun _ _ => rfl⟩
    · cases h

end Exec

/-! ## from backend instructions to machine instructions -/

theorem toReg_sp_iff {r : Register} {n : Reg} (h : r.toReg = some n) : n = .sp ↔ r = .sp := by
  cases r with
  | x k =>
    simp only [Register.toReg] at h
    split at h
    · cases h; simp
    · cases h
  | sp => cases h; simp
  | xzr => cases h; simp

/-- inversion of the `Option` monad used by `Code.toInstr` -/
theorem obind_some {α β : Type} {x : Option α} {f : α → Option β} {b : β} (h : x.bind f = some b) :
    ∃ a, x = some a ∧ f a = some b := by
  cases x with
  | none => cases h
  | some a => exact ⟨a, rfl, h⟩

/-- the machine instruction of a PLAIN backend instruction that is not a direct branch: a data
    instruction, no pair form, does not write `SP`; if it is a `STR`, the backend instruction is
    `STR r, [b, off]` with `b ↦ n` -/
theorem plain_toInstr {code : Code} {i : Instr} (hp : plainCC code = true) (hind : isIndirect code = false)
    (hj : codeJumpRef code = none) (ht : code.toInstr = some i) :
    isData i = true ∧ isPair i = false ∧ spWrite i = false ∧
    (∀ t n off, i = .str t n off → ∃ r b, code = .STR r b off ∧ b.toReg = some n) := by
  obtain ⟨hso, hw, _⟩ := plainCC_spec hp
  cases code <;> simp only [isStackOp] at hso <;> simp only [isIndirect] at hind <;>
    simp only [codeJumpRef] at hj <;> simp only [Code.toInstr, bind, Option.bind] at ht
  all_goals first
    | (cases hj; done)
    | (cases hind; done)
    | (cases hso; done)
    | (cases ht; done)
    | skip
  case ADD x y z =>
    obtain ⟨a, _, ht⟩ := obind_some ht; obtain ⟨b, _, ht⟩ := obind_some ht; obtain ⟨d, _, ht⟩ := obind_some ht
    cases ht; exact ⟨rfl, rfl, rfl, fun _ _ _ h => by cases h⟩
  case SUB x y z =>
    obtain ⟨a, _, ht⟩ := obind_some ht; obtain ⟨b, _, ht⟩ := obind_some ht; obtain ⟨d, _, ht⟩ := obind_some ht
    cases ht; exact ⟨rfl, rfl, rfl, fun _ _ _ h => by cases h⟩
  case MUL x y z =>
    obtain ⟨a, _, ht⟩ := obind_some ht; obtain ⟨b, _, ht⟩ := obind_some ht; obtain ⟨d, _, ht⟩ := obind_some ht
    cases ht; exact ⟨rfl, rfl, rfl, fun _ _ _ h => by cases h⟩
  case SDIV x y z =>
    obtain ⟨a, _, ht⟩ := obind_some ht; obtain ⟨b, _, ht⟩ := obind_some ht; obtain ⟨d, _, ht⟩ := obind_some ht
    cases ht; exact ⟨rfl, rfl, rfl, fun _ _ _ h => by cases h⟩
  case MSUB x y z v =>
    obtain ⟨a, _, ht⟩ := obind_some ht; obtain ⟨b, _, ht⟩ := obind_some ht; obtain ⟨d, _, ht⟩ := obind_some ht
    obtain ⟨e, _, ht⟩ := obind_some ht
    cases ht; exact ⟨rfl, rfl, rfl, fun _ _ _ h => by cases h⟩
  case ADDI x y imm =>
    obtain ⟨a, ha, ht⟩ := obind_some ht; obtain ⟨b, _, ht⟩ := obind_some ht
    cases ht
    have : a ≠ .sp := fun e => hw (by rw [(toReg_sp_iff ha).1 e]; simp [codeWrites])
    exact ⟨rfl, rfl, by simp [spWrite, this], fun _ _ _ h => by cases h⟩
  case SUBI x y imm =>
    obtain ⟨a, ha, ht⟩ := obind_some ht; obtain ⟨b, _, ht⟩ := obind_some ht
    cases ht
    have : a ≠ .sp := fun e => hw (by rw [(toReg_sp_iff ha).1 e]; simp [codeWrites])
    exact ⟨rfl, rfl, by simp [spWrite, this], fun _ _ _ h => by cases h⟩
  case MOVR x y =>
    obtain ⟨a, ha, ht⟩ := obind_some ht; obtain ⟨b, _, ht⟩ := obind_some ht
    cases ht
    have : a ≠ .sp := fun e => hw (by rw [(toReg_sp_iff ha).1 e]; simp [codeWrites])
    exact ⟨rfl, rfl, by simp [spWrite, this], fun _ _ _ h => by cases h⟩
  case MOVZ r imm s =>
    obtain ⟨a, _, ht⟩ := obind_some ht
    cases ht; exact ⟨rfl, rfl, rfl, fun _ _ _ h => by cases h⟩
  case MOVN r imm s =>
    obtain ⟨a, _, ht⟩ := obind_some ht
    cases ht; exact ⟨rfl, rfl, rfl, fun _ _ _ h => by cases h⟩
  case MOVK r imm s =>
    obtain ⟨a, _, ht⟩ := obind_some ht
    cases ht; exact ⟨rfl, rfl, rfl, fun _ _ _ h => by cases h⟩
  case LDR r b imm =>
    obtain ⟨a, _, ht⟩ := obind_some ht; obtain ⟨d, _, ht⟩ := obind_some ht
    cases ht; exact ⟨rfl, rfl, rfl, fun _ _ _ h => by cases h⟩
  case STR r0 b0 imm =>
    obtain ⟨a, _, ht⟩ := obind_some ht; obtain ⟨d, hd, ht⟩ := obind_some ht
    cases ht
    refine ⟨rfl, rfl, rfl, fun t n off h => ?_⟩
    cases h
    exact ⟨_, _, rfl, hd⟩
  case CMPR x y =>
    obtain ⟨a, _, ht⟩ := obind_some ht; obtain ⟨b, _, ht⟩ := obind_some ht
    cases ht; exact ⟨rfl, rfl, rfl, fun _ _ _ h => by cases h⟩
  case CMPI x imm =>
    obtain ⟨a, _, ht⟩ := obind_some ht
    cases ht; exact ⟨rfl, rfl, rfl, fun _ _ _ h => by cases h⟩

end Scc.A64.CC
