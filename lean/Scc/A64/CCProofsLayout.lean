/-
  Scc.A64.CCProofsLayout — property C13, AArch64: the LOADER of the machine (`layout`, Machine.lean) on
  the lines of a routine.  `Lines hkv ls routine`: the parsed lines `ls` are the routine instruction by
  instruction — an instruction parses to the machine instruction `Code.toInstr`, a label to a label line,
  `.text` / `.global` to directives, a comment to a plain comment or (as the parser decides, `hkv`) to a
  `#ctx` hook — with blank lines anywhere (the printer puts one before every label).
  `holds_layout`: then `layout ls` holds the routine in the sense of `Holds` (CCProofsRun.lean): item
  indices are item counts, labels resolve to the item count before their first definition.
  `cc_safe_layout`, `cc_safe_run`: the dynamic theorem for `runProg (layout ls)` and for `run text`.
-/
import Scc.A64.CCProofsRun

set_option linter.unusedVariables false
set_option linter.unusedSimpArgs false

namespace Scc.A64.CC

open Scc.A64 Scc.AxCut

/-- the step function of `layout` (Machine.lean) -/
def layStep (acc : LayoutAcc) (x : Nat × PLine) : LayoutAcc :=
  match x with
  | (ln, p) =>
    match p with
    | .blank | .comment | .directive => acc
    | .label l =>
      { acc with
        labels := if acc.labels.contains l then acc.labels else acc.labels.insert l acc.items.size,
        entry := some acc.items.size }
    | .hook vs =>
      { acc with
        items := acc.items.push (.hook vs), lines := acc.lines.push ln, offs := acc.offs.push acc.off,
        entry := match acc.entry with | some e => some e | none => some acc.items.size }
    | .instr i =>
      { acc with
        items := acc.items.push (.instr i), lines := acc.lines.push ln, offs := acc.offs.push acc.off,
        entries := acc.entries.insert acc.off (acc.entry.getD acc.items.size),
        off := acc.off + 4, entry := none }

theorem layout_items' (ls : List (Nat × PLine)) : (layout ls).items = (ls.foldl layStep {}).items := rfl
theorem layout_labels' (ls : List (Nat × PLine)) : (layout ls).labels = (ls.foldl layStep {}).labels := rfl

/-- the item a line is laid out as -/
def itemOfLine : PLine → Option Item
  | .hook vs => some (.hook vs)
  | .instr i => some (.instr i)
  | _ => none

theorem layStep_items (acc : LayoutAcc) (ln : Nat) (pl : PLine) :
    (layStep acc (ln, pl)).items.toList = acc.items.toList ++ (itemOfLine pl).toList := by
  cases pl <;> simp [layStep, itemOfLine]

/-- the label table entry of `l` after laying out the line `pl` -/
def labUpd (acc : LayoutAcc) (l : String) : PLine → Option Nat
  | .label l' => if l' = l then (acc.labels[l]?).or (some acc.items.size) else acc.labels[l]?
  | _ => acc.labels[l]?

theorem layStep_labels (acc : LayoutAcc) (ln : Nat) (pl : PLine) (l : String) :
    (layStep acc (ln, pl)).labels[l]? = labUpd acc l pl := by
  cases pl <;> try rfl
  rename_i l'
  simp only [layStep, labUpd]
  by_cases hc : acc.labels.contains l' = true
  · rw [if_pos hc]
    by_cases hl : l' = l
    · subst hl
      rw [if_pos rfl]
      have : ∃ i, acc.labels[l']? = some i := by
        rw [Std.HashMap.contains_eq_isSome_getElem?] at hc
        exact Option.isSome_iff_exists.1 hc
      obtain ⟨i, hi⟩ := this
      simp [hi]
    · rw [if_neg hl]
  · rw [if_neg hc]
    by_cases hl : l' = l
    · subst hl
      rw [if_pos rfl]
      have hnone : acc.labels[l']? = none := by
        rw [Std.HashMap.contains_eq_isSome_getElem?] at hc
        simpa using hc
      simp [hnone]
    · rw [if_neg hl, Std.HashMap.getElem?_insert]
      simp [hl]

theorem labUpd_other (acc : LayoutAcc) (l : String) {pl : PLine} (h : ∀ l', pl = .label l' → l' ≠ l) :
    labUpd acc l pl = acc.labels[l]? := by
  cases pl <;> try rfl
  rename_i l'
  simp [labUpd, h l' rfl]

/-! ## the lines of a routine -/

section
variable (hkv : String → Option (List (String × Kind)))

/-- the line a backend instruction is parsed to (`none`: a register that does not exist) -/
def lineOf : Code → Option PLine
  | .LAB l => some (.label l)
  | .TEXT => some .directive
  | .GLOBAL _ => some .directive
  | .COMMENT m => some (match hkv m with | some vs => .hook vs | none => .comment)
  | c => c.toInstr.map PLine.instr

/-- the comments that become hook items -/
def hkOf : Code → Bool
  | .COMMENT m => (hkv m).isSome
  | _ => false

/-- the item a backend instruction is laid out as -/
def itemOfCode (c : Code) : Option Item := (lineOf hkv c).bind itemOfLine

/-- the parsed lines are the routine, instruction by instruction, up to blank lines -/
inductive Lines : List (Nat × PLine) → List Code → Prop where
  | nil : Lines [] []
  | blank (ln : Nat) {ls : List (Nat × PLine)} {R : List Code} : Lines ls R → Lines ((ln, .blank) :: ls) R
  | code (ln : Nat) {c : Code} {pl : PLine} {ls : List (Nat × PLine)} {R : List Code} :
      lineOf hkv c = some pl → Lines ls R → Lines ((ln, pl) :: ls) (c :: R)

variable {hkv}

theorem firstLab_shift (l : String) : ∀ (R : List Code) (k : Nat),
    firstLab l R (k + 1) = (firstLab l R k).map (· + 1)
  | [], _ => rfl
  | c :: R, k => by
    simp only [firstLab]
    split
    · rfl
    · exact firstLab_shift l R (k + 1)

theorem lineOf_label {c : Code} {l : String} (h : lineOf hkv c = some (.label l)) : c = .LAB l := by
  cases c <;> simp only [lineOf, Option.some.injEq, Option.map_eq_some_iff] at h
  case LAB l' => cases h; rfl
  case COMMENT m => split at h <;> cases h
  all_goals first
    | (cases h; done)
    | (obtain ⟨i, _, h⟩ := h; cases h)

theorem lineOf_notBlank {c : Code} (h : lineOf hkv c = some .blank) : False := by
  cases c <;> simp only [lineOf, Option.some.injEq, Option.map_eq_some_iff] at h
  case COMMENT m => split at h <;> cases h
  all_goals first
    | (cases h; done)
    | (obtain ⟨i, _, h⟩ := h; cases h)

/-- THE FOLD OF `layout` over the lines of a code list -/
theorem fold_lines {ls : List (Nat × PLine)} {R : List Code} (h : Lines hkv ls R) :
    ∀ acc : LayoutAcc,
      (ls.foldl layStep acc).items.toList = acc.items.toList ++ R.filterMap (itemOfCode hkv) ∧
      ∀ l, (ls.foldl layStep acc).labels[l]? =
        (acc.labels[l]?).or ((firstLab l R 0).map fun k =>
          acc.items.size + ((R.take k).filterMap (itemOfCode hkv)).length) := by
  induction h with
  | nil => intro acc; simp [firstLab]
  | blank ln _ ih =>
    intro acc
    rw [List.foldl_cons]
    exact ih acc
  | @code ln c pl ls R hl _ ih =>
    intro acc
    rw [List.foldl_cons]
    obtain ⟨ih1, ih2⟩ := ih (layStep acc (ln, pl))
    have hitem : itemOfCode hkv c = itemOfLine pl := by simp [itemOfCode, hl]
    have hsize : (layStep acc (ln, pl)).items.size = acc.items.size + (itemOfLine pl).toList.length := by
      have := congrArg List.length (layStep_items acc ln pl)
      simpa using this
    refine ⟨?_, ?_⟩
    · rw [ih1, layStep_items, List.filterMap_cons, hitem]
      cases itemOfLine pl <;> simp
    · intro l
      rw [ih2 l, layStep_labels, hsize]
      simp only [firstLab]
      by_cases hc : c = Code.LAB l
      · subst hc
        simp only [lineOf, Option.some.injEq] at hl
        subst hl
        simp only [if_true, labUpd]
        cases acc.labels[l]? <;> simp
      · rw [if_neg hc, firstLab_shift]
        have hother : ∀ l', pl = .label l' → l' ≠ l := by
          intro l' hpl e
          rw [hpl] at hl
          have hcl : c = Code.LAB l' := lineOf_label hl
          exact hc (by rw [hcl, e])
        rw [labUpd_other acc l hother]
        congr 1
        rw [Option.map_map]
        congr 1
        funext k
        simp only [Function.comp, List.take_succ_cons, List.filterMap_cons, hitem]
        cases itemOfLine pl <;> simp <;> omega

theorem filterMap_take_get {α β : Type} (f : α → Option β) : ∀ (xs : List α) (j : Nat) (a : α) (b : β),
    xs[j]? = some a → f a = some b → (xs.filterMap f)[((xs.take j).filterMap f).length]? = some b
  | [], _, _, _, h, _ => by simp at h
  | x :: xs, 0, a, b, h, hb => by
    simp only [List.getElem?_cons_zero, Option.some.injEq] at h; subst h
    simp [List.filterMap_cons, hb]
  | x :: xs, j + 1, a, b, h, hb => by
    have ih := filterMap_take_get f xs j a b (by simpa using h) hb
    rw [List.take_succ_cons, List.filterMap_cons, List.filterMap_cons]
    cases f x with
    | none => simpa using ih
    | some y => simpa using ih

theorem lines_hasLine {ls : List (Nat × PLine)} {R : List Code} (h : Lines hkv ls R) :
    ∀ c ∈ R, ∃ pl, lineOf hkv c = some pl := by
  induction h with
  | nil => intro c hc; simp at hc
  | blank _ _ ih => exact ih
  | code ln hl _ ih =>
    intro c hc
    simp only [List.mem_cons] at hc
    rcases hc with rfl | hc
    · exact ⟨_, hl⟩
    · exact ih c hc

theorem itemOfCode_isSome {c : Code} {pl : PLine} (hl : lineOf hkv c = some pl) :
    (itemOfCode hkv c).isSome = isItem (hkOf hkv) c := by
  cases c <;> simp only [lineOf, Option.some.injEq, Option.map_eq_some_iff] at hl
  case LAB l => subst hl; rfl
  case TEXT => subst hl; rfl
  case GLOBAL l => subst hl; rfl
  case COMMENT m =>
    subst hl
    simp only [itemOfCode, lineOf, Option.bind_some, isItem, hkOf, Code.isMeta, Bool.not_true, Bool.false_or]
    cases hkv m <;> rfl
  all_goals
    obtain ⟨i, hi, rfl⟩ := hl
    simp [itemOfCode, lineOf, hi, itemOfLine, isItem, Code.isMeta]

theorem icnt_eq {R : List Code} (hR : ∀ c ∈ R, ∃ pl, lineOf hkv c = some pl) :
    icnt (hkOf hkv) R = (R.filterMap (itemOfCode hkv)).length := by
  induction R with
  | nil => rfl
  | cons c R ih =>
    obtain ⟨pl, hl⟩ := hR c (by simp)
    have h1 := itemOfCode_isSome hl
    have ih' := ih (fun c' hc' => hR c' (by simp [hc']))
    unfold icnt at ih' ⊢
    rw [List.filter_cons, List.filterMap_cons]
    cases hi : itemOfCode hkv c with
    | none =>
      rw [hi] at h1
      have : isItem (hkOf hkv) c = false := by simpa using h1.symm
      simp [this, ih']
    | some it =>
      rw [hi] at h1
      have : isItem (hkOf hkv) c = true := by simpa using h1.symm
      simp [this, ih']

/-- THE LOADER: `layout` of the lines of a routine holds the routine -/
theorem holds_layout {ls : List (Nat × PLine)} {routine : List Code} (h : Lines hkv ls routine) :
    Holds (hkOf hkv) (layout ls) routine := by
  obtain ⟨f1, f2⟩ := fold_lines h {}
  have hall := lines_hasLine h
  have hcnt : ∀ k, icnt (hkOf hkv) (routine.take k) = ((routine.take k).filterMap (itemOfCode hkv)).length :=
    fun k => icnt_eq fun c hc => hall c (List.mem_of_mem_take hc)
  have hitems : ∀ j : Nat, (layout ls).items[j]? = (routine.filterMap (itemOfCode hkv))[j]? := by
    intro j
    rw [layout_items', ← Array.getElem?_toList, f1]
    simp
  refine ⟨?_, ?_, ?_, ?_⟩
  · intro c hc
    cases c <;> simp [hkOf] at hc
    exact ⟨_, rfl⟩
  · intro k c hc hm
    obtain ⟨pl, hl⟩ := hall c (List.mem_of_getElem? hc)
    have hpl : ∃ i, c.toInstr = some i ∧ pl = .instr i := by
      cases c <;> simp only [lineOf, Option.some.injEq, Option.map_eq_some_iff] at hl <;>
        first
          | (simp [Code.isMeta] at hm; done)
          | (obtain ⟨i, hi, rfl⟩ := hl; exact ⟨i, hi, rfl⟩)
    obtain ⟨i, hti, rfl⟩ := hpl
    refine ⟨i, hti, ?_⟩
    rw [hitems, hcnt]
    exact filterMap_take_get _ routine k c _ hc (by simp [itemOfCode, hl, itemOfLine])
  · intro k c hc hh
    cases c <;> simp [hkOf] at hh
    rename_i m
    obtain ⟨vs, hvs⟩ := Option.isSome_iff_exists.1 hh
    refine ⟨vs, ?_⟩
    rw [hitems, hcnt]
    exact filterMap_take_get _ routine k _ _ hc (by simp [itemOfCode, lineOf, hvs, itemOfLine])
  · intro l
    rw [layout_labels', f2 l]
    simp only [Std.HashMap.getElem?_empty, Option.none_or]
    congr 1
    funext k
    simp [hcnt]

end

/-! ## the dynamic theorem on laid-out lines and on the text -/

/-- C13 (b), INTEGER PROGRAMS, on the program laid out from the lines of the routine -/
theorem cc_safe_layout {p : AxCut.Prog} (hp : Scc.Backend.Shape.IntProgC p) {hooks : Bool} {c0 : Nat}
    {body routine : List Code} {nargs : Nat}
    (hc : compileProg a64Backend p hooks c0 = .ok (body, nargs, routine)) (cfg : MonCfg) (H : CfgCC cfg.mem)
    (hkv : String → Option (List (String × Kind))) (ls : List (Nat × PLine)) (hl : Lines hkv ls routine)
    (args : List Word) (fuel : Nat) :
    CCSafe (runProg (layout ls) args fuel cfg).res :=
  cc_safe_prog hp hc H (holds_layout hl) args fuel

/-- … and on the machine's entry point `run`, for any text that parses to the lines of the routine
    (monitor `wf` off: with it, a text that is not well-formed is reported as a fault at line 0) -/
theorem cc_safe_run {p : AxCut.Prog} (hp : Scc.Backend.Shape.IntProgC p) {hooks : Bool} {c0 : Nat}
    {body routine : List Code} {nargs : Nat}
    (hc : compileProg a64Backend p hooks c0 = .ok (body, nargs, routine)) (cfg : MonCfg) (H : CfgCC cfg.mem)
    (hwf : cfg.wf = false) (hkv : String → Option (List (String × Kind))) {text : String}
    {ls : List (Nat × PLine)} (hparse : parseText text = .ok ls) (hl : Lines hkv ls routine)
    (args : List Word) (fuel : Nat) :
    CCSafe (run text args fuel cfg).res := by
  unfold run
  simp only [hparse, hwf, Bool.false_eq_true, if_false]
  exact cc_safe_layout hp hc cfg H hkv ls hl args fuel

end Scc.A64.CC
