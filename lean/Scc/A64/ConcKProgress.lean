/-
  Scc.A64.ConcKProgress — PROGRESS of the AArch64 machine along a run of the positional machine that does not
  end, ALL PROGRAMS (the AArch64 analogue of Scc/X86/ConcProgress.lean + ConcKProgress.lean).
  Every `call` AND every `invoke` makes the machine execute an INSTRUCTION (`IsJump`; the `B label` resp. the
  `BR reg` — also when the machine is ahead of the statement boundary by `#ctx` hooks: `tol_next_real`), and every
  other step of the positional machine moves to a strictly smaller statement (`size_step`).  The statement an
  `invoke` continues with is a clause of a closure VALUE; its size is bounded by `M` (the largest definition
  body) because every closure inside the values of the environment was made by a `create` of the program text:
  the hereditary predicate `stmtSize · ≤ M` / `clausesSize · ≤ M` (`hered_size`, `hered_step`).  So along a run of
  the positional machine that is still going after `N·(M + 1) + |stmt|` steps the machine makes at least `N`
  iterations of its run loop WITHOUT FAULT (`run3_progress`).
  `stmtSize`, `size_step`, `hered_size` (positional machine only) are those of Scc/X86/ConcProgress.lean and
  ConcKProgress.lean — backend-independent.
-/
import Scc.A64.ConcKPeakRun
import Scc.X86.ConcKProgress

set_option linter.unusedVariables false
set_option linter.unusedSimpArgs false

namespace Scc.A64.ConcK

open Scc Scc.AxCut Scc.AxCut.Pos Scc.Backend Scc.Backend.Abs Scc.Backend.Sim Scc.Backend.Subst Scc.A64 Scc.A64.Ref
open Scc.A64.CC
open Scc.Backend.Sim2 Scc.Backend.Keys
open Scc.Props.C14Generic (LabelSafe)
open Scc.Props.C06Generic (outAfter WithinCapacity Reachable EnoughHeap CodeFits statesOf stopsWithin)
open Scc.Heap (HState InvS InvW Exhausted)
open Scc.Heap.Refine (HRef FrLe Room FrPk)
open Scc.X86.Conc (FrBound LiveLe LiveLe0 stmtSize clausesSize stmtSize_pos clausesSize_nth)
open Scc.X86.Ref.K (AllocLe AllocLeClauses ValAll allocArity allocArity_le hered_step hered_allocLe IsJump)
open Scc.X86.ConcK (hered_size size_step)

section Run3P

variable {c : MemCfg} (H : CfgCC c) (h8 : c.heapBase % 8 = 0) {hkf : Code → Bool} {Pm : Prog}
  {cs pre : List Code} (HB : K.HoldsB hkf Pm cs) (hnd : (labs cs).Nodup)
  (hfitX : c.codeBase + 4 * ninstr cs < 2 ^ 64) (hcs : cs = pre ++ cleanup)
  (hclean : "cleanup" ∉ labs pre)

include H h8 HB hnd hfitX hcs hclean in
/-- PROGRESS, all programs: along a run of the positional machine that is still going after
`N·(M + 1) + |stmt|` steps, the machine makes at least `N` iterations of its run loop without fault -/
theorem run3_progress (hooks : Bool) (prog : AxCut.Prog) (kc : Nat) (code : List MockOp) (nargs kc' : Nat)
    (hcomp : (compile mockSym hooks prog).run kc = .ok ((code, nargs), kc'))
    (hsafe : LabelSafe prog = true) (htp : LinTypedProg prog) (hfit : CodeFits code)
    (DX : K.XDefsAt cs hooks prog) (hprog : K.ProgOK prog) (Pk C A M : Nat)
    (hA : ∀ d ∈ prog.defs, AllocLe A d.body) (hM : ∀ d ∈ prog.defs, stmtSize d.body ≤ M)
    (hbytes : 64 * (Pk + A + 2) ≤ c.heapBytes) :
    ∀ (fuel N : Nat) (st : Pos.State) (acc : List (Bool × Word)) (cfg : Config) (hs : HState) (σ : State)
      (kp pcR : Nat) (out : List (Bool × Word)) (Cb : Nat),
      Pos.StateTyped prog st → (∀ st', Reachable prog st st' → 2 * st'.ctx.length ≤ 280) →
      K.Tol Pm (pcOf hkf cs kp) pcR →
      K.Rel3 c cs (Program.ofOps code) hooks prog st cfg hs σ kp → AllocLe A st.stmt →
      (∀ w ∈ st.env, ValAll (AllocLeClauses A) w) →
      stmtSize st.stmt ≤ M → (∀ w ∈ st.env, ValAll (fun cl => clausesSize cl ≤ M) w) →
      cfg.out = acc → cfg.next + fuel < 2 ^ 64 → FrBound hs (Pk + 1) →
      FrBound hs Cb → Cb + A * fuel ≤ C →
      PeakFrom c hkf Pm cs (Program.ofOps code) hooks prog st ⟨σ, pcR, acc⟩ Pk C →
      Pos.runState prog fuel st acc = ⟨out, .outOfFuel⟩ → N * (M + 1) + stmtSize st.stmt ≤ fuel →
      ∃ n X', N ≤ n ∧ StepsN Pm c n ⟨σ, pcR, acc⟩ X'
  | _, 0, _, acc, _, _, σ, _, pcR, _, _, _, _, _, _, _, _, _, _, _, _, _, _, _, _, _, _ =>
    ⟨0, _, Nat.le_refl _, StepsN.refl _ _ _⟩
  | 0, N + 1, st, _, _, _, _, _, _, _, _, _, _, _, _, _, _, _, _, _, _, _, _, _, _, _, hN => by
    have := stmtSize_pos st.stmt
    omega
  | fuel + 1, N + 1, st, acc, cfg, hs, σ, kp, pcR, out, Cb, T, hcap, TL, R, hlet, hvals, hszM, hvalsM, hacc, hnext,
      hfb, hcb, hC, hP, hrun, hN => by
    have hX3 : ∃ Γ' ι κ, K.X3 c Γ' cfg hs ι κ σ cfg.out := by
      obtain ⟨Γ', ι, κ, _, _, X3h, _⟩ := R
      exact ⟨Γ', ι, κ, X3h⟩
    obtain ⟨Γ0, ι0, κ0, X3h⟩ := hX3
    have hbase := X3h.hrel.base
    have hlimit := X3h.hrel.limit
    have hAr := allocArity_le hlet
    have hroom : Room hs (64 * allocArity st.stmt + 64) :=
      Scc.X86.Conc.Room.of_frBound hfb (by rw [hbase, hlimit]; omega)
    have hsim := K.step3P H h8 HB hnd hfitX hcs hclean hooks prog kc code nargs kc' hcomp hsafe htp hfit
      DX hprog st cfg hs σ kp R T (by unfold EnoughHeap; omega) hroom
    have hsafe' := Pos.step_safe htp st T
    have hw : ∃ rs lin lazy live F, InvS hs rs [] lin lazy live F := by
      obtain ⟨lin, lazy, live, Fr, I⟩ := X3h.href.conc
      exact ⟨_, lin, lazy, live, Fr, I⟩
    unfold K.StepSim3P at hsim
    simp only [Pos.runState] at hrun
    cases hst : Pos.step prog st with
    | stuck w => simp [hst] at hrun
    | done v' => simp [hst] at hrun
    | next st' o =>
      simp only [hst] at hrun hsim
      rw [hst] at hsafe'
      have hc' := hcap st' (Reachable.step Reachable.refl hst)
      obtain ⟨cfg', hs', σ', kp', pcR', h1, T', hreal, h2, h3, hfr, hpk, R'⟩ :=
        hsim (K.withinCapacity_of_le hc') hc'
      have hacc' : cfg'.out = outAfter o acc := by rw [h2, hacc]
      rw [hacc, hacc'] at h1 hreal
      obtain ⟨hlet', hvals'⟩ := hered_step (hered_allocLe A) hA hst hlet hvals
      obtain ⟨hszM', hvalsM'⟩ := hered_step (hered_size M) hM hst hszM hvalsM
      have hcb' : FrBound hs' (Cb + A) := hcb.of_frLe (K.FrLe.mono' hfr (by omega)) hw
      have hC' : Cb + A + A * fuel ≤ C := by
        have : A * (fuel + 1) = A * fuel + A := Nat.mul_succ A fuel
        omega
      have hrun' : Pos.runState prog fuel st' (outAfter o acc) = ⟨out, .outOfFuel⟩ := by
        cases o <;> exact hrun
      have hcapr : ∀ st'', Reachable prog st' st'' → 2 * st''.ctx.length ≤ 280 :=
        fun st'' hr => hcap st'' (Scc.Props.C06Generic.reachable_prepend hst hr)
      have hliveOf : ∀ k pcR'', StepsN Pm c k ⟨σ, pcR, acc⟩ ⟨σ', pcR'', outAfter o acc⟩ →
          K.Tol Pm (pcOf hkf cs kp') pcR'' → LiveLe0 hs' Pk :=
        fun k pcR'' hk T'' => hP k ⟨σ', pcR'', outAfter o acc⟩ st' cfg' hs' kp'
          (Reachable.step Reachable.refl hst) hk T'' hacc'.symm R'
          (fun rs lin lazy live F J => by
            have := hcb' rs lin lazy live F J
            have : A ≤ A * (fuel + 1) := Nat.le_mul_of_pos_right A (by omega)
            omega)
      rcases size_step hst with hj | hsz
      · -- a call or an invoke: at least one iteration; the statement continued with is at most `M`
        obtain ⟨k, hk1, hk⟩ := tol_next_real TL (hreal hj)
        have hfb' : FrBound hs' (Pk + 1) := hfb.step hfr.2.1 hpk hw (hliveOf k pcR' hk T')
        have hN' : N * (M + 1) + stmtSize st'.stmt ≤ fuel := by
          have : (N + 1) * (M + 1) = N * (M + 1) + (M + 1) := Nat.succ_mul N (M + 1)
          have := stmtSize_pos st.stmt
          omega
        obtain ⟨n', X'', hn', hX''⟩ := run3_progress hooks prog kc code nargs kc' hcomp hsafe htp hfit DX hprog Pk C A
          M hA hM hbytes fuel N st' (outAfter o acc) cfg' hs' σ' kp' pcR' out (Cb + A) hsafe' hcapr T' R' hlet'
          hvals' hszM' hvalsM' hacc' (by omega) hfb' hcb' hC' (hP.step hst hk) hrun' hN'
        exact ⟨k + n', X'', by omega, hk.trans hX''⟩
      · -- a smaller statement: same target
        obtain ⟨pcR'', hkm, T''⟩ := tol_next TL h1 T'
        obtain ⟨k, hk⟩ := stepsN_of_msteps hkm
        have hfb' : FrBound hs' (Pk + 1) := hfb.step hfr.2.1 hpk hw (hliveOf k pcR'' hk T'')
        have hN' : (N + 1) * (M + 1) + stmtSize st'.stmt ≤ fuel := by omega
        obtain ⟨n', X'', hn', hX''⟩ := run3_progress hooks prog kc code nargs kc' hcomp hsafe htp hfit DX hprog Pk C A
          M hA hM hbytes fuel (N + 1) st' (outAfter o acc) cfg' hs' σ' kp' pcR'' out (Cb + A) hsafe' hcapr T'' R' hlet'
          hvals' hszM' hvalsM' hacc' (by omega) hfb' hcb' hC' (hP.step hst hk) hrun' hN'
        exact ⟨k + n', X'', by omega, hk.trans hX''⟩

end Run3P

end Scc.A64.ConcK
