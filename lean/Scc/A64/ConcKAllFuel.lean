/-
  Scc.A64.ConcKAllFuel — EVERY AMOUNT OF MACHINE FUEL on AArch64, runs that do not terminate included, ALL
  PROGRAMS (data types and closures): the AArch64 analogue of Scc/X86/ConcAllFuel.lean, ConcDataRun.lean,
  ConcKAllFuel.lean and ConcCC.lean.  Composition of the runs of ConcKC10.lean with the run loop `runProg`.
  * `programs_done_gen` — a terminating run of the positional machine: for EVERY fuel the machine is out of fuel
    or has returned the result, with the trace of the positional machine;
  * `programs_all_fuel_gen` — every amount of machine fuel, for any source of the peak hypothesis (the positional
    machine must not get stuck): `outOfFuel` or `done v`;
  * `programs_dsize_all` — … under a bound `D` on the fields of the object and closure values of the positional
    machine's environments, in ANY heap of at least `64·(D + A + 2)` bytes; the highest heap address written is at
    most `64·(D + A + 2)`;
  * `runProg_monitor_indep` — a run with the heap monitor ON ends as the run with the monitor OFF, or in a report
    of the HEAP monitor: the theorems above say, for EVERY monitor configuration, that the result is never a
    report of the calling-convention monitor (`ccSafe_of_monOff`).
-/
import Scc.A64.ConcKC10

set_option linter.unusedVariables false
set_option linter.unusedSimpArgs false

namespace Scc.A64.ConcK

open Scc Scc.AxCut Scc.AxCut.Pos Scc.Backend Scc.Backend.Abs Scc.Backend.Sim Scc.Backend.Subst Scc.A64 Scc.A64.Ref
open Scc.A64.CC
open Scc.Backend.Sim2 Scc.Backend.Keys
open Scc.Props.C14Generic (LabelSafe)
open Scc.Props.C06Generic (outAfter WithinCapacity Reachable EnoughHeap CodeFits statesOf stopsWithin)
open Scc.Heap (HState InvS InvW Exhausted)
open Scc.Heap.Refine (HRef FrLe Room FrPk)
open Scc.X86.Conc (FrBound LiveLe LiveLe0 stmtSize clausesSize valsFields run_eq_runState)
open Scc.X86.Ref.K (AllocLe AllocLeClauses ValAll)

/-! ## the heap monitor does not change the run -/

/-- the run with the heap monitor switched off -/
def monOff (m : MonCfg) : MonCfg := { m with heap := false }

/-- a run with the heap monitor ON ends as the run with the monitor OFF, or in a report of the HEAP monitor -/
theorem runLoop_monitor_indep (P : Prog) (m : MonCfg) : ∀ (f : Nat) (M M' : Machine), M.σ = M'.σ → M.pc = M'.pc →
    (runLoop P m f M).res = (runLoop P (monOff m) f M').res ∨ ∃ e ln, (runLoop P m f M).res = .invFail e ln
  | 0, _, _, _, _ => Or.inl rfl
  | f + 1, M, M', hσ, hpc => by
    cases hit : P.items[M.pc]? with
    | none =>
      have hlt : ¬ M.pc < P.items.size := by
        intro hlt; simp [hlt] at hit
      have hlt' : ¬ M'.pc < P.items.size := by rw [← hpc]; exact hlt
      left
      rw [runLoop, runLoop]
      simp only [hlt, hlt', dite_false, finish_res]
    | some it =>
      have hit' : P.items[M'.pc]? = some it := by rw [← hpc]; exact hit
      rw [runLoop_item hit, runLoop_item hit']
      cases it with
      | hook vs =>
        have hoff : (monOff m).heap = false := rfl
        simp only [hoff, Bool.false_eq_true, if_false]
        by_cases hh : m.heap = true
        · simp only [hh, if_true]
          cases heapMonitor m.mem M.σ vs with
          | error e => exact Or.inr ⟨e, _, rfl⟩
          | ok b => exact runLoop_monitor_indep P m f _ _ hσ (by simp only [hpc])
        · simp only [hh, Bool.false_eq_true, if_false]
          exact runLoop_monitor_indep P m f _ _ hσ (by simp only [hpc])
      | instr i =>
        have hmem : (monOff m).mem = m.mem := rfl
        simp only [hmem, ← hσ, ← hpc]
        cases step P m.mem i M.σ M.pc with
        | next σ1 pc1 => exact runLoop_monitor_indep P m f _ _ rfl rfl
        | print nl w σ1 pc1 => exact runLoop_monitor_indep P m f _ _ rfl rfl
        | stop r => exact Or.inl rfl

theorem runProg_monitor_indep (P : Prog) (args : List Word) (f : Nat) (m : MonCfg) :
    (runProg P args f m).res = (runProg P args f (monOff m)).res ∨
      ∃ e ln, (runProg P args f m).res = .invFail e ln := by
  unfold runProg
  cases P.labels["asm_main"]? with
  | none => exact Or.inl rfl
  | some j =>
    simp only
    split
    · exact Or.inl rfl
    · exact runLoop_monitor_indep P m f _ _ rfl rfl

/-- an outcome `outOfFuel` / `done v` of the run with the heap monitor off gives, for any setting of the heap
monitor, an outcome that is not a report of the calling-convention monitor -/
theorem ccSafe_of_monOff {P : Prog} {args : List Word} {f : Nat} {m : MonCfg}
    (h : (runProg P args f (monOff m)).res = .outOfFuel ∨ ∃ v, (runProg P args f (monOff m)).res = .done v) :
    (runProg P args f m).res = .outOfFuel ∨ (∃ v, (runProg P args f m).res = .done v) ∨
      ∃ what ln, m.heap = true ∧ (runProg P args f m).res = .invFail what ln := by
  cases hh : m.heap with
  | false =>
    have e : monOff m = m := by
      cases m; simp only [monOff] at *; rw [hh]
    rw [e] at h
    rcases h with h | h
    · exact Or.inl h
    · exact Or.inr (Or.inl h)
  | true =>
    rcases runProg_monitor_indep P args f m with h1 | ⟨e, ln, h1⟩
    · rw [h1]
      rcases h with h | h
      · exact Or.inl h
      · exact Or.inr (Or.inl h)
    · exact Or.inr (Or.inr ⟨e, ln, rfl, h1⟩)

theorem ccSafe_of_outcome {r : Res} {heap : Bool}
    (h : r = .outOfFuel ∨ (∃ v, r = .done v) ∨ ∃ what ln, heap = true ∧ r = .invFail what ln) : CCSafe r := by
  rcases h with h | ⟨v, h⟩ | ⟨e, ln, _, h⟩ <;> rw [h] <;> trivial

/-! ## a run that returns -/

/-- a run that ends with `done v` for some fuel is out of fuel or ends with `done v` for every fuel -/
theorem runLoop_res_of_done {P : Prog} {cfg : MonCfg} {v : Word} : ∀ (f0 : Nat) (M : Machine),
    (runLoop P cfg f0 M).res = .done v →
    ∀ f, (runLoop P cfg f M).res = .outOfFuel ∨ (runLoop P cfg f M).res = .done v
  | 0, M, h, _ => by cases h
  | f0 + 1, M, h, 0 => Or.inl rfl
  | f0 + 1, M, h, f + 1 => by
    cases hit : P.items[M.pc]? with
    | none =>
      have hlt : ¬ M.pc < P.items.size := by
        intro hlt; simp [hlt] at hit
      rw [runLoop] at h ⊢
      simp only [hlt, dite_false, finish_res] at h ⊢
      exact Or.inr h
    | some it =>
      rw [runLoop_item hit] at h ⊢
      cases it with
      | hook vs =>
        simp only at h ⊢
        split at h
        · rename_i hh
          rw [if_pos hh]
          cases hm : heapMonitor cfg.mem M.σ vs with
          | error e => rw [hm] at h; cases h
          | ok b =>
            rw [hm] at h
            exact runLoop_res_of_done f0 _ h f
        · rename_i hh
          rw [if_neg hh]
          exact runLoop_res_of_done f0 _ h f
      | instr i =>
        simp only at h ⊢
        cases hst : step P cfg.mem i M.σ M.pc with
        | next σ1 pc1 => rw [hst] at h; exact runLoop_res_of_done f0 _ h f
        | print nl w σ1 pc1 => rw [hst] at h; exact runLoop_res_of_done f0 _ h f
        | stop r => rw [hst] at h; exact Or.inr h

theorem runProg_res_of_done {P : Prog} {args : List Word} {cfg : MonCfg} {f0 : Nat} {v : Word}
    (h : (runProg P args f0 cfg).res = .done v) (f : Nat) :
    (runProg P args f cfg).res = .outOfFuel ∨ (runProg P args f cfg).res = .done v := by
  unfold runProg at h ⊢
  cases hl : P.labels["asm_main"]? with
  | none => rw [hl] at h; cases h
  | some j =>
    rw [hl] at h
    simp only at h ⊢
    split at h
    · cases h
    · rename_i hn
      rw [if_neg hn]
      exact runLoop_res_of_done f0 _ h f

/-! ## every amount of machine fuel -/

section Gen

variable (p : AxCut.Prog) (args : List Word) (hooks : Bool) (body routine : List Code)
  (nargs : Nat) (d0 : Def) (ops : List MockOp) (c' : Nat)
  (hsafe : LabelSafe p = true) (htp : LinTypedProg p) (hprog : K.ProgOK p)
  (hcompM : (compile mockSym hooks p).run 0 = .ok ((ops, nargs), c')) (hfit : CodeFits ops)
  (hcompX : compileProg a64Backend p hooks 0 = .ok (body, nargs, routine))
  (hnd : (labs routine).Nodup)
  (hd : p.defs.head? = some d0) (hentry : ∀ b ∈ d0.ctx, b.chi = .ext ∧ b.ty = .i64)
  (hlen : d0.ctx.length = args.length)
  (hcap : ∀ st, Reachable p ⟨d0.ctx, args.map .int, d0.body⟩ st → 2 * st.ctx.length ≤ 280)

include hsafe htp hprog hcompM hfit hcompX hnd hd hentry hlen hcap in
/-- A TERMINATING RUN ON THE RUN LOOP (heap monitor off), for any source of the peak hypothesis: there is an
amount `N` of fuel such that with more fuel the machine returns the result of the positional machine with its
trace, and with at most `N` it is out of fuel -/
theorem programs_done_gen (fuel : Nat) (out : List (Bool × Word)) (v : Word) (hfuel : fuel + 1 < 2 ^ 64)
    (hrun : Pos.run p args fuel = ⟨out, .done v⟩)
    (cfg : MonCfg) (H : CfgCC cfg.mem) (hheap : cfg.heap = false)
    (hb8 : cfg.mem.heapBase % 8 = 0) (hb0 : 0 < cfg.mem.heapBase)
    (Pk A : Nat) (hA : ∀ d ∈ p.defs, AllocLe A d.body) (hbytes : 64 * (Pk + A + 2) ≤ cfg.mem.heapBytes)
    {hk : Code → Bool} {P : Prog} (HB : K.HoldsB hk P routine)
    (hfitX : cfg.mem.codeBase + 4 * ninstr routine < 2 ^ 64)
    (hPH : PeakHyp p hooks routine ops cfg.mem hk P args d0 Pk (A * fuel + 1)) :
    ∃ N, (∀ f, f ≤ N → (runProg P args f cfg).res = .outOfFuel) ∧
      ∀ f, N < f → (runProg P args f cfg).out = out ∧ (runProg P args f cfg).res = .done v := by
  obtain ⟨hmain, hargs, n0, X0, n, XL, h0, _, h1, hret, hx, hout⟩ := programs_run_gen p args hooks body routine nargs
    d0 ops c' hsafe htp hprog hcompM hfit hcompX hnd hd hentry hlen hcap fuel out v hfuel hrun cfg.mem H hb8 hb0 Pk A
    hA hbytes HB hfitX hPH
  have hN := h0.trans h1
  refine ⟨n0 + n, fun f hf => runProg_outOfFuel hheap hmain hargs hN hf, fun f hf => ?_⟩
  obtain ⟨s', hs'⟩ := runProg_stepsN hheap hmain hargs hN
  obtain ⟨g, rfl⟩ : ∃ g, f = n0 + n + (g + 1) := ⟨f - (n0 + n) - 1, by omega⟩
  rw [hs' (g + 1)]
  obtain ⟨e1, e2⟩ := runLoop_ret (cfg := cfg) hret hx XL.out s' 0 g
  exact ⟨by rw [← hout]; exact e1, e2⟩

include hsafe htp hprog hcompM hfit hcompX hnd hd hentry hlen hcap in
/-- EVERY AMOUNT OF MACHINE FUEL (heap monitor off), all programs, for any source of the peak hypothesis: the
result of the machine on a program that holds the routine is `outOfFuel`, or `done v` with `v` the result of the
positional machine — provided the positional machine never gets stuck (no division by zero / overflow) -/
theorem programs_all_fuel_gen (hnostuck : ∀ fuel w, (Pos.run p args fuel).res ≠ .stuck w)
    (cfg : MonCfg) (H : CfgCC cfg.mem) (hheap : cfg.heap = false)
    (hb8 : cfg.mem.heapBase % 8 = 0) (hb0 : 0 < cfg.mem.heapBase)
    (Pk A M : Nat) (hA : ∀ d ∈ p.defs, AllocLe A d.body) (hM : ∀ d ∈ p.defs, stmtSize d.body ≤ M)
    (hbytes : 64 * (Pk + A + 2) ≤ cfg.mem.heapBytes)
    {hk : Code → Bool} {P : Prog} (HB : K.HoldsB hk P routine)
    (hfitX : cfg.mem.codeBase + 4 * ninstr routine < 2 ^ 64)
    (fuel' : Nat) (hf : fuel' * (M + 1) + stmtSize d0.body + 1 < 2 ^ 64)
    (hPH : PeakHyp p hooks routine ops cfg.mem hk P args d0 Pk (A * (fuel' * (M + 1) + stmtSize d0.body) + 1)) :
    (runProg P args fuel' cfg).res = .outOfFuel ∨
      ∃ v out, Pos.run p args (fuel' * (M + 1) + stmtSize d0.body) = ⟨out, .done v⟩ ∧
        (runProg P args fuel' cfg).res = .done v := by
  have hrs := run_eq_runState hd hlen (fuel' * (M + 1) + stmtSize d0.body)
  cases hres : Pos.run p args (fuel' * (M + 1) + stmtSize d0.body) with
  | mk out res =>
  cases res with
  | stuck w => exact absurd (by rw [hres]) (hnostuck (fuel' * (M + 1) + stmtSize d0.body) w)
  | done v =>
    obtain ⟨N, h1, h2⟩ := programs_done_gen p args hooks body routine nargs d0 ops c' hsafe htp hprog hcompM hfit
      hcompX hnd hd hentry hlen hcap _ out v hf hres cfg H hheap hb8 hb0 Pk A hA hbytes HB hfitX hPH
    by_cases hle : fuel' ≤ N
    · exact Or.inl (h1 fuel' hle)
    · exact Or.inr ⟨v, out, rfl, (h2 fuel' (by omega)).2⟩
  | outOfFuel =>
    left
    rw [hrs] at hres
    obtain ⟨hmain, hargs, n, X, hn, hX⟩ := programs_progress_gen p args hooks body routine nargs d0 ops c' hsafe htp
      hprog hcompM hfit hcompX hnd hd hentry hlen hcap _ hf cfg.mem H hb8 hb0 Pk A M hA hM hbytes HB hfitX hPH out
      hres fuel' (Nat.le_refl _)
    exact runProg_outOfFuel hheap hmain hargs hX hn

include hsafe htp hprog hcompM hfit hcompX hnd hd hentry hlen hcap in
/-- EVERY AMOUNT OF MACHINE FUEL under a bound `D` on the fields of the object and closure values of the
positional machine's environments, all programs: the machine on a program that holds the routine, in ANY heap
of at least `64·(D + A + 2)` bytes, ends in `outOfFuel` or in `done v` (the result of the positional machine), and
never writes above `64·(D + A + 2)` bytes of its heap -/
theorem programs_dsize_all (hnostuck : ∀ fuel w, (Pos.run p args fuel).res ≠ .stuck w)
    (D : Nat) (hD : ∀ st, Reachable p ⟨d0.ctx, args.map .int, d0.body⟩ st → valsFields st.env ≤ D)
    (cfg : MonCfg) (H : CfgCC cfg.mem) (hheap : cfg.heap = false)
    (hb8 : cfg.mem.heapBase % 8 = 0) (hb0 : 0 < cfg.mem.heapBase)
    (A M : Nat) (hA : ∀ d ∈ p.defs, AllocLe A d.body) (hM : ∀ d ∈ p.defs, stmtSize d.body ≤ M)
    (hbytes : 64 * (D + A + 2) ≤ cfg.mem.heapBytes)
    {hk : Code → Bool} {P : Prog} (HB : K.HoldsB hk P routine)
    (hfitX : cfg.mem.codeBase + 4 * ninstr routine < 2 ^ 64)
    (fuel' : Nat) (hf : fuel' * (M + 1) + stmtSize d0.body + 1 < 2 ^ 64) :
    ((runProg P args fuel' cfg).res = .outOfFuel ∨
      ∃ v out, Pos.run p args (fuel' * (M + 1) + stmtSize d0.body) = ⟨out, .done v⟩ ∧
        (runProg P args fuel' cfg).res = .done v) ∧
    (runProg P args fuel' cfg).maxHeapWritten ≤ 64 * (D + A + 2) := by
  -- the run in the heap cut down to `64·(D + A + 2)` bytes
  have Ht := cfgCC_withHeapBytes H hbytes
  have hmt := runProg_mhw P args fuel' (withHeapBytes cfg (64 * (D + A + 2))) hheap
  have htight := programs_all_fuel_gen p args hooks body routine nargs d0 ops c' hsafe htp hprog hcompM hfit hcompX
    hnd hd hentry hlen hcap hnostuck (withHeapBytes cfg (64 * (D + A + 2))) Ht hheap hb8 hb0 D A M hA hM
    (Nat.le_refl _) HB hfitX fuel' hf (peakHyp_of_data hD)
  have e := runProg_larger_heap (P := P) (sub_withHeapBytes H hbytes) hheap hheap args fuel' (by
    rcases htight with h | ⟨v, _, _, h⟩
    · exact Or.inl h
    · exact Or.inr ⟨v, h⟩)
  rw [e]
  exact ⟨htight, hmt⟩

end Gen

end Scc.A64.ConcK
