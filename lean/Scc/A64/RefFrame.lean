/-
  Scc.A64.RefFrame — FOOTPRINT lemmas for Theorem B (AArch64):
  * `core_execCodes`: straight-line code made of plain instructions of integer programs (`CC.plainInt`:
    no call / return / writeback pair, SP not written, memory operands SP-relative inside the spill area)
    keeps the boundary invariant `CC.Core` (SP, callee-save area);
  * `execCode_regs` / `execCodes_regs`: a machine register that no instruction of the list writes
    (`codeWrites`) keeps its content;
  * what the per-method frames `Frame` / `Frame0` (OpLemmas / MoveLemmas) mean for temporaries.
-/
import Scc.A64.RefBridge
import Scc.A64.MoveLemmas

set_option linter.unusedVariables false
set_option linter.unusedSimpArgs false

namespace Scc.A64.Ref

open Scc.A64 Scc.A64.CC Scc.AxCut

/-! ## plain code keeps `Core` -/

theorem jumpRef_exec_error {c : MemCfg} {code : Code} {l : String} (hj : codeJumpRef code = some l)
    (σ : State) : ∃ e, execCode c code σ = .error e := by
  cases code <;> simp only [codeJumpRef, Option.some.injEq] at hj <;> try (cases hj; done)
  all_goals exact ⟨_, rfl⟩

theorem core_execCode {c : MemCfg} (H : CfgCC c) {σ σ' : State} {code : Code} (C : Core c σ)
    (hp : plainInt code = true) (hx : execCode c code σ = .ok σ') : Core c σ' := by
  cases hj : codeJumpRef code with
  | some l =>
    obtain ⟨e, he⟩ := jumpRef_exec_error (c := c) hj σ
    rw [he] at hx; cases hx
  | none =>
    have := plain_exec H C hp hj
    rw [hx] at this
    exact this

theorem core_execCodes {c : MemCfg} (H : CfgCC c) : ∀ (l : List Code) {σ σ' : State}, Core c σ →
    AllInt l → execCodes c l σ = .ok σ' → Core c σ'
  | [], σ, σ', C, _, hx => by
    simp only [execCodes, Except.ok.injEq] at hx; subst hx; exact C
  | code :: rest, σ, σ', C, hall, hx => by
    simp only [AllInt, List.all_cons, Bool.and_eq_true] at hall
    simp only [execCodes] at hx
    cases h1 : execCode c code σ with
    | error e => simp [h1] at hx
    | ok σ1 =>
      simp only [h1] at hx
      exact core_execCodes H rest (core_execCode H C hall.1 h1) hall.2 hx

/-! ## registers that are not written -/

/-- does the backend instruction write the machine register `m`? -/
def writesX (code : Code) (m : Fin 31) : Prop := ∃ r ∈ codeWrites code, r.toReg = some (.x m)

theorem wrZ_reg {σ σ' : State} {r : Reg} {w : Word} (h : σ.wrZ r w = .ok σ') (m : Fin 31) (hm : r ≠ .x m) :
    σ'.reg m = σ.reg m := by
  cases r with
  | x n =>
    cases h
    have : n ≠ m := fun e => hm (by rw [e])
    rw [wrX_eq_setReg, setReg_reg, if_neg this]
  | xzr => cases h; rfl
  | sp => cases h

theorem putZ_reg {σ σ' : State} {r : Reg} {w : Option Word} (h : σ.putZ r w = .ok σ') (m : Fin 31)
    (hm : r ≠ .x m) : σ'.reg m = σ.reg m := by
  cases r with
  | x n =>
    cases h
    have : n ≠ m := fun e => hm (by rw [e])
    show (σ.setReg n w).reg m = _
    rw [setReg_reg, if_neg this]
  | xzr => cases h; rfl
  | sp => cases h

theorem wrS_reg {σ σ' : State} {r : Reg} {w : Word} (h : σ.wrS r w = .ok σ') (m : Fin 31) (hm : r ≠ .x m) :
    σ'.reg m = σ.reg m := by
  cases r with
  | x n =>
    cases h
    have : n ≠ m := fun e => hm (by rw [e])
    rw [wrX_eq_setReg, setReg_reg, if_neg this]
  | sp => cases h; rfl
  | xzr => cases h

theorem store_reg {c : MemCfg} {σ σ' : State} {a : Nat} {w : Option Word} (h : σ.store c a w = .ok σ')
    (m : Fin 31) : σ'.reg m = σ.reg m := by
  unfold State.store at h
  split at h
  · cases h
  · split at h
    · cases w <;> simp only [] at h <;> cases h; rfl
    · split at h
      · cases w <;> simp only [] at h <;> cases h <;> rfl
      · cases h

/-- the destination registers of a machine instruction -/
def Instr.dst : Instr → List Reg
  | .add d _ _ | .sub d _ _ | .mul d _ _ | .sdiv d _ _ | .msub d _ _ _ | .addi d _ _ | .subi d _ _
  | .mov d _ | .movz d _ _ | .movn d _ _ | .movk d _ _ | .ldr d _ _ => [d]
  | .ldpPost t1 t2 n _ => [t1, t2, n]
  | .stpPre _ _ n _ => [n]
  | _ => []

theorem exec_regs {c : MemCfg} {σ σ' : State} {i : Instr} (h : i.exec c σ = .ok σ') (m : Fin 31)
    (hm : Reg.x m ∉ Instr.dst i) : σ'.reg m = σ.reg m := by
  cases i <;> simp only [Instr.dst, List.mem_cons, List.not_mem_nil, or_false, not_or] at hm <;>
    simp only [Instr.exec] at h
  case add d n k =>
    obtain ⟨a, _, h⟩ := bind_ok_inv h; obtain ⟨b, _, h⟩ := bind_ok_inv h
    exact wrZ_reg h m (Ne.symm hm)
  case sub d n k =>
    obtain ⟨a, _, h⟩ := bind_ok_inv h; obtain ⟨b, _, h⟩ := bind_ok_inv h
    exact wrZ_reg h m (Ne.symm hm)
  case mul d n k =>
    obtain ⟨a, _, h⟩ := bind_ok_inv h; obtain ⟨b, _, h⟩ := bind_ok_inv h
    exact wrZ_reg h m (Ne.symm hm)
  case sdiv d n k =>
    obtain ⟨a, _, h⟩ := bind_ok_inv h; obtain ⟨b, _, h⟩ := bind_ok_inv h; obtain ⟨q, _, h⟩ := bind_ok_inv h
    exact wrZ_reg h m (Ne.symm hm)
  case msub d n k a =>
    obtain ⟨x, _, h⟩ := bind_ok_inv h; obtain ⟨y, _, h⟩ := bind_ok_inv h; obtain ⟨z, _, h⟩ := bind_ok_inv h
    exact wrZ_reg h m (Ne.symm hm)
  case addi d n imm =>
    split at h
    · obtain ⟨a, _, h⟩ := bind_ok_inv h
      exact wrS_reg h m (Ne.symm hm)
    · cases h
  case subi d n imm =>
    split at h
    · obtain ⟨a, _, h⟩ := bind_ok_inv h
      exact wrS_reg h m (Ne.symm hm)
    · cases h
  case mov d s =>
    split at h
    · obtain ⟨a, _, h⟩ := bind_ok_inv h
      exact wrS_reg h m (Ne.symm hm)
    · obtain ⟨a, _, h⟩ := bind_ok_inv h
      exact wrS_reg h m (Ne.symm hm)
    · obtain ⟨a, _, h⟩ := bind_ok_inv h
      exact putZ_reg h m (Ne.symm hm)
  case movz d imm sh =>
    split at h
    · exact wrZ_reg h m (Ne.symm hm)
    · cases h
  case movn d imm sh =>
    split at h
    · exact wrZ_reg h m (Ne.symm hm)
    · cases h
  case movk d imm sh =>
    split at h
    · obtain ⟨a, _, h⟩ := bind_ok_inv h
      exact wrZ_reg h m (Ne.symm hm)
    · cases h
  case ldr t n imm =>
    split at h
    · obtain ⟨a, _, h⟩ := bind_ok_inv h; obtain ⟨w, _, h⟩ := bind_ok_inv h
      exact putZ_reg h m (Ne.symm hm)
    · cases h
  case str t n imm =>
    split at h
    · obtain ⟨a, _, h⟩ := bind_ok_inv h; obtain ⟨w, _, h⟩ := bind_ok_inv h
      exact store_reg h m
    · cases h
  case stpPre t1 t2 n imm =>
    split at h
    · cases h
    · split at h
      · cases h
      · obtain ⟨b, _, h⟩ := bind_ok_inv h; obtain ⟨w1, _, h⟩ := bind_ok_inv h
        obtain ⟨w2, _, h⟩ := bind_ok_inv h; obtain ⟨σ1, h1, h⟩ := bind_ok_inv h
        obtain ⟨σ2, h2, h⟩ := bind_ok_inv h
        rw [wrS_reg h m (Ne.symm hm), store_reg h2 m, store_reg h1 m]
  case ldpPost t1 t2 n imm =>
    split at h
    · cases h
    · split at h
      · cases h
      · obtain ⟨b, _, h⟩ := bind_ok_inv h; obtain ⟨w1, _, h⟩ := bind_ok_inv h
        obtain ⟨w2, _, h⟩ := bind_ok_inv h; obtain ⟨σ1, h1, h⟩ := bind_ok_inv h
        obtain ⟨σ2, h2, h⟩ := bind_ok_inv h
        rw [wrS_reg h m (Ne.symm hm.2.2), putZ_reg h2 m (Ne.symm hm.2.1), putZ_reg h1 m (Ne.symm hm.1)]
  case cmp n k =>
    obtain ⟨a, _, h⟩ := bind_ok_inv h; obtain ⟨b, _, h⟩ := bind_ok_inv h
    cases h; rfl
  case cmpi n imm =>
    split at h
    · obtain ⟨a, _, h⟩ := bind_ok_inv h
      cases h; rfl
    · cases h
  all_goals cases h

/-- the destinations of the machine instruction are the registers the backend instruction writes -/
theorem dst_of_toInstr {code : Code} {i : Instr} (ht : code.toInstr = some i) :
    ∀ r ∈ Instr.dst i, ∃ x ∈ codeWrites code, x.toReg = some r := by
  cases code <;> simp only [Code.toInstr, bind, Option.bind] at ht
  all_goals first
    | (cases ht; done)
    | skip
  case ADD x y z =>
    obtain ⟨a, ha, ht⟩ := obind_some ht; obtain ⟨b, _, ht⟩ := obind_some ht; obtain ⟨d, _, ht⟩ := obind_some ht
    cases ht; intro r hr; simp only [Instr.dst, List.mem_singleton] at hr; subst hr
    exact ⟨x, by simp [codeWrites], ha⟩
  case SUB x y z =>
    obtain ⟨a, ha, ht⟩ := obind_some ht; obtain ⟨b, _, ht⟩ := obind_some ht; obtain ⟨d, _, ht⟩ := obind_some ht
    cases ht; intro r hr; simp only [Instr.dst, List.mem_singleton] at hr; subst hr
    exact ⟨x, by simp [codeWrites], ha⟩
  case MUL x y z =>
    obtain ⟨a, ha, ht⟩ := obind_some ht; obtain ⟨b, _, ht⟩ := obind_some ht; obtain ⟨d, _, ht⟩ := obind_some ht
    cases ht; intro r hr; simp only [Instr.dst, List.mem_singleton] at hr; subst hr
    exact ⟨x, by simp [codeWrites], ha⟩
  case SDIV x y z =>
    obtain ⟨a, ha, ht⟩ := obind_some ht; obtain ⟨b, _, ht⟩ := obind_some ht; obtain ⟨d, _, ht⟩ := obind_some ht
    cases ht; intro r hr; simp only [Instr.dst, List.mem_singleton] at hr; subst hr
    exact ⟨x, by simp [codeWrites], ha⟩
  case MSUB x y z v =>
    obtain ⟨a, ha, ht⟩ := obind_some ht; obtain ⟨b, _, ht⟩ := obind_some ht; obtain ⟨d, _, ht⟩ := obind_some ht
    obtain ⟨e, _, ht⟩ := obind_some ht
    cases ht; intro r hr; simp only [Instr.dst, List.mem_singleton] at hr; subst hr
    exact ⟨x, by simp [codeWrites], ha⟩
  case ADDI x y imm =>
    obtain ⟨a, ha, ht⟩ := obind_some ht; obtain ⟨b, _, ht⟩ := obind_some ht
    cases ht; intro r hr; simp only [Instr.dst, List.mem_singleton] at hr; subst hr
    exact ⟨x, by simp [codeWrites], ha⟩
  case SUBI x y imm =>
    obtain ⟨a, ha, ht⟩ := obind_some ht; obtain ⟨b, _, ht⟩ := obind_some ht
    cases ht; intro r hr; simp only [Instr.dst, List.mem_singleton] at hr; subst hr
    exact ⟨x, by simp [codeWrites], ha⟩
  case MOVR x y =>
    obtain ⟨a, ha, ht⟩ := obind_some ht; obtain ⟨b, _, ht⟩ := obind_some ht
    cases ht; intro r hr; simp only [Instr.dst, List.mem_singleton] at hr; subst hr
    exact ⟨x, by simp [codeWrites], ha⟩
  case MOVZ x imm s =>
    obtain ⟨a, ha, ht⟩ := obind_some ht
    cases ht; intro r hr; simp only [Instr.dst, List.mem_singleton] at hr; subst hr
    exact ⟨x, by simp [codeWrites], ha⟩
  case MOVN x imm s =>
    obtain ⟨a, ha, ht⟩ := obind_some ht
    cases ht; intro r hr; simp only [Instr.dst, List.mem_singleton] at hr; subst hr
    exact ⟨x, by simp [codeWrites], ha⟩
  case MOVK x imm s =>
    obtain ⟨a, ha, ht⟩ := obind_some ht
    cases ht; intro r hr; simp only [Instr.dst, List.mem_singleton] at hr; subst hr
    exact ⟨x, by simp [codeWrites], ha⟩
  case LDR x b imm =>
    obtain ⟨a, ha, ht⟩ := obind_some ht; obtain ⟨d, _, ht⟩ := obind_some ht
    cases ht; intro r hr; simp only [Instr.dst, List.mem_singleton] at hr; subst hr
    exact ⟨x, by simp [codeWrites], ha⟩
  case STR x b imm =>
    obtain ⟨a, ha, ht⟩ := obind_some ht; obtain ⟨d, _, ht⟩ := obind_some ht
    cases ht; intro r hr; simp [Instr.dst] at hr
  case CMPR x y =>
    obtain ⟨a, ha, ht⟩ := obind_some ht; obtain ⟨b, _, ht⟩ := obind_some ht
    cases ht; intro r hr; simp [Instr.dst] at hr
  case CMPI x imm =>
    obtain ⟨a, ha, ht⟩ := obind_some ht
    cases ht; intro r hr; simp [Instr.dst] at hr
  case BR x =>
    obtain ⟨a, ha, ht⟩ := obind_some ht
    cases ht; intro r hr; simp [Instr.dst] at hr
  case ADR x l =>
    obtain ⟨a, ha, ht⟩ := obind_some ht
    cases ht; intro r hr; simp [Instr.dst] at hr
  case LDP_POST_INDEX r1 r2 b imm =>
    obtain ⟨a, ha, ht⟩ := obind_some ht; obtain ⟨d, hd, ht⟩ := obind_some ht; obtain ⟨e, he, ht⟩ := obind_some ht
    cases ht; intro r hr
    simp only [Instr.dst, List.mem_cons, List.not_mem_nil, or_false] at hr
    rcases hr with rfl | rfl | rfl
    · exact ⟨r1, by simp [codeWrites], ha⟩
    · exact ⟨r2, by simp [codeWrites], hd⟩
    · exact ⟨b, by simp [codeWrites], he⟩
  case STP_PRE_INDEX r1 r2 b imm =>
    obtain ⟨a, ha, ht⟩ := obind_some ht; obtain ⟨d, hd, ht⟩ := obind_some ht; obtain ⟨e, he, ht⟩ := obind_some ht
    cases ht; intro r hr
    simp only [Instr.dst, List.mem_singleton] at hr; subst hr
    exact ⟨b, by simp [codeWrites], he⟩
  all_goals (cases ht; intro r hr; simp [Instr.dst] at hr)

/-- a machine register that the backend instruction does not write keeps its content -/
theorem execCode_regs {c : MemCfg} {σ σ' : State} {code : Code} (hx : execCode c code σ = .ok σ') (m : Fin 31)
    (hm : ¬ writesX code m) : σ'.reg m = σ.reg m := by
  by_cases hmeta : code.isMeta = true
  · rw [execCode_meta hmeta] at hx; cases hx; rfl
  · have hm' : code.isMeta = false := by simpa using hmeta
    cases ht : code.toInstr with
    | none => rw [execCode_noInstr hm' ht] at hx; cases hx
    | some i =>
      rw [execCode_of_toInstr σ ht] at hx
      apply exec_regs hx m
      intro hmem
      obtain ⟨x, hx1, hx2⟩ := dst_of_toInstr ht _ hmem
      exact hm ⟨x, hx1, hx2⟩

theorem execCodes_regs {c : MemCfg} : ∀ (l : List Code) {σ σ' : State}, execCodes c l σ = .ok σ' →
    ∀ m : Fin 31, (∀ code ∈ l, ¬ writesX code m) → σ'.reg m = σ.reg m
  | [], σ, σ', hx, m, _ => by simp only [execCodes, Except.ok.injEq] at hx; subst hx; rfl
  | code :: rest, σ, σ', hx, m, hm => by
    simp only [execCodes] at hx
    cases h1 : execCode c code σ with
    | error e => simp [h1] at hx
    | ok σ1 =>
      simp only [h1] at hx
      rw [execCodes_regs rest hx m (fun x hx' => hm x (by simp [hx'])),
        execCode_regs h1 m (hm code (by simp))]

/-! ## the per-method frames on temporaries -/

theorem tempVal_var_reg {σ : State} {r : Nat} (h : (Temporary.register (.x r)).isVar) :
    ∃ n : Fin 31, xreg r = some n ∧ 4 ≤ n.val ∧ σ.tempVal (.register (.x r)) = σ.reg n := by
  obtain ⟨h1, h2⟩ := isVar_reg h
  obtain ⟨n, hn, h4⟩ := xreg_var h1 h2
  exact ⟨n, hn, h4, tempVal_reg hn⟩

/-- a variable temporary other than the target keeps its content -/
theorem _root_.Scc.A64.Frame.temp {σ σ' : State} {t u : Temporary} (F : Frame σ σ' t) (hu : u.isVar)
    (hne : u ≠ t) : σ'.tempVal u = σ.tempVal u := by
  cases u with
  | register reg =>
    cases reg with
    | x r =>
      obtain ⟨n, hn, h4, _⟩ := tempVal_var_reg (σ := σ) hu
      rw [tempVal_reg hn, tempVal_reg hn]
      apply F.regs n
      · intro e; rw [e] at h4; exact absurd h4 (by decide)
      · intro e; rw [e] at h4; exact absurd h4 (by decide)
      · intro e
        cases t with
        | register treg =>
          cases treg with
          | x rt =>
            simp only [Temporary.archReg] at e
            exact hne (by rw [xreg_inj hn e])
          | sp => simp [Temporary.archReg] at e
          | xzr => simp [Temporary.archReg] at e
        | spill p => simp [Temporary.archReg] at e
    | sp => simp [Temporary.isVar] at hu
    | xzr => simp [Temporary.isVar] at hu
  | spill q =>
    obtain ⟨h1, h2⟩ := isVar_spill hu
    rw [tempVal_spill, tempVal_spill]
    have : σ'.slotAddr q = σ.slotAddr q := by simp [State.slotAddr, F.sp]
    rw [this]
    exact F.slots q h1 h2 (fun e => hne e.symm)

/-- X0 and X1 (HEAP / RETURN1, FREE / RETURN2) are outside every frame of a variable temporary -/
theorem _root_.Scc.A64.Frame.low {σ σ' : State} {t : Temporary} (F : Frame σ σ' t) (ht : t.isVar) (m : Fin 31)
    (hm : m.val < 2) : σ'.reg m = σ.reg m := by
  apply F.regs m
  · intro e; rw [e] at hm; exact absurd hm (by decide)
  · intro e; rw [e] at hm; exact absurd hm (by decide)
  · intro e
    cases t with
    | register treg =>
      cases treg with
      | x rt =>
        obtain ⟨n, hn, h4, _⟩ := tempVal_var_reg (σ := σ) ht
        simp only [Temporary.archReg] at e
        rw [hn] at e; cases e; omega
      | sp => simp [Temporary.archReg] at e
      | xzr => simp [Temporary.archReg] at e
    | spill p => simp [Temporary.archReg] at e

theorem _root_.Scc.A64.Frame0.temp {σ σ' : State} (F : Frame0 σ σ') {u : Temporary} (hu : u.isVar) :
    σ'.tempVal u = σ.tempVal u := by
  cases u with
  | register reg =>
    cases reg with
    | x r =>
      obtain ⟨n, hn, h4, _⟩ := tempVal_var_reg (σ := σ) hu
      rw [tempVal_reg hn, tempVal_reg hn]
      apply F.regs n
      · intro e; rw [e] at h4; exact absurd h4 (by decide)
      · intro e; rw [e] at h4; exact absurd h4 (by decide)
    | sp => simp [Temporary.isVar] at hu
    | xzr => simp [Temporary.isVar] at hu
  | spill q =>
    rw [tempVal_spill, tempVal_spill]
    have : σ'.slotAddr q = σ.slotAddr q := by simp [State.slotAddr, F.sp]
    rw [this]
    exact F.slots _

end Scc.A64.Ref
