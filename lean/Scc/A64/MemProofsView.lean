/-
  Scc.A64.MemProofsView — the MEMORY-LEVEL VIEW of the AArch64 machine (Machine.lean / Exec.lean) on
  which the contracts of memory.rs are proved (same architecture as Scc/X86/MemProofsView.lean).

  A view state `MState` is: the contents of every temporary (logical registers X0..X29 — including the
  reserved HEAP, FREE, TEMP, TEMP2 — and the spill slots 0..255 of the frame), the flags, and the heap
  as a total function from byte addresses to words.  `mexec` gives the semantics of the instruction
  forms that memory.rs emits — register moves, SP-relative spill accesses `[SP, stack_offset p]`, HEAP
  accesses `[Xb, off]` through a register holding a heap address (`maddr`: encodable offset, aligned,
  inside the heap region), `ADD`/`SUB` immediate, `CMP` immediate, `MOVZ` — and `mFwd` runs a block
  with forward local labels exactly like `execFwd` (MemProofsFwd.lean).

  `msim_fwd`: whatever the view executes, the machine executes with the same effect (`MRep`), leaving
  SP and all stack memory outside the spill area unchanged (`Inert`).  So a contract proved on the
  view — plain functional states, no `Vector`/`HashMap`, no address arithmetic for spill slots — is a
  contract of the machine (`m_to_machine`).
-/
import Scc.A64.MemProofsFwd
import Scc.A64.StackLemmas

set_option linter.unusedSimpArgs false
set_option linter.unusedVariables false

namespace Scc.A64

open Scc.AxCut

/-! ## view states -/

structure MState where
  val : Temporary → Option Word
  flags : Option (Word × Word)
  heap : Nat → Word

def MState.setT (μ : MState) (t : Temporary) (v : Option Word) : MState :=
  { μ with val := fun u => if u = t then v else μ.val u }

def MState.setH (μ : MState) (a : Nat) (w : Word) : MState :=
  { μ with heap := fun b => if b = a then w else μ.heap b }

def MState.setF (μ : MState) (f : Option (Word × Word)) : MState := { μ with flags := f }

@[simp] theorem MState.setT_val (μ : MState) (t u : Temporary) (v : Option Word) :
    (μ.setT t v).val u = if u = t then v else μ.val u := rfl
@[simp] theorem MState.setT_flags (μ : MState) (t : Temporary) (v : Option Word) :
    (μ.setT t v).flags = μ.flags := rfl
@[simp] theorem MState.setT_heap (μ : MState) (t : Temporary) (v : Option Word) :
    (μ.setT t v).heap = μ.heap := rfl
@[simp] theorem MState.setH_val (μ : MState) (a : Nat) (w : Word) : (μ.setH a w).val = μ.val := rfl
@[simp] theorem MState.setH_flags (μ : MState) (a : Nat) (w : Word) : (μ.setH a w).flags = μ.flags := rfl
@[simp] theorem MState.setH_heap (μ : MState) (a b : Nat) (w : Word) :
    (μ.setH a w).heap b = if b = a then w else μ.heap b := rfl
@[simp] theorem MState.setF_val (μ : MState) (f : Option (Word × Word)) : (μ.setF f).val = μ.val := rfl
@[simp] theorem MState.setF_flags (μ : MState) (f : Option (Word × Word)) : (μ.setF f).flags = f := rfl
@[simp] theorem MState.setF_heap (μ : MState) (f : Option (Word × Word)) : (μ.setF f).heap = μ.heap := rfl
@[simp] theorem MState.setH_setF (μ : MState) (f : Option (Word × Word)) (a : Nat) (w : Word) :
    (μ.setF f).setH a w = (μ.setH a w).setF f := rfl
@[simp] theorem MState.setT_setF (μ : MState) (f : Option (Word × Word)) (t : Temporary) (v : Option Word) :
    (μ.setF f).setT t v = (μ.setT t v).setF f := rfl
@[simp] theorem MState.setF_setF (μ : MState) (f g : Option (Word × Word)) : (μ.setF f).setF g = μ.setF g := rfl

/-- the temporaries of the view: logical registers `X(r)`, r < 30 (X0 … X17, X19 … X30 of the
machine), and the spill slots of the frame -/
def OpndOK : Temporary → Prop
  | .register (.x r) => r < 30
  | .register _ => False
  | .spill p => p < 256

/-- register operand -/
def regOpnd : Register → Option Temporary
  | .x r => if r < 30 then some (.register (.x r)) else none
  | _ => none

/-- spill operand `[SP, i]`: `i = stack_offset p` for a slot `p < 256` -/
def spillOpnd (i : Int) : Option Temporary :=
  if 0 ≤ i ∧ i ≤ 2040 ∧ i % 8 = 0 then some (.spill ((2040 - i) / 8).toNat) else none

theorem spillOpnd_stackOffset {p : Nat} (hp : p < 256) : spillOpnd (stackOffset p) = some (.spill p) := by
  have h1 : stackOffset p = 2040 - 8 * (p : Int) := by rw [stackOffset_eq]; omega
  unfold spillOpnd
  rw [h1]
  have h2 : (0 : Int) ≤ 2040 - 8 * (p : Int) ∧ 2040 - 8 * (p : Int) ≤ 2040 ∧ (2040 - 8 * (p : Int)) % 8 = 0 := by
    omega
  rw [if_pos h2]
  have h3 : ((2040 - (2040 - 8 * (p : Int))) / 8).toNat = p := by omega
  rw [h3]

theorem regOpnd_of {r : Nat} (h : r < 30) : regOpnd (.x r) = some (.register (.x r)) := by
  simp [regOpnd, h]

theorem regOpnd_spec {x : Register} {d : Temporary} (h : regOpnd x = some d) :
    ∃ r, x = .x r ∧ d = .register (.x r) ∧ r < 30 := by
  cases x with
  | x r =>
    simp only [regOpnd] at h
    split at h
    · rename_i hr; injection h with h; exact ⟨r, rfl, h.symm, hr⟩
    · cases h
  | sp => cases h
  | xzr => cases h

theorem spillOpnd_spec {i : Int} {d : Temporary} (h : spillOpnd i = some d) :
    ∃ p, d = .spill p ∧ p < 256 ∧ i = stackOffset p := by
  unfold spillOpnd at h
  split at h
  · rename_i hc
    injection h with h
    refine ⟨((2040 - i) / 8).toNat, h.symm, by omega, ?_⟩
    rw [stackOffset_eq]; omega
  · cases h

/-- the word `x + i` as a heap address: the offset encodable (`okOff`), the sum 8-aligned and inside
the heap region -/
def haddr (c : MemCfg) (x : Word) (i : Int) : Option Nat :=
  if okOff i = true ∧ (x + imm i).toNat % 8 = 0 ∧ inHeap c (x + imm i).toNat = true then
    some (x + imm i).toNat
  else none

/-- heap address `[b, i]`: `b` a register holding a defined word -/
def maddr (c : MemCfg) (μ : MState) (b : Register) (i : Int) : Option Nat :=
  match b with
  | .x r =>
    if r < 30 then
      match μ.val (.register (.x r)) with
      | some x => haddr c x i
      | none => none
    else none
  | _ => none

/-- value of the transfer register of a heap store (`XZR` reads as 0; must be defined) -/
def srcVal (μ : MState) : Register → Option Word
  | .x r => if r < 30 then μ.val (.register (.x r)) else none
  | .xzr => some 0
  | .sp => none

/-- semantics of the fall-through instruction forms of memory.rs on the view -/
def mexec (c : MemCfg) (code : Code) (μ : MState) : Option MState :=
  match code with
  | .MOVR x y =>
    match regOpnd x, regOpnd y with
    | some d, some s => some (μ.setT d (μ.val s))
    | _, _ => none
  | .LDR r b i =>
    match b with
    | .sp =>
      match regOpnd r, spillOpnd i with
      | some d, some s => some (μ.setT d (μ.val s))
      | _, _ => none
    | .x rb =>
      match regOpnd r, maddr c μ (.x rb) i with
      | some d, some a => some (μ.setT d (some (μ.heap a)))
      | _, _ => none
    | .xzr => none
  | .STR r b i =>
    match b with
    | .sp =>
      match regOpnd r, spillOpnd i with
      | some s, some d => some (μ.setT d (μ.val s))
      | _, _ => none
    | .x rb =>
      match srcVal μ r, maddr c μ (.x rb) i with
      | some v, some a => some (μ.setH a v)
      | _, _ => none
    | .xzr => none
  | .ADDI x y i =>
    match regOpnd x, regOpnd y with
    | some d, some s =>
      match μ.val s with
      | some v => if okImm12 i then some (μ.setT d (some (v + imm i))) else none
      | none => none
    | _, _ => none
  | .SUBI x y i =>
    match regOpnd x, regOpnd y with
    | some d, some s =>
      match μ.val s with
      | some v => if okImm12 i then some (μ.setT d (some (v - imm i))) else none
      | none => none
    | _, _ => none
  | .CMPI x i =>
    match regOpnd x with
    | some s =>
      match μ.val s with
      | some v => if okImm12 i then some (μ.setF (some (v, imm i))) else none
      | none => none
    | none => none
  | .MOVZ x i sh =>
    match regOpnd x with
    | some d => if okImm16 i && okShift sh then some (μ.setT d (some ((imm i) <<< sh.toNat))) else none
    | none => none
  | .LAB _ | .COMMENT _ => some μ
  | _ => none

/-- … with the two jumps of memory.rs -/
def mexecC (c : MemCfg) (code : Code) (μ : MState) : Option (MState × Ctl) :=
  match code with
  | .BEQ l =>
    match μ.flags with
    | some (a, b) => some (μ, if a = b then .jump l else .next)
    | none => none
  | .B l => some (μ, .jump l)
  | code => (mexec c code μ).map (fun μ' => (μ', Ctl.next))

/-- blocks with forward local labels on the view (same recursion as `execFwd`) -/
def mFwd (c : MemCfg) (code : List Code) (μ : MState) : Option (MState × Ctl) :=
  match code with
  | [] => some (μ, .next)
  | cd :: cs =>
    match mexecC c cd μ with
    | none => none
    | some (μ1, .next) => mFwd c cs μ1
    | some (μ1, .jump l) =>
      match _h : skipTo l cs with
      | some rest => mFwd c rest μ1
      | none => some (μ1, .jump l)
termination_by code.length
decreasing_by
  · simp
  · have := skipTo_length _h; simp; omega

/-- how the continuation of a block is entered -/
def mcont (c : MemCfg) (b : List Code) : Option (MState × Ctl) → Option (MState × Ctl)
  | none => none
  | some (μ', .next) => mFwd c b μ'
  | some (μ', .jump l) =>
    match skipTo l b with
    | some rest => mFwd c rest μ'
    | none => some (μ', .jump l)

section MFwd
variable (c : MemCfg)

theorem mFwd_nil (μ : MState) : mFwd c [] μ = some (μ, .next) := by rw [mFwd]

theorem mFwd_cons (cd : Code) (cs : List Code) (μ : MState) :
    mFwd c (cd :: cs) μ = mcont c cs (mexecC c cd μ) := by
  rw [mFwd]
  cases h : mexecC c cd μ with
  | none => simp [mcont]
  | some r =>
    obtain ⟨μ1, n⟩ := r
    cases n with
    | next => simp [mcont]
    | jump l =>
      simp only [mcont]
      split <;> rename_i h2 <;> simp [h2]

/-- sequential composition of blocks -/
theorem mFwd_append (b : List Code) : ∀ (n : Nat) (a : List Code) (μ : MState), a.length ≤ n →
    mFwd c (a ++ b) μ = mcont c b (mFwd c a μ) := by
  intro n
  induction n with
  | zero =>
    intro a μ h
    have : a = [] := List.eq_nil_of_length_eq_zero (Nat.le_zero.mp h)
    subst this
    simp [mFwd_nil, mcont]
  | succ n ih =>
    intro a μ h
    cases a with
    | nil => simp [mFwd_nil, mcont]
    | cons cd cs =>
      have hcs : cs.length ≤ n := by simpa using h
      rw [List.cons_append, mFwd_cons, mFwd_cons]
      cases hex : mexecC c cd μ with
      | none => simp [mcont]
      | some r =>
        obtain ⟨μ1, nx⟩ := r
        cases nx with
        | next => simp only [mcont]; exact ih cs μ1 hcs
        | jump l =>
          simp only [mcont, skipTo_append]
          cases hsk : skipTo l cs with
          | none => simp
          | some r =>
            have := skipTo_length hsk
            simp only
            exact ih r μ1 (by omega)

/-- a block that runs to its end, followed by another block -/
theorem mFwd_seq {a b : List Code} {μ μ1 : MState} {r : Option (MState × Ctl)}
    (ha : mFwd c a μ = some (μ1, .next)) (hb : mFwd c b μ1 = r) : mFwd c (a ++ b) μ = r := by
  rw [mFwd_append c b a.length a μ (Nat.le_refl _), ha]
  simpa only [mcont] using hb

theorem mFwd_pre {pre rest : List Code} {μ μ1 : MState}
    (h : mFwd c pre μ = some (μ1, .next)) : mFwd c (pre ++ rest) μ = mFwd c rest μ1 :=
  mFwd_seq c h rfl

theorem mexecC_BEQ (l : String) {μ : MState} {a b : Word} (hf : μ.flags = some (a, b)) :
    mexecC c (.BEQ l) μ = some (μ, if a = b then .jump l else .next) := by
  simp [mexecC, hf]

theorem mexecC_LAB (l : String) (μ : MState) : mexecC c (.LAB l) μ = some (μ, .next) := rfl
theorem mexecC_COMMENT (m : String) (μ : MState) : mexecC c (.COMMENT m) μ = some (μ, .next) := rfl
theorem mexecC_B (l : String) (μ : MState) : mexecC c (.B l) μ = some (μ, .jump l) := rfl

theorem mFwd_comment (m : String) (μ : MState) : mFwd c [.COMMENT m] μ = some (μ, .next) := by
  simp [mFwd_cons, mFwd_nil, mcont, mexecC_COMMENT]

/-- `beq l; body; l:` with equal operands recorded: the body is skipped -/
theorem mFwd_beq_taken (body : List Code) (l : String) (μ : MState) {a : Word}
    (hf : μ.flags = some (a, a)) (hfresh : skipTo l body = none) :
    mFwd c ([.BEQ l] ++ body ++ [.LAB l]) μ = some (μ, .next) := by
  rw [List.append_assoc, List.singleton_append, mFwd_cons, mexecC_BEQ c l hf]
  simp [mcont, skipTo_append, hfresh, skipTo, mFwd_nil]

/-- `beq l; body; l:` with different operands recorded: the body runs -/
theorem mFwd_beq_not_taken (body : List Code) (l : String) (μ μ' : MState) {a b : Word}
    (hf : μ.flags = some (a, b)) (hne : a ≠ b) (hbody : mFwd c body μ = some (μ', .next)) :
    mFwd c ([.BEQ l] ++ body ++ [.LAB l]) μ = some (μ', .next) := by
  rw [List.append_assoc, List.singleton_append, mFwd_cons, mexecC_BEQ c l hf]
  simp only [hne, if_false, mcont]
  rw [mFwd_append c _ body.length body μ (Nat.le_refl _), hbody]
  simp only [mcont]
  rw [mFwd_cons]
  simp [mexecC_LAB, mcont, mFwd_nil]

/-- `beq lt; else; b le; lt: then; le:` with equal operands recorded: exactly the then-branch runs -/
theorem mFwd_ite_then (thenB elseB : List Code) (lt le : String) (μ μ' : MState) {a : Word}
    (hf : μ.flags = some (a, a)) (hfresh : skipTo lt elseB = none)
    (hthen : mFwd c thenB μ = some (μ', .next)) :
    mFwd c ([.BEQ lt] ++ elseB ++ [.B le, .LAB lt] ++ thenB ++ [.LAB le]) μ = some (μ', .next) := by
  simp only [List.append_assoc, List.singleton_append, List.cons_append, List.nil_append]
  rw [mFwd_cons, mexecC_BEQ c lt hf]
  simp only [if_true, mcont, skipTo_append, hfresh]
  simp only [List.cons_append, List.nil_append, skipTo, if_true]
  rw [mFwd_append c _ thenB.length thenB μ (Nat.le_refl _), hthen]
  simp only [mcont]
  rw [mFwd_cons]
  simp [mexecC_LAB, mcont, mFwd_nil]

/-- … with different operands recorded: exactly the else-branch runs -/
theorem mFwd_ite_else (thenB elseB : List Code) (lt le : String) (μ μ' : MState) {a b : Word}
    (hf : μ.flags = some (a, b)) (hne : a ≠ b) (hlab : lt ≠ le) (hfresh : skipTo le thenB = none)
    (helse : mFwd c elseB μ = some (μ', .next)) :
    mFwd c ([.BEQ lt] ++ elseB ++ [.B le, .LAB lt] ++ thenB ++ [.LAB le]) μ = some (μ', .next) := by
  simp only [List.append_assoc, List.singleton_append, List.cons_append, List.nil_append]
  rw [mFwd_cons, mexecC_BEQ c lt hf]
  simp only [hne, if_false, mcont]
  rw [mFwd_append c _ elseB.length elseB μ (Nat.le_refl _), helse]
  simp only [mcont, List.cons_append, List.nil_append]
  rw [mFwd_cons]
  simp only [mexecC_B, mcont, skipTo, hlab, if_false, skipTo_append, hfresh, if_true]
  simp [mFwd_nil]

end MFwd

/-! ## machine facts -/

theorem toInstr_b {code : Code} {l : String} (h : code.toInstr = some (.b l)) : code = .B l := by
  cases code <;> simp [Code.toInstr, Option.bind_eq_some_iff] at h ⊢
  all_goals first | exact h | skip

theorem toInstr_bcond {code : Code} {cc : Cond} {l : String} (h : code.toInstr = some (.bcond cc l)) :
    code = .BEQ l ∨ code = .BNE l ∨ code = .BLT l ∨ code = .BLE l ∨ code = .BGT l ∨ code = .BGE l := by
  cases code <;> simp [Code.toInstr, Option.bind_eq_some_iff] at h ⊢
  all_goals first | exact h.2 | skip

theorem xreg_lt30 {r : Nat} (h : r < 30) : ∃ n : Fin 31, xreg r = some n := by
  unfold xreg archNumber
  split
  · have : r < 31 := by omega
    simp [this]
  · have : r + 1 < 31 := by omega
    simp [this]

theorem xreg_inj {r r' : Nat} {n : Fin 31} (h : xreg r = some n) (h' : xreg r' = some n) : r = r' := by
  apply Classical.byContradiction
  intro hne
  exact xreg_ne h h' hne rfl

/-- the effect of a store to the heap -/
def State.setHeap (c : MemCfg) (σ : State) (a : Nat) (w : Word) : State :=
  { σ with heap := σ.heap.insert a w, maxHeap := max σ.maxHeap (a + 8 - c.heapBase) }

@[simp] theorem setHeap_reg (c : MemCfg) (σ : State) (a : Nat) (w : Word) (m : Fin 31) :
    (σ.setHeap c a w).reg m = σ.reg m := rfl
@[simp] theorem setHeap_slot (c : MemCfg) (σ : State) (a : Nat) (w : Word) (b : Nat) :
    (σ.setHeap c a w).slot b = σ.slot b := rfl
@[simp] theorem setHeap_sp (c : MemCfg) (σ : State) (a : Nat) (w : Word) : (σ.setHeap c a w).sp = σ.sp := rfl
@[simp] theorem setHeap_flags (c : MemCfg) (σ : State) (a : Nat) (w : Word) :
    (σ.setHeap c a w).flags = σ.flags := rfl
@[simp] theorem setHeap_slotAddr (c : MemCfg) (σ : State) (a : Nat) (w : Word) (p : Nat) :
    (σ.setHeap c a w).slotAddr p = σ.slotAddr p := rfl
theorem setHeap_heap (c : MemCfg) (σ : State) (a : Nat) (w : Word) (b : Nat) :
    (σ.setHeap c a w).heap.getD b 0 = if b = a then w else σ.heap.getD b 0 := by
  simp only [State.setHeap, Std.HashMap.getD_insert]
  by_cases e : a = b
  · subst e; simp
  · have : ¬ b = a := fun h => e h.symm
    simp [e, this]

theorem tempVal_setHeap (c : MemCfg) (σ : State) (a : Nat) (w : Word) (u : Temporary) :
    (σ.setHeap c a w).tempVal u = σ.tempVal u := by
  cases u with
  | register r => cases r <;> rfl
  | spill p => rfl

theorem tempVal_setFlags (σ : State) (f : Option (Word × Word)) (u : Temporary) :
    (σ.setFlags f).tempVal u = σ.tempVal u := by
  cases u with
  | register r => cases r <;> rfl
  | spill p => rfl

theorem haddr_spec {c : MemCfg} {x : Word} {i : Int} {a : Nat} (h : haddr c x i = some a) :
    okOff i = true ∧ a = (x + imm i).toNat ∧ a % 8 = 0 ∧ inHeap c a = true := by
  unfold haddr at h
  split at h
  · rename_i hc
    injection h with h
    subst h
    exact ⟨hc.1, rfl, hc.2.1, hc.2.2⟩
  · cases h

theorem exec_ldr_heap (c : MemCfg) (σ : State) (t b : Fin 31) (i : Int) (x : Word) (a : Nat)
    (hb : σ.reg b = some x) (ha : haddr c x i = some a) :
    Instr.exec c (.ldr (.x t) (.x b) i) σ = .ok (σ.setReg t (some (σ.heap.getD a 0))) := by
  obtain ⟨h1, h2, h3, h4⟩ := haddr_spec ha
  have hb' : σ.rdX b = .ok x := rdX_of σ b x hb
  have h3' : ¬ a % 8 ≠ 0 := by simp [h3]
  simp only [Instr.exec, h1, if_true, State.base, hb', Except_bind_ok, State.load, ← h2]
  simp only [h3', if_false, h4, if_true, Except_bind_ok, State.putZ]
  rfl

theorem exec_str_heap (c : MemCfg) (σ : State) (t : Reg) (b : Fin 31) (i : Int) (x v : Word) (a : Nat)
    (hb : σ.reg b = some x) (ha : haddr c x i = some a) (hv : σ.getZ t = .ok (some v)) :
    Instr.exec c (.str t (.x b) i) σ = .ok (σ.setHeap c a v) := by
  obtain ⟨h1, h2, h3, h4⟩ := haddr_spec ha
  have hb' : σ.rdX b = .ok x := rdX_of σ b x hb
  have h3' : ¬ a % 8 ≠ 0 := by simp [h3]
  simp only [Instr.exec, h1, if_true, State.base, hb', Except_bind_ok, hv, State.store, ← h2]
  simp only [h3', if_false, h4, if_true]
  rfl

theorem exec_str_slot' (c : MemCfg) (room : Nat) (σ : State) (t : Fin 31) (p : Nat)
    (h : SpOkS c room σ) (hp : p < SPILL_NUM) :
    Instr.exec c (.str (.x t) .sp (stackOffset p)) σ = .ok (σ.putSlot (σ.slotAddr p) (σ.reg t)) := by
  rw [exec_str_slot c room σ t p h hp]
  cases σ.reg t <;> rfl

theorem exec_movz_x (c : MemCfg) (σ : State) (d : Fin 31) (i sh : Int) (h : (okImm16 i && okShift sh) = true) :
    Instr.exec c (.movz (.x d) i sh) σ = .ok (σ.setReg d (some ((imm i) <<< sh.toNat))) := by
  simp only [Instr.exec, h, if_true, State.wrZ, wrX_eq_setReg]

/-! ## the representation of view states by machine states -/

/-- machine state `σ` (with SP where compiled code keeps it) is viewed as `μ` -/
structure MRep (c : MemCfg) (room : Nat) (σ : State) (μ : MState) : Prop where
  sp : SpOk c σ.sp room
  vals : ∀ u, OpndOK u → σ.tempVal u = μ.val u
  flags : σ.flags = μ.flags
  heap : ∀ a, σ.heap.getD a 0 = μ.heap a

/-- what no instruction of memory.rs touches: SP, all stack memory outside the spill area, and the
machine register X18 (the platform register: no logical register is printed as X18) -/
structure Inert (σ σ' : State) : Prop where
  sp : σ'.sp = σ.sp
  outside : ∀ a, (∀ p, p < 256 → a ≠ σ.slotAddr p) → σ'.slot a = σ.slot a
  x18 : σ'.reg 18 = σ.reg 18

theorem Inert.refl (σ : State) : Inert σ σ := ⟨rfl, fun _ _ => rfl, rfl⟩

theorem Inert.trans {s1 s2 s3 : State} (h1 : Inert s1 s2) (h2 : Inert s2 s3) : Inert s1 s3 :=
  ⟨h2.sp.trans h1.sp, fun a ha => (h2.outside a (fun p hp => by
      have : s2.slotAddr p = s1.slotAddr p := by simp [State.slotAddr, h1.sp]
      rw [this]; exact ha p hp)).trans (h1.outside a ha), h2.x18.trans h1.x18⟩

theorem xreg_ne18 {r : Nat} {n : Fin 31} (h : xreg r = some n) : n ≠ 18 := by
  intro e
  have hv := xreg_val h
  rw [e] at hv
  unfold archNumber at hv
  simp only [consts] at hv
  split at hv <;> omega

/-- the view of a machine state -/
def mview (σ : State) : MState :=
  { val := σ.tempVal, flags := σ.flags, heap := fun a => σ.heap.getD a 0 }

theorem mrep_mview {c : MemCfg} {room : Nat} {σ : State} (B : SpOk c σ.sp room) : MRep c room σ (mview σ) :=
  ⟨B, fun _ _ => rfl, rfl, fun _ => rfl⟩

section Sim
variable {c : MemCfg} {room : Nat} {σ : State} {μ : MState}

theorem MRep.reg (M : MRep c room σ μ) {r : Nat} (hr : r < 30) {n : Fin 31} (hn : xreg r = some n) :
    σ.reg n = μ.val (.register (.x r)) := by
  rw [← M.vals (.register (.x r)) hr, tempVal_reg hn]

theorem tempVal_setReg {r : Nat} (hr : r < 30) {n : Fin 31} (hn : xreg r = some n) (v : Option Word)
    {u : Temporary} (hu : OpndOK u) :
    (σ.setReg n v).tempVal u = if u = .register (.x r) then v else σ.tempVal u := by
  cases u with
  | register reg =>
    cases reg with
    | x r' =>
      obtain ⟨n', hn'⟩ := xreg_lt30 (r := r') hu
      rw [tempVal_reg hn', tempVal_reg hn', setReg_reg]
      by_cases e : r' = r
      · subst e
        have : n = n' := by rw [hn] at hn'; injection hn'
        simp [this]
      · have hne : n ≠ n' := xreg_ne hn hn' (Ne.symm e)
        have : ¬ Temporary.register (.x r') = .register (.x r) := fun h => e (by injection h with h; injection h)
        simp [hne, this]
    | sp => exact hu.elim
    | xzr => exact hu.elim
  | spill p => simp [tempVal_spill]

theorem MRep.setReg (M : MRep c room σ μ) {r : Nat} (hr : r < 30) {n : Fin 31} (hn : xreg r = some n)
    (v : Option Word) : MRep c room (σ.setReg n v) (μ.setT (.register (.x r)) v) ∧ Inert σ (σ.setReg n v) := by
  refine ⟨⟨M.sp, fun u hu => ?_, M.flags, M.heap⟩, ⟨rfl, fun _ _ => rfl, ?_⟩⟩
  · rw [tempVal_setReg hr hn v hu, MState.setT_val, M.vals u hu]
  · rw [setReg_reg, if_neg (xreg_ne18 hn)]

theorem tempVal_putSlot (B : SpOk c σ.sp room) {p : Nat} (hp : p < 256) (v : Option Word)
    {u : Temporary} (hu : OpndOK u) :
    (σ.putSlot (σ.slotAddr p) v).tempVal u = if u = .spill p then v else σ.tempVal u := by
  cases u with
  | register reg =>
    cases reg with
    | x r' =>
      obtain ⟨n', hn'⟩ := xreg_lt30 (r := r') hu
      rw [tempVal_reg hn', tempVal_reg hn']
      simp
    | sp => exact hu.elim
    | xzr => exact hu.elim
  | spill q =>
    have hq : q < 256 := hu
    rw [tempVal_spill, tempVal_spill]
    have hsa : (σ.putSlot (σ.slotAddr p) v).slotAddr q = σ.slotAddr q := by
      simp [State.slotAddr]
    rw [hsa, putSlot_slot]
    by_cases e : q = p
    · subst e; simp
    · have hne : σ.slotAddr p ≠ σ.slotAddr q := fun h =>
        e ((slotAddr_inj B (by rw [SPILL_NUM_eq]; exact hp) (by rw [SPILL_NUM_eq]; exact hq)).mp h).symm
      have : ¬ Temporary.spill q = .spill p := fun h => e (by injection h)
      simp [hne, this]

theorem MRep.putSlot (M : MRep c room σ μ) {p : Nat} (hp : p < 256) (v : Option Word) :
    MRep c room (σ.putSlot (σ.slotAddr p) v) (μ.setT (.spill p) v) ∧
      Inert σ (σ.putSlot (σ.slotAddr p) v) := by
  refine ⟨⟨by rw [putSlot_sp]; exact M.sp, fun u hu => ?_, by rw [putSlot_flags]; exact M.flags,
    fun a => by rw [putSlot_heap]; exact M.heap a⟩, ⟨putSlot_sp _ _ _, fun a ha => ?_, putSlot_reg _ _ _ _⟩⟩
  · rw [tempVal_putSlot M.sp hp v hu, MState.setT_val, M.vals u hu]
  · rw [putSlot_slot]
    have := ha p hp
    simp [Ne.symm this]

theorem MRep.setHeap (M : MRep c room σ μ) (a : Nat) (w : Word) :
    MRep c room (σ.setHeap c a w) (μ.setH a w) ∧ Inert σ (σ.setHeap c a w) := by
  refine ⟨⟨M.sp, fun u hu => by rw [tempVal_setHeap]; exact M.vals u hu, M.flags, fun b => ?_⟩,
    ⟨rfl, fun _ _ => rfl, rfl⟩⟩
  rw [setHeap_heap, MState.setH_heap, M.heap b]

theorem MRep.setFlags (M : MRep c room σ μ) (f : Option (Word × Word)) :
    MRep c room (σ.setFlags f) (μ.setF f) ∧ Inert σ (σ.setFlags f) :=
  ⟨⟨M.sp, fun u hu => by rw [tempVal_setFlags]; exact M.vals u hu, rfl, M.heap⟩, ⟨rfl, fun _ _ => rfl, rfl⟩⟩

/-- what `maddr` says about the machine -/
theorem maddr_machine (M : MRep c room σ μ) {b : Register} {i : Int} {a : Nat} (h : maddr c μ b i = some a) :
    ∃ (rb : Nat) (nb : Fin 31) (x : Word), b = .x rb ∧ rb < 30 ∧ xreg rb = some nb ∧ σ.reg nb = some x ∧
      haddr c x i = some a := by
  cases b with
  | x rb =>
    simp only [maddr] at h
    split at h
    · rename_i hr
      obtain ⟨nb, hnb⟩ := xreg_lt30 hr
      split at h
      · rename_i x hx
        exact ⟨rb, nb, x, rfl, hr, hnb, by rw [M.reg hr hnb]; exact hx, h⟩
      · cases h
    · cases h
  | sp => cases h
  | xzr => cases h

theorem srcVal_machine (M : MRep c room σ μ) {r : Register} {v : Word} (h : srcVal μ r = some v) :
    ∃ t : Reg, r.toReg = some t ∧ σ.getZ t = .ok (some v) := by
  cases r with
  | x rr =>
    simp only [srcVal] at h
    split at h
    · rename_i hr
      obtain ⟨n, hn⟩ := xreg_lt30 hr
      refine ⟨.x n, by rw [toReg_x, hn]; rfl, ?_⟩
      rw [getZ_x, M.reg hr hn, h]
    · cases h
  | sp => cases h
  | xzr =>
    simp only [srcVal, Option.some.injEq] at h
    subst h
    exact ⟨.xzr, rfl, rfl⟩

end Sim

/-! ## the simulation -/

section Sim2
variable {c : MemCfg} {room : Nat} {σ : State} {μ : MState}

/-- SIMULATION, one fall-through instruction -/
theorem msim_exec (M : MRep c room σ μ) {code : Code} {μ' : MState} (hx : mexec c code μ = some μ') :
    ∃ σ', execCode c code σ = .ok σ' ∧ MRep c room σ' μ' ∧ Inert σ σ' := by
  have hS : SpOkS c room σ := M.sp
  cases code <;> simp only [mexec] at hx
  case MOVR x y =>
    split at hx
    · rename_i d s hd hs
      cases hx
      obtain ⟨rd, rfl, rfl, hrd⟩ := regOpnd_spec hd
      obtain ⟨rs, rfl, rfl, hrs⟩ := regOpnd_spec hs
      obtain ⟨nd, hnd⟩ := xreg_lt30 hrd
      obtain ⟨ns, hns⟩ := xreg_lt30 hrs
      obtain ⟨m, i⟩ := M.setReg hrd hnd (μ.val (.register (.x rs)))
      exact ⟨_, by rw [execCode_MOVR hnd hns, exec_mov_x, M.reg hrs hns], m, i⟩
    · cases hx
  case LDR r b i =>
    cases b with
    | sp =>
      simp only at hx
      split at hx
      · rename_i d s hd hs
        cases hx
        obtain ⟨rd, rfl, rfl, hrd⟩ := regOpnd_spec hd
        obtain ⟨p, rfl, hp, hi⟩ := spillOpnd_spec hs
        obtain ⟨nd, hnd⟩ := xreg_lt30 hrd
        obtain ⟨m, i'⟩ := M.setReg hrd hnd (μ.val (.spill p))
        refine ⟨_, ?_, m, i'⟩
        rw [hi, execCode_LDR_sp hnd, exec_ldr_slot c room σ nd p hS (by rw [SPILL_NUM_eq]; exact hp), ← tempVal_spill,
          M.vals (.spill p) hp]
      · cases hx
    | x rb =>
      simp only at hx
      split at hx
      · rename_i d a hd ha
        cases hx
        obtain ⟨rd, rfl, rfl, hrd⟩ := regOpnd_spec hd
        obtain ⟨nd, hnd⟩ := xreg_lt30 hrd
        obtain ⟨rb', nb, x, hb, hrb, hnb, hxv, hadr⟩ := maddr_machine M ha
        injection hb with hb
        subst hb
        obtain ⟨m, i'⟩ := M.setReg hrd hnd (some (μ.heap a))
        refine ⟨_, ?_, m, i'⟩
        rw [execCode_of_toInstr σ (i := .ldr (.x nd) (.x nb) i) (by simp [Code.toInstr, toReg_x, hnd, hnb]),
          exec_ldr_heap c σ nd nb _ x a hxv hadr, M.heap a]
      · cases hx
    | xzr => cases hx
  case STR r b i =>
    cases b with
    | sp =>
      simp only at hx
      split at hx
      · rename_i s d hs hd
        cases hx
        obtain ⟨rs, rfl, rfl, hrs⟩ := regOpnd_spec hs
        obtain ⟨p, rfl, hp, hi⟩ := spillOpnd_spec hd
        obtain ⟨ns, hns⟩ := xreg_lt30 hrs
        obtain ⟨m, i'⟩ := M.putSlot hp (μ.val (.register (.x rs)))
        refine ⟨_, ?_, m, i'⟩
        rw [hi, execCode_STR_sp hns, exec_str_slot' c room σ ns p hS (by rw [SPILL_NUM_eq]; exact hp), M.reg hrs hns]
      · cases hx
    | x rb =>
      simp only at hx
      split at hx
      · rename_i v a hv ha
        cases hx
        obtain ⟨rb', nb, x, hb, hrb, hnb, hxv, hadr⟩ := maddr_machine M ha
        injection hb with hb
        subst hb
        obtain ⟨t, ht, hgv⟩ := srcVal_machine M hv
        obtain ⟨m, i'⟩ := M.setHeap a v
        refine ⟨_, ?_, m, i'⟩
        rw [execCode_of_toInstr σ (i := .str t (.x nb) i) (by simp [Code.toInstr, toReg_x, ht, hnb]),
          exec_str_heap c σ t nb _ x v a hxv hadr hgv]
      · cases hx
    | xzr => cases hx
  case ADDI x y i =>
    split at hx
    · rename_i d s hd hs
      obtain ⟨rd, rfl, rfl, hrd⟩ := regOpnd_spec hd
      obtain ⟨rs, rfl, rfl, hrs⟩ := regOpnd_spec hs
      obtain ⟨nd, hnd⟩ := xreg_lt30 hrd
      obtain ⟨ns, hns⟩ := xreg_lt30 hrs
      split at hx
      · rename_i v hv
        split at hx
        · rename_i hi
          cases hx
          obtain ⟨m, i'⟩ := M.setReg hrd hnd (some (v + imm i))
          refine ⟨_, ?_, m, i'⟩
          rw [execCode_of_toInstr σ (i := .addi (.x nd) (.x ns) i) (by simp [Code.toInstr, toReg_x, hnd, hns]),
            exec_addi_x c σ nd ns i hi, M.reg hrs hns, hv]
        · cases hx
      · cases hx
    · cases hx
  case SUBI x y i =>
    split at hx
    · rename_i d s hd hs
      obtain ⟨rd, rfl, rfl, hrd⟩ := regOpnd_spec hd
      obtain ⟨rs, rfl, rfl, hrs⟩ := regOpnd_spec hs
      obtain ⟨nd, hnd⟩ := xreg_lt30 hrd
      obtain ⟨ns, hns⟩ := xreg_lt30 hrs
      split at hx
      · rename_i v hv
        split at hx
        · rename_i hi
          cases hx
          obtain ⟨m, i'⟩ := M.setReg hrd hnd (some (v - imm i))
          refine ⟨_, ?_, m, i'⟩
          rw [execCode_of_toInstr σ (i := .subi (.x nd) (.x ns) i) (by simp [Code.toInstr, toReg_x, hnd, hns]),
            exec_subi_x c σ nd ns i hi, M.reg hrs hns, hv]
        · cases hx
      · cases hx
    · cases hx
  case CMPI x i =>
    split at hx
    · rename_i s hs
      obtain ⟨rs, rfl, rfl, hrs⟩ := regOpnd_spec hs
      obtain ⟨ns, hns⟩ := xreg_lt30 hrs
      split at hx
      · rename_i v hv
        split at hx
        · rename_i hi
          cases hx
          obtain ⟨m, i'⟩ := M.setFlags (some (v, imm i))
          refine ⟨_, ?_, m, i'⟩
          rw [execCode_CMPI hns, exec_cmpi_x c σ ns i hi, M.reg hrs hns, hv]
        · cases hx
      · cases hx
    · cases hx
  case MOVZ x i sh =>
    split at hx
    · rename_i d hd
      obtain ⟨rd, rfl, rfl, hrd⟩ := regOpnd_spec hd
      obtain ⟨nd, hnd⟩ := xreg_lt30 hrd
      split at hx
      · rename_i hi
        cases hx
        obtain ⟨m, i'⟩ := M.setReg hrd hnd (some ((imm i) <<< sh.toNat))
        refine ⟨_, ?_, m, i'⟩
        rw [execCode_of_toInstr σ (i := .movz (.x nd) i sh) (by simp [Code.toInstr, toReg_x, hnd]),
          exec_movz_x c σ nd i sh hi]
      · cases hx
    · cases hx
  case LAB l => cases hx; exact ⟨σ, rfl, M, Inert.refl σ⟩
  case COMMENT l => cases hx; exact ⟨σ, rfl, M, Inert.refl σ⟩
  all_goals cases hx

/-- SIMULATION, one instruction with its control outcome -/
theorem msim_execC (M : MRep c room σ μ) {code : Code} {μ' : MState} {ctl : Ctl}
    (hx : mexecC c code μ = some (μ', ctl)) :
    ∃ σ', execCodeC c code σ = .ok (σ', ctl) ∧ MRep c room σ' μ' ∧ Inert σ σ' := by
  have key : (∀ l, code.toInstr ≠ some (.b l)) → (∀ cc l, code.toInstr ≠ some (.bcond cc l)) →
      (mexec c code μ).map (fun μ' => (μ', Ctl.next)) = some (μ', ctl) →
      ∃ σ', execCodeC c code σ = .ok (σ', ctl) ∧ MRep c room σ' μ' ∧ Inert σ σ' := by
    intro h1 h2 h
    cases hm : mexec c code μ with
    | none => simp [hm] at h
    | some μ1 =>
      simp only [hm, Option.map_some, Option.some.injEq, Prod.mk.injEq] at h
      obtain ⟨rfl, rfl⟩ := h
      obtain ⟨σ', e, m, i⟩ := msim_exec M hm
      refine ⟨σ', ?_, m, i⟩
      unfold execCodeC
      split
      · rename_i l e'; exact absurd e' (h1 l)
      · rename_i cc l e'; exact absurd e' (h2 cc l)
      · rw [e]
  cases code
  case BEQ l =>
    simp only [mexecC] at hx
    split at hx
    · rename_i a b hf
      simp only [Option.some.injEq, Prod.mk.injEq] at hx
      obtain ⟨rfl, rfl⟩ := hx
      refine ⟨σ, ?_, M, Inert.refl σ⟩
      have : σ.flags = some (a, b) := M.flags.trans hf
      simp only [execCodeC, Code.toInstr, this, Cond.holds, beq_iff_eq]
    · cases hx
  case B l =>
    simp only [mexecC, Option.some.injEq, Prod.mk.injEq] at hx
    obtain ⟨rfl, rfl⟩ := hx
    exact ⟨σ, rfl, M, Inert.refl σ⟩
  all_goals
    refine key (fun l h => ?_) (fun cc l h => ?_) hx
    · have := toInstr_b h; cases this
    · have := toInstr_bcond h
      rcases this with e | e | e | e | e | e <;> cases e
      all_goals
        simp only [mexecC, mexec, Option.map_none] at hx
        cases hx

/-- SIMULATION for blocks with forward local labels -/
theorem msim_fwd : ∀ (n : Nat) (codes : List Code) (σ : State) (μ : MState),
    codes.length ≤ n → MRep c room σ μ → ∀ {μ' : MState} {ctl : Ctl}, mFwd c codes μ = some (μ', ctl) →
    ∃ σ', execFwd c codes σ = .ok (σ', ctl) ∧ MRep c room σ' μ' ∧ Inert σ σ' := by
  intro n
  induction n with
  | zero =>
    intro codes σ μ h M μ' ctl hx
    have : codes = [] := List.eq_nil_of_length_eq_zero (Nat.le_zero.mp h)
    subst this
    rw [mFwd_nil] at hx
    simp only [Option.some.injEq, Prod.mk.injEq] at hx
    obtain ⟨rfl, rfl⟩ := hx
    exact ⟨σ, execFwd_nil c σ, M, Inert.refl σ⟩
  | succ n ih =>
    intro codes σ μ h M μ' ctl hx
    cases codes with
    | nil =>
      rw [mFwd_nil] at hx
      simp only [Option.some.injEq, Prod.mk.injEq] at hx
      obtain ⟨rfl, rfl⟩ := hx
      exact ⟨σ, execFwd_nil c σ, M, Inert.refl σ⟩
    | cons cd cs =>
      have hcs : cs.length ≤ n := by simpa using h
      rw [mFwd_cons] at hx
      cases hex : mexecC c cd μ with
      | none => simp [hex, mcont] at hx
      | some r =>
        obtain ⟨μ1, c1⟩ := r
        rw [hex] at hx
        obtain ⟨σ1, e1, M1, I1⟩ := msim_execC M hex
        rw [execFwd_cons, e1]
        cases c1 with
        | next =>
          simp only [mcont] at hx
          obtain ⟨σ', e, m, i⟩ := ih cs σ1 μ1 hcs M1 hx
          exact ⟨σ', by simpa only [contFwd] using e, m, I1.trans i⟩
        | jump l =>
          simp only [mcont] at hx
          simp only [contFwd]
          cases hsk : skipTo l cs with
          | none =>
            simp only [hsk, Option.some.injEq, Prod.mk.injEq] at hx
            obtain ⟨rfl, rfl⟩ := hx
            exact ⟨σ1, rfl, M1, I1⟩
          | some rest =>
            simp only [hsk] at hx
            have := skipTo_length hsk
            obtain ⟨σ', e, m, i⟩ := ih rest σ1 μ1 (by omega) M1 hx
            exact ⟨σ', e, m, I1.trans i⟩

/-- THE TRANSFER: a run of the view from the view of a machine state is a run of the machine -/
theorem mtransfer (B : SpOk c σ.sp room) {codes : List Code} {μ' : MState}
    (hx : mFwd c codes (mview σ) = some (μ', .next)) :
    ∃ σ', execFwd c codes σ = .ok (σ', .next) ∧ MRep c room σ' μ' ∧ Inert σ σ' :=
  msim_fwd codes.length codes σ _ (Nat.le_refl _) (mrep_mview B) hx

/-- what a memory operation leaves alone: SP, all stack memory outside the spill area, the machine
register X18, and every temporary (logical register X0..X29 = machine X0–X17, X19–X30 / spill slot of
the frame) not in `changed` -/
structure FrameT (σ σ' : State) (changed : Temporary → Prop) : Prop where
  sp : σ'.sp = σ.sp
  outside : ∀ a, (∀ p, p < 256 → a ≠ σ.slotAddr p) → σ'.slot a = σ.slot a
  x18 : σ'.reg 18 = σ.reg 18
  temps : ∀ u, OpndOK u → ¬ changed u → σ'.tempVal u = σ.tempVal u

/-- a run of the view from the view of a machine state, with its frame, on the machine -/
theorem m_to_machine (B : SpOk c σ.sp room) {codes : List Code} {μ' : MState}
    (hx : mFwd c codes (mview σ) = some (μ', .next)) {changed : Temporary → Prop}
    (hfr : ∀ u, ¬ changed u → μ'.val u = (mview σ).val u) :
    ∃ σ', execFwd c codes σ = .ok (σ', .next) ∧ SpOk c σ'.sp room ∧ MRep c room σ' μ' ∧
      FrameT σ σ' changed := by
  obtain ⟨σ', e, M, I⟩ := mtransfer B hx
  exact ⟨σ', e, M.sp, M, ⟨I.sp, I.outside, I.x18, fun u hu hc => by
    rw [M.vals u hu, hfr u hc]; rfl⟩⟩

end Sim2

end Scc.A64
