/-
  Scc.A64.Prologue — proof file: into_routine.rs `setup` pushes X19…X30 in pairs and `cleanup` pops
  them again (C13: callee-saved registers and SP are restored at return).
-/
import Scc.A64.StackLemmas
import Scc.A64.Backend

set_option linter.unusedSimpArgs false

namespace Scc.A64

/-- `STP Xa, Xb, [SP, -16]!` for a list of register pairs -/
def pushInstrs (pairs : List (Fin 31 × Fin 31)) : List Instr :=
  pairs.map fun (a, b) => .stpPre (.x a) (.x b) .sp (-16)

/-- `LDP Xa, Xb, [SP], 16` for a list of register pairs -/
def popInstrs (pairs : List (Fin 31 × Fin 31)) : List Instr :=
  pairs.map fun (a, b) => .ldpPost (.x a) (.x b) .sp 16

def execInstrs (c : MemCfg) : List Instr → State → Except Fault State
  | [], σ => .ok σ
  | i :: rest, σ =>
    match i.exec c σ with
    | .ok σ' => execInstrs c rest σ'
    | .error e => .error e

structure Pushed (σ σ' : State) (S : Nat) (pairs : List (Fin 31 × Fin 31)) : Prop where
  sp : σ'.sp = BitVec.ofNat 64 (S - 16 * pairs.length)
  regs : ∀ m, σ'.reg m = σ.reg m
  heap : σ'.heap = σ.heap
  flags : σ'.flags = σ.flags
  above : ∀ a, S ≤ a → σ'.slot a = σ.slot a
  saved : ∀ k (h : k < pairs.length),
    σ'.slot (S - 16 * (k + 1)) = σ.reg pairs[k].1 ∧ σ'.slot (S - 16 * (k + 1) + 8) = σ.reg pairs[k].2

theorem exec_push {c : MemCfg} (hm : MemOk c) :
    ∀ (pairs : List (Fin 31 × Fin 31)) (σ : State) (S : Nat), σ.sp.toNat = S → S % 16 = 0 →
      c.stackLow + 16 * pairs.length ≤ S → S ≤ c.stackTop →
      ∃ σ', execInstrs c (pushInstrs pairs) σ = .ok σ' ∧ Pushed σ σ' S pairs := by
  intro pairs
  induction pairs with
  | nil =>
    intro σ S hS _ _ _
    refine ⟨σ, rfl, ?_, by intros; rfl, rfl, rfl, by intros; rfl, by intro k h; simp at h⟩
    simp only [List.length_nil, Nat.mul_zero, Nat.sub_zero]
    rw [← hS]; simp
  | cons pr rest ih =>
    intro σ S hS hal hlo hhi
    obtain ⟨a, b⟩ := pr
    have ht := hm.top
    have h64 : (2:Nat)^64 = 18446744073709551616 := by decide
    simp only [List.length_cons] at hlo
    have h1 := exec_stp_sp hm σ a b S hS hal (by omega) hhi
    let σ1 := ((σ.putSlot (S - 16) (σ.reg a)).putSlot (S - 8) (σ.reg b)).setSp (BitVec.ofNat 64 (S - 16))
    have hS1 : σ1.sp.toNat = S - 16 := by simp [σ1, BitVec.toNat_ofNat]; omega
    obtain ⟨σ', he, hp⟩ := ih σ1 (S - 16) hS1 (by omega) (by omega) (by omega)
    refine ⟨σ', ?_, ?_, ?_, ?_, ?_, ?_, ?_⟩
    · simp only [pushInstrs, List.map_cons, execInstrs, h1]
      exact he
    · rw [hp.sp]; congr 1; simp only [List.length_cons]; omega
    · intro m; rw [hp.regs m]; simp [σ1]
    · rw [hp.heap]; simp [σ1]
    · rw [hp.flags]; simp [σ1]
    · intro x hx
      rw [hp.above x (by omega)]
      have e1 : S - 8 ≠ x := by omega
      have e2 : S - 16 ≠ x := by omega
      simp [σ1, e1, e2]
    · intro k hk
      cases k with
      | zero =>
        simp only [Nat.zero_add, Nat.mul_one, List.getElem_cons_zero]
        rw [hp.above (S - 16) (by omega), hp.above (S - 16 + 8) (by omega)]
        have e1 : S - 8 ≠ S - 16 := by omega
        have e2 : S - 16 + 8 = S - 8 := by omega
        simp [σ1, e1, e2]
      | succ k =>
        simp only [List.length_cons] at hk
        have := hp.saved k (by omega)
        simp only [List.getElem_cons_succ]
        have e1 : S - 16 * (k + 1 + 1) = S - 16 - 16 * (k + 1) := by omega
        rw [e1, this.1, this.2]
        simp [σ1]

structure Popped (σ σ' : State) (S : Nat) (pairs : List (Fin 31 × Fin 31)) : Prop where
  sp : σ'.sp = BitVec.ofNat 64 (S + 16 * pairs.length)
  heap : σ'.heap = σ.heap
  others : ∀ m, (∀ pr ∈ pairs, m ≠ pr.1 ∧ m ≠ pr.2) → σ'.reg m = σ.reg m
  slots : ∀ a, σ'.slot a = σ.slot a
  restored : ∀ k (h : k < pairs.length),
    σ'.reg pairs[k].1 = σ.slot (S + 16 * k) ∧ σ'.reg pairs[k].2 = σ.slot (S + 16 * k + 8)

/-- all registers of a list of pairs are pairwise different -/
def PairsNodup (pairs : List (Fin 31 × Fin 31)) : Prop :=
  (pairs.flatMap fun (a, b) => [a, b]).Nodup

theorem exec_pop {c : MemCfg} (hm : MemOk c) :
    ∀ (pairs : List (Fin 31 × Fin 31)) (σ : State) (S : Nat), PairsNodup pairs → σ.sp.toNat = S → S % 16 = 0 →
      c.stackLow ≤ S → S + 16 * pairs.length ≤ c.stackTop →
      ∃ σ', execInstrs c (popInstrs pairs) σ = .ok σ' ∧ Popped σ σ' S pairs := by
  intro pairs
  induction pairs with
  | nil =>
    intro σ S _ hS _ _ _
    refine ⟨σ, rfl, ?_, rfl, by intros; rfl, by intros; rfl, by intro k h; simp at h⟩
    simp only [List.length_nil, Nat.mul_zero, Nat.add_zero]
    rw [← hS]; simp
  | cons pr rest ih =>
    intro σ S hnd hS hal hlo hhi
    obtain ⟨a, b⟩ := pr
    have ht := hm.top
    have h64 : (2:Nat)^64 = 18446744073709551616 := by decide
    simp only [List.length_cons] at hhi
    simp only [PairsNodup, List.flatMap_cons, List.cons_append, List.nil_append, List.nodup_cons,
      List.mem_cons, not_or] at hnd
    obtain ⟨⟨hab, harest⟩, hbrest, hndrest⟩ := hnd
    have h1 := exec_ldp_sp hm σ a b hab S hS hal hlo (by omega)
    let σ1 := ((σ.setReg a (σ.slot S)).setReg b (σ.slot (S + 8))).setSp (BitVec.ofNat 64 (S + 16))
    have hS1 : σ1.sp.toNat = S + 16 := by simp [σ1, BitVec.toNat_ofNat]; omega
    obtain ⟨σ', he, hp⟩ := ih σ1 (S + 16) hndrest hS1 (by omega) (by omega) (by omega)
    have hmem : ∀ pr ∈ rest, a ≠ pr.1 ∧ a ≠ pr.2 ∧ b ≠ pr.1 ∧ b ≠ pr.2 := by
      intro pr hpr
      have h1 : pr.1 ∈ rest.flatMap (fun x => [x.1, x.2]) := List.mem_flatMap.mpr ⟨pr, hpr, by simp⟩
      have h2 : pr.2 ∈ rest.flatMap (fun x => [x.1, x.2]) := List.mem_flatMap.mpr ⟨pr, hpr, by simp⟩
      refine ⟨?_, ?_, ?_, ?_⟩ <;> intro e
      · exact harest (e ▸ h1)
      · exact harest (e ▸ h2)
      · exact hbrest (e ▸ h1)
      · exact hbrest (e ▸ h2)
    refine ⟨σ', ?_, ?_, ?_, ?_, ?_, ?_⟩
    · simp only [popInstrs, List.map_cons, execInstrs, h1]
      exact he
    · rw [hp.sp]; congr 1; simp only [List.length_cons]; omega
    · rw [hp.heap]; simp [σ1]
    · intro m hmm
      have h0 := hmm (a, b) (by simp)
      rw [hp.others m (fun pr hpr => hmm pr (by simp [hpr]))]
      simp [σ1, Ne.symm h0.1, Ne.symm h0.2]
    · intro x; rw [hp.slots x]; simp [σ1]
    · intro k hk
      cases k with
      | zero =>
        simp only [List.getElem_cons_zero, Nat.mul_zero, Nat.add_zero]
        rw [hp.others a (fun pr hpr => ⟨(hmem pr hpr).1, (hmem pr hpr).2.1⟩),
          hp.others b (fun pr hpr => ⟨(hmem pr hpr).2.2.1, (hmem pr hpr).2.2.2⟩)]
        simp [σ1, hab, Ne.symm hab]
      | succ k =>
        simp only [List.length_cons] at hk
        have := hp.restored k (by omega)
        simp only [List.getElem_cons_succ]
        rw [this.1, this.2]
        have e1 : S + 16 + 16 * k = S + 16 * (k + 1) := by omega
        simp [σ1, e1]



/-- labels, directives and comments -/
def Code.isMeta : Code → Bool
  | .LAB _ | .TEXT | .GLOBAL _ | .COMMENT _ => true
  | _ => false

theorem execCodes_eq_execInstrs (c : MemCfg) :
    ∀ (cs : List Code) (σ : State), (∀ code ∈ cs, code.toInstr = none → code.isMeta = true) →
      execCodes c cs σ = execInstrs c (cs.filterMap Code.toInstr) σ := by
  intro cs
  induction cs with
  | nil => intros; rfl
  | cons code rest ih =>
    intro σ h
    have hrest : ∀ code ∈ rest, code.toInstr = none → code.isMeta = true := fun x hx => h x (by simp [hx])
    cases hi : code.toInstr with
    | none =>
      have hm := h code (by simp) hi
      have : execCode c code σ = .ok σ := by
        cases code <;> simp_all [Code.isMeta, execCode]
      simp only [execCodes, this, List.filterMap_cons, hi]
      exact ih σ hrest
    | some i =>
      have : execCode c code σ = i.exec c σ := execCode_of_toInstr σ hi
      simp only [execCodes, this, List.filterMap_cons, hi, execInstrs]
      cases i.exec c σ with
      | error e => rfl
      | ok σ' => exact ih σ' hrest

theorem execInstrs_append (c : MemCfg) (l1 l2 : List Instr) (σ σ' : State)
    (h : execInstrs c l1 σ = .ok σ') : execInstrs c (l1 ++ l2) σ = execInstrs c l2 σ' := by
  induction l1 generalizing σ with
  | nil => simp [execInstrs] at h; subst h; rfl
  | cons a l ih =>
    simp only [execInstrs, List.cons_append] at h ⊢
    cases ha : a.exec c σ with
    | error e => simp [ha] at h
    | ok σ1 => simp only [ha] at h ⊢; exact ih σ1 h



def savedPairs : List (Fin 31 × Fin 31) := [(19,20),(21,22),(23,24),(25,26),(27,28),(29,30)]

def argMoves : Nat → List Instr
  | 0 => []
  | k + 1 => .mov (.x ⟨(2 * k + 5) % 31, Nat.mod_lt _ (by decide)⟩) (.x ⟨(k + 1) % 31, Nat.mod_lt _ (by decide)⟩) :: argMoves k

def argMovesState : Nat → State → State
  | 0, σ => σ
  | k + 1, σ => argMovesState k (σ.setReg ⟨(2 * k + 5) % 31, Nat.mod_lt _ (by decide)⟩ (σ.reg ⟨(k + 1) % 31, Nat.mod_lt _ (by decide)⟩))

def tailState (σa : State) (S n : Nat) (h : Word) : State :=
  ((argMovesState n (σa.setSp (BitVec.ofNat 64 (S - 2048)))).setReg 1 (some h)).setReg 1 (some (h + 64))

structure SetupTail (σa σ1 : State) (S n : Nat) (h : Word) : Prop where
  sp : σ1.sp = BitVec.ofNat 64 (S - 2048)
  heap : σ1.heap = σa.heap
  slots : ∀ a, σ1.slot a = σa.slot a
  x0 : σ1.reg 0 = some h
  x1 : σ1.reg 1 = some (h + 64)
  high : ∀ m : Fin 31, 18 ≤ m.val → σ1.reg m = σa.reg m
  args : ∀ i j : Fin 31, 1 ≤ i.val → i.val ≤ n → j.val = 2 * i.val + 3 → σ1.reg j = σa.reg i

theorem setup_tail (c : MemCfg) (n : Nat) (hn : n ≤ 7) (σa : State) (S : Nat) (hS : σa.sp.toNat = S)
    (hS2 : 2048 ≤ S) (h : Word) (h0 : σa.reg 0 = some h) :
    ∃ σ1, execInstrs c ([.subi .sp .sp 2048] ++ argMoves n ++ [.mov (.x 1) (.x 0), .addi (.x 1) (.x 1) 64]) σa = .ok σ1 ∧
      SetupTail σa σ1 S n h := by
  have e1 := exec_subi_sp c σa 2048 (by decide) S hS (by omega)
  have e2 : ((S : Int) - 2048).toNat = S - 2048 := by omega
  rw [e2] at e1
  have hi : okImm12 64 = true := by decide
  have hcases : n = 0 ∨ n = 1 ∨ n = 2 ∨ n = 3 ∨ n = 4 ∨ n = 5 ∨ n = 6 ∨ n = 7 := by omega
  refine ⟨tailState σa S n h, ?_, ?_⟩
  · rcases hcases with rfl | rfl | rfl | rfl | rfl | rfl | rfl | rfl <;>
    · simp only [List.cons_append, List.nil_append, argMoves, execInstrs, e1, exec_mov_x]
      rw [exec_addi_x c _ 1 1 64 hi]
      simp [h0, tailState, argMovesState, imm]
  · refine ⟨?_, ?_, ?_, ?_, ?_, ?_, ?_⟩
    · rcases hcases with rfl | rfl | rfl | rfl | rfl | rfl | rfl | rfl <;> simp [tailState, argMovesState]
    · rcases hcases with rfl | rfl | rfl | rfl | rfl | rfl | rfl | rfl <;> simp [tailState, argMovesState]
    · intro a
      rcases hcases with rfl | rfl | rfl | rfl | rfl | rfl | rfl | rfl <;> simp [tailState, argMovesState]
    · rcases hcases with rfl | rfl | rfl | rfl | rfl | rfl | rfl | rfl <;> simp [tailState, argMovesState, h0]
    · simp [tailState]
    · intro m hm
      have hne : ∀ k : Fin 31, k.val < 18 → k ≠ m := by
        intro k hk e; rw [e] at hk; omega
      have g1 := hne 1 (by decide)
      have g5 := hne 5 (by decide)
      have g7 := hne 7 (by decide)
      have g9 := hne 9 (by decide)
      have g11 := hne 11 (by decide)
      have g13 := hne 13 (by decide)
      have g15 := hne 15 (by decide)
      have g17 := hne 17 (by decide)
      rcases hcases with rfl | rfl | rfl | rfl | rfl | rfl | rfl | rfl <;>
        simp [tailState, argMovesState, g1, g5, g7, g9, g11, g13, g15, g17]
    · intro i j h1 h2 hj
      obtain ⟨iv, hiv⟩ := i
      obtain ⟨jv, hjv⟩ := j
      simp only at h1 h2 hj
      subst hj
      have hiv' : iv = 1 ∨ iv = 2 ∨ iv = 3 ∨ iv = 4 ∨ iv = 5 ∨ iv = 6 ∨ iv = 7 := by omega
      rcases hcases with rfl | rfl | rfl | rfl | rfl | rfl | rfl | rfl <;>
        rcases hiv' with rfl | rfl | rfl | rfl | rfl | rfl | rfl <;>
        first
        | omega
        | simp +decide [tailState, argMovesState]

def setupInstrs (n : Nat) : List Instr :=
  pushInstrs savedPairs ++ ([.subi .sp .sp 2048] ++ argMoves n ++ [.mov (.x 1) (.x 0), .addi (.x 1) (.x 1) 64])

/-- the instructions of `setup n` (for every admissible number of arguments, by evaluation) -/
theorem setup_instrs (n : Nat) (hn : n ≤ 7) :
    ∃ codes, setup n = .ok codes ∧ codes.filterMap Code.toInstr = setupInstrs n ∧
      (∀ code ∈ codes, code.toInstr = none → code.isMeta = true) := by
  have hcases : n = 0 ∨ n = 1 ∨ n = 2 ∨ n = 3 ∨ n = 4 ∨ n = 5 ∨ n = 6 ∨ n = 7 := by omega
  rcases hcases with rfl | rfl | rfl | rfl | rfl | rfl | rfl | rfl <;>
    exact ⟨_, rfl, rfl, by decide⟩

/-- the instructions of `cleanup` -/
theorem cleanup_instrs :
    cleanup.dropLast.filterMap Code.toInstr = [.addi .sp .sp 2048] ++ popInstrs savedPairs.reverse ∧
    cleanup.getLast? = some .RET ∧
    (∀ code ∈ cleanup.dropLast, code.toInstr = none → code.isMeta = true) :=
  ⟨rfl, rfl, by decide⟩



/-- state after `setup` -/
structure SetupPost (σ0 σ1 : State) (S0 n : Nat) (h : Word) : Prop where
  sp : σ1.sp = BitVec.ofNat 64 (S0 - 96 - 2048)
  heap : σ1.heap = σ0.heap
  x0 : σ1.reg 0 = some h
  x1 : σ1.reg 1 = some (h + 64)
  args : ∀ i j : Fin 31, 1 ≤ i.val → i.val ≤ n → j.val = 2 * i.val + 3 → σ1.reg j = σ0.reg i
  above : ∀ a, S0 ≤ a → σ1.slot a = σ0.slot a
  saved : ∀ k (hk : k < 6),
    σ1.slot (S0 - 16 * (k + 1)) = σ0.reg (savedPairs[k]'hk).1 ∧
    σ1.slot (S0 - 16 * (k + 1) + 8) = σ0.reg (savedPairs[k]'hk).2

theorem setup_correct {c : MemCfg} (hm : MemOk c) (n : Nat) (hn : n ≤ 7) (σ0 : State) (S0 : Nat)
    (hS : σ0.sp.toNat = S0) (hal : S0 % 16 = 0) (hlo : c.stackLow + 96 + 2048 ≤ S0) (hhi : S0 ≤ c.stackTop)
    (h : Word) (h0 : σ0.reg 0 = some h) :
    ∃ codes σ1, setup n = .ok codes ∧ execCodes c codes σ0 = .ok σ1 ∧ SetupPost σ0 σ1 S0 n h := by
  obtain ⟨codes, hc, hi, hmeta⟩ := setup_instrs n hn
  have ht := hm.top
  have h64 : (2:Nat)^64 = 18446744073709551616 := by decide
  obtain ⟨σa, hea, hpa⟩ := exec_push hm savedPairs σ0 S0 hS hal (by simp [savedPairs]; omega) hhi
  have hlen : savedPairs.length = 6 := rfl
  have hSa : σa.sp.toNat = S0 - 96 := by rw [hpa.sp, hlen, BitVec.toNat_ofNat]; omega
  obtain ⟨σ1, he1, hp1⟩ := setup_tail c n hn σa (S0 - 96) hSa (by omega) h (by rw [hpa.regs]; exact h0)
  refine ⟨codes, σ1, hc, ?_, ?_⟩
  · rw [execCodes_eq_execInstrs c codes σ0 hmeta, hi, setupInstrs, execInstrs_append c _ _ _ _ hea]
    exact he1
  · refine ⟨hp1.sp, by rw [hp1.heap, hpa.heap], hp1.x0, hp1.x1, ?_, ?_, ?_⟩
    · intro i j h1 h2 h3; rw [hp1.args i j h1 h2 h3, hpa.regs]
    · intro a ha; rw [hp1.slots, hpa.above a ha]
    · intro k hk
      have := hpa.saved k (by rw [hlen]; exact hk)
      rw [hp1.slots, hp1.slots]
      exact this

/-- state after `cleanup` (up to, not including, RET) -/
structure CleanupPost (σ2 σ3 : State) (S0 : Nat) : Prop where
  sp : σ3.sp = BitVec.ofNat 64 S0
  heap : σ3.heap = σ2.heap
  low : ∀ m : Fin 31, m.val < 19 → σ3.reg m = σ2.reg m
  restored : ∀ k (hk : k < 6),
    σ3.reg (savedPairs[k]'hk).1 = σ2.slot (S0 - 16 * (k + 1)) ∧
    σ3.reg (savedPairs[k]'hk).2 = σ2.slot (S0 - 16 * (k + 1) + 8)

theorem cleanup_correct {c : MemCfg} (hm : MemOk c) (σ2 : State) (S0 : Nat)
    (hS : σ2.sp.toNat = S0 - 96 - 2048) (hal : S0 % 16 = 0) (hlo : c.stackLow + 96 + 2048 ≤ S0)
    (hhi : S0 ≤ c.stackTop) :
    ∃ σ3, execCodes c cleanup.dropLast σ2 = .ok σ3 ∧ CleanupPost σ2 σ3 S0 := by
  obtain ⟨hi, _, hmeta⟩ := cleanup_instrs
  have ht := hm.top
  have h64 : (2:Nat)^64 = 18446744073709551616 := by decide
  have e1 := exec_addi_sp c σ2 2048 (by decide) (S0 - 96 - 2048) hS (by omega)
  have e2 : (((S0 - 96 - 2048 : Nat) : Int) + 2048).toNat = S0 - 96 := by omega
  rw [e2] at e1
  let σb := σ2.setSp (BitVec.ofNat 64 (S0 - 96))
  have hSb : σb.sp.toNat = S0 - 96 := by simp [σb, BitVec.toNat_ofNat]; omega
  have hnd : PairsNodup savedPairs.reverse := by unfold PairsNodup; decide
  have hlen : savedPairs.reverse.length = 6 := rfl
  obtain ⟨σ3, he3, hp3⟩ := exec_pop hm savedPairs.reverse σb (S0 - 96) hnd hSb (by omega) (by omega)
    (by rw [hlen]; omega)
  refine ⟨σ3, ?_, ?_⟩
  · rw [execCodes_eq_execInstrs c _ σ2 hmeta, hi]
    simp only [List.cons_append, List.nil_append, execInstrs, e1]
    exact he3
  · refine ⟨?_, by rw [hp3.heap]; rfl, ?_, ?_⟩
    · rw [hp3.sp, hlen]; congr 1; omega
    · intro m hm19
      rw [hp3.others m]
      · simp [σb]
      · intro pr hpr
        have : pr ∈ savedPairs := List.mem_reverse.mp hpr
        simp only [savedPairs, List.mem_cons, List.not_mem_nil, or_false] at this
        rcases this with rfl | rfl | rfl | rfl | rfl | rfl <;>
          (constructor <;> intro e <;> rw [e] at hm19 <;> revert hm19 <;> decide)
    · intro k hk
      have hk' : 5 - k < savedPairs.reverse.length := by rw [hlen]; omega
      have := hp3.restored (5 - k) hk'
      have hget : savedPairs.reverse[5 - k]'hk' = savedPairs[k]'hk := by
        have hk6 : k = 0 ∨ k = 1 ∨ k = 2 ∨ k = 3 ∨ k = 4 ∨ k = 5 := by omega
        rcases hk6 with rfl | rfl | rfl | rfl | rfl | rfl <;> rfl
      rw [hget] at this
      have ea : S0 - 96 + 16 * (5 - k) = S0 - 16 * (k + 1) := by omega
      rw [this.1, this.2, ea]
      simp [σb]




/-- `setup … cleanup` restores SP and X19–X30, whatever the body does, as long as the body leaves SP
where `setup` put it and does not touch the 96 bytes in which `setup` saved the registers. -/
theorem prologue_epilogue {c : MemCfg} (hm : MemOk c) (n : Nat) (hn : n ≤ 7) (σ0 : State) (S0 : Nat)
    (hS : σ0.sp.toNat = S0) (hal : S0 % 16 = 0) (hlo : c.stackLow + 96 + 2048 ≤ S0) (hhi : S0 ≤ c.stackTop)
    (h : Word) (h0 : σ0.reg 0 = some h) :
    ∃ codes σ1, setup n = .ok codes ∧ execCodes c codes σ0 = .ok σ1 ∧ SetupPost σ0 σ1 S0 n h ∧
      ∀ σ2 : State, σ2.sp = σ1.sp → (∀ a, S0 - 96 ≤ a → a < S0 → σ2.slot a = σ1.slot a) →
        ∃ σ3, execCodes c cleanup.dropLast σ2 = .ok σ3 ∧ σ3.sp = σ0.sp ∧
          (∀ m : Fin 31, 19 ≤ m.val → σ3.reg m = σ0.reg m) ∧
          (∀ m : Fin 31, m.val < 19 → σ3.reg m = σ2.reg m) ∧ σ3.heap = σ2.heap := by
  obtain ⟨codes, σ1, hc, he, hp⟩ := setup_correct hm n hn σ0 S0 hS hal hlo hhi h h0
  refine ⟨codes, σ1, hc, he, hp, ?_⟩
  intro σ2 hsp2 hsave
  have ht := hm.top
  have h64 : (2:Nat)^64 = 18446744073709551616 := by decide
  have hS2 : σ2.sp.toNat = S0 - 96 - 2048 := by rw [hsp2, hp.sp, BitVec.toNat_ofNat]; omega
  obtain ⟨σ3, he3, hp3⟩ := cleanup_correct hm σ2 S0 hS2 hal hlo hhi
  refine ⟨σ3, he3, ?_, ?_, hp3.low, hp3.heap⟩
  · rw [hp3.sp, ← hS]; simp
  · intro m hm19
    have hmlt := m.isLt
    -- m is the first or second register of the pair number (m − 19) / 2
    have hk : (m.val - 19) / 2 < 6 := by omega
    have hr := hp3.restored ((m.val - 19) / 2) hk
    have hs := hp.saved ((m.val - 19) / 2) hk
    have hpair : (savedPairs[(m.val - 19) / 2]'hk).1.val = 19 + 2 * ((m.val - 19) / 2) ∧
        (savedPairs[(m.val - 19) / 2]'hk).2.val = 20 + 2 * ((m.val - 19) / 2) := by
      have : (m.val - 19) / 2 = 0 ∨ (m.val - 19) / 2 = 1 ∨ (m.val - 19) / 2 = 2 ∨ (m.val - 19) / 2 = 3 ∨
          (m.val - 19) / 2 = 4 ∨ (m.val - 19) / 2 = 5 := by omega
      rcases this with e | e | e | e | e | e <;> simp only [e] <;> exact ⟨rfl, rfl⟩
    by_cases hpar : (m.val - 19) % 2 = 0
    · have hm1 : m = (savedPairs[(m.val - 19) / 2]'hk).1 := by apply Fin.ext; rw [hpair.1]; omega
      rw [hm1, hr.1, hsave _ (by omega) (by omega), hs.1]
    · have hm2 : m = (savedPairs[(m.val - 19) / 2]'hk).2 := by apply Fin.ext; rw [hpair.2]; omega
      rw [hm2, hr.2, hsave _ (by omega) (by omega), hs.2]


end Scc.A64
