/-
  Scc.A64.RefClosAddr — CODE ADDRESSES of labels for CLOSURES on AArch64 (C07): what `ADR reg, label` puts
  into the register and where `BR reg` to that address enters the laid-out program.
  * `fold_entry_label`: the fold of the machine's loader `layout` (Machine.lean) on the lines of a routine:
    a label followed by labels / comments / hooks and then an instruction.  The indirect-jump entry of the
    instruction's offset is the item index of the LAST label before the instruction (hooks that follow that
    label are executed, hooks before it are skipped): an index between the item index of the first label and
    the item index of the instruction.
  * `HoldsB hk P cs`: `HoldsA` (RefHeapAddr.lean) together with the offsets of ALL items (hooks included) and
    that fact about entries; `holdsB_layout`: `layout ls` holds the routine in this sense.
  * `Tol P pc0 pcR`: the machine is at item `pcR`, the statement boundary at item `pc0`, only `#ctx` hooks in
    between (after the `BR` of an `invoke` of a single-method closure); `tol_run` brings a run from the
    boundary and the machine together again.
  * `labelWord_eq_addrOf`, `mstep_adr`, `mstep_br_label`: `ADR` loads `addrOf c cs idx` (RefClosDefs.lean) for
    the label at list position `idx`, `BR` to that address enters within `Tol` of the position behind the
    labels.
-/
import Scc.A64.RefHeapAddr
import Scc.A64.RefClosDefs

set_option linter.unusedVariables false
set_option linter.unusedSimpArgs false

namespace Scc.A64.Ref.K

open Scc.AxCut Scc.Backend Scc.A64 Scc.A64.CC

/-! ## the fold of `layout`: the entry behind a label -/

section Fold
variable {hkv : String → Option (List (String × Kind))}

theorem icnt_cons (hk : Code → Bool) (c : Code) (l : List Code) :
    icnt hk (c :: l) = (if isItem hk c then 1 else 0) + icnt hk l := by
  unfold icnt
  rw [List.filter_cons]
  cases isItem hk c <;> simp
  omega

theorem icnt_nil (hk : Code → Bool) : icnt hk [] = 0 := rfl

theorem icnt_append (hk : Code → Bool) (a b : List Code) : icnt hk (a ++ b) = icnt hk a + icnt hk b := by
  unfold icnt
  rw [List.filter_append, List.length_append]

theorem ninstr_append (a b : List Code) : ninstr (a ++ b) = ninstr a + ninstr b := by
  unfold ninstr
  rw [List.filter_append, List.length_append]

/-- what the layout step of the line of a code does to offset and sizes -/
theorem layStep_sizes {c : Code} {pl : PLine} (hl : lineOf hkv c = some pl) (acc : LayoutAcc) (ln : Nat)
    (hsz : acc.offs.size = acc.items.size) :
    (layStep acc (ln, pl)).offs.size = (layStep acc (ln, pl)).items.size ∧
    (layStep acc (ln, pl)).off = acc.off + 4 * (if c.isMeta then 0 else 1) ∧
    (layStep acc (ln, pl)).items.size = acc.items.size + (if isItem (hkOf hkv) c then 1 else 0) := by
  rcases lineOf_cases hl with ⟨hm, i, rfl⟩ | ⟨hm, hcase⟩
  · refine ⟨by simp [layStep, hsz], by simp [layStep, hm], by simp [layStep, isItem, hm]⟩
  · rcases hcase with ⟨l, rfl, rfl⟩ | rfl | rfl | ⟨vs, rfl, hh⟩
    · exact ⟨hsz, by simp [layStep, Code.isMeta], by simp [layStep, isItem, Code.isMeta, hkOf]⟩
    · have hnh : hkOf hkv c = false := by
        cases c <;> simp only [lineOf, Option.some.injEq, Option.map_eq_some_iff] at hl <;>
          first | rfl | (split at hl <;> simp_all [hkOf])
      exact ⟨hsz, by simp [layStep, hm], by simp [layStep, isItem, hm, hnh]⟩
    · have hnh : hkOf hkv c = false := by
        cases c <;> simp only [lineOf, Option.some.injEq, Option.map_eq_some_iff] at hl <;>
          first | rfl | (split at hl <;> simp_all [hkOf])
      exact ⟨hsz, by simp [layStep, hm], by simp [layStep, isItem, hm, hnh]⟩
    · exact ⟨by simp [layStep, hsz], by simp [layStep, hm], by simp [layStep, isItem, hh]⟩

/-- the layout step of a META code: the entries are untouched; a label resets the pending entry to the
current item index, everything else keeps a pending entry -/
theorem layStep_meta {c : Code} {pl : PLine} (hl : lineOf hkv c = some pl) (hm : c.isMeta = true)
    (acc : LayoutAcc) (ln : Nat) {e : Nat} (he : acc.entry = some e) (hle : e ≤ acc.items.size) :
    (layStep acc (ln, pl)).entries = acc.entries ∧
    ∃ e1, (layStep acc (ln, pl)).entry = some e1 ∧ e ≤ e1 ∧ e1 ≤ acc.items.size := by
  rcases lineOf_cases hl with ⟨hm', _⟩ | ⟨_, hcase⟩
  · rw [hm] at hm'; cases hm'
  · rcases hcase with ⟨l, rfl, rfl⟩ | rfl | rfl | ⟨vs, rfl, hh⟩
    · exact ⟨rfl, acc.items.size, rfl, hle, Nat.le_refl _⟩
    · exact ⟨rfl, e, he, Nat.le_refl _, hle⟩
    · exact ⟨rfl, e, he, Nat.le_refl _, hle⟩
    · refine ⟨rfl, e, ?_, Nat.le_refl _, hle⟩
      simp [layStep, he]

/-- metas, then an instruction, with a pending entry `e`: the entry of the instruction's offset lies between
`e` and the item index of the instruction -/
theorem fold_entry_metas {ls : List (Nat × PLine)} {R : List Code} (h : Lines hkv ls R) :
    ∀ acc : LayoutAcc, acc.offs.size = acc.items.size →
      ∀ (B : List Code) (c2 : Code) (R0 : List Code) (e : Nat), R = B ++ c2 :: R0 →
        (∀ b ∈ B, b.isMeta = true) → c2.isMeta = false → acc.entry = some e → e ≤ acc.items.size →
        ∃ e', (ls.foldl layStep acc).entries[acc.off]? = some e' ∧ e ≤ e' ∧
          e' ≤ acc.items.size + icnt (hkOf hkv) B := by
  induction h with
  | nil =>
    intro acc _ B c2 R0 e hR
    cases B <;> cases hR
  | blank ln _ ih =>
    intro acc hsz
    rw [List.foldl_cons]
    exact ih acc hsz
  | @code ln c pl ls R hl hlines ih =>
    intro acc hsz B c2 R0 e hR hB hc2 he hle
    rw [List.foldl_cons]
    obtain ⟨hsz1, hoff1, hisz1⟩ := layStep_sizes hl acc ln hsz
    cases B with
    | nil =>
      simp only [List.nil_append, List.cons.injEq] at hR
      obtain ⟨rfl, rfl⟩ := hR
      rcases lineOf_cases hl with ⟨_, i, rfl⟩ | ⟨hm, _⟩
      · have hkey : (layStep acc (ln, .instr i)).entries[acc.off]? = some e := by
          simp [layStep, he]
        obtain ⟨_, _, i3, _⟩ := fold_addr hlines (layStep acc (ln, .instr i)) hsz1
        rw [hc2] at hoff1
        refine ⟨e, ?_, Nat.le_refl _, by simp [icnt]; exact hle⟩
        rw [i3 acc.off (by rw [hoff1]; simp), hkey]
      · rw [hc2] at hm; cases hm
    | cons b B' =>
      simp only [List.cons_append, List.cons.injEq] at hR
      obtain ⟨rfl, rfl⟩ := hR
      have hbm := hB c (by simp)
      obtain ⟨hent, e1, he1, h1, h2⟩ := layStep_meta hl hbm acc ln he hle
      rw [hbm] at hoff1
      simp only [if_true, Nat.mul_zero, Nat.add_zero] at hoff1
      obtain ⟨e', g1, g2, g3⟩ := ih (layStep acc (ln, pl)) hsz1 B' c2 R0 e1 rfl
        (fun b hb => hB b (by simp [hb])) hc2 he1 (by rw [hisz1]; omega)
      rw [hoff1] at g1
      refine ⟨e', g1, by omega, ?_⟩
      rw [icnt_cons]
      rw [hisz1] at g3
      omega

/-- THE ENTRY BEHIND A LABEL: a label, then labels / comments / hooks, then an instruction -/
theorem fold_entry_label {ls : List (Nat × PLine)} {R : List Code} (h : Lines hkv ls R) :
    ∀ acc : LayoutAcc, acc.offs.size = acc.items.size →
      ∀ (A : List Code) (l : String) (B : List Code) (c2 : Code) (R0 : List Code),
        R = A ++ Code.LAB l :: (B ++ c2 :: R0) → (∀ b ∈ B, b.isMeta = true) → c2.isMeta = false →
        ∃ e', (ls.foldl layStep acc).entries[acc.off + 4 * ninstr A]? = some e' ∧
          acc.items.size + icnt (hkOf hkv) A ≤ e' ∧
          e' ≤ acc.items.size + icnt (hkOf hkv) (A ++ Code.LAB l :: B) := by
  induction h with
  | nil =>
    intro acc _ A l B c2 R0 hR
    cases A <;> cases hR
  | blank ln _ ih =>
    intro acc hsz
    rw [List.foldl_cons]
    exact ih acc hsz
  | @code ln c pl ls R hl hlines ih =>
    intro acc hsz A l B c2 R0 hR hB hc2
    rw [List.foldl_cons]
    obtain ⟨hsz1, hoff1, hisz1⟩ := layStep_sizes hl acc ln hsz
    cases A with
    | nil =>
      simp only [List.nil_append, List.cons.injEq] at hR
      obtain ⟨rfl, rfl⟩ := hR
      have hpl : pl = .label l := by
        simp only [lineOf, Option.some.injEq] at hl
        exact hl.symm
      subst hpl
      have hent : (layStep acc (ln, .label l)).entry = some acc.items.size := rfl
      have hoff : (layStep acc (ln, .label l)).off = acc.off := rfl
      have hisz : (layStep acc (ln, .label l)).items.size = acc.items.size := rfl
      obtain ⟨e', g1, g2, g3⟩ := fold_entry_metas hlines (layStep acc (ln, .label l)) hsz1 B c2 R0 _ rfl hB hc2
        hent (by rw [hisz]; exact Nat.le_refl _)
      rw [hoff] at g1
      rw [hisz] at g3
      refine ⟨e', by simpa [ninstr] using g1, by simpa [icnt] using g2, ?_⟩
      rw [List.nil_append, icnt_cons]
      simp only [isItem, Code.isMeta, hkOf, Bool.not_true, Bool.or_false, Bool.false_eq_true, if_false, Nat.zero_add]
      exact g3
    | cons a A' =>
      simp only [List.cons_append, List.cons.injEq] at hR
      obtain ⟨rfl, rfl⟩ := hR
      obtain ⟨e', g1, g2, g3⟩ := ih (layStep acc (ln, pl)) hsz1 A' l B c2 R0 rfl hB hc2
      refine ⟨e', ?_, ?_, ?_⟩
      · rw [hoff1] at g1
        rw [ninstr_cons]
        have : acc.off + 4 * ((if c.isMeta = true then 0 else 1) + ninstr A') =
            acc.off + 4 * (if c.isMeta = true then 0 else 1) + 4 * ninstr A' := by omega
        rw [this]
        exact g1
      · rw [hisz1] at g2
        rw [icnt_cons]
        omega
      · rw [hisz1] at g3
        rw [List.cons_append, icnt_cons]
        omega

end Fold

/-! ## holding a routine with the addresses of its labels -/

/-- `HoldsA` with the offsets of all items and the entries behind labels -/
structure HoldsB (hk : Code → Bool) (P : Prog) (cs : List Code) : Prop where
  holdsA : HoldsA hk P cs
  /-- the offset of an item (instruction or hook): 4 × the number of instructions before it -/
  offsI : ∀ k code, cs[k]? = some code → isItem hk code = true →
    P.offs[pcOf hk cs k]? = some (4 * ninstr (cs.take k))
  /-- the entry of the offset of a label that is followed by labels / comments / hooks and an instruction -/
  entriesL : ∀ (A : List Code) (l : String) (B : List Code) (c2 : Code) (R0 : List Code),
    cs = A ++ Code.LAB l :: (B ++ c2 :: R0) → (∀ b ∈ B, b.isMeta = true) → c2.isMeta = false →
    ∃ e, P.entries[4 * ninstr A]? = some e ∧ icnt hk A ≤ e ∧ e ≤ icnt hk (A ++ Code.LAB l :: B)

theorem holdsB_layout {hkv : String → Option (List (String × Kind))} {ls : List (Nat × PLine)}
    {cs : List Code} (h : Lines hkv ls cs) : HoldsB (hkOf hkv) (layout ls) cs := by
  refine ⟨holdsA_layout h, ?_, ?_⟩
  · intro k code hk hi
    obtain ⟨_, _, _, _, i5, _, _⟩ := fold_addr h {} rfl
    have := i5 k code hk hi
    rw [layout_offs']
    simpa [pcOf] using this
  · intro A l B c2 R0 hcs hB hc2
    obtain ⟨e, g1, g2, g3⟩ := fold_entry_label h {} rfl A l B c2 R0 hcs hB hc2
    refine ⟨e, ?_, by simpa using g2, by simpa using g3⟩
    rw [layout_entries']
    simpa using g1

/-! ## the machine a few hooks ahead -/

/-- the machine is at item `pcR`, the statement boundary at item `pc0`: only `#ctx` hooks in between -/
def Tol (P : Prog) (pc0 pcR : Nat) : Prop :=
  pc0 ≤ pcR ∧ ∀ i, pc0 ≤ i → i < pcR → ∃ vs, P.items[i]? = some (.hook vs)

theorem Tol.refl (P : Prog) (pc : Nat) : Tol P pc pc := ⟨Nat.le_refl _, fun i h1 h2 => by omega⟩

theorem Tol.trans {P : Prog} {a b c : Nat} (h1 : Tol P a b) (h2 : Tol P b c) : Tol P a c := by
  refine ⟨Nat.le_trans h1.1 h2.1, fun i hi1 hi2 => ?_⟩
  by_cases h : i < b
  · exact h1.2 i hi1 h
  · exact h2.2 i (by omega) hi2

/-- the hooks between the boundary and the machine -/
theorem Tol.msteps {P : Prog} {c : MemCfg} {pc0 pcR : Nat} (T : Tol P pc0 pcR) (σ : State)
    (out : List (Bool × Word)) : MSteps P c σ pc0 out σ pcR out := by
  obtain ⟨hle, hh⟩ := T
  have key : ∀ d pc0, pc0 + d = pcR → (∀ i, pc0 ≤ i → i < pcR → ∃ vs, P.items[i]? = some (.hook vs)) →
      MSteps P c σ pc0 out σ pcR out := by
    intro d
    induction d with
    | zero => intro pc0 e _; have : pc0 = pcR := by omega
              subst this; exact .refl _ _ _
    | succ d ih =>
      intro pc0 e hh
      obtain ⟨vs, hv⟩ := hh pc0 (Nat.le_refl _) (by omega)
      exact .step (.hook hv) (ih (pc0 + 1) (by omega) (fun i h1 h2 => hh i (by omega) h2))
  exact key (pcR - pc0) pc0 (by omega) hh

/-- a run from the boundary, the machine ahead by hooks: either the machine reaches the end of the run, or
the run ended among the hooks (nothing happened) -/
theorem tol_run {P : Prog} {c : MemCfg} {σ σ1 : State} {pc0 pc1 pcR : Nat} {out out1 : List (Bool × Word)}
    (h : MSteps P c σ pc0 out σ1 pc1 out1) (T : Tol P pc0 pcR) :
    MSteps P c σ pcR out σ1 pc1 out1 ∨ (σ1 = σ ∧ out1 = out ∧ Tol P pc1 pcR) := by
  induction h with
  | refl σ pc out => exact Or.inr ⟨rfl, rfl, T⟩
  | @step σ σa σb pc pca pcb out outa outb hs hrest ih =>
    by_cases he : pc = pcR
    · subst he
      exact Or.inl (.step hs hrest)
    · have hlt : pc < pcR := by have := T.1; omega
      obtain ⟨vs, hv⟩ := T.2 pc (Nat.le_refl _) hlt
      cases hs with
      | hook hi =>
        exact ih ⟨by omega, fun i h1 h2 => T.2 i (by omega) h2⟩
      | next hi _ => rw [hv] at hi; cases hi
      | print hi _ => rw [hv] at hi; cases hi

/-- the same for a run that ends at an instruction (the final `RET`) -/
theorem tol_run_instr {P : Prog} {c : MemCfg} {σ σ1 : State} {pc0 pc1 pcR : Nat} {out out1 : List (Bool × Word)}
    (h : MSteps P c σ pc0 out σ1 pc1 out1) (T : Tol P pc0 pcR) {i : Instr}
    (hi : P.items[pc1]? = some (.instr i)) : MSteps P c σ pcR out σ1 pc1 out1 := by
  rcases tol_run h T with h1 | ⟨rfl, rfl, T1⟩
  · exact h1
  · have : pc1 = pcR := by
      by_cases hlt : pc1 < pcR
      · obtain ⟨vs, hv⟩ := T1.2 pc1 (Nat.le_refl _) hlt
        rw [hv] at hi; cases hi
      · have := T1.1; omega
    subst this
    exact .refl _ _ _

/-! ## positions without items -/

section Pos
variable {hk : Code → Bool} {P : Prog} {cs : List Code}

theorem pcOf_append_left (A R : List Code) : pcOf hk (A ++ R) A.length = icnt hk A := by
  unfold pcOf; rw [List.take_left']; rfl

theorem ninstr_take_left (A R : List Code) : ninstr ((A ++ R).take A.length) = ninstr A := by
  rw [List.take_left']; rfl

/-- non-items are no instructions -/
theorem ninstr_of_noitems : ∀ (B : List Code), (∀ b ∈ B, isItem hk b = false) → ninstr B = 0 ∧ icnt hk B = 0
  | [], _ => ⟨rfl, rfl⟩
  | b :: B, h => by
    obtain ⟨i1, i2⟩ := ninstr_of_noitems B (fun x hx => h x (by simp [hx]))
    have hb := h b (by simp)
    have hm : b.isMeta = true := by
      simp only [isItem, Bool.or_eq_false_iff, Bool.not_eq_false'] at hb
      exact hb.1
    rw [ninstr_cons, icnt_cons, hm, hb, i1, i2]
    simp

/-- the first item of metas followed by an instruction -/
theorem first_item : ∀ (B : List Code) (c2 : Code), c2.isMeta = false →
    ∃ B1 x B2, B ++ [c2] = B1 ++ x :: B2 ∧ (∀ b ∈ B1, isItem hk b = false) ∧ isItem hk x = true ∧
      B1.length ≤ B.length
  | [], c2, h2 => ⟨[], c2, [], rfl, fun _ h => absurd h List.not_mem_nil, by simp [isItem, h2], Nat.le_refl _⟩
  | b :: B, c2, h2 => by
    by_cases hb : isItem hk b = true
    · exact ⟨[], b, B ++ [c2], rfl, fun _ h => absurd h List.not_mem_nil, hb, by simp⟩
    · obtain ⟨B1, x, B2, e, h1, hx, hl⟩ := first_item B c2 h2
      refine ⟨b :: B1, x, B2, by simp [e], ?_, hx, by simp; omega⟩
      intro y hy
      rcases List.mem_cons.1 hy with rfl | hy
      · simpa using hb
      · exact h1 y hy

end Pos

/-! ## `ADR` and `BR` at a label -/

section Adr

variable {hk : Code → Bool} {P : Prog} {cs : List Code} (HB : HoldsB hk P cs) (hnd : (labs cs).Nodup)
  {c : MemCfg}

include HB hnd in
/-- THE ADDRESS OF A LABEL that is followed by labels / comments / hooks and an instruction: the label
resolves, to an item of the program, and `ADR` computes the byte address `addrOf` -/
theorem label_addr {A : List Code} {l : String} {B : List Code} {c2 : Code} {R0 : List Code}
    (hcs : cs = A ++ Code.LAB l :: (B ++ c2 :: R0)) (hB : ∀ b ∈ B, b.isMeta = true) (hc2 : c2.isMeta = false) :
    P.labels[l]? = some (pcOf hk cs A.length) ∧ pcOf hk cs A.length < P.items.size ∧
      labelWord P c (pcOf hk cs A.length) = addrOf c cs A.length := by
  have Hp := HB.holdsA.holds
  have hiL : cs[A.length]? = some (Code.LAB l) := by rw [hcs]; exact getElem?_mid _ _ _
  obtain ⟨B1, x, B2, e, h1, hx, hl⟩ := first_item (hk := hk) B c2 hc2
  -- the first item behind the label
  have hcs' : cs = (A ++ Code.LAB l :: B1) ++ x :: (B2 ++ R0) := by
    rw [hcs]
    have : B ++ c2 :: R0 = (B ++ [c2]) ++ R0 := by simp
    rw [this, e]; simp [List.append_assoc]
  have hgx : cs[(A ++ Code.LAB l :: B1).length]? = some x := by
    conv => lhs; rw [hcs']
    exact getElem?_mid _ _ _
  have hlab0 : isItem hk (Code.LAB l) = false := by
    cases hh : hk (Code.LAB l) with
    | false => simp [isItem, Code.isMeta, hh]
    | true => obtain ⟨m, e⟩ := Hp.hkComment _ hh; cases e
  obtain ⟨n1, n2⟩ := ninstr_of_noitems (hk := hk) (Code.LAB l :: B1) (by
    intro y hy
    rcases List.mem_cons.1 hy with rfl | hy
    · exact hlab0
    · exact h1 y hy)
  have hpcm : pcOf hk cs (A ++ Code.LAB l :: B1).length = pcOf hk cs A.length := by
    conv => lhs; rw [hcs']
    rw [pcOf_append_left, icnt_append, n2, Nat.add_zero]
    conv => rhs; rw [hcs]
    rw [pcOf_append_left]
  have hnim : ninstr (cs.take (A ++ Code.LAB l :: B1).length) = ninstr (cs.take A.length) := by
    conv => lhs; rw [hcs']
    rw [ninstr_take_left, ninstr_append, n1, Nat.add_zero]
    conv => rhs; rw [hcs]
    rw [ninstr_take_left]
  have hoffs := HB.offsI _ x hgx hx
  rw [hpcm, hnim] at hoffs
  have hsize : pcOf hk cs A.length < P.items.size := by
    rw [← hpcm]
    by_cases hm : x.isMeta = true
    · have hh : hk x = true := by
        simp only [isItem, hm, Bool.not_true, Bool.false_or] at hx; exact hx
      obtain ⟨vs, hit⟩ := Hp.hook _ x hgx hh
      exact (Array.getElem?_eq_some_iff.1 hit).1
    · obtain ⟨i, _, hit⟩ := Hp.instr _ x hgx (by simpa using hm)
      exact (Array.getElem?_eq_some_iff.1 hit).1
  refine ⟨label_of_nodup Hp hnd hiL, hsize, ?_⟩
  unfold labelWord addrOf
  rw [Array.getD_eq_getD_getElem?, hoffs]
  rfl

/-- `ADR` with a label that resolves -/
theorem step_adr' {l : String} {j : Nat} (hl : P.labels[l]? = some j) (hj : j < P.items.size)
    (d : Fin 31) (σ : State) (pc : Nat) :
    step P c (.adr (.x d) l) σ pc = .next (σ.setReg d (some (labelWord P c j))) (pc + 1) := by
  simp [step, Prog.labelAddr, hl, hj, State.wrZ, wrX_eq_setReg, labelWord]

include HB in
/-- `BR` to the address of such a label enters the program within `Tol` of the position `kb` behind the
label, if only non-items stand between the label and `kb` -/
theorem step_br_label {A : List Code} {l : String} {B : List Code} {c2 : Code} {R0 : List Code}
    (hcs : cs = A ++ Code.LAB l :: (B ++ c2 :: R0)) (hB : ∀ b ∈ B, b.isMeta = true) (hc2 : c2.isMeta = false)
    (hfit : c.codeBase + 4 * ninstr cs < 2 ^ 64)
    (d : Fin 31) (σ : State) (pc : Nat) (hd : σ.reg d = some (addrOf c cs A.length)) :
    ∃ e, step P c (.br (.x d)) σ pc = .next σ e ∧ Tol P (pcOf hk cs A.length) e := by
  have Hp := HB.holdsA.holds
  obtain ⟨e, he, h1, h2⟩ := HB.entriesL A l B c2 R0 hcs hB hc2
  have hA : ninstr (cs.take A.length) = ninstr A := by rw [hcs]; exact ninstr_take_left _ _
  have hle : ninstr A ≤ ninstr cs := by rw [← hA]; exact ninstr_take_le cs _
  have hn : (addrOf c cs A.length).toNat = c.codeBase + 4 * ninstr A := by
    unfold addrOf
    rw [hA, BitVec.toNat_ofNat, Nat.mod_eq_of_lt (by omega)]
  have hlt : ¬ (c.codeBase + 4 * ninstr A < c.codeBase) := by omega
  have hsub : c.codeBase + 4 * ninstr A - c.codeBase = 4 * ninstr A := by omega
  refine ⟨e, by simp only [step, rdX_reg, hd, hn, hlt, if_false, hsub, he], ?_⟩
  have hpc : pcOf hk cs A.length = icnt hk A := by rw [hcs]; exact pcOf_append_left _ _
  rw [hpc]
  refine ⟨h1, fun i hi1 hi2 => ?_⟩
  -- item `i` is one of the items of `B`: a hook
  have hlab0 : isItem hk (Code.LAB l) = false := by
    cases hh : hk (Code.LAB l) with
    | false => simp [isItem, Code.isMeta, hh]
    | true => obtain ⟨m, e⟩ := Hp.hkComment _ hh; cases e
  -- find the position in `B`
  have key : ∀ (B' : List Code) (pre : List Code), cs = pre ++ B' ++ (c2 :: R0) → (∀ b ∈ B', b.isMeta = true) →
      icnt hk pre ≤ i → i < icnt hk (pre ++ B') → ∃ vs, P.items[i]? = some (.hook vs) := by
    intro B'
    induction B' with
    | nil => intro pre _ _ h1 h2; simp at h2; omega
    | cons b B' ih =>
      intro pre hcs2 hm hp1 hp2
      by_cases hib : isItem hk b = true
      · by_cases hie : i = icnt hk pre
        · have hgb : cs[pre.length]? = some b := by
            rw [hcs2, List.append_assoc]; exact getElem?_mid _ _ _
          have hh : hk b = true := by
            have := hm b (by simp)
            simp only [isItem, this, Bool.not_true, Bool.false_or] at hib; exact hib
          obtain ⟨vs, hit⟩ := Hp.hook _ b hgb hh
          have : icnt hk (cs.take pre.length) = icnt hk pre := by
            rw [hcs2, List.append_assoc, List.take_left']; rfl
          rw [this] at hit
          exact ⟨vs, by rw [hie]; exact hit⟩
        · refine ih (pre ++ [b]) (by rw [hcs2]; simp) (fun y hy => hm y (by simp [hy])) ?_ ?_
          · rw [icnt_append, icnt_cons, hib, icnt_nil]; simp only [if_true]; omega
          · have : pre ++ [b] ++ B' = pre ++ b :: B' := by simp
            rw [this]; exact hp2
      · refine ih (pre ++ [b]) (by rw [hcs2]; simp) (fun y hy => hm y (by simp [hy])) ?_ ?_
        · rw [icnt_append, icnt_cons]
          have : isItem hk b = false := by simpa using hib
          rw [this, icnt_nil]; simpa using hp1
        · have : pre ++ [b] ++ B' = pre ++ b :: B' := by simp
          rw [this]; exact hp2
  refine key B (A ++ [Code.LAB l]) (by rw [hcs]; simp) hB ?_ ?_
  · rw [icnt_append, icnt_cons, hlab0, icnt_nil]; simpa using hi1
  · have : A ++ [Code.LAB l] ++ B = A ++ Code.LAB l :: B := by simp
    rw [this]; omega

end Adr

end Scc.A64.Ref.K
