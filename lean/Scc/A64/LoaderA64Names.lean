/-
  Scc.A64.LoaderA64Names — the AArch64 instance of `OpsNamesC` (Scc/Backend/LoaderNamesC.lean): every
  method of the AArch64 backend (Scc/A64/Backend.lean: config.rs, code.rs, memory.rs, parallel_moves.rs)
  returns only codes whose strings pass the loader's text-safety check `nmA` (Scc/A64/LoaderCheck.lean),
  given that the labels it is handed are `GenLabel`s and the comments are `CommentOK`.
  Internal labels are `lab<n>`, internal comments are literals (none starts with `#ctx [`) or
  `#####check child <k> for erasure`.

  * `okcA`: the character class of names (no white space, none of `, : [ ] !`, not `.` `/` `#`),
    `okcSpecA`; `labelDefOK_of_strOK`, `nmA_label_genLabel`; `commentTextOK_of_commentOK`;
  * `opsNamesC_a64`; `compile_namesOK`, `routine_namesOK`: every item of the routine emitted for a
    program whose names are `okcA`-strings (`progNamesOK okcA`) passes `nmA`.
  Proof file.
-/
import Scc.Backend.LoaderNamesC
import Scc.A64.LoaderCheck
import Scc.A64.Backend

set_option linter.unusedVariables false
set_option linter.unusedSimpArgs false

namespace Scc.A64.Loader

open Scc.AxCut Scc.Backend Scc.A64 Scc.Backend.NamesC
open Scc.X86 (AllP Post)
open Scc.X86.Loader (NoNL StrOK OkcSpec GenLabel CtxVars identOK progNamesOK noNL_append noNL_natToString
  natToString_toList strOK_print)

/-! ## the character class of names -/

/-- characters of a name that is safe in AArch64 labels and hook comments -/
def okcA (c : Char) : Bool := labelC c && c != '.' && c != '/' && c != '#'

theorem okcA_facts {c : Char} (h : okcA c = true) : labelC c = true ∧ c ≠ '.' ∧ c ≠ '/' ∧ c ≠ '#' := by
  simp only [okcA, Bool.and_eq_true, bne_iff_ne, ne_eq] at h
  exact ⟨h.1.1.1, h.1.1.2, h.1.2, h.2⟩

theorem okcA_digit {c : Char} (h : c.isDigit = true) : okcA c = true := by
  have hr : 48 ≤ c.val ∧ c.val ≤ 57 := by simpa [Char.isDigit] using h
  have key : ∀ d : Char, (d.val < 48 ∨ 57 < d.val) → c ≠ d := by
    intro d hd e; subst e
    rcases hd with hd | hd
    · exact absurd hr.1 (by simpa using hd)
    · exact absurd hr.2 (by simpa using hd)
  have hf := isDigit_facts h
  simp only [okcA, labelC, Bool.and_eq_true, bne_iff_ne, ne_eq, Bool.not_eq_true']
  exact ⟨⟨⟨⟨⟨⟨⟨⟨hf.2.1, key _ (by decide)⟩, key _ (by decide)⟩, key _ (by decide)⟩, key _ (by decide)⟩,
    key _ (by decide)⟩, key _ (by decide)⟩, key _ (by decide)⟩, key _ (by decide)⟩

theorem okcSpecA : OkcSpec okcA where
  nl := by intro c h e; subst e; revert h; decide
  us := by decide
  digit := fun c hc => okcA_digit hc

theorem okcA_hash : okcA '#' = false := by decide

theorem strOK_natRen (n : Nat) : StrOK okcA (natRen n) := Scc.X86.Loader.strOK_natToString okcSpecA n

/-! ## labels -/

theorem labelDefOK_of_strOK {l : String} (h : StrOK okcA l) (hne : l.toList ≠ []) : labelDefOK l = true := by
  simp only [labelDefOK, labelOK, Bool.and_eq_true, Bool.not_eq_true', List.all_eq_true, bne_iff_ne, ne_eq]
  refine ⟨⟨⟨?_, fun c hc => (okcA_facts (h c hc)).1⟩, ?_⟩, ?_⟩
  · cases hl : l.toList with
    | nil => exact absurd hl hne
    | cons _ _ => rfl
  · intro e
    exact (okcA_facts (h '.' (List.mem_of_mem_head? e))).2.1 rfl
  · cases hp : ['/', '/'].isPrefixOf l.toList with
    | false => rfl
    | true =>
      obtain ⟨t, ht⟩ := List.isPrefixOf_iff_prefix.1 hp
      exact absurd rfl (okcA_facts (h '/' (by rw [← ht]; simp))).2.2.1

theorem labelOK_of_labelDefOK {l : String} (h : labelDefOK l = true) : labelOK l = true := by
  simp only [labelDefOK, Bool.and_eq_true] at h; exact h.1.1

theorem strOK_lab (n : Nat) : StrOK okcA ("lab" ++ toString n) := by
  intro c hc
  rw [String.toList_append, natToString_toList] at hc
  rcases List.mem_append.1 hc with hc | hc
  · have : ∀ c ∈ "lab".toList, okcA c = true := by decide
    exact this c hc
  · exact okcA_digit (isDigit_toDigits n c hc)

theorem labelDefOK_lab (n : Nat) : labelDefOK ("lab" ++ toString n) = true :=
  labelDefOK_of_strOK (strOK_lab n) (by rw [String.toList_append]; simp)

theorem labelOK_lab (n : Nat) : labelOK ("lab" ++ toString n) = true := labelOK_of_labelDefOK (labelDefOK_lab n)

theorem labelDefOK_genLabel {l : String} (h : GenLabel okcA natRen l) : labelDefOK l = true := by
  rcases h with ⟨h1, h2⟩ | ⟨n, rfl⟩ | rfl
  · exact labelDefOK_of_strOK h1 (fun e => by rw [e] at h2; simp at h2)
  · exact labelDefOK_lab n
  · decide

theorem labelOK_genLabel {l : String} (h : GenLabel okcA natRen l) : labelOK l = true :=
  labelOK_of_labelDefOK (labelDefOK_genLabel h)

/-! ## comments -/

theorem commentTextOK_of_commentOK {m : String} (h : CommentOK okcA m) : commentTextOK m = true := by
  obtain ⟨h1, h2 | ⟨ctx, hc, rfl⟩⟩ := h
  · exact commentTextOK_plain h1 h2
  · rw [ctxHookComment_eq] at h1 ⊢
    apply commentTextOK_hook _ _ h1
    intro v hv
    obtain ⟨b, hb, rfl⟩ := List.mem_map.1 hv
    intro hm
    have := (okcA_facts (strOK_print okcSpecA (hc b hb) _ hm)).1
    revert this; decide

theorem commentTextOK_lit {m : String} (h1 : NoNL m) (h2 : ¬ "#ctx [".toList <+: m.toList) :
    commentTextOK m = true := commentTextOK_plain h1 h2

/-! ## lists of items -/

abbrev NmOK (l : List Code) : Prop := l.all nmA = true

theorem nmOK_append {a b : List Code} : NmOK (a ++ b) ↔ NmOK a ∧ NmOK b := by
  simp [NmOK, List.all_append]

theorem nmOK_cons {c : Code} {l : List Code} : NmOK (c :: l) ↔ nmA c = true ∧ NmOK l := by
  simp [NmOK, List.all_cons]

theorem nmOK_nil : NmOK [] := rfl

theorem allP_iff {l : List Code} : AllP (fun c => nmA c = true) l ↔ NmOK l := by
  simp [AllP, NmOK, List.all_eq_true]

theorem nm_map_of {α : Type} (f : α → Code) (h : ∀ a, nmA (f a) = true) (l : List α) : NmOK (l.map f) := by
  simp only [NmOK, List.all_map, List.all_eq_true, Function.comp]
  exact fun a _ => h a

/-! ## code.rs -/

theorem nm_moveFromRegister (t : Temporary) (r : Register) : NmOK (moveFromRegister t r) := by
  cases t <;> rfl
theorem nm_moveToRegister (r : Register) (t : Temporary) : NmOK (moveToRegister r t) := by
  cases t <;> rfl

theorem nm_remR (t a b : Register) : NmOK (remR t a b) := by
  unfold remR
  split
  · split
    · exact nmOK_cons.2 ⟨by decide, nmOK_cons.2 ⟨rfl, nmOK_cons.2 ⟨rfl, nmOK_cons.2 ⟨rfl, nmOK_cons.2 ⟨rfl,
        nmOK_cons.2 ⟨by decide, rfl⟩⟩⟩⟩⟩⟩
    · rfl
  · rfl

theorem nm_opR (o : BinOp) (t a b : Register) : NmOK (opR o t a b) := by
  cases o <;> first | rfl | exact nm_remR t a b

theorem nm_op (o : BinOp) (t s1 s2 : Temporary) : NmOK (op o t s1 s2) := by
  unfold op
  cases t <;> cases s1 <;> cases s2 <;> dsimp only <;>
    first
    | exact nm_opR _ _ _ _
    | exact nmOK_cons.2 ⟨rfl, nm_opR _ _ _ _⟩
    | exact nmOK_cons.2 ⟨rfl, nmOK_cons.2 ⟨rfl, nm_opR _ _ _ _⟩⟩
    | exact nmOK_append.2 ⟨nm_opR _ _ _ _, rfl⟩
    | exact nmOK_append.2 ⟨nmOK_cons.2 ⟨rfl, nm_opR _ _ _ _⟩, rfl⟩
    | exact nmOK_append.2 ⟨nmOK_cons.2 ⟨rfl, nmOK_cons.2 ⟨rfl, nm_opR _ _ _ _⟩⟩, rfl⟩

theorem nm_compare (a b : Temporary) : NmOK (compare a b) := by
  cases a <;> cases b <;> rfl

theorem nm_compareImmediate (t : Temporary) (i : Int) : NmOK (compareImmediate t i) := by
  cases t <;> rfl

theorem nm_jump (t : Temporary) : NmOK (jump t) := by cases t <;> rfl

theorem nm_branchOf (s : IfSort) {l : String} (h : labelOK l = true) : nmA (branchOf s l) = true := by
  cases s <;> exact h

theorem nm_jumpLabelIf (s : IfSort) (a b : Temporary) {l : String} (h : labelOK l = true) :
    NmOK (jumpLabelIf s a b l) :=
  nmOK_append.2 ⟨nm_compare _ _, nmOK_cons.2 ⟨nm_branchOf s h, nmOK_nil⟩⟩

theorem nm_jumpLabelIfZero (s : IfSort) (a : Temporary) {l : String} (h : labelOK l = true) :
    NmOK (jumpLabelIfZero s a l) :=
  nmOK_append.2 ⟨nm_compareImmediate _ _, nmOK_cons.2 ⟨nm_branchOf s h, nmOK_nil⟩⟩

theorem nm_loadImmediateLoop (r : Register) (w : BitVec 64) (inv : Bool) (ig : BitVec 16) :
    ∀ (l : List Nat) (b : Bool), NmOK (loadImmediateLoop r w inv ig l b)
  | [], _ => rfl
  | i :: is, b => by
    unfold loadImmediateLoop
    dsimp only
    split
    · split
      · exact nmOK_cons.2 ⟨rfl, nm_loadImmediateLoop r w inv ig is true⟩
      · split
        · exact nmOK_cons.2 ⟨rfl, nm_loadImmediateLoop r w inv ig is true⟩
        · exact nmOK_cons.2 ⟨rfl, nm_loadImmediateLoop r w inv ig is true⟩
    · exact nm_loadImmediateLoop r w inv ig is b

theorem nm_loadImmediateRegister (r : Register) (i : Int) : NmOK (loadImmediateRegister r i) := by
  unfold loadImmediateRegister
  dsimp only
  split
  · rfl
  · split
    · rfl
    · exact nm_loadImmediateLoop _ _ _ _ _ _

theorem nm_loadImmediate (t : Temporary) (i : Int) : NmOK (loadImmediate t i) := by
  unfold loadImmediate
  cases t
  · exact nmOK_append.2 ⟨nm_loadImmediateRegister _ _, rfl⟩
  · exact nmOK_append.2 ⟨nm_loadImmediateRegister _ _, rfl⟩

theorem nm_loadLabel (t : Temporary) {l : String} (h : labelOK l = true) : NmOK (loadLabel t l) := by
  cases t
  · exact nmOK_cons.2 ⟨h, nmOK_nil⟩
  · exact nmOK_cons.2 ⟨h, rfl⟩

theorem nm_addAndJump (t : Temporary) (i : Int) : NmOK (addAndJump t i) := by cases t <;> rfl

theorem nm_mov (t s : Temporary) : NmOK (mov t s) := by
  unfold mov
  cases s
  · exact nm_moveFromRegister _ _
  · cases t
    · exact nm_moveToRegister _ _
    · exact nmOK_append.2 ⟨nm_moveToRegister _ _, nm_moveFromRegister _ _⟩

theorem nm_storeTemporary (t : Temporary) (sp : Bool) : NmOK (storeTemporary t sp) := by cases t <;> rfl
theorem nm_restoreTemporary (t : Temporary) (sp : Bool) : NmOK (restoreTemporary t sp) := by cases t <;> rfl

theorem nm_saveCallerSaveRegisters (first : Nat) (L : List Nat) : NmOK (saveCallerSaveRegisters first L) := by
  unfold saveCallerSaveRegisters
  dsimp only
  split
  · exact nmOK_append.2 ⟨nmOK_append.2 ⟨nm_map_of _ (fun _ => rfl) _, rfl⟩, nm_map_of _ (fun _ => rfl) _⟩
  · exact nm_map_of _ (fun _ => rfl) _

theorem nm_restoreCallerSaveRegisters (first : Nat) (L : List Nat) :
    NmOK (restoreCallerSaveRegisters first L) := by
  unfold restoreCallerSaveRegisters
  dsimp only
  split
  · exact nmOK_append.2 ⟨nmOK_append.2 ⟨nm_map_of _ (fun _ => rfl) _, nm_map_of _ (fun _ => rfl) _⟩, rfl⟩
  · exact nm_map_of _ (fun _ => rfl) _

theorem nm_printI64G (old nl : Bool) (t : Temporary) (ctx : Ctx) : NmOK (printI64G old nl t ctx) := by
  unfold printI64G
  dsimp only
  simp only [nmOK_append]
  refine ⟨⟨⟨⟨⟨⟨?_, by decide⟩, nm_saveCallerSaveRegisters _ _⟩, by decide⟩, ?_⟩, ?_⟩,
    nm_restoreCallerSaveRegisters _ _⟩
  · cases t
    · rfl
    · exact nmOK_cons.2 ⟨by decide, nm_moveToRegister _ _⟩
  · cases t <;> rfl
  · cases nl <;> decide

/-! ## memory.rs -/

abbrev PostNm (m : GenM (List Code)) : Prop := Post m NmOK

theorem nm_LAB_lab (n : Nat) : nmA (.LAB ("lab" ++ toString n)) = true := labelDefOK_lab n
theorem nm_BEQ_lab (n : Nat) : nmA (.BEQ ("lab" ++ toString n)) = true := labelOK_lab n
theorem nm_B_lab (n : Nat) : nmA (.B ("lab" ++ toString n)) = true := labelOK_lab n

theorem postNm_skipIfZero (cond : Register) {body : List Code} (hb : NmOK body) :
    PostNm (skipIfZero cond body) := by
  unfold skipIfZero
  refine Post.bind (Post.true _) fun l _ => Post.pure ?_
  simp only [nmOK_append]
  exact ⟨⟨nmOK_cons.2 ⟨rfl, nmOK_cons.2 ⟨nm_BEQ_lab l, nmOK_nil⟩⟩, hb⟩, nmOK_cons.2 ⟨nm_LAB_lab l, nmOK_nil⟩⟩

theorem postNm_ifZeroThenElse (cond : Register) {tb eb : List Code} (ht : NmOK tb) (he : NmOK eb) :
    PostNm (ifZeroThenElse cond tb eb) := by
  unfold ifZeroThenElse
  refine Post.bind (Post.true _) fun l1 _ => Post.bind (Post.true _) fun l2 _ => Post.pure ?_
  simp only [nmOK_append]
  exact ⟨⟨⟨⟨nmOK_cons.2 ⟨rfl, nmOK_cons.2 ⟨nm_BEQ_lab l1, nmOK_nil⟩⟩, he⟩,
    nmOK_cons.2 ⟨nm_B_lab l2, nmOK_cons.2 ⟨nm_LAB_lab l1, nmOK_nil⟩⟩⟩, ht⟩,
    nmOK_cons.2 ⟨nm_LAB_lab l2, nmOK_nil⟩⟩

theorem postNm_eraseValidObject (r : Register) : PostNm (eraseValidObject r) := by
  unfold eraseValidObject
  exact postNm_ifZeroThenElse _ (nmOK_cons.2 ⟨by decide, rfl⟩) (nmOK_cons.2 ⟨by decide, rfl⟩)

theorem postNm_eraseBlock (t : Temporary) : PostNm (eraseBlock t) := by
  unfold eraseBlock
  cases t with
  | register r =>
    exact Post.bind (postNm_eraseValidObject _) fun c hc =>
      postNm_skipIfZero _ (nmOK_append.2 ⟨nmOK_cons.2 ⟨by decide, rfl⟩, hc⟩)
  | spill p =>
    exact Post.bind (postNm_eraseValidObject _) fun c hc =>
      Post.bind (postNm_skipIfZero _ (nmOK_append.2 ⟨nmOK_cons.2 ⟨by decide, rfl⟩, hc⟩)) fun r hr =>
        Post.pure (nmOK_cons.2 ⟨rfl, hr⟩)

theorem postNm_shareBlockN (t : Temporary) (n : Nat) : PostNm (shareBlockN t n) := by
  unfold shareBlockN
  cases t with
  | register r => exact postNm_skipIfZero _ (nmOK_cons.2 ⟨by decide, rfl⟩)
  | spill p =>
    exact Post.bind (postNm_skipIfZero _ (nmOK_cons.2 ⟨by decide, rfl⟩)) fun r hr =>
      Post.pure (nmOK_cons.2 ⟨rfl, hr⟩)

theorem postNm_shareBlock (t : Temporary) : PostNm (shareBlock t) := postNm_shareBlockN t 1

theorem nm_checkChild (k : Nat) : nmA (.COMMENT ("#####check child " ++ toString k ++ " for erasure")) = true :=
  commentTextOK_lit (noNL_append.2 ⟨noNL_append.2 ⟨by decide, noNL_natToString k⟩, by decide⟩)
    (mm_not_prefix (mm_append (mm_append (by decide))))

theorem postNm_eraseFields (r : Register) : ∀ (n offset : Nat), PostNm (eraseFields r n offset)
  | 0, _ => by unfold eraseFields; exact Post.pure nmOK_nil
  | n + 1, offset => by
    unfold eraseFields
    exact Post.bind (postNm_eraseBlock _) fun c hc =>
      Post.bind (postNm_eraseFields r n (offset + 1)) fun rest hrest =>
        Post.pure (nmOK_append.2 ⟨nmOK_append.2 ⟨nmOK_cons.2 ⟨nm_checkChild _, rfl⟩, hc⟩, hrest⟩)

theorem postNm_acquireBlock (t : Temporary) : PostNm (acquireBlock t) := by
  unfold acquireBlock
  dsimp only
  have hfirst : ∀ (u : Temporary), NmOK (match u with
      | .register newBlockRegister => [Code.MOVR newBlockRegister HEAP]
      | .spill newBlockPosition => [Code.MOVR TEMP HEAP, Code.STR HEAP .sp (stackOffset newBlockPosition)]) := by
    intro u; cases u <;> rfl
  have hinit : ∀ (u : Temporary), nmA (match u with
      | .register newBlockRegister => Code.STR .xzr newBlockRegister REFERENCE_COUNT_OFFSET
      | .spill _ => Code.STR .xzr TEMP REFERENCE_COUNT_OFFSET) = true := by
    intro u; cases u <;> rfl
  refine Post.bind (postNm_eraseFields _ _ _) fun erased he => ?_
  refine Post.bind (postNm_ifZeroThenElse _ (nmOK_cons.2 ⟨by decide, rfl⟩)
    (nmOK_append.2 ⟨nmOK_cons.2 ⟨by decide, nmOK_cons.2 ⟨rfl, nmOK_cons.2 ⟨by decide, nmOK_nil⟩⟩⟩, he⟩)) fun inner hi => ?_
  refine Post.bind (postNm_ifZeroThenElse _
    (nmOK_append.2 ⟨nmOK_cons.2 ⟨by decide, rfl⟩, hi⟩)
    (nmOK_cons.2 ⟨by decide, nmOK_cons.2 ⟨hinit t, nmOK_nil⟩⟩)) fun outer ho => ?_
  exact Post.pure (nmOK_append.2 ⟨nmOK_append.2 ⟨hfirst t,
    nmOK_cons.2 ⟨by decide, nmOK_cons.2 ⟨by decide, rfl⟩⟩⟩, ho⟩)

theorem nm_releaseBlock (r : Register) : NmOK (releaseBlock r) := rfl

theorem nm_storeZero (r : Register) (off : Nat) : NmOK (storeZero r off) := rfl

theorem nm_storeZeros (k : Nat) (r : Register) : NmOK (storeZeros k r) := by
  unfold storeZeros
  simp only [NmOK, List.all_eq_true]
  intro c hc
  obtain ⟨o, _, hco⟩ := List.mem_flatMap.1 hc
  simp only [storeZero, List.mem_singleton] at hco
  subst hco; rfl

theorem postNm_storeField (n : TempNum) (ctx : Ctx) (r : Register) (off : Nat) : PostNm (storeField n ctx r off) := by
  unfold storeField
  refine Post.bind (Post.true _) fun t _ => ?_
  cases t <;> exact Post.pure rfl

theorem postNm_loadField (n : TempNum) (ctx : Ctx) (r : Register) (off : Nat) : PostNm (loadField n ctx r off) := by
  unfold loadField
  refine Post.bind (Post.true _) fun t _ => ?_
  cases t <;> exact Post.pure rfl

theorem postNm_storeValue (b : Binding) (ctx : Ctx) (r : Register) (off : Nat) : PostNm (storeValue b ctx r off) := by
  unfold storeValue
  refine Post.bind (postNm_storeField _ _ _ _) fun c1 h1 => ?_
  split
  · exact Post.pure (nmOK_append.2 ⟨h1, nm_storeZero _ _⟩)
  · exact Post.bind (postNm_storeField _ _ _ _) fun c2 h2 => Post.pure (nmOK_append.2 ⟨h1, h2⟩)

theorem postNm_loadValue (b : Binding) (ctx : Ctx) (r : Register) (off : Nat) (mode : LoadMode) :
    PostNm (loadValue b ctx r off mode) := by
  unfold loadValue
  refine Post.bind (postNm_loadField _ _ _ _) fun c1 h1 => ?_
  split
  · refine Post.bind (postNm_loadField _ _ _ _) fun c2 h2 => ?_
    have hjp : ∀ reg : Register, PostNm (if (mode == LoadMode.share) = true then do
          let c3 ← shareBlock (.register reg)
          pure (c1 ++ c2 ++ c3)
        else pure (c1 ++ c2)) := by
      intro reg
      split
      · exact Post.bind (postNm_shareBlock _) fun c3 h3 =>
          Post.pure (nmOK_append.2 ⟨nmOK_append.2 ⟨h1, h2⟩, h3⟩)
      · exact Post.pure (nmOK_append.2 ⟨h1, h2⟩)
    refine Post.bind (Post.true _) fun t _ => ?_
    cases t <;> dsimp only <;> exact Post.bind (Post.true _) fun r _ => hjp r
  · exact Post.pure h1

theorem postNm_storeValuesLoop (ctx : Ctx) (r : Register) : ∀ (l : List Binding) (ff : Nat),
    Post (storeValuesLoop ctx r l ff) (fun res => NmOK res.1)
  | [], ff => by unfold storeValuesLoop; exact Post.pure nmOK_nil
  | b :: rest, ff => by
    unfold storeValuesLoop
    dsimp only
    split
    · exact Post.throw
    · refine Post.bind (postNm_storeValue _ _ _ _) fun c hc => ?_
      refine Post.bind (postNm_storeValuesLoop ctx r rest (ff - 1)) fun res hres => ?_
      obtain ⟨cs, ff'⟩ := res
      exact Post.pure (nmOK_append.2 ⟨hc, hres⟩)

theorem postNm_storeValues (toStore ctx : Ctx) (r : Register) (ff : Nat) : PostNm (storeValues toStore ctx r ff) := by
  unfold storeValues
  refine Post.bind (postNm_storeValuesLoop _ _ _ _) fun res hres => ?_
  obtain ⟨cs, ff'⟩ := res
  refine Post.pure ?_
  simp only [nmOK_append]
  refine ⟨⟨⟨by decide, hres⟩, ?_⟩, nm_storeZeros _ _⟩
  split
  · decide
  · rfl

theorem postNm_loadValuesLoop (ctx : Ctx) (r : Register) (mode : LoadMode) : ∀ (l : List Binding) (ff : Nat),
    PostNm (loadValuesLoop ctx r mode l ff)
  | [], ff => by unfold loadValuesLoop; exact Post.pure nmOK_nil
  | b :: rest, ff => by
    unfold loadValuesLoop
    dsimp only
    split
    · exact Post.throw
    · refine Post.bind (postNm_loadValue _ _ _ _ _) fun c hc => ?_
      refine Post.bind (postNm_loadValuesLoop ctx r mode rest (ff - 1)) fun cs hcs => ?_
      exact Post.pure (nmOK_append.2 ⟨hc, hcs⟩)

theorem postNm_loadValues (toLoad ctx : Ctx) (r : Register) (ff : Nat) (mode : LoadMode) :
    PostNm (loadValues toLoad ctx r ff mode) := by
  unfold loadValues
  exact Post.bind (postNm_loadValuesLoop _ _ _ _ _) fun cs hcs =>
    Post.pure (nmOK_cons.2 ⟨by decide, hcs⟩)

theorem postNm_storeLink (pos : BlockPosition) (ctx : Ctx) : PostNm (storeLink pos ctx) := by
  unfold storeLink
  split
  · exact Post.bind (postNm_storeField _ _ _ _) fun c hc => Post.pure (nmOK_cons.2 ⟨by decide, hc⟩)
  · exact Post.pure nmOK_nil

theorem postNm_loadLink (pos : BlockPosition) (ctx : Ctx) (r : Register) : PostNm (loadLink pos ctx r) := by
  unfold loadLink
  split
  · exact Post.bind (postNm_loadField _ _ _ _) fun c hc => Post.pure (nmOK_cons.2 ⟨by decide, hc⟩)
  · exact Post.pure nmOK_nil

theorem postNm_storeFields : ∀ (fuel : Nat) (toStore ctx : Ctx) (pos : BlockPosition),
    PostNm (storeFields fuel toStore ctx pos)
  | 0, _, _, _ => by unfold storeFields; exact Post.throw
  | fuel + 1, toStore, ctx, pos => by
    unfold storeFields
    split
    · split
      · exact Post.bind (Post.true _) fun t _ =>
          Post.pure (nmOK_cons.2 ⟨by decide, nm_loadImmediate _ _⟩)
      · exact Post.pure nmOK_nil
    · dsimp only
      refine Post.bind (postNm_storeLink _ _) fun c1 h1 => ?_
      refine Post.bind (postNm_storeValues _ _ _ _) fun c3 h3 => ?_
      refine Post.bind (Post.true _) fun t _ => ?_
      refine Post.bind (postNm_acquireBlock _) fun c4 h4 => ?_
      refine Post.bind (postNm_storeFields fuel _ _ _) fun c5 h5 => ?_
      refine Post.pure ?_
      simp only [nmOK_append]
      refine ⟨⟨⟨⟨⟨h1, ?_⟩, h3⟩, by decide⟩, h4⟩, h5⟩
      split
      · decide
      · rfl

theorem postNm_store (toStore ctx : Ctx) : PostNm (store toStore ctx) := postNm_storeFields _ _ _ _

theorem postNm_loadFields : ∀ (fuel : Nat) (toLoad ctx : Ctx) (pos : BlockPosition) (mode : LoadMode)
    (freed : Bool), Post (loadFields fuel toLoad ctx pos mode freed) (fun res => NmOK res.1)
  | 0, _, _, _, _, _ => by unfold loadFields; exact Post.throw
  | fuel + 1, toLoad, ctx, pos, mode, freed => by
    unfold loadFields
    split
    · exact Post.pure nmOK_nil
    · dsimp only
      refine Post.bind (postNm_loadFields fuel _ _ _ _ _) fun res hres => ?_
      obtain ⟨c0, freed'⟩ := res
      dsimp only
      refine Post.bind (Post.true _) fun mb _ => ?_
      cases mb with
      | register r =>
        dsimp only
        refine Post.bind (postNm_loadLink _ _ _) fun c2 h2 => ?_
        refine Post.bind (postNm_loadValues _ _ _ _ _) fun c3 h3 => Post.pure ?_
        simp only [nmOK_append]
        refine ⟨⟨⟨hres, ?_⟩, h2⟩, h3⟩
        split
        · exact nmOK_cons.2 ⟨by decide, nm_releaseBlock _⟩
        · rfl
      | spill p =>
        dsimp only
        refine Post.bind (postNm_loadLink _ _ _) fun c2 h2 => ?_
        refine Post.bind (postNm_loadValues _ _ _ _ _) fun c3 h3 => Post.pure ?_
        simp only [nmOK_append]
        refine ⟨⟨⟨⟨⟨hres, ?_⟩, ⟨rfl, ?_⟩⟩, h2⟩, h3⟩, ?_⟩
        · split
          · exact nmOK_cons.2 ⟨by decide, rfl⟩
          · rfl
        · split
          · exact nmOK_cons.2 ⟨by decide, nm_releaseBlock _⟩
          · rfl
        · split
          · exact nmOK_cons.2 ⟨by decide, rfl⟩
          · rfl

theorem postNm_loadRegister (r : Register) (toLoad ctx : Ctx) : PostNm (loadRegister r toLoad ctx) := by
  unfold loadRegister
  refine Post.bind (postNm_loadFields _ _ _ _ _ _) fun res1 h1 => ?_
  obtain ⟨cThen, f1⟩ := res1
  dsimp only
  refine Post.bind (postNm_loadFields _ _ _ _ _ _) fun res2 h2 => ?_
  obtain ⟨cElse, f2⟩ := res2
  dsimp only
  refine Post.bind (postNm_ifZeroThenElse _ (nmOK_cons.2 ⟨by decide, h1⟩)
    (nmOK_append.2 ⟨nmOK_cons.2 ⟨by decide, rfl⟩, h2⟩)) fun c hc => ?_
  exact Post.pure (nmOK_cons.2 ⟨by decide, hc⟩)

theorem postNm_load (toLoad ctx : Ctx) : PostNm (load toLoad ctx) := by
  unfold load
  split
  · exact Post.pure nmOK_nil
  · refine Post.bind (Post.true _) fun mb _ => ?_
    cases mb with
    | register r =>
      exact Post.bind (postNm_loadRegister _ _ _) fun c hc =>
        Post.pure (nmOK_append.2 ⟨nmOK_cons.2 ⟨by decide, rfl⟩, hc⟩)
    | spill p =>
      exact Post.bind (postNm_loadRegister _ _ _) fun c hc =>
        Post.pure (nmOK_append.2 ⟨nmOK_cons.2 ⟨by decide, rfl⟩, hc⟩)

/-! ## the instance -/

theorem allP_of_nm {l : List Code} (h : NmOK l) : AllP (fun c => nmA c = true) l := allP_iff.2 h

theorem opsNamesC_a64 :
    OpsNamesC a64Backend (fun c => nmA c = true) (CommentOK okcA) (GenLabel okcA natRen) where
  comment := fun m hm => commentTextOK_of_commentOK hm
  label := fun l hl => labelDefOK_genLabel hl
  jump := fun t => allP_of_nm (nm_jump t)
  jumpLabel := fun l hl => allP_of_nm (nmOK_cons.2 ⟨labelOK_genLabel hl, nmOK_nil⟩)
  jumpLabelFixed := fun l hl => allP_of_nm (nmOK_cons.2 ⟨labelOK_genLabel hl, nmOK_nil⟩)
  jumpLabelIf := fun s a b l hl => allP_of_nm (nm_jumpLabelIf s a b (labelOK_genLabel hl))
  jumpLabelIfZero := fun s a l hl => allP_of_nm (nm_jumpLabelIfZero s a (labelOK_genLabel hl))
  loadImmediate := fun t n => allP_of_nm (nm_loadImmediate t n)
  loadLabel := fun t l hl => allP_of_nm (nm_loadLabel t (labelOK_genLabel hl))
  addAndJump := fun t k => allP_of_nm (nm_addAndJump t k)
  binop := fun o t s1 s2 => allP_of_nm (nm_op o t s1 s2)
  mov := fun t s => allP_of_nm (nm_mov t s)
  printI64 := fun nl t ctx => Post.pure (allP_of_nm (nm_printI64G false nl t ctx))
  eraseBlock := fun t => (postNm_eraseBlock t).mono fun _ => allP_of_nm
  shareBlockN := fun t n => (postNm_shareBlockN t n).mono fun _ => allP_of_nm
  store := fun a b => (postNm_store a b).mono fun _ => allP_of_nm
  load := fun a b => (postNm_load a b).mono fun _ => allP_of_nm
  storeTemporary := fun t sp => allP_of_nm (nm_storeTemporary t sp)
  restoreTemporary := fun t sp => allP_of_nm (nm_restoreTemporary t sp)

/-! ## whole programs -/

theorem nm_moveArguments : ∀ (n : Nat) (codes : List Code), moveArguments n = .ok codes → NmOK codes
  | 0, codes, h => by simp only [moveArguments] at h; cases h; decide
  | 1, codes, h => by simp only [moveArguments] at h; cases h; decide
  | n + 2, codes, h => by
    simp only [moveArguments] at h
    split at h
    · split at h
      · rename_i rest hrest
        cases h
        exact nmOK_append.2 ⟨nmOK_cons.2 ⟨by decide, rfl⟩, nm_moveArguments (n + 1) _ hrest⟩
      · cases h
    · cases h

theorem nm_setup {n : Nat} {codes : List Code} (h : setup n = .ok codes) : NmOK codes := by
  unfold setup at h
  split at h
  · cases h
  · rename_i moves hm
    cases h
    simp only [nmOK_append]
    exact ⟨⟨by decide, nm_moveArguments _ _ hm⟩, by decide⟩

theorem nm_cleanup : NmOK cleanup := by decide
theorem nm_preamble : NmOK preamble := by decide

/-- the strings of every item of the routine emitted for a program with text-safe names are text-safe -/
theorem routine_namesOK {p : AxCut.Prog} {hooks : Bool} {c0 : Nat} {body routine : List Code} {nargs : Nat}
    (hp : progNamesOK okcA p = true) (h : compileProg a64Backend p hooks c0 = .ok (body, nargs, routine)) :
    NmOK body ∧ NmOK routine := by
  unfold compileProg at h
  split at h
  · cases h
  · rename_i b n c' hr
    have hb : NmOK b := allP_iff.1 (post_compileR_namesC okcSpecA okcA_hash strOK_natRen opsNamesC_a64
      hooks p hp c0 _ c' hr)
    split at h
    · cases h
    · rename_i rt hrt
      cases h
      refine ⟨hb, ?_⟩
      unfold intoRoutine at hrt
      split at hrt
      · cases hrt
      · rename_i su hsu
        cases hrt
        simp only [nmOK_append]
        exact ⟨⟨⟨⟨nm_preamble, nm_setup hsu⟩, by decide⟩, hb⟩, nm_cleanup⟩

end Scc.A64.Loader
