/-
  Scc.A64.RefInit — Theorem B (AArch64), rung 1: THE INITIAL STATE.  From the machine's entry state
  (`entryState`: AAPCS64 entry of `asm_main` with up to seven integer arguments in X1–X7, X0 = heap) the
  routine header (`preamble`, `setup` = prologue + `move_arguments` + free-pointer initialisation, the
  comment "actual code") leads to a state that represents the initial configuration of the abstract
  machine: argument `i` in `posTemp (2 i + 1)` = X(2 i + 5), SP at the boundary value, the callee-save
  area holding the entry values (sentinels) of X19–X30.
-/
import Scc.A64.RefRun
import Scc.A64.RefParam

set_option linter.unusedVariables false
set_option linter.unusedSimpArgs false

namespace Scc.A64.Ref

open Scc.AxCut Scc.Backend Scc.Backend.Abs Scc.Backend.Sim Scc.A64 Scc.A64.CC

/-! ## the initial configuration of the abstract machine -/

theorem initTemps_get_inv : ∀ (args : List Word) (k t : Nat) (v : Word),
    (initTemps args k).get t = some v → ∃ i, ∃ (hi : i < args.length), t = 2 * (k + i) + 1 ∧ v = args[i]
  | [], k, t, v, h => by simp [initTemps, Temps.get] at h
  | w :: ws, k, t, v, h => by
    simp only [initTemps, Temps.get, List.find?_cons] at h
    by_cases e : (2 * k + 1 == t) = true
    · simp only [e] at h
      simp only [beq_iff_eq] at e
      injection h with h
      exact ⟨0, by simp, by omega, by simp [h]⟩
    · simp only [e] at h
      obtain ⟨i, hi, ht, hv⟩ := initTemps_get_inv ws (k + 1) t v h
      exact ⟨i + 1, by simpa using hi, by omega, by simpa using hv⟩

/-! ## the entry state of the machine -/

theorem entryState_arg (c : MemCfg) (args : List Word) (i : Nat) (hi : i < args.length) (h7 : i < 7) :
    (entryState c args).reg ⟨i + 1, by omega⟩ = some args[i] := by
  simp only [entryState, State.reg, Vector.getElem_ofFn]
  have h1 : ¬ (i + 1 = 0) := by omega
  have h2 : i + 1 ≤ 7 := by omega
  simp [h1, h2, hi]

/-- the labels of the routine header -/
theorem labs_routineHead {n : Nat} {su : List Code} (hsu : setup n = .ok su) :
    ∀ l ∈ labs (routineHead su), l = "asm_main" := by
  intro l hl
  unfold labs at hl
  rw [List.mem_filterMap] at hl
  obtain ⟨code, hc, hlab⟩ := hl
  cases code <;> simp only [labOf] at hlab <;> try (cases hlab; done)
  injection hlab with hlab
  subst hlab
  exact head_labels hsu _ hc _ rfl

section Init

variable {c : MemCfg} (H : CfgCC c) {hk : Code → Bool} {P : Prog}

include H in
/-- RUNG 1: the routine header from the machine's entry state -/
theorem init_sim {routine body : List Code} {args : List Word}
    (hr : intoRoutine body args.length = .ok routine) (Hp : Holds hk P routine) :
    ∃ (hdr : List Code) (σ2 : State),
      routine = hdr ++ body ++ cleanup ∧ (∀ l ∈ labs hdr, l = "asm_main") ∧
      P.labels["asm_main"]? = some (pcOf hk routine 2) ∧
      MSteps P c (entryState c args) (pcOf hk routine 2) [] σ2 (pcOf hk routine hdr.length) [] ∧
      RepA64 c .normal (initConfig 0 args) σ2 [] := by
  obtain ⟨su, hsu, hrt⟩ := routine_anatomy hr
  obtain ⟨moves, hmv, _⟩ := setup_eq hsu
  have hn : args.length ≤ 7 := CC.moveArguments_le _ _ hmv
  have ht := H.ok.top; have hroom := H.room; have h16 := H.top16
  have h64 : (2:Nat)^64 = 18446744073709551616 := by decide
  have E := entry_entryState c args
  obtain ⟨h, h0⟩ := E.x0
  have hS : (entryState c args).sp.toNat = c.stackTop := by
    rw [E.sp, BitVec.toNat_ofNat]; omega
  obtain ⟨codes, σ1, hc, he, hp⟩ := setup_correct H.ok args.length hn (entryState c args) c.stackTop hS h16
    (by omega) (Nat.le_refl _) h h0
  rw [hsu] at hc
  cases hc
  obtain ⟨σ1', he', C1⟩ := setup_core H E hsu
  rw [he] at he'
  cases he'
  -- the label
  have hlab : P.labels["asm_main"]? = some (pcOf hk routine 2) := by
    have hcs' : routine = [Code.TEXT, Code.GLOBAL "asm_main"] ++
        Code.LAB "asm_main" :: (su ++ [Code.COMMENT "actual code"] ++ (body ++ cleanup)) := by
      rw [hrt]; simp [routineHead, preamble]
    have := label_pc Hp hcs' (by simp)
    simpa using this
  -- the header block
  have hblk : routine = [Code.TEXT, Code.GLOBAL "asm_main"] ++
      (Code.LAB "asm_main" :: (su ++ [Code.COMMENT "actual code"])) ++ (body ++ cleanup) := by
    rw [hrt]; simp [routineHead, preamble]
  have hx : execCodes c (Code.LAB "asm_main" :: (su ++ [Code.COMMENT "actual code"])) (entryState c args) =
      .ok σ1 := by
    rw [execCodes_cons c _ _ _ _ (show execCode c (.LAB "asm_main") (entryState c args) = .ok _ from rfl),
      execCodes_append c _ _ _ _ he]
    rfl
  have hm := msteps_codes (c := c) Hp _ 2 _ _ [] (block_get hblk) hx
  have hlen : 2 + (Code.LAB "asm_main" :: (su ++ [Code.COMMENT "actual code"])).length =
      (routineHead su).length := by
    simp [routineHead, preamble]; omega
  rw [hlen] at hm
  refine ⟨routineHead su, σ1, hrt, labs_routineHead hsu, hlab, hm, C1, ?_, ?_, ?_, rfl⟩
  · intro t v htw hg
    obtain ⟨i, hi, rfl, rfl⟩ := initTemps_get_inv args 0 t v hg
    have hi7 : i < 7 := by omega
    have hpt : posTemp (2 * (0 + i) + 1) = .register (.x (2 * i + 5)) := by
      have e1 : 2 * (0 + i) + 1 = 2 * i + 1 := by omega
      rw [e1]
      unfold posTemp
      rw [if_pos (by omega)]
    rw [hpt]
    have hlt : 2 * i + 5 < 30 := by omega
    rw [tempVal_reg (xreg_ar hlt)]
    have hj : (ar (2 * i + 5)).val = 2 * (i + 1) + 3 := by
      rw [ar_val hlt, archNumber_le (by omega)]; omega
    rw [hp.args ⟨i + 1, by omega⟩ (ar (2 * i + 5)) (by simp) (by simp; omega) hj]
    exact entryState_arg c args i hi hi7
  · intro v hg
    obtain ⟨i, hi, ht', _⟩ := initTemps_get_inv args 0 _ v hg
    unfold Mock.T_RET1 at ht'
    omega
  · intro hb; cases hb

end Init

end Scc.A64.Ref
