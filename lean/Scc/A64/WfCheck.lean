/-
  Scc.A64.WfCheck — C14 for AArch64: the validator `wfCheck` (Scc/A64/Machine.lean) on the parsed lines of a
  routine, characterised on the proof side.

  `wfLines ls` is `wfCheck` after the parser.  For lines `ls` that ARE a code list `R` (`CC.Lines hkv ls R`,
  Scc/A64/CCProofsLayout.lean), `wfLines_ok`: `wfLines ls = .ok ()` provided
    * the labels of `R` are pairwise distinct and none is a runtime symbol; `asm_main` is defined;
    * every item passes the per-instruction check `Code.wf`;
    * every label referenced by `B` / `B.cond` / `ADR` is defined in `R`, every `BL` goes to a runtime symbol;
    * `R` ends with an instruction (so every label is followed by an instruction);
    * `R` has fewer than 2^18 items (every branch / `ADR` is within ±1 MiB).
  The proof follows the validator: the duplicate scan (a fold with a hash map), the entry label, and the loop
  over the laid-out items (`layout`: items, label table, byte offsets — fold invariants).
  Proof file.
-/
import Scc.A64.CCProofsLayout
import Scc.A64.RefTableLayout
import Scc.A64.WfRefs
import Scc.Props.C14A64

set_option linter.unusedVariables false
set_option linter.unusedSimpArgs false

namespace Scc.A64.Wf

open Scc.A64 Scc.A64.CC Scc.A64.Ref

/-! ## the validator after the parser -/

/-- the step of the duplicate scan -/
def dupStep : Std.HashMap String Nat × Option String → Nat × PLine → Std.HashMap String Nat × Option String :=
  fun (seen, err) (ln, pl) =>
    match pl with
    | .label l =>
      if seen.contains l then (seen, err.or (some s!"WF-ERROR line {ln}: label {l} defined twice"))
      else if isExternal l then (seen, err.or (some s!"WF-ERROR line {ln}: label {l} clashes with a runtime symbol"))
      else (seen.insert l ln, err)
    | _ => (seen, err)

/-- `wfCheck` after the parser -/
def wfLines (ls : List (Nat × PLine)) : Except String Unit :=
  match (ls.foldl dupStep ((∅ : Std.HashMap String Nat), (none : Option String))).2 with
  | some e => .error e
  | none =>
    if !(layout ls).labels.contains "asm_main" then .error "WF-ERROR line 0: entry label asm_main not defined"
    else wfCheck.go (layout ls) 0 ((layout ls).items.size + 1)

theorem wfCheck_eq (text : String) : wfCheck text =
    match parseText text with
    | .error e => .error e
    | .ok ls => wfLines ls := by
  unfold wfCheck
  cases parseText text with
  | error e => rfl
  | ok ls => rfl

/-! ## the duplicate scan -/

/-- the labels of the label lines -/
def lineLabels (ls : List (Nat × PLine)) : List String :=
  ls.filterMap fun x => match x.2 with | .label l => some l | _ => none

theorem dup_none : ∀ (ls : List (Nat × PLine)) (seen : Std.HashMap String Nat),
    (lineLabels ls).Nodup → (∀ l ∈ lineLabels ls, seen.contains l = false ∧ isExternal l = false) →
    (ls.foldl dupStep (seen, none)).2 = none
  | [], _, _, _ => rfl
  | (ln, pl) :: rest, seen, hnd, hs => by
    rw [List.foldl_cons]
    cases pl with
    | label l =>
      have hl : lineLabels ((ln, PLine.label l) :: rest) = l :: lineLabels rest := rfl
      rw [hl] at hnd hs
      obtain ⟨h1, h2⟩ := hs l (by simp)
      have e : dupStep (seen, none) (ln, PLine.label l) = (seen.insert l ln, none) := by
        simp only [dupStep, h1, h2, Bool.false_eq_true, if_false]
      rw [e]
      simp only [List.nodup_cons] at hnd
      refine dup_none rest _ hnd.2 ?_
      intro l' hl'
      have := hs l' (by simp [hl'])
      refine ⟨?_, this.2⟩
      rw [Std.HashMap.contains_insert, this.1]
      have : (l == l') = false := by
        have hne : l ≠ l' := fun e => hnd.1 (e ▸ hl')
        simpa using hne
      simp [this]
    | blank => exact dup_none rest seen hnd hs
    | comment => exact dup_none rest seen hnd hs
    | directive => exact dup_none rest seen hnd hs
    | hook vs => exact dup_none rest seen hnd hs
    | instr i => exact dup_none rest seen hnd hs

theorem or_some_ne_none {α : Type} (o : Option α) (a : α) : o.or (some a) ≠ none := by
  cases o <;> simp

/-- conversely: the scan reports every duplicate -/
theorem dup_nodup : ∀ (ls : List (Nat × PLine)) (seen : Std.HashMap String Nat) (err : Option String),
    (ls.foldl dupStep (seen, err)).2 = none →
    err = none ∧ (lineLabels ls).Nodup ∧ ∀ l ∈ lineLabels ls, seen.contains l = false
  | [], _, err, h => ⟨h, List.nodup_nil, fun _ hl => by cases hl⟩
  | (ln, pl) :: rest, seen, err, h => by
    rw [List.foldl_cons] at h
    cases pl with
    | label l =>
      have hl : lineLabels ((ln, PLine.label l) :: rest) = l :: lineLabels rest := rfl
      rw [hl]
      by_cases h1 : seen.contains l = true
      · have e : dupStep (seen, err) (ln, PLine.label l) =
            (seen, err.or (some s!"WF-ERROR line {ln}: label {l} defined twice")) := by
          simp only [dupStep, h1, if_true]
        rw [e] at h
        exact absurd (dup_nodup rest _ _ h).1 (or_some_ne_none _ _)
      · by_cases h2 : isExternal l = true
        · have e : dupStep (seen, err) (ln, PLine.label l) =
              (seen, err.or (some s!"WF-ERROR line {ln}: label {l} clashes with a runtime symbol")) := by
            simp only [dupStep, h1, h2, if_true, if_false, Bool.false_eq_true]
          rw [e] at h
          exact absurd (dup_nodup rest _ _ h).1 (or_some_ne_none _ _)
        · have e : dupStep (seen, err) (ln, PLine.label l) = (seen.insert l ln, err) := by
            simp only [dupStep, h1, h2, if_false, Bool.false_eq_true]
          rw [e] at h
          obtain ⟨g1, g2, g3⟩ := dup_nodup rest _ _ h
          have key : ∀ l' ∈ lineLabels rest, l ≠ l' ∧ seen.contains l' = false := by
            intro l' hl'
            have := g3 l' hl'
            rw [Std.HashMap.contains_insert, Bool.or_eq_false_iff] at this
            exact ⟨by simpa using this.1, this.2⟩
          refine ⟨g1, List.nodup_cons.2 ⟨fun hm => (key l hm).1 rfl, g2⟩, ?_⟩
          intro l' hl'
          rcases List.mem_cons.1 hl' with rfl | hl'
          · simpa using h1
          · exact (key l' hl').2
    | blank => exact dup_nodup rest seen err h
    | comment => exact dup_nodup rest seen err h
    | directive => exact dup_nodup rest seen err h
    | hook vs => exact dup_nodup rest seen err h
    | instr i => exact dup_nodup rest seen err h

/-- the validator rejects every line list that defines a label twice -/
theorem wfLines_nodup {ls : List (Nat × PLine)} (h : wfLines ls = .ok ()) : (lineLabels ls).Nodup := by
  unfold wfLines at h
  split at h
  · cases h
  · rename_i hn
    exact (dup_nodup ls ∅ none hn).2.1

section
variable {hkv : String → Option (List (String × Kind))}

theorem lineOf_label_iff {c : Code} {pl : PLine} (h : lineOf hkv c = some pl) :
    (match pl with | .label l => some l | _ => none) = (match c with | .LAB l => some l | _ => none) := by
  cases pl with
  | label l => have := lineOf_label h; subst this; rfl
  | _ =>
    cases c <;> first | rfl | skip
    simp [lineOf] at h

theorem lineLabels_eq {ls : List (Nat × PLine)} {R : List Code} (h : Lines hkv ls R) :
    lineLabels ls = labs R := by
  induction h with
  | nil => rfl
  | blank ln _ ih => exact ih
  | @code ln c pl ls R hl _ ih =>
    unfold lineLabels labs at ih ⊢
    rw [List.filterMap_cons, List.filterMap_cons, ih]
    have := lineOf_label_iff hl
    dsimp only at this ⊢
    rw [this]
    cases c <;> rfl

end

/-! ## the loop over the items -/

/-- byte distance -/
def dist (a b : Nat) : Nat := if a ≤ b then b - a else a - b

/-- what the loop tests of item `k` -/
def ItemOK (p : Prog) (k : Nat) : Prop :=
  ∀ i, p.items[k]? = some (.instr i) →
    i.wfError = none ∧
    ∀ l extOk reach, i.target = some (l, extOk, reach) →
      match p.labels[l]? with
      | none => (extOk && isExternal l) = true
      | some j => j < p.items.size ∧ dist (p.offs.getD k 0) (p.offs.getD j 0) < reach

theorem go_ok (p : Prog) (h : ∀ k, ItemOK p k) : ∀ (fuel k : Nat), wfCheck.go p k fuel = .ok ()
  | 0, _ => rfl
  | fuel + 1, k => by
    unfold wfCheck.go
    by_cases hk : k < p.items.size
    · rw [dif_pos hk]
      dsimp only
      cases hi : p.items[k] with
      | hook vs => exact go_ok p h fuel (k + 1)
      | instr i =>
        dsimp only
        have hk' : p.items[k]? = some (.instr i) := by rw [Array.getElem?_eq_getElem hk, hi]
        obtain ⟨hw, ht⟩ := h k i hk'
        rw [hw]
        dsimp only
        cases htg : i.target with
        | none => exact go_ok p h fuel (k + 1)
        | some t =>
          obtain ⟨l, extOk, reach⟩ := t
          dsimp only
          have := ht l extOk reach htg
          cases hl : p.labels[l]? with
          | none =>
            rw [hl] at this
            dsimp only at this ⊢
            rw [if_pos this]
            exact go_ok p h fuel (k + 1)
          | some j =>
            rw [hl] at this
            dsimp only at this ⊢
            rw [if_neg (by omega)]
            have hd : ¬ ((if p.offs.getD k 0 ≤ p.offs.getD j 0 then p.offs.getD j 0 - p.offs.getD k 0
                else p.offs.getD k 0 - p.offs.getD j 0) ≥ reach) := by
              have := this.2
              unfold dist at this
              omega
            rw [if_neg hd]
            exact go_ok p h fuel (k + 1)
    · rw [dif_neg hk]

/-! ## the byte offsets of `layout` -/

/-- every recorded offset is at most the current offset, which is at most 4 per item -/
def OffInv (acc : LayoutAcc) : Prop := acc.off ≤ 4 * acc.items.size ∧ ∀ x ∈ acc.offs.toList, x ≤ acc.off

theorem layStep_offInv {acc : LayoutAcc} (h : OffInv acc) (x : Nat × PLine) : OffInv (layStep acc x) := by
  obtain ⟨ln, pl⟩ := x
  obtain ⟨h1, h2⟩ := h
  cases pl with
  | hook vs =>
    refine ⟨by simp [layStep]; omega, ?_⟩
    intro y hy
    simp only [layStep, Array.toList_push, List.mem_append, List.mem_singleton] at hy ⊢
    rcases hy with hy | rfl
    · exact h2 y hy
    · exact Nat.le_refl _
  | instr i =>
    refine ⟨by simp [layStep]; omega, ?_⟩
    intro y hy
    simp only [layStep, Array.toList_push, List.mem_append, List.mem_singleton] at hy ⊢
    rcases hy with hy | rfl
    · have := h2 y hy; omega
    · omega
  | blank => exact ⟨h1, h2⟩
  | comment => exact ⟨h1, h2⟩
  | directive => exact ⟨h1, h2⟩
  | label l => exact ⟨h1, h2⟩

theorem fold_offInv : ∀ (ls : List (Nat × PLine)) {acc : LayoutAcc}, OffInv acc → OffInv (ls.foldl layStep acc)
  | [], _, h => h
  | x :: ls, _, h => by rw [List.foldl_cons]; exact fold_offInv ls (layStep_offInv h x)

theorem layStep_items_mono (acc : LayoutAcc) (x : Nat × PLine) : acc.items.size ≤ (layStep acc x).items.size := by
  obtain ⟨ln, pl⟩ := x
  cases pl <;> simp [layStep]

theorem fold_items_mono : ∀ (ls : List (Nat × PLine)) (acc : LayoutAcc),
    acc.items.size ≤ (ls.foldl layStep acc).items.size
  | [], _ => Nat.le_refl _
  | x :: ls, acc => by
    rw [List.foldl_cons]
    exact Nat.le_trans (layStep_items_mono acc x) (fold_items_mono ls _)

/-- every byte offset of the laid-out program is at most 4 per item -/
theorem layout_offs_le (ls : List (Nat × PLine)) (k : Nat) :
    (layout ls).offs.getD k 0 ≤ 4 * (layout ls).items.size := by
  have hinv : OffInv (ls.foldl layStep {}) := fold_offInv ls ⟨by simp, by intro x hx; simp at hx⟩
  rw [layout_offs', layout_items']
  by_cases hk : k < (ls.foldl layStep {}).offs.size
  · have hm : (ls.foldl layStep {}).offs.getD k 0 ∈ (ls.foldl layStep {}).offs.toList := by
      rw [Array.getD_eq_getD_getElem?, Array.getElem?_eq_getElem hk]
      simp
    have := hinv.2 _ hm
    have := hinv.1
    omega
  · rw [Array.getD_eq_getD_getElem?, Array.getElem?_eq_none (by omega)]
    simp

theorem dist_lt {a b n r : Nat} (ha : a ≤ 4 * n) (hb : b ≤ 4 * n) (hn : 4 * n < r) : dist a b < r := by
  unfold dist; split <;> omega

/-! ## the items and labels of `layout` on the lines of a code list -/

section
variable {hkv : String → Option (List (String × Kind))}

theorem layout_items_lines {ls : List (Nat × PLine)} {R : List Code} (h : Lines hkv ls R) :
    (layout ls).items.toList = R.filterMap (itemOfCode hkv) := by
  have := (fold_lines h {}).1
  rw [layout_items']
  simpa using this

theorem layout_labels_lines {ls : List (Nat × PLine)} {R : List Code} (h : Lines hkv ls R) (l : String) :
    (layout ls).labels[l]? = (firstLab l R 0).map fun k => ((R.take k).filterMap (itemOfCode hkv)).length := by
  have := (fold_lines h {}).2 l
  rw [layout_labels', this]
  simp

theorem mem_labs {l : String} {R : List Code} : l ∈ labs R ↔ Code.LAB l ∈ R := by
  unfold labs
  rw [List.mem_filterMap]
  constructor
  · rintro ⟨c, hc, h⟩
    cases c <;> simp only [labOf, Option.some.injEq, reduceCtorEq] at h
    subst h; exact hc
  · intro h; exact ⟨_, h, rfl⟩

theorem firstLab_isSome' {l : String} : ∀ {R : List Code} (k : Nat), Code.LAB l ∈ R → ∃ i, firstLab l R k = some i
  | [], _, h => by cases h
  | c :: R, k, h => by
    simp only [firstLab]
    by_cases hc : c = Code.LAB l
    · exact ⟨k, by rw [if_pos hc]⟩
    · rw [if_neg hc]
      apply firstLab_isSome' (k + 1)
      rcases List.mem_cons.1 h with h | h
      · exact absurd h.symm hc
      · exact h

theorem firstLab_isSome {l : String} {R : List Code} (k : Nat) (h : l ∈ labs R) : ∃ i, firstLab l R k = some i :=
  firstLab_isSome' k (mem_labs.1 h)

theorem firstLab_none' {l : String} : ∀ {R : List Code} (k : Nat), Code.LAB l ∉ R → firstLab l R k = none
  | [], _, _ => rfl
  | c :: R, k, h => by
    simp only [firstLab]
    have hc : c ≠ Code.LAB l := fun e => h (by rw [e]; simp)
    rw [if_neg hc]
    exact firstLab_none' (k + 1) (fun hm => h (List.mem_cons_of_mem _ hm))

theorem firstLab_none {l : String} {R : List Code} (k : Nat) (h : l ∉ labs R) : firstLab l R k = none :=
  firstLab_none' k (fun hm => h (mem_labs.2 hm))

/-- the machine instruction of an item comes from a code of the list -/
theorem toInstr_of_itemOfCode {c : Code} {i : Instr} (h : itemOfCode hkv c = some (.instr i)) :
    c.toInstr = some i := by
  unfold itemOfCode at h
  cases hl : lineOf hkv c with
  | none => rw [hl] at h; cases h
  | some pl =>
    rw [hl] at h
    have hpl : pl = .instr i := by
      cases pl <;> simp only [Option.bind_some, itemOfLine, Option.some.injEq, reduceCtorEq, Item.instr.injEq] at h
      rw [h]
    subst hpl
    cases c <;> simp only [lineOf, Option.some.injEq, reduceCtorEq, Option.map_eq_some_iff, PLine.instr.injEq] at hl <;>
      first
        | (obtain ⟨j, hj, rfl⟩ := hl; exact hj)
        | (split at hl <;> cases hl)

theorem item_instr_of {R : List Code} {k : Nat} {i : Instr}
    (h : (R.filterMap (itemOfCode hkv))[k]? = some (.instr i)) : ∃ c ∈ R, c.toInstr = some i := by
  have hm : Item.instr i ∈ R.filterMap (itemOfCode hkv) := List.mem_of_getElem? h
  obtain ⟨c, hc, hci⟩ := List.mem_filterMap.1 hm
  exact ⟨c, hc, toInstr_of_itemOfCode hci⟩

end

/-- the label a code refers to -/
def targetLabel : Code → Option String
  | .B l | .BL l | .ADR _ l | .BEQ l | .BNE l | .BLT l | .BLE l | .BGT l | .BGE l => some l
  | _ => none

theorem target_cases {i : Instr} {l : String} {extOk : Bool} {reach : Nat} (ht : i.target = some (l, extOk, reach)) :
    (i = .b l ∧ extOk = false ∧ reach = 0x8000000) ∨ (i = .bl l ∧ extOk = true ∧ reach = 0x8000000) ∨
    (∃ cnd, i = .bcond cnd l ∧ extOk = false ∧ reach = 0x100000) ∨
    (∃ d, i = .adr d l ∧ extOk = false ∧ reach = 0x100000) := by
  cases i <;> simp only [Instr.target, Option.some.injEq, Prod.mk.injEq, reduceCtorEq] at ht
  all_goals
    obtain ⟨rfl, rfl, rfl⟩ := ht
    first
      | exact Or.inl ⟨rfl, rfl, rfl⟩
      | exact Or.inr (Or.inl ⟨rfl, rfl, rfl⟩)
      | exact Or.inr (Or.inr (Or.inl ⟨_, rfl, rfl, rfl⟩))
      | exact Or.inr (Or.inr (Or.inr ⟨_, rfl, rfl, rfl⟩))

theorem toInstr_b {c : Code} {l : String} (h : c.toInstr = some (.b l)) : c = .B l := by
  cases c <;> simp [Code.toInstr, Option.bind_eq_some_iff] at h
  subst h; rfl

theorem toInstr_bl {c : Code} {l : String} (h : c.toInstr = some (.bl l)) : c = .BL l := by
  cases c <;> simp [Code.toInstr, Option.bind_eq_some_iff] at h
  subst h; rfl

theorem toInstr_bcond {c : Code} {l : String} {cnd : Cond} (h : c.toInstr = some (.bcond cnd l)) :
    targetLabel c = some l ∧ ∀ l', c ≠ .BL l' := by
  cases c <;> simp [Code.toInstr, Option.bind_eq_some_iff] at h
  all_goals (obtain ⟨_, rfl⟩ := h; exact ⟨rfl, fun _ h => by cases h⟩)

theorem toInstr_adr {c : Code} {l : String} {d : Reg} (h : c.toInstr = some (.adr d l)) :
    targetLabel c = some l ∧ ∀ l', c ≠ .BL l' := by
  cases c <;> simp [Code.toInstr, Option.bind_eq_some_iff] at h
  obtain ⟨_, _, _, rfl⟩ := h; exact ⟨rfl, fun _ h => by cases h⟩

theorem target_of_toInstr {c : Code} {i : Instr} (h : c.toInstr = some i) {l : String} {extOk : Bool} {reach : Nat}
    (ht : i.target = some (l, extOk, reach)) :
    targetLabel c = some l ∧ (c = .BL l → extOk = true) ∧ 0x100000 ≤ reach := by
  rcases target_cases ht with ⟨rfl, rfl, rfl⟩ | ⟨rfl, rfl, rfl⟩ | ⟨cnd, rfl, rfl, rfl⟩ | ⟨d, rfl, rfl, rfl⟩
  · have := toInstr_b h; subst this
    exact ⟨rfl, (fun e => by cases e), by decide⟩
  · have := toInstr_bl h; subst this
    exact ⟨rfl, ⟨fun _ => rfl, by decide⟩⟩
  · obtain ⟨h1, h2⟩ := toInstr_bcond h
    exact ⟨h1, ⟨fun e => absurd e (h2 l), by decide⟩⟩
  · obtain ⟨h1, h2⟩ := toInstr_adr h
    exact ⟨h1, ⟨fun e => absurd e (h2 l), by decide⟩⟩

/-! ## the theorem on lines -/

/-- the hypotheses on the code list -/
structure CodesOK (R : List Code) : Prop where
  nodup : (labs R).Nodup
  notExt : ∀ l ∈ labs R, isExternal l = false
  entry : "asm_main" ∈ labs R
  wf : ∀ c ∈ R, c.wf = true
  refs : ∀ c ∈ R, ∀ l, targetLabel c = some l → l ∈ labs R ∨ (c = .BL l ∧ isExternal l = true)
  last : ∃ R' c i, R = R' ++ [c] ∧ c.toInstr = some i
  size : R.length < 262144

section
variable {hkv : String → Option (List (String × Kind))}

theorem filterMap_length_le {α β : Type} (f : α → Option β) (l : List α) : (l.filterMap f).length ≤ l.length :=
  List.length_filterMap_le f l

/-- **the validator accepts the lines of a code list that satisfies `CodesOK`** -/
theorem wfLines_ok {ls : List (Nat × PLine)} {R : List Code} (hL : Lines hkv ls R) (H : CodesOK R) :
    wfLines ls = .ok () := by
  have hitems := layout_items_lines hL
  have hsize : (layout ls).items.size = (R.filterMap (itemOfCode hkv)).length := by
    rw [← Array.length_toList, hitems]
  have hsz : 4 * (layout ls).items.size < 0x100000 := by
    have := filterMap_length_le (itemOfCode hkv) R
    have := H.size
    omega
  -- labels resolve to items
  have hlab : ∀ l ∈ labs R, ∃ j, (layout ls).labels[l]? = some j ∧ j < (layout ls).items.size := by
    intro l hl
    obtain ⟨k, hk⟩ := firstLab_isSome 0 hl
    refine ⟨((R.take k).filterMap (itemOfCode hkv)).length, by rw [layout_labels_lines hL, hk]; rfl, ?_⟩
    obtain ⟨R', c, i, hR, hci⟩ := H.last
    have hkl := (firstLab_some hk)
    have hklt : k < R.length := by
      have := hkl.2
      simp only [Nat.sub_zero] at this
      exact (List.getElem?_eq_some_iff.1 this).1
    rw [hsize]
    have hsplit : R.filterMap (itemOfCode hkv) =
        (R.take k).filterMap (itemOfCode hkv) ++ (R.drop k).filterMap (itemOfCode hkv) := by
      rw [← List.filterMap_append, List.take_append_drop]
    rw [hsplit, List.length_append]
    have hpos : 0 < ((R.drop k).filterMap (itemOfCode hkv)).length := by
      have hmem : c ∈ R.drop k := by
        rw [hR, List.drop_append_of_le_length (by rw [hR] at hklt; simp at hklt; omega)]
        simp
      have hit : itemOfCode hkv c = some (.instr i) := by
        cases c <;> first
          | (simp only [Code.toInstr, reduceCtorEq] at hci; done)
          | simp only [itemOfCode, lineOf, hci, Option.map_some, Option.bind_some, itemOfLine]
      exact List.length_pos_of_mem (List.mem_filterMap.2 ⟨c, hmem, hit⟩)
    omega
  have hnolab : ∀ l, l ∉ labs R → (layout ls).labels[l]? = none := by
    intro l hl
    rw [layout_labels_lines hL, firstLab_none 0 hl]; rfl
  unfold wfLines
  -- the duplicate scan
  have hdup := dup_none ls ∅ (by rw [lineLabels_eq hL]; exact H.nodup) (by
    intro l hl
    rw [lineLabels_eq hL] at hl
    exact ⟨by simp, H.notExt l hl⟩)
  rw [hdup]
  dsimp only
  -- the entry label
  obtain ⟨j0, hj0, _⟩ := hlab "asm_main" H.entry
  have hcont : (layout ls).labels.contains "asm_main" = true := by
    rw [Std.HashMap.contains_eq_isSome_getElem?, hj0]; rfl
  rw [hcont]
  simp only [Bool.not_true, Bool.false_eq_true, if_false]
  -- the loop
  apply go_ok
  intro k i hk
  have hk' : (R.filterMap (itemOfCode hkv))[k]? = some (.instr i) := by
    rw [← hitems, Array.getElem?_toList]; exact hk
  obtain ⟨c, hc, hci⟩ := item_instr_of hk'
  refine ⟨(C14_wf_is_monitor_check c i hci).1 (H.wf c hc), ?_⟩
  intro l extOk reach ht
  obtain ⟨htl, hext, hreach⟩ := target_of_toInstr hci ht
  rcases H.refs c hc l htl with hl | ⟨hbl, hex⟩
  · obtain ⟨j, hj, hjlt⟩ := hlab l hl
    rw [hj]
    exact ⟨hjlt, dist_lt (layout_offs_le ls k) (layout_offs_le ls j) (by omega)⟩
  · by_cases hl : l ∈ labs R
    · exact absurd hex (by rw [H.notExt l hl]; simp)
    · rw [hnolab l hl]
      show (extOk && isExternal l) = true
      rw [hext hbl, hex]; rfl

end

end Scc.A64.Wf
