/-
  Scc.A64.ConcKMRun — THE THREE-WAY RUN WITH THE HEAP MONITOR on AArch64, ALL PROGRAMS: `run3_peak`
  (Scc/A64/ConcKPeakRun.lean) and `run3_progress` (Scc/A64/ConcKProgress.lean) again, with the machine's runs as
  PASSING counted runs `StepsNP pass` (`K.MStepsNP`, Scc/A64/ConcKMid.lean): every iteration of the run loop at a
  `#ctx` hook item satisfies `pass σ vs`.  By `K.step3M` (Scc/A64/ConcKMStep.lean) the only hook item a step of the
  simulation visits is the hook of the statement boundary it starts at, in the boundary state, and only when the
  machine is AT the boundary item (after the `BR` of an `invoke` it is behind the hook: `Tol`); there `pass` holds
  by the hypothesis `HookPassFrom` (for the heap monitor: from `heapMonitor_boundary`, given the kinds the hook
  lists and the window).  `AllHF` (the names that start the statement comments of `op` and `call` do not start with
  `#`) is kept along the run by `hered_step` (Scc/X86/ConcKMStep.lean `hered_allHF`, backend-independent).
  GENERATED from ConcKPeakRun.lean / ConcKProgress.lean by string replacement (gen_mrun.py, memory note scc-a64-conc).
-/
import Scc.A64.ConcKMStep
import Scc.A64.ConcKProgress

set_option linter.unusedVariables false
set_option linter.unusedSimpArgs false

namespace Scc.A64.ConcK

open Scc Scc.AxCut Scc.AxCut.Pos Scc.Backend Scc.Backend.Abs Scc.Backend.Sim Scc.Backend.Subst Scc.A64 Scc.A64.Ref
open Scc.A64.CC
open Scc.Backend.Sim2 Scc.Backend.Keys
open Scc.Props.C14Generic (LabelSafe)
open Scc.Props.C06Generic (outAfter WithinCapacity Reachable EnoughHeap CodeFits statesOf stopsWithin)
open Scc.Heap (HState InvS InvW Exhausted)
open Scc.Heap.Refine (HRef FrLe Room FrPk)
open Scc.X86.Conc (FrBound LiveLe LiveLe0 stmtSize clausesSize stmtSize_pos clausesSize_nth)
open Scc.X86.Ref.K (AllocLe AllocLeClauses ValAll allocArity allocArity_le hered_step hered_allocLe IsJump AllHF ClausesHF
  hered_allHF headHF_of_all)
open Scc.X86.ConcK (hered_size size_step)
open Scc.A64.NoHk (HK)

/-- `n` iterations of the run loop in which every hook step passes -/
def StepsNP (pass : State → List (String × Kind) → Prop) (P : Prog) (c : MemCfg) (n : Nat) (X Y : MS) : Prop :=
  K.MStepsNP pass P c n X.σ X.pc X.out Y.σ Y.pc Y.out

theorem StepsNP.refl (pass : State → List (String × Kind) → Prop) (P : Prog) (c : MemCfg) (X : MS) :
    StepsNP pass P c 0 X X := K.MStepsNP.refl _ _ _

theorem StepsNP.trans {pass : State → List (String × Kind) → Prop} {P : Prog} {c : MemCfg} {n m : Nat} {X Y Z : MS}
    (h1 : StepsNP pass P c n X Y) (h2 : StepsNP pass P c m Y Z) : StepsNP pass P c (n + m) X Z :=
  K.MStepsNP.trans h1 h2

theorem StepsNP.forget {pass : State → List (String × Kind) → Prop} {P : Prog} {c : MemCfg} {n : Nat} {X Y : MS}
    (h : StepsNP pass P c n X Y) : StepsN P c n X Y := K.MStepsNP.forget h

/-- THE HOOK HYPOTHESIS from the configuration `X` on: at every statement boundary the machine reaches from `X`
EXACTLY (its program counter is the boundary item; with at most `B` blocks below the frontier), the hook at the
program counter (if the item is a hook) passes -/
def HookPassFrom (pass : State → List (String × Kind) → Prop) (c : MemCfg) (hkf : Code → Bool) (Pm : Prog)
    (cs : List Code) (P : Program) (hooks : Bool) (prog : AxCut.Prog) (st : Pos.State) (X : MS) (B : Nat) : Prop :=
  ∀ n X' st' cfg' hs' kp' vs, Reachable prog st st' → StepsN Pm c n X X' → X'.pc = pcOf hkf cs kp' →
    X'.out = cfg'.out → K.Rel3 c cs P hooks prog st' cfg' hs' X'.σ kp' → FrBound hs' B →
    Pm.items[X'.pc]? = some (.hook vs) → pass X'.σ vs

theorem HookPassFrom.step {pass : State → List (String × Kind) → Prop} {c : MemCfg} {hkf : Code → Bool} {Pm : Prog}
    {cs : List Code} {P : Program} {hooks : Bool}
    {prog : AxCut.Prog} {st st1 : Pos.State} {o : Option (Bool × Word)} {X X' : MS} {B n : Nat}
    (h : HookPassFrom pass c hkf Pm cs P hooks prog st X B) (hs : Pos.step prog st = .next st1 o)
    (hn : StepsN Pm c n X X') : HookPassFrom pass c hkf Pm cs P hooks prog st1 X' B :=
  fun n' X'' st' cfg' hs' kp' vs hr hn' e ho R hb hv =>
    h (n + n') X'' st' cfg' hs' kp' vs (Scc.Props.C06Generic.reachable_prepend hs hr) (hn.trans hn') e ho R hb hv

section Run3M

variable {pass : State → List (String × Kind) → Prop}
  {c : MemCfg} (H : CfgCC c) (h8 : c.heapBase % 8 = 0) {hkf : Code → Bool} {Pm : Prog}
  {cs pre : List Code} (HB : K.HoldsB hkf Pm cs) (hnd : (labs cs).Nodup)
  (hfitX : c.codeBase + 4 * ninstr cs < 2 ^ 64) (hcs : cs = pre ++ cleanup)
  (hclean : "cleanup" ∉ labs pre)

include H h8 HB hnd hfitX hcs hclean in
/-- THE THREE-WAY RUN UNDER THE FOOTPRINT BOUND, all programs: a heap of `64·(Pk + A + 2)` bytes is enough for a
terminating run of any length whose boundaries have at most `Pk` blocks in use; the frontier stays below
`Pk + 1` blocks at every boundary -/
theorem run3_peakM (hooks : Bool) (prog : AxCut.Prog) (kc : Nat) (code : List MockOp) (nargs kc' : Nat)
    (hcomp : (compile mockSym hooks prog).run kc = .ok ((code, nargs), kc'))
    (hsafe : LabelSafe prog = true) (htp : LinTypedProg prog) (hfit : CodeFits code)
    (DX : K.XDefsAt cs hooks prog) (hprog : K.ProgOK prog) (Pk C A : Nat)
    (hA : ∀ d ∈ prog.defs, AllocLe A d.body)
    (hbytes : 64 * (Pk + A + 2) ≤ c.heapBytes) (hK : HK hkf) (hHF : ∀ d ∈ prog.defs, AllHF d.body) :
    ∀ (fuel : Nat) (st : Pos.State) (acc : List (Bool × Word)) (cfg : Config) (hs : HState) (σ : State)
      (kp pcR : Nat) (out : List (Bool × Word)) (v : Word) (Cb : Nat),
      Pos.StateTyped prog st → (∀ st', Reachable prog st st' → 2 * st'.ctx.length ≤ 280) →
      K.Tol Pm (pcOf hkf cs kp) pcR →
      K.Rel3 c cs (Program.ofOps code) hooks prog st cfg hs σ kp → AllocLe A st.stmt →
      (∀ w ∈ st.env, ValAll (AllocLeClauses A) w) →
      AllHF st.stmt → (∀ w ∈ st.env, ValAll ClausesHF w) →
      cfg.out = acc → cfg.next + fuel < 2 ^ 64 → FrBound hs (Pk + 1) →
      FrBound hs Cb → Cb + A * fuel ≤ C →
      PeakFrom c hkf Pm cs (Program.ofOps code) hooks prog st ⟨σ, pcR, acc⟩ Pk C →
      HookPassFrom pass c hkf Pm cs (Program.ofOps code) hooks prog st ⟨σ, pcR, acc⟩ (Pk + 1) →
      Pos.runState prog fuel st acc = ⟨out, .done v⟩ →
      ∃ kL σL outL n, K.MStepsNP pass Pm c n σ pcR acc σL (pcOf hkf cs kL) outL ∧
        Pm.items[pcOf hkf cs kL]? = some (.instr .ret) ∧ exitCheck c σL = .done v ∧ outL.reverse = out
  | 0, st, acc, cfg, hs, σ, kp, pcR, out, v, Cb, _, _, _, _, _, _, _, _, _, _, _, _, _, _, _, h => by
    simp [Pos.runState] at h
  | fuel + 1, st, acc, cfg, hs, σ, kp, pcR, out, v, Cb, T, hcap, TL, R, hlet, hvals, hhf, hvhf, hacc, hnext, hfb,
      hcb, hC, hP, hHP, h => by
    have hcC : FrBound hs C := fun rs lin lazy live F J => by have := hcb rs lin lazy live F J; omega
    have hX3 : ∃ Γ' ι κ, K.X3 c Γ' cfg hs ι κ σ cfg.out := by
      obtain ⟨Γ', ι, κ, _, _, X3h, _⟩ := R
      exact ⟨Γ', ι, κ, X3h⟩
    obtain ⟨Γ0, ι0, κ0, X3h⟩ := hX3
    have hbase := X3h.hrel.base
    have hlimit := X3h.hrel.limit
    have hAr := allocArity_le hlet
    have hCm : Cb + A ≤ C := by
      have : A ≤ A * (fuel + 1) := Nat.le_mul_of_pos_right A (by omega)
      omega
    have hroom : Room hs (64 * allocArity st.stmt + 64) :=
      Scc.X86.Conc.Room.of_frBound hfb (by rw [hbase, hlimit]; omega)
    have hsim := K.step3M H h8 HB hnd hfitX hcs hclean hooks prog kc code nargs kc' hcomp hsafe htp hfit
      DX hprog st cfg hs σ kp R T (by unfold EnoughHeap; omega) hroom hK (headHF_of_all hhf)
    have hpass0 : pcR = pcOf hkf cs kp → ∀ vs, Pm.items[pcOf hkf cs kp]? = some (.hook vs) → pass σ vs :=
      fun e vs hv => hHP 0 ⟨σ, pcR, acc⟩ st cfg hs kp vs Reachable.refl (StepsN.refl _ _ _) e hacc.symm R hfb
        (by rw [e]; exact hv)
    have hsafe' := Pos.step_safe htp st T
    have hw : ∃ rs lin lazy live F, InvS hs rs [] lin lazy live F := by
      obtain ⟨lin, lazy, live, Fr, I⟩ := X3h.href.conc
      exact ⟨_, lin, lazy, live, Fr, I⟩
    have hB : ChainRel c hkf Pm cs (Program.ofOps code) hooks prog Pk C st ⟨σ, pcR, acc⟩ :=
      ⟨cfg, hs, kp, TL, hacc.symm, R, hfb, hcC⟩
    unfold K.StepSim3M at hsim
    simp only [Pos.runState] at h
    cases hst : Pos.step prog st with
    | stuck w => simp [hst] at h
    | done v' =>
      simp only [hst] at h hsim
      obtain ⟨kL, σL, h1, h2, h3⟩ := hsim
      simp only [Pos.Behaviour.mk.injEq, Pos.Result.done.injEq] at h
      obtain ⟨rfl, rfl⟩ := h
      rw [hacc] at h1
      obtain ⟨n, hn⟩ := K.tol_run_instrP (pass := pass) TL h1 h2 hpass0
      exact ⟨kL, σL, acc, n, hn, h2, h3, rfl⟩
    | next st' o =>
      simp only [hst] at h hsim
      rw [hst] at hsafe'
      have hc' := hcap st' (Reachable.step Reachable.refl hst)
      obtain ⟨cfg', hs', σ', kp', pcR', h1, T', hreal, h2, h3, hfr, hpk, R'⟩ :=
        hsim (K.withinCapacity_of_le hc') hc'
      have hacc' : cfg'.out = outAfter o acc := by rw [h2, hacc]
      rw [hacc, hacc'] at h1
      obtain ⟨pcR'', n, hk, T''⟩ := K.tol_nextP (pass := pass) TL h1 T' hpass0
      have hn : StepsN Pm c n ⟨σ, pcR, acc⟩ ⟨σ', pcR'', outAfter o acc⟩ := hk.forget
      have h' : Pos.runState prog fuel st' (outAfter o acc) = ⟨out, .done v⟩ := by
        cases o <;> exact h
      obtain ⟨hlet', hvals'⟩ := hered_step (hered_allocLe A) hA hst hlet hvals
      obtain ⟨hhf', hvhf'⟩ := hered_step hered_allHF hHF hst hhf hvhf
      have hcb' : FrBound hs' (Cb + A) := hcb.of_frLe (K.FrLe.mono' hfr (by omega)) hw
      have hlive' : LiveLe0 hs' Pk := hP n ⟨σ', pcR'', outAfter o acc⟩ st' cfg' hs' kp'
        (Reachable.step Reachable.refl hst) hn T'' hacc'.symm R'
        (fun rs lin lazy live F J => by have := hcb' rs lin lazy live F J; omega)
      have hfb' : FrBound hs' (Pk + 1) := hfb.step hfr.2.1 hpk hw hlive'
      have hC' : Cb + A + A * fuel ≤ C := by
        have : A * (fuel + 1) = A * fuel + A := Nat.mul_succ A fuel
        omega
      obtain ⟨kL, σL, outL, m, g1, g2, g3, g4⟩ := run3_peakM hooks prog kc code nargs kc' hcomp hsafe htp hfit DX
        hprog Pk C A hA hbytes hK hHF fuel st' (outAfter o acc) cfg' hs' σ' kp' pcR'' out v (Cb + A) hsafe'
        (fun st'' hr => hcap st'' (Scc.Props.C06Generic.reachable_prepend hst hr)) T'' R' hlet' hvals' hhf' hvhf' hacc'
        (by omega) hfb' hcb' hC' (hP.step hst hn) (hHP.step hst hn) h'
      exact ⟨kL, σL, outL, n + m, hk.trans g1, g2, g3, g4⟩

include H h8 HB hnd hfitX hcs hclean in
/-- PROGRESS, all programs: along a run of the positional machine that is still going after
`N·(M + 1) + |stmt|` steps, the machine makes at least `N` iterations of its run loop without fault -/
theorem run3_progressM (hooks : Bool) (prog : AxCut.Prog) (kc : Nat) (code : List MockOp) (nargs kc' : Nat)
    (hcomp : (compile mockSym hooks prog).run kc = .ok ((code, nargs), kc'))
    (hsafe : LabelSafe prog = true) (htp : LinTypedProg prog) (hfit : CodeFits code)
    (DX : K.XDefsAt cs hooks prog) (hprog : K.ProgOK prog) (Pk C A M : Nat)
    (hA : ∀ d ∈ prog.defs, AllocLe A d.body) (hM : ∀ d ∈ prog.defs, stmtSize d.body ≤ M)
    (hbytes : 64 * (Pk + A + 2) ≤ c.heapBytes) (hK : HK hkf) (hHF : ∀ d ∈ prog.defs, AllHF d.body) :
    ∀ (fuel N : Nat) (st : Pos.State) (acc : List (Bool × Word)) (cfg : Config) (hs : HState) (σ : State)
      (kp pcR : Nat) (out : List (Bool × Word)) (Cb : Nat),
      Pos.StateTyped prog st → (∀ st', Reachable prog st st' → 2 * st'.ctx.length ≤ 280) →
      K.Tol Pm (pcOf hkf cs kp) pcR →
      K.Rel3 c cs (Program.ofOps code) hooks prog st cfg hs σ kp → AllocLe A st.stmt →
      (∀ w ∈ st.env, ValAll (AllocLeClauses A) w) →
      AllHF st.stmt → (∀ w ∈ st.env, ValAll ClausesHF w) →
      stmtSize st.stmt ≤ M → (∀ w ∈ st.env, ValAll (fun cl => clausesSize cl ≤ M) w) →
      cfg.out = acc → cfg.next + fuel < 2 ^ 64 → FrBound hs (Pk + 1) →
      FrBound hs Cb → Cb + A * fuel ≤ C →
      PeakFrom c hkf Pm cs (Program.ofOps code) hooks prog st ⟨σ, pcR, acc⟩ Pk C →
      HookPassFrom pass c hkf Pm cs (Program.ofOps code) hooks prog st ⟨σ, pcR, acc⟩ (Pk + 1) →
      Pos.runState prog fuel st acc = ⟨out, .outOfFuel⟩ → N * (M + 1) + stmtSize st.stmt ≤ fuel →
      ∃ n X', N ≤ n ∧ StepsNP pass Pm c n ⟨σ, pcR, acc⟩ X'
  | _, 0, _, acc, _, _, σ, _, pcR, _, _, _, _, _, _, _, _, _, _, _, _, _, _, _, _, _, _, _, _, _ =>
    ⟨0, _, Nat.le_refl _, StepsNP.refl _ _ _ _⟩
  | 0, N + 1, st, _, _, _, _, _, _, _, _, _, _, _, _, _, _, _, _, _, _, _, _, _, _, _, _, _, _, hN => by
    have := stmtSize_pos st.stmt
    omega
  | fuel + 1, N + 1, st, acc, cfg, hs, σ, kp, pcR, out, Cb, T, hcap, TL, R, hlet, hvals, hhf, hvhf, hszM, hvalsM, hacc,
      hnext, hfb, hcb, hC, hP, hHP, hrun, hN => by
    have hX3 : ∃ Γ' ι κ, K.X3 c Γ' cfg hs ι κ σ cfg.out := by
      obtain ⟨Γ', ι, κ, _, _, X3h, _⟩ := R
      exact ⟨Γ', ι, κ, X3h⟩
    obtain ⟨Γ0, ι0, κ0, X3h⟩ := hX3
    have hbase := X3h.hrel.base
    have hlimit := X3h.hrel.limit
    have hAr := allocArity_le hlet
    have hroom : Room hs (64 * allocArity st.stmt + 64) :=
      Scc.X86.Conc.Room.of_frBound hfb (by rw [hbase, hlimit]; omega)
    have hsim := K.step3M H h8 HB hnd hfitX hcs hclean hooks prog kc code nargs kc' hcomp hsafe htp hfit
      DX hprog st cfg hs σ kp R T (by unfold EnoughHeap; omega) hroom hK (headHF_of_all hhf)
    have hpass0 : pcR = pcOf hkf cs kp → ∀ vs, Pm.items[pcOf hkf cs kp]? = some (.hook vs) → pass σ vs :=
      fun e vs hv => hHP 0 ⟨σ, pcR, acc⟩ st cfg hs kp vs Reachable.refl (StepsN.refl _ _ _) e hacc.symm R hfb
        (by rw [e]; exact hv)
    have hsafe' := Pos.step_safe htp st T
    have hw : ∃ rs lin lazy live F, InvS hs rs [] lin lazy live F := by
      obtain ⟨lin, lazy, live, Fr, I⟩ := X3h.href.conc
      exact ⟨_, lin, lazy, live, Fr, I⟩
    unfold K.StepSim3M at hsim
    simp only [Pos.runState] at hrun
    cases hst : Pos.step prog st with
    | stuck w => simp [hst] at hrun
    | done v' => simp [hst] at hrun
    | next st' o =>
      simp only [hst] at hrun hsim
      rw [hst] at hsafe'
      have hc' := hcap st' (Reachable.step Reachable.refl hst)
      obtain ⟨cfg', hs', σ', kp', pcR', h1, T', hreal, h2, h3, hfr, hpk, R'⟩ :=
        hsim (K.withinCapacity_of_le hc') hc'
      have hacc' : cfg'.out = outAfter o acc := by rw [h2, hacc]
      rw [hacc, hacc'] at h1 hreal
      obtain ⟨hlet', hvals'⟩ := hered_step (hered_allocLe A) hA hst hlet hvals
      obtain ⟨hhf', hvhf'⟩ := hered_step hered_allHF hHF hst hhf hvhf
      obtain ⟨hszM', hvalsM'⟩ := hered_step (hered_size M) hM hst hszM hvalsM
      have hcb' : FrBound hs' (Cb + A) := hcb.of_frLe (K.FrLe.mono' hfr (by omega)) hw
      have hC' : Cb + A + A * fuel ≤ C := by
        have : A * (fuel + 1) = A * fuel + A := Nat.mul_succ A fuel
        omega
      have hrun' : Pos.runState prog fuel st' (outAfter o acc) = ⟨out, .outOfFuel⟩ := by
        cases o <;> exact hrun
      have hcapr : ∀ st'', Reachable prog st' st'' → 2 * st''.ctx.length ≤ 280 :=
        fun st'' hr => hcap st'' (Scc.Props.C06Generic.reachable_prepend hst hr)
      have hliveOf : ∀ k pcR'', StepsN Pm c k ⟨σ, pcR, acc⟩ ⟨σ', pcR'', outAfter o acc⟩ →
          K.Tol Pm (pcOf hkf cs kp') pcR'' → LiveLe0 hs' Pk :=
        fun k pcR'' hk T'' => hP k ⟨σ', pcR'', outAfter o acc⟩ st' cfg' hs' kp'
          (Reachable.step Reachable.refl hst) hk T'' hacc'.symm R'
          (fun rs lin lazy live F J => by
            have := hcb' rs lin lazy live F J
            have : A ≤ A * (fuel + 1) := Nat.le_mul_of_pos_right A (by omega)
            omega)
      rcases size_step hst with hj | hsz
      · -- a call or an invoke: at least one iteration; the statement continued with is at most `M`
        obtain ⟨k, hk1, hkP⟩ := K.tol_next_realP (pass := pass) TL (hreal hj) hpass0
        have hk : StepsN Pm c k ⟨σ, pcR, acc⟩ ⟨σ', pcR', outAfter o acc⟩ := hkP.forget
        have hfb' : FrBound hs' (Pk + 1) := hfb.step hfr.2.1 hpk hw (hliveOf k pcR' hk T')
        have hN' : N * (M + 1) + stmtSize st'.stmt ≤ fuel := by
          have : (N + 1) * (M + 1) = N * (M + 1) + (M + 1) := Nat.succ_mul N (M + 1)
          have := stmtSize_pos st.stmt
          omega
        obtain ⟨n', X'', hn', hX''⟩ := run3_progressM hooks prog kc code nargs kc' hcomp hsafe htp hfit DX hprog Pk C A
          M hA hM hbytes hK hHF fuel N st' (outAfter o acc) cfg' hs' σ' kp' pcR' out (Cb + A) hsafe' hcapr T' R' hlet'
          hvals' hhf' hvhf' hszM' hvalsM' hacc' (by omega) hfb' hcb' hC' (hP.step hst hk) (hHP.step hst hk) hrun' hN'
        exact ⟨k + n', X'', by omega, hkP.trans hX''⟩
      · -- a smaller statement: same target
        obtain ⟨pcR'', k, hkP, T''⟩ := K.tol_nextP (pass := pass) TL h1 T' hpass0
        have hk : StepsN Pm c k ⟨σ, pcR, acc⟩ ⟨σ', pcR'', outAfter o acc⟩ := hkP.forget
        have hfb' : FrBound hs' (Pk + 1) := hfb.step hfr.2.1 hpk hw (hliveOf k pcR'' hk T'')
        have hN' : (N + 1) * (M + 1) + stmtSize st'.stmt ≤ fuel := by omega
        obtain ⟨n', X'', hn', hX''⟩ := run3_progressM hooks prog kc code nargs kc' hcomp hsafe htp hfit DX hprog Pk C A
          M hA hM hbytes hK hHF fuel (N + 1) st' (outAfter o acc) cfg' hs' σ' kp' pcR'' out (Cb + A) hsafe' hcapr T'' R' hlet'
          hvals' hhf' hvhf' hszM' hvalsM' hacc' (by omega) hfb' hcb' hC' (hP.step hst hk) (hHP.step hst hk) hrun' hN'
        exact ⟨k + n', X'', by omega, hkP.trans hX''⟩

end Run3M

end Scc.A64.ConcK
