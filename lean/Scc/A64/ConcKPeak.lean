/-
  Scc.A64.ConcKPeak — the allocation lemmas of the CLOSURE-AWARE three-way relation on AArch64
  (Scc/A64/RefClosHStore.lean, RefClosHLet.lean, RefClosCreate.lean, namespace `Scc.A64.Ref.K`) with the C10
  bookkeeping that `FrLe` does not carry (the AArch64 analogue of Scc/X86/ConcKPeak.lean):
  * `store_x3P`, `store_midP`, `let_x3P`, `create_x3P`: the allocation frontier moves ONLY when both free
    lists are exhausted afterwards (`FrPk`, Scc/X86/ConcPeak.lean — a block-level, backend-independent notion —
    from `storeObj_spec` through `frPk_store`); the environment of a closure is stored by the same
    `Memory::store` as the fields of an object, so `create` is `let` here.
  These are `store_x3`, `store_mid`, `let_x3`, `create_x3` of `Scc.A64.Ref.K` with one more conjunct each (same
  proofs).  GENERATED from those files by string replacement (generator: memory note scc-a64-conc).
-/
import Scc.A64.RefClosHRun
import Scc.X86.ConcPeak

set_option linter.unusedVariables false
set_option linter.unusedSimpArgs false

namespace Scc.A64.Ref.K

open Scc.AxCut Scc.AxCut.Pos Scc.Backend Scc.Backend.Abs Scc.Backend.Sim Scc.Backend.Sim2 Scc.A64 Scc.A64.CC
open Scc.Heap (HState InvS InvW)
open Scc.Heap.Refine (HRef imgW fieldImg kindB href_store FrLe Room frLe_store FrPk frPk_store)

/-- THE ABSTRACT `store` (at least one field) AGAINST `Memory::store` -/
theorem store_x3P {c : MemCfg} (H : CfgCC c) (h8 : c.heapBase % 8 = 0)
    {Γ : Ctx} {cfg cfg1 : Config} {hs : HState} {ι : Nat → Nat} {κ : Nat → Nat → Word} {σ : State} {out : List (Bool × Word)}
    (X : X3 c Γ cfg hs ι κ σ out) {n : Nat} (hn : n < Γ.length) {fields : List Abs.Field}
    (hf : readFields cfg.temps (Mock.kindsOf (Γ.drop n)) n = some fields)
    (hch : Obj.children ⟨0, fields⟩ = roots.go cfg.temps (Γ.drop n) n)
    (hnext : cfg.next < 2 ^ 64)
    (hlow : ∀ t, t < 2 * n → cfg1.temps.get t = cfg.temps.get t)
    (hheap : cfg1.heap = (cfg.next, ⟨0, fields⟩) :: cfg.heap) (hnx : cfg1.next = cfg.next + 1)
    (hout : cfg1.out = cfg.out)
    (hroom : Room hs (64 * (Γ.length - n) + 64)) (kk : Nat) :
    ∃ code kk', (store (Γ.drop n) (Γ.take n)).run kk = .ok (code, kk') ∧ kk ≤ kk' ∧ LabsIn code kk kk' ∧
      ∃ σ' hs' p, execFwd c code σ = .ok (σ', .next) ∧
        X3R c (Γ.take n) cfg1 (roots (Γ.take n) cfg.temps ++ [cfg.next]) hs'
          (fun i => if i = cfg.next then p else ι i) (storeK σ κ cfg.next n) σ' out ∧
        σ'.tempVal (posTemp (2 * n)) = some (BitVec.ofNat 64 p) ∧ p ≠ 0 ∧ p < 2 ^ 64 ∧
        FrLe hs hs' (64 * (Γ.length - n)) ∧
        (∀ t, t < 2 * n → σ'.tempVal (posTemp t) = σ.tempVal (posTemp t)) ∧ FrPk hs hs' := by
  have hnle : n ≤ Γ.length := Nat.le_of_lt hn
  have hlenT : (Γ.take n).length = n := by simp [Nat.min_eq_left hnle]
  have hlenD : (Γ.drop n).length = Γ.length - n := by simp
  have hsplit := roots_split cfg.temps Γ n hnle
  -- the words the machine holds at the stored positions
  generalize hT : (fun j => (σ.tempVal (posTemp (2 * (n + j) + 1))).getD 0) = T
  have hTdef : ∀ j (hj : j < (Γ.drop n).length), σ.tempVal (posTemp (2 * (n + j) + 1)) = some (T j) := by
    intro j hj
    have hj' : n + j < Γ.length := by rw [hlenD] at hj; omega
    -- the abstract temporary is defined (the store reads it)
    have hdef : ∃ a, cfg.temps.get (2 * (n + j) + 1) = some a := by
      obtain ⟨hl, hs⟩ := readFields_spec cfg.temps _ n fields hf
      have hjk : j < (Mock.kindsOf (Γ.drop n)).length := by simpa [Mock.kindsOf] using hj
      exact ⟨_, (hs j hjk (by rw [hl]; exact hjk)).2.1⟩
    obtain ⟨a, ha⟩ := hdef
    have hw := X.words (n + j) hj' a ha
    rw [← hT]
    simp only
    rw [hw]
    rfl
  -- what the machine holds
  have hE : EnvFields (mview σ) n (Γ.drop n) ((setVals T 0 fields).map (fieldImg ι)) := by
    apply envFields_of_read T (Γ.drop n) n 0 fields hf
    · intro j hj
      rw [Nat.zero_add]; exact hTdef j hj
    · intro j hj hc r hr
      have hj' : n + j < Γ.length := by rw [hlenD] at hj; omega
      have hc' : Γ[n + j].chi ≠ .ext := by simpa using hc
      exact ⟨X.ptrs (n + j) hj' hc' r hr, fun h0 => (X3R.ref_lt H X hj' hc' hr h0).1⟩
  obtain ⟨hflenK, hfspec⟩ := readFields_spec cfg.temps _ n fields hf
  have hflen : fields.length = Γ.length - n := by
    rw [hflenK]; simp [Mock.kindsOf]
  -- the translation of the new object
  have hnewF : setVals T 0 fields = trFs (storeK σ κ cfg.next n) cfg.next 0 fields := by
    apply setVals_eq_trFs 0 fields
    · intro i hi hc
      rw [Nat.zero_add, ← hT]
      simp [storeK]
    · intro i hi hc
      rw [Nat.zero_add]
      have hik : i < (Mock.kindsOf (Γ.drop n)).length := by rw [← hflenK]; exact hi
      obtain ⟨hchi, hval, _⟩ := hfspec i hik hi
      have hi' : n + i < Γ.length := by rw [hflen] at hi; omega
      have hw := X.words (n + i) hi' _ hval
      have hT' := hTdef i (by rw [hlenD]; rw [hflen] at hi; exact hi)
      rw [hT'] at hw
      have hcΓ : Γ[n + i].chi = fields[i].chi := by
        rw [hchi]; simp [Mock.kindsOf]
      rw [hcΓ] at hw
      injection hw with hw
      rw [hw]
      cases hcc : fields[i].chi with
      | cns => exact absurd hcc hc
      | prd => rfl
      | ext => rfl
  rw [hnewF] at hE
  generalize hκ' : storeK σ κ cfg.next n = κ' at hE hnewF
  have hκold : ∀ e ∈ cfg.heap, ∀ j, κ' e.1 j = κ e.1 j := by
    intro e he j
    have := (X.href.abs.ids _ (mem_trHeap κ he)).2.1
    simp only at this
    rw [← hκ']
    unfold storeK
    rw [if_neg (by omega)]
  -- the block-level store
  have hcho : Obj.children ⟨0, trFs κ' cfg.next 0 fields⟩ = roots.go cfg.temps (Γ.drop n) n := by
    rw [← hch]; exact trO_children κ' cfg.next ⟨0, fields⟩
  have R0 : HRef (trHeap κ cfg.heap) (roots (Γ.take n) cfg.temps ++ Obj.children ⟨0, trFs κ' cfg.next 0 fields⟩)
      cfg.next hs ι := by
    rw [hcho, ← hsplit]; exact X.href
  obtain ⟨hs', p, hop, R1⟩ := href_store (o := ⟨0, trFs κ' cfg.next 0 fields⟩) rfl
    (by
      intro e
      have : fields.length = 0 := by
        have := congrArg List.length e
        simpa [trFs_length] using this
      omega)
    hnext R0
    (by
      obtain ⟨lin, lazy, live, Fr, I⟩ := X.href.conc
      refine ⟨lin, lazy, live, Fr, ?_, ?_⟩
      · rw [hcho, ← hsplit]; exact I
      · simp only [trFs_length]; rw [hflen]; have := hroom _ _ _ _ _ I; omega)
  have hfr : FrLe hs hs' (64 * (Γ.length - n)) := by
    have := frLe_store (o := ⟨0, trFs κ' cfg.next 0 fields⟩) R0
      (by simp only [trFs_length]; rw [hflen]; exact hroom) hop
    simpa [hflen, trFs_length] using this
  have hpk : FrPk hs hs' := frPk_store (o := ⟨0, trFs κ' cfg.next 0 fields⟩) R0
    (by simp only [trFs_length]; rw [hflen]; exact hroom) hop
  -- the machine
  obtain ⟨code, kk', hrun, hle, hlabs, σ', hx, B', HR', ⟨w, hw, ew⟩, FT⟩ :=
    store_contract h8 (X.spOk H) X.hrel (toStore := Γ.drop n) (rem := Γ.take n)
      (by rw [hlenT, hlenD]; have := X.cap; omega) (by rw [hlenT]; exact hE) hop kk
  rw [hlenT] at hw FT
  have hnew : (cfg.next, (⟨0, trFs κ' cfg.next 0 fields⟩ : Obj)) ∈
      (cfg.next, (⟨0, trFs κ' cfg.next 0 fields⟩ : Obj)) :: trHeap κ cfg.heap :=
    List.mem_cons_self
  have hp0 : p ≠ 0 := by
    have := (R1.shape _ hnew).pos
    simpa using this
  have hplt : p < 2 ^ 64 := by
    have h1 := href_head_lt R1 hnew
    simp only [if_true] at h1
    have h2 := limit_lt B' HR'
    omega
  have hkeep : ∀ t, t < 2 * n → σ'.tempVal (posTemp t) = σ.tempVal (posTemp t) := by
    intro t ht
    have htc : t < 281 := by have := X.cap; omega
    apply FT.temps _ (opndOK_posTemp htc)
    intro hc
    rcases hc with e | e | e | e | ⟨j, e⟩
    · exact posTemp_ne_x htc (by decide) e
    · exact posTemp_ne_x htc (by decide) e
    · exact posTemp_ne_x htc (by decide) e
    · exact posTemp_ne_x htc (by decide) e
    · have := posTemp_inj.1 e; omega
  refine ⟨code, kk', hrun, hle, hlabs, σ', hs', p, hx, ?_, by rw [hw, ofNat_of_toNat ew], hp0, hplt, hfr,
    hkeep, hpk⟩
  refine ⟨core_frameT H X.core FT, by rw [hlenT]; have := X.cap; omega, ?_, ?_, by rw [hout]; exact X.out, HR', ?_⟩
  · intro i hi a ha
    rw [hlenT] at hi
    rw [hlow _ (by omega)] at ha
    rw [hkeep _ (by omega)]
    have := X.words i (by omega) a ha
    simpa using this
  · intro i hi hc r hr
    rw [hlenT] at hi
    have hi' : i < Γ.length := by omega
    have hc' : Γ[i].chi ≠ .ext := by simpa using hc
    rw [hlow _ (by omega)] at hr
    rw [hkeep _ (by omega), X.ptrs i hi' hc' r hr]
    congr 1
    unfold imgWord
    by_cases h0 : r = 0
    · simp [h0]
    · rw [if_neg h0, if_neg h0]
      have := (X3R.ref_lt H X hi' hc' hr h0).2
      show _ = BitVec.ofNat 64 (if r.toNat = cfg.next then p else ι r.toNat)
      rw [if_neg (by omega)]
  · rw [hheap, hnx, trHeap_cons, trHeap_congr κ cfg.heap hκold]
    exact R1


section Create3P

variable {c : MemCfg} (H : CfgCC c) (h8 : c.heapBase % 8 = 0) {hkf : Code → Bool} {Pm : Prog}
  {cs : List Code} (Hp : Holds hkf Pm cs) (hnd : (labs cs).Nodup)

include H h8 Hp hnd in
/-- the `store` of `let` / `create` on both machines: the positions `N, N+1, …` become the fields of a new
object, referenced by the pointer part of the new position `N` (a binding `b` of non-`ext` kind) -/
theorem store_midP {P : Program} {Γ : Ctx} {N : Nat} (hNle : N ≤ Γ.length) {b : Binding} (hb : b.chi ≠ .ext)
    {cfg cA : Config} {hs : HState} {ι : Nat → Nat} {κ : Nat → Nat → Word} {σ : State}
    {out : List (Bool × Word)} {kp : Nat}
    (X0 : X3 c Γ cfg hs ι κ σ out)
    (hstore : P.code[cfg.pc]? = some (.store (Mock.kindsOf (Γ.drop N)) N))
    (hsA : Abs.step P cfg = .next cA)
    {fields : List Abs.Field} (hf : readFields cfg.temps (Mock.kindsOf (Γ.drop N)) N = some fields)
    (hch : Obj.children ⟨0, fields⟩ = roots.go cfg.temps (Γ.drop N) N)
    (hnext : cfg.next < 2 ^ 64) (hroom : Room hs (64 * (Γ.length - N) + 64))
    {k kst : Nat} {cst rest : List Code}
    (hstX : (store (Γ.drop N) (Γ.take N)).run k = .ok (cst, kst))
    (hat1 : XAt cs kp (cst ++ rest)) :
    ∃ σ1 hs' ι' κ', MSteps Pm c σ (pcOf hkf cs kp) out σ1 (pcOf hkf cs (kp + cst.length)) out ∧
      X3R c (Γ.take N) cA (roots (Γ.take N) cA.temps ++ Sim2.rootOf cA.temps b N) hs' ι' κ' σ1 out ∧
      (∀ r, cA.temps.get (2 * N) = some r → σ1.tempVal (posTemp (2 * N)) = some (imgWord ι' r)) ∧
      cA.pc = cfg.pc + 1 ∧ FrLe hs hs' (64 * (Γ.length - N)) ∧
      (∀ t, t < 2 * N → cA.temps.get t = cfg.temps.get t) ∧
      (∀ t, t < 2 * N → σ1.tempVal (posTemp t) = σ.tempVal (posTemp t)) ∧
      ((Γ.drop N = [] ∧ cA.heap = cfg.heap ∧ κ' = κ ∧ cA.temps.get (2 * N) = some 0) ∨
       (Γ.drop N ≠ [] ∧ cA.heap = (cfg.next, ⟨0, fields⟩) :: cfg.heap ∧ κ' = storeK σ κ cfg.next N ∧
        cA.temps.get (2 * N) = some (BitVec.ofNat 64 cfg.next))) ∧ FrPk hs hs' := by
  have hlenTake : (Γ.take N).length = N := by simp [Nat.min_eq_left hNle]
  have hbne : (b.chi != Chi.ext) = true := (Scc.Backend.Sim2.chi_bne_ext _).mpr hb
  cases hΔ : Γ.drop N with
  | nil =>
    have hNΓ : N = Γ.length := by
      have := congrArg List.length hΔ
      simp at this; omega
    rw [hΔ] at hstore hstX
    have hT : Γ.take N = Γ := by rw [hNΓ]; exact List.take_length
    rw [hT] at hstX ⊢
    have hA := step_store_empty P cfg N hstore
    rw [hsA] at hA
    injection hA with hA
    have hlow : ∀ t, t < 2 * Γ.length → cA.temps.get t = cfg.temps.get t := by
      intro t ht
      rw [hA]
      simp only
      rw [get_set_other _ _ (by omega), get_clobberTemp _ (by unfold Mock.T_TEMP; have := X0.cap; omega)]
    obtain ⟨code, kk', hrunS, _, _, σ1, hx, X1, hv1, hkeepE⟩ :=
      store_x3_empty H h8 X0 hlow (by rw [hA]) (by rw [hA]) (by rw [hA]) k
    have hcode : code = cst ∧ kk' = kst := by
      have : (store [] Γ).run k = .ok (cst, kst) := hstX
      rw [hrunS] at this
      injection this with this
      injection this with e1 e2
      exact ⟨e1, e2⟩
    obtain ⟨rfl, rfl⟩ := hcode
    have hn1 := x_msteps_fwd Hp hnd hat1.left hx out
    have h2n : cA.temps.get (2 * N) = some 0 := by
      rw [hA]; simp only; exact get_set_same _ _ _
    refine ⟨σ1, hs, ι, κ, hn1, ?_, ?_, by rw [hA], by
      rw [hNΓ, Nat.sub_self]; exact Scc.Heap.Refine.FrLe.refl hs, fun t ht => hlow t (by omega),
      fun t ht => hkeepE t (by omega),
      Or.inl ⟨rfl, by rw [hA], rfl, h2n⟩, FrPk.refl hs⟩
    · have hr : Sim2.rootOf cA.temps b N = [] := by
        unfold Sim2.rootOf; rw [h2n]; simp
      rw [hr, List.append_nil, roots_congr _ _ _ (fun i hi => hlow (2 * i) (by omega))]
      exact X1
    · intro r hr
      rw [h2n] at hr
      injection hr with hr
      subst hr
      rw [hNΓ, hv1]
      simp [imgWord]
  | cons b0 Δ =>
    rw [hΔ] at hstore
    have hfc : readFields cfg.temps (b0.chi :: Mock.kindsOf Δ) N = some fields := by
      rw [hΔ] at hf; exact hf
    have hA := step_store_cons P cfg b0.chi (Mock.kindsOf Δ) N fields hstore hfc
    rw [hsA] at hA
    injection hA with hA
    have hNlt : N < Γ.length := by
      have := congrArg List.length hΔ
      simp at this; omega
    have hlow : ∀ t, t < 2 * N → cA.temps.get t = cfg.temps.get t := by
      intro t ht
      rw [hA]
      simp only
      rw [get_set_other _ _ (by omega), get_clearPositions, if_neg (by omega),
        get_clobberTemp _ (by unfold Mock.T_TEMP; have := X0.cap; omega)]
    obtain ⟨code, kk', hrunS, _, _, σ1, hs', p, hx, X1, hv1, hp0, hplt, hfrS, hkeepS, hpkS⟩ :=
      store_x3P H h8 X0 hNlt hf hch hnext hlow (by rw [hA]) (by rw [hA]) (by rw [hA])
        hroom k
    have hcode : code = cst ∧ kk' = kst := by
      have : (store (Γ.drop N) (Γ.take N)).run k = .ok (cst, kst) := hstX
      rw [hrunS] at this
      injection this with this
      injection this with e1 e2
      exact ⟨e1, e2⟩
    obtain ⟨rfl, rfl⟩ := hcode
    have hn1 := x_msteps_fwd Hp hnd hat1.left hx out
    have h2n : cA.temps.get (2 * N) = some (BitVec.ofNat 64 cfg.next) := by
      rw [hA]; simp only; exact get_set_same _ _ _
    have hr0 : BitVec.ofNat 64 cfg.next ≠ 0 := ofNat_ne_zero X0.href.abs.pos hnext
    have hrt : (BitVec.ofNat 64 cfg.next).toNat = cfg.next := ofNat_toNat_lt hnext
    refine ⟨σ1, hs', (fun i => if i = cfg.next then p else ι i), storeK σ κ cfg.next N, hn1, ?_, ?_, by rw [hA],
      hfrS, hlow,
      fun t ht => hkeepS t ht,
      Or.inr ⟨by simp, by rw [hA], rfl, h2n⟩, hpkS⟩
    · have hr : Sim2.rootOf cA.temps b N = [cfg.next] := by
        unfold Sim2.rootOf
        rw [h2n]
        have h1 : (b.chi != Chi.ext) = true := hbne
        have h2 : (BitVec.ofNat 64 cfg.next != 0) = true := by rw [bne_iff_ne]; exact hr0
        simp only [h1, h2, if_true, hrt]
      rw [hr, roots_congr _ _ _ (fun i hi => hlow (2 * i) (by rw [hlenTake] at hi; omega))]
      exact X1
    · intro r hr
      rw [h2n] at hr
      injection hr with hr
      subst hr
      rw [hv1]
      unfold imgWord
      rw [if_neg hr0, hrt]
      simp

include H h8 Hp hnd in
/-- THREE-WAY SIMULATION OF `create` -/
theorem create_x3P (HB : HoldsB hkf Pm cs) {pre : List Code} (hcsC : cs = pre ++ cleanup)
    {P : Program} {hooks : Bool} {prog : AxCut.Prog} {Γ : Ctx}
    {ρ : List Value} {x : Ident} {ty : Ty} {Γc : Ctx} {clauses : Clauses} {next : Stmt} {f1 f2 : FV}
    {cfg : Config}
    (R : RelX P hooks prog ⟨Γ, ρ, .create x ty (some Γc) clauses next f1 f2⟩ cfg)
    (hk : Γc.length ≤ Γ.length)
    (hkeys : Ctx.keys (Γ.drop (Γ.length - Γc.length)) = Γc.keys)
    (hfresh : ∀ b ∈ Γ.take (Γ.length - Γc.length), b.var.id ≠ x.id)
    (hcap : 2 * (Γ.length - Γc.length + 1) + 2 < Mock.T_TEMP)
    (hnext : cfg.next < 2 ^ 64)
    {hs : HState} {ι : Nat → Nat} {κ : Nat → Nat → Word} {σ : State} {out : List (Bool × Word)} {kp : Nat}
    (X : X3 c Γ cfg hs ι κ σ out)
    {k k' : Nat} {items : List Code}
    (hrun : (codeStatementR a64Backend hooks natRen prog.types (.create x ty (some Γc) clauses next f1 f2) Γ).run k =
      .ok (items, k'))
    (hat : XAt cs kp items)
    (hroom : Room hs (64 * Γc.length + 64)) :
    ∃ cfg' σ' hs' ι' κ' kp', stepsTo P 2 cfg cfg' ∧
      MSteps Pm c σ (pcOf hkf cs kp) out σ' (pcOf hkf cs kp') out ∧ FrLe hs hs' (64 * Γc.length) ∧
      cfg'.out = cfg.out ∧ cfg'.next ≤ cfg.next + 1 ∧
      RelX P hooks prog ⟨Γ.take (Γ.length - Γc.length) ++ [⟨x, .cns, ty⟩],
        ρ.take (Γ.length - Γc.length) ++ [.clo Γc (ρ.drop (Γ.length - Γc.length)) clauses], next⟩ cfg' ∧
      X3 c (Γ.take (Γ.length - Γc.length) ++ [⟨x, .cns, ty⟩]) cfg' hs' ι' κ' σ' out ∧
      ∃ k1 k1' items', (codeStatementR a64Backend hooks natRen prog.types next
          (Γ.take (Γ.length - Γc.length) ++ [⟨x, .cns, ty⟩])).run k1 = .ok (items', k1') ∧
        XAt cs kp' items' ∧ LetProv Γ (Γ.length - Γc.length) cfg cfg' κ κ' σ σ' ∧
        ∃ a w, cfg'.temps.get (2 * (Γ.length - Γc.length) + 1) = some (BitVec.ofNat 64 a) ∧
          σ'.tempVal (posTemp (2 * (Γ.length - Γc.length) + 1)) = some w ∧
          MethodsAt P hooks prog.types a (Γ.drop (Γ.length - Γc.length)) clauses ∧
          XMethodsAt c cs hooks prog.types w (Γ.drop (Γ.length - Γc.length)) clauses ∧ FrPk hs hs' := by
  obtain ⟨cfg', hst, hout', hnx', R'⟩ := sim2_create R hk hkeys hfresh hcap hnext
  -- the mock code at the program counter (as in `sim2_create`)
  obtain ⟨c0m, c0m', ops, hrunM, hatM⟩ := R.code
  simp only [codeStatementR, run_bind_ok, run_pure_ok, freshLabelStr_run_ok, splitOffLast_run_ok,
    mockSym_store, mockSym_variableTemporary, vt_run_ok] at hrunM
  obtain ⟨sp, k1, ⟨_, rfl, rfl⟩, c1, k2, ⟨rfl, rfl⟩, num, k3, ⟨rfl, rfl⟩, t, k4, ⟨p, hp, rfl, rfl⟩,
    c3, k5, h3, c5, k6, h5, rfl, rfl⟩ := hrunM
  have hn : (Γ.take (Γ.length - Γc.length)).length = Γ.length - Γc.length := by simp
  have hp' : p = Γ.length - Γc.length := by
    rw [ctxPosition_eq_posOf] at hp
    have := posOf_append_fresh (Γ.take (Γ.length - Γc.length)) ⟨x, .cns, ty⟩ hfresh
    simp only at hp
    rw [this, hn] at hp
    exact (Option.some.inj hp).symm
  subst hp'
  simp only [mockSym_comment, mockSym_loadLabel, mockSym_label, List.append_assoc, CodeAt_hook] at hatM
  simp only [List.cons_append, List.nil_append, CodeAt, TempNum.toNat] at hatM
  obtain ⟨hstore, hll, hat'⟩ := hatM
  rw [CodeAt_append] at hat'
  obtain ⟨hat3, hat45⟩ := hat'
  simp only [CodeAt] at hat45
  obtain ⟨hlab, hat45'⟩ := hat45
  rw [hn] at hstore
  -- the AArch64 code at the program counter
  simp only [codeStatementR, run_bind_ok, run_pure_ok, freshLabelStr_run_ok, splitOffLast_run_ok] at hrun
  obtain ⟨spX, _, ⟨_, rfl, rfl⟩, cst, kst, hstX, numX, _, ⟨rfl, rfl⟩, tX, _, htX, c3X, k5X, h3X, c5X, k6X, h5X,
    rfl, rfl⟩ := hrun
  obtain ⟨pX, hpX, hltX, rfl, rfl, _⟩ := vt_rel htX
  have hpX' : pX = Γ.length - Γc.length := by
    have := posOf_append_fresh (Γ.take (Γ.length - Γc.length)) ⟨x, .cns, ty⟩ hfresh
    simp only at hpX
    rw [this, hn] at hpX
    exact (Option.some.inj hpX).symm
  subst hpX'
  simp only [TempNum.toNat] at hltX
  generalize hN : Γ.length - Γc.length = N at *
  have hNle : N ≤ Γ.length := by omega
  -- the two abstract steps, explicitly
  obtain ⟨cA, hsA, cB, hsB, hcB⟩ := hst
  have hcB' : cB = cfg' := hcB
  subst hcB'
  -- layout of the AArch64 items
  simp only [] at hstX h3X htX hat h3 hp hpX h5 h5X
  generalize hlbl : mangleTy ty ++ "_" ++ natRen (kst + 1) = lbl at *
  have hxc : a64Backend.comment "#load tag" = Code.COMMENT "#load tag" := rfl
  have hxl : a64Backend.loadLabel (posTemp (2 * N + TempNum.snd.toNat)) lbl = loadLabel (posTemp (2 * N + 1)) lbl := rfl
  have hxlab : a64Backend.label lbl = Code.LAB lbl := rfl
  rw [hxc, hxl, hxlab] at hat
  generalize hc0 : hookCode a64Backend hooks Γ ++ [a64Backend.comment
      ("create " ++ x.print ++ ": " ++ tyPrint ty ++ " = (" ++ varsPrint Γc ++ ")\\{ ... \\};")] = c0 at hat
  have hc0c : ∀ y ∈ c0, ∃ m', y = Code.COMMENT m' := by rw [← hc0]; exact hook_comments hooks Γ _
  generalize hT : (if clauses.length > 1 then codeTable a64Backend clauses lbl else []) = table at hat
  have hatA : XAt cs kp (c0 ++ (cst ++ ((Code.COMMENT "#load tag" :: loadLabel (posTemp (2 * N + 1)) lbl) ++
      (c3X ++ (Code.LAB lbl :: (table ++ c5X)))))) := by
    simpa [List.append_assoc] using hat
  -- the comments
  have hk0 := x_msteps_codes (c := c) Hp hatA.left (execCodes_comments c c0 σ hc0c) out
  have hat1 : XAt cs (kp + c0.length) (cst ++ ((Code.COMMENT "#load tag" ::
      loadLabel (posTemp (2 * N + 1)) lbl) ++ (c3X ++ (Code.LAB lbl :: (table ++ c5X))))) := hatA.right
  -- the fields read by the abstract `store`
  have hlenρ : (ρ.drop N).length = (Γ.drop N).length := by
    have := R.len; simp only at this; simp [this]
  obtain ⟨fields, hf, hrep, hch⟩ := readFields_ok2 (Γ.drop N) (ρ.drop N) N (R.vals.slice N) hlenρ
  have hlenTake : (Γ.take N).length = N := hn
  -- the store on both machines
  obtain ⟨σ1, hs', ι', κ', hn1, X1, hptr1, hpcA, hfrM, hlowM, hmachM, hobjM, hpkM⟩ :=
    store_midP H h8 Hp hnd hNle (b := ⟨x, .cns, ty⟩) (by intro h; cases h) X hstore hsA hf (hch 0) hnext
      (by rw [show Γ.length - N = Γc.length by omega]; exact hroom) hstX hat1
  -- the table label in the routine
  obtain ⟨cs1, rest1, hcs, hpcs1⟩ := hat1
  have hcsL : cs = (cs1 ++ cst ++ (Code.COMMENT "#load tag" :: loadLabel (posTemp (2 * N + 1)) lbl) ++ c3X) ++
      Code.LAB lbl :: ((table ++ c5X) ++ rest1) := by
    rw [hcs]; simp [List.append_assoc]
  generalize hApre : cs1 ++ cst ++ (Code.COMMENT "#load tag" :: loadLabel (posTemp (2 * N + 1)) lbl) ++ c3X = Apre
    at hcsL
  obtain ⟨Bm, c2m, R0m, hsplit, hBm, hc2m⟩ := split_first_instr ((table ++ c5X) ++ rest1)
    (instr_behind (pre := pre) (by rw [← hcsC]; exact hcsL))
  obtain ⟨hlabX, hidxlt, hlw⟩ := label_addr (c := c) HB hnd (by rw [hcsL, hsplit]) hBm hc2m
  -- the table address
  have hll' : P.code[cA.pc]? = some (.ll (2 * N + 1) (mangleTy ty ++ "_" ++ natRen (c0m + 1))) := by
    rw [hpcA]; exact hll
  have hB := step_ll P cA (2 * N + 1) _ _ hll' (by unfold Mock.T_TEMP; omega) hlab
  rw [hsB] at hB
  injection hB with hB
  have hat2 : XAt cs (kp + c0.length + cst.length) ((Code.COMMENT "#load tag" ::
      loadLabel (posTemp (2 * N + 1)) lbl) ++ (c3X ++ (Code.LAB lbl :: (table ++ c5X)))) :=
    ⟨cs1 ++ cst, rest1, by rw [hcs]; simp [List.append_assoc], by simp [hpcs1]⟩
  have hkc := x_msteps_codes (c := c) Hp (blk := [Code.COMMENT "#load tag"]) (σ := σ1) (σ' := σ1)
    (XAt.left (b := loadLabel (posTemp (2 * N + 1)) lbl) hat2.left) rfl out
  obtain ⟨σ2, hk2, C2, hv2, F2⟩ := loadLabel_pos H Hp X1.core hltX hlabX hidxlt
    (XAt.tail hat2.left) out
  rw [hlw] at hv2
  have X2 : X3R c (Γ.take N ++ [⟨x, .cns, ty⟩]) cB
      (roots (Γ.take N) cA.temps ++ Sim2.rootOf cA.temps ⟨x, .cns, ty⟩ N) hs' ι' κ' σ2 out := by
    refine X3R.snocW X1 (by rw [hlenTake]; exact hltX) C2 (by rw [hlenTake]; exact F2)
      (a := BitVec.ofNat 64 (cfg.pc + 1 + 1 + instrCount c3))
      (v := addrOf c cs Apre.length) (by rw [hlenTake, hv2]) (fun h => absurd rfl h)
      (by rw [hB, hlenTake]) (by rw [hB]) (by rw [hB]) (by rw [hB]) ?_
    intro _ r hr
    rw [hlenTake] at hr ⊢
    exact hptr1 r hr
  have hgetB : ∀ t, t ≠ 2 * N + 1 → t < 281 → cB.temps.get t = cA.temps.get t := by
    intro t hne ht
    rw [hB]
    simp only
    rw [get_set_other _ _ hne, get_clobberTemp _ (by unfold Mock.T_TEMP; omega)]
  have hrootsB : roots (Γ.take N ++ [⟨x, .cns, ty⟩]) cB.temps =
      roots (Γ.take N) cA.temps ++ Sim2.rootOf cA.temps ⟨x, .cns, ty⟩ N := by
    rw [roots_snoc, hlenTake]
    congr 1
    · exact roots_congr _ _ _ (fun i hi => hgetB (2 * i) (by omega) (by rw [hlenTake] at hi; omega))
    · unfold Sim2.rootOf
      rw [hgetB (2 * N) (by omega) (by omega)]
  have hm2 : MSteps Pm c σ1 (pcOf hkf cs (kp + c0.length + cst.length)) out σ2
      (pcOf hkf cs (kp + c0.length + cst.length + 1 + (loadLabel (posTemp (2 * N + 1)) lbl).length)) out :=
    hkc.trans hk2
  refine ⟨cB, σ2, hs', ι', κ', _, ⟨cA, hsA, cB, hsB, rfl⟩, hk0.trans (hn1.trans hm2),
    by rw [show Γ.length - N = Γc.length by omega] at hfrM; exact hfrM,
    hout', hnx', R', ?_, kst + 1, k5X, c3X, h3X, ?_, ?_, cfg.pc + 1 + 1 + instrCount c3,
    addrOf c cs Apre.length, ?_, ?_, ?_, ?_, hpkM⟩
  · show X3R c _ cB (roots _ cB.temps) hs' ι' κ' _ _
    rw [hrootsB]
    exact X2
  · have := hat2.right.left
    simp only [List.length_cons] at this
    rw [show kp + c0.length + cst.length + 1 + (loadLabel (posTemp (2 * N + 1)) lbl).length =
      kp + c0.length + cst.length + ((loadLabel (posTemp (2 * N + 1)) lbl).length + 1) by omega]
    exact this
  · -- what happened to the positions and the heap
    refine ⟨⟨fun t ht => ?_, fun i hi => ?_⟩, fields, hf, ?_⟩
    · rw [hgetB t (by omega) (by omega)]
      exact hlowM t ht
    · rw [mach_keep_frame F2 (by omega) (by omega), hmachM _ (by omega)]
    · rcases hobjM with ⟨h1, h2, h3', h4⟩ | ⟨h1, h2, h3', h4⟩
      · exact Or.inl ⟨h1, by rw [hB]; exact h2, h3', by rw [hgetB _ (by omega) (by omega)]; exact h4⟩
      · exact Or.inr ⟨h1, by rw [hB]; exact h2, h3', by rw [hgetB _ (by omega) (by omega)]; exact h4⟩
  · rw [hB]; simp only; exact get_set_same _ _ _
  · exact hv2
  · refine ⟨mangleTy ty ++ "_" ++ natRen (c0m + 1), k5, k6, c5, ?_, ?_⟩
    · simpa using h5
    · simp only [CodeAt]
      exact ⟨hlab, hat45'⟩
  · refine ⟨lbl, k5X, k6X, c5X, Apre.length, h5X, ?_, rfl⟩
    rw [hT]
    exact ⟨Apre, rest1, by rw [hcsL]; simp [List.append_assoc], rfl⟩

end Create3P

section Let3P

variable {c : MemCfg} (H : CfgCC c) (h8 : c.heapBase % 8 = 0) {hkf : Code → Bool} {Pm : Prog}
  {cs : List Code} (Hp : Holds hkf Pm cs) (hnd : (labs cs).Nodup)

include H h8 Hp hnd in
/-- THREE-WAY SIMULATION OF `let` -/
theorem let_x3P {P : Program} {hooks : Bool} {prog : AxCut.Prog} {Γ : Ctx} {ρ : List Value} {x : Ident}
    {ty : Ty} {tag : Ident} {args : Ctx} {next : Stmt} {fv : FV} {cfg : Config} {pos : Nat}
    (R : RelX P hooks prog ⟨Γ, ρ, .letS x ty tag args next fv⟩ cfg)
    (hk : args.length ≤ Γ.length)
    (hfresh : ∀ b ∈ Γ.take (Γ.length - args.length), b.var.id ≠ x.id)
    (hpos : Pos.tagPosition prog.types ty tag = .ok pos)
    (hcap : 2 * (Γ.length - args.length + 1) + 2 < Mock.T_TEMP)
    (hnext : cfg.next < 2 ^ 64)
    {hs : HState} {ι : Nat → Nat} {κ : Nat → Nat → Word} {σ : State} {out : List (Bool × Word)} {kp : Nat}
    (X : X3 c Γ cfg hs ι κ σ out)
    {k k' : Nat} {items : List Code}
    (hrun : (codeStatementR a64Backend hooks natRen prog.types (.letS x ty tag args next fv) Γ).run k =
      .ok (items, k'))
    (hat : XAt cs kp items)
    (hroom : Room hs (64 * args.length + 64)) :
    ∃ cfg' σ' hs' ι' κ' kp', stepsTo P 2 cfg cfg' ∧
      MSteps Pm c σ (pcOf hkf cs kp) out σ' (pcOf hkf cs kp') out ∧ FrLe hs hs' (64 * args.length) ∧
      cfg'.out = cfg.out ∧ cfg'.next ≤ cfg.next + 1 ∧
      RelX P hooks prog ⟨Γ.take (Γ.length - args.length) ++ [⟨x, .prd, ty⟩],
        ρ.take (Γ.length - args.length) ++ [.obj pos (ρ.drop (Γ.length - args.length))], next⟩ cfg' ∧
      X3 c (Γ.take (Γ.length - args.length) ++ [⟨x, .prd, ty⟩]) cfg' hs' ι' κ' σ' out ∧
      ∃ k1 k1' items', (codeStatementR a64Backend hooks natRen prog.types next
          (Γ.take (Γ.length - args.length) ++ [⟨x, .prd, ty⟩])).run k1 = .ok (items', k1') ∧
        XAt cs kp' items' ∧ LetProv Γ (Γ.length - args.length) cfg cfg' κ κ' σ σ' ∧ FrPk hs hs' := by
  obtain ⟨cfg', hst, hout', hnx', R'⟩ := sim2_let R hk hfresh hpos hcap hnext
  -- the mock code at the program counter (as in `sim2_let`)
  obtain ⟨c0m, c0m', ops, hrunM, hatM⟩ := R.code
  obtain ⟨d, hd, hxp⟩ := tagPosition_ok hpos
  simp only [codeStatementR, run_bind_ok, run_pure_ok, lookupTypeDeclM_run_ok, xtorPositionM_run_ok,
    splitOffLast_run_ok, mockSym_store, mockSym_variableTemporary, vt_run_ok] at hrunM
  obtain ⟨decl, k1, ⟨hd', rfl⟩, pos', k2, ⟨hx', rfl⟩, sp, k3, ⟨_, rfl, rfl⟩, c1, k4, ⟨rfl, rfl⟩, t, k5,
    ⟨p, hp, rfl, rfl⟩, c3, k6, h3, rfl, rfl⟩ := hrunM
  rw [hd] at hd'; cases hd'
  rw [hxp] at hx'; cases hx'
  have hn : (Γ.take (Γ.length - args.length)).length = Γ.length - args.length := by simp
  have hp' : p = Γ.length - args.length := by
    rw [ctxPosition_eq_posOf] at hp
    have := posOf_append_fresh (Γ.take (Γ.length - args.length)) ⟨x, .prd, ty⟩ hfresh
    simp only at hp
    rw [this, hn] at hp
    exact (Option.some.inj hp).symm
  subst hp'
  simp only [mockSym_comment, mockSym_loadImmediate, mockSym_jumpLength, List.append_assoc,
    CodeAt_hook] at hatM
  simp only [List.cons_append, List.nil_append, CodeAt, TempNum.toNat] at hatM
  obtain ⟨hstore, hli, hat3⟩ := hatM
  rw [hn] at hstore
  -- the AArch64 code at the program counter
  simp only [codeStatementR, run_bind_ok, run_pure_ok, lookupTypeDeclM_run_ok, xtorPositionM_run_ok,
    splitOffLast_run_ok] at hrun
  obtain ⟨declX, _, ⟨hdX, rfl⟩, posX, _, ⟨hxX, rfl⟩, spX, _, ⟨_, rfl, rfl⟩, cst, kst0, hstX, tX, kst, htX,
    c3X, k6X, h3X, rfl, rfl⟩ := hrun
  rw [hd] at hdX; cases hdX
  rw [hxp] at hxX; cases hxX
  obtain ⟨pX, hpX, hltX, rfl, rfl, _⟩ := vt_rel htX
  have hpX' : pX = Γ.length - args.length := by
    have := posOf_append_fresh (Γ.take (Γ.length - args.length)) ⟨x, .prd, ty⟩ hfresh
    simp only at hpX
    rw [this, hn] at hpX
    exact (Option.some.inj hpX).symm
  subst hpX'
  simp only [TempNum.toNat] at hltX
  generalize hN : Γ.length - args.length = N at *
  have hNle : N ≤ Γ.length := by omega
  -- the two abstract steps, explicitly
  obtain ⟨cA, hsA, cB, hsB, hcB⟩ := hst
  have hcB' : cB = cfg' := hcB
  subst hcB'
  -- layout of the AArch64 items
  simp only [] at hstX h3X htX hat h3 hp hpX
  have hxc : a64Backend.comment "#load tag" = Code.COMMENT "#load tag" := rfl
  have hxl : a64Backend.loadImmediate (posTemp (2 * N + TempNum.snd.toNat)) (a64Backend.jumpLength pos) =
      loadImmediate (posTemp (2 * N + 1)) (jumpLength pos) := rfl
  rw [hxc, hxl] at hat
  generalize hc0 : hookCode a64Backend hooks Γ ++ [a64Backend.comment
      ("let " ++ x.print ++ ": " ++ tyPrint ty ++ " = " ++ tag.print ++ "(" ++ varsPrint args ++ ");")] = c0 at hat
  have hc0c : ∀ y ∈ c0, ∃ m', y = Code.COMMENT m' := by rw [← hc0]; exact hook_comments hooks Γ _
  have hatA : XAt cs kp (c0 ++ (cst ++ ((Code.COMMENT "#load tag" ::
      loadImmediate (posTemp (2 * N + 1)) (jumpLength pos)) ++ c3X))) := by
    simpa [List.append_assoc] using hat
  -- the comments
  have hk0 := x_msteps_codes (c := c) Hp hatA.left (execCodes_comments c c0 σ hc0c) out
  have hat1 : XAt cs (kp + c0.length) (cst ++ ((Code.COMMENT "#load tag" ::
      loadImmediate (posTemp (2 * N + 1)) (jumpLength pos)) ++ c3X)) := hatA.right
  -- the fields read by the abstract `store`
  have hlenρ : (ρ.drop N).length = (Γ.drop N).length := by
    have := R.len; simp only at this; simp [this]
  obtain ⟨fields, hf, hrep, hch⟩ := readFields_ok2 (Γ.drop N) (ρ.drop N) N (R.vals.slice N) hlenρ
  have hlenTake : (Γ.take N).length = N := hn
  -- the store on both machines
  have mid : ∃ σ1 hs' ι' κ', MSteps Pm c σ (pcOf hkf cs (kp + c0.length)) out σ1
        (pcOf hkf cs (kp + c0.length + cst.length)) out ∧
      X3R c (Γ.take N) cA (roots (Γ.take N) cA.temps ++ Sim2.rootOf cA.temps ⟨x, .prd, ty⟩ N) hs' ι' κ' σ1 out ∧
      (∀ r, cA.temps.get (2 * N) = some r → σ1.tempVal (posTemp (2 * N)) = some (imgWord ι' r)) ∧
      cA.pc = cfg.pc + 1 ∧ FrLe hs hs' (64 * args.length) ∧
      (∀ t, t < 2 * N → cA.temps.get t = cfg.temps.get t) ∧
      (∀ t, t < 2 * N → σ1.tempVal (posTemp t) = σ.tempVal (posTemp t)) ∧
      ((Γ.drop N = [] ∧ cA.heap = cfg.heap ∧ κ' = κ ∧ cA.temps.get (2 * N) = some 0) ∨
       (Γ.drop N ≠ [] ∧ cA.heap = (cfg.next, ⟨0, fields⟩) :: cfg.heap ∧ κ' = storeK σ κ cfg.next N ∧
        cA.temps.get (2 * N) = some (BitVec.ofNat 64 cfg.next))) ∧ FrPk hs hs' := by
    cases hΔ : Γ.drop N with
    | nil =>
      have hNΓ : N = Γ.length := by
        have := congrArg List.length hΔ
        simp at this; omega
      rw [hΔ] at hstore hstX
      have hT : Γ.take N = Γ := by rw [hNΓ]; exact List.take_length
      rw [hT] at hstX ⊢
      have hA := step_store_empty P cfg N hstore
      rw [hsA] at hA
      injection hA with hA
      have hlow : ∀ t, t < 2 * Γ.length → cA.temps.get t = cfg.temps.get t := by
        intro t ht
        rw [hA]
        simp only
        rw [get_set_other _ _ (by omega), get_clobberTemp _ (by unfold Mock.T_TEMP; have := X.cap; omega)]
      obtain ⟨code, kk', hrunS, _, _, σ1, hx, X1, hv1, hkeepE⟩ :=
        store_x3_empty H h8 X hlow (by rw [hA]) (by rw [hA]) (by rw [hA]) k
      have hcode : code = cst ∧ kk' = kst := by
        have : (store [] Γ).run k = .ok (cst, kst) := hstX
        rw [hrunS] at this
        injection this with this
        injection this with e1 e2
        exact ⟨e1, e2⟩
      obtain ⟨rfl, rfl⟩ := hcode
      have hn1 := x_msteps_fwd Hp hnd hat1.left hx out
      have h2n : cA.temps.get (2 * N) = some 0 := by
        rw [hA]; simp only; exact get_set_same _ _ _
      refine ⟨σ1, hs, ι, κ, hn1, ?_, ?_, by rw [hA], by
        have : args.length = 0 := by omega
        rw [this]; exact Scc.Heap.Refine.FrLe.refl hs, fun t ht => hlow t (by omega),
        fun t ht => hkeepE t (by omega),
        Or.inl ⟨rfl, by rw [hA], rfl, h2n⟩, FrPk.refl hs⟩
      · have hr : Sim2.rootOf cA.temps ⟨x, .prd, ty⟩ N = [] := by
          unfold Sim2.rootOf; rw [h2n]; simp
        rw [hr, List.append_nil, roots_congr _ _ _ (fun i hi => hlow (2 * i) (by omega))]
        exact X1
      · intro r hr
        rw [h2n] at hr
        injection hr with hr
        subst hr
        rw [hNΓ, hv1]
        simp [imgWord]
    | cons b Δ =>
      rw [hΔ] at hstore
      have hfc : readFields cfg.temps (b.chi :: Mock.kindsOf Δ) N = some fields := by
        rw [hΔ] at hf; exact hf
      have hA := step_store_cons P cfg b.chi (Mock.kindsOf Δ) N fields hstore hfc
      rw [hsA] at hA
      injection hA with hA
      have hNlt : N < Γ.length := by
        have := congrArg List.length hΔ
        simp at this; omega
      have hlow : ∀ t, t < 2 * N → cA.temps.get t = cfg.temps.get t := by
        intro t ht
        rw [hA]
        simp only
        rw [get_set_other _ _ (by omega), get_clearPositions, if_neg (by omega),
          get_clobberTemp _ (by unfold Mock.T_TEMP; have := X.cap; omega)]
      obtain ⟨code, kk', hrunS, _, _, σ1, hs', p, hx, X1, hv1, hp0, hplt, hfrS, hkeepS, hpkS⟩ :=
        store_x3P H h8 X hNlt hf (hch 0) hnext hlow (by rw [hA]) (by rw [hA]) (by rw [hA])
          (by rw [show Γ.length - N = args.length by omega]; exact hroom) k
      have hcode : code = cst ∧ kk' = kst := by
        have : (store (Γ.drop N) (Γ.take N)).run k = .ok (cst, kst) := hstX
        rw [hrunS] at this
        injection this with this
        injection this with e1 e2
        exact ⟨e1, e2⟩
      obtain ⟨rfl, rfl⟩ := hcode
      have hn1 := x_msteps_fwd Hp hnd hat1.left hx out
      have h2n : cA.temps.get (2 * N) = some (BitVec.ofNat 64 cfg.next) := by
        rw [hA]; simp only; exact get_set_same _ _ _
      have hr0 : BitVec.ofNat 64 cfg.next ≠ 0 := ofNat_ne_zero X.href.abs.pos hnext
      have hrt : (BitVec.ofNat 64 cfg.next).toNat = cfg.next := ofNat_toNat_lt hnext
      refine ⟨σ1, hs', (fun i => if i = cfg.next then p else ι i), storeK σ κ cfg.next N, hn1, ?_, ?_, by rw [hA], by
        rw [show Γ.length - N = args.length by omega] at hfrS; exact hfrS, hlow,
        fun t ht => hkeepS t ht,
        Or.inr ⟨by simp, by rw [hA], rfl, h2n⟩, hpkS⟩
      · have hr : Sim2.rootOf cA.temps ⟨x, .prd, ty⟩ N = [cfg.next] := by
          unfold Sim2.rootOf
          rw [h2n]
          have h1 : (Chi.prd != Chi.ext) = true := by decide
          have h2 : (BitVec.ofNat 64 cfg.next != 0) = true := by rw [bne_iff_ne]; exact hr0
          simp only [h1, h2, if_true, hrt]
        rw [hr, roots_congr _ _ _ (fun i hi => hlow (2 * i) (by rw [hlenTake] at hi; omega))]
        exact X1
      · intro r hr
        rw [h2n] at hr
        injection hr with hr
        subst hr
        rw [hv1]
        unfold imgWord
        rw [if_neg hr0, hrt]
        simp
  obtain ⟨σ1, hs', ι', κ', hn1, X1, hptr1, hpcA, hfrM, hlowM, hmachM, hobjM, hpkM⟩ := mid
  -- the tag
  have hB := step_li P cA (2 * N + 1) pos (by rw [hpcA]; exact hli) (by unfold Mock.T_TEMP; omega)
  rw [hsB] at hB
  injection hB with hB
  have hat2 : XAt cs (kp + c0.length + cst.length) ((Code.COMMENT "#load tag" ::
      loadImmediate (posTemp (2 * N + 1)) (jumpLength pos)) ++ c3X) := hat1.right
  obtain ⟨σ2, hx2, C2, hv2, F2⟩ := li_pos H X1.core hltX (jumpLength pos)
  have hx2' : execCodes c (Code.COMMENT "#load tag" ::
      loadImmediate (posTemp (2 * N + 1)) (jumpLength pos)) σ1 = .ok σ2 := by
    rw [execCodes_cons c _ _ _ _ (execCode_COMMENT c _ σ1)]
    exact hx2
  have hk2 := x_msteps_codes Hp hat2.left hx2' out
  have X2 : X3R c (Γ.take N ++ [⟨x, .prd, ty⟩]) cB
      (roots (Γ.take N) cA.temps ++ Sim2.rootOf cA.temps ⟨x, .prd, ty⟩ N) hs' ι' κ' σ2 out := by
    refine X3R.snoc X1 (by rw [hlenTake]; exact hltX) C2 (by rw [hlenTake]; exact F2) (a := BitVec.ofInt 64 pos)
      (by rw [hlenTake, hv2]; exact congrArg some (trW_prd_tag pos)) (by rw [hB, hlenTake])
      (by rw [hB]) (by rw [hB]) (by rw [hB]) ?_
    intro _ r hr
    rw [hlenTake] at hr ⊢
    exact hptr1 r hr
  have hrootsB : roots (Γ.take N ++ [⟨x, .prd, ty⟩]) cB.temps =
      roots (Γ.take N) cA.temps ++ Sim2.rootOf cA.temps ⟨x, .prd, ty⟩ N := by
    have hgetB : ∀ t, t ≠ 2 * N + 1 → t < 281 → cB.temps.get t = cA.temps.get t := by
      intro t hne ht
      rw [hB]
      simp only
      rw [get_set_other _ _ hne, get_clobberTemp _ (by unfold Mock.T_TEMP; omega)]
    rw [roots_snoc, hlenTake]
    congr 1
    · exact roots_congr _ _ _ (fun i hi => hgetB (2 * i) (by omega) (by rw [hlenTake] at hi; omega))
    · unfold Sim2.rootOf
      rw [hgetB (2 * N) (by omega) (by omega)]
  refine ⟨cB, σ2, hs', ι', κ', _, ⟨cA, hsA, cB, hsB, rfl⟩, hk0.trans (hn1.trans hk2), hfrM,
    hout', hnx', R', ?_, kst, k6X, c3X, h3X, hat2.right, ?_, hpkM⟩
  · show X3R c _ cB (roots _ cB.temps) hs' ι' κ' _ _
    rw [hrootsB]
    exact X2
  · -- what happened to the positions and the heap
    refine ⟨⟨fun t ht => ?_, fun i hi => ?_⟩, fields, hf, ?_⟩
    · rw [hB]; simp only
      rw [get_set_other _ _ (by omega), get_clobberTemp _ (by unfold Mock.T_TEMP; omega)]
      exact hlowM t ht
    · rw [mach_keep_frame F2 (by omega) (by omega), hmachM _ (by omega)]
    · have hg2N : cB.temps.get (2 * N) = cA.temps.get (2 * N) := by
        rw [hB]; simp only
        rw [get_set_other _ _ (by omega), get_clobberTemp _ (by unfold Mock.T_TEMP; omega)]
      rcases hobjM with ⟨h1, h2, h3, h4⟩ | ⟨h1, h2, h3, h4⟩
      · exact Or.inl ⟨h1, by rw [hB]; exact h2, h3, by rw [hg2N]; exact h4⟩
      · exact Or.inr ⟨h1, by rw [hB]; exact h2, h3, by rw [hg2N]; exact h4⟩

end Let3P

end Scc.A64.Ref.K
