/-
  Scc.A64.ConcKInv — the heap invariant of C09 ON THE CONCRETE AArch64 MACHINE STATE, derived from the
  closure-aware three-way relation `Scc.A64.Ref.K.X3` (Scc/A64/RefClosHDefs.lean) at a statement boundary.  The
  AArch64 analogue of Scc/X86/ConcInv.lean + ConcKInv.lean.

  `HeapInvAt c σ kinds limit` is the predicate of the executable heap monitor (`heapMonitor` of
  Scc/A64/Machine.lean) with the decision procedure `Scc.Heap.invCheckFn` replaced by what it decides, the
  invariant `Scc.Heap.InvW` (Scc/Heap/Inv.lean), on the raw machine components:
    * memory    = the machine's heap words (unwritten words read 0), as naturals;
    * heap/free = the contents of the registers HEAP (X0) and FREE (X1);
    * roots     = the contents of the FIRST temporaries (utils.rs temporary_from_position: logical registers
                  4..29, then spill slots) of the non-`ext` variables of the context, read exactly as the
                  monitor reads them (`rootOf`; in particular they are DEFINED) — `heapMonitor_roots`;
    * region    = `[heapBase, limit)`.
  `heapInvAt_of_x3`: a machine state in the right half `X3` of the three-way relation (with the left half
  `RelX`, which makes the pointer temporaries of non-`ext` variables defined) satisfies `HeapInvAt` with
  `limit = heapBase + heapBytes`.  A closure is a heap object like a constructor object: its pointer part is a
  root, its word part (a code address) is not looked at by the heap invariant.
  The predicate does not mention the program counter: the machine ahead of the boundary by `#ctx` hooks (`Tol`)
  is in the SAME state `σ`.
  `ctxKinds`, `zipIdx_filter_kinds`, `count_roots`, `mapM_ok` are those of Scc/X86/ConcInv.lean (they do not
  mention a machine).
-/
import Scc.A64.RefClosHRun
import Scc.X86.ConcCheck

set_option linter.unusedVariables false
set_option linter.unusedSimpArgs false

namespace Scc.A64.ConcK

open Scc Scc.AxCut Scc.Backend Scc.Backend.Abs Scc.Backend.Sim Scc.A64 Scc.A64.Ref Scc.A64.CC
open Scc.Backend.Sim2
open Scc.Heap (HState InvS InvW)
open Scc.Heap.Refine (HRef imgW)
open Scc.X86.Conc (ctxKinds mapM_ok zipIdx_filter_kinds count_roots invW_window)

/-- the machine's heap memory as the invariant sees it (`heapMonitor`: `fun a => (σ.heap.getD a 0).toNat`) -/
def memFn (σ : State) : Nat → Nat := fun a => (σ.heap.getD a 0).toNat

/-- the context positions whose first temporary the monitor reads: the variables that are not `ext` -/
def rootIdx (kinds : List Bool) : List Nat := (kinds.zipIdx.filter (·.1)).map (·.2)

/-- THE MONITOR'S PREDICATE on a machine state (with `invCheckFn` replaced by `InvW`): the roots, HEAP and FREE
are readable (defined), and the invariant holds for the raw machine memory in `[heapBase, limit)` -/
def HeapInvAt (c : MemCfg) (σ : State) (kinds : List Bool) (limit : Nat) : Prop :=
  ∃ (roots : List Nat) (h f : Word) (lin lazy live : List Nat) (F : Nat),
    (rootIdx kinds).mapM (rootOf c σ) = .ok roots ∧
    σ.regs[archNumber consts.heap]? = some (some h) ∧ σ.regs[archNumber consts.free]? = some (some f) ∧
    InvW (memFn σ) c.heapBase limit h.toNat f.toNat roots [] lin lazy live F

/-! ## the roots as the monitor reads them -/

/-- the kinds a `#ctx […]` hook lists: `true` = not `ext` -/
def hookKinds (vars : List (String × Kind)) : List Bool := vars.map (fun v => !(v.2 == Kind.ext))

theorem heapMonitor_roots_go (c : MemCfg) (σ : State) : ∀ (vars : List (String × Kind)) (i : Nat) (acc : List Nat),
    heapMonitor.roots c σ vars i acc =
      (((((hookKinds vars).zipIdx i).filter (·.1)).map (·.2)).mapM (rootOf c σ)).map (fun rs => acc.reverse ++ rs)
  | [], i, acc => by simp [heapMonitor.roots, hookKinds, Except.map]
  | (nm, k) :: vs, i, acc => by
    rw [heapMonitor.roots]
    by_cases hk : (k == Kind.ext) = true
    · rw [if_pos hk, heapMonitor_roots_go c σ vs (i + 1) acc]
      simp [hookKinds, List.zipIdx_cons, hk]
    · rw [if_neg hk]
      have hk' : (k == Kind.ext) = false := by simpa using hk
      simp only [hookKinds, List.map_cons, hk', Bool.not_false, List.zipIdx_cons, List.filter_cons, if_true,
        List.mapM_cons]
      cases hr : rootOf c σ i with
      | error e => rfl
      | ok r =>
        simp only
        rw [heapMonitor_roots_go c σ vs (i + 1) (r :: acc)]
        show Except.map _ _ = Except.map _ (do let ys ← _; pure (r :: ys))
        simp only [hookKinds]
        cases List.mapM (rootOf c σ) (List.map (fun x => x.2)
            (List.filter (fun x => x.1) ((List.map (fun v => !(v.2 == Kind.ext)) vs).zipIdx (i + 1)))) with
        | error e => rfl
        | ok ys => simp [Except.map, bind, Except.bind, pure, Except.pure]

/-- THE ROOTS OF `HeapInvAt` ARE THE ROOTS THE MONITOR READS at a hook that lists the variables `vars` -/
theorem heapMonitor_roots (c : MemCfg) (σ : State) (vars : List (String × Kind)) :
    heapMonitor.roots c σ vars 0 [] = (rootIdx (hookKinds vars)).mapM (rootOf c σ) := by
  rw [heapMonitor_roots_go]
  unfold rootIdx
  cases List.mapM (rootOf c σ) (List.map (fun x => x.2) (List.filter (fun x => x.1) ((hookKinds vars).zipIdx 0))) with
  | error e => rfl
  | ok ys => simp [Except.map]

/-! ## reading a temporary the way the monitor does -/

/-- `rootOf` of position `i` is the content of `posTemp (2 i)` at a statement boundary -/
theorem rootOf_posTemp {c : MemCfg} (H : CfgCC c) {σ : State} (C : Core c σ) {i : Nat} (hi : 2 * i < 281)
    {w : Word} (h : σ.tempVal (posTemp (2 * i)) = some w) : rootOf c σ i = .ok w.toNat := by
  have hsp := spOkS_of_core H C
  unfold rootOf
  unfold posTemp at h
  have hR : RESERVED = 4 := rfl
  have hN : REGISTER_NUM = 30 := rfl
  have hS : RESERVED_SPILLS = 1 := rfl
  simp only [hR, hN, hS]
  by_cases hr : 2 * i + 4 < 30
  · rw [if_pos hr] at h
    rw [if_pos hr]
    obtain ⟨n, hn, _⟩ := xreg_var (r := 2 * i + 4) (by rw [RESERVED_eq]; omega) (by rw [REGISTER_NUM_eq]; exact hr)
    rw [tempVal_reg hn] at h
    have hv := xreg_val hn
    have hlt : archNumber (2 * i + 4) < 31 := by rw [← hv]; exact n.isLt
    rw [dif_pos hlt]
    have e : σ.regs[archNumber (2 * i + 4)]'hlt = σ.reg n := by
      unfold State.reg
      congr 1
      exact hv.symm
    rw [e, h]
  · rw [if_neg hr] at h
    rw [if_neg hr]
    have hp : 2 * i - 25 < SPILL_NUM := by rw [SPILL_NUM_eq]; omega
    have e : 2 * i + 4 - 30 + 1 = 2 * i - 25 := by omega
    rw [e]
    rw [tempVal_spill] at h
    have hl := load_slot hsp hp
    unfold State.slotAddr at hl h
    rw [hl, h]

/-! ## the invariant on the machine state -/

/-- the components of the monitor's predicate at a statement boundary, for a given witness of the block-level
invariant -/
theorem heapInv_parts {c : MemCfg} (H : CfgCC c)
    {P : Program} {hooks : Bool} {prog : AxCut.Prog} {Γ : Ctx} {ρ : List Pos.Value} {s : Stmt} {cfg : Config}
    {hs : HState} {ι : Nat → Nat} {κ : Nat → Nat → Word} {σ : State} {out : List (Bool × Word)}
    (R : RelX P hooks prog ⟨Γ, ρ, s⟩ cfg) (X : K.X3 c Γ cfg hs ι κ σ out)
    {lin lazy live : List Nat} {Fr : Nat} (I : InvS hs ((roots Γ cfg.temps).map ι) [] lin lazy live Fr) :
    ∃ (rootsM : List Nat) (w f : Word), (rootIdx (ctxKinds Γ)).mapM (rootOf c σ) = .ok rootsM ∧
      σ.regs[archNumber consts.heap]? = some (some w) ∧ σ.regs[archNumber consts.free]? = some (some f) ∧
      InvW (memFn σ) c.heapBase (c.heapBase + c.heapBytes) w.toNat f.toNat rootsM [] lin lazy live Fr := by
  obtain ⟨w, hw, ew⟩ := X.hrel.heap
  obtain ⟨f, hf, ef⟩ := X.hrel.free
  -- the pointer parts on the abstract machine
  let val : Nat → Word := fun i => K.imgWord ι ((cfg.temps.get (2 * i)).getD 0)
  have hlen : ρ.length = Γ.length := R.len
  have hdef : ∀ i (hi : i < Γ.length), Γ[i].chi ≠ .ext → ∃ r, cfg.temps.get (2 * i) = some r ∧
      σ.tempVal (posTemp (2 * i)) = some (val i) ∧ (val i).toNat = imgW ι r := by
    intro i hi hc
    have hv := (R.vals i hi (by rw [hlen]; exact hi)).2.2.2 ((chi_bne_ext _).mpr hc)
    cases hg : cfg.temps.get (2 * i) with
    | none => rw [hg] at hv; cases hv
    | some r =>
      refine ⟨r, rfl, ?_, ?_⟩
      · have := X.ptrs i hi hc r hg
        simpa [val, hg] using this
      · simp only [val, hg, Option.getD_some]
        exact K.imgWord_toNat (fun h0 => (K.X3R.ref_lt H X hi hc hg h0).1)
  -- what the monitor reads
  have hread : (rootIdx (ctxKinds Γ)).mapM (rootOf c σ) =
      .ok (((ctxKinds Γ).zipIdx.filter (·.1)).map (fun (ki : Bool × Nat) => (val ki.2).toNat)) := by
    unfold rootIdx
    have := mapM_ok (fun (ki : Bool × Nat) => rootOf c σ ki.2)
      (fun (ki : Bool × Nat) => (val ki.2).toNat) ((ctxKinds Γ).zipIdx.filter (·.1)) (by
        intro ki hki
        rw [List.mem_filter] at hki
        obtain ⟨hmem, hk1⟩ := hki
        obtain ⟨hidx, hlt, hget⟩ := List.mem_zipIdx hmem
        simp only [Nat.zero_add, Nat.sub_zero] at hlt hget
        have hlt' : ki.2 < Γ.length := by simpa [ctxKinds] using hlt
        have hc : Γ[ki.2].chi ≠ .ext := by
          have : (ctxKinds Γ)[ki.2] = true := by rw [← hget]; exact hk1
          apply (chi_bne_ext _).mp
          simpa [ctxKinds] using this
        obtain ⟨r, _, hv, _⟩ := hdef ki.2 hlt' hc
        exact rootOf_posTemp H X.core (by have := X.cap; omega) hv)
    rw [List.mapM_map]
    simpa only [Function.comp_def] using this
  have hregh : σ.regs[archNumber consts.heap]? = some (some w) := by
    rw [HEAP_eq, K.tempVal_x0] at hw
    have e : archNumber consts.heap = 0 := by decide
    rw [e, Vector.getElem?_eq_getElem (by decide)]
    exact congrArg some hw
  have hregf : σ.regs[archNumber consts.free]? = some (some f) := by
    rw [FREE_eq, K.tempVal_x1] at hf
    have e : archNumber consts.free = 1 := by decide
    rw [e, Vector.getElem?_eq_getElem (by decide)]
    exact congrArg some hf
  refine ⟨_, w, f, hread, hregh, hregf, ?_⟩
  have hmem : memFn σ = hs.mem.get := by
    funext a; exact (X.hrel.mem a).symm
  rw [hmem, ew, ef, ← X.hrel.limit, ← X.hrel.base]
  refine InvW.roots_congr I (fun b hb => ?_)
  have e1 := zipIdx_filter_kinds Γ 0 (fun i => (val i).toNat)
  rw [e1]
  have := count_roots cfg.temps ι (fun i => (val i).toNat) b hb Γ 0 (by
    intro j hj hc
    obtain ⟨r, hr, _, hv⟩ := hdef j hj hc
    exact ⟨r, by rw [Nat.zero_add]; exact hr, by rw [Nat.zero_add]; exact hv⟩)
  rw [this]
  rfl

/-- THE HEAP INVARIANT ON THE CONCRETE MACHINE STATE at a statement boundary (closure-aware relation) -/
theorem heapInvAt_of_x3 {c : MemCfg} (H : CfgCC c)
    {P : Program} {hooks : Bool} {prog : AxCut.Prog} {Γ : Ctx} {ρ : List Pos.Value} {s : Stmt} {cfg : Config}
    {hs : HState} {ι : Nat → Nat} {κ : Nat → Nat → Word} {σ : State} {out : List (Bool × Word)}
    (R : RelX P hooks prog ⟨Γ, ρ, s⟩ cfg) (X : K.X3 c Γ cfg hs ι κ σ out) :
    HeapInvAt c σ (ctxKinds Γ) (c.heapBase + c.heapBytes) ∧ hs.limit = c.heapBase + c.heapBytes := by
  obtain ⟨lin, lazy, live, Fr, I⟩ := X.href.conc
  obtain ⟨rootsM, w, f, h1, h2, h3, h4⟩ := heapInv_parts H R X I
  exact ⟨⟨rootsM, w, f, lin, lazy, live, Fr, h1, h2, h3, h4⟩, X.hrel.limit⟩

/-! ## the executable check -/

/-- THE MONITOR'S CHECK SUCCEEDS where its predicate holds (for the roots of the variables the hook lists) and the
frontier lies inside the monitor's window (the monitor inspects the heap up to 8 blocks above the highest word
ever written, rounded up to a block); it reports the number of blocks below the frontier.  From the COMPLETENESS of
`invCheckFn` (Scc/Heap/ProofsCheckComplete.lean). -/
theorem heapMonitor_ok {c : MemCfg} {σ : State} {vars : List (String × Kind)} {roots : List Nat} {h f : Word}
    {lin lazy live : List Nat} {F : Nat}
    (hr : (rootIdx (hookKinds vars)).mapM (rootOf c σ) = .ok roots)
    (hh : σ.regs[archNumber consts.heap]? = some (some h)) (hf : σ.regs[archNumber consts.free]? = some (some f))
    (I : InvW (memFn σ) c.heapBase (c.heapBase + c.heapBytes) h.toNat f.toNat roots [] lin lazy live F)
    (hw : F + 64 ≤ c.heapBase + ((σ.maxHeap + 63) / 64 * 64 + 8 * 64)) :
    heapMonitor c σ vars = .ok ((F - c.heapBase) / Scc.Heap.blockSize) := by
  have hFr := I.frontier_room
  have I' := invW_window (limit' := c.heapBase + min c.heapBytes ((σ.maxHeap + 63) / 64 * 64 + 8 * 64))
    I (by have := Nat.min_le_left c.heapBytes ((σ.maxHeap + 63) / 64 * 64 + 8 * 64); omega)
    (by rw [Nat.min_def]; split <;> omega)
  obtain ⟨live', hc, _⟩ := Scc.Heap.invCheckFn_complete I'
  unfold heapMonitor
  rw [heapMonitor_roots, hr]
  simp only [hh, hf]
  have hc' : Scc.Heap.invCheckFn (fun a => (σ.heap.getD a 0).toNat) c.heapBase
      (c.heapBase + min c.heapBytes ((σ.maxHeap + 63) / 64 * 64 + 8 * 64)) h.toNat f.toNat roots [] =
      .ok (lin, lazy, live', F) := hc
  rw [hc']

end Scc.A64.ConcK
