/-
  Scc.A64.ConcKMach — two generic facts about the AArch64 SPEC machine (Scc/A64/Machine.lean), for ANY program
  (the AArch64 analogue of Scc/X86/ConcMach.lean):
  * `maxHeap ≤ heapBytes` (`MhwOK`) is an invariant of the run loop (a store outside the heap region faults): the
    highest heap address ever written lies inside the heap region; `runLoop_mhw`;
  * MONOTONICITY IN THE HEAP SIZE: an iteration of the run loop that does not end the run in a configuration with
    a SMALLER heap region (same base, same stack, same code base; heap below the stack: `Sub c' c`) is the same
    iteration in the larger configuration; hence a run that ends with `done v` or is out of fuel in the smaller heap
    is, state by state, the run in the larger heap, with the same `maxHeapWritten` (`runLoop_larger_heap`).
-/
import Scc.A64.ConcKDefs

set_option linter.unusedVariables false
set_option linter.unusedSimpArgs false

namespace Scc.A64.ConcK

open Scc.A64 Scc.A64.CC Scc.A64.Ref

/-- `c'` is `c` with a smaller heap region -/
structure Sub (c' c : MemCfg) : Prop where
  code : c'.codeBase = c.codeBase
  base : c'.heapBase = c.heapBase
  bytes : c'.heapBytes ≤ c.heapBytes
  low : c'.stackLow = c.stackLow
  top : c'.stackTop = c.stackTop
  below : c.heapBase + c.heapBytes ≤ c.stackLow

/-! ## the bound on `maxHeap` -/

/-- the highest heap address written lies inside the heap region -/
def MhwOK (c : MemCfg) (σ : State) : Prop := σ.maxHeap ≤ c.heapBytes

section Mhw
variable {c : MemCfg} {σ σ' : State}

theorem wrZ_mhw {r : Reg} {w : Word} (h : σ.wrZ r w = .ok σ') : σ'.maxHeap = σ.maxHeap := by
  cases r with
  | x n => cases h; rfl
  | xzr => cases h; rfl
  | sp => cases h

theorem putZ_mhw {r : Reg} {w : Option Word} (h : σ.putZ r w = .ok σ') : σ'.maxHeap = σ.maxHeap := by
  cases r with
  | x n => cases h; rfl
  | xzr => cases h; rfl
  | sp => cases h

theorem wrS_mhw {r : Reg} {w : Word} (h : σ.wrS r w = .ok σ') : σ'.maxHeap = σ.maxHeap := by
  cases r with
  | x n => cases h; rfl
  | sp => cases h; rfl
  | xzr => cases h

theorem store_mhw {a : Nat} {w : Option Word} (h : σ.store c a w = .ok σ') (hs : MhwOK c σ) : MhwOK c σ' := by
  unfold State.store at h
  split at h
  · cases h
  · split at h
    · rename_i hin
      split at h
      · cases h
        unfold MhwOK at *
        unfold inHeap at hin
        simp only [Bool.and_eq_true, decide_eq_true_eq] at hin
        show max σ.maxHeap _ ≤ _
        omega
      · cases h
    · split at h
      · split at h
        · cases h; exact hs
        · cases h; exact hs
      · cases h

theorem MhwOK.of_eq (hs : MhwOK c σ) (e : σ'.maxHeap = σ.maxHeap) : MhwOK c σ' := by
  unfold MhwOK at *; omega

/-- a data instruction keeps the bound -/
theorem exec_mhw {i : Instr} (h : i.exec c σ = .ok σ') (hs : MhwOK c σ) : MhwOK c σ' := by
  by_cases hd : isData i = true
  case neg => rw [exec_nonData (by simpa using hd)] at h; exact absurd h (by intro e; injection e)
  cases i <;> (try (cases hd; done)) <;> simp only [Instr.exec] at h
  case add d n m =>
    obtain ⟨a, _, h⟩ := bind_ok_inv h
    obtain ⟨b, _, h⟩ := bind_ok_inv h
    exact hs.of_eq (wrZ_mhw h)
  case sub d n m =>
    obtain ⟨a, _, h⟩ := bind_ok_inv h
    obtain ⟨b, _, h⟩ := bind_ok_inv h
    exact hs.of_eq (wrZ_mhw h)
  case mul d n m =>
    obtain ⟨a, _, h⟩ := bind_ok_inv h
    obtain ⟨b, _, h⟩ := bind_ok_inv h
    exact hs.of_eq (wrZ_mhw h)
  case sdiv d n m =>
    obtain ⟨a, _, h⟩ := bind_ok_inv h
    obtain ⟨b, _, h⟩ := bind_ok_inv h
    obtain ⟨q, _, h⟩ := bind_ok_inv h
    exact hs.of_eq (wrZ_mhw h)
  case msub d n m a =>
    obtain ⟨vn, _, h⟩ := bind_ok_inv h
    obtain ⟨vm, _, h⟩ := bind_ok_inv h
    obtain ⟨va, _, h⟩ := bind_ok_inv h
    exact hs.of_eq (wrZ_mhw h)
  case addi d n i =>
    split at h
    · obtain ⟨a, _, h⟩ := bind_ok_inv h
      exact hs.of_eq (wrS_mhw h)
    · cases h
  case subi d n i =>
    split at h
    · obtain ⟨a, _, h⟩ := bind_ok_inv h
      exact hs.of_eq (wrS_mhw h)
    · cases h
  case mov d s =>
    split at h
    · obtain ⟨a, _, h⟩ := bind_ok_inv h
      exact hs.of_eq (wrS_mhw h)
    · obtain ⟨a, _, h⟩ := bind_ok_inv h
      exact hs.of_eq (wrS_mhw h)
    · obtain ⟨a, _, h⟩ := bind_ok_inv h
      exact hs.of_eq (putZ_mhw h)
  case movz d i sh =>
    split at h
    · exact hs.of_eq (wrZ_mhw h)
    · cases h
  case movn d i sh =>
    split at h
    · exact hs.of_eq (wrZ_mhw h)
    · cases h
  case movk d i sh =>
    split at h
    · obtain ⟨a, _, h⟩ := bind_ok_inv h
      exact hs.of_eq (wrZ_mhw h)
    · cases h
  case ldr t n i =>
    split at h
    · obtain ⟨b, _, h⟩ := bind_ok_inv h
      obtain ⟨w, _, h⟩ := bind_ok_inv h
      exact hs.of_eq (putZ_mhw h)
    · cases h
  case str t n i =>
    split at h
    · obtain ⟨b, _, h⟩ := bind_ok_inv h
      obtain ⟨w, _, h⟩ := bind_ok_inv h
      exact store_mhw h hs
    · cases h
  case stpPre t1 t2 n i =>
    split at h
    · cases h
    · split at h
      · cases h
      · obtain ⟨b, _, h⟩ := bind_ok_inv h
        obtain ⟨w1, _, h⟩ := bind_ok_inv h
        obtain ⟨w2, _, h⟩ := bind_ok_inv h
        obtain ⟨σ1, h1, h⟩ := bind_ok_inv h
        obtain ⟨σ2, h2, h⟩ := bind_ok_inv h
        exact (store_mhw h2 (store_mhw h1 hs)).of_eq (wrS_mhw h)
  case ldpPost t1 t2 n i =>
    split at h
    · cases h
    · split at h
      · cases h
      · obtain ⟨b, _, h⟩ := bind_ok_inv h
        obtain ⟨w1, _, h⟩ := bind_ok_inv h
        obtain ⟨w2, _, h⟩ := bind_ok_inv h
        obtain ⟨σ1, h1, h⟩ := bind_ok_inv h
        obtain ⟨σ2, h2, h⟩ := bind_ok_inv h
        exact ((hs.of_eq (putZ_mhw h1)).of_eq (putZ_mhw h2)).of_eq (wrS_mhw h)
  case cmp n m =>
    obtain ⟨a, _, h⟩ := bind_ok_inv h
    obtain ⟨b, _, h⟩ := bind_ok_inv h
    cases h
    exact hs
  case cmpi n i =>
    split at h
    · obtain ⟨a, _, h⟩ := bind_ok_inv h
      cases h
      exact hs
    · cases h

theorem gotoLabel_cases (P : Prog) (σ : State) (l : String) :
    (∃ e, P.gotoLabel σ l = .stop (.fault e 0)) ∨ (∃ j, P.gotoLabel σ l = .next σ j) := by
  unfold Prog.gotoLabel
  cases P.labels[l]? with
  | none => exact Or.inl ⟨_, rfl⟩
  | some j => exact Or.inr ⟨j, rfl⟩

theorem gotoLabel_next {P : Prog} {l : String} {pc' : Nat} (h : P.gotoLabel σ l = .next σ' pc') : σ' = σ := by
  unfold Prog.gotoLabel at h
  split at h
  · cases h
  · cases h; rfl

theorem gotoLabel_not_print {P : Prog} {l : String} {nl : Bool} {w : Word} {pc' : Nat}
    (h : P.gotoLabel σ l = .print nl w σ' pc') : False := by
  unfold Prog.gotoLabel at h
  split at h <;> cases h

theorem clobberCall_maxHeap (σ : State) : σ.clobberCall.maxHeap = σ.maxHeap := by simp [State.clobberCall]

theorem callExternal_mhw {w : Word} (h : σ.callExternal = .ok (w, σ')) : σ'.maxHeap = σ.maxHeap := by
  unfold State.callExternal at h
  split at h
  · cases h
  · split at h
    · cases h
    · injection h with h
      injection h with _ h2
      rw [← h2]; exact clobberCall_maxHeap σ

/-- one instruction with outcome `next` / `print` keeps the bound -/
theorem step_mhw {P : Prog} {i : Instr} {pc : Nat} (hs : MhwOK c σ) :
    (∀ pc', step P c i σ pc = .next σ' pc' → MhwOK c σ') ∧
    (∀ nl w pc', step P c i σ pc = .print nl w σ' pc' → MhwOK c σ') := by
  by_cases hd : isData i = true
  · rw [step_data (cfg := { mem := c }) hd]
    cases hx : i.exec c σ with
    | error e => exact ⟨fun _ h => (by cases h), fun _ _ _ h => (by cases h)⟩
    | ok σ1 =>
      refine ⟨fun _ h => ?_, fun _ _ _ h => (by cases h)⟩
      cases h
      exact exec_mhw hx hs
  · cases i <;> (try (exact absurd rfl hd))
    case b l =>
      refine ⟨fun _ h => ?_, fun _ _ _ h => (gotoLabel_not_print h).elim⟩
      rw [gotoLabel_next h]; exact hs
    case br r =>
      have key : ∀ o, step P c (.br r) σ pc = o → (∀ pc', o = .next σ' pc' → σ' = σ) ∧
          (∀ nl w pc', o ≠ .print nl w σ' pc') := by
        intro o ho
        cases r with
        | x n =>
          simp only [step] at ho
          cases hr : σ.rdX n with
          | error e => rw [hr] at ho; subst ho; exact ⟨fun _ h => (by cases h), fun _ _ _ h => (by cases h)⟩
          | ok a =>
            rw [hr] at ho
            simp only at ho
            split at ho
            · subst ho; exact ⟨fun _ h => (by cases h), fun _ _ _ h => (by cases h)⟩
            · split at ho
              · subst ho; exact ⟨fun _ h => (by cases h; rfl), fun _ _ _ h => (by cases h)⟩
              · subst ho; exact ⟨fun _ h => (by cases h), fun _ _ _ h => (by cases h)⟩
        | sp => subst ho; exact ⟨fun _ h => (by cases h), fun _ _ _ h => (by cases h)⟩
        | xzr => subst ho; exact ⟨fun _ h => (by cases h), fun _ _ _ h => (by cases h)⟩
      obtain ⟨k1, k2⟩ := key _ rfl
      exact ⟨fun pc' h => by rw [k1 pc' h]; exact hs, fun nl w pc' h => absurd h (k2 nl w pc')⟩
    case bl l =>
      by_cases hx : isExternal l = true
      · have e : step P c (.bl l) σ pc = match σ.callExternal with
            | .error e => .stop (.fault e 0)
            | .ok (w, σ') => .print (l == "println_i64") w σ' (pc + 1) := by
          simp only [step, hx, if_true]
          rfl
        rw [e]
        cases hc : σ.callExternal with
        | error e => exact ⟨fun _ h => (by cases h), fun _ _ _ h => (by cases h)⟩
        | ok r =>
          obtain ⟨w1, σ1⟩ := r
          refine ⟨fun _ h => (by cases h), fun _ _ _ h => ?_⟩
          cases h
          exact hs.of_eq (callExternal_mhw hc)
      · have e : step P c (.bl l) σ pc = match P.gotoLabel σ l with
            | .next σ' j => .next (σ'.wrX 30 (BitVec.ofNat 64 (c.codeBase + P.offs.getD pc 0 + 4))) j
            | o => o := by
          simp only [step, hx, Bool.false_eq_true, if_false]
          rfl
        rw [e]
        rcases gotoLabel_cases P σ l with ⟨e1, hg⟩ | ⟨j, hg⟩
        · rw [hg]; exact ⟨fun _ h => (by cases h), fun _ _ _ h => (by cases h)⟩
        · rw [hg]
          refine ⟨fun _ h => ?_, fun _ _ _ h => (by cases h)⟩
          cases h
          exact hs.of_eq rfl
    case adr d l =>
      have e : step P c (.adr d l) σ pc = match P.labelAddr c l with
          | .error e => .stop (.fault e 0)
          | .ok a => match σ.wrZ d a with
            | .error e => .stop (.fault e 0)
            | .ok σ' => .next σ' (pc + 1) := rfl
      rw [e]
      cases P.labelAddr c l with
      | error e1 => exact ⟨fun _ h => (by cases h), fun _ _ _ h => (by cases h)⟩
      | ok a =>
        simp only
        cases hw : σ.wrZ d a with
        | error e1 => exact ⟨fun _ h => (by cases h), fun _ _ _ h => (by cases h)⟩
        | ok σ1 =>
          refine ⟨fun _ h => ?_, fun _ _ _ h => (by cases h)⟩
          cases h
          exact hs.of_eq (wrZ_mhw hw)
    case bcond cd l =>
      have e : step P c (.bcond cd l) σ pc = match σ.flags with
          | none => .stop (.fault "read-undefined flags" 0)
          | some (a, b) => if cd.holds a b then P.gotoLabel σ l else .next σ (pc + 1) := rfl
      rw [e]
      cases σ.flags with
      | none => exact ⟨fun _ h => (by cases h), fun _ _ _ h => (by cases h)⟩
      | some ab =>
        obtain ⟨a, b⟩ := ab
        simp only
        split
        · refine ⟨fun _ h => ?_, fun _ _ _ h => (gotoLabel_not_print h).elim⟩
          rw [gotoLabel_next h]; exact hs
        · refine ⟨fun _ h => ?_, fun _ _ _ h => (by cases h)⟩
          cases h; exact hs
    case ret =>
      exact ⟨fun _ h => (by cases h), fun _ _ _ h => (by cases h)⟩

theorem mstep_mhw {P : Prog} {pc pc' : Nat} {out out' : List (Bool × Word)}
    (h : MStep P c σ pc out σ' pc' out') (hs : MhwOK c σ) : MhwOK c σ' := by
  cases h with
  | hook _ => exact hs
  | next _ hst => exact (step_mhw hs).1 _ hst
  | print _ hst => exact (step_mhw hs).2 _ _ _ hst

theorem mstepsN_mhw {P : Prog} {n : Nat} {pc pc' : Nat} {out out' : List (Bool × Word)}
    (h : K.MStepsN P c n σ pc out σ' pc' out') (hs : MhwOK c σ) : MhwOK c σ' := by
  induction h with
  | refl => exact hs
  | step h1 _ ih => exact ih (mstep_mhw h1 hs)

end Mhw

theorem mhwOK_entry (c : MemCfg) (args : List Word) : MhwOK c (entryState c args) := Nat.zero_le _

/-- ANY RUN (heap monitor off): the machine's record of the highest heap address written stays inside the heap -/
theorem runLoop_mhw {P : Prog} {cfg : MonCfg} (hh : cfg.heap = false) : ∀ (f : Nat) (m : Machine),
    MhwOK cfg.mem m.σ → (runLoop P cfg f m).maxHeapWritten ≤ cfg.mem.heapBytes
  | 0, m, hs => hs
  | f + 1, m, hs => by
    cases hit : P.items[m.pc]? with
    | none =>
      have hlt : ¬ m.pc < P.items.size := by
        intro hlt; simp [hlt] at hit
      rw [runLoop]
      simp only [hlt, dite_false]
      exact hs
    | some it =>
      rw [runLoop_item hit]
      cases it with
      | hook vs =>
        simp only [hh, Bool.false_eq_true, if_false]
        exact runLoop_mhw hh f _ hs
      | instr i =>
        simp only
        cases hst : step P cfg.mem i m.σ m.pc with
        | next σ1 pc1 => exact runLoop_mhw hh f _ ((step_mhw hs).1 _ hst)
        | print nl w σ1 pc1 => exact runLoop_mhw hh f _ ((step_mhw hs).2 _ _ _ hst)
        | stop r => exact hs

theorem runProg_mhw (P : Prog) (args : List Word) (f : Nat) (cfg : MonCfg) (hh : cfg.heap = false) :
    (runProg P args f cfg).maxHeapWritten ≤ cfg.mem.heapBytes := by
  unfold runProg
  split
  · exact Nat.zero_le _
  · split
    · exact Nat.zero_le _
    · exact runLoop_mhw hh f _ (mhwOK_entry cfg.mem args)

/-! ## monotonicity in the heap size -/

section Mono

variable {c' c : MemCfg} (S : Sub c' c) {σ σ' : State}
include S

theorem inHeap_mono {n : Nat} (h : inHeap c' n = true) : inHeap c n = true := by
  unfold inHeap at *
  simp only [Bool.and_eq_true, decide_eq_true_eq] at *
  have := S.base; have := S.bytes
  omega

theorem inStack_eq (n : Nat) : inStack c' n = inStack c n := by
  unfold inStack
  rw [S.low, S.top]

theorem not_inHeap_of_inStack {n : Nat} (h : inStack c n = true) : inHeap c n = false := by
  unfold inStack at h
  unfold inHeap
  simp only [Bool.and_eq_true, decide_eq_true_eq] at h
  rw [Bool.and_eq_false_iff]; right
  rw [decide_eq_false_iff_not]
  have := S.below
  omega

theorem load_mono {a : Nat} {v : Option Word} (h : σ.load c' a = .ok v) : σ.load c a = .ok v := by
  unfold State.load at *
  by_cases hal : a % 8 ≠ 0
  · rw [if_pos hal] at h; cases h
  · rw [if_neg hal] at h ⊢
    by_cases hh : inHeap c' a = true
    · rw [if_pos hh] at h
      rw [if_pos (inHeap_mono S hh)]
      exact h
    · rw [if_neg hh] at h
      by_cases hst : inStack c' a = true
      · rw [if_pos hst] at h
        rw [inStack_eq S] at hst
        have := not_inHeap_of_inStack S hst
        rw [this, hst]
        simpa using h
      · rw [if_neg hst] at h; cases h

theorem store_mono {a : Nat} {w : Option Word} (h : σ.store c' a w = .ok σ') : σ.store c a w = .ok σ' := by
  unfold State.store at *
  by_cases hal : a % 8 ≠ 0
  · rw [if_pos hal] at h; cases h
  · rw [if_neg hal] at h ⊢
    by_cases hh : inHeap c' a = true
    · rw [if_pos hh] at h
      rw [if_pos (inHeap_mono S hh), ← S.base]
      exact h
    · rw [if_neg hh] at h
      by_cases hst : inStack c' a = true
      · rw [if_pos hst] at h
        rw [inStack_eq S] at hst
        have := not_inHeap_of_inStack S hst
        rw [this, hst]
        simpa using h
      · rw [if_neg hst] at h; cases h

/-- a data instruction that does not fault in the smaller heap is the same in the larger heap -/
theorem exec_mono {i : Instr} (h : i.exec c' σ = .ok σ') : i.exec c σ = .ok σ' := by
  cases i <;> simp only [Instr.exec] at h ⊢ <;> (try (exact h))
  case ldr t n i =>
    by_cases hk : okOff i = true
    · rw [if_pos hk] at h ⊢
      obtain ⟨b, hb, h⟩ := bind_ok_inv h
      obtain ⟨w, hw, h⟩ := bind_ok_inv h
      rw [hb, Except_bind_ok, load_mono S hw, Except_bind_ok]
      exact h
    · rw [if_neg hk] at h; cases h
  case str t n i =>
    by_cases hk : okOff i = true
    · rw [if_pos hk] at h ⊢
      obtain ⟨b, hb, h⟩ := bind_ok_inv h
      obtain ⟨w, hw, h⟩ := bind_ok_inv h
      rw [hb, Except_bind_ok, hw, Except_bind_ok]
      exact store_mono S h
    · rw [if_neg hk] at h; cases h
  case stpPre t1 t2 n i =>
    by_cases hk : (!okPairOff i) = true
    · rw [if_pos hk] at h; cases h
    · rw [if_neg hk] at h ⊢
      by_cases hk2 : (n == t1 || n == t2) = true
      · rw [if_pos hk2] at h; cases h
      · rw [if_neg hk2] at h ⊢
        obtain ⟨b, hb, h⟩ := bind_ok_inv h
        obtain ⟨w1, hw1, h⟩ := bind_ok_inv h
        obtain ⟨w2, hw2, h⟩ := bind_ok_inv h
        obtain ⟨σ1, h1, h⟩ := bind_ok_inv h
        obtain ⟨σ2, h2, h⟩ := bind_ok_inv h
        rw [hb, Except_bind_ok, hw1, Except_bind_ok, hw2, Except_bind_ok, store_mono S h1, Except_bind_ok,
          store_mono S h2, Except_bind_ok]
        exact h
  case ldpPost t1 t2 n i =>
    by_cases hk : (!okPairOff i) = true
    · rw [if_pos hk] at h; cases h
    · rw [if_neg hk] at h ⊢
      by_cases hk2 : (n == t1 || n == t2 || (t1 == t2 && t1 != .xzr)) = true
      · rw [if_pos hk2] at h; cases h
      · rw [if_neg hk2] at h ⊢
        obtain ⟨b, hb, h⟩ := bind_ok_inv h
        obtain ⟨w1, hw1, h⟩ := bind_ok_inv h
        obtain ⟨w2, hw2, h⟩ := bind_ok_inv h
        rw [hb, Except_bind_ok, load_mono S hw1, Except_bind_ok, load_mono S hw2, Except_bind_ok]
        exact h

theorem exitCheck_eq : exitCheck c' σ = exitCheck c σ := by
  unfold exitCheck
  rw [S.top]

theorem labelAddr_eq (P : Prog) (l : String) : P.labelAddr c' l = P.labelAddr c l := by
  unfold Prog.labelAddr
  rw [S.code]

/-- an instruction that does not end the run in the smaller heap has the same outcome in the larger heap -/
theorem step_mono {P : Prog} {i : Instr} {pc : Nat} (h : ∀ r, step P c' i σ pc ≠ .stop r) :
    step P c i σ pc = step P c' i σ pc := by
  by_cases hd : isData i = true
  · rw [step_data (cfg := { mem := c' }) hd] at h
    rw [step_data (cfg := { mem := c' }) hd, step_data (cfg := { mem := c }) hd]
    cases hx : i.exec c' σ with
    | error e => rw [hx] at h; exact absurd rfl (h _)
    | ok σ1 =>
      show (match i.exec c σ with | .error e => StepOut.stop (.fault e 0) | .ok σ' => .next σ' (pc + 1)) = _
      rw [exec_mono S hx]
  · cases i <;> (try (exact absurd rfl hd))
    case b l => rfl
    case bcond cd l => rfl
    case ret => exact absurd rfl (h _)
    case br r => simp only [step, S.code]
    case bl l => simp only [step, S.code]
    case adr d l => simp only [step, labelAddr_eq S]

/-- … and the final `RET` gives the same result -/
theorem step_ret_eq {P : Prog} {pc : Nat} : step P c .ret σ pc = step P c' .ret σ pc := by
  simp only [step, exitCheck_eq S]

end Mono

/-- what ends a run at an instruction: a fault, or the exit check of `RET` -/
theorem step_stop_cases {P : Prog} {c : MemCfg} {i : Instr} {σ : State} {pc : Nat} {r : Res}
    (h : step P c i σ pc = .stop r) : (∃ e ln, r = .fault e ln) ∨ (i = .ret ∧ r = exitCheck c σ) := by
  by_cases hd : isData i = true
  · rw [step_data (cfg := { mem := c }) hd] at h
    cases hx : i.exec c σ with
    | error e => rw [hx] at h; cases h; exact Or.inl ⟨_, _, rfl⟩
    | ok σ1 => rw [hx] at h; cases h
  · cases i <;> (try (exact absurd rfl hd))
    case b l =>
      have e : step P c (.b l) σ pc = P.gotoLabel σ l := rfl
      rw [e] at h
      rcases gotoLabel_cases P σ l with ⟨e1, hg⟩ | ⟨j, hg⟩
      · rw [hg] at h; cases h; exact Or.inl ⟨_, _, rfl⟩
      · rw [hg] at h; cases h
    case br r0 =>
      cases r0 with
      | x n =>
        simp only [step] at h
        cases hr : σ.rdX n with
        | error e => rw [hr] at h; cases h; exact Or.inl ⟨_, _, rfl⟩
        | ok a =>
          rw [hr] at h
          simp only at h
          split at h
          · cases h; exact Or.inl ⟨_, _, rfl⟩
          · split at h
            · cases h
            · cases h; exact Or.inl ⟨_, _, rfl⟩
      | sp => cases h; exact Or.inl ⟨_, _, rfl⟩
      | xzr => cases h; exact Or.inl ⟨_, _, rfl⟩
    case bl l =>
      by_cases hx : isExternal l = true
      · have e : step P c (.bl l) σ pc = match σ.callExternal with
            | .error e => .stop (.fault e 0)
            | .ok (w, σ') => .print (l == "println_i64") w σ' (pc + 1) := by
          simp only [step, hx, if_true]
          rfl
        rw [e] at h
        cases hc : σ.callExternal with
        | error e1 => rw [hc] at h; cases h; exact Or.inl ⟨_, _, rfl⟩
        | ok r1 => obtain ⟨w1, σ1⟩ := r1; rw [hc] at h; cases h
      · have e : step P c (.bl l) σ pc = match P.gotoLabel σ l with
            | .next σ' j => .next (σ'.wrX 30 (BitVec.ofNat 64 (c.codeBase + P.offs.getD pc 0 + 4))) j
            | o => o := by
          simp only [step, hx, Bool.false_eq_true, if_false]
          rfl
        rw [e] at h
        rcases gotoLabel_cases P σ l with ⟨e1, hg⟩ | ⟨j, hg⟩
        · rw [hg] at h; cases h; exact Or.inl ⟨_, _, rfl⟩
        · rw [hg] at h; cases h
    case adr d l =>
      have e : step P c (.adr d l) σ pc = match P.labelAddr c l with
          | .error e => .stop (.fault e 0)
          | .ok a => match σ.wrZ d a with
            | .error e => .stop (.fault e 0)
            | .ok σ' => .next σ' (pc + 1) := rfl
      rw [e] at h
      cases hl : P.labelAddr c l with
      | error e1 => rw [hl] at h; cases h; exact Or.inl ⟨_, _, rfl⟩
      | ok a =>
        rw [hl] at h
        simp only at h
        cases hw : σ.wrZ d a with
        | error e1 => rw [hw] at h; cases h; exact Or.inl ⟨_, _, rfl⟩
        | ok σ1 => rw [hw] at h; cases h
    case bcond cd l =>
      have e : step P c (.bcond cd l) σ pc = match σ.flags with
          | none => .stop (.fault "read-undefined flags" 0)
          | some (a, b) => if cd.holds a b then P.gotoLabel σ l else .next σ (pc + 1) := rfl
      rw [e] at h
      cases hf : σ.flags with
      | none => rw [hf] at h; cases h; exact Or.inl ⟨_, _, rfl⟩
      | some ab =>
        obtain ⟨a, b⟩ := ab
        rw [hf] at h
        simp only at h
        split at h
        · rcases gotoLabel_cases P σ l with ⟨e1, hg⟩ | ⟨j, hg⟩
          · rw [hg] at h; cases h; exact Or.inl ⟨_, _, rfl⟩
          · rw [hg] at h; cases h
        · cases h
    case ret =>
      have e : step P c .ret σ pc = .stop (exitCheck c σ) := rfl
      rw [e] at h
      cases h
      exact Or.inr ⟨rfl, rfl⟩

/-- a run (heap monitor off) that ends with `done v` or is out of fuel in the smaller heap is the same run, with
the same trace, result and highest written heap address, in the larger heap -/
theorem runLoop_larger_heap {P : Prog} {m' m : MonCfg} (S : Sub m'.mem m.mem) (h' : m'.heap = false)
    (hm : m.heap = false) : ∀ (f : Nat) (M : Machine),
      ((runLoop P m' f M).res = .outOfFuel ∨ ∃ v, (runLoop P m' f M).res = .done v) →
      runLoop P m f M = runLoop P m' f M
  | 0, M, _ => rfl
  | f + 1, M, h => by
    cases hit : P.items[M.pc]? with
    | none =>
      have hlt : ¬ M.pc < P.items.size := by
        intro hlt; simp [hlt] at hit
      rw [runLoop] at h
      simp only [hlt, dite_false, finish_res] at h
      rcases h with h | ⟨v, h⟩ <;> cases h
    | some it =>
      rw [runLoop_item hit] at h ⊢
      rw [runLoop_item hit]
      cases it with
      | hook vs =>
        simp only [h', hm, Bool.false_eq_true, if_false] at h ⊢
        exact runLoop_larger_heap S h' hm f _ h
      | instr i =>
        simp only at h ⊢
        cases hst : step P m'.mem i M.σ M.pc with
        | next σ1 pc1 =>
          rw [hst] at h
          rw [step_mono S (by rw [hst]; intro r e; cases e), hst]
          exact runLoop_larger_heap S h' hm f _ h
        | print nl w σ1 pc1 =>
          rw [hst] at h
          rw [step_mono S (by rw [hst]; intro r e; cases e), hst]
          exact runLoop_larger_heap S h' hm f _ h
        | stop r =>
          rw [hst] at h
          simp only [finish_res] at h
          rcases step_stop_cases hst with ⟨e, ln, rfl⟩ | ⟨rfl, _⟩
          · rcases h with h | ⟨v, h⟩ <;> cases h
          · rw [step_ret_eq S, hst]

theorem runProg_larger_heap {P : Prog} {m' m : MonCfg} (S : Sub m'.mem m.mem) (h' : m'.heap = false)
    (hm : m.heap = false) (args : List Word) (f : Nat)
    (h : (runProg P args f m').res = .outOfFuel ∨ ∃ v, (runProg P args f m').res = .done v) :
    runProg P args f m = runProg P args f m' := by
  unfold runProg at *
  cases hl : P.labels["asm_main"]? with
  | none => rfl
  | some j =>
    rw [hl] at h
    simp only at h ⊢
    split
    · rfl
    · rename_i hn
      rw [if_neg hn] at h
      have e : entryState m'.mem args = entryState m.mem args := by
        unfold entryState
        rw [S.base, S.top]
      rw [e] at h
      rw [e]
      exact runLoop_larger_heap S h' hm f _ h

/-- the configuration with the heap cut down to `bytes` -/
def withHeapBytes (cfg : MonCfg) (bytes : Nat) : MonCfg := { cfg with mem := { cfg.mem with heapBytes := bytes } }

theorem sub_withHeapBytes {cfg : MonCfg} (H : CfgCC cfg.mem) {bytes : Nat} (h : bytes ≤ cfg.mem.heapBytes) :
    Sub (withHeapBytes cfg bytes).mem cfg.mem :=
  ⟨rfl, rfl, h, rfl, rfl, H.ok.disjoint⟩

theorem cfgCC_withHeapBytes {cfg : MonCfg} (H : CfgCC cfg.mem) {bytes : Nat} (h : bytes ≤ cfg.mem.heapBytes) :
    CfgCC (withHeapBytes cfg bytes).mem :=
  ⟨⟨by have := H.ok.disjoint; show cfg.mem.heapBase + bytes ≤ cfg.mem.stackLow; omega, H.ok.top⟩, H.top16, H.room⟩

end Scc.A64.ConcK
