/-
  Scc.A64.StackLemmas — proof file: the SP-based instructions (STP pre-index, LDP post-index,
  ADD/SUB SP, LDR/STR with an SP-relative offset) in terms of natural-number stack addresses.
-/
import Scc.A64.Lemmas

set_option linter.unusedSimpArgs false

namespace Scc.A64

/-- sanity of the memory layout: the heap lies below the stack and no address wraps -/
structure MemOk (c : MemCfg) : Prop where
  disjoint : c.heapBase + c.heapBytes ≤ c.stackLow
  top : c.stackTop < 2 ^ 64

theorem toNat_add_imm (w : Word) (i : Int) (h0 : 0 ≤ (w.toNat : Int) + i)
    (h1 : (w.toNat : Int) + i < 18446744073709551616) :
    (w + imm i).toNat = ((w.toNat : Int) + i).toNat := by
  have h64 : (2:Nat)^64 = 18446744073709551616 := by decide
  have hw := w.isLt
  rw [BitVec.toNat_add, imm, BitVec.toNat_ofInt]
  simp only [h64] at *
  omega

theorem add_imm_eq_ofNat (w : Word) (i : Int) (h0 : 0 ≤ (w.toNat : Int) + i)
    (h1 : (w.toNat : Int) + i < 18446744073709551616) :
    w + imm i = BitVec.ofNat 64 ((w.toNat : Int) + i).toNat := by
  apply BitVec.eq_of_toNat_eq
  rw [toNat_add_imm w i h0 h1, BitVec.toNat_ofNat]
  have h64 : (2:Nat)^64 = 18446744073709551616 := by decide
  omega

theorem sub_imm_eq_ofNat (w : Word) (i : Int) (hi : 0 ≤ i) (h0 : i ≤ (w.toNat : Int)) :
    w - imm i = BitVec.ofNat 64 ((w.toNat : Int) - i).toNat := by
  have h64 : (2:Nat)^64 = 18446744073709551616 := by decide
  have hw := w.isLt
  apply BitVec.eq_of_toNat_eq
  rw [BitVec.toNat_sub, imm, BitVec.toNat_ofInt, BitVec.toNat_ofNat]
  simp only [h64] at *
  omega

/-- store of an optional value into a stack word (`none` = make it undefined) -/
def State.putSlot (σ : State) (a : Nat) (v : Option Word) : State :=
  match v with
  | some w => σ.setSlot a w
  | none => σ.clrSlot a

def State.setSp (σ : State) (w : Word) : State := { σ with sp := w }

@[simp] theorem putSlot_reg (σ : State) (a : Nat) (v : Option Word) (m : Fin 31) : (σ.putSlot a v).reg m = σ.reg m := by
  cases v <;> rfl
@[simp] theorem putSlot_slot (σ : State) (a b : Nat) (v : Option Word) :
    (σ.putSlot a v).slot b = if a = b then v else σ.slot b := by
  cases v <;> simp [State.putSlot]
@[simp] theorem putSlot_sp (σ : State) (a : Nat) (v : Option Word) : (σ.putSlot a v).sp = σ.sp := by cases v <;> rfl
@[simp] theorem putSlot_heap (σ : State) (a : Nat) (v : Option Word) : (σ.putSlot a v).heap = σ.heap := by cases v <;> rfl
@[simp] theorem putSlot_flags (σ : State) (a : Nat) (v : Option Word) : (σ.putSlot a v).flags = σ.flags := by cases v <;> rfl

@[simp] theorem setSp_reg (σ : State) (w : Word) (m : Fin 31) : (σ.setSp w).reg m = σ.reg m := rfl
@[simp] theorem setSp_slot (σ : State) (w : Word) (a : Nat) : (σ.setSp w).slot a = σ.slot a := rfl
@[simp] theorem setSp_sp (σ : State) (w : Word) : (σ.setSp w).sp = w := rfl
@[simp] theorem setSp_heap (σ : State) (w : Word) : (σ.setSp w).heap = σ.heap := rfl
@[simp] theorem setSp_flags (σ : State) (w : Word) : (σ.setSp w).flags = σ.flags := rfl

theorem load_stack {c : MemCfg} (hm : MemOk c) (σ : State) (a : Nat) (h8 : a % 8 = 0)
    (hlo : c.stackLow ≤ a) (hhi : a + 8 ≤ c.stackTop) : σ.load c a = .ok (σ.slot a) := by
  have := hm.disjoint
  unfold State.load State.slot
  have e2 : inHeap c a = false := by simp [inHeap]; omega
  have e3 : inStack c a = true := by simp [inStack]; omega
  simp [h8, e2, e3]

theorem store_stack {c : MemCfg} (hm : MemOk c) (σ : State) (a : Nat) (v : Option Word) (h8 : a % 8 = 0)
    (hlo : c.stackLow ≤ a) (hhi : a + 8 ≤ c.stackTop) : σ.store c a v = .ok (σ.putSlot a v) := by
  have := hm.disjoint
  unfold State.store
  have e2 : inHeap c a = false := by simp [inHeap]; omega
  have e3 : inStack c a = true := by simp [inStack]; omega
  cases v <;> simp [h8, e2, e3, State.putSlot, State.setSlot, State.clrSlot]

theorem getZ_x (σ : State) (n : Fin 31) : σ.getZ (.x n) = .ok (σ.reg n) := rfl
theorem putZ_x (σ : State) (n : Fin 31) (v : Option Word) : σ.putZ (.x n) v = .ok (σ.setReg n v) := rfl

/-- `STP Xa, Xb, [SP, -16]!` -/
theorem exec_stp_sp {c : MemCfg} (hm : MemOk c) (σ : State) (a b : Fin 31) (S : Nat) (hS : σ.sp.toNat = S)
    (hal : S % 16 = 0) (hlo : c.stackLow + 16 ≤ S) (hhi : S ≤ c.stackTop) :
    Instr.exec c (.stpPre (.x a) (.x b) .sp (-16)) σ =
      .ok (((σ.putSlot (S - 16) (σ.reg a)).putSlot (S - 8) (σ.reg b)).setSp (BitVec.ofNat 64 (S - 16))) := by
  have ht := hm.top
  have h64 : (2:Nat)^64 = 18446744073709551616 := by decide
  have hbase : σ.base .sp = .ok σ.sp := by simp [State.base, hS, hal]
  have hadd : σ.sp + imm (-16) = BitVec.ofNat 64 (S - 16) := by
    rw [add_imm_eq_ofNat σ.sp (-16) (by omega) (by omega)]; congr 1; omega
  have hn1 : (BitVec.ofNat 64 (S - 16)).toNat = S - 16 := by rw [BitVec.toNat_ofNat]; omega
  have hn2 : (BitVec.ofNat 64 (S - 16) + 8).toNat = S - 8 := by
    rw [BitVec.toNat_add, hn1]; simp; omega
  have hok : okPairOff (-16) = true := by decide
  simp only [Instr.exec, hok, Bool.not_true, Bool.false_eq_true, if_false]
  have hne : ((Reg.sp == Reg.x a) || (Reg.sp == Reg.x b)) = false := by simp
  simp only [hne, Bool.false_eq_true, if_false, hbase]
  rw [Except_bind_ok, getZ_x, Except_bind_ok, getZ_x, Except_bind_ok, hadd, hn1,
    store_stack hm σ (S - 16) _ (by omega) (by omega) (by omega), Except_bind_ok, hn2,
    store_stack hm _ (S - 8) _ (by omega) (by omega) (by omega), Except_bind_ok]
  rfl

/-- `LDP Xa, Xb, [SP], 16` -/
theorem exec_ldp_sp {c : MemCfg} (hm : MemOk c) (σ : State) (a b : Fin 31) (hab : a ≠ b) (S : Nat)
    (hS : σ.sp.toNat = S) (hal : S % 16 = 0) (hlo : c.stackLow ≤ S) (hhi : S + 16 ≤ c.stackTop) :
    Instr.exec c (.ldpPost (.x a) (.x b) .sp 16) σ =
      .ok (((σ.setReg a (σ.slot S)).setReg b (σ.slot (S + 8))).setSp (BitVec.ofNat 64 (S + 16))) := by
  have ht := hm.top
  have h64 : (2:Nat)^64 = 18446744073709551616 := by decide
  have hbase : σ.base .sp = .ok σ.sp := by simp [State.base, hS, hal]
  have hadd : σ.sp + imm 16 = BitVec.ofNat 64 (S + 16) := by
    rw [add_imm_eq_ofNat σ.sp 16 (by omega) (by omega)]; congr 1; omega
  have hn2 : (σ.sp + 8).toNat = S + 8 := by
    rw [BitVec.toNat_add, hS]; simp; omega
  have hok : okPairOff 16 = true := by decide
  have hne : ((Reg.sp == Reg.x a) || (Reg.sp == Reg.x b) || ((Reg.x a == Reg.x b) && (Reg.x a != Reg.xzr))) = false := by
    have : (Reg.x a == Reg.x b) = false := by
      simp only [beq_eq_false_iff_ne, ne_eq, Reg.x.injEq]; exact hab
    simp [this]
  simp only [Instr.exec, hok, Bool.not_true, Bool.false_eq_true, if_false, hne, hbase, Except_bind_ok, hS, hn2, hadd]
  rw [load_stack hm σ S (by omega) (by omega) (by omega)]
  simp only [Except_bind_ok]
  rw [load_stack hm σ (S + 8) (by omega) (by omega) (by omega)]
  rfl

/-- `SUB SP, SP, i` -/
theorem exec_subi_sp (c : MemCfg) (σ : State) (i : Int) (hi : okImm12 i = true) (S : Nat) (hS : σ.sp.toNat = S)
    (hle : i ≤ (S : Int)) :
    Instr.exec c (.subi .sp .sp i) σ = .ok (σ.setSp (BitVec.ofNat 64 ((S : Int) - i).toNat)) := by
  have h0 : 0 ≤ i := by simp [okImm12] at hi; omega
  simp only [Instr.exec, hi, if_true, State.rdS, Except_bind_ok, State.wrS]
  rw [sub_imm_eq_ofNat σ.sp i h0 (by omega), hS]
  rfl

/-- `ADD SP, SP, i` -/
theorem exec_addi_sp (c : MemCfg) (σ : State) (i : Int) (hi : okImm12 i = true) (S : Nat) (hS : σ.sp.toNat = S)
    (hlt : (S : Int) + i < 18446744073709551616) :
    Instr.exec c (.addi .sp .sp i) σ = .ok (σ.setSp (BitVec.ofNat 64 ((S : Int) + i).toNat)) := by
  have h0 : 0 ≤ i := by simp [okImm12] at hi; omega
  simp only [Instr.exec, hi, if_true, State.rdS, Except_bind_ok, State.wrS]
  rw [add_imm_eq_ofNat σ.sp i (by omega) (by omega), hS]
  rfl

/-- `LDR Xt, [SP, i]` -/
theorem exec_ldr_sp {c : MemCfg} (hm : MemOk c) (σ : State) (t : Fin 31) (i : Int) (hi : okOff i = true)
    (S : Nat) (hS : σ.sp.toNat = S) (hal : S % 16 = 0) (hlo : c.stackLow ≤ S)
    (hhi : (S : Int) + i + 8 ≤ c.stackTop) :
    Instr.exec c (.ldr (.x t) .sp i) σ = .ok (σ.setReg t (σ.slot ((S : Int) + i).toNat)) := by
  have ht := hm.top
  have h64 : (2:Nat)^64 = 18446744073709551616 := by decide
  have hi' : (0 ≤ i ∧ i ≤ 32760) ∧ i % 8 = 0 := by simpa [okOff] using hi
  have hbase : σ.base .sp = .ok σ.sp := by simp [State.base, hS, hal]
  have hadd : (σ.sp + imm i).toNat = ((S : Int) + i).toNat := by
    rw [toNat_add_imm σ.sp i (by omega) (by omega), hS]
  simp only [Instr.exec, hi, if_true, hbase, Except_bind_ok, hadd]
  rw [load_stack hm σ _ (by omega) (by omega) (by omega)]
  rfl

/-- `STR Xt, [SP, i]` -/
theorem exec_str_sp {c : MemCfg} (hm : MemOk c) (σ : State) (t : Fin 31) (i : Int) (hi : okOff i = true)
    (S : Nat) (hS : σ.sp.toNat = S) (hal : S % 16 = 0) (hlo : c.stackLow ≤ S)
    (hhi : (S : Int) + i + 8 ≤ c.stackTop) :
    Instr.exec c (.str (.x t) .sp i) σ = .ok (σ.putSlot ((S : Int) + i).toNat (σ.reg t)) := by
  have ht := hm.top
  have h64 : (2:Nat)^64 = 18446744073709551616 := by decide
  have hi' : (0 ≤ i ∧ i ≤ 32760) ∧ i % 8 = 0 := by simpa [okOff] using hi
  have hbase : σ.base .sp = .ok σ.sp := by simp [State.base, hS, hal]
  have hadd : (σ.sp + imm i).toNat = ((S : Int) + i).toNat := by
    rw [toNat_add_imm σ.sp i (by omega) (by omega), hS]
  simp only [Instr.exec, hi, if_true, hbase, Except_bind_ok, hadd, getZ_x]
  rw [store_stack hm σ _ _ (by omega) (by omega) (by omega)]

end Scc.A64
