/-
  Scc.A64.RefBridge — from instruction lists to the run loop of the AArch64 SPEC machine, for a laid-out
  program `P` that HOLDS the routine `cs` (`CC.Holds hk P cs`, CCProofsRun.lean; `CC.holds_layout` derives it
  for `layout ls` from the line-by-line correspondence `CC.Lines`):
  * `MSteps`           finitely many iterations of `runLoop` that do not end the run (instruction with
                       outcome `next` / `print`, `#ctx` hook with the heap monitor off);
  * `runLoop_msteps`   they consume fuel, nothing else;
  * `msteps_codes`     a straight-line block (`execCodes`) at a list position;
  * `msteps_codesOut`  a block with calls of the print runtime (`execCodesOut`);
  * `mstep_jump`, `mstep_bcond`  a direct branch to a label of the routine / falling through.
  The machine's program counter at list position `k` is `pcOf hk cs k`, the number of items before `k`.
-/
import Scc.A64.RefDefs
import Scc.A64.PrintLemmas

set_option linter.unusedVariables false
set_option linter.unusedSimpArgs false

namespace Scc.A64.Ref

open Scc.A64 Scc.A64.CC

/-! ## iterations of the run loop -/

/-- one iteration of `runLoop` that does not end the run (heap monitor off) -/
inductive MStep (P : Prog) (c : MemCfg) :
    State → Nat → List (Bool × Word) → State → Nat → List (Bool × Word) → Prop
  | hook {σ : State} {pc : Nat} {out : List (Bool × Word)} {vs : List (String × Kind)} :
      P.items[pc]? = some (.hook vs) → MStep P c σ pc out σ (pc + 1) out
  | next {σ σ' : State} {pc pc' : Nat} {out : List (Bool × Word)} {i : Instr} :
      P.items[pc]? = some (.instr i) → step P c i σ pc = .next σ' pc' → MStep P c σ pc out σ' pc' out
  | print {σ σ' : State} {pc pc' : Nat} {out : List (Bool × Word)} {i : Instr} {nl : Bool} {w : Word} :
      P.items[pc]? = some (.instr i) → step P c i σ pc = .print nl w σ' pc' →
      MStep P c σ pc out σ' pc' ((nl, w) :: out)

inductive MSteps (P : Prog) (c : MemCfg) :
    State → Nat → List (Bool × Word) → State → Nat → List (Bool × Word) → Prop
  | refl (σ : State) (pc : Nat) (out : List (Bool × Word)) : MSteps P c σ pc out σ pc out
  | step {σ σ1 σ2 : State} {pc pc1 pc2 : Nat} {out out1 out2 : List (Bool × Word)} :
      MStep P c σ pc out σ1 pc1 out1 → MSteps P c σ1 pc1 out1 σ2 pc2 out2 → MSteps P c σ pc out σ2 pc2 out2

theorem MSteps.trans {P : Prog} {c : MemCfg} {σ1 σ2 σ3 : State} {pc1 pc2 pc3 : Nat}
    {o1 o2 o3 : List (Bool × Word)} (h1 : MSteps P c σ1 pc1 o1 σ2 pc2 o2)
    (h2 : MSteps P c σ2 pc2 o2 σ3 pc3 o3) : MSteps P c σ1 pc1 o1 σ3 pc3 o3 := by
  induction h1 with
  | refl => exact h2
  | step hs _ ih => exact .step hs (ih h2)

theorem MSteps.one {P : Prog} {c : MemCfg} {σ1 σ2 : State} {pc1 pc2 : Nat} {o1 o2 : List (Bool × Word)}
    (h : MStep P c σ1 pc1 o1 σ2 pc2 o2) : MSteps P c σ1 pc1 o1 σ2 pc2 o2 := .step h (.refl _ _ _)

/-- `MSteps` inside `runLoop`: the iterations consume fuel -/
theorem runLoop_msteps {P : Prog} {cfg : MonCfg} (hh : cfg.heap = false) {σ σ' : State} {pc pc' : Nat}
    {out out' : List (Bool × Word)} (h : MSteps P cfg.mem σ pc out σ' pc' out') :
    ∀ (steps blocks : Nat), ∃ n steps', ∀ fuel,
      runLoop P cfg (n + fuel) { σ := σ, pc := pc, out := out, steps := steps, blocks := blocks } =
        runLoop P cfg fuel { σ := σ', pc := pc', out := out', steps := steps', blocks := blocks } := by
  induction h with
  | refl σ pc out => intro steps blocks; exact ⟨0, steps, fun fuel => by simp⟩
  | @step σ σ1 σ2 pc pc1 pc2 out out1 out2 hs _ ih =>
    intro steps blocks
    cases hs with
    | hook hi =>
      obtain ⟨n, s', hn⟩ := ih steps blocks
      refine ⟨n + 1, s', fun fuel => ?_⟩
      rw [show n + 1 + fuel = (n + fuel) + 1 by omega, runLoop_item hi]
      simp only [hh, Bool.false_eq_true, if_false]
      exact hn fuel
    | next hi hst =>
      obtain ⟨n, s', hn⟩ := ih (steps + 1) blocks
      refine ⟨n + 1, s', fun fuel => ?_⟩
      rw [show n + 1 + fuel = (n + fuel) + 1 by omega, runLoop_item hi]
      simp only [hst]
      exact hn fuel
    | print hi hst =>
      obtain ⟨n, s', hn⟩ := ih (steps + 1) blocks
      refine ⟨n + 1, s', fun fuel => ?_⟩
      rw [show n + 1 + fuel = (n + fuel) + 1 by omega, runLoop_item hi]
      simp only [hst]
      exact hn fuel

/-- the final `RET` -/
theorem runLoop_ret {P : Prog} {cfg : MonCfg} {σ : State} {pc : Nat} (hi : P.items[pc]? = some (.instr .ret))
    {v : Word} (hx : exitCheck cfg.mem σ = .done v) (out : List (Bool × Word)) (steps blocks fuel : Nat) :
    (runLoop P cfg (fuel + 1) { σ := σ, pc := pc, out := out, steps := steps, blocks := blocks }).out = out.reverse ∧
    (runLoop P cfg (fuel + 1) { σ := σ, pc := pc, out := out, steps := steps, blocks := blocks }).res = .done v := by
  rw [runLoop_item hi]
  simp only [step, hx, finish, withLine]
  exact ⟨trivial, trivial⟩

/-! ## positions of the routine and items of the program -/

/-- the machine's program counter at list position `k` -/
def pcOf (hk : Code → Bool) (cs : List Code) (k : Nat) : Nat := icnt hk (cs.take k)

section Holds

variable {hk : Code → Bool} {P : Prog} {cs : List Code} (Hp : Holds hk P cs) {c : MemCfg}

theorem pcOf_succ {k : Nat} {code : Code} (h : cs[k]? = some code) :
    pcOf hk cs (k + 1) = pcOf hk cs k + (if isItem hk code then 1 else 0) := icnt_take_succ hk h

theorem pcOf_item {k : Nat} {code : Code} (h : cs[k]? = some code) (hi : isItem hk code = true) :
    pcOf hk cs (k + 1) = pcOf hk cs k + 1 := by rw [pcOf_succ h, hi]; rfl

theorem pcOf_noitem {k : Nat} {code : Code} (h : cs[k]? = some code) (hi : isItem hk code = false) :
    pcOf hk cs (k + 1) = pcOf hk cs k := by rw [pcOf_succ h, hi]; rfl

/-- a code that `execCode` executes is no control transfer -/
theorem isData_of_exec {i : Instr} {σ σ' : State} (h : i.exec c σ = .ok σ') : isData i = true := by
  cases hd : isData i with
  | true => rfl
  | false => rw [exec_nonData hd] at h; cases h

include Hp in
/-- ONE code that `execCode` executes, at list position `k` -/
theorem msteps_code {k : Nat} {code : Code} (hc : cs[k]? = some code) {σ σ' : State}
    (hx : execCode c code σ = .ok σ') (out : List (Bool × Word)) :
    MSteps P c σ (pcOf hk cs k) out σ' (pcOf hk cs (k + 1)) out := by
  by_cases hm : code.isMeta = true
  · have hs : σ' = σ := by
      rw [execCode_meta hm] at hx; cases hx; rfl
    subst hs
    by_cases hh : hk code = true
    · obtain ⟨vs, hit⟩ := Hp.hook k code hc hh
      rw [pcOf_item hc (by simp [isItem, hh])]
      exact .one (.hook hit)
    · rw [pcOf_noitem hc (by simp [isItem, hm, hh])]
      exact .refl _ _ _
  · have hm' : code.isMeta = false := by simpa using hm
    obtain ⟨i, hti, hit⟩ := Hp.instr k code hc hm'
    rw [execCode_of_toInstr σ hti] at hx
    have hd := isData_of_exec hx
    rw [pcOf_item hc (by simp [isItem, hm'])]
    refine .one (.next hit ?_)
    rw [step_data (cfg := { mem := c }) hd]
    simp only [hx]

include Hp in
/-- a straight-line block at list position `k` -/
theorem msteps_codes : ∀ (blk : List Code) (k : Nat) (σ σ' : State) (out : List (Bool × Word)),
    (∀ j (h : j < blk.length), cs[k + j]? = some blk[j]) → execCodes c blk σ = .ok σ' →
    MSteps P c σ (pcOf hk cs k) out σ' (pcOf hk cs (k + blk.length)) out
  | [], k, σ, σ', out, _, hx => by
    simp only [execCodes, Except.ok.injEq] at hx
    subst hx
    exact .refl _ _ _
  | code :: rest, k, σ, σ', out, hb, hx => by
    simp only [execCodes] at hx
    cases h1 : execCode c code σ with
    | error e => simp [h1] at hx
    | ok σ1 =>
      simp only [h1] at hx
      have h0 := hb 0 (by simp)
      simp only [Nat.add_zero, List.getElem_cons_zero] at h0
      have hrest : ∀ j (h : j < rest.length), cs[k + 1 + j]? = some rest[j] := by
        intro j hj
        have := hb (j + 1) (by simpa using hj)
        rw [Nat.add_assoc, Nat.add_comm 1 j]
        simpa using this
      have := msteps_codes rest (k + 1) σ1 σ' out hrest hx
      rw [show k + 1 + rest.length = k + (code :: rest).length by simp; omega] at this
      exact (msteps_code Hp h0 h1 out).trans this

include Hp in
/-- a block with calls of the print runtime at list position `k`: the calls are appended to the trace -/
theorem msteps_codesOut : ∀ (blk : List Code) (k : Nat) (σ σ' : State) (out outs : List (Bool × Word)),
    (∀ j (h : j < blk.length), cs[k + j]? = some blk[j]) → execCodesOut c blk σ = .ok (σ', outs) →
    MSteps P c σ (pcOf hk cs k) out σ' (pcOf hk cs (k + blk.length)) (outs.reverse ++ out)
  | [], k, σ, σ', out, outs, _, hx => by
    simp only [execCodesOut, Except.ok.injEq, Prod.mk.injEq] at hx
    obtain ⟨rfl, rfl⟩ := hx
    exact .refl _ _ _
  | code :: rest, k, σ, σ', out, outs, hb, hx => by
    have h0 := hb 0 (by simp)
    simp only [Nat.add_zero, List.getElem_cons_zero] at h0
    have hrest : ∀ j (h : j < rest.length), cs[k + 1 + j]? = some rest[j] := by
      intro j hj
      have := hb (j + 1) (by simpa using hj)
      rw [Nat.add_assoc, Nat.add_comm 1 j]
      simpa using this
    have elen : k + 1 + rest.length = k + (code :: rest).length := by simp; omega
    by_cases hbl : code.isBL = true
    · cases code <;> simp [Code.isBL] at hbl
      rename_i l
      simp only [execCodesOut] at hx
      by_cases hext : isExternal l = true
      · rw [if_pos hext] at hx
        cases hcall : σ.callExternal with
        | error e => simp [hcall] at hx
        | ok r =>
          obtain ⟨w, σ1⟩ := r
          simp only [hcall] at hx
          cases hr : execCodesOut c rest σ1 with
          | error e => simp [hr] at hx
          | ok r2 =>
            obtain ⟨σ2, o2⟩ := r2
            simp only [hr, Except.ok.injEq, Prod.mk.injEq] at hx
            obtain ⟨rfl, rfl⟩ := hx
            obtain ⟨i, hti, hit⟩ := Hp.instr k _ h0 rfl
            simp only [Code.toInstr, Option.some.injEq] at hti
            subst hti
            have hst : step P c (.bl l) σ (pcOf hk cs k) = .print (l == "println_i64") w σ1 (pcOf hk cs k + 1) := by
              simp only [step, hext, if_true, hcall]
            have h1 := msteps_codesOut rest (k + 1) σ1 σ2 ((l == "println_i64", w) :: out) o2 hrest hr
            rw [elen, pcOf_item h0 (by simp [isItem, Code.isMeta])] at h1
            have h2 : MSteps P c σ (pcOf hk cs k) out σ1 (pcOf hk cs k + 1) ((l == "println_i64", w) :: out) :=
              .one (.print hit hst)
            have := h2.trans h1
            rw [List.reverse_cons, List.append_assoc]
            exact this
      · rw [if_neg hext] at hx; cases hx
    · have hbl' : code.isBL = false := by simpa using hbl
      rw [execCodesOut_cons_noBL hbl'] at hx
      cases h1 : execCode c code σ with
      | error e => simp [h1] at hx
      | ok σ1 =>
        simp only [h1] at hx
        have := msteps_codesOut rest (k + 1) σ1 σ' out outs hrest hx
        rw [elen] at this
        exact (msteps_code Hp h0 h1 out).trans this

/-! ## labels -/

/-- the first definition of a label that is not defined in the prefix -/
theorem firstLab_append_of_not_mem (l : String) (pre rest : List Code) (h : Code.LAB l ∉ pre) (k : Nat) :
    firstLab l (pre ++ Code.LAB l :: rest) k = some (k + pre.length) := by
  induction pre generalizing k with
  | nil => simp [firstLab]
  | cons c pre ih =>
    have hc : c ≠ Code.LAB l := fun e => h (by simp [e])
    simp only [List.cons_append, firstLab, if_neg hc]
    rw [ih (fun hm => h (by simp [hm])) (k + 1)]
    simp only [List.length_cons]
    congr 1; omega

include Hp in
/-- a label whose first definition is at list position `k` resolves to the item count at `k` -/
theorem label_pc {l : String} {pre rest : List Code} (hcs : cs = pre ++ Code.LAB l :: rest)
    (h : Code.LAB l ∉ pre) : P.labels[l]? = some (pcOf hk cs pre.length) := by
  rw [Hp.labels, hcs, firstLab_append_of_not_mem l pre rest h 0]
  simp [pcOf]

include Hp in
/-- `B l` -/
theorem mstep_jump {k : Nat} {l : String} (hc : cs[k]? = some (Code.B l)) {j : Nat} (hl : P.labels[l]? = some j)
    (σ : State) (out : List (Bool × Word)) : MSteps P c σ (pcOf hk cs k) out σ j out := by
  obtain ⟨i, hti, hit⟩ := Hp.instr k _ hc rfl
  simp only [Code.toInstr, Option.some.injEq] at hti
  subst hti
  exact .one (.next hit (by simp [step, Prog.gotoLabel, hl]))

include Hp in
/-- a conditional branch with defined flags: taken to the label, or falling through -/
theorem mstep_bcond {k : Nat} {code : Code} {cd : Cond} {l : String} (hc : cs[k]? = some code)
    (hti : code.toInstr = some (.bcond cd l)) {σ : State} {a b : Word} (hf : σ.flags = some (a, b))
    {j : Nat} (hl : cd.holds a b = true → P.labels[l]? = some j) (out : List (Bool × Word)) :
    MSteps P c σ (pcOf hk cs k) out σ (if cd.holds a b then j else pcOf hk cs (k + 1)) out := by
  have hm : code.isMeta = false := by
    cases code <;> first | rfl | (simp [Code.toInstr] at hti)
  obtain ⟨i, hti', hit⟩ := Hp.instr k _ hc hm
  rw [hti] at hti'
  cases hti'
  rw [pcOf_item hc (by simp [isItem, hm])]
  refine .one (.next hit ?_)
  simp only [step, hf]
  by_cases hh : cd.holds a b = true
  · simp [hh, Prog.gotoLabel, hl hh]
  · simp [hh]

end Holds

/-- the codes of a block inside the routine -/
theorem block_get {cs cs1 blk rest : List Code} (hcs : cs = cs1 ++ blk ++ rest) :
    ∀ j (h : j < blk.length), cs[cs1.length + j]? = some blk[j] := by
  intro j hj
  rw [hcs, List.append_assoc, List.getElem?_append_right (by omega)]
  simp [List.getElem?_append_left hj]

theorem code_get {cs cs1 rest : List Code} {code : Code} (hcs : cs = cs1 ++ code :: rest) :
    cs[cs1.length]? = some code := by
  rw [hcs]; simp

end Scc.A64.Ref
