/-
  Scc.A64.MemProofsLayout — `BlockAt` (MemProofsBridge.lean) from the machine's `layout`: if the parsed
  text is `pre ++ blk ++ post`, where the lines `blk` are what the block `codes` parses to (`plineOf`:
  instructions, labels, plain comments, directives — no `#ctx` hook comment inside), no label of the
  block is defined in `pre` and the labels of the block are pairwise different (C14: labels are unique
  in the text), then the laid-out program contains the block at the item index where `pre` ends.
-/
import Scc.A64.MemProofsBridge

set_option linter.unusedSimpArgs false
set_option linter.unusedVariables false

namespace Scc.A64

/-- the step function of `layout` (Machine.lean) -/
def layoutStep (acc : LayoutAcc) (x : Nat × PLine) : LayoutAcc :=
  match x with
  | (ln, p) =>
    match p with
    | .blank | .comment | .directive => acc
    | .label l =>
      { acc with
        labels := if acc.labels.contains l then acc.labels else acc.labels.insert l acc.items.size,
        entry := some acc.items.size }
    | .hook vs =>
      { acc with
        items := acc.items.push (.hook vs), lines := acc.lines.push ln, offs := acc.offs.push acc.off,
        entry := match acc.entry with | some e => some e | none => some acc.items.size }
    | .instr i =>
      { acc with
        items := acc.items.push (.instr i), lines := acc.lines.push ln, offs := acc.offs.push acc.off,
        entries := acc.entries.insert acc.off (acc.entry.getD acc.items.size),
        off := acc.off + 4, entry := none }

theorem layout_items (ls : List (Nat × PLine)) : (layout ls).items = (ls.foldl layoutStep {}).items := rfl
theorem layout_labels (ls : List (Nat × PLine)) : (layout ls).labels = (ls.foldl layoutStep {}).labels := rfl

/-- the item a line is laid out as -/
def itemOf (x : Nat × PLine) : Option Item :=
  match x.2 with
  | .hook vs => some (.hook vs)
  | .instr i => some (.instr i)
  | _ => none

theorem layoutStep_items (acc : LayoutAcc) (x : Nat × PLine) :
    (layoutStep acc x).items.toList = acc.items.toList ++ (itemOf x).toList := by
  obtain ⟨ln, p⟩ := x
  cases p <;> simp [layoutStep, itemOf]

theorem foldl_items (ls : List (Nat × PLine)) : ∀ acc : LayoutAcc,
    (ls.foldl layoutStep acc).items.toList = acc.items.toList ++ ls.filterMap itemOf := by
  induction ls with
  | nil => intro acc; simp
  | cons x xs ih =>
    intro acc
    rw [List.foldl_cons, ih, layoutStep_items, List.filterMap_cons]
    cases itemOf x <;> simp

theorem foldl_items_size (ls : List (Nat × PLine)) (acc : LayoutAcc) :
    (ls.foldl layoutStep acc).items.size = acc.items.size + (ls.filterMap itemOf).length := by
  have := congrArg List.length (foldl_items ls acc)
  simpa using this

/-- a label that is already defined keeps its item -/
theorem foldl_labels_keep (l : String) (ls : List (Nat × PLine)) : ∀ acc : LayoutAcc,
    acc.labels.contains l = true → (ls.foldl layoutStep acc).labels[l]? = acc.labels[l]? := by
  induction ls with
  | nil => intro acc _; rfl
  | cons x xs ih =>
    intro acc h
    rw [List.foldl_cons]
    obtain ⟨ln, p⟩ := x
    have key : (layoutStep acc (ln, p)).labels.contains l = true ∧
        (layoutStep acc (ln, p)).labels[l]? = acc.labels[l]? := by
      cases p with
      | label l' =>
        simp only [layoutStep]
        by_cases hc : acc.labels.contains l' = true
        · simp [hc, h]
        · have hne : ¬ l' = l := fun e => hc (e ▸ h)
          simp [hc, h, Std.HashMap.contains_insert, Std.HashMap.getElem?_insert, hne]
      | _ => simp [layoutStep, h]
    rw [ih _ key.1, key.2]

/-- the first definition of a label determines its item -/
theorem foldl_labels_first (l : String) (ln : Nat) (l2 : List (Nat × PLine)) :
    ∀ (l1 : List (Nat × PLine)) (acc : LayoutAcc), acc.labels.contains l = false →
      (∀ x ∈ l1, x.2 ≠ .label l) →
      ((l1 ++ (ln, .label l) :: l2).foldl layoutStep acc).labels[l]? =
        some (acc.items.size + (l1.filterMap itemOf).length) := by
  intro l1
  induction l1 with
  | nil =>
    intro acc h _
    rw [List.nil_append, List.foldl_cons]
    have hc : (layoutStep acc (ln, .label l)).labels.contains l = true := by
      simp [layoutStep, h, Std.HashMap.contains_insert]
    rw [foldl_labels_keep l l2 _ hc]
    simp [layoutStep, h, Std.HashMap.getElem?_insert]
  | cons x xs ih =>
    intro acc h hx
    rw [List.cons_append, List.foldl_cons]
    obtain ⟨ln', p⟩ := x
    have hne : p ≠ .label l := hx (ln', p) (by simp)
    have key : (layoutStep acc (ln', p)).labels.contains l = false := by
      cases p with
      | label l' =>
        have hll : ¬ l' = l := fun e => hne (by rw [e])
        simp only [layoutStep]
        by_cases hc : acc.labels.contains l' = true
        · simp [hc, h]
        · simp [hc, h, Std.HashMap.contains_insert, hll]
      | _ => simp [layoutStep, h]
    rw [ih _ key (fun y hy => hx y (by simp [hy]))]
    have hsz : (layoutStep acc (ln', p)).items.size = acc.items.size + (itemOf (ln', p)).toList.length := by
      have := congrArg List.length (layoutStep_items acc (ln', p))
      simpa using this
    rw [hsz, List.filterMap_cons]
    cases hi : itemOf (ln', p) <;> simp [hi] <;> omega

/-! ## the lines of a block -/

/-- the parsed line of a backend instruction (`none`: a register that does not exist); comments are
plain comments (a `#ctx` hook comment is not part of a memory block) -/
def plineOf (c : Code) : Option PLine :=
  match c with
  | .LAB l => some (.label l)
  | .TEXT => some .directive
  | .GLOBAL _ => some .directive
  | .COMMENT _ => some .comment
  | c => c.toInstr.map PLine.instr

theorem plineOf_item {c : Code} {ln : Nat} {pl : PLine} (h : plineOf c = some pl) :
    (itemOf (ln, pl)).isSome = c.isItem ∧ (∀ i, c.toInstr = some i → pl = .instr i) ∧
      (∀ l, pl = .label l → c = .LAB l) := by
  cases c <;> simp only [plineOf, Option.some.injEq, Option.map_eq_some_iff] at h <;>
    first
      | (subst h; simp [itemOf, Code.isItem, Code.toInstr])
      | (obtain ⟨i, hi, rfl⟩ := h
         refine ⟨by simp [itemOf, Code.isItem, hi], fun i' hi' => by rw [hi] at hi'; injection hi' with e; rw [e],
           fun l hl => by cases hl⟩)

theorem filterMap_take_getElem? {α β : Type} (f : α → Option β) : ∀ (xs : List α) (j : Nat) (h : j < xs.length)
    (b : β), f xs[j] = some b → (xs.filterMap f)[((xs.take j).filterMap f).length]? = some b
  | x :: xs, 0, _, b, hb => by simp at hb; simp [List.filterMap_cons, hb]
  | x :: xs, j + 1, h, b, hb => by
    have h' : j < xs.length := by simpa using h
    have ih := filterMap_take_getElem? f xs j h' b (by simpa using hb)
    rw [List.take_succ_cons, List.filterMap_cons, List.filterMap_cons]
    cases f x with
    | none => simpa using ih
    | some y => simpa using ih

/-- `BlockAt` from `layout` -/
theorem layout_blockAt (pre post blk : List (Nat × PLine)) (codes : List Code)
    (hblk : blk.map (fun x => some x.2) = codes.map plineOf)
    (hfresh : ∀ l, Code.LAB l ∈ codes → ∀ x ∈ pre, x.2 ≠ .label l)
    (hnodup : ∀ (j1 j2 : Nat) (l : String), codes[j1]? = some (Code.LAB l) → codes[j2]? = some (Code.LAB l) → j1 = j2) :
    BlockAt (layout (pre ++ blk ++ post)) (pre.filterMap itemOf).length codes := by
  have hlen : blk.length = codes.length := by
    have := congrArg List.length hblk
    simpa using this
  have hpl : ∀ j (h : j < codes.length), plineOf codes[j] = some (blk[j]'(by omega)).2 := by
    intro j h
    have h1 : (blk.map (fun x => some x.2))[j]? = (codes.map plineOf)[j]? := by rw [hblk]
    simp only [List.getElem?_map] at h1
    rw [List.getElem?_eq_getElem h, List.getElem?_eq_getElem (by omega : j < blk.length)] at h1
    simpa using h1.symm
  have hidx : ∀ j, j ≤ codes.length → itemIdx codes j = ((blk.take j).filterMap itemOf).length := by
    intro j
    induction j with
    | zero => intro _; simp [itemIdx]
    | succ j ih =>
      intro hj
      have hjc : j < codes.length := by omega
      have hjb : j < blk.length := by omega
      rw [itemIdx_succ codes hjc, ih (by omega), List.take_succ_eq_append_getElem hjb, List.filterMap_append,
        List.length_append]
      have := (plineOf_item (ln := blk[j].1) (hpl j hjc)).1
      have hb : (blk[j].1, blk[j].2) = blk[j] := rfl
      rw [hb] at this
      cases hi : itemOf blk[j] with
      | none => rw [hi] at this; simp [List.filterMap_cons, hi, ← this]
      | some it => rw [hi] at this; simp [List.filterMap_cons, hi, ← this]
  constructor
  · intro j hj i hi
    have hjb : j < blk.length := by omega
    have hpi := (plineOf_item (ln := blk[j].1) (hpl j hj)).2.1 i hi
    have hit : itemOf blk[j] = some (.instr i) := by
      have hb : blk[j] = (blk[j].1, blk[j].2) := rfl
      rw [hb, hpi]; rfl
    rw [layout_items, ← Array.getElem?_toList, foldl_items]
    simp only [List.filterMap_append, List.append_assoc]
    show ([] ++ (pre.filterMap itemOf ++ (blk.filterMap itemOf ++ post.filterMap itemOf)))[
      (pre.filterMap itemOf).length + itemIdx codes j]? = _
    rw [List.nil_append, List.getElem?_append_right (by omega), Nat.add_sub_cancel_left, hidx j (by omega)]
    have hlt : ((blk.take j).filterMap itemOf).length < (blk.filterMap itemOf).length := by
      have := filterMap_take_getElem? itemOf blk j hjb _ hit
      exact (List.getElem?_eq_some_iff.1 this).1
    rw [List.getElem?_append_left hlt]
    exact filterMap_take_getElem? itemOf blk j hjb _ hit
  · intro j l hjl
    obtain ⟨hj, hjeq⟩ := List.getElem?_eq_some_iff.1 hjl
    have hjb : j < blk.length := by omega
    have hp := hpl j hj
    rw [hjeq] at hp
    simp only [plineOf, Option.some.injEq] at hp
    have hsplit : pre ++ blk ++ post = (pre ++ blk.take j) ++ (blk[j].1, PLine.label l) :: (blk.drop (j + 1) ++ post) := by
      have hb : blk[j] = (blk[j].1, PLine.label l) := by rw [hp]
      have h1 : blk.take j ++ blk[j] :: blk.drop (j + 1) = blk := by
        rw [← List.drop_eq_getElem_cons hjb, List.take_append_drop]
      rw [← hb]
      have h2 : (pre ++ blk.take j) ++ blk[j] :: (blk.drop (j + 1) ++ post) =
          pre ++ (blk.take j ++ blk[j] :: blk.drop (j + 1)) ++ post := by
        simp only [List.append_assoc, List.cons_append]
      rw [h2, h1]
    rw [layout_labels, hsplit]
    rw [foldl_labels_first l _ _ _ {} (by simp) ?_]
    · rw [List.filterMap_append, List.length_append, hidx j (by omega)]
      simp
    · intro x hx
      rcases List.mem_append.1 hx with hx | hx
      · exact hfresh l (by rw [← hjeq]; exact List.getElem_mem hj) x hx
      · intro hxl
        obtain ⟨j', hj', hxe⟩ := List.getElem_of_mem hx
        have hj'lt : j' < j := by
          have := hj'; simp only [List.length_take] at this; omega
        have hj'c : j' < codes.length := by omega
        have hxb : x = blk[j']'(by omega) := by rw [← hxe, List.getElem_take]
        have hp' := hpl j' hj'c
        rw [← hxb, hxl] at hp'
        have := (plineOf_item (ln := 0) hp').2.2 l rfl
        have hjj := hnodup j' j l (by rw [List.getElem?_eq_getElem hj'c, this]) hjl
        omega

end Scc.A64
