/-
  Scc.A64.MemProofsFwd — proof file: block semantics with FORWARD local labels for the AArch64
  backend model, the semantics on which the memory contracts of memory.rs are stated.

  `execCodeC` = one backend instruction with its control outcome (fall through / jump to a label):
  `B l` and the conditional branches `BEQ … BGE` exactly as the machine's `step` executes them
  (Machine.lean), everything else through `execCode` (Exec.lean).  `execFwd` runs a block: a jump to a
  label defined further down in the same block continues there; a jump to any other label leaves the
  block.  All jumps emitted by memory.rs are forward jumps to fresh labels (`labName_inj`), which is
  what the machine's `runLoop` does with them when labels are unique in the text (C14).
  Also: the shapes of the two combinators `skip_if_zero` / `if_zero_then_else`.
-/
import Scc.A64.MoveLemmas
import Std.Data.String.ToNat

set_option linter.unusedSimpArgs false
set_option linter.unusedVariables false

namespace Scc.A64

open Scc.AxCut
open Scc.Backend (GenM freshLabel TempNum)

/-- control outcome of one instruction of a block -/
inductive Ctl where
  | next
  | jump (l : String)
  deriving DecidableEq, Repr

/-- one backend instruction with its control outcome: `B`, `B.cond` as in the machine's `step`,
everything else falls through (`execCode`) -/
def execCodeC (c : MemCfg) (code : Code) (σ : State) : Except Fault (State × Ctl) :=
  match code.toInstr with
  | some (.b l) => .ok (σ, .jump l)
  | some (.bcond cd l) =>
    match σ.flags with
    | none => .error "read-undefined flags"
    | some (a, b) => .ok (σ, if cd.holds a b then .jump l else .next)
  | _ =>
    match execCode c code σ with
    | .ok σ' => .ok (σ', .next)
    | .error e => .error e

/-- `execCodeC` agrees with the machine's `step` on `B` / `B.cond` (the target is looked up in the
program there) and on every non-branching instruction -/
theorem execCodeC_step_exec (p : Prog) (c : MemCfg) (code : Code) (i : Instr) (σ σ' : State) (pc : Nat)
    (hi : code.toInstr = some i) (hx : execCodeC c code σ = .ok (σ', .next))
    (hb : ∀ l, i ≠ .bl l) (hbr : ∀ r, i ≠ .br r) (hadr : ∀ d l, i ≠ .adr d l) (hret : i ≠ .ret) :
    step p c i σ pc = .next σ' (pc + 1) := by
  unfold execCodeC at hx
  rw [hi] at hx
  cases i <;> simp only [] at hx
  case b l => cases hx
  case bcond cd l =>
    cases hf : σ.flags with
    | none => simp [hf] at hx
    | some ab =>
      obtain ⟨a, b⟩ := ab
      simp only [hf] at hx
      by_cases hh : cd.holds a b
      · simp [hh] at hx
      · simp only [hh, Bool.false_eq_true, if_false, Except.ok.injEq, Prod.mk.injEq, and_true] at hx
        subst hx
        simp [step, hf, hh]
  case bl l => exact absurd rfl (hb l)
  case br r => exact absurd rfl (hbr r)
  case adr d l => exact absurd rfl (hadr d l)
  case ret => exact absurd rfl hret
  all_goals
    rw [execCode_of_toInstr σ hi] at hx
    simp only [step]
    split at hx
    · rename_i σ1 h1
      simp only [Except.ok.injEq, Prod.mk.injEq, and_true] at hx
      subst hx
      rw [h1]
    · cases hx

/-! ## blocks -/

/-- the code after the first definition of label `l` -/
def skipTo (l : String) : List Code → Option (List Code)
  | [] => none
  | c :: cs =>
    match c with
    | .LAB l' => if l' = l then some cs else skipTo l cs
    | _ => skipTo l cs

theorem skipTo_length {l : String} : ∀ {cs r : List Code}, skipTo l cs = some r → r.length < cs.length
  | [], _, h => by simp [skipTo] at h
  | c :: cs, r, h => by
    cases c <;> simp only [skipTo] at h
    case LAB l' =>
      split at h
      · injection h with h; subst h; simp
      · have := skipTo_length h; simp; omega
    all_goals (have := skipTo_length h; simp; omega)

/-- execution of a block: fall-through instructions in sequence; a jump to a label defined further
down in the block continues there; a jump to a foreign label ends the block with that control -/
def execFwd (c : MemCfg) (code : List Code) (σ : State) : Except Fault (State × Ctl) :=
  match code with
  | [] => .ok (σ, .next)
  | cd :: cs =>
    match execCodeC c cd σ with
    | .error e => .error e
    | .ok (σ1, .next) => execFwd c cs σ1
    | .ok (σ1, .jump l) =>
      match _h : skipTo l cs with
      | some rest => execFwd c rest σ1
      | none => .ok (σ1, .jump l)
termination_by code.length
decreasing_by
  · simp
  · have := skipTo_length _h; simp; omega

theorem skipTo_append (l : String) (b : List Code) : ∀ (a : List Code),
    skipTo l (a ++ b) = match skipTo l a with
      | some r => some (r ++ b)
      | none => skipTo l b
  | [] => by simp [skipTo]
  | c :: cs => by
    cases c <;> simp only [List.cons_append, skipTo, skipTo_append l b cs]
    case LAB l' => split <;> simp

section Fwd
variable (c : MemCfg)

/-- how the continuation of a block is entered -/
def contFwd (b : List Code) : Except Fault (State × Ctl) → Except Fault (State × Ctl)
  | .error e => .error e
  | .ok (σ', .next) => execFwd c b σ'
  | .ok (σ', .jump l) =>
    match skipTo l b with
    | some rest => execFwd c rest σ'
    | none => .ok (σ', .jump l)

theorem execFwd_nil (σ : State) : execFwd c [] σ = .ok (σ, .next) := by
  rw [execFwd]

theorem execFwd_cons (cd : Code) (cs : List Code) (σ : State) :
    execFwd c (cd :: cs) σ = contFwd c cs (execCodeC c cd σ) := by
  rw [execFwd]
  cases h : execCodeC c cd σ with
  | error e => simp [contFwd]
  | ok r =>
    obtain ⟨σ1, n⟩ := r
    cases n with
    | next => simp [contFwd]
    | jump l =>
      simp only [contFwd]
      split <;> rename_i h2 <;> simp [h2]

/-- sequential composition of blocks -/
theorem execFwd_append (b : List Code) : ∀ (n : Nat) (a : List Code) (σ : State), a.length ≤ n →
    execFwd c (a ++ b) σ = contFwd c b (execFwd c a σ) := by
  intro n
  induction n with
  | zero =>
    intro a σ h
    have : a = [] := List.eq_nil_of_length_eq_zero (Nat.le_zero.mp h)
    subst this
    simp [execFwd_nil, contFwd]
  | succ n ih =>
    intro a σ h
    cases a with
    | nil => simp [execFwd_nil, contFwd]
    | cons cd cs =>
      have hcs : cs.length ≤ n := by simpa using h
      rw [List.cons_append, execFwd_cons, execFwd_cons]
      cases hex : execCodeC c cd σ with
      | error e => simp [contFwd]
      | ok r =>
        obtain ⟨σ1, nx⟩ := r
        cases nx with
        | next => simp only [contFwd]; exact ih cs σ1 hcs
        | jump l =>
          simp only [contFwd, skipTo_append]
          cases hsk : skipTo l cs with
          | none => simp
          | some r =>
            have := skipTo_length hsk
            simp only
            exact ih r σ1 (by omega)

/-- a block that runs to its end, followed by another block -/
theorem execFwd_seq {a b : List Code} {σ σ1 : State} {r : Except Fault (State × Ctl)}
    (ha : execFwd c a σ = .ok (σ1, .next)) (hb : execFwd c b σ1 = r) : execFwd c (a ++ b) σ = r := by
  rw [execFwd_append c b a.length a σ (Nat.le_refl _), ha]
  simpa only [contFwd] using hb

/-- straight-line code (`execCodes`: no branch instruction) is a block that falls through -/
theorem execFwd_of_execCodes : ∀ (codes : List Code) (σ σ' : State),
    (∀ cd ∈ codes, ∀ l, cd.toInstr ≠ some (.b l)) → (∀ cd ∈ codes, ∀ cc l, cd.toInstr ≠ some (.bcond cc l)) →
    execCodes c codes σ = .ok σ' → execFwd c codes σ = .ok (σ', .next)
  | [], σ, σ', _, _, h => by
    simp only [execCodes, Except.ok.injEq] at h; subst h; exact execFwd_nil c σ
  | cd :: cs, σ, σ', h1, h2, h => by
    simp only [execCodes] at h
    rw [execFwd_cons]
    cases hx : execCode c cd σ with
    | error e => simp [hx] at h
    | ok σ1 =>
      simp only [hx] at h
      have : execCodeC c cd σ = .ok (σ1, .next) := by
        unfold execCodeC
        have a1 := h1 cd (by simp)
        have a2 := h2 cd (by simp)
        split
        · rename_i l e; exact absurd e (a1 l)
        · rename_i cc l e; exact absurd e (a2 cc l)
        · rw [hx]
      rw [this]
      simp only [contFwd]
      exact execFwd_of_execCodes cs σ1 σ' (fun x hx => h1 x (by simp [hx])) (fun x hx => h2 x (by simp [hx])) h

end Fwd

/-! ## fresh labels, shapes of the two combinators -/

/-- the name of fresh label number `n` (memory.rs: `format!("lab{}", fresh_label())`) -/
def labName (n : Nat) : String := "lab" ++ toString n

theorem labName_inj {m n : Nat} : labName m = labName n ↔ m = n := by
  unfold labName
  constructor
  · intro h
    have h2 := congrArg String.toList h
    simp only [String.toList_append, List.append_cancel_left_eq] at h2
    have : toString m = toString n := String.toList_inj.mp h2
    exact Nat.repr_inj.mp this
  · rintro rfl; rfl

/-- memory.rs skip_if_zero: shape of the code -/
theorem skipIfZero_run (condition : Register) (toSkip : List Code) (k : Nat) :
    (skipIfZero condition toSkip).run k =
      .ok ([.CMPI condition 0, .BEQ (labName (k + 1))] ++ toSkip ++ [.LAB (labName (k + 1))], k + 1) := rfl

/-- memory.rs if_zero_then_else: shape of the code -/
theorem ifZeroThenElse_run (condition : Register) (thenBranch elseBranch : List Code) (k : Nat) :
    (ifZeroThenElse condition thenBranch elseBranch).run k =
      .ok ([.CMPI condition 0, .BEQ (labName (k + 1))] ++ elseBranch ++
        [.B (labName (k + 2)), .LAB (labName (k + 1))] ++ thenBranch ++ [.LAB (labName (k + 2))], k + 2) := rfl

/-- every label defined in `code` is one of the fresh labels `lo+1 … hi` -/
def LabsIn (code : List Code) (lo hi : Nat) : Prop :=
  ∀ l, Code.LAB l ∈ code → ∃ n, l = labName n ∧ lo < n ∧ n ≤ hi

theorem skipTo_none_of_not_mem {l : String} : ∀ {code : List Code}, Code.LAB l ∉ code → skipTo l code = none
  | [], _ => rfl
  | cd :: cs, h => by
    have h1 : cd ≠ Code.LAB l := fun e => h (by simp [e])
    have h2 : Code.LAB l ∉ cs := fun e => h (by simp [e])
    cases cd <;> simp only [skipTo] <;> try exact skipTo_none_of_not_mem h2
    case LAB l' =>
      have : l' ≠ l := fun e => h1 (by rw [e])
      rw [if_neg this]
      exact skipTo_none_of_not_mem h2

theorem LabsIn.skipTo_none {code : List Code} {lo hi n : Nat} (L : LabsIn code lo hi)
    (hn : n ≤ lo ∨ hi < n) : skipTo (labName n) code = none := by
  apply skipTo_none_of_not_mem
  intro hm
  obtain ⟨m, e, h1, h2⟩ := L _ hm
  have := labName_inj.1 e
  omega

theorem LabsIn.nil (lo hi : Nat) : LabsIn [] lo hi := fun _ h => by simp at h

theorem LabsIn.append {a b : List Code} {lo hi : Nat} (ha : LabsIn a lo hi) (hb : LabsIn b lo hi) :
    LabsIn (a ++ b) lo hi := fun l h => by
  rcases List.mem_append.1 h with h | h
  · exact ha l h
  · exact hb l h

theorem LabsIn.mono {a : List Code} {lo hi lo' hi' : Nat} (ha : LabsIn a lo hi) (h1 : lo' ≤ lo)
    (h2 : hi ≤ hi') : LabsIn a lo' hi' := fun l h => by
  obtain ⟨n, e, a1, a2⟩ := ha l h
  exact ⟨n, e, by omega, by omega⟩

theorem LabsIn.of_noLab {a : List Code} (lo hi : Nat) (h : ∀ l, Code.LAB l ∉ a) : LabsIn a lo hi :=
  fun l hl => absurd hl (h l)

theorem LabsIn.cons_lab {a : List Code} {lo hi n : Nat} (ha : LabsIn a lo hi) (h1 : lo < n) (h2 : n ≤ hi) :
    LabsIn (.LAB (labName n) :: a) lo hi := fun l h => by
  rcases List.mem_cons.1 h with h | h
  · injection h with h; exact ⟨n, h, h1, h2⟩
  · exact ha l h

theorem LabsIn.cons_other {a : List Code} {lo hi : Nat} {cd : Code} (ha : LabsIn a lo hi)
    (h : ∀ l, cd ≠ .LAB l) : LabsIn (cd :: a) lo hi := fun l hl => by
  rcases List.mem_cons.1 hl with e | e
  · exact absurd e.symm (h l)
  · exact ha l e

/-- no label is defined in the code -/
def NoLab (code : List Code) : Prop := ∀ l, Code.LAB l ∉ code

theorem NoLab.append {a b : List Code} (ha : NoLab a) (hb : NoLab b) : NoLab (a ++ b) := fun l h => by
  rcases List.mem_append.1 h with h | h
  · exact ha l h
  · exact hb l h

theorem NoLab.labsIn {a : List Code} (h : NoLab a) (lo hi : Nat) : LabsIn a lo hi := LabsIn.of_noLab lo hi h

theorem noLab_nil : NoLab [] := fun _ h => by simp at h

/-! ## runs of generators -/

theorem genm_bind {α β : Type} {m : GenM α} {f : α → GenM β} {k k1 : Nat} {a : α}
    (h1 : m.run k = .ok (a, k1)) : (m >>= f).run k = (f a).run k1 := by
  rw [StateT.run_bind, h1]; rfl

theorem genm_pure {α : Type} (a : α) (k : Nat) : (pure a : GenM α).run k = .ok (a, k) := rfl

end Scc.A64
