/-
  Scc.A64.RefClosInvoke — THREE-WAY SIMULATION OF `invoke` on AArch64 (C07, closures): the machine jumps
  through the code pointer of the closure — the BYTE ADDRESS of its method table in the routine
  (`XMethodsAt`, `addrOf`) — directly (a type with one method: `BR reg` enters the program at the entry of that
  address: the last label before the first instruction behind it; `#ctx` hooks between the method label and
  that label are skipped, `Tol`) or through the table (`ADD reg, reg, #4·tag; BR reg` enters the tag-th `B` of
  the table, stride 4 = `jump_length`; then `B method`), then the method loads the closure environment
  (`load_x3`).  The AArch64 analogue of Scc/X86/RefClosInvoke.lean.
-/
import Scc.A64.RefClosCreate

set_option linter.unusedVariables false
set_option linter.unusedSimpArgs false

namespace Scc.A64.Ref.K

open Scc.AxCut Scc.AxCut.Pos Scc.Backend Scc.Backend.Abs Scc.Backend.Sim Scc.Backend.Sim2 Scc.A64 Scc.A64.CC
open Scc.Heap (HState InvS InvW)
open Scc.Heap.Refine (HRef FrLe Room loadAbs)

/-! ## the code of the methods -/

theorem x_codeMethods_nth (hooks : Bool) (ren : Nat → String) (types : List TypeDecl) (env : Ctx) :
    ∀ (clauses : Clauses) (base : String) (i : Nat) (c : Clause) (k : Nat) (code : List Code) (k' : Nat),
    (codeMethodsR a64Backend hooks ren types env clauses base).run k = .ok (code, k') →
    nthClause clauses i = some c →
    ∃ pre post kl kl' lcode kb' body,
      code = pre ++ Code.LAB (clauseLabel base c.xtor) :: (lcode ++ (body ++ post)) ∧
      (load env c.ctx).run kl = .ok (lcode, kl') ∧
      (codeStatementR a64Backend hooks ren types c.body (c.ctx ++ env)).run kl' = .ok (body, kb')
  | .nil, _, _, _, _, _, _, _, h => by simp [nthClause] at h
  | .cons x ctx body rest, base, i, c, k, code, k', hrun, h => by
    simp only [codeMethodsR, run_bind_ok, run_pure_ok] at hrun
    obtain ⟨c1, k1, h1, c2, k2, h2, c3, k3, h3, rfl, rfl⟩ := hrun
    cases i with
    | zero =>
      simp only [nthClause, Option.some.injEq] at h
      subst h
      exact ⟨[], c3, k, k1, c1, k2, c2, by simp; rfl, h1, h2⟩
    | succ i =>
      simp only [nthClause] at h
      obtain ⟨pre, post, kl, kl', lcode, kb', b, e, hl, hb⟩ :=
        x_codeMethods_nth hooks ren types env rest base i c _ _ _ h3 h
      refine ⟨Code.LAB (clauseLabel base x) :: (c1 ++ c2) ++ pre, post, kl, kl', lcode, kb', b, ?_, hl, hb⟩
      rw [e]
      show Code.LAB _ :: (c1 ++ c2 ++ _) = _
      simp

theorem x_codeMethods_head (hooks : Bool) (ren : Nat → String) (types : List TypeDecl) (env : Ctx)
    (clauses : Clauses) (base : String) (c : Clause) (k : Nat) (code : List Code) (k' : Nat)
    (hrun : (codeMethodsR a64Backend hooks ren types env clauses base).run k = .ok (code, k'))
    (h : nthClause clauses 0 = some c) :
    ∃ post kl' lcode kb' body,
      code = Code.LAB (clauseLabel base c.xtor) :: (lcode ++ (body ++ post)) ∧
      (load env c.ctx).run k = .ok (lcode, kl') ∧
      (codeStatementR a64Backend hooks ren types c.body (c.ctx ++ env)).run kl' = .ok (body, kb') := by
  cases clauses with
  | nil => simp [nthClause] at h
  | cons x ctx body rest =>
    simp only [codeMethodsR, run_bind_ok, run_pure_ok] at hrun
    obtain ⟨c1, k1, h1, c2, k2, h2, c3, k3, h3, rfl, rfl⟩ := hrun
    simp only [nthClause, Option.some.injEq] at h
    subst h
    exact ⟨c3, k1, c1, k2, c2, by simp; rfl, h1, h2⟩

/-! ## the abstract machine up to the `load` of the method (the first part of `sim2_invoke`), for GIVEN
method code at the address the closure holds -/

theorem invoke_nav_abs {P : Program} {hooks : Bool} {prog : AxCut.Prog} {Γa : Ctx} {b : Binding}
    {ρa : List Value} {Γc : Ctx} {ρc : List Value} {clauses : Clauses} {x tag : Ident} {ty : Ty}
    {args : Ctx} {cfg : Config} {c : Clause} {pos : Nat}
    (R : RelX P hooks prog ⟨Γa ++ [b], ρa ++ [.clo Γc ρc clauses], .invoke x tag ty args⟩ cfg)
    (hfits : Fits P)
    (hb : b.var.id = x.id) (hfresh : ∀ b' ∈ Γa, b'.var.id ≠ x.id)
    (hpos : Pos.tagPosition prog.types ty tag = .ok pos)
    (hclause : nthClause clauses pos = some c)
    (hlenc : ∀ d, lookupTypeDecl prog.types ty = some d → clauses.length = d.xtors.length)
    (hlenA : Γa.length = c.ctx.length)
    {a : Nat} {envCtx' : Ctx} (hword : cfg.temps.get (2 * Γa.length + 1) = some (BitVec.ofNat 64 a))
    (hmeth : MethodsAt P hooks prog.types a envCtx' clauses) :
    ∃ k4 cfg4, stepsTo P k4 cfg cfg4 ∧ cfg4.heap = cfg.heap ∧ cfg4.next = cfg.next ∧ cfg4.out = cfg.out ∧
      (∀ t, t < 2 * (Γa.length + 1) → cfg4.temps.get t = cfg.temps.get t) ∧
      P.code[cfg4.pc]? = some (.load (Mock.kindsOf envCtx') Γa.length) ∧
      (∃ c0 c0' ops, (codeStatementR mockSym hooks natRen prog.types c.body (c.ctx ++ envCtx')).run c0 =
        .ok (ops, c0') ∧ CodeAt P (cfg4.pc + 1) ops) := by
  obtain ⟨k0, k0', ops, hrun, hat⟩ := R.code
  obtain ⟨base, km, km', mcode, hmrun, hmat⟩ := hmeth
  simp only [CodeAt] at hmat
  obtain ⟨_, hmat⟩ := hmat
  have hcapR := R.cap
  simp only [List.length_append, List.length_singleton] at hcapR
  obtain ⟨d, hd, hx⟩ := tagPosition_ok hpos
  have hlc := hlenc d hd
  have hposlt := nthClause_lt clauses pos c hclause
  -- decode the code
  simp only [codeStatementR, run_bind_ok, run_pure_ok, mockSym_variableTemporary, vt_run_ok,
    lookupTypeDeclM_run_ok] at hrun
  obtain ⟨tt, k1, ⟨p, hp, rfl, rfl⟩, decl, k2, ⟨hd', rfl⟩, hrun⟩ := hrun
  rw [hd] at hd'; cases hd'
  have hp' : p = Γa.length := by
    rw [ctxPosition_eq_posOf] at hp
    have := posOf_append_fresh Γa b (fun b' hb' => by rw [hb]; exact hfresh b' hb')
    rw [hb] at this
    rw [this] at hp
    exact (Option.some.inj hp).symm
  subst hp'
  by_cases hle : d.xtors.length ≤ 1
  · -- a single method: jump to it directly
    have hpos0 : pos = 0 := by omega
    subst hpos0
    simp only [hle, if_true, run_pure_ok] at hrun
    obtain ⟨rfl, rfl⟩ := hrun
    simp only [mockSym_comment, mockSym_jump, List.append_assoc, CodeAt_hook] at hat
    simp only [List.cons_append, List.nil_append, CodeAt, TempNum.toNat] at hat
    obtain ⟨hjmp, _⟩ := hat
    have hgt : ¬ (clauses.length > 1) := by omega
    simp only [hgt, if_false, List.nil_append] at hmat
    obtain ⟨post0, kb0, kb0', body0, hc0, hbody0⟩ :=
      codeMethods_head hooks natRen prog.types _ clauses _ c _ _ _ hmrun hclause
    rw [hc0] at hmat
    obtain ⟨_, hload, hatb⟩ := clause_at hmat
    simp only [instrCount, Nat.add_zero] at hload hatb
    have ha : (BitVec.ofNat 64 a).toNat = a := by
      apply toNat_ofNat_lt
      have := code_lt_size hload
      unfold Fits at hfits
      omega
    let cfg1 : Config := { cfg with pc := a, temps := clobberTemp cfg.temps }
    have hs1 : Abs.step P cfg = .next cfg1 := by
      have := Scc.Backend.Sim2.step_jump P cfg _ _ hjmp hword
      rw [ha] at this
      exact this
    refine ⟨1, cfg1, stepsTo_one P _ _ hs1, rfl, rfl, rfl, ?_, by rw [hlenA]; exact hload,
      ⟨_, _, body0, hbody0, hatb⟩⟩
    intro t ht
    show (clobberTemp cfg.temps).get t = _
    rw [get_clobberTemp _ (by omega)]
  · -- through the method table
    have hgt : clauses.length > 1 := by omega
    simp only [hle, if_false, run_bind_ok, run_pure_ok, xtorPositionM_run_ok] at hrun
    obtain ⟨pos', k3, ⟨hx', rfl⟩, rfl, rfl⟩ := hrun
    rw [hx] at hx'; cases hx'
    simp only [mockSym_addAndJump, mockSym_jumpLength, List.append_assoc, CodeAt_hook] at hat
    simp only [List.cons_append, List.nil_append, CodeAt, TempNum.toNat] at hat
    obtain ⟨hjmp, _⟩ := hat
    simp only [hgt, if_true] at hmat
    have htab := codeTable_nth P _ clauses pos c _ _ hclause hmat
    rw [CodeAt_append] at hmat
    obtain ⟨_, hmat3⟩ := hmat
    obtain ⟨pre, post, kb, kb', body, hc3, hbody⟩ :=
      codeMethods_nth hooks natRen prog.types _ clauses _ pos c _ _ _ hmrun hclause
    rw [hc3] at hmat3
    obtain ⟨hclab, hload, hatb⟩ := clause_at hmat3
    generalize a + instrCount (codeTable mockSym clauses base) + instrCount pre = ca at hclab hload hatb
    have haddr : (BitVec.ofNat 64 a + BitVec.ofInt 64 (pos : Int)).toNat = a + pos := by
      have e : BitVec.ofInt 64 (pos : Int) = BitVec.ofNat 64 pos := by simp
      rw [e]
      apply toNat_add_ofNat
      have := code_lt_size htab
      unfold Fits at hfits
      omega
    let cfg1 : Config := { cfg with pc := a + pos, temps := clobberTemp cfg.temps }
    have hs1 : Abs.step P cfg = .next cfg1 := by
      have := step_addJump P cfg _ _ _ hjmp hword
      rw [haddr] at this
      exact this
    let cfg2 : Config := { cfg1 with pc := ca, temps := clobberTemp (clobberTemp cfg.temps) }
    have hs2 : Abs.step P cfg1 = .next cfg2 := step_jumpFixed P cfg1 _ _ htab hclab
    refine ⟨2, cfg2, ⟨cfg1, hs1, stepsTo_one P _ _ hs2⟩, rfl, rfl, rfl, ?_, by rw [hlenA]; exact hload,
      ⟨_, _, body, hbody, hatb⟩⟩
    intro t ht
    show (clobberTemp (clobberTemp cfg.temps)).get t = _
    rw [get_clobberTemp _ (by omega), get_clobberTemp _ (by omega)]

/-! ## the machine: the code pointer into the jump register -/

theorem jump_eq (t : Temporary) : jump t = loadPtr t ++ [.BR (ptrReg t)] := by
  cases t <;> rfl

theorem addAndJump_eq (t : Temporary) (i : Int) :
    addAndJump t i = loadPtr t ++ [.ADDI (ptrReg t) (ptrReg t) i, .BR (ptrReg t)] := by
  cases t <;> rfl

/-- the pointer of a position into the jump register: nothing but TEMP changes -/
theorem loadPtr_pos {c : MemCfg} (H : CfgCC c) {σ : State} (C : Core c σ) {t : Nat} (ht : t < 281) {w : Word}
    (hw : σ.tempVal (posTemp t) = some w) :
    ∃ σb r d, ptrReg (posTemp t) = .x r ∧ xreg r = some d ∧
      execCodes c (loadPtr (posTemp t)) σ = .ok σb ∧ σb.reg d = some w ∧ Frame0 σ σb ∧ Core c σb ∧
      (posTemp t = .register (.x r) ∨ d = xT) := by
  have hvar := isVar_posTemp ht
  cases hpt : posTemp t with
  | register reg =>
    rw [hpt] at hvar hw
    cases reg with
    | x r =>
      obtain ⟨nt, hnt, _, _⟩ := tempVal_var_reg (σ := σ) hvar
      rw [tempVal_reg hnt] at hw
      exact ⟨σ, r, nt, rfl, hnt, rfl, hw, frame0_refl σ, C, Or.inl rfl⟩
    | sp => simp [Temporary.isVar] at hvar
    | xzr => simp [Temporary.isVar] at hvar
  | spill q =>
    rw [hpt] at hvar hw
    obtain ⟨_, hq⟩ := isVar_spill hvar
    rw [tempVal_spill] at hw
    have hsp := spOkS_of_core H C
    have hT : xreg 2 = some xT := xreg_TEMP
    have hx : execCodes c [Code.LDR TEMP .sp (stackOffset q)] σ = .ok (σ.setReg xT (some w)) := by
      have : (TEMP : Register) = .x 2 := rfl
      rw [this]
      simp [execCodes, execCode_LDR_sp hT, exec_ldr_slot c 144, hsp, hq, hw]
    exact ⟨σ.setReg xT (some w), 2, xT, rfl, hT, hx, by simp,
      frame0_setReg (frame0_refl σ) (Or.inl rfl) _, core_setReg C _ _, Or.inr rfl⟩

/-- the word temporary of a closure variable may change (it only has to stay defined) -/
theorem X3R.keep_cns {c : MemCfg} {Γ : Ctx} {cfg : Config} {rs : List Nat} {hs : HState}
    {ι : Nat → Nat} {κ : Nat → Nat → Word} {σ σ' : State} {out : List (Bool × Word)}
    (X : X3R c Γ cfg rs hs ι κ σ out)
    (C' : Core c σ') {n : Nat} (hn : n < Γ.length) (hc : Γ[n].chi = .cns)
    (hkeep : ∀ t, t < 281 → t ≠ 2 * n + 1 → σ'.tempVal (posTemp t) = σ.tempVal (posTemp t))
    (HR : HeapRel c σ' hs)
    (hdef : (σ'.tempVal (posTemp (2 * n + 1))).isSome) : X3R c Γ cfg rs hs ι κ σ' out := by
  have hcap := X.cap
  refine ⟨C', X.cap, ?_, ?_, X.out, HR, X.href⟩
  · intro i hi a ha
    by_cases e : i = n
    · subst e
      obtain ⟨w, hw⟩ := Option.isSome_iff_exists.mp hdef
      rw [hc]
      exact words_of hw (fun h => absurd rfl h)
    · rw [hkeep _ (by omega) (by omega)]
      exact X.words i hi a ha
  · intro i hi hcx r hr
    rw [hkeep _ (by omega) (by omega)]
    exact X.ptrs i hi hcx r hr

section Invoke3

variable {c : MemCfg} (H : CfgCC c) (h8 : c.heapBase % 8 = 0) {hkf : Code → Bool} {Pm : Prog}
  {cs pre : List Code} (HB : HoldsB hkf Pm cs) (hnd : (labs cs).Nodup)
  (hfitX : c.codeBase + 4 * ninstr cs < 2 ^ 64) (hcsC : cs = pre ++ cleanup)

include H HB hnd hfitX hcsC in
/-- the machine from the `invoke` to the `load` of the selected method; with one method the machine may be
ahead of the boundary position `kp4` by `#ctx` hooks (`Tol`) -/
theorem invoke_nav_a64 {hooks : Bool} {types : List TypeDecl} {Γa : Ctx} {b : Binding} {cfg : Config}
    {hs : HState} {ι : Nat → Nat} {κ : Nat → Nat → Word} {σ : State} {out : List (Bool × Word)} {kp : Nat}
    {x tag : Ident} {ty : Ty} {args : Ctx}
    {clauses : Clauses} {d : TypeDecl} {pos : Nat} {cl : Clause} {envCtx' : Ctx} {w : Word}
    (X : X3 c (Γa ++ [b]) cfg hs ι κ σ out)
    (hb : b.var.id = x.id) (hfresh : ∀ b' ∈ Γa, b'.var.id ≠ x.id) (hbchi : b.chi = .cns)
    (hd : lookupTypeDecl types ty = some d) (hx : xtorPosition d tag = some pos)
    (hclause : nthClause clauses pos = some cl) (hlc : clauses.length = d.xtors.length)
    (hw : σ.tempVal (posTemp (2 * Γa.length + 1)) = some w)
    (hXM : XMethodsAt c cs hooks types w envCtx' clauses)
    (hpos12 : pos < 1024)
    {k k' : Nat} {items : List Code}
    (hrun : (codeStatementR a64Backend hooks natRen types (.invoke x tag ty args) (Γa ++ [b])).run k =
      .ok (items, k'))
    (hat : XAt cs kp items) :
    ∃ σ4 kp4 pcR kl kl' lcode kb' body, MSteps Pm c σ (pcOf hkf cs kp) out σ4 pcR out ∧
      Tol Pm (pcOf hkf cs kp4) pcR ∧
      X3 c (Γa ++ [b]) cfg hs ι κ σ4 out ∧
      (load envCtx' cl.ctx).run kl = .ok (lcode, kl') ∧
      (codeStatementR a64Backend hooks natRen types cl.body (cl.ctx ++ envCtx')).run kl' = .ok (body, kb') ∧
      XAt cs kp4 (lcode ++ body) ∧
      (∀ t, t < 281 → t ≠ 2 * Γa.length + 1 → σ4.tempVal (posTemp t) = σ.tempVal (posTemp t)) := by
  have HA := HB.holdsA
  have Hp := HA.holds
  have hcapX := X.cap
  simp only [List.length_append, List.length_singleton] at hcapX
  have hn1 : Γa.length < (Γa ++ [b]).length := by simp
  have hgb : (Γa ++ [b])[Γa.length] = b := by simp
  obtain ⟨base, km, km', mcode, idx, hmrun, hatM, hwe⟩ := hXM
  have hposlt := nthClause_lt clauses pos cl hclause
  -- decode the code
  simp only [codeStatementR, run_bind_ok, lookupTypeDeclM_run_ok] at hrun
  obtain ⟨tt, k1, htt, decl, k2, ⟨hd', rfl⟩, hrun⟩ := hrun
  rw [hd] at hd'; cases hd'
  obtain ⟨p, hp, hlt, rfl, rfl, _⟩ := vt_rel htt
  have hp' : p = Γa.length := by
    have := posOf_append_fresh Γa b (fun b' hb' => by rw [hb]; exact hfresh b' hb')
    rw [hb] at this
    rw [this] at hp
    exact (Option.some.inj hp).symm
  subst hp'
  simp only [TempNum.toNat] at hlt
  have hvar := isVar_posTemp hlt
  -- the table label in the routine
  obtain ⟨csM, restM, hcsM, hlenM⟩ := hatM
  subst hlenM
  -- the code pointer in the jump register
  obtain ⟨σb, r, dreg, hpr, hdr, hxb, hregb, Fb, Cb, hcase⟩ := loadPtr_pos H X.core hlt hw
  by_cases hle : d.xtors.length ≤ 1
  · -- a single method: `BR` to the address of the label
    have hpos0 : pos = 0 := by omega
    subst hpos0
    simp only [hle, if_true, run_pure_ok] at hrun
    obtain ⟨rfl, rfl⟩ := hrun
    have hgt : ¬ (clauses.length > 1) := by omega
    simp only [hgt, if_false, List.nil_append] at hcsM
    obtain ⟨post0, kl', lcode, kb', body, hc0, hload, hbody⟩ :=
      x_codeMethods_head hooks natRen types envCtx' clauses base cl _ _ _ hmrun hclause
    rw [hc0] at hcsM
    have hje : a64Backend.jump (posTemp (2 * Γa.length + TempNum.snd.toNat)) =
        loadPtr (posTemp (2 * Γa.length + 1)) ++ [Code.BR (ptrReg (posTemp (2 * Γa.length + 1)))] :=
      jump_eq _
    rw [hje] at hat
    generalize hc0' : hookCode a64Backend hooks (Γa ++ [b]) ++ [a64Backend.comment (invokePrint x tag args)] ++
      [a64Backend.comment "#there is only one clause, so we can jump there directly"] = c0 at hat
    have hc0c : ∀ y ∈ c0, ∃ m', y = Code.COMMENT m' := by
      rw [← hc0']
      intro y hy
      rcases List.mem_append.1 hy with hy | hy
      · exact hook_comments hooks _ _ y hy
      · simp only [List.mem_singleton] at hy; exact ⟨_, hy⟩
    have hatA : XAt cs kp (c0 ++ (loadPtr (posTemp (2 * Γa.length + 1)) ++
        [Code.BR (ptrReg (posTemp (2 * Γa.length + 1)))])) := by
      simpa [List.append_assoc] using hat
    have hk0 := x_msteps_codes (c := c) Hp hatA.left (execCodes_comments c c0 σ hc0c) out
    have hkb := x_msteps_codes (c := c) Hp hatA.right.left hxb out
    -- the `BR`
    have hgetBR : cs[kp + c0.length + (loadPtr (posTemp (2 * Γa.length + 1))).length]? =
        some (Code.BR (ptrReg (posTemp (2 * Γa.length + 1)))) := hatA.right.right.head
    obtain ⟨iB, htiB, hitB⟩ := Hp.instr _ _ hgetBR rfl
    have eB : iB = .br (.x dreg) := by
      have : (Code.BR (ptrReg (posTemp (2 * Γa.length + 1)))).toInstr = some (.br (.x dreg)) := by
        rw [hpr]; simp [Code.toInstr, toReg_x, hdr]
      rw [this] at htiB; exact (Option.some.inj htiB).symm
    subst eB
    -- the method label, the clause label, then metas and an instruction
    have hcsM' : cs = csM ++ Code.LAB base :: (Code.LAB (clauseLabel base cl.xtor) ::
        ((lcode ++ body) ++ (post0 ++ restM))) := by
      rw [hcsM]; simp [List.append_assoc]
    obtain ⟨Bm, c2m, R0m, hsplit, hBm, hc2m⟩ := split_first_instr
      (Code.LAB (clauseLabel base cl.xtor) :: ((lcode ++ body) ++ (post0 ++ restM)))
      (instr_behind (pre := pre) (by rw [← hcsC]; exact hcsM'))
    obtain ⟨e, hstepB, hTol⟩ := step_br_label (c := c) HB (by rw [hcsM', hsplit]) hBm hc2m hfitX dreg σb
      (pcOf hkf cs (kp + c0.length + (loadPtr (posTemp (2 * Γa.length + 1))).length))
      (by rw [hregb, hwe])
    have hmC : MSteps Pm c σb (pcOf hkf cs (kp + c0.length + (loadPtr (posTemp (2 * Γa.length + 1))).length)) out
        σb e out := .one (.next hitB hstepB)
    -- the two labels are no items
    have hg0 : cs[csM.length]? = some (Code.LAB base) := by
      rw [hcsM']; exact getElem?_mid _ _ _
    have hg1 : cs[csM.length + 1]? = some (Code.LAB (clauseLabel base cl.xtor)) := by
      have e' : cs = (csM ++ [Code.LAB base]) ++ Code.LAB (clauseLabel base cl.xtor) ::
          ((lcode ++ body) ++ (post0 ++ restM)) := by rw [hcsM']; simp
      have : csM.length + 1 = (csM ++ [Code.LAB base]).length := by simp
      rw [this]; conv => lhs; rw [e']
      exact getElem?_mid _ _ _
    have hlabitem : ∀ l, isItem hkf (Code.LAB l) = false := by
      intro l
      cases hh : hkf (Code.LAB l) with
      | false => simp [isItem, Code.isMeta, hh]
      | true => obtain ⟨m, e⟩ := Hp.hkComment _ hh; cases e
    have hpc2 : pcOf hkf cs (csM.length + 2) = pcOf hkf cs csM.length := by
      rw [show csM.length + 2 = csM.length + 1 + 1 by omega, pcOf_noitem hg1 (hlabitem _),
        pcOf_noitem hg0 (hlabitem _)]
    refine ⟨σb, csM.length + 2, e, km, kl', lcode, kb', body, hk0.trans (hkb.trans hmC), by rw [hpc2]; exact hTol,
      X3R.keep X Cb Fb, hload, hbody, ?_, fun t ht _ => Fb.temp (isVar_posTemp ht)⟩
    refine ⟨csM ++ [Code.LAB base, Code.LAB (clauseLabel base cl.xtor)], post0 ++ restM, ?_, by simp⟩
    rw [hcsM']; simp [List.append_assoc]
  · -- through the method table
    have hgt : clauses.length > 1 := by omega
    simp only [hle, if_false, run_bind_ok, run_pure_ok, xtorPositionM_run_ok] at hrun
    obtain ⟨pos', k3, ⟨hx', rfl⟩, rfl, rfl⟩ := hrun
    rw [hx] at hx'; cases hx'
    simp only [hgt, if_true] at hcsM
    obtain ⟨prem, post, kl, kl', lcode, kb', body, hc3, hload, hbody⟩ :=
      x_codeMethods_nth hooks natRen types envCtx' clauses base pos cl _ _ _ hmrun hclause
    generalize hT : codeTable a64Backend clauses base = table at hcsM
    have htab : table[pos]? = some (.B (clauseLabel base cl.xtor)) := by
      rw [← hT]; exact x_codeTable_nth base clauses pos cl hclause
    have htlen : table.length = clauses.length := by rw [← hT]; exact x_codeTable_length base clauses
    have htins : ∀ code ∈ table, code.isMeta = false := by rw [← hT]; exact x_codeTable_instr base clauses
    generalize hsfx : prem ++ Code.LAB (clauseLabel base cl.xtor) :: (lcode ++ (body ++ post)) ++ restM = sfx
    have hcsT : cs = csM ++ (Code.LAB base :: table) ++ sfx := by
      rw [hcsM, hc3, ← hsfx]; simp [List.append_assoc]
    have hposT : pos < table.length := by omega
    -- the code
    have hje : a64Backend.addAndJump (posTemp (2 * Γa.length + TempNum.snd.toNat)) (a64Backend.jumpLength pos) =
        loadPtr (posTemp (2 * Γa.length + 1)) ++
          [Code.ADDI (ptrReg (posTemp (2 * Γa.length + 1))) (ptrReg (posTemp (2 * Γa.length + 1))) (jumpLength pos),
           Code.BR (ptrReg (posTemp (2 * Γa.length + 1)))] := addAndJump_eq _ _
    rw [hje] at hat
    generalize hc0' : hookCode a64Backend hooks (Γa ++ [b]) ++ [a64Backend.comment (invokePrint x tag args)] = c0
      at hat
    have hc0c : ∀ y ∈ c0, ∃ m', y = Code.COMMENT m' := by rw [← hc0']; exact hook_comments hooks _ _
    have hatA : XAt cs kp (c0 ++ (loadPtr (posTemp (2 * Γa.length + 1)) ++
        ([Code.ADDI (ptrReg (posTemp (2 * Γa.length + 1))) (ptrReg (posTemp (2 * Γa.length + 1))) (jumpLength pos)] ++
         [Code.BR (ptrReg (posTemp (2 * Γa.length + 1)))]))) := by
      simpa [List.append_assoc] using hat
    have hk0 := x_msteps_codes (c := c) Hp hatA.left (execCodes_comments c c0 σ hc0c) out
    have hkb := x_msteps_codes (c := c) Hp hatA.right.left hxb out
    -- the addition
    have hi12 : okImm12 (jumpLength pos) = true := by
      rw [jumpLength_eq]; unfold okImm12
      have h1 : (0 : Int) ≤ 4 * (pos : Int) := by omega
      have h2 : 4 * (pos : Int) < 4096 := by omega
      simp [h1, h2]
    have hxc : execCodes c [Code.ADDI (ptrReg (posTemp (2 * Γa.length + 1)))
        (ptrReg (posTemp (2 * Γa.length + 1))) (jumpLength pos)] σb =
        .ok (σb.setReg dreg (some (w + imm (jumpLength pos)))) := by
      rw [hpr]
      have hti : (Code.ADDI (.x r) (.x r) (jumpLength pos)).toInstr =
          some (.addi (.x dreg) (.x dreg) (jumpLength pos)) := by simp [Code.toInstr, toReg_x, hdr]
      simp [execCodes, execCode_of_toInstr _ hti, exec_addi_x c σb dreg dreg _ hi12, hregb]
    have hkc := x_msteps_codes (c := c) Hp hatA.right.right.left hxc out
    -- what the addition keeps
    have hkeep : ∀ t, t < 281 → t ≠ 2 * Γa.length + 1 →
        (σb.setReg dreg (some (w + imm (jumpLength pos)))).tempVal (posTemp t) = σ.tempVal (posTemp t) := by
      intro t ht hne
      rw [← Fb.temp (isVar_posTemp ht)]
      have hv := isVar_posTemp ht
      cases hpt : posTemp t with
      | register reg =>
        rw [hpt] at hv
        cases reg with
        | x r' =>
          obtain ⟨nt', hnt', h4, _⟩ := tempVal_var_reg (σ := σb) hv
          rw [tempVal_reg hnt', tempVal_reg hnt', setReg_reg, if_neg]
          intro e
          rcases hcase with hc1 | hc1
          · -- the jump register is the register of the closure's word temporary
            have : posTemp t = posTemp (2 * Γa.length + 1) := by
              rw [hpt, hc1]
              have : r' = r := by
                have h1 := hnt'; rw [← e] at h1
                exact xreg_inj h1 hdr
              rw [this]
            exact hne (posTemp_inj.1 this)
          · rw [hc1] at e; rw [← e] at h4; exact absurd h4 (by decide)
        | sp => simp [Temporary.isVar] at hv
        | xzr => simp [Temporary.isVar] at hv
      | spill q => rw [tempVal_spill, tempVal_spill]; rfl
    have hdefc : ((σb.setReg dreg (some (w + imm (jumpLength pos)))).tempVal (posTemp (2 * Γa.length + 1))).isSome := by
      rcases hcase with hc1 | hc1
      · rw [hc1, tempVal_reg hdr]; simp
      · -- a spill slot: untouched
        have hb0 : (σb.tempVal (posTemp (2 * Γa.length + 1))) = some w := by
          rw [Fb.temp hvar]; exact hw
        cases hpt : posTemp (2 * Γa.length + 1) with
        | register reg =>
          exfalso
          rw [hpt] at hpr hvar
          cases reg with
          | x r' =>
            obtain ⟨nt', hnt', h4, _⟩ := tempVal_var_reg (σ := σb) hvar
            simp only [ptrReg] at hpr
            injection hpr with hpr
            subst hpr
            rw [hnt'] at hdr
            injection hdr with hdr
            rw [hdr, hc1] at h4
            exact absurd h4 (by decide)
          | sp => simp [Temporary.isVar] at hvar
          | xzr => simp [Temporary.isVar] at hvar
        | spill q =>
          rw [hpt] at hb0
          rw [tempVal_spill] at hb0 ⊢
          simp only [setReg_slot, setReg_slotAddr]
          rw [hb0]; rfl
    have Cc : Core c (σb.setReg dreg (some (w + imm (jumpLength pos)))) := core_setReg Cb _ _
    have HRc : HeapRel c (σb.setReg dreg (some (w + imm (jumpLength pos)))) hs := by
      refine heapRel_of_keep (heapRel_frame0 X.hrel Fb) rfl ?_ ?_
      · rw [setReg_reg, if_neg]
        intro e
        rcases hcase with hc1 | hc1
        · rw [hc1] at hvar
          obtain ⟨nt', hnt', h4, _⟩ := tempVal_var_reg (σ := σb) hvar
          rw [hnt'] at hdr; injection hdr with hdr
          rw [hdr, e] at h4; exact absurd h4 (by decide)
        · rw [hc1] at e; exact absurd e (by decide)
      · rw [setReg_reg, if_neg]
        intro e
        rcases hcase with hc1 | hc1
        · rw [hc1] at hvar
          obtain ⟨nt', hnt', h4, _⟩ := tempVal_var_reg (σ := σb) hvar
          rw [hnt'] at hdr; injection hdr with hdr
          rw [hdr, e] at h4; exact absurd h4 (by decide)
        · rw [hc1] at e; exact absurd e (by decide)
    have Xc : X3 c (Γa ++ [b]) cfg hs ι κ (σb.setReg dreg (some (w + imm (jumpLength pos)))) out :=
      X3R.keep_cns X Cc hn1 (by rw [hgb]; exact hbchi) hkeep HRc hdefc
    -- the table of the laid-out program
    have hiL : cs[csM.length]? = some (Code.LAB base) := by
      rw [hcsT, List.append_assoc]; exact getElem?_mid _ _ _
    have htabcs : ∀ j, j < table.length → ∃ code, cs[csM.length + 1 + j]? = some code ∧ code.isMeta = false := by
      intro j hj
      refine ⟨table[j], ?_, htins _ (List.getElem_mem hj)⟩
      rw [hcsT, List.append_assoc, List.getElem?_append_right (by omega)]
      rw [show csM.length + 1 + j - csM.length = j + 1 by omega]
      simp only [List.cons_append, List.getElem?_cons_succ]
      rw [List.getElem?_append_left hj, List.getElem?_eq_getElem hj]
    have TA := tableAt_of_holdsA HA hnd c (n := table.length) (by omega) hiL htabcs hfitX
    have htpc := table_pc Hp hiL htabcs pos (by omega)
    -- the address the closure holds is the address of the table label
    obtain ⟨t0, ht0⟩ : ∃ t0, table[0]? = some t0 := ⟨table[0], List.getElem?_eq_getElem (by omega)⟩
    have hlw : labelWord Pm c (pcOf hkf cs csM.length) = addrOf c cs csM.length := by
      have hcs0 : cs = csM ++ Code.LAB base :: ([] ++ t0 :: (table.drop 1 ++ sfx)) := by
        rw [hcsT]
        have : table = t0 :: table.drop 1 := by
          cases table with
          | nil => simp at ht0
          | cons y ys => simp at ht0; subst ht0; rfl
        conv => lhs; rw [this]
        simp [List.append_assoc]
      exact (label_addr (c := c) HB hnd hcs0 (fun _ h => absurd h List.not_mem_nil)
        (htins t0 (List.mem_of_getElem? ht0))).2.2
    -- `BR` lands on the table entry
    have hgetBR : cs[kp + c0.length + (loadPtr (posTemp (2 * Γa.length + 1))).length + 1]? =
        some (Code.BR (ptrReg (posTemp (2 * Γa.length + 1)))) := by
      have := hatA.right.right.right.head
      simpa using this
    obtain ⟨iB, htiB, hitB⟩ := Hp.instr _ _ hgetBR rfl
    have eB : iB = .br (.x dreg) := by
      have : (Code.BR (ptrReg (posTemp (2 * Γa.length + 1)))).toInstr = some (.br (.x dreg)) := by
        rw [hpr]; simp [Code.toInstr, toReg_x, hdr]
      rw [this] at htiB; exact (Option.some.inj htiB).symm
    subst eB
    have hsB := step_br TA pos hposT dreg (σb.setReg dreg (some (w + imm (jumpLength pos))))
      (pcOf hkf cs (kp + c0.length + (loadPtr (posTemp (2 * Γa.length + 1))).length + 1))
      (by rw [hlw, ← hwe]; simp)
    rw [← htpc] at hsB
    have hmC : MSteps Pm c (σb.setReg dreg (some (w + imm (jumpLength pos))))
        (pcOf hkf cs (kp + c0.length + (loadPtr (posTemp (2 * Γa.length + 1))).length + 1)) out
        (σb.setReg dreg (some (w + imm (jumpLength pos)))) (pcOf hkf cs (csM.length + 1 + pos)) out :=
      .one (.next hitB hsB)
    -- the table entry branches to the method
    have hcsTe : cs[csM.length + 1 + pos]? = some (.B (clauseLabel base cl.xtor)) := by
      rw [hcsT, List.append_assoc, List.getElem?_append_right (by omega)]
      rw [show csM.length + 1 + pos - csM.length = pos + 1 by omega]
      simp only [List.cons_append, List.getElem?_cons_succ]
      rw [List.getElem?_append_left hposT]
      exact htab
    have hiC : cs[csM.length + 1 + table.length + prem.length]? = some (Code.LAB (clauseLabel base cl.xtor)) := by
      have e : cs = (csM ++ (Code.LAB base :: table) ++ prem) ++
          Code.LAB (clauseLabel base cl.xtor) :: (lcode ++ (body ++ post) ++ restM) := by
        rw [hcsT, ← hsfx]; simp [List.append_assoc]
      have hlen : (csM ++ (Code.LAB base :: table) ++ prem).length = csM.length + 1 + table.length + prem.length := by
        simp; omega
      rw [← hlen]
      conv => lhs; rw [e]
      exact getElem?_mid _ _ _
    have hmD := mstep_jump (c := c) Hp hcsTe (label_of_nodup Hp hnd hiC)
      (σb.setReg dreg (some (w + imm (jumpLength pos)))) out
    have hmE := msteps_code (c := c) Hp hiC (σ := σb.setReg dreg (some (w + imm (jumpLength pos))))
      (σ' := σb.setReg dreg (some (w + imm (jumpLength pos)))) rfl out
    have hkc' : MSteps Pm c σb (pcOf hkf cs (kp + c0.length + (loadPtr (posTemp (2 * Γa.length + 1))).length)) out
        (σb.setReg dreg (some (w + imm (jumpLength pos))))
        (pcOf hkf cs (kp + c0.length + (loadPtr (posTemp (2 * Γa.length + 1))).length + 1)) out := by
      simpa using hkc
    refine ⟨_, csM.length + 1 + table.length + prem.length + 1, _, kl, kl', lcode, kb', body,
      hk0.trans (hkb.trans (hkc'.trans (hmC.trans (hmD.trans hmE)))), Tol.refl _ _, Xc, hload, hbody, ?_, hkeep⟩
    refine ⟨csM ++ (Code.LAB base :: table) ++ prem ++ [Code.LAB (clauseLabel base cl.xtor)], post ++ restM, ?_, ?_⟩
    · rw [hcsT, ← hsfx]; simp [List.append_assoc]
    · simp; omega

include H h8 HB hnd hfitX hcsC in
/-- THREE-WAY SIMULATION OF `invoke`.  The closure facts (`hword` … `hXM`) come from the closure invariant
`XC`; the machine may end ahead of the boundary position `kp'` by `#ctx` hooks (`Tol`). -/
theorem invoke_x3 {P : Program} {hooks : Bool} {prog : AxCut.Prog} {Γa : Ctx} {b : Binding}
    {ρa : List Value} {Γc : Ctx} {ρc : List Value} {clauses : Clauses} {x tag : Ident} {ty : Ty}
    {args : Ctx} {cfg : Config} {cl : Clause} {pos : Nat}
    (R : RelX P hooks prog ⟨Γa ++ [b], ρa ++ [.clo Γc ρc clauses], .invoke x tag ty args⟩ cfg)
    (hfits : Fits P)
    (hb : b.var.id = x.id) (hfresh : ∀ b' ∈ Γa, b'.var.id ≠ x.id)
    (hpos : Pos.tagPosition prog.types ty tag = .ok pos)
    (hclause : nthClause clauses pos = some cl)
    (hlenc : ∀ d, lookupTypeDecl prog.types ty = some d → clauses.length = d.xtors.length)
    (hargs : Γa.map (·.chi) = cl.ctx.map (·.chi))
    (hkinds : ρc.map Sim2.kindOf = Mock.kindsOf Γc)
    (hcap : 2 * (cl.ctx.length + Γc.length) + 2 < Mock.T_TEMP)
    {hs : HState} {ι : Nat → Nat} {κ : Nat → Nat → Word} {σ : State} {out : List (Bool × Word)} {kp : Nat}
    (X : X3 c (Γa ++ [b]) cfg hs ι κ σ out)
    {a : Nat} {envCtx' : Ctx} {w : Word} (hkeys : envCtx'.keys = Γc.keys)
    (hword : cfg.temps.get (2 * Γa.length + 1) = some (BitVec.ofNat 64 a))
    (hmeth : MethodsAt P hooks prog.types a envCtx' clauses)
    (hw : σ.tempVal (posTemp (2 * Γa.length + 1)) = some w)
    (hXM : XMethodsAt c cs hooks prog.types w envCtx' clauses)
    {k k' : Nat} {items : List Code}
    (hrun : (codeStatementR a64Backend hooks natRen prog.types (.invoke x tag ty args) (Γa ++ [b])).run k =
      .ok (items, k'))
    (hat : XAt cs kp items)
    (hcapX : 2 * (cl.ctx.length + Γc.length) ≤ 280)
    (hpos12 : pos < 1024) :
    ∃ kk cfg' σ' hs' kp' pcR, stepsTo P kk cfg cfg' ∧ MSteps Pm c σ (pcOf hkf cs kp) out σ' pcR out ∧
      Tol Pm (pcOf hkf cs kp') pcR ∧
      FrLe hs hs' 0 ∧ cfg'.out = cfg.out ∧ cfg'.next = cfg.next ∧
      RelX P hooks prog ⟨cl.ctx ++ envCtx', ρa ++ ρc, cl.body⟩ cfg' ∧
      X3 c (cl.ctx ++ envCtx') cfg' hs' ι κ σ' out ∧
      ∃ k1 k1' items', (codeStatementR a64Backend hooks natRen prog.types cl.body (cl.ctx ++ envCtx')).run k1 =
          .ok (items', k1') ∧ XAt cs kp' items' ∧ LoadProv Γa.length envCtx' cfg cfg' κ σ σ' := by
  have Hp := HB.holdsA.holds
  have hlen : ρa.length = Γa.length := by have := R.len; simpa using this
  have hlenA : Γa.length = cl.ctx.length := by simpa using congrArg List.length hargs
  have hkenv : Mock.kindsOf envCtx' = Mock.kindsOf Γc := kinds_of_keys hkeys
  have hlenv : envCtx'.length = Γc.length := Sim2.length_of_keys hkeys
  have hkinds' : ρc.map Sim2.kindOf = Mock.kindsOf envCtx' := by rw [hkenv]; exact hkinds
  have hcap' : 2 * (Γa.length + envCtx'.length) + 2 < Mock.T_TEMP := by rw [hlenA, hlenv]; exact hcap
  -- the closure position
  have hn1 : Γa.length < (Γa ++ [b]).length := by simp
  have hn2 : Γa.length < (ρa ++ [Value.clo Γc ρc clauses]).length := by simp [hlen]
  obtain ⟨hrep, hsome, hkind, hptr⟩ := R.vals Γa.length hn1 hn2
  have g1 : (Γa ++ [b])[Γa.length] = b := by simp
  have g2 : (ρa ++ [Value.clo Γc ρc clauses])[Γa.length] = .clo Γc ρc clauses := by
    rw [List.getElem_append_right (by omega)]; simp [hlen]
  simp only [g1, g2] at hrep hkind hptr
  have hbchi : b.chi = .cns := hkind
  have hbne : b.chi ≠ .ext := by rw [hbchi]; decide
  have hbe : (b.chi == .ext) = false := (chi_beq_ext_false _).mpr hbne
  simp only [hbe, Bool.false_eq_true, if_false] at hrep
  obtain ⟨r, a'', envCtx'', hr, hB, _, _, _⟩ := hrep.clo_inv
  obtain ⟨d, hd, hx⟩ := tagPosition_ok hpos
  -- both machines up to the `load` of the method
  obtain ⟨k4, cfg4, hst4, h4heap, h4next, h4out, h4temps, hloadM, hcode⟩ :=
    invoke_nav_abs R hfits hb hfresh hpos hclause hlenc hlenA hword hmeth
  obtain ⟨σ4, kp4, pcR, kl, kl', lcode, kb', body, hn4, T4, X4, hload, hbody, hat4, hmk4⟩ :=
    invoke_nav_a64 H HB hnd hfitX hcsC X hb hfresh hbchi hd hx hclause (hlenc d hd) hw hXM hpos12 hrun hat
  have X4' : X3 c (cl.ctx ++ [b]) cfg hs ι κ σ4 out := X4.ctxCongr (by simp [hargs])
  obtain ⟨cfg', hstep, hout', hnext', R'⟩ := load_enter (Γ'' := cl.ctx) (Δ := envCtx') (s' := cl.body)
    (cfg4 := cfg4) R hargs hbne hr hB hkinds' hcap' h4heap h4next h4out h4temps hloadM hcode
  have hcapX' : 2 * (Γa.length + envCtx'.length) ≤ 280 := by rw [hlenA, hlenv]; exact hcapX
  have hcapXa := X.cap
  simp only [List.length_append, List.length_singleton] at hcapXa
  cases hctx : envCtx' with
  | nil =>
    -- no environment: nothing is loaded, no code
    have hf0 : ρc = [] := by
      have := congrArg List.length hkinds'
      rw [hctx] at this
      simpa [Mock.kindsOf] using this
    subst hf0
    have hr0 : r = 0 := by cases hB; rfl
    subst hr0
    rw [hctx] at hloadM hload
    have hA := step_load_empty P cfg4 _ hloadM
    rw [hstep] at hA
    injection hA with hA
    have hl0 : lcode = [] := by
      have : (load [] cl.ctx).run kl = .ok ([], kl) := rfl
      rw [this] at hload
      injection hload with hload
      injection hload with e1 _
      exact e1.symm
    subst hl0
    rw [hctx] at hbody R'
    rw [List.nil_append] at hat4
    have hlow : ∀ t, t < 2 * (Γa.length + 1) → cfg'.temps.get t = cfg.temps.get t := by
      intro t ht
      rw [hA]
      simp only
      rw [get_clobberTemp _ (by unfold Mock.T_TEMP; omega), h4temps t ht]
    refine ⟨k4 + 1, cfg', σ4, hs, kp4, pcR, stepsTo_trans P _ _ _ _ _ hst4 (stepsTo_one P _ _ hstep), hn4, T4,
      Scc.Heap.Refine.FrLe.refl hs, hout', hnext', R', ?_, kl', kb', body, hbody, hat4, ?_⟩
    · rw [List.append_nil]
      refine ⟨X4'.core, by omega, ?_, ?_, by rw [X4'.out, hA]; exact h4out.symm, X4'.hrel, ?_⟩
      · intro i hi a0 ha
        rw [hlow _ (by omega)] at ha
        have := X4'.words i (by simp; omega) a0 ha
        rw [List.getElem_append_left hi] at this
        exact this
      · intro i hi hc r' hr'
        rw [hlow _ (by omega)] at hr'
        exact X4'.ptrs i (by simp; omega) (by rw [List.getElem_append_left hi]; exact hc) r' hr'
      · have e1 : cfg'.heap = cfg.heap := by rw [hA]; exact h4heap
        have e2 : cfg'.next = cfg.next := by rw [hA]; exact h4next
        have e3 : roots (cl.ctx ++ [b]) cfg.temps = roots cl.ctx cfg'.temps := by
          rw [roots_snoc]
          have : Sim2.rootOf cfg.temps b cl.ctx.length = [] := by
            unfold Sim2.rootOf; rw [← hlenA, hr]; simp
          rw [this, List.append_nil]
          exact (roots_congr _ _ _ (fun i hi => hlow (2 * i) (by omega))).symm
        rw [e1, e2, ← e3]
        exact X4'.href
    · refine ⟨⟨fun t ht => hlow t (by omega), fun i hi => hmk4 _ (by omega) (by omega)⟩, Or.inl ⟨rfl, ?_⟩⟩
      rw [hA]; exact h4heap
  | cons b0 Δ =>
    rw [hctx] at hkinds'
    cases hB with
    | empty => simp [Mock.kindsOf] at hkinds'
    | block v vs _ o hr0 hg hF =>
      have hk : o.fields.map (·.chi) = Mock.kindsOf envCtx' := by
        rw [RepF.kinds hF, hctx]; exact hkinds'
      have hne : o.fields ≠ [] := by
        intro e
        rw [e, hctx] at hk
        simp [Mock.kindsOf] at hk
      have hr' : cfg.temps.get (2 * cl.ctx.length) = some r := by rw [← hlenA]; exact hr
      have hr4 : cfg4.temps.get (2 * Γa.length) = some r := by rw [h4temps _ (by omega)]; exact hr
      have hg4 : cfg4.heap.get r.toNat = some o := by rw [h4heap]; exact hg
      have hk4 : o.fields.map (·.chi) = b0.chi :: Mock.kindsOf Δ := by rw [hk, hctx]; rfl
      have hloadM' : P.code[cfg4.pc]? = some (.load (b0.chi :: Mock.kindsOf Δ) Γa.length) := by
        rw [hloadM, hctx]; rfl
      -- the abstract step, explicitly
      have hexp : ∃ h', loadAbs cfg.heap r.toNat o = .ok h' ∧ cfg' =
          { cfg4 with pc := cfg4.pc + 1, temps := writeFields (clobberTemp cfg4.temps) o.fields Γa.length, heap := h' } := by
        by_cases hc0 : o.count = 0
        · have hA := step_load_unique P cfg4 _ _ _ r o hloadM' hr4 hr0 hg4 hk4 hc0
          rw [hstep] at hA
          injection hA with hA
          refine ⟨cfg.heap.remove r.toNat, ?_, by rw [hA, h4heap]⟩
          unfold loadAbs
          simp [hc0]
        · cases hsh : (cfg4.heap.set r.toNat { o with count := o.count - 1 }).shareAll o.children with
          | error e =>
            exfalso
            have h1 : (r == 0) = false := by rw [beq_eq_false_iff_ne]; exact hr0
            have h2 : (o.fields.map (·.chi) != b0.chi :: Mock.kindsOf Δ) = false := by rw [hk4]; exact kinds_bne_self _
            have h3 : (o.count == 0) = false := by rw [beq_eq_false_iff_ne]; exact hc0
            simp only [Abs.step, hloadM', getT, hr4, h1, hg4, h2, h3, hsh, Bool.false_eq_true, if_false,
              stuck] at hstep
            cases hstep
          | ok h' =>
            have hA := step_load_shared P cfg4 _ _ _ r o h' hloadM' hr4 hr0 hg4 hk4 hc0 hsh
            rw [hstep] at hA
            injection hA with hA
            refine ⟨h', ?_, hA⟩
            unfold loadAbs
            have : (o.count == 0) = false := by rw [beq_eq_false_iff_ne]; exact hc0
            rw [if_neg (by rw [this]; simp), ← h4heap]
            exact hsh
      obtain ⟨h', hlo, hcfg'⟩ := hexp
      rw [hlenA] at hcfg' h4temps hcapX'
      obtain ⟨code, kk', hrunL, _, _, σ5, hs', hx5, X5, hfrL, hkeep5, hval5⟩ :=
        load_x3 H h8 X4' hbne hr' hr0 hg hk hne hcapX' h4next h4out h4temps hlo hcfg' kl
      have hcode' : code = lcode := by
        rw [hload] at hrunL
        injection hrunL with hrunL
        injection hrunL with e1 _
        exact e1.symm
      subst hcode'
      have hn5 := x_msteps_fwd Hp hnd hat4.left hx5 out
      have hLP : LoadProv Γa.length envCtx' cfg cfg' κ σ σ5 := by
        refine ⟨⟨fun t ht => ?_, fun i hi => ?_⟩, Or.inr ⟨r, o, hr, hr0, hg, hk, fun j hj => ⟨?_, ?_, ?_⟩⟩⟩
        · rw [hcfg']
          simp only
          rw [writeFields_get_low _ _ _ _ (by omega), get_clobberTemp _ (by unfold Mock.T_TEMP; omega),
            h4temps t (by omega)]
        · rw [hkeep5 _ (by omega), hmk4 _ (by omega) (by omega)]
        · rw [hcfg', hlenA]; exact writeFields_get_val _ _ _ _ hj
        · rw [hcfg', hlenA]; exact writeFields_get_ptr _ _ _ _ hj
        · rw [hlenA]; exact hval5 j hj
      rw [← hctx]
      rcases tol_run hn5 T4 with hm5 | ⟨e1, _, T5⟩
      · exact ⟨k4 + 1, cfg', σ5, hs', _, _, stepsTo_trans P _ _ _ _ _ hst4 (stepsTo_one P _ _ hstep),
          hn4.trans hm5, Tol.refl _ _, hfrL, hout', hnext', R', X5, kl', kb', body,
          hbody, hat4.right, hLP⟩
      · subst e1
        exact ⟨k4 + 1, cfg', σ5, hs', _, pcR, stepsTo_trans P _ _ _ _ _ hst4 (stepsTo_one P _ _ hstep),
          hn4, T5, hfrL, hout', hnext', R', X5, kl', kb', body, hbody, hat4.right, hLP⟩

end Invoke3

end Scc.A64.Ref.K
