/-
  Scc.A64.MemProofsLoad — first part of the contract of `load` (memory.rs of axcut2aarch64):
  release_block, load_field, load_value(s), and the per-block part of load_fields (release the block /
  load the link / load the values) against `Scc.Heap.loadValue(s)` / `releaseBlock`, in release and in
  share mode, for every placement of the loaded variables; on the view.
-/
import Scc.A64.MemProofsStoreFields

set_option linter.unusedSimpArgs false
set_option linter.unusedVariables false

namespace Scc.A64

open Scc.AxCut
open Scc.Backend (GenM TempNum freshLabel)

/-! ## load_field, share_block -/

/-- memory.rs load_field for the temporary `t`: shape of the code, both placements at once -/
def loadFieldCode (t : Temporary) (mbr : Register) (fo : Int) : List Code :=
  match t with
  | .register r => [.LDR r mbr fo]
  | .spill p => [.LDR TEMP mbr fo, .STR TEMP .sp (stackOffset p)]

theorem loadField_run (num : TempNum) (ctx : Ctx) (mbr : Register) (off k : Nat)
    (h : 2 * ctx.length + num.toNat < 281) :
    (loadField num ctx mbr off).run k =
      .ok (loadFieldCode (posTemp (2 * ctx.length + num.toNat)) mbr (fieldOffset num.toNat off), k) := by
  unfold loadField
  rw [genm_bind (freshTemporary_run k h)]
  cases posTemp (2 * ctx.length + num.toNat) <;> rfl

theorem noLab_loadFieldCode (t : Temporary) (mbr : Register) (fo : Int) : NoLab (loadFieldCode t mbr fo) := by
  intro l; cases t <;> simp [loadFieldCode]

theorem ptrReg_spec {t : Temporary} (ht : t.isVar) : ∃ r, ptrReg t = .x r ∧ r < 30 ∧ 2 ≤ r ∧ r ≠ 3 := by
  cases t with
  | register reg =>
    cases reg with
    | x r =>
      obtain ⟨h1, h2⟩ := isVar_reg ht
      rw [RESERVED_eq] at h1
      exact ⟨r, rfl, h2, by omega, by omega⟩
    | sp => simp [Temporary.isVar] at ht
    | xzr => simp [Temporary.isVar] at ht
  | spill p => exact ⟨2, rfl, by decide, by decide, by decide⟩

section Prim
variable {c : MemCfg} {μ : MState} {h h' : Scc.Heap.HState}

theorem HRelM.of_frame {μ' : MState} (H : HRelM c μ h) (hh : μ'.heap = μ.heap)
    (h1 : μ'.val (.register (.x 0)) = μ.val (.register (.x 0)))
    (h2 : μ'.val (.register (.x 1)) = μ.val (.register (.x 1))) : HRelM c μ' h := by
  obtain ⟨wh, hwh, ewh⟩ := H.heap
  obtain ⟨wf, hwf, ewf⟩ := H.free
  exact ⟨H.base, H.limit, fun a => by rw [hh]; exact H.mem a, ⟨wh, by rw [h1]; exact hwh, ewh⟩,
    ⟨wf, by rw [h2]; exact hwf, ewf⟩⟩

/-- `t := [mbr + off]` (through TEMP for a spilled `t`) is the model's `rd` -/
theorem m_loadFieldCode (C : HeapCfgOK c) (H : HRelM c μ h) {t : Temporary} (ht : t.isVar)
    {mbr : Nat} (hb : mbr < 30) {b : Word} (hvb : μ.val (.register (.x mbr)) = some b)
    {off : Nat} (ho : off ≤ 32760) (ho8 : off % 8 = 0) {v : Nat}
    (hrd : Scc.Heap.rd h (b.toNat + off) = .ok v) :
    ∃ μ' w, mFwd c (loadFieldCode t (.x mbr) (off : Int)) μ = some (μ', .next) ∧ w.toNat = v ∧
      μ'.val t = some w ∧ μ'.val (.register (ptrReg t)) = some w ∧ μ'.heap = μ.heap ∧ μ'.flags = μ.flags ∧
      (∀ u, u ≠ t → u ≠ .register (.x 2) → μ'.val u = μ.val u) := by
  obtain ⟨hok, hv⟩ := rd_eq_ok.1 hrd
  have ha := haddr_ok C H ho ho8 hok
  have hm : maddr c μ (.x mbr) (off : Int) = some (b.toNat + off) := by rw [maddr_eq hb hvb, ha]
  cases t with
  | register reg =>
    cases reg with
    | x r =>
      obtain ⟨_, h2⟩ := isVar_reg ht
      refine ⟨μ.setT (.register (.x r)) (some (μ.heap (b.toNat + off))), μ.heap (b.toNat + off), ?_,
        by rw [hv, H.mem], by simp, by simp [ptrReg], rfl, rfl, fun u hu _ => by simp [hu]⟩
      exact mFwd_step c (mexecC_LDRh c h2 hm) (mFwd_nil c _)
    | sp => simp [Temporary.isVar] at ht
    | xzr => simp [Temporary.isVar] at ht
  | spill p =>
    obtain ⟨_, h2⟩ := isVar_spill ht
    refine ⟨(μ.setT (.register (.x 2)) (some (μ.heap (b.toNat + off)))).setT (.spill p)
        (some (μ.heap (b.toNat + off))), μ.heap (b.toNat + off), ?_, by rw [hv, H.mem], by simp,
      by simp [ptrReg, TEMP_eq], rfl, rfl, fun u hu hT => by simp [hu, hT]⟩
    have e2 := mexecC_STRs c (μ := μ.setT (.register (.x 2)) (some (μ.heap (b.toNat + off))))
      (by decide : 2 < 30) h2
    have hv2 : (μ.setT (.register (.x 2)) (some (μ.heap (b.toNat + off)))).val (.register (.x 2)) =
        some (μ.heap (b.toNat + off)) := by simp
    rw [hv2] at e2
    exact mFwd_step c (mexecC_LDRh c (by decide) hm) (mFwd_step c e2 (mFwd_nil c _))

theorem shareBlock_reg_run (r : Register) (k : Nat) :
    (shareBlock (.register r)).run k = .ok (shareCode r 1 (labName (k + 1)), k + 1) := rfl

theorem labsIn_shareCode (r : Register) (n k : Nat) : LabsIn (shareCode r n (labName (k + 1))) k (k + 1) := by
  intro l hl
  simp only [shareCode, List.mem_cons, List.mem_append, reduceCtorEq, false_or, or_false,
    Code.LAB.injEq, List.not_mem_nil] at hl
  exact ⟨k + 1, hl, by omega, by omega⟩

/-- `share_block` on the view, pointer in ANY register but TEMP2: one more reference -/
theorem m_share1 (C : HeapCfgOK c) (H : HRelM c μ h) {r : Nat} (hr : r < 30) (hr3 : r ≠ 3) {p : Word}
    (hv : μ.val (.register (.x r)) = some p) (hop : Scc.Heap.shareBlock h p.toNat 1 = .ok h')
    (hno : p ≠ 0 → h.mem.get p.toNat + 1 < 2 ^ 64) (l : String) :
    ∃ μ', mFwd c (shareCode (.x r) 1 l) μ = some (μ', .next) ∧ HRelM c μ' h' ∧
      (∀ u, u ≠ .register (.x 3) → μ'.val u = μ.val u) := by
  exact m_share C H hr hr3 hv (by decide) hop hno l

end Prim

/-! ## load_value -/

/-- memory.rs LoadMode ↦ the model's -/
def modeMap : LoadMode → Scc.Heap.LoadMode
  | .release => .release
  | .share => .share

/-- the model's kind of a variable: `true` = it has a pointer part (not `ext`) -/
def kindOf (b : Binding) : Bool := b.chi != .ext

section Value
variable {c : MemCfg} {μ : MState} {h h' : Scc.Heap.HState}

theorem posTemp_odd_ne {n mbr : Nat} (hme : mbr % 2 = 0) : posTemp (2 * n + 1) ≠ .register (.x mbr) := by
  unfold posTemp
  split
  · intro e
    have : 2 * n + 1 + 4 = mbr := by simpa using e
    omega
  · intro e; cases e

/-- CONTRACT of `load_value`: field `off` of the block in register `X(mbr)` (an even logical register
≥ 4: the memory-block temporary of a context position, or TEMPORARY_TEMP) is loaded into the
temporaries of the variable `b` at position `|ctx|`; in share mode a pointer child gets one more
reference.  The first temporary of `b` may be `mbr` itself (then this is the last access to the
block). -/
theorem m_loadValue (C : HeapCfgOK c) (H : HRelM c μ h) {b : Binding} {ctx : Ctx}
    (hcap : 2 * ctx.length + 1 < 281) {mbr : Nat} (hm1 : 4 ≤ mbr) (hm2 : mbr < 30) (hme : mbr % 2 = 0)
    {bw : Word} (hvb : μ.val (.register (.x mbr)) = some bw) {off : Nat} (ho : off ≤ 1000) {mode : LoadMode}
    {v : Scc.Heap.Field} (hop : Scc.Heap.loadValue h (kindOf b) bw.toNat off (modeMap mode) = .ok (h', v))
    (hno : mode = .share → ∀ a, h'.mem.get a < 2 ^ 64) (k : Nat) :
    ∃ code k', (loadValue b ctx (.x mbr) off mode).run k = .ok (code, k') ∧ k ≤ k' ∧ LabsIn code k k' ∧
      ∃ μ', mFwd c code μ = some (μ', .next) ∧ HRelM c μ' h' ∧ FieldAt μ' ctx.length b v ∧
        (∀ u, u ≠ .register (.x 2) → u ≠ .register (.x 3) → u ≠ posTemp (2 * ctx.length) →
          u ≠ posTemp (2 * ctx.length + 1) → μ'.val u = μ.val u) := by
  obtain ⟨hs1, hs2⟩ := heapFieldOffset_bounds 1 off (by omega) ho
  obtain ⟨hf1, hf2⟩ := heapFieldOffset_bounds 0 off (by omega) ho
  have hcap0 : 2 * ctx.length < 281 := by omega
  have hmT : Temporary.register (.x mbr) ≠ .register (.x 2) := reg_ne (by omega)
  have hmS : Temporary.register (.x mbr) ≠ posTemp (2 * ctx.length + 1) := fun e => posTemp_odd_ne hme e.symm
  obtain ⟨s0, s1, s2, s3⟩ := posTemp_ne_low hcap
  obtain ⟨f0, f1, f2, f3⟩ := posTemp_ne_low hcap0
  have hsf : posTemp (2 * ctx.length + 1) ≠ posTemp (2 * ctx.length) := fun e => by
    have := posTemp_inj.1 e; omega
  unfold loadValue
  rw [genm_bind (loadField_run .snd ctx (.x mbr) off k (by simpa [TempNum.toNat] using hcap))]
  simp only [Scc.Heap.loadValue] at hop
  cases hr1 : Scc.Heap.rd h (bw.toNat + Scc.Heap.sndOff off) with
  | error e => simp [hr1] at hop
  | ok wv =>
    simp only [hr1] at hop
    obtain ⟨μ1, w, x1, ew, v1, _, hp1, _, F1⟩ := m_loadFieldCode C H (isVar_posTemp hcap) hm2 hvb
      (off := Scc.Heap.sndOff off) hs1 hs2 hr1
    have H1 : HRelM c μ1 h := H.of_frame hp1 (F1 _ (Ne.symm s0) (by simp)) (F1 _ (Ne.symm s1) (by simp))
    simp only [TempNum.toNat]
    rw [fieldOffset_snd]
    by_cases hχ : (b.chi == .ext) = true
    · -- an integer
      have hk : kindOf b = false := by simp [kindOf, bne, hχ]
      have hne : (b.chi != .ext) = false := hk
      simp only [hk, Bool.false_eq_true, if_false, Except.ok.injEq, Prod.mk.injEq] at hop
      obtain ⟨rfl, rfl⟩ := hop
      simp only [hne, Bool.false_eq_true, if_false]
      refine ⟨_, k, genm_pure _ k, Nat.le_refl _, (noLab_loadFieldCode _ _ _).labsIn _ _, μ1, x1, H1, ?_,
        fun u hT _ _ hs => F1 u hs hT⟩
      unfold FieldAt
      rw [if_pos hχ]
      exact ⟨w, by rw [ew], v1⟩
    · -- a pointer and a word
      have hk : kindOf b = true := by
        simp only [kindOf, bne]
        cases hb : (b.chi == .ext)
        · rfl
        · exact absurd hb hχ
      have hne : (b.chi != .ext) = true := hk
      simp only [hk, if_true] at hop
      simp only [hne, if_true]
      rw [genm_bind (loadField_run .fst ctx (.x mbr) off k (by simp [TempNum.toNat]; omega))]
      rw [genm_bind (freshTemporary_run k (by simp [TempNum.toNat]; omega))]
      simp only [TempNum.toNat, Nat.add_zero]
      rw [fieldOffset_fst]
      suffices hS : ∃ code k', StateT.run (
          if (mode == LoadMode.share) = true then
            (shareBlock (.register (ptrReg (posTemp (2 * ctx.length)))) >>= fun c3 =>
              pure (loadFieldCode (posTemp (2 * ctx.length + 1)) (.x mbr) ↑(Scc.Heap.sndOff off) ++
                loadFieldCode (posTemp (2 * ctx.length)) (.x mbr) ↑(Scc.Heap.fstOff off) ++ c3) :
              GenM (List Code))
          else pure (loadFieldCode (posTemp (2 * ctx.length + 1)) (.x mbr) ↑(Scc.Heap.sndOff off) ++
                loadFieldCode (posTemp (2 * ctx.length)) (.x mbr) ↑(Scc.Heap.fstOff off))) k =
            .ok (code, k') ∧ k ≤ k' ∧ LabsIn code k k' ∧
          ∃ μ', mFwd c code μ = some (μ', .next) ∧ HRelM c μ' h' ∧ FieldAt μ' ctx.length b v ∧
            (∀ u, u ≠ .register (.x 2) → u ≠ .register (.x 3) → u ≠ posTemp (2 * ctx.length) →
              u ≠ posTemp (2 * ctx.length + 1) → μ'.val u = μ.val u) by
        revert hS
        cases posTemp (2 * ctx.length) <;> exact id
      cases hr2 : Scc.Heap.rd h (bw.toNat + Scc.Heap.fstOff off) with
      | error e => simp [hr2] at hop
      | ok pv =>
        simp only [hr2] at hop
        have hvb1 : μ1.val (.register (.x mbr)) = some bw := by rw [F1 _ hmS hmT]; exact hvb
        obtain ⟨μ2, p, x2, ep, v2, v2j, hp2, _, F2⟩ :=
          m_loadFieldCode C H1 (isVar_posTemp hcap0) hm2 hvb1 (off := Scc.Heap.fstOff off) hf1 hf2 hr2
        have H2 : HRelM c μ2 h := H1.of_frame hp2 (F2 _ (Ne.symm f0) (by simp)) (F2 _ (Ne.symm f1) (by simp))
        have v2s : μ2.val (posTemp (2 * ctx.length + 1)) = some w := by rw [F2 _ hsf s2]; exact v1
        have hfr2 : ∀ u, u ≠ .register (.x 2) → u ≠ posTemp (2 * ctx.length) →
            u ≠ posTemp (2 * ctx.length + 1) → μ2.val u = μ.val u :=
          fun u hT hf hs => by rw [F2 u hf hT, F1 u hs hT]
        have hFA : ∀ μ' : MState, μ'.val (posTemp (2 * ctx.length)) = μ2.val (posTemp (2 * ctx.length)) →
            μ'.val (posTemp (2 * ctx.length + 1)) = μ2.val (posTemp (2 * ctx.length + 1)) →
            FieldAt μ' ctx.length b (.ptr pv wv) := by
          intro μ' e0 e1
          unfold FieldAt
          rw [if_neg hχ, e0, e1]
          exact ⟨p, w, by rw [ep, ew], v2, v2s⟩
        obtain ⟨j, hj, j30, j2, j3⟩ := ptrReg_spec (isVar_posTemp hcap0)
        cases mode with
        | release =>
          simp only [modeMap, Except.ok.injEq, Prod.mk.injEq] at hop
          obtain ⟨rfl, rfl⟩ := hop
          simp only [show (LoadMode.release == LoadMode.share) = false from rfl, Bool.false_eq_true, if_false]
          exact ⟨_, k, genm_pure _ k, Nat.le_refl _,
            ((noLab_loadFieldCode _ _ _).append (noLab_loadFieldCode _ _ _)).labsIn _ _, μ2,
            mFwd_seq c x1 x2, H2, hFA μ2 rfl rfl, fun u hT _ hf hs => hfr2 u hT hf hs⟩
        | share =>
          simp only [modeMap] at hop
          cases hsh : Scc.Heap.shareBlock h pv 1 with
          | error e => simp [hsh] at hop
          | ok s1' =>
            simp only [hsh, Except.ok.injEq, Prod.mk.injEq] at hop
            obtain ⟨rfl, rfl⟩ := hop
            simp only [beq_self_eq_true, if_true]
            rw [genm_bind (shareBlock_reg_run _ k)]
            rw [← ep] at hsh
            have hno' : p ≠ 0 → h.mem.get p.toNat + 1 < 2 ^ 64 := by
              intro hp
              have hp' : p.toNat ≠ 0 := fun e => hp (BitVec.eq_of_toNat_eq (by simpa using e))
              have hb := hno rfl p.toNat
              unfold Scc.Heap.shareBlock at hsh
              rw [if_neg hp'] at hsh
              cases hrd : Scc.Heap.rd h p.toNat with
              | error f => simp [hrd] at hsh
              | ok cnt =>
                simp only [hrd] at hsh
                obtain ⟨_, hc⟩ := rd_eq_ok.1 hrd
                obtain ⟨_, rfl⟩ := wr_eq_ok.1 hsh
                simp only [Scc.Heap.Mem.get_set, if_true] at hb
                omega
            rw [hj] at v2j ⊢
            obtain ⟨μ3, x3, H3, F3⟩ := m_share1 C H2 j30 j3 v2j hsh hno' (labName (k + 1))
            refine ⟨_, k + 1, genm_pure _ _, by omega, ?_, μ3, mFwd_seq c (mFwd_seq c x1 x2) x3, H3,
              hFA μ3 (F3 _ (Ne.symm f3).symm) (F3 _ (Ne.symm s3).symm),
              fun u hT hT2 hf hs => by rw [F3 u hT2]; exact hfr2 u hT hf hs⟩
            exact (((noLab_loadFieldCode _ _ _).append (noLab_loadFieldCode _ _ _)).labsIn _ _).append
              (labsIn_shareCode _ _ k)

end Value

/-! ## load_values -/

/-- in share mode the model only increments words -/
theorem shareBlock_mono {s s' : Scc.Heap.HState} {p n : Nat} (h : Scc.Heap.shareBlock s p n = .ok s') :
    ∀ a, s.mem.get a ≤ s'.mem.get a := by
  intro a
  unfold Scc.Heap.shareBlock at h
  split at h
  · cases h; exact Nat.le_refl _
  · cases hrd : Scc.Heap.rd s p with
    | error f => simp [hrd] at h
    | ok cnt =>
      simp only [hrd] at h
      obtain ⟨_, hc⟩ := rd_eq_ok.1 hrd
      obtain ⟨_, rfl⟩ := wr_eq_ok.1 h
      simp only [Scc.Heap.Mem.get_set]
      split
      · rename_i e; subst e; omega
      · exact Nat.le_refl _

theorem loadValue_mono {s s' : Scc.Heap.HState} {kd : Bool} {blk off : Nat} {v : Scc.Heap.Field}
    (h : Scc.Heap.loadValue s kd blk off .share = .ok (s', v)) : ∀ a, s.mem.get a ≤ s'.mem.get a := by
  simp only [Scc.Heap.loadValue] at h
  cases hr1 : Scc.Heap.rd s (blk + Scc.Heap.sndOff off) with
  | error e => simp [hr1] at h
  | ok w =>
    simp only [hr1] at h
    cases kd with
    | false =>
      simp only [Bool.false_eq_true, if_false, Except.ok.injEq, Prod.mk.injEq] at h
      obtain ⟨rfl, _⟩ := h
      exact fun _ => Nat.le_refl _
    | true =>
      simp only [if_true] at h
      cases hr2 : Scc.Heap.rd s (blk + Scc.Heap.fstOff off) with
      | error e => simp [hr2] at h
      | ok p =>
        simp only [hr2] at h
        cases hsh : Scc.Heap.shareBlock s p 1 with
        | error e => simp [hsh] at h
        | ok s1 =>
          simp only [hsh, Except.ok.injEq, Prod.mk.injEq] at h
          obtain ⟨rfl, _⟩ := h
          exact shareBlock_mono hsh

theorem loadValuesRev_mono {blk : Nat} : ∀ (ks : List Bool) (ff : Nat) (acc : List Scc.Heap.Field)
    (s s' : Scc.Heap.HState) (vs : List Scc.Heap.Field),
    Scc.Heap.loadValuesRev s blk .share ks ff acc = .ok (s', vs) → ∀ a, s.mem.get a ≤ s'.mem.get a := by
  intro ks
  induction ks with
  | nil =>
    intro ff acc s s' vs h
    simp only [Scc.Heap.loadValuesRev, Except.ok.injEq, Prod.mk.injEq] at h
    obtain ⟨rfl, _⟩ := h
    exact fun _ => Nat.le_refl _
  | cons kd rest ih =>
    intro ff acc s s' vs h
    cases ff with
    | zero => simp [Scc.Heap.loadValuesRev] at h
    | succ ff =>
      simp only [Scc.Heap.loadValuesRev] at h
      cases hlv : Scc.Heap.loadValue s kd blk ff .share with
      | error e => simp [hlv] at h
      | ok r =>
        obtain ⟨s1, v⟩ := r
        simp only [hlv] at h
        exact fun a => Nat.le_trans (loadValue_mono hlv a) (ih ff (v :: acc) s1 s' vs h a)

theorem loadValues_mono {s s' : Scc.Heap.HState} {ks : List Bool} {blk ff : Nat} {vs : List Scc.Heap.Field}
    (h : Scc.Heap.loadValues s ks blk ff .share = .ok (s', vs)) : ∀ a, s.mem.get a ≤ s'.mem.get a :=
  loadValuesRev_mono _ _ _ _ _ _ h

section Values
variable {c : MemCfg}

/-- the `pop` loop of `load_values`, on the reversed list -/
theorem m_loadValuesLoop (C : HeapCfgOK c) {existing : Ctx} {mbr : Nat} (hm1 : 4 ≤ mbr) (hm2 : mbr < 30)
    (hme : mbr % 2 = 0) {bw : Word} {mode : LoadMode}
    (hmb : ∀ j, 1 ≤ j → posTemp (2 * (existing.length + j)) ≠ .register (.x mbr)) :
    ∀ (bsRev : List Binding) (ff : Nat) (acc : List Scc.Heap.Field) (μ : MState) (h h' : Scc.Heap.HState)
      (vs : List Scc.Heap.Field) (k : Nat), HRelM c μ h →
      (bsRev ≠ [] → μ.val (.register (.x mbr)) = some bw) →
    2 * (existing.length + bsRev.length) ≤ 280 → ff ≤ 1000 →
    Scc.Heap.loadValuesRev h bw.toNat (modeMap mode) (bsRev.map kindOf) ff acc = .ok (h', vs) →
    (mode = .share → ∀ a, h'.mem.get a < 2 ^ 64) →
    ∃ code k', (loadValuesLoop existing (.x mbr) mode bsRev ff).run k = .ok (code, k') ∧ k ≤ k' ∧
      LabsIn code k k' ∧
      ∃ μ' valsRev, mFwd c code μ = some (μ', .next) ∧ HRelM c μ' h' ∧ vs = valsRev.reverse ++ acc ∧
        EnvFieldsRev μ' existing.length bsRev valsRev ∧
        (∀ u, u ≠ .register (.x 2) → u ≠ .register (.x 3) →
          (∀ m, 2 * existing.length ≤ m → m < 2 * (existing.length + bsRev.length) → u ≠ posTemp m) →
          μ'.val u = μ.val u) := by
  intro bsRev
  induction bsRev with
  | nil =>
    intro ff acc μ h h' vs k H _ _ _ hop _
    simp only [List.map_nil, Scc.Heap.loadValuesRev, Except.ok.injEq, Prod.mk.injEq] at hop
    obtain ⟨rfl, rfl⟩ := hop
    exact ⟨[], k, rfl, Nat.le_refl _, LabsIn.nil _ _, μ, [], mFwd_nil c μ, H, rfl, trivial,
      fun _ _ _ _ => rfl⟩
  | cons b rest ih =>
    intro ff acc μ h h' vs k H hvb hcap hff hop hno
    simp only [List.length_cons] at hcap
    cases ff with
    | zero => simp [Scc.Heap.loadValuesRev] at hop
    | succ ff =>
      simp only [List.map_cons, Scc.Heap.loadValuesRev] at hop
      cases hlv : Scc.Heap.loadValue h (kindOf b) bw.toNat ff (modeMap mode) with
      | error e => simp [hlv] at hop
      | ok r =>
        obtain ⟨s1, v⟩ := r
        simp only [hlv] at hop
        have hlen : (existing ++ rest.reverse).length = existing.length + rest.length := by simp
        have hno1 : mode = .share → ∀ a, s1.mem.get a < 2 ^ 64 := by
          intro hm a
          subst hm
          exact Nat.lt_of_le_of_lt (loadValuesRev_mono _ _ _ _ _ _ hop a) (hno rfl a)
        obtain ⟨c1, k1, hr1, hk1, hl1, μ1, x1, H1, hFA, F1⟩ := m_loadValue C H (b := b)
          (ctx := existing ++ rest.reverse) (by rw [hlen]; omega) hm1 hm2 hme (hvb (by simp)) (by omega) hlv hno1 k
        rw [hlen] at hFA F1
        have hvb1 : rest ≠ [] → μ1.val (.register (.x mbr)) = some bw := by
          intro hr
          have hpos : 1 ≤ rest.length := List.length_pos_iff.mpr hr
          rw [F1 _ (reg_ne (by omega)) (reg_ne (by omega))
            (Ne.symm (hmb _ hpos)) (fun e => posTemp_odd_ne hme e.symm)]
          exact hvb (by simp)
        obtain ⟨c2, k2, hr2, hk2, hl2, μ2, valsRev, x2, H2, hvs, hE2, F2⟩ :=
          ih ff (v :: acc) μ1 s1 h' vs k1 H1 hvb1 (by omega) (by omega) hop hno
        refine ⟨c1 ++ c2, k2, ?_, by omega, (hl1.mono (Nat.le_refl _) hk2).append (hl2.mono hk1 (Nat.le_refl _)),
          μ2, v :: valsRev, mFwd_seq c x1 x2, H2, ?_, ⟨?_, hE2⟩, ?_⟩
        · simp only [loadValuesLoop, Nat.add_one_ne_zero, if_false, Nat.add_sub_cancel]
          rw [genm_bind hr1, genm_bind hr2]
          rfl
        · rw [hvs]; simp
        · refine hFA.congr ?_ ?_
          · exact F2 _ (posTemp_ne_low (by omega)).2.2.1 (posTemp_ne_low (by omega)).2.2.2
              (fun m _ h2 e => by have := posTemp_inj.1 e; omega)
          · exact F2 _ (posTemp_ne_low (by omega)).2.2.1 (posTemp_ne_low (by omega)).2.2.2
              (fun m _ h2 e => by have := posTemp_inj.1 e; omega)
        · intro u hT hT2 hu
          simp only [List.length_cons] at hu
          rw [F2 u hT hT2 (fun m h1 h2 => hu m h1 (by omega)),
            F1 u hT hT2 (hu _ (by omega) (by omega)) (hu _ (by omega) (by omega))]

end Values

/-! ## load_values, the block part of load_fields -/

theorem envFields_of_rev_aux {μ : MState} (base : Nat) : ∀ (n : Nat) (Γ : Ctx) (fsRev : List Scc.Heap.Field),
    Γ.length = n → EnvFieldsRev μ base Γ.reverse fsRev → EnvFields μ base Γ fsRev.reverse := by
  intro n
  induction n with
  | zero =>
    intro Γ fsRev hn h
    have : Γ = [] := List.eq_nil_of_length_eq_zero hn
    subst this
    cases fsRev with
    | nil => trivial
    | cons _ _ => exact h.elim
  | succ n ih =>
    intro Γ fsRev hn h
    rcases List.eq_nil_or_concat Γ with rfl | ⟨bs, b, rfl⟩
    · simp at hn
    rw [List.concat_eq_append] at h hn ⊢
    rw [List.reverse_append] at h
    cases fsRev with
    | nil => exact h.elim
    | cons f fs =>
      obtain ⟨h1, h2⟩ := h
      rw [List.reverse_cons]
      exact EnvFields.snoc (ih bs fs (by simpa using hn) h2) (by simpa using h1)

theorem envFields_of_rev {μ : MState} (base : Nat) (Γ : Ctx) (fsRev : List Scc.Heap.Field)
    (h : EnvFieldsRev μ base Γ.reverse fsRev) : EnvFields μ base Γ fsRev.reverse :=
  envFields_of_rev_aux base Γ.length Γ fsRev rfl h

theorem EnvFields.append {μ : MState} : ∀ {n : Nat} {Γ1 Γ2 : Ctx} {f1 f2 : List Scc.Heap.Field},
    EnvFields μ n Γ1 f1 → EnvFields μ (n + Γ1.length) Γ2 f2 → EnvFields μ n (Γ1 ++ Γ2) (f1 ++ f2)
  | _, [], _, [], _, _, h2 => by simpa using h2
  | _, [], _, _ :: _, _, h1, _ => h1.elim
  | _, _ :: _, _, [], _, h1, _ => h1.elim
  | n, _ :: bs, _, _ :: _, _, h1, h2 =>
    ⟨h1.1, EnvFields.append h1.2 (by
      rw [List.length_cons, show n + (bs.length + 1) = n + 1 + bs.length by omega] at h2; exact h2)⟩

section Block
variable {c : MemCfg}

/-- CONTRACT of `load_values` -/
theorem m_loadValues (C : HeapCfgOK c) {μ : MState} {h h' : Scc.Heap.HState} (H : HRelM c μ h)
    {toLoad existing : Ctx} {mbr : Nat} (hm1 : 4 ≤ mbr) (hm2 : mbr < 30) (hme : mbr % 2 = 0) {bw : Word}
    (hvb : μ.val (.register (.x mbr)) = some bw) {mode : LoadMode}
    (hmb : ∀ j, 1 ≤ j → posTemp (2 * (existing.length + j)) ≠ .register (.x mbr))
    (hcap : 2 * (existing.length + toLoad.length) ≤ 280) {ff : Nat} (hff : ff ≤ 1000)
    {vs : List Scc.Heap.Field}
    (hop : Scc.Heap.loadValues h (toLoad.map kindOf) bw.toNat ff (modeMap mode) = .ok (h', vs))
    (hno : mode = .share → ∀ a, h'.mem.get a < 2 ^ 64) (k : Nat) :
    ∃ code k', (loadValues toLoad existing (.x mbr) ff mode).run k = .ok (code, k') ∧ k ≤ k' ∧
      LabsIn code k k' ∧
      ∃ μ', mFwd c code μ = some (μ', .next) ∧ HRelM c μ' h' ∧ EnvFields μ' existing.length toLoad vs ∧
        (∀ u, u ≠ .register (.x 2) → u ≠ .register (.x 3) →
          (∀ m, 2 * existing.length ≤ m → m < 2 * (existing.length + toLoad.length) → u ≠ posTemp m) →
          μ'.val u = μ.val u) := by
  unfold Scc.Heap.loadValues at hop
  rw [← List.map_reverse] at hop
  obtain ⟨cs, k', hr, hk, hl, μ', valsRev, x, H', hvs, hE, F⟩ := m_loadValuesLoop C (existing := existing) hm1 hm2
    hme hmb toLoad.reverse ff [] μ h h' vs k H (fun _ => hvb) (by simpa using hcap) hff hop hno
  rw [List.append_nil] at hvs
  subst hvs
  refine ⟨.COMMENT "###load values" :: cs, k', ?_, hk, hl.cons_other (by simp), μ',
    mFwd_seq c (mFwd_comment c _ μ) x, H', envFields_of_rev _ _ _ hE,
    fun u hT hT2 hu => F u hT hT2 (by simpa using hu)⟩
  unfold loadValues
  rw [genm_bind hr]
  rfl

end Block

end Scc.A64
