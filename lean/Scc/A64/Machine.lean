/-
  Scc.A64.Machine — SPEC: an AArch64 (A64) machine executing the assembly TEXT emitted by the
  compiler's AArch64 backend (harness line `S7a`), following /verif/lean/MACHINES.md.

  What is modelled (from the Arm A64 ISA, for exactly the instruction forms that
  /repo/lang/axcut2aarch64/src/code.rs `impl Print for Code` can print):
    ADD/SUB (shifted register, no shift) and (immediate, 12 bit, no shift), MUL, SDIV, MSUB,
    MOV (register; ORR alias, or ADD-immediate alias when SP is involved), MOVZ/MOVN/MOVK `LSL s`,
    LDR/STR (immediate, unsigned scaled offset), STP (pre-index, `[ b, i ]!`), LDP (post-index,
    `[ b ], i`), CMP (register / immediate), B, B.cond printed as BEQ/BNE/BLT/BLE/BGT/BGE (the
    pre-UAL spellings that LLVM's and GNU's assemblers accept for `B.EQ` …), BR, BL, ADR, RET,
    labels, `.text`, `.global`, comments `// …`.
  * Register 31 is XZR in data-processing-register forms and as transfer register of loads/stores,
    and SP in immediate forms and as base register; the other reading is the fault `bad-operand`.
  * Undefined-value (poison) tracking for registers, flags and stack memory; heap zero-filled.
    Pure data movement (MOV register-register, LDR, STR to the stack, STP/LDP) COPIES undefinedness
    (the emitted code moves dead temporaries, e.g. the unused first temporary of an `ext` variable);
    every USE (ALU operand, CMP, MOVK's old value, address computation, BR target, print argument,
    result, callee-saved check at RET, store into the HEAP, write to SP) of an undefined value is
    the fault `read-undefined`.
  * All code addresses: every instruction occupies 4 bytes, labels/comments/directives 0.
  * External calls `BL print_i64` / `BL println_i64`: argument X0, SP must be 16-aligned; afterwards
    X0–X18, X30, the flags and all stack memory below SP are undefined.
  * Every SP-based memory access requires SP ≡ 0 (mod 16) (fault `misaligned-sp`).
  * SDIV: divisor 0 is the fault `div-by-zero`, MIN / −1 the fault `div-overflow` (the hardware
    returns 0 resp. MIN; the properties exclude these inputs, the faults make the exclusion explicit).
  * An operand that the instruction form cannot encode is the fault `unencodable` when executed
    (and reported statically by the monitor `wf`).
  Monitors: `heap` (C09/C10: `Scc.Heap.invCheckFn` at every `// #ctx […]` hook), `cc` (always on:
  exit checks), `wf` (C14: `wfCheck`).
  Core/Std imports only; executable; total (fuel).
-/
import Std.Data.HashMap
import Scc.Heap.Model
import Scc.A64.Consts

namespace Scc.A64

abbrev Word := BitVec 64

/-! ## Syntax of the executed text -/

/-- Architectural register operand: `X0`–`X30`, `SP`, `XZR`. -/
inductive Reg where
  | x (n : Fin 31)
  | sp
  | xzr
  deriving DecidableEq, Repr, Inhabited

inductive Cond where
  | eq | ne | lt | le | gt | ge
  deriving DecidableEq, Repr, Inhabited

inductive Instr where
  | add (d n m : Reg)
  | addi (d n : Reg) (imm : Int)
  | sub (d n m : Reg)
  | subi (d n : Reg) (imm : Int)
  | mul (d n m : Reg)
  | sdiv (d n m : Reg)
  | msub (d n m a : Reg)
  | b (l : String)
  | br (r : Reg)
  | bl (l : String)
  | adr (d : Reg) (l : String)
  | mov (d s : Reg)
  | movz (d : Reg) (imm sh : Int)
  | movn (d : Reg) (imm sh : Int)
  | movk (d : Reg) (imm sh : Int)
  | ldr (t n : Reg) (imm : Int)
  | str (t n : Reg) (imm : Int)
  | stpPre (t1 t2 n : Reg) (imm : Int)
  | ldpPost (t1 t2 n : Reg) (imm : Int)
  | cmp (n m : Reg)
  | cmpi (n : Reg) (imm : Int)
  | bcond (c : Cond) (l : String)
  | ret
  deriving Repr, Inhabited

/-! ## Memory layout and machine state -/

structure MemCfg where
  heapBase : Nat
  heapBytes : Nat
  stackLow : Nat
  stackTop : Nat
  codeBase : Nat
  deriving Repr

/-- Heap of 32 MiB as in /repo/lang/driver/infrastructure/driver-template.c; 512 KiB stack. -/
def defaultMem : MemCfg :=
  { heapBase := 0x10000000, heapBytes := 0x2000000, stackLow := 0x7ff00000, stackTop := 0x7ff80000,
    codeBase := 0x400000 }

structure State where
  /-- X0 … X30; `none` = undefined -/
  regs : Vector (Option Word) 31
  sp : Word
  /-- operands of the last flag-setting comparison, `none` = undefined -/
  flags : Option (Word × Word)
  /-- written heap words (byte address ↦ word); unwritten heap words are 0 -/
  heap : Std.HashMap Nat Word
  /-- defined stack words; everything else in the stack region is undefined -/
  stack : Std.HashMap Nat Word
  /-- heap footprint: max over all heap stores of (address + 8 − heapBase); 0 = no store yet -/
  maxHeap : Nat

abbrev Fault := String

def regName : Reg → String
  | .x n => s!"X{n.val}"
  | .sp => "SP"
  | .xzr => "XZR"

def State.rdX (σ : State) (n : Fin 31) : Except Fault Word :=
  match σ.regs[n] with
  | some w => .ok w
  | none => .error s!"read-undefined X{n.val}"

def State.wrX (σ : State) (n : Fin 31) (w : Word) : State :=
  { σ with regs := σ.regs.set n (some w) }

/-- Source operand of a form in which register 31 is XZR. -/
def State.rdZ (σ : State) : Reg → Except Fault Word
  | .x n => σ.rdX n
  | .xzr => .ok 0
  | .sp => .error "bad-operand SP"

/-- Destination operand of a form in which register 31 is XZR. -/
def State.wrZ (σ : State) : Reg → Word → Except Fault State
  | .x n, w => .ok (σ.wrX n w)
  | .xzr, _ => .ok σ
  | .sp, _ => .error "bad-operand SP"

/-- Source operand of a pure move (`none` = undefined is copied, not a fault). -/
def State.getZ (σ : State) : Reg → Except Fault (Option Word)
  | .x n => .ok σ.regs[n]
  | .xzr => .ok (some 0)
  | .sp => .error "bad-operand SP"

/-- Destination operand of a pure move. -/
def State.putZ (σ : State) : Reg → Option Word → Except Fault State
  | .x n, w => .ok { σ with regs := σ.regs.set n w }
  | .xzr, _ => .ok σ
  | .sp, _ => .error "bad-operand SP"

/-- Source operand of a form in which register 31 is SP (no memory access: no alignment check). -/
def State.rdS (σ : State) : Reg → Except Fault Word
  | .x n => σ.rdX n
  | .sp => .ok σ.sp
  | .xzr => .error "bad-operand XZR"

/-- Destination operand of a form in which register 31 is SP. -/
def State.wrS (σ : State) : Reg → Word → Except Fault State
  | .x n, w => .ok (σ.wrX n w)
  | .sp, w => .ok { σ with sp := w }
  | .xzr, _ => .error "bad-operand XZR"

/-- Base register of a memory access: SP must be 16-byte aligned. -/
def State.base (σ : State) : Reg → Except Fault Word
  | .x n => σ.rdX n
  | .sp => if σ.sp.toNat % 16 = 0 then .ok σ.sp else .error "misaligned-sp"
  | .xzr => .error "bad-operand XZR"

def inHeap (c : MemCfg) (a : Nat) : Bool := decide (c.heapBase ≤ a) && decide (a + 8 ≤ c.heapBase + c.heapBytes)
def inStack (c : MemCfg) (a : Nat) : Bool := decide (c.stackLow ≤ a) && decide (a + 8 ≤ c.stackTop)

/-- One 8-byte load (`none` = an undefined stack word; loading it is not a fault, using it is). -/
def State.load (c : MemCfg) (σ : State) (a : Nat) : Except Fault (Option Word) :=
  if a % 8 ≠ 0 then .error s!"unaligned {a}"
  else if inHeap c a then .ok (some (σ.heap.getD a 0))
  else if inStack c a then .ok σ.stack[a]?
  else .error s!"oob {a}"

/-- One 8-byte store. Storing an undefined value is allowed into the stack only. -/
def State.store (c : MemCfg) (σ : State) (a : Nat) (w : Option Word) : Except Fault State :=
  if a % 8 ≠ 0 then .error s!"unaligned {a}"
  else if inHeap c a then
    match w with
    | some w => .ok { σ with heap := σ.heap.insert a w, maxHeap := max σ.maxHeap (a + 8 - c.heapBase) }
    | none => .error s!"read-undefined value stored to heap[{a}]"
  else if inStack c a then
    match w with
    | some w => .ok { σ with stack := σ.stack.insert a w }
    | none => .ok { σ with stack := σ.stack.erase a }
  else .error s!"oob {a}"

/-! ## Operand ranges of the instruction forms (also used by the monitor `wf`) -/

/-- ADD/SUB/CMP (immediate): unsigned 12-bit, no shift. -/
def okImm12 (i : Int) : Bool := decide (0 ≤ i) && decide (i < 4096)
/-- MOVZ/MOVN/MOVK: 16-bit immediate. -/
def okImm16 (i : Int) : Bool := decide (0 ≤ i) && decide (i < 65536)
/-- MOVZ/MOVN/MOVK: shift. -/
def okShift (s : Int) : Bool := s == 0 || s == 16 || s == 32 || s == 48
/-- LDR/STR (unsigned offset): multiple of 8 in 0 … 32760. -/
def okOff (i : Int) : Bool := decide (0 ≤ i) && decide (i ≤ 32760) && decide (i % 8 = 0)
/-- STP/LDP: signed 7-bit immediate scaled by 8: multiple of 8 in −512 … 504. -/
def okPairOff (i : Int) : Bool := decide (-512 ≤ i) && decide (i ≤ 504) && decide (i % 8 = 0)

def imm (i : Int) : Word := BitVec.ofInt 64 i

def minInt : Word := BitVec.ofNat 64 (2 ^ 63)

/-- SDIV with the excluded inputs as faults. -/
def sdivW (a b : Word) : Except Fault Word :=
  if b = 0 then .error "div-by-zero"
  else if a = minInt ∧ b = BitVec.ofInt 64 (-1) then .error "div-overflow"
  else .ok (a.sdiv b)

def movkW (old : Word) (i sh : Int) : Word :=
  (old &&& ~~~ ((0xFFFF : Word) <<< sh.toNat)) ||| ((imm i) <<< sh.toNat)

/-! ## Execution of the non-branching instructions -/

/-- Semantics of one data-processing / load / store instruction. Branching instructions
(`b br bl adr bcond ret`, which need the program) are handled by `step`. -/
def Instr.exec (c : MemCfg) : Instr → State → Except Fault State
  | .add d n m, σ => do
    let a ← σ.rdZ n
    let b ← σ.rdZ m
    σ.wrZ d (a + b)
  | .sub d n m, σ => do
    let a ← σ.rdZ n
    let b ← σ.rdZ m
    σ.wrZ d (a - b)
  | .addi d n i, σ =>
    if okImm12 i then do
      let a ← σ.rdS n
      σ.wrS d (a + imm i)
    else .error "unencodable ADD immediate"
  | .subi d n i, σ =>
    if okImm12 i then do
      let a ← σ.rdS n
      σ.wrS d (a - imm i)
    else .error "unencodable SUB immediate"
  | .mul d n m, σ => do
    let a ← σ.rdZ n
    let b ← σ.rdZ m
    σ.wrZ d (a * b)
  | .sdiv d n m, σ => do
    let a ← σ.rdZ n
    let b ← σ.rdZ m
    let q ← sdivW a b
    σ.wrZ d q
  | .msub d n m a, σ => do
    let vn ← σ.rdZ n
    let vm ← σ.rdZ m
    let va ← σ.rdZ a
    σ.wrZ d (va - vn * vm)
  | .mov d s, σ =>
    match d, s with
    | .sp, _ | _, .sp => do
      -- alias of ADD (immediate) #0
      let a ← σ.rdS s
      σ.wrS d a
    | _, _ => do
      -- alias of ORR (shifted register) with XZR; pure move
      let a ← σ.getZ s
      σ.putZ d a
  | .movz d i sh, σ =>
    if okImm16 i && okShift sh then σ.wrZ d ((imm i) <<< sh.toNat)
    else .error "unencodable MOVZ"
  | .movn d i sh, σ =>
    if okImm16 i && okShift sh then σ.wrZ d (~~~ ((imm i) <<< sh.toNat))
    else .error "unencodable MOVN"
  | .movk d i sh, σ =>
    if okImm16 i && okShift sh then do
      let old ← σ.rdZ d
      σ.wrZ d (movkW old i sh)
    else .error "unencodable MOVK"
  | .ldr t n i, σ =>
    if okOff i then do
      let b ← σ.base n
      let w ← σ.load c (b + imm i).toNat
      σ.putZ t w
    else .error "unencodable LDR offset"
  | .str t n i, σ =>
    if okOff i then do
      let b ← σ.base n
      let w ← σ.getZ t
      σ.store c (b + imm i).toNat w
    else .error "unencodable STR offset"
  | .stpPre t1 t2 n i, σ =>
    if !okPairOff i then .error "unencodable STP offset"
    else if n == t1 || n == t2 then .error "unpredictable STP writeback"
    else do
      let b ← σ.base n
      let a := b + imm i
      let w1 ← σ.getZ t1
      let w2 ← σ.getZ t2
      let σ1 ← σ.store c a.toNat w1
      let σ2 ← σ1.store c (a + 8).toNat w2
      σ2.wrS n a
  | .ldpPost t1 t2 n i, σ =>
    if !okPairOff i then .error "unencodable LDP offset"
    else if n == t1 || n == t2 || (t1 == t2 && t1 != .xzr) then .error "unpredictable LDP"
    else do
      let b ← σ.base n
      let w1 ← σ.load c b.toNat
      let w2 ← σ.load c (b + 8).toNat
      let σ1 ← σ.putZ t1 w1
      let σ2 ← σ1.putZ t2 w2
      σ2.wrS n (b + imm i)
  | .cmp n m, σ => do
    let a ← σ.rdZ n
    let b ← σ.rdZ m
    pure { σ with flags := some (a, b) }
  | .cmpi n i, σ =>
    if okImm12 i then do
      let a ← σ.rdS n
      pure { σ with flags := some (a, imm i) }
    else .error "unencodable CMP immediate"
  | _, _ => .error "branching instruction"

/-- Interpretation of a condition on the operands of the last comparison (signed). -/
def Cond.holds : Cond → Word → Word → Bool
  | .eq, a, b => a == b
  | .ne, a, b => a != b
  | .lt, a, b => a.slt b
  | .le, a, b => a.sle b
  | .gt, a, b => b.slt a
  | .ge, a, b => b.sle a

/-! ## Parser -/

inductive Kind where
  | prd | cns | ext
  deriving DecidableEq, Repr, Inhabited

inductive PLine where
  | blank
  | comment
  | directive
  | label (l : String)
  | hook (vars : List (String × Kind))
  | instr (i : Instr)
  deriving Repr, Inhabited

/-- Split an operand string into tokens: blanks separate, `, [ ] !` are tokens of their own. -/
def tokenize (s : String) : List String :=
  let rec go (cs : List Char) (cur : List Char) (acc : List String) : List String :=
    let flush := if cur.isEmpty then acc else String.ofList cur.reverse :: acc
    match cs with
    | [] => flush.reverse
    | c :: rest =>
      if c == ' ' then go rest [] flush
      else if c == ',' || c == '[' || c == ']' || c == '!' then go rest [] (String.singleton c :: flush)
      else go rest (c :: cur) acc
  go s.toList [] []

def parseReg (s : String) : Option Reg :=
  if s == "SP" then some .sp
  else if s == "XZR" then some .xzr
  else match s.toList with
    | 'X' :: ds =>
      match (String.ofList ds).toNat? with
      | some n => if h : n < 31 then (if toString n == String.ofList ds then some (.x ⟨n, h⟩) else none) else none
      | none => none
    | _ => none

def parseImm (s : String) : Option Int :=
  match s.toList with
  | '-' :: ds =>
    match (String.ofList ds).toNat? with
    | some n => if toString n == String.ofList ds then some (-(n : Int)) else none
    | none => none
  | ds =>
    match (String.ofList ds).toNat? with
    | some n => if toString n == String.ofList ds then some (n : Int) else none
    | none => none

def validLabel (l : String) : Bool :=
  !l.isEmpty && l.toList.all (fun c => c != ' ' && c != ',' && c != ':' && c != '\t')

def parseKind : String → Option Kind
  | "prd" => some .prd
  | "cns" => some .cns
  | "ext" => some .ext
  | _ => none

/-- `x_41:ext` (split at the LAST colon). -/
def parseHookVar (s : String) : Option (String × Kind) :=
  match (s.splitOn ":").reverse with
  | k :: rest@(_ :: _) =>
    match parseKind k with
    | some kind => some (":".intercalate rest.reverse, kind)
    | none => none
  | _ => none

def parseInstr (mn : String) (ops : String) : Option Instr :=
  let toks := tokenize ops
  let reg3 (f : Reg → Reg → Reg → Instr) : Option Instr :=
    match toks with
    | [a, ",", b, ",", c] => do pure (f (← parseReg a) (← parseReg b) (← parseReg c))
    | _ => none
  let regRegX (fr : Reg → Reg → Reg → Instr) (fi : Reg → Reg → Int → Instr) : Option Instr :=
    match toks with
    | [a, ",", b, ",", c] =>
      match parseReg c with
      | some rc => do pure (fr (← parseReg a) (← parseReg b) rc)
      | none => do pure (fi (← parseReg a) (← parseReg b) (← parseImm c))
    | _ => none
  let wide (f : Reg → Int → Int → Instr) : Option Instr :=
    match toks with
    | [a, ",", i, ",", "LSL", s] => do pure (f (← parseReg a) (← parseImm i) (← parseImm s))
    | _ => none
  let lab (f : String → Instr) : Option Instr :=
    let l := ops.trimAscii.toString
    if validLabel l then some (f l) else none
  match mn with
  | "ADD" => regRegX .add .addi
  | "SUB" => regRegX .sub .subi
  | "MUL" => reg3 .mul
  | "SDIV" => reg3 .sdiv
  | "MSUB" =>
    match toks with
    | [a, ",", b, ",", c, ",", d] =>
      do pure (.msub (← parseReg a) (← parseReg b) (← parseReg c) (← parseReg d))
    | _ => none
  | "B" => lab .b
  | "BL" => lab .bl
  | "BEQ" => lab (.bcond .eq)
  | "BNE" => lab (.bcond .ne)
  | "BLT" => lab (.bcond .lt)
  | "BLE" => lab (.bcond .le)
  | "BGT" => lab (.bcond .gt)
  | "BGE" => lab (.bcond .ge)
  | "BR" =>
    match toks with
    | [a] => do pure (.br (← parseReg a))
    | _ => none
  | "ADR" =>
    match toks with
    | [a, ",", l] => if validLabel l then do pure (.adr (← parseReg a) l) else none
    | _ => none
  | "MOV" =>
    match toks with
    | [a, ",", b] => do pure (.mov (← parseReg a) (← parseReg b))
    | _ => none
  | "MOVZ" => wide .movz
  | "MOVN" => wide .movn
  | "MOVK" => wide .movk
  | "LDR" =>
    match toks with
    | [t, ",", "[", n, ",", i, "]"] => do pure (.ldr (← parseReg t) (← parseReg n) (← parseImm i))
    | _ => none
  | "STR" =>
    match toks with
    | [t, ",", "[", n, ",", i, "]"] => do pure (.str (← parseReg t) (← parseReg n) (← parseImm i))
    | _ => none
  | "STP" =>
    match toks with
    | [t1, ",", t2, ",", "[", n, ",", i, "]", "!"] =>
      do pure (.stpPre (← parseReg t1) (← parseReg t2) (← parseReg n) (← parseImm i))
    | _ => none
  | "LDP" =>
    match toks with
    | [t1, ",", t2, ",", "[", n, "]", ",", i] =>
      do pure (.ldpPost (← parseReg t1) (← parseReg t2) (← parseReg n) (← parseImm i))
    | _ => none
  | "CMP" =>
    match toks with
    | [a, ",", b] =>
      match parseReg b with
      | some rb => do pure (.cmp (← parseReg a) rb)
      | none => do pure (.cmpi (← parseReg a) (← parseImm b))
    | _ => none
  | "RET" => if toks.isEmpty then some .ret else none
  | _ => none

def parseLine (raw : String) : Option PLine :=
  let t := raw.trimAscii.toString
  if t.isEmpty then some .blank
  else if t.startsWith "//" then
    if t.startsWith "// #ctx [" then
      if t.endsWith "]" then
        let inner := ((t.drop 9).dropEnd 1).toString
        let ws := (inner.splitOn " ").filter (· ≠ "")
        match ws.mapM parseHookVar with
        | some vs => some (.hook vs)
        | none => none
      else none
    else some .comment
  else if t.startsWith "." then
    match (t.splitOn " ").filter (· ≠ "") with
    | [".text"] => some .directive
    | [".global", l] => if validLabel l then some .directive else none
    | _ => none
  else if t.endsWith ":" then
    let l := (t.dropEnd 1).toString
    if validLabel l then some (.label l) else none
  else
    match t.splitOn " " with
    | [] => none
    | mn :: rest =>
      match parseInstr mn (" ".intercalate rest) with
      | some i => some (.instr i)
      | none => none

/-- All lines with their 1-based numbers, or the first line that does not parse. -/
def parseText (text : String) : Except String (List (Nat × PLine)) :=
  let rec go : List String → Nat → List (Nat × PLine) → Except String (List (Nat × PLine))
    | [], _, acc => .ok acc.reverse
    | l :: ls, n, acc =>
      match parseLine l with
      | some p => go ls (n + 1) ((n, p) :: acc)
      | none => .error s!"PARSE-ERROR line {n}: {l}"
  go (text.splitOn "\n") 1 []

/-! ## Program layout -/

inductive Item where
  | instr (i : Instr)
  | hook (vars : List (String × Kind))
  deriving Repr, Inhabited

structure Prog where
  items : Array Item
  /-- source line of each item -/
  lines : Array Nat
  /-- byte offset from `codeBase` of each item (hooks have the offset of the next instruction) -/
  offs : Array Nat
  /-- label ↦ item index (the first definition; duplicates are a `wf` matter) -/
  labels : Std.HashMap String Nat
  /-- code offset of an instruction ↦ item index at which an indirect jump to it enters (the hooks
  that directly precede the instruction after the last label are executed as well) -/
  entries : Std.HashMap Nat Nat

structure LayoutAcc where
  items : Array Item := #[]
  lines : Array Nat := #[]
  offs : Array Nat := #[]
  labels : Std.HashMap String Nat := ∅
  entries : Std.HashMap Nat Nat := ∅
  off : Nat := 0
  entry : Option Nat := none

def layout (ls : List (Nat × PLine)) : Prog :=
  let acc := ls.foldl (init := ({} : LayoutAcc)) fun acc (ln, p) =>
    match p with
    | .blank | .comment | .directive => acc
    | .label l =>
      { acc with
        labels := if acc.labels.contains l then acc.labels else acc.labels.insert l acc.items.size,
        entry := some acc.items.size }
    | .hook vs =>
      { acc with
        items := acc.items.push (.hook vs), lines := acc.lines.push ln, offs := acc.offs.push acc.off,
        entry := match acc.entry with | some e => some e | none => some acc.items.size }
    | .instr i =>
      { acc with
        items := acc.items.push (.instr i), lines := acc.lines.push ln, offs := acc.offs.push acc.off,
        entries := acc.entries.insert acc.off (acc.entry.getD acc.items.size),
        off := acc.off + 4, entry := none }
  { items := acc.items, lines := acc.lines, offs := acc.offs, labels := acc.labels, entries := acc.entries }

/-! ## Monitor `wf` (C14) -/

def isExternal (l : String) : Bool := l == "print_i64" || l == "println_i64"

def isX : Reg → Bool
  | .x _ => true
  | _ => false
def isXorZ : Reg → Bool
  | .sp => false
  | _ => true
def isXorSP : Reg → Bool
  | .xzr => false
  | _ => true

/-- Operand check of one instruction form: `none` = encodable. -/
def Instr.wfError : Instr → Option String
  | .add d n m | .sub d n m | .mul d n m | .sdiv d n m =>
    if isXorZ d && isXorZ n && isXorZ m then none else some "SP operand in a register form"
  | .msub d n m a =>
    if isXorZ d && isXorZ n && isXorZ m && isXorZ a then none else some "SP operand in a register form"
  | .addi d n i | .subi d n i =>
    if !(isXorSP d && isXorSP n) then some "XZR operand in an immediate form"
    else if !okImm12 i then some s!"immediate {i} not in 0..4095" else none
  | .cmp n m => if isXorZ n && isXorZ m then none else some "SP operand in a register form"
  | .cmpi n i =>
    if !isXorSP n then some "XZR operand in an immediate form"
    else if !okImm12 i then some s!"immediate {i} not in 0..4095" else none
  | .mov d s =>
    match d, s with
    | .sp, .xzr | .xzr, .sp => some "MOV between SP and XZR"
    | _, _ => none
  | .movz d i sh | .movn d i sh | .movk d i sh =>
    if !isXorZ d then some "SP operand in a move-wide form"
    else if !okImm16 i then some s!"halfword {i} not in 0..65535"
    else if !okShift sh then some s!"shift {sh} not in 0,16,32,48" else none
  | .ldr t n i | .str t n i =>
    if !(isXorZ t && isXorSP n) then some "bad register class in a load/store form"
    else if !okOff i then some s!"offset {i} not a multiple of 8 in 0..32760" else none
  | .stpPre t1 t2 n i =>
    if !(isXorZ t1 && isXorZ t2 && isXorSP n) then some "bad register class in a load/store form"
    else if !okPairOff i then some s!"pair offset {i} not a multiple of 8 in -512..504"
    else if n == t1 || n == t2 then some "writeback base is a transfer register" else none
  | .ldpPost t1 t2 n i =>
    if !(isXorZ t1 && isXorZ t2 && isXorSP n) then some "bad register class in a load/store form"
    else if !okPairOff i then some s!"pair offset {i} not a multiple of 8 in -512..504"
    else if n == t1 || n == t2 then some "writeback base is a transfer register"
    else if t1 == t2 && t1 != .xzr then some "LDP with equal transfer registers" else none
  | .br r => if isX r then none else some "BR needs a general register"
  | .adr d _ => if isXorZ d then none else some "SP operand in ADR"
  | .b _ | .bl _ | .bcond _ _ | .ret => none

/-- Referenced label of an instruction, with `true` if an external symbol is acceptable there and
the reach of the form in bytes (B/BL ±128 MiB, B.cond and ADR ±1 MiB). -/
def Instr.target : Instr → Option (String × Bool × Nat)
  | .b l => some (l, false, 0x8000000)
  | .bl l => some (l, true, 0x8000000)
  | .bcond _ l => some (l, false, 0x100000)
  | .adr _ l => some (l, false, 0x100000)
  | _ => none

/-- C14 check of a text: parses; every label defined exactly once; every referenced label defined
(or, for `BL`, one of the two runtime symbols); `asm_main` defined; operand classes and ranges of
every instruction form; every branch/ADR target within reach of its form and (internal targets)
followed by an instruction; `ADR` targets (jump tables, clause code) start an instruction, so with
the fixed instruction size 4 the entries `B l` of a table are `4 k` bytes after the table label. -/
def wfCheck (text : String) : Except String Unit :=
  match parseText text with
  | .error e => .error e
  | .ok ls =>
    let p := layout ls
    -- duplicate labels
    let dup := ls.foldl (init := ((∅ : Std.HashMap String Nat), (none : Option String)))
      fun (seen, err) (ln, pl) =>
        match pl with
        | .label l =>
          if seen.contains l then (seen, err.or (some s!"WF-ERROR line {ln}: label {l} defined twice"))
          else if isExternal l then (seen, err.or (some s!"WF-ERROR line {ln}: label {l} clashes with a runtime symbol"))
          else (seen.insert l ln, err)
        | _ => (seen, err)
    match dup.2 with
    | some e => .error e
    | none =>
    if !p.labels.contains "asm_main" then .error "WF-ERROR line 0: entry label asm_main not defined" else
    let rec go (k : Nat) (fuel : Nat) : Except String Unit :=
      match fuel with
      | 0 => .ok ()
      | fuel + 1 =>
        if h : k < p.items.size then
          let ln := p.lines.getD k 0
          match p.items[k] with
          | .hook _ => go (k + 1) fuel
          | .instr i =>
            match i.wfError with
            | some e => .error s!"WF-ERROR line {ln}: {e}"
            | none =>
              match i.target with
              | none => go (k + 1) fuel
              | some (l, extOk, reach) =>
                match p.labels[l]? with
                | none =>
                  if extOk && isExternal l then go (k + 1) fuel
                  else .error s!"WF-ERROR line {ln}: label {l} not defined"
                | some j =>
                  if j ≥ p.items.size then .error s!"WF-ERROR line {ln}: label {l} is not followed by an instruction"
                  else
                    let a := p.offs.getD k 0
                    let b := p.offs.getD j 0
                    if (if a ≤ b then b - a else a - b) ≥ reach then
                      .error s!"WF-ERROR line {ln}: label {l} out of reach"
                    else go (k + 1) fuel
        else .ok ()
    go 0 (p.items.size + 1)

/-! ## Running a program -/

structure MonCfg where
  mem : MemCfg := defaultMem
  /-- run `Scc.Heap.invCheckFn` at every `#ctx` hook -/
  heap : Bool := false
  /-- run `wfCheck` before executing -/
  wf : Bool := false
  deriving Repr

inductive Res where
  | done (v : Word)
  | fault (why : String) (pcLine : Nat)
  | ccViolation (what : String)
  | invFail (what : String) (pcLine : Nat)
  | outOfFuel
  deriving Repr, Inhabited

structure RunResult where
  out : List (Bool × Word)
  res : Res
  steps : Nat
  maxHeapWritten : Nat
  heapBlocksBelowFrontier : Nat
  deriving Repr, Inhabited

/-- Entry sentinels: callee-saved X19–X29 and the link register X30. -/
def sentinel (n : Nat) : Word := BitVec.ofNat 64 (0xC0DE000000000000 + n)

/-- AAPCS64 entry state: X0 = heap, X1.. = arguments, callee-saved registers and LR defined
sentinels, SP = stackTop, everything else undefined. -/
def entryState (c : MemCfg) (args : List Word) : State :=
  let regs : Vector (Option Word) 31 := Vector.ofFn fun (i : Fin 31) =>
    if i.val = 0 then some (BitVec.ofNat 64 c.heapBase)
    else if i.val ≤ 7 then args[i.val - 1]?
    else if 19 ≤ i.val then some (sentinel i.val)
    else none
  { regs := regs, sp := BitVec.ofNat 64 c.stackTop, flags := none, heap := ∅, stack := ∅, maxHeap := 0 }

/-- Effect of an external call on the state (the argument has been read already). -/
def State.clobberCall (σ : State) : State :=
  { σ with
    regs := Vector.ofFn fun (i : Fin 31) => if i.val ≤ 18 ∨ i.val = 30 then none else σ.regs[i],
    flags := none,
    stack := σ.stack.filter fun a _ => decide (σ.sp.toNat ≤ a) }

/-- `BL print_i64` / `BL println_i64`. -/
def State.callExternal (σ : State) : Except Fault (Word × State) :=
  if σ.sp.toNat % 16 ≠ 0 then .error "misaligned-call"
  else
    match σ.rdX 0 with
    | .error e => .error e
    | .ok w => .ok (w, σ.clobberCall)

/-- Checks at `RET`. -/
def exitCheck (c : MemCfg) (σ : State) : Res :=
  match σ.regs[(30 : Fin 31)] with
  | none => .fault "read-undefined X30" 0
  | some lr =>
    if lr ≠ sentinel 30 then .ccViolation "X30"
    else if σ.sp ≠ BitVec.ofNat 64 c.stackTop then .ccViolation "SP"
    else
      match (List.range 11).find? (fun k => σ.regs[19 + k]? != some (some (sentinel (19 + k)))) with
      | some k => .ccViolation s!"X{19 + k}"
      | none =>
        match σ.regs[(0 : Fin 31)] with
        | none => .fault "read-undefined X0" 0
        | some v => .done v

inductive StepOut where
  | next (σ : State) (pc : Nat)
  | print (nl : Bool) (w : Word) (σ : State) (pc : Nat)
  | stop (r : Res)

def Prog.labelAddr (p : Prog) (c : MemCfg) (l : String) : Except Fault Word :=
  match p.labels[l]? with
  | none => .error s!"undefined-label {l}"
  | some j =>
    if j < p.items.size then .ok (BitVec.ofNat 64 (c.codeBase + p.offs.getD j 0))
    else .error s!"label-at-end {l}"

def Prog.gotoLabel (p : Prog) (σ : State) (l : String) : StepOut :=
  match p.labels[l]? with
  | none => .stop (.fault s!"undefined-label {l}" 0)
  | some j => .next σ j

/-- One instruction. `pc` is the index of the item `.instr i`. -/
def step (p : Prog) (c : MemCfg) (i : Instr) (σ : State) (pc : Nat) : StepOut :=
  match i with
  | .b l => p.gotoLabel σ l
  | .bcond cd l =>
    match σ.flags with
    | none => .stop (.fault "read-undefined flags" 0)
    | some (a, b) => if cd.holds a b then p.gotoLabel σ l else .next σ (pc + 1)
  | .bl l =>
    if isExternal l then
      match σ.callExternal with
      | .error e => .stop (.fault e 0)
      | .ok (w, σ') => .print (l == "println_i64") w σ' (pc + 1)
    else
      -- internal call: X30 := return address
      match p.gotoLabel σ l with
      | .next σ' j => .next (σ'.wrX 30 (BitVec.ofNat 64 (c.codeBase + p.offs.getD pc 0 + 4))) j
      | o => o
  | .br r =>
    match r with
    | .x n =>
      match σ.rdX n with
      | .error e => .stop (.fault e 0)
      | .ok a =>
        let a := a.toNat
        if a < c.codeBase then .stop (.fault s!"jump-to-non-instruction {a}" 0)
        else match p.entries[a - c.codeBase]? with
          | some j => .next σ j
          | none => .stop (.fault s!"jump-to-non-instruction {a}" 0)
    | _ => .stop (.fault "bad-operand BR" 0)
  | .adr d l =>
    match p.labelAddr c l with
    | .error e => .stop (.fault e 0)
    | .ok a =>
      match σ.wrZ d a with
      | .error e => .stop (.fault e 0)
      | .ok σ' => .next σ' (pc + 1)
  | .ret => .stop (exitCheck c σ)
  | i =>
    match i.exec c σ with
    | .error e => .stop (.fault e 0)
    | .ok σ' => .next σ' (pc + 1)

/-! ### Monitor `heap` -/

/-- Value of the FIRST temporary of the variable at context position `i`
(utils.rs `variable_temporary(Fst, …)` / `temporary_from_position` with the constants of Consts.lean). -/
def rootOf (c : MemCfg) (σ : State) (i : Nat) : Except String Nat :=
  let registerNumber := 2 * i + RESERVED
  if registerNumber < REGISTER_NUM then
    let a := archNumber registerNumber
    if h : a < 31 then
      match σ.regs[a] with
      | some w => .ok w.toNat
      | none => .error s!"root register X{a} undefined"
    else .error "root register out of range"
  else
    let spill := registerNumber - REGISTER_NUM + RESERVED_SPILLS
    let addr := (σ.sp + imm (stackOffset spill)).toNat
    match σ.load c addr with
    | .ok (some w) => .ok w.toNat
    | .ok none => .error s!"root spill {spill} undefined"
    | .error e => .error s!"root spill {spill}: {e}"

def heapMonitor (c : MemCfg) (σ : State) (vars : List (String × Kind)) : Except String Nat :=
  let rec roots : List (String × Kind) → Nat → List Nat → Except String (List Nat)
    | [], _, acc => .ok acc.reverse
    | (_, k) :: vs, i, acc =>
      if k == .ext then roots vs (i + 1) acc
      else match rootOf c σ i with
        | .ok r => roots vs (i + 1) (r :: acc)
        | .error e => .error e
  match roots vars 0 [] with
  | .error e => .error e
  | .ok rs =>
    match σ.regs[archNumber consts.heap]?, σ.regs[archNumber consts.free]? with
    | some (some h), some (some f) =>
      -- words never stored to are zero, so it suffices to inspect the heap up to a few blocks
      -- above the highest word written
      let ext := (σ.maxHeap + 63) / 64 * 64 + 8 * 64
      let limit := c.heapBase + min c.heapBytes ext
      match Scc.Heap.invCheckFn (fun a => (σ.heap.getD a 0).toNat) c.heapBase limit h.toNat f.toNat rs [] with
      | .error e => .error e
      | .ok (_, _, _, frontier) => .ok ((frontier - c.heapBase) / Scc.Heap.blockSize)
    | _, _ => .error "HEAP or FREE register undefined"

structure Machine where
  σ : State
  pc : Nat
  out : List (Bool × Word)
  steps : Nat
  blocks : Nat

def finish (m : Machine) (r : Res) : RunResult :=
  { out := m.out.reverse, res := r, steps := m.steps, maxHeapWritten := m.σ.maxHeap,
    heapBlocksBelowFrontier := m.blocks }

def withLine (ln : Nat) : Res → Res
  | .fault w _ => .fault w ln
  | .invFail w _ => .invFail w ln
  | r => r

def runLoop (p : Prog) (cfg : MonCfg) : Nat → Machine → RunResult
  | 0, m => finish m .outOfFuel
  | fuel + 1, m =>
    if h : m.pc < p.items.size then
      let ln := p.lines.getD m.pc 0
      match p.items[m.pc] with
      | .hook vars =>
        if cfg.heap then
          match heapMonitor cfg.mem m.σ vars with
          | .error e => finish m (.invFail e ln)
          | .ok b => runLoop p cfg fuel { m with pc := m.pc + 1, blocks := max m.blocks b }
        else runLoop p cfg fuel { m with pc := m.pc + 1 }
      | .instr i =>
        match step p cfg.mem i m.σ m.pc with
        | .next σ pc => runLoop p cfg fuel { m with σ := σ, pc := pc, steps := m.steps + 1 }
        | .print nl w σ pc =>
          runLoop p cfg fuel { m with σ := σ, pc := pc, steps := m.steps + 1, out := (nl, w) :: m.out }
        | .stop r => finish { m with steps := m.steps + 1 } (withLine ln r)
    else finish m (.fault "fell-off-end" (p.lines.getD (p.items.size - 1) 0))

/-- Run a parsed program from `asm_main`. Hooks consume fuel as well. -/
def runProg (p : Prog) (args : List Word) (fuel : Nat) (cfg : MonCfg) : RunResult :=
  match p.labels["asm_main"]? with
  | none => { out := [], res := .fault "undefined-label asm_main" 0, steps := 0, maxHeapWritten := 0,
              heapBlocksBelowFrontier := 0 }
  | some j =>
    if args.length > 7 then
      { out := [], res := .fault "too-many-arguments" 0, steps := 0, maxHeapWritten := 0,
        heapBlocksBelowFrontier := 0 }
    else
      runLoop p cfg fuel { σ := entryState cfg.mem args, pc := j, out := [], steps := 0, blocks := 0 }

/-- Structured API. A text that does not parse (or, with `cfg.wf`, is not well-formed) is reported as
a fault at line 0 whose message is the `PARSE-ERROR …` / `WF-ERROR …` line. -/
def run (text : String) (args : List Word) (fuel : Nat) (cfg : MonCfg) : RunResult :=
  let bad (e : String) : RunResult :=
    { out := [], res := .fault e 0, steps := 0, maxHeapWritten := 0, heapBlocksBelowFrontier := 0 }
  match parseText text with
  | .error e => bad e
  | .ok ls =>
    match (if cfg.wf then wfCheck text else .ok ()) with
    | .error e => bad e
    | .ok () => runProg (layout ls) args fuel cfg

/-! ## Line protocol -/

def renderOut (out : List (Bool × Word)) : String :=
  "[" ++ ",".intercalate (out.map fun (nl, w) => (if nl then "1:" else "0:") ++ toString w.toInt) ++ "]"

def Res.render : Res → String
  | .done v => s!"done:{v.toInt}"
  | .fault w ln => s!"fault:{w}@{ln}"
  | .ccViolation w => s!"cc:{w}"
  | .invFail w ln => s!"inv:{w}@{ln}"
  | .outOfFuel => "outOfFuel"

def RunResult.render (r : RunResult) (withBlocks : Bool) : String :=
  s!"OK out={renderOut r.out} res={r.res.render} steps={r.steps} maxheap={r.maxHeapWritten}" ++
    (if withBlocks then s!" blocks={r.heapBlocksBelowFrontier}" else "")

/-- `mon`: words separated by `,` or blanks: `heap`, `wf`, `heapbytes=<n>` (size of the heap region;
`heapsize=<n>` is accepted too), `cc` / `none` (no effect: the exit checks are always on). -/
def parseMon (mon : String) : Option MonCfg :=
  let words := ((String.ofList (mon.toList.map fun c => if c == ',' then ' ' else c)).splitOn " ").filter (· ≠ "")
  words.foldlM (init := ({} : MonCfg)) fun cfg tok =>
    if tok == "none" || tok == "cc" then some cfg
    else if tok == "heap" then some { cfg with heap := true }
    else if tok == "wf" then some { cfg with wf := true }
    else if tok.startsWith "heapbytes=" then
      match (tok.drop 10).toString.toNat? with
      | some n => some { cfg with mem := { cfg.mem with heapBytes := n } }
      | none => none
    else if tok.startsWith "heapsize=" then
      match (tok.drop 9).toString.toNat? with
      | some n => some { cfg with mem := { cfg.mem with heapBytes := n } }
      | none => none
    else none

def parseArgs (args : String) : Option (List Word) :=
  ((args.splitOn " ").filter (· ≠ "")).mapM fun a => (a.toInt?).map (BitVec.ofInt 64)

/-- `asmText`: the routine text (S7a); `args`: blank-separated signed decimal arguments of main;
`mon`: see `parseMon`. Reply: `OK out=[..] res=.. steps=.. maxheap=..` (+ ` blocks=..` with `heap`) |
`PARSE-ERROR line <n>: <text>` | `WF-ERROR line <n>: <what>` | `BAD <what>`. -/
def runLine (asmText args : String) (fuel : Nat) (mon : String) : String :=
  match parseMon mon, parseArgs args with
  | none, _ => "BAD monitor selection"
  | _, none => "BAD arguments"
  | some cfg, some as =>
    match parseText asmText with
    | .error e => e
    | .ok ls =>
      match (if cfg.wf then wfCheck asmText else .ok ()) with
      | .error e => e
      | .ok () => (runProg (layout ls) as fuel cfg).render cfg.heap

/-- `wf` as a line function: `WF OK` | `PARSE-ERROR …` | `WF-ERROR …`. -/
def wfLine (asmText : String) : String :=
  match wfCheck asmText with
  | .ok () => "WF OK"
  | .error e => e

end Scc.A64
